// Command c12: property C12 — reference resolution follows RFC 3986 section 5.2 without normalisation.
//
//   - T3 correspondence: `iri.parse`, `iri.resolve` (real iri.ParseIRI / ParsedIRI.Parse / String) against
//     Spec.RFC3986 executed by the compiled Lean driver; `iri.resolvePath` (hook) against Model.IRI.resolvePath;
//     `iri.reclass` / `iri.string` (wrapper logic of ParseIRI / String with net/url as the supplied parameter).
//   - property oracle on the implementation: an independent Go rendering of RFC 3986 5.2 (rfc3986.go).
//   - known-finding predicates (classes.go), mirrored in lean/RdfModel/Props/C12Defs.lean.
package main

import (
	"encoding/json"
	"flag"
	"fmt"
	"net/url"
	"os"
	"sort"
	"strings"

	"verifharness/vh"

	"github.com/dpb587/rdfkit-go/iri"
)

var (
	tier     = flag.String("tier", "quick", "quick|thorough")
	driver   = flag.String("driver", "/verif/lean/.lake/build/bin/driver", "lean driver binary")
	out      = flag.String("out", "/verif/evidence/.c12.report.json", "report path")
	findings = flag.String("findings", "/verif/known-findings.json", "known findings")
	replay   = flag.String("replay", "", "replay file (one protocol line per line)")
	scale    = flag.Int("scale", 1, "multiply generated case counts (search mode uses 10)")
	nomodel  = flag.Bool("nomodel", false, "property oracle on the implementation only (search mode / driver unavailable)")
	hints    = flag.String("hints", "", "file of protocol lines that disagreed; their inputs are pushed through the oracle first")
	part     = flag.String("part", "spec", "spec: code vs Spec.RFC3986 + class oracle (property C12 as before); wrap: code vs the Lean model of ParsedIRI/net/url (part C12W, wrap.go); all: both")
)

func doSpec() bool { return *part != "wrap" }
func doWrap() bool { return *part != "spec" }

// development aid (not a flag, so that the command line stays that of cmd/c01): C12_TRIAGE=1 prints
// every unclassified deviation grouped by the classes that hold on it instead of failing
var triage = func() *bool { b := os.Getenv("C12_TRIAGE") != ""; return &b }()

// ---------------------------------------------------------------- implementation side

func goParse(s string) (res string) {
	defer func() {
		if p := recover(); p != nil {
			res = fmt.Sprintf("panic:%v", p)
		}
	}()
	p, err := iri.ParseIRI(s)
	if err != nil {
		return "err"
	}
	return vh.XS(p.String())
}

func goResolve(base, ref string) (res string) {
	defer func() {
		if p := recover(); p != nil {
			res = fmt.Sprintf("panic:%v", p)
		}
	}()
	b, err := iri.ParseIRI(base)
	if err != nil {
		return "err-base"
	}
	t, err := b.Parse(ref)
	if err != nil {
		return "err-ref"
	}
	return vh.XS(t.String())
}

func goResolvePath(base, ref string) (res string) {
	defer func() {
		if p := recover(); p != nil {
			res = "panic"
		}
	}()
	return vh.XS(iri.VerifResolvePath(base, ref))
}

// wrapper: the parts of ParseIRI / String that are modelled (Model.IRI.reclassify, forceFragment,
// stringFix), exercised with the real net/url supplying what the model takes as parameters.
func (g *run) wrapper(s string, p *iri.ParsedIRI) {
	if u0, err := url.Parse(s); err == nil && p != nil {
		pu := p.URL()
		force, opq := iri.VerifFlags(p)
		line := fmt.Sprintf("iri.reclass %s %s %s %s %s %s", vh.XS(u0.Scheme), vh.XS(u0.Opaque), vh.XS(u0.Host), vh.XS(u0.Path), vh.XS(u0.RawPath), vh.XS(s))
		g.add("reclass", line, strings.Join([]string{vh.XS(pu.Opaque), vh.XS(pu.Path), vh.XS(pu.RawPath), vh.B01(opq), vh.B01(force)}, ","), s, "", opq)
	}
	if p != nil {
		g.stringOp(p)
	}
}

func (g *run) stringOp(p *iri.ParsedIRI) {
	u := p.URL()
	force, _ := iri.VerifFlags(p)
	line := fmt.Sprintf("iri.string %s %s %s %s %s %s", vh.XS(u.String()), vh.XS(u.EscapedPath()), vh.XS(u.RawPath), vh.XS(u.EscapedFragment()), vh.XS(u.RawFragment), vh.B01(force))
	g.add("string", line, vh.XS(p.String()), "", "", u.RawPath != "" || u.RawFragment != "" || force)
}

func (g *run) classesOp(isParse bool, a, b string) {
	k, op := "r", "iri.resolve"
	if isParse {
		k, op = "p", "iri.parse"
	}
	want := strings.Join(classify(op, a, b), ",")
	if want == "" {
		want = "-"
	}
	g.add("classes", "iri.classes "+k+" "+vh.XS(a)+" "+vh.XS(b), want, a, b, want != "-")
}

// ---------------------------------------------------------------- run state

type item struct {
	line string
	goR  string
	kind string
	a, b string // inputs (base/ref or s)
}

type run struct {
	r     *vh.Rng
	rep   *vh.Report
	known map[string]vh.Finding
	items []item
	tri   map[string][]string
}

func (g *run) violation(op, detail, a, b, got, want string) {
	g.violationX(op, detail, a, b, got, want, nil)
}

func (g *run) violationX(op, detail, a, b, got, want string, extra []string) {
	cop := op
	if strings.HasPrefix(op, "iri.chain") {
		cop = "iri.resolve"
	}
	cls := append(classify(cop, a, b), extra...)
	if strings.HasPrefix(got, "panic") {
		cls = nil // a panic is never excused by an input class
	}
	for _, c := range cls {
		if f, ok := g.known[c]; ok {
			g.rep.Count("known:" + f.Key + ":" + c)
			if g.rep.Hist["known:"+f.Key+":"+c] <= 2 {
				g.rep.Add(vh.Case{Kind: "known", Key: f.Key, Op: op, Go: got, Model: want, Detail: f.What + " — " + detail})
			}
			return
		}
	}
	g.rep.Count("violation")
	if *triage {
		k := strings.Join(cls, ",")
		if len(g.tri[k]) < 12 {
			g.tri[k] = append(g.tri[k], detail)
		}
		return
	}
	g.rep.Add(vh.Case{Kind: "violation", Op: op, Go: got, Model: want, Detail: detail + " classes=" + strings.Join(cls, ",")})
}

// oracleParse: parse∘print is the identity on every valid IRI reference.
func (g *run) oracleParse(s string) string {
	got := goParse(s)
	if !validIRIRef(s, false) {
		g.rep.Count("parse:invalid-input")
		if strings.HasPrefix(got, "panic") {
			g.violation("iri.parse "+vh.XS(s), fmt.Sprintf("panic on %q: %s", s, got), s, "", got, "")
		}
		return got
	}
	g.rep.Count("parse:valid-input")
	if want := vh.XS(s); got != want {
		g.violation("iri.parse "+vh.XS(s), fmt.Sprintf("ParseIRI(%q).String() = %s", s, show(got)), s, "", got, want)
	}
	return got
}

func show(x string) string {
	if b, err := vh.UnX(x); err == nil {
		return fmt.Sprintf("%q", b)
	}
	return x
}

// oracleResolve: resolution equals RFC 3986 5.2 on (absolute IRI, IRI reference).
func (g *run) oracleResolve(base, ref string) string {
	got := goResolve(base, ref)
	op := "iri.resolve " + vh.XS(base) + " " + vh.XS(ref)
	if !validIRIRef(base, true) || !validIRIRef(ref, false) {
		g.rep.Count("resolve:invalid-input")
		if strings.HasPrefix(got, "panic") {
			g.violation(op, fmt.Sprintf("panic on base=%q ref=%q: %s", base, ref, got), base, ref, got, "")
		}
		return got
	}
	g.rep.Count("resolve:valid-input")
	want := vh.XS(rfcResolve(base, ref))
	if got != want {
		g.violation(op, fmt.Sprintf("base=%q ref=%q: got %s, RFC 3986 5.2 gives %s", base, ref, show(got), show(want)), base, ref, got, want)
	}
	return got
}

func (g *run) add(kind, line, goR, a, b string, nontrivial bool) {
	if len(g.items) >= 1500000 {
		g.flush()
	}
	if !*nomodel {
		g.items = append(g.items, item{line: line, goR: goR, kind: kind, a: a, b: b})
	}
	if *nomodel {
		g.rep.Evaluations++ // search mode: no de-duplication table (memory), the verdict is all that matters
	} else {
		g.rep.Eval(line, nontrivial)
	}
	g.rep.Count("op:" + kind)
}

func (g *run) pair(base, ref string) {
	if doWrap() {
		g.wPair(base, ref)
	}
	if !doSpec() {
		return
	}
	got := g.oracleResolve(base, ref)
	rp := rfcSplit(ref)
	nontrivial := !rp.hasScheme && (strings.Contains(ref, ".") || strings.Contains(ref, "/") || ref == "" || rp.hasQuery || rp.hasFragment)
	g.add("resolve", "iri.resolve "+vh.XS(base)+" "+vh.XS(ref), got, base, ref, nontrivial)
	g.shape(base, ref)
	g.classesOp(false, base, ref)
	func() {
		defer func() { recover() }()
		if b, err := iri.ParseIRI(base); err == nil {
			if t, err := b.Parse(ref); err == nil {
				g.stringOp(t)
			}
		}
	}()
}

// effOpaque: what ResolveReference tests on a base (`u.Opaque != "" || iri.isOpaque`)
func effOpaque(p *iri.ParsedIRI) bool {
	_, opq := iri.VerifFlags(p)
	return opq || p.URL().Opaque != ""
}

// chain: one ParsedIRI is re-based repeatedly, the way @base / xml:base / <base href> chains do:
// cur0 = ParseIRI(b0); cur_k = cur_{k-1}.Parse(r_k). Oracle: String() of every step against the spec's iterated
// resolve (string level: resolve(resolve(b0, r1), r2) ...). A step that deviates ends the chain (classified
// like a single pair, plus the chain-only class chain-sticky-empty-fragment). As a consistency check the
// private state of every chain result (effective opaque flag, forceFragment) is compared with that of
// ParseIRI(result.String()): a chain result must be indistinguishable from a freshly parsed base.
func (g *run) chain(b0 string, refs []string) {
	if doWrap() {
		g.wChain(b0, refs)
	}
	if !doSpec() {
		return
	}
	toks := []string{vh.XS(b0)}
	for _, r := range refs {
		toks = append(toks, vh.XS(r))
	}
	op := "iri.chain " + strings.Join(toks, " ")
	// the two renderings of the spec, iterated
	specs := []string{}
	spec := b0
	for _, r := range refs {
		spec = rfcResolve(spec, r)
		specs = append(specs, vh.XS(spec))
	}
	g.add("chain-spec", op, strings.Join(specs, ","), b0, strings.Join(refs, " "), len(refs) > 1)
	g.rep.Count(fmt.Sprintf("chain:length-%d", len(refs)))
	defer func() {
		if p := recover(); p != nil {
			g.violation(op, fmt.Sprintf("panic in chain %q <- %q: %v", b0, refs, p), b0, "", "panic", "")
		}
	}()
	if !validIRIRef(b0, true) {
		return
	}
	cur, err := iri.ParseIRI(b0)
	if err != nil {
		return // judged by the single-pair oracle
	}
	spec = b0
	sticky := strings.HasSuffix(b0, "#")
	earlier := []string{b0}
	for k, r := range refs {
		if k > 0 {
			earlier = append(earlier, refs[k-1])
		}
		{ // the chain-only class, Go vs Lean
			toks := []string{vh.XS(r)}
			for _, e := range earlier {
				toks = append(toks, vh.XS(e))
			}
			g.add("sticky", "iri.sticky "+strings.Join(toks, " "), vh.B01(chainSticky(earlier, r)), "", "", false)
		}
		if !validIRIRef(spec, true) || !validIRIRef(r, false) {
			g.rep.Count("chain:ended-invalid-input")
			return
		}
		want := rfcResolve(spec, r)
		if t := rfcResolveParts(spec, r); !t.hasAuthority && strings.HasPrefix(t.path, "//") {
			// RFC 3986's own ambiguity: a target without authority whose path starts with "//" reads back as an
			// authority. The string-level spec and a structure-keeping implementation legitimately part ways after
			// such a step, so the chain is not continued (the step itself is still judged by the pair oracle).
			g.rep.Count("chain:ended-ambiguous-target")
			return
		}
		hist := fmt.Sprintf("chain %q <- %q, step %d: base=%q ref=%q", b0, refs[:k], k+1, spec, r)
		next, err := cur.Parse(r)
		got := "err-ref"
		if err == nil {
			got = vh.XS(next.String())
		}
		if got != vh.XS(want) {
			g.rep.Count(fmt.Sprintf("chain:ended-deviation-step-%d", k+1))
			extra := []string{}
			if chainSticky(earlier, r) {
				extra = append(extra, "chain-sticky-empty-fragment")
			}
			g.violationX(op, fmt.Sprintf("%s: got %s, RFC 3986 5.2 gives %q", hist, show(got), want), spec, r, got, vh.XS(want), extra)
			return
		}
		g.rep.Count("chain:step-ok")
		// a chain result must behave like the freshly parsed string it prints as
		freshKnownBad := false // the fresh parse of this string is itself inside a known single-IRI class
		for _, c := range classify("iri.parse", want, "") {
			if _, ok := g.known[c]; ok {
				freshKnownBad = true
			}
		}
		if freshKnownBad {
			g.rep.Count("chain:state-check-skipped-known-class")
		} else if fresh, err := iri.ParseIRI(want); err == nil {
			ff1, _ := iri.VerifFlags(next)
			ff2, _ := iri.VerifFlags(fresh)
			stickyNow := sticky || strings.HasSuffix(r, "#")
			if effOpaque(next) != effOpaque(fresh) || (ff1 != ff2 && !(stickyNow && ff1 && !ff2 && g.known["chain-sticky-empty-fragment"].Key != "")) {
				g.rep.Add(vh.Case{Kind: "disagreement", Op: op, Go: fmt.Sprintf("opaque=%v forceFragment=%v", effOpaque(next), ff1),
					Model: fmt.Sprintf("opaque=%v forceFragment=%v", effOpaque(fresh), ff2),
					Detail: hist + ": private state of the chain result differs from ParseIRI of its String() " + fmt.Sprintf("%q", want)})
				// the chain goes on: a different String() downstream is the property violation
			}
		}
		sticky = sticky || strings.HasSuffix(r, "#")
		cur, spec = next, want
	}
}

func (g *run) single(s string) {
	if doWrap() {
		g.wSingle(s)
	}
	if !doSpec() {
		return
	}
	got := g.oracleParse(s)
	g.add("parse", "iri.parse "+vh.XS(s), got, s, "", true)
	g.classesOp(true, s, "")
	func() {
		defer func() { recover() }()
		if p, err := iri.ParseIRI(s); err == nil {
			g.wrapper(s, p)
		}
	}()
}

func (g *run) shape(base, ref string) {
	b, r := rfcSplit(base), rfcSplit(ref)
	k := "ref:"
	switch {
	case r.hasScheme:
		k += "absolute"
	case r.hasAuthority:
		k += "network-path"
	case r.path == "" && r.hasQuery:
		k += "query-only"
	case r.path == "":
		k += "empty-path"
	case r.path[0] == '/':
		k += "absolute-path"
	default:
		k += "relative-path"
	}
	g.rep.Count(k)
	switch {
	case !b.hasAuthority && strings.HasPrefix(b.path, "/"):
		g.rep.Count("base:no-authority-abs-path")
	case !b.hasAuthority && b.path == "":
		g.rep.Count("base:empty-path")
	case !b.hasAuthority:
		g.rep.Count("base:rootless")
	case b.authority == "":
		g.rep.Count("base:empty-authority")
	default:
		g.rep.Count("base:authority")
	}
	if strings.Contains(r.path, "..") {
		g.rep.Count("ref:has-dotdot")
	}
	if r.hasQuery && r.query == "" {
		g.rep.Count("ref:empty-query")
	}
	if r.hasFragment && r.fragment == "" {
		g.rep.Count("ref:empty-fragment")
	}
}

func (g *run) resolvePathCase(base, ref string) {
	if !doSpec() {
		return
	}
	g.add("resolvePath", "iri.resolvePath "+vh.XS(base)+" "+vh.XS(ref), goResolvePath(base, ref), base, ref, strings.Contains(base+ref, "."))
}

// ---------------------------------------------------------------- generated streams

func (g *run) generated(n int) {
	histEvery := 3
	if *tier == "thorough" {
		histEvery = 6 // 10^6 (spec) / 5*10^5 (wrap) histories: keeps the thorough tier inside its time budget
	}
	for i := 0; i < n; i++ {
		c := gcfg{exotic: g.r.Chance(30)}
		base := genAbs(g.r, c, g.r.Chance(10))
		ref := genRef(g.r, c)
		g.pair(base, ref)
		if i%4 == 0 {
			g.single(base)
			g.single(ref)
		}
		if i%8 == 0 { // malformed stream: no panic; still judged when the mutation stays inside the grammar
			m := string(g.r.Mutate([]byte(ref), hotIRIBytes))
			g.pair(base, m)
			g.single(m)
		}
		if i%3 == 0 {
			g.resolvePathCase(genPathAbempty(g.r, 5), pathRef(g.r))
		}
		if i%2 == 0 {
			g.chain(genChain(g.r))
		}
		if i%histEvery == 1 {
			g.hist(genHist(g.r))
		}
	}
}

// genChain: a base (often one that carries private state: opaque, rootless, no authority, '#', '?') and 2-4
// references mixing re-bases (absolute, network-path) with relative ones.
func genChain(r *vh.Rng) (string, []string) {
	c := gcfg{exotic: r.Chance(10)}
	var b0 string
	switch r.Intn(6) {
	case 0:
		b0 = vh.Pick(r, []string{"app:/data/doc.ttl", "tag:", "urn:example:doc", "x:/a/b", "mailto:a", "urn:a/b/c", "x:", "http:/a/b", "file:///a/b", "http://h/a#", "http://h/a?", "http://h"})
	default:
		b0 = genAbs(r, c, r.Chance(15))
	}
	n := 2 + r.Intn(3)
	refs := make([]string, n)
	for i := range refs {
		switch k := r.Intn(10); {
		case k < 3: // re-base on an ordinary hierarchical IRI
			refs[i] = vh.Pick(r, []string{"http", "https", "file", "ex", "x"}) + "://" + vh.Pick(r, []string{"example.org", "h", "a.b:80", ""}) + genPathAbempty(r, 3) + genQF(r, true)
		case k < 4:
			refs[i] = genAbs(r, c, true)
		case k < 5:
			refs[i] = "//" + vh.Pick(r, []string{"example.org", "h", "u@h:1"}) + genPathAbempty(r, 3) + genQF(r, true)
		case k < 6:
			refs[i] = genQF(r, true)
		default:
			refs[i] = genRef(r, c)
		}
	}
	return b0, refs
}

func pathRef(r *vh.Rng) string {
	switch r.Intn(5) {
	case 0:
		return ""
	case 1:
		return genPathAbempty(r, 4)
	default:
		s := randSeg(r)
		return s + genPathAbempty(r, 4)
	}
}

// exhaustive: every path over the component alphabet, as base path and as reference.
func (g *run) exhaustive(maxBase, maxRef int) {
	comps := []string{"", ".", "..", "a", "%2e"}
	var paths func(n int) []string
	paths = func(n int) []string { // all "/"-joined sequences of 1..n components
		res := []string{}
		cur := []string{""}
		for k := 1; k <= n; k++ {
			next := []string{}
			for _, p := range cur {
				for _, c := range comps {
					if k == 1 {
						next = append(next, c)
					} else {
						next = append(next, p+"/"+c)
					}
				}
			}
			res = append(res, next...)
			cur = next
		}
		return res
	}
	bases := []string{}
	for _, p := range paths(maxBase) {
		bases = append(bases, "/"+p)
	}
	refs := append([]string{""}, paths(maxRef)...)
	suffixes := []string{"", "?", "#", "?q#f"}
	prefixes := []string{"http://h", "x://h", "x:", "http://h:80", "urn:x"}
	cnt := 0
	for bi, b := range bases {
		for ri, rf := range refs {
			g.resolvePathCase(b, rf)
			cnt++
			pre := prefixes[(bi+ri)%len(prefixes)]
			suf := suffixes[(bi*7+ri)%len(suffixes)]
			base := pre + b
			if pre == "x:" || pre == "urn:x" {
				if strings.HasPrefix(b, "//") {
					continue
				}
			}
			if validIRIRef(rf+suf, false) {
				g.pair(base, rf+suf)
			}
			if validIRIRef("/"+rf, false) {
				g.pair(base, "/"+rf)
			}
		}
	}
	g.rep.Exhaustive = append(g.rep.Exhaustive, fmt.Sprintf("resolvePath and resolve: all base paths of <= %d and references of <= %d components over {\"\", \".\", \"..\", \"a\", \"%%2e\"} (%d path pairs)", maxBase, maxRef, cnt))
}

// flush runs the model on the pending operation lines and compares (T3); bounded memory.
func (g *run) flush() {
	if *nomodel || len(g.items) == 0 {
		g.items = g.items[:0]
		return
	}
	rep := g.rep
	lines := make([]string, len(g.items))
	for i, it := range g.items {
		lines[i] = it.line
	}
	res, err := vh.Driver{Path: *driver}.RunParallel(lines)
	if err != nil {
		fmt.Fprintln(os.Stderr, err)
		os.Exit(2)
	}
	for i, it := range g.items {
		rep.Compared++
		if g.wCompare(it, res[i]) {
			continue
		}
		if res[i] == it.goR {
			continue
		}
		switch it.kind {
		case "parse", "resolve":
			// The driver ran Spec.RFC3986 — the property's own definition. On inputs inside the grammar the Go
			// oracle has already reported (or classified) the deviation of the implementation; here the two
			// independent renderings of the RFC (Lean spec, rfc3986.go) must agree with each other on every
			// input, valid or not — otherwise the oracle itself is in doubt.
			var want string
			if it.kind == "parse" {
				want = vh.XS(it.a)
			} else {
				want = vh.XS(rfcResolve(it.a, it.b))
			}
			if res[i] != want {
				rep.Add(vh.Case{Kind: "disagreement", Op: it.line, Go: want, Model: res[i], Detail: "Spec.RFC3986 (Lean) and rfc3986.go (harness oracle) disagree"})
			}
		default:
			rep.Add(vh.Case{Kind: "disagreement", Op: it.line, Go: it.goR, Model: res[i], Detail: it.kind})
		}
	}
	g.items = g.items[:0]
}

// ---------------------------------------------------------------- main

func main() {
	flag.Parse()
	seed := vh.SeedFromEnv()
	repName := "C12"
	if *part == "wrap" {
		repName = "C12W"
	}
	rep := vh.NewReport(repName, *tier, seed, "pairs (absolute base IRI, IRI reference) generated from the RFC 3987 grammar (hierarchical and opaque schemes, empty/absent authority, userinfo, ports, IP literals, non-ASCII and pct-encoded hosts, empty and dot segments, %xx of either case, empty vs absent query/fragment), byte-level mutations of the reference, bounded-exhaustive path pairs over a 5-component alphabet, chained re-basing histories and histories of 2-9 operations over the whole exported API of ParsedIRI / BaseIRI on one value (Parse, DropFragment, ResolveReference, URL, IsAbs, NewBaseIRI; bases ending in an empty or non-empty fragment at 45%); non-trivial = the reference is relative and has a dot, a slash, a query, a fragment or is empty")
	// Fork: vh.NewRng(k+1) is vh.NewRng(k) shifted by one draw; the first output is a well-mixed hash of the seed.
	rep.Cases = []vh.Case{} // never null in the JSON report
	g := &run{r: vh.NewRng(seed).Fork(), rep: rep, tri: map[string][]string{}}
	fs, err := vh.LoadFindings(*findings)
	if err != nil {
		fmt.Fprintln(os.Stderr, "findings:", err)
		os.Exit(2)
	}
	g.known = vh.KnownKeys(fs, "C12")
	if !*nomodel {
		// private copy of the driver: other checks may relink lean/.lake/build/bin/driver while this one runs
		if b, err := os.ReadFile(*driver); err == nil {
			if f, err := os.CreateTemp("", "c12-driver-*"); err == nil {
				f.Write(b)
				f.Close()
				os.Chmod(f.Name(), 0o755)
				*driver = f.Name()
				defer os.Remove(f.Name())
			}
		}
	}

	replayLines := func(path string) {
		b, err := os.ReadFile(path)
		if err != nil {
			fmt.Fprintln(os.Stderr, err)
			os.Exit(2)
		}
		lines := strings.Split(strings.TrimSpace(string(b)), "\n")
		// a replay file written by ./check is JSON: take the protocol lines of its cases
		var rj struct {
			Violations, Disagreements []struct {
				Op string `json:"op"`
			}
		}
		if json.Unmarshal(b, &rj) == nil && len(rj.Violations)+len(rj.Disagreements) > 0 {
			lines = lines[:0]
			for _, c := range append(rj.Violations, rj.Disagreements...) {
				lines = append(lines, c.Op)
			}
		}
		for _, l := range lines {
			f := strings.Fields(l)
			un := func(t string) string { x, _ := vh.UnX(t); return string(x) }
			switch {
			case len(f) == 3 && f[0] == "iri.resolve":
				g.pair(un(f[1]), un(f[2]))
			case len(f) == 2 && f[0] == "iri.parse":
				g.single(un(f[1]))
			case len(f) >= 3 && f[0] == "iri.chain":
				rs := []string{}
				for _, t := range f[2:] {
					rs = append(rs, un(t))
				}
				g.chain(un(f[1]), rs)
			case len(f) >= 3 && (f[0] == "piri.hist" || f[0] == "iri.hist"):
				ops := []hop{}
				for _, t := range f[2:] {
					if o, ok := hopOfTok(t); ok {
						ops = append(ops, o)
					}
				}
				g.hist(un(f[1]), ops)
			case len(f) == 3 && f[0] == "piri.resolve":
				g.wPair(un(f[1]), un(f[2]))
			case len(f) == 2 && (f[0] == "piri.parse" || f[0] == "piri.base"):
				g.wSingle(un(f[1]))
			case len(f) == 4 && (f[0] == "piri.class" || f[0] == "piri.hyp"):
				g.wClass(f[1] == "p", un(f[2]), un(f[3]))
			case len(f) >= 3 && f[0] == "piri.chain":
				rs := []string{}
				for _, t := range f[2:] {
					rs = append(rs, un(t))
				}
				g.wChain(un(f[1]), rs)
			case len(f) == 3 && f[0] == "iri.resolvePath":
				g.resolvePathCase(un(f[1]), un(f[2]))
			}
		}
	}

	if *replay != "" {
		replayLines(*replay)
	} else {
		if *hints != "" {
			if _, err := os.Stat(*hints); err == nil {
				replayLines(*hints)
			}
		}
		for _, c := range chainCorpus {
			g.chain(c[0], c[1:])
		}
		for _, c := range histCorpus {
			g.hist(c.b0, c.ops)
		}
		for _, w := range corpus {
			g.pair(w[0], w[1])
			g.single(w[0])
			g.single(w[1])
		}
		n := 150000 * *scale
		if *tier == "thorough" {
			n = 6000000 * *scale
			if *part == "wrap" {
				n = 3000000 * *scale
			}
			g.exhaustive(5, 4)
		} else {
			g.exhaustive(3, 3)
		}
		if doWrap() {
			if *tier == "thorough" {
				g.wExhaustive(6, 3)
			} else {
				g.wExhaustive(5, 2)
			}
			g.wIPv6(n / 20)
		}
		g.generated(n)
	}

	if *triage {
		ks := make([]string, 0, len(g.tri))
		for k := range g.tri {
			ks = append(ks, k)
		}
		sort.Strings(ks)
		for _, k := range ks {
			fmt.Printf("== unclassified [%s]\n", k)
			for _, d := range g.tri[k] {
				fmt.Println("   ", d)
			}
		}
	}

	finish := func(tag string) {
		if err := rep.Write(*out); err != nil {
			fmt.Fprintln(os.Stderr, err)
			os.Exit(2)
		}
		nk := 0
		for _, k := range vh.SortedKeys(rep.Hist) {
			if strings.HasPrefix(k, "known:") {
				nk += rep.Hist[k]
			}
		}
		if strings.Contains(*driver, "c12-driver-") {
			os.Remove(*driver)
		}
		fmt.Printf("c12%s: %d evaluations, %d compared with the model, %d failures, %d known-finding hits\n", tag, rep.Evaluations, rep.Compared, rep.Failures(), nk)
		if rep.Failures() > 0 {
			os.Exit(1)
		}
		os.Exit(0)
	}
	if *nomodel {
		finish(" (oracle only)")
	}

	g.flush()
	finish("")
}
