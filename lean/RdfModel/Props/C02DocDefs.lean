/-
  Definitions used by the document-level theorems of property C02 (`Props/C02Doc.lean`): table facts
  beyond `TablesOK`, the assumptions on the decoder configuration, and the well-formedness hypotheses
  on configurations and triples — all of the latter decidable, with examples in `Props/C02Doc.lean`.
-/
import RdfModel.Model.TurtleEncoder
import RdfModel.Model.TurtleDoc
import RdfModel.Props.C02TokensDefs
import RdfModel.Props.C13Defs
namespace RdfModel.C02
open RdfModel RdfModel.Ttl RdfModel.TtlEnc RdfModel.Desc

instance (s : List Nat) : Decidable (Scalars s) := by unfold Scalars; exact inferInstance

/-! ### Tables (T1) -/

/-- Table facts used at document level in addition to `TablesOK` (proved for the regenerated tables
    in `Props/C02Doc.lean`, by `decide` on the entries). -/
structure DocTablesOK (T : Tables) : Prop where
  tok : TablesOK T
  /-- the runes `format_PN_LOCAL` percent-encodes are not IRI characters (controls, space, `<>"{}|^\``, `\`) -/
  loc_pct : ∀ f l c, lookup (T.localEsc f l) 0 c = 1 → Spec.TtlPrint.iriRawOK c = false
  /-- the ASCII members of PN_CHARS_BASE are the letters: a prefix label never starts with a rune the
      statement scanners dispatch on (`<`, `_`, `[`, `(`, `"`, digits, `@`, …) -/
  base_ascii : ∀ c, c < 0x80 → inRanges T.pnCharsBase c = true → isAlpha c = true
  /-- `<` cannot occur inside a prefix label -/
  pn_lt : inRanges T.pnChars 0x3c = false

/-! ### The decoder the theorems run -/

/-- Assumptions on the decoder configuration `C` (Model/TurtleDoc.lean): the Turtle package's scanner
    with the real token producers over the tables `T`; space is white space and no printable ASCII
    character is (`unicode.IsSpace`); and the resolver parameter is the repository's resolver as
    modelled for property C13 (`Prefix.goResolve`, tied to `BaseIRI.Parse(·).String()` by T3 on the
    domain on which C12 ties the `net/url` wrapper to RFC 3986), the identity when no base is in scope
    (`ParseIRI(v).String() = v` on that domain). IRIs outside that domain are the known findings D14-*. -/
structure CfgOK (C : TtlDoc.Cfg) (T : Tables) : Prop where
  trig : C.trig = false
  prod : C.P = TtlDoc.Producers.real T
  pnBase : ∀ c, C.pnBase c = inRanges T.pnCharsBase c
  sp : C.isSpace 0x20 = true
  /-- a line feed after the keyword `a` (multi-line layout of nested-resource mode) -/
  nlsp : C.isSpace 0x0a = true
  vis : ∀ c, 0x21 ≤ c → c ≤ 0x7e → C.isSpace c = false
  res_none : ∀ r, C.resolve none r = some r
  res_some : ∀ b r, C.resolve (some b) r = some (Prefix.goResolve b r)

/-- the configuration the theorems are instantiated with: the real Turtle scanner, the C13 resolver -/
def docResolve : Option (List Nat) → List Nat → Option (List Nat)
  | none, r => some r
  | some b, r => some (Prefix.goResolve b r)

/-! ### Hypotheses on the data -/

/-- an IRI (namespace, base): scalar values that may stand raw between `<` and `>` — IRI characters
    only; in particular none of the characters `format_PN_LOCAL` would percent-encode -/
def iriOK (v : List Nat) : Bool := v.all (fun c => isScalarB c && Spec.TtlPrint.iriRawOK c)

/-- A prefix label the decoder reads back as a label: PN_PREFIX-like (`prefixOK`), and outside the two
    known-finding classes `prefix-label-boolean-keyword` (starts with `true` / `false`) and
    `prefix-label-ogham-space` (contains a rune the decoder takes for white space: U+1680). -/
def labelSafe (isSpace : Nat → Bool) (T : Tables) (p : List Nat) : Bool :=
  prefixOK T p && p.all (fun c => isScalarB c && !isSpace c) &&
  !(asc "true").isPrefixOf p && !(asc "false").isPrefixOf p

/-- the resolver leaves the absolute IRI `v` alone when it is read under base `b`
    (fails exactly for the classes of C12 / C18-X1: dot segments, scheme case, …) -/
def stableUnder (base : Option (List Nat)) (v : List Nat) : Bool :=
  match base with
  | none => true
  | some b => Prefix.goResolve b v == v

/-- what the theorems need of a prefix manager: `ordered` and the map agree, labels are unique.
    (`C13.Inv` without sortedness: the order among the mappings is irrelevant for the round trip.) -/
structure PMAgree (pm : Prefix.PM) : Prop where
  nodup : (pm.ordered.map (·.pfx)).Nodup
  agree : ∀ m : Prefix.Mapping, m ∈ pm.ordered ↔ pm.byPrefix.get m.pfx = some m.expanded

/-- the base the encoder was given: a non-empty absolute IRI of IRI characters, on which the index
    bookkeeping of `NewBaseIRI` is sane (`C13.IndicesOK`) and which the resolver maps to itself -/
def baseOK (b : List Nat) : Prop :=
  iriOK b = true ∧ b ≠ [] ∧ (Prefix.newBaseIRI b).root.isSome = true ∧ C13.IndicesOK (Prefix.newBaseIRI b) ∧
  Prefix.goResolve b b = b

instance (b : List Nat) : Decidable (baseOK b) := by unfold baseOK; exact inferInstance

/-- Well-formed encoder configuration (decidable given the lists). -/
structure ConfigOK (isSpace : Nat → Bool) (T : Tables) (cfg : Config) (pm : Prefix.PM) : Prop where
  agree : PMAgree pm
  labels : ∀ m ∈ pm.ordered, labelSafe isSpace T m.pfx = true
  ns : ∀ m ∈ pm.ordered, iriOK m.expanded = true ∧ stableUnder cfg.base m.expanded = true
  base : ∀ b, cfg.base = some b → baseOK b
  /-- no prefix list, no mappings (`NewPrefixManager(nil)` is empty) -/
  empty : cfg.prefixes = [] → pm.ordered = []

/-- a blank-node labeller the decoder can read back: injective, labels are BLANK_NODE_LABELs -/
structure LabelOK {β : Type} (T : Tables) (label : β → List Nat) : Prop where
  inj : Function.Injective label
  ok : ∀ b, labelOK T (label b) = true ∧ Scalars (label b)

/-- an IRI term of a triple: IRI characters only, and — when `writeIRI` writes it in full although a
    base is in scope — stable under the resolver -/
def iriTermOK {β : Type} (c : Ctx β) (base : Option (List Nat)) (v : List Nat) : Prop :=
  iriOK v = true ∧ (writeIRIForm c v = .ok (.full v) → stableUnder base v = true)

/-- a literal: scalar lexical form; a language tag exactly with rdf:langString, and then a LANGTAG;
    no rdf:dirLangString (directional tags are outside the model) -/
def litOK {β : Type} (c : Ctx β) (base : Option (List Nat)) (lex dt : List Nat) (lang : Option (List Nat)) : Prop :=
  Scalars lex ∧
  (match lang with
    | some t => dt = rdfLangString ∧ langOK t = true
    | none => dt ≠ rdfLangString ∧ dt ≠ rdfDirLangString ∧ iriTermOK c base dt)

def subjectOK {β : Type} (c : Ctx β) (base : Option (List Nat)) : Term β → Prop
  | .iri v => iriTermOK c base v
  | .bnode _ => True
  | .lit .. => False

def objectOK {β : Type} (c : Ctx β) (base : Option (List Nat)) : Term β → Prop
  | .iri v => iriTermOK c base v
  | .bnode _ => True
  | .lit lex dt lang => litOK c base lex dt lang

/-- a well-formed triple -/
structure TripleOK {β : Type} (c : Ctx β) (base : Option (List Nat)) (t : Triple β) : Prop where
  s : subjectOK c base t.s
  p : iriTermOK c base t.p
  o : objectOK c base t.o

/-! ### What the decoder is given and what it returns -/

/-- `DirectiveMode` in effect for a buffered encoder -/
def effBaseMode (cfg : Config) : DirMode := cfg.baseMode.getD .at
def effPrefixMode (cfg : Config) : DirMode := cfg.prefixMode.getD .at

/-- default base handed to the decoder: the encoder's base when base directives were disabled -/
def defaultBase (cfg : Config) : Option (List Nat) :=
  if cfg.baseMode = some .disabled then cfg.base else none

/-- default prefixes handed to the decoder: the encoder's table when prefix directives were disabled -/
def defaultPrefixes (cfg : Config) (pm : Prefix.PM) : List (List Nat × List Nat) :=
  if cfg.prefixMode = some .disabled then pm.ordered.map (fun m => (m.pfx, m.expanded)) else []

/-- the statement the decoder must yield for an input triple under the blank-node renaming `label` -/
def stmtOf {β : Type} (label : β → List Nat) (t : Triple β) : TtlDoc.Stmt :=
  { s := some (t.s.map (fun b => TtlDoc.BN.lbl (label b))),
    p := some (.iri t.p),
    o := t.o.map (fun b => TtlDoc.BN.lbl (label b)),
    g := none }

/-- decoder statements as triples (a missing subject or predicate cannot be represented) -/
def tripleOfStmt (s : TtlDoc.Stmt) : Option (Triple TtlDoc.BN) :=
  match s.s, s.p with
  | some su, some (.iri p) => some ⟨su, p, s.o⟩
  | _, _ => none

end RdfModel.C02
