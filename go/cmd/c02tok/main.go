// Command c02tok: the Turtle/TriG *token layer* (component "ttl").
//
//   - T3 correspondence between Model/TurtleTokens.lean and the token producers of encoding/turtle and
//     encoding/trig (run through the export_verif.go hooks on a decoder built over the input) and the
//     formatters of encoding/turtle (formatIRI, formatLiteralLexicalForm, format_PN_LOCAL,
//     bareLiteralDatatype);
//   - property oracles on the implementation: C02 token round trips (formatter output read back by
//     the producers of both packages; a single-triple encoder → decoder round trip through the public
//     API), C07 (turtle and trig producers agree on every input), C08 (every lexical choice of
//     Spec/TurtlePrinter.lean is read back as the printed value), no producer panics.
//
// Library-style: `-prop C02|C07|C08` selects the property id written into the report.
package main

import (
	"bytes"
	"context"
	"flag"
	"fmt"
	"os"
	"strings"
	"unicode/utf8"

	"verifharness/vh"

	"github.com/dpb587/rdfkit-go/encoding/trig"
	"github.com/dpb587/rdfkit-go/encoding/turtle"
	"github.com/dpb587/rdfkit-go/iri"
	"github.com/dpb587/rdfkit-go/rdf"
)

var (
	tier     = flag.String("tier", "quick", "quick|thorough")
	driver   = flag.String("driver", "/verif/lean/.lake/build/bin/driver", "lean driver binary")
	out      = flag.String("out", "/verif/evidence/.c02tok.report.json", "report path")
	findings = flag.String("findings", "/verif/known-findings.json", "known findings")
	replay   = flag.String("replay", "", "replay file (one protocol line per line)")
	scale    = flag.Int("scale", 1, "multiply generated case counts (search mode uses 10)")
	nomodel  = flag.Bool("nomodel", false, "property oracles on the implementation only")
	hints    = flag.String("hints", "", "file of protocol lines that disagreed; re-run first")
	prop     = flag.String("prop", "C02", "property id written into the report (C02|C07|C08)")
)

type item struct {
	line string
	goR  string
	kind string
}

var kinds = []string{"iriref", "string", "pname_ns", "pname", "bnode", "langtag", "numeric"}

// ---------------------------------------------------------------- implementation side

func goTok(pkg, kind string, fail bool, b []byte) (res string) {
	defer func() {
		if p := recover(); p != nil {
			res = "panic"
		}
	}()
	rd := &vh.EndReader{B: b, Fail: fail}
	var vals []string
	var rest string
	var err error
	if pkg == "turtle" {
		vals, rest, err = turtle.VerifProduce(kind, rd)
	} else {
		vals, rest, err = trig.VerifProduce(kind, rd)
	}
	if err != nil {
		return vh.ErrClass(err)
	}
	parts := make([]string, len(vals))
	for i, v := range vals {
		if kind == "numeric" && i == 0 {
			parts[i] = v
		} else {
			parts[i] = vh.XS(v)
		}
	}
	return "ok " + strings.Join(parts, ",") + " " + vh.XS(rest)
}

// goBool: what the object position of the real decoders makes of the input (boolean keyword or not).
func goBool(pkg string, fail bool, b []byte) (res string) {
	defer func() {
		if p := recover(); p != nil {
			res = "panic"
		}
	}()
	doc := append([]byte("<a:s> <a:p> "), b...)
	rd := &vh.EndReader{B: doc, Fail: fail}
	var first rdf.Triple
	got := false
	if pkg == "turtle" {
		d, err := turtle.NewDecoder(rd)
		if err != nil {
			return "nobool"
		}
		if d.Next() {
			first, got = d.Triple(), true
		}
	} else {
		d, err := trig.NewDecoder(rd)
		if err != nil {
			return "nobool"
		}
		if d.Next() {
			first, got = d.Quad().Triple, true
		}
	}
	if got {
		if l, ok := first.Object.(rdf.Literal); ok && string(l.Datatype) == vh.XSD+"boolean" && (l.LexicalForm == "true" || l.LexicalForm == "false") {
			return "bool:" + l.LexicalForm
		}
	}
	return "nobool"
}

func endName(fail bool) string {
	if fail {
		return "io"
	}
	return "eof"
}

// ---------------------------------------------------------------- generator state

type gen struct {
	r     *vh.Rng
	rep   *vh.Report
	items []item
	known map[string]vh.Finding
}

func (g *gen) add(kind, line, goR string, nontrivial bool) {
	g.items = append(g.items, item{line: line, goR: goR, kind: kind})
	g.rep.Eval(line, nontrivial)
	g.rep.Count("op:" + kind)
}

func (g *gen) violation(op, detail string) {
	g.rep.Add(vh.Case{Kind: "violation", Op: op, Detail: detail})
}

// tok runs one producer input against both packages (C07 oracle: they must agree; no panic) and
// queues the model comparison for both.
func (g *gen) tok(kind string, fail bool, b []byte, tag string) (turtleRes string) {
	var res [2]string
	for i, pkg := range []string{"turtle", "trig"} {
		res[i] = goTok(pkg, kind, fail, b)
		line := fmt.Sprintf("ttl.tok %s %s %s %s", kind, pkg, endName(fail), vh.X(b))
		g.add("tok-"+kind+"-"+tag, line, res[i], strings.HasPrefix(res[i], "ok"))
		if res[i] == "panic" {
			g.violation(line, "producer panicked (pkg "+pkg+")")
		}
		switch {
		case strings.HasPrefix(res[i], "ok"):
			g.rep.Count("tok-result:" + kind + ":ok")
		default:
			g.rep.Count("tok-result:" + kind + ":" + res[i])
		}
	}
	if res[0] != res[1] {
		g.violation(fmt.Sprintf("ttl.tok %s turtle|trig %s %s", kind, endName(fail), vh.X(b)),
			fmt.Sprintf("C07: turtle and trig producers disagree: turtle=%s trig=%s", res[0], res[1]))
	}
	return res[0]
}

// ---------------------------------------------------------------- alphabets

var hexDigits = []rune("0123456789abcdefABCDEF")

// per-kind hot alphabets for the unstructured stream
var hotAlpha = map[string][]rune{
	"iriref":   []rune("<>\\uU0041aF:/# \t\n\"{}|^`é\u4e2d\U0001F41B\x00\x7f"),
	"string":   []rune("\"'\\uU0041tbnrfx \n\ré\U0001F41B@^<"),
	"pname_ns": []rune(":a.Z-_0é·\u203f \t<\\%"),
	"pname":    []rune(":a.-_0%\\~é·\u203f\u00d7 ;,#4fAZ"),
	"bnode":    []rune("_:a.-0é·\u203f ;\t<"),
	"langtag":  []rune("@aZ-0_ .\"é"),
	"numeric":  []rune("+-.0159eE a;,"),
}

func (g *gen) str(alpha []rune, min, max int) string {
	n := min + g.r.Intn(max-min+1)
	var sb strings.Builder
	for i := 0; i < n; i++ {
		sb.WriteRune(vh.Pick(g.r, alpha))
	}
	return sb.String()
}

var trailers = []string{"", " ", " .", ".", ". ", ";", ",", "\n", "\t", ")", "]", "#c", "^^<a:b>", "@en", "\"", "'", "a", "0", ":", "..", ". .", "\\"}

// ---------------------------------------------------------------- structured token generators

func (g *gen) uchar(c rune) string {
	lower := g.r.Bool()
	f := "%04X"
	if c > 0xFFFF || g.r.Chance(30) {
		f = "%08X"
	}
	s := fmt.Sprintf(f, c)
	if lower {
		s = strings.ToLower(s)
	}
	if len(s) == 4 {
		return "\\u" + s
	}
	return "\\U" + s
}

func (g *gen) genIRIREF() string {
	var sb strings.Builder
	sb.WriteString("<")
	for i, n := 0, g.r.Intn(8); i < n; i++ {
		switch g.r.Intn(10) {
		case 0, 1:
			sb.WriteString(g.uchar(g.r.Scalar()))
		case 2:
			sb.WriteRune(g.r.Scalar())
		case 3:
			sb.WriteRune(vh.Pick(g.r, []rune(":/#?%@.-_~")))
		default:
			sb.WriteByte(byte('a' + g.r.Intn(26)))
		}
	}
	sb.WriteString(">")
	return sb.String()
}

func (g *gen) genString() string {
	q := vh.Pick(g.r, []string{"\"", "'", "\"\"\"", "'''"})
	var sb strings.Builder
	sb.WriteString(q)
	for i, n := 0, g.r.Intn(8); i < n; i++ {
		switch g.r.Intn(12) {
		case 0:
			sb.WriteString(g.uchar(g.r.Scalar()))
		case 1:
			sb.WriteString("\\" + string(vh.Pick(g.r, []rune("tbnrf\"'\\"))))
		case 2:
			sb.WriteRune(g.r.Scalar())
		case 3:
			sb.WriteString(vh.Pick(g.r, []string{"\"", "'", "\"\"", "''"}))
		case 4:
			sb.WriteString(vh.Pick(g.r, []string{"\n", "\r", "\t", " "}))
		default:
			sb.WriteByte(byte('a' + g.r.Intn(26)))
		}
	}
	sb.WriteString(q)
	return sb.String()
}

var pnBase = []rune("abzAZ\u00c0\u00e9\u037f\u200c\u2070\u3001\ud7ff\uf900\ufffd\U00010000\U000EFFFF")
var pnExtra = []rune("-_09\u00b7\u0300\u036f\u203f\u2040")

func (g *gen) genPrefix() string {
	if g.r.Chance(25) {
		return ""
	}
	var sb strings.Builder
	sb.WriteRune(vh.Pick(g.r, pnBase))
	for i, n := 0, g.r.Intn(4); i < n; i++ {
		switch g.r.Intn(4) {
		case 0:
			sb.WriteRune('.')
		case 1:
			sb.WriteRune(vh.Pick(g.r, pnExtra))
		default:
			sb.WriteRune(vh.Pick(g.r, pnBase))
		}
	}
	if g.r.Chance(80) {
		sb.WriteRune(vh.Pick(g.r, pnBase))
	}
	return sb.String()
}

func (g *gen) genLocalSyntax() string {
	var sb strings.Builder
	for i, n := 0, g.r.Intn(6); i < n; i++ {
		switch g.r.Intn(9) {
		case 0:
			sb.WriteString("%" + string(vh.Pick(g.r, hexDigits)) + string(vh.Pick(g.r, hexDigits)))
		case 1:
			sb.WriteString("\\" + string(vh.Pick(g.r, []rune("_~.-!$&'()*+,;=/?#@%"))))
		case 2:
			sb.WriteRune('.')
		case 3:
			sb.WriteRune(':')
		case 4:
			sb.WriteRune(vh.Pick(g.r, pnExtra))
		default:
			sb.WriteRune(vh.Pick(g.r, pnBase))
		}
	}
	return sb.String()
}

func (g *gen) genNumeric() string {
	s := vh.Pick(g.r, []string{"", "", "+", "-"})
	s += g.str([]rune("0123456789"), 0, 3)
	if g.r.Chance(50) {
		s += "." + g.str([]rune("0123456789"), 0, 3)
	}
	if g.r.Chance(40) {
		s += vh.Pick(g.r, []string{"e", "E"}) + vh.Pick(g.r, []string{"", "+", "-"}) + g.str([]rune("0123456789"), 0, 3)
	}
	return s
}

func (g *gen) genToken(kind string) string {
	switch kind {
	case "iriref":
		return g.genIRIREF()
	case "string":
		return g.genString()
	case "pname_ns":
		return g.genPrefix() + ":"
	case "pname":
		return g.genPrefix() + ":" + g.genLocalSyntax()
	case "bnode":
		return "_:" + g.str(append(append([]rune{}, pnBase...), []rune("0_-.·")...), 0, 5)
	case "langtag":
		return "@" + g.r.LangTag()
	default:
		return g.genNumeric()
	}
}

// tokCases: structured tokens + trailer, mutations, truncations, unstructured hot-alphabet strings.
func (g *gen) tokCases(n int) {
	for i := 0; i < n; i++ {
		kind := kinds[i%len(kinds)]
		tok := g.genToken(kind) + vh.Pick(g.r, trailers)
		g.tok(kind, false, []byte(tok), "valid")
		if g.r.Chance(50) {
			m := g.r.Mutate([]byte(tok), []byte(string(hotAlpha[kind])))
			g.tok(kind, g.r.Chance(20), m, "mutated")
		}
		if len(tok) > 0 && g.r.Chance(50) {
			g.tok(kind, g.r.Chance(40), []byte(tok)[:g.r.Intn(len(tok))], "truncated")
		}
		g.tok(kind, g.r.Chance(20), []byte(g.str(hotAlpha[kind], 0, 7)), "hot")
	}
}

// exhaustiveHot: every string of length ≤ maxLen over the first `width` symbols of the kind's alphabet.
func (g *gen) exhaustiveHot(kind string, width, maxLen int) {
	alpha := hotAlpha[kind]
	if width > len(alpha) {
		width = len(alpha)
	}
	var rec func(prefix []rune, depth int)
	rec = func(prefix []rune, depth int) {
		b := []byte(string(prefix))
		g.tok(kind, false, b, "exh")
		g.tok(kind, true, b, "exh")
		if depth == maxLen {
			return
		}
		for _, c := range alpha[:width] {
			rec(append(prefix, c), depth+1)
		}
	}
	rec(nil, 0)
}

// probeRunes: each rune at each scanner position of each producer (ties the inline switches).
func (g *gen) probeRunes(runes []rune) {
	tmpl := map[string][]string{
		"iriref":   {"<%s>", "<a%sb>", "<\\%s0041>", "<\\u004%s>", "<\\U0000004%s>", "<\\U%s0000041>", "<\\U00%s00041>", "%s"},
		"string":   {"\"%s\"", "'%s'", "\"\"\"%s\"\"\"", "'''%s'''", "\"\\%s\"", "\"\\u004%s\"", "\"\"%s", "''%s", "%s", "\"\"\"a\"%s\"\"\"", "\"\"\"a\"\"%s\"\"\""},
		"pname_ns": {"%s:", "a%s:", "a%sb:", "ab%s", "%s"},
		"pname":    {"p:%s", "p:a%s", "p:a%sb", "p:%sa", "p:\\%s", "p:a\\%s", "p:%%%s0", "p:%%0%s", "p:a%%%s0", "p:a%%0%s", "p:a.%s", "p:a\\.%s", "%s:a", ":%s "},
		"bnode":    {"_%sa", "_:%s", "_:a%s", "_:a%sb", "_:a.%s", "%s:a"},
		"langtag":  {"@%s", "@a%s", "@a-%s", "@a-b%s", "@a-b-%s", "%sa"},
		"numeric":  {"%s", "1%s", "+%s", "1.%s", "1.5%s", "1e%s", "1e+%s", "1e5%s", ".%s", ".5%s"},
	}
	for _, r := range runes {
		s := string(r)
		for _, kind := range kinds {
			for _, t := range tmpl[kind] {
				g.tok(kind, false, []byte(fmt.Sprintf(t, s)), "probe")
			}
		}
	}
}

// ---------------------------------------------------------------- formatters: T3 + C02 token round trips

func scalarString(g *gen, alpha []rune, max int) string {
	n := g.r.Intn(max + 1)
	var sb strings.Builder
	for i := 0; i < n; i++ {
		if alpha != nil && g.r.Chance(70) {
			sb.WriteRune(vh.Pick(g.r, alpha))
		} else {
			sb.WriteRune(g.r.Scalar())
		}
	}
	return sb.String()
}

// expect checks a producer result of the form "ok <vals> <rest>".
func expectTok(res string, vals []string, rest string) bool {
	parts := make([]string, len(vals))
	for i, v := range vals {
		parts[i] = vh.XS(v)
	}
	return res == "ok "+strings.Join(parts, ",")+" "+vh.XS(rest)
}

func (g *gen) fmtIRI(s string, ascii bool) {
	o := turtle.VerifFormatIRI(s, ascii)
	g.add("fmt-iri", fmt.Sprintf("ttl.fmt iri %s %s", vh.B01(ascii), vh.XS(s)), vh.XS(o), len(o) != len(s))
	rest := vh.Pick(g.r, []string{"", " .", " ;\n", ">"})
	for _, pkg := range []string{"turtle", "trig"} {
		in := "<" + o + ">" + rest
		if res := goTok(pkg, "iriref", false, []byte(in)); !expectTok(res, []string{s}, rest) {
			g.violation("ttl.tok iriref "+pkg+" eof "+vh.XS(in), fmt.Sprintf("C02 iriref round trip: IRI %q written %q read back %s", s, in, res))
		}
	}
	if ascii {
		g.asciiOnly("ttl.fmt iri 1 "+vh.XS(s), o)
	}
}

// asciiOnly: the ASCII option of the term formatter promises ASCII-only output (FormatTermASCII).
func (g *gen) asciiOnly(op, o string) {
	for _, c := range []byte(o) {
		if c >= 0x80 {
			if f, ok := g.known["turtle-ascii-latin1"]; ok {
				g.rep.Add(vh.Case{Kind: "known", Key: f.Key, Op: op, Detail: f.What})
				g.rep.Count("known:" + f.Key)
			} else {
				g.violation(op, fmt.Sprintf("ASCII mode wrote a byte >= 0x80: %q", o))
			}
			return
		}
	}
}

func (g *gen) fmtLit(s string, ascii bool) {
	o := turtle.VerifFormatLiteralLexicalForm(s, ascii)
	g.add("fmt-lit", fmt.Sprintf("ttl.fmt lit %s %s", vh.B01(ascii), vh.XS(s)), vh.XS(o), len(o) != len(s)+2)
	if ascii {
		g.asciiOnly("ttl.fmt lit 1 "+vh.XS(s), o)
	}
	rest := vh.Pick(g.r, []string{"", " .", "@en .", "^^<a:b> .", " ;", "\n"})
	for _, pkg := range []string{"turtle", "trig"} {
		in := o + rest
		if res := goTok(pkg, "string", false, []byte(in)); !expectTok(res, []string{s}, rest) {
			g.violation("ttl.tok string "+pkg+" eof "+vh.XS(in), fmt.Sprintf("C02 string round trip: lexical form %q written %q read back %s", s, in, res))
		}
	}
}

// percentMode: some rune of the local name is written as %XX by format_PN_LOCAL (not an IRI character).
func percentMode(s string) bool {
	rs := []rune(s)
	for i, r := range rs {
		if turtle.VerifPrefixLocalNameMustEscapeRune(r, i, len(rs)) == 1 {
			return true
		}
	}
	return false
}

func (g *gen) fmtLocal(pfx, s string) {
	o, ok := turtle.VerifFormat_PN_LOCAL(s)
	goR := "none"
	if ok {
		goR = "some " + vh.XS(o)
	}
	g.add("fmt-local", "ttl.fmt local "+vh.XS(s), goR, ok && o != s)
	if !ok {
		g.rep.Count("fmt-local:unrepresentable")
		return
	}
	if percentMode(s) {
		// documented deviation (pinned by encoder_test.go TestEncoder_Prefix_BackslashPercentEncoded):
		// characters that cannot occur in an IRI are percent-encoded, the IRI is not preserved
		g.rep.Count("fmt-local:percent-encoded-non-iri-char")
		return
	}
	g.rep.Count("fmt-local:representable")
	rest := vh.Pick(g.r, []string{"", " .", " ;\n", " ", "\n", " ,", " ]", " )", "\t."})
	for _, pkg := range []string{"turtle", "trig"} {
		in := pfx + ":" + o + rest
		if res := goTok(pkg, "pname", false, []byte(in)); !expectTok(res, []string{pfx, s}, rest) {
			g.violation("ttl.tok pname "+pkg+" eof "+vh.XS(in), fmt.Sprintf("C02 pname round trip: local name %q written %q read back %s", s, in, res))
		}
	}
}

var ruleOf = map[string]string{vh.XSD + "integer": "INTEGER", vh.XSD + "decimal": "DECIMAL", vh.XSD + "double": "DOUBLE"}

func (g *gen) fmtBare(s string) {
	dt, ok := turtle.VerifBareLiteralDatatype(s)
	goR := "none"
	if ok {
		goR = "some " + vh.XS(dt)
	}
	g.add("fmt-bare", "ttl.fmt bare "+vh.XS(s), goR, ok)
	if !ok {
		return
	}
	g.rep.Count("fmt-bare:" + dt[len(vh.XSD):])
	rest := vh.Pick(g.r, []string{" .", " ;", " ,", "\n", " ]", " )", " "})
	for _, pkg := range []string{"turtle", "trig"} {
		in := s + rest
		if dt == vh.XSD+"boolean" {
			if res := goBool(pkg, false, []byte(in)); res != "bool:"+s {
				g.violation("ttl.bool eof "+vh.XS(in), fmt.Sprintf("C02 shorthand: boolean %q read back as %s (pkg %s)", s, res, pkg))
			}
			continue
		}
		want := "ok " + ruleOf[dt] + "," + vh.XS(s) + " " + vh.XS(rest)
		if res := goTok(pkg, "numeric", false, []byte(in)); res != want {
			g.violation("ttl.tok numeric "+pkg+" eof "+vh.XS(in), fmt.Sprintf("C02 shorthand: %q (%s) written bare, read back %s", s, dt, res))
		}
	}
}

func (g *gen) boolCases(n int) {
	words := []string{"true", "false", "tru", "fals", "truE", "t", "f", "truex", "false:", "true.", "fa", "tr", "", "a", "trux:a", "falsy"}
	for i := 0; i < n; i++ {
		s := vh.Pick(g.r, words) + vh.Pick(g.r, trailers)
		fail := g.r.Chance(20)
		var res [2]string
		for k, pkg := range []string{"turtle", "trig"} {
			res[k] = goBool(pkg, fail, []byte(s))
		}
		if res[0] != res[1] {
			g.violation("ttl.bool "+vh.XS(s), fmt.Sprintf("C07: boolean keyword handling differs: turtle=%s trig=%s", res[0], res[1]))
		}
		g.add("bool", fmt.Sprintf("ttl.bool %s %s", endName(fail), vh.XS(s)), res[0], strings.HasPrefix(res[0], "bool"))
	}
}

var localHot = []rune(".-_09%:~a\u00e9\u00b7\u00d7\u0300\u203f \\/#@!$&'()*+,;=?<>\"{}|^`\x00\x7f\u4e2d\U0001F41B")
var lexHot = []rune("\"'\\\n\r\t\b\f a\u00e9\u0080\u00ff\u0100\uffff\U00010000\x00\x7f")
var iriHot = []rune("<>\"{}|^`\\ \x00\x1f\x20a:/#\u00e9\u0080\u00ff\u0100\uffff\U00010000")
var numHot = []rune("0123456789+-.eE")

func (g *gen) fmtCases(n int) {
	for i := 0; i < n; i++ {
		g.fmtIRI(scalarString(g, iriHot, 8), g.r.Bool())
		g.fmtLit(scalarString(g, lexHot, 8), g.r.Bool())
		g.fmtLocal(vh.Pick(g.r, []string{"", "ex", "a.b", "é"}), scalarString(g, localHot, 6))
		switch g.r.Intn(4) {
		case 0:
			g.fmtBare(g.genNumeric())
		case 1:
			g.fmtBare(g.str(numHot, 0, 6))
		case 2:
			g.fmtBare(vh.Pick(g.r, []string{"true", "false", "1", "0", "TRUE", "true ", "INF", "NaN", "-INF", "abc", "", "+", ".", "e5", "1e", ".e1", "+.5", "5.", "5.e0"}))
		default:
			g.fmtBare(scalarString(g, numHot, 5))
		}
	}
}

// local names over a 40-rune alphabet, exhaustively up to length maxLen.
var local40 = []rune(".-_09a%:~\\/#@!$&'()*+,;=? \u00e9\u00b7\u00d7\u0300\u203f\u4e2d\U0001F41B\"<>^|x7")

func (g *gen) exhaustiveLocals(maxLen int) {
	var rec func(prefix []rune, depth int)
	rec = func(prefix []rune, depth int) {
		g.fmtLocal("p", string(prefix))
		if depth == maxLen {
			return
		}
		for _, c := range local40 {
			rec(append(prefix, c), depth+1)
		}
	}
	rec(nil, 0)
}

// ---------------------------------------------------------------- single-triple encoder → decoder oracle (public API)

var xsdNumeric = []string{"integer", "decimal", "double", "boolean", "long", "int", "float", "nonNegativeInteger", "string"}

func sameLiteral(a, b rdf.Literal) bool {
	if a.Datatype != b.Datatype || a.LexicalForm != b.LexicalForm {
		return false
	}
	at, aok := a.Tag.(rdf.LanguageLiteralTag)
	bt, bok := b.Tag.(rdf.LanguageLiteralTag)
	return aok == bok && at == bt
}

func sameTerm(a, b rdf.Term) bool {
	switch x := a.(type) {
	case rdf.IRI:
		y, ok := b.(rdf.IRI)
		return ok && x == y
	case rdf.Literal:
		y, ok := b.(rdf.Literal)
		return ok && sameLiteral(x, y)
	}
	return false
}

func (g *gen) encOracle(n int) {
	ns := []string{"http://e/", "http://e/a/", "http://e/a#", "urn:x:", vh.XSD}
	for i := 0; i < n; i++ {
		mk := func() rdf.IRI {
			if g.r.Chance(15) {
				return rdf.IRI(g.r.AbsIRI(vh.IRIOpts{}))
			}
			// local parts drawn from IRI-legal characters (ipchar, '/', '?', '#'): the property is
			// about well-formed terms
			loc := g.str([]rune(".-_09a%41:~/#@!$&'()*+,;=?\u00e9\u00b7\u00d7\u0300\u203f\u4e2d\U0001F41Bxyz"), 0, 5)
			return rdf.IRI(vh.Pick(g.r, ns) + loc)
		}
		var obj rdf.ObjectValue
		switch g.r.Intn(4) {
		case 0:
			obj = mk()
		case 1:
			lex := vh.Pick(g.r, []string{g.genNumeric(), g.genNumeric(), "true", "false", "1", "0", "abc", "", "INF", "5", "5.0", "5e0", "+5", ".5", "5."})
			obj = rdf.Literal{Datatype: rdf.IRI(vh.XSD + vh.Pick(g.r, xsdNumeric)), LexicalForm: lex}
		case 2:
			obj = rdf.Literal{Datatype: "http://www.w3.org/1999/02/22-rdf-syntax-ns#langString", LexicalForm: g.r.LexicalForm(), Tag: rdf.LanguageLiteralTag{Language: g.r.LangTag()}}
		default:
			dt := rdf.IRI(vh.XSDString)
			if g.r.Chance(40) {
				dt = mk()
				if dt == "http://www.w3.org/1999/02/22-rdf-syntax-ns#langString" {
					dt = rdf.IRI(vh.XSDString)
				}
			}
			obj = rdf.Literal{Datatype: dt, LexicalForm: g.r.LexicalForm()}
		}
		t := rdf.Triple{Subject: mk(), Predicate: mk(), Object: obj}
		var pm iri.PrefixMappingList
		for k, e := range ns {
			if g.r.Chance(60) {
				// valid PN_PREFIX labels only (the empty label at most once)
				label := vh.Pick(g.r, []string{"ex", "a.b", "p", "é-"}) + fmt.Sprint(k)
				if k == 0 && g.r.Bool() {
					label = ""
				}
				pm = append(pm, iri.PrefixMapping{Prefix: label, Expanded: e})
			}
		}
		var buf bytes.Buffer
		cfg := turtle.EncoderConfig{}.SetPrefixes(pm).SetBuffered(g.r.Bool())
		e, err := turtle.NewEncoder(&buf, cfg)
		if err != nil {
			g.violation("enc", "NewEncoder: "+err.Error())
			continue
		}
		desc := fmt.Sprintf("triple=%#v prefixes=%v", t, pm)
		if err := e.AddTriple(context.Background(), t); err != nil {
			g.violation("enc", "AddTriple: "+err.Error()+" — "+desc)
			continue
		}
		if err := e.Close(); err != nil {
			g.violation("enc", "Close: "+err.Error()+" — "+desc)
			continue
		}
		doc := buf.Bytes()
		g.rep.Eval("enc-oracle "+desc, true)
		g.rep.Count("op:enc-oracle")
		for _, pkg := range []string{"turtle", "trig"} {
			got, verdict := decodeAll(pkg, doc)
			if verdict != "clean" || len(got) != 1 || !sameTerm(t.Subject, got[0].Subject) || !sameTerm(t.Predicate, got[0].Predicate) || !sameTerm(t.Object, got[0].Object) {
				g.violation("enc-oracle "+pkg, fmt.Sprintf("C02: encoder output not read back as the input: doc=%q verdict=%s got=%#v — %s", doc, verdict, got, desc))
			}
		}
	}
}

func decodeAll(pkg string, doc []byte) (ts []rdf.Triple, verdict string) {
	defer func() {
		if p := recover(); p != nil {
			verdict = fmt.Sprintf("panic:%v", p)
		}
	}()
	if pkg == "turtle" {
		d, err := turtle.NewDecoder(bytes.NewReader(doc))
		if err != nil {
			return nil, "err:" + err.Error()
		}
		for d.Next() {
			ts = append(ts, d.Triple())
		}
		return ts, vh.ErrClass(d.Err())
	}
	d, err := trig.NewDecoder(bytes.NewReader(doc))
	if err != nil {
		return nil, "err:" + err.Error()
	}
	for d.Next() {
		q := d.Quad()
		if q.GraphName != nil {
			return ts, "named-graph"
		}
		ts = append(ts, q.Triple)
	}
	return ts, vh.ErrClass(d.Err())
}

// ---------------------------------------------------------------- C08: printer choices (Spec/TurtlePrinter.lean)

// printCases asks the driver to print a token value under random lexical choices, then feeds the
// printed text to the real producers of both packages: the value must come back.
type printCase struct {
	kind  string // producer
	line  string // ttl.print …
	vals  []string
	trail string
}

func choiceString(g *gen, n int, alphabet string) string {
	b := make([]byte, n)
	for i := range b {
		b[i] = alphabet[g.r.Intn(len(alphabet))]
	}
	if n == 0 {
		return "-"
	}
	return string(b)
}

func (g *gen) printCases(n int) []printCase {
	var cs []printCase
	for i := 0; i < n; i++ {
		switch i % 4 {
		case 0: // IRIREF: choices r(aw) u U, lower-case hex flag l
			s := scalarString(g, iriHot, 6)
			ch := choiceString(g, utf8.RuneCountInString(s), "rrruUlL")
			cs = append(cs, printCase{"iriref", fmt.Sprintf("ttl.print iriref %s %s", ch, vh.XS(s)), []string{s}, vh.Pick(g.r, []string{"", " .", ">"})})
		case 1: // String: style 0..3, choices r e u U l L
			s := scalarString(g, lexHot, 6)
			ch := choiceString(g, utf8.RuneCountInString(s), "rrreeuUlL")
			style := g.r.Intn(4)
			cs = append(cs, printCase{"string", fmt.Sprintf("ttl.print string %d %s %s", style, ch, vh.XS(s)), []string{s}, vh.Pick(g.r, []string{"", " .", "@en", "^^<a:b>", "x"})})
		case 2: // prefixed name: local name from the printable universe; choices r(aw) e(sc)
			pfx := g.genPrefix()
			loc := g.genLocalValue()
			ch := choiceString(g, utf8.RuneCountInString(loc), "rre")
			cs = append(cs, printCase{"pname", fmt.Sprintf("ttl.print pname %s %s %s", ch, vh.XS(pfx), vh.XS(loc)), []string{pfx, loc}, vh.Pick(g.r, []string{"", " .", " ", ";", ",", "\n", ")", "]", " .\n"})})
		default: // numeric shorthand
			s := g.genNumeric()
			cs = append(cs, printCase{"numeric", fmt.Sprintf("ttl.print numeric - %s", vh.XS(s)), []string{s}, vh.Pick(g.r, []string{"", " .", " ;", ",", "\n", ")", "]"})})
		}
	}
	return cs
}

// genLocalValue: a decoded local name that some grammatical PN_LOCAL denotes.
func (g *gen) genLocalValue() string {
	var sb strings.Builder
	for i, n := 0, g.r.Intn(6); i < n; i++ {
		switch g.r.Intn(8) {
		case 0:
			sb.WriteString("%" + string(vh.Pick(g.r, hexDigits)) + string(vh.Pick(g.r, hexDigits)))
		case 1:
			sb.WriteRune(vh.Pick(g.r, []rune("_~.-!$&'()*+,;=/?#@%")))
		case 2:
			sb.WriteRune(vh.Pick(g.r, []rune(".:")))
		case 3:
			sb.WriteRune(vh.Pick(g.r, pnExtra))
		default:
			sb.WriteRune(vh.Pick(g.r, pnBase))
		}
	}
	return sb.String()
}

// ---------------------------------------------------------------- main

func main() {
	flag.Parse()
	seed := vh.SeedFromEnv()
	rep := vh.NewReport(*prop, *tier, seed, "token layer of Turtle/TriG: grammar-directed tokens of the 7 producer kinds with trailers, byte mutations and truncations (eof / injected reader error), unstructured strings over per-kind hot alphabets, single-rune probes at every scanner position; formatter inputs over hot alphabets around every escaping rule (local names starting/ending with '.', '-', digits, containing '%', ':', '~', non-PN_CHARS Unicode); non-trivial = producer accepted the input (tok), formatter changed its input (fmt), datatype recognised (bare)")
	g := &gen{r: vh.NewRng(seed), rep: rep}
	fs, err := vh.LoadFindings(*findings)
	if err != nil {
		fmt.Fprintln(os.Stderr, "findings:", err)
		os.Exit(2)
	}
	g.known = vh.KnownKeys(fs, *prop)
	var prints []printCase

	runLine := func(l string) {
		f := strings.Fields(l)
		switch {
		case len(f) == 5 && f[0] == "ttl.tok":
			b, err := vh.UnX(f[4])
			if err == nil {
				g.tok(f[1], f[3] == "io", b, "replay")
			}
		case len(f) == 3 && f[0] == "ttl.fmt" && f[1] == "local":
			b, err := vh.UnX(f[2])
			if err == nil && utf8.Valid(b) {
				g.fmtLocal("p", string(b))
			}
		case len(f) == 3 && f[0] == "ttl.fmt" && f[1] == "bare":
			b, err := vh.UnX(f[2])
			if err == nil && utf8.Valid(b) {
				g.fmtBare(string(b))
			}
		case len(f) == 4 && f[0] == "ttl.fmt" && (f[1] == "iri" || f[1] == "lit"):
			b, err := vh.UnX(f[3])
			if err == nil && utf8.Valid(b) {
				if f[1] == "iri" {
					g.fmtIRI(string(b), f[2] == "1")
				} else {
					g.fmtLit(string(b), f[2] == "1")
				}
			}
		}
	}

	if *replay != "" {
		b, err := os.ReadFile(*replay)
		if err != nil {
			fmt.Fprintln(os.Stderr, err)
			os.Exit(2)
		}
		for _, l := range strings.Split(strings.TrimSpace(string(b)), "\n") {
			runLine(l)
		}
	} else {
		if *hints != "" {
			if b, err := os.ReadFile(*hints); err == nil {
				for _, l := range strings.Split(string(b), "\n") {
					runLine(l)
				}
			}
		}
		n := 4000 * *scale
		probes := append([]rune{}, vh.HotRunes...)
		for r := rune(0); r < 0x180; r++ {
			probes = append(probes, r)
		}
		if *tier == "thorough" {
			n = 150000 * *scale
			for r := rune(0x180); r < 0x3100; r++ {
				probes = append(probes, r)
			}
			for i := 0; i < 20000; i++ {
				probes = append(probes, g.r.Scalar())
			}
			for _, k := range kinds {
				g.exhaustiveHot(k, 13, 4)
			}
			rep.Exhaustive = append(rep.Exhaustive, "every string of length <= 4 over a 13-symbol hot alphabet per producer kind x {eof, reader error} x {turtle, trig}")
			g.exhaustiveLocals(3)
			rep.Exhaustive = append(rep.Exhaustive, "format_PN_LOCAL + producePrefixedName round trip on every local name of length <= 3 over a 40-rune alphabet")
			rep.Exhaustive = append(rep.Exhaustive, "single-rune probes: every code point below U+3100 at every scanner position of every producer")
		} else {
			for i := 0; i < 1000; i++ {
				probes = append(probes, g.r.Scalar())
			}
			for _, k := range kinds {
				g.exhaustiveHot(k, 8, 3)
			}
			g.exhaustiveLocals(2)
			rep.Exhaustive = append(rep.Exhaustive, "every string of length <= 3 over an 8-symbol hot alphabet per producer kind; local names of length <= 2 over a 40-rune alphabet")
		}
		g.tokCases(n)
		g.probeRunes(probes)
		g.fmtCases(n)
		g.boolCases(n / 10)
		g.encOracle(n / 2)
		prints = g.printCases(n)
	}

	if *nomodel {
		if rep.Cases == nil {
			rep.Cases = []vh.Case{} // "cases": [] rather than null for ./check
		}
		if err := rep.Write(*out); err != nil {
			fmt.Fprintln(os.Stderr, err)
			os.Exit(2)
		}
		fmt.Printf("c02tok (oracle only): %d evaluations, %d failures\n", rep.Evaluations, rep.Failures())
		if rep.Failures() > 0 {
			os.Exit(1)
		}
		return
	}

	lines := make([]string, 0, len(g.items)+len(prints))
	for _, it := range g.items {
		lines = append(lines, it.line)
	}
	for _, p := range prints {
		lines = append(lines, p.line)
	}
	res, err := vh.Driver{Path: *driver}.RunParallel(lines)
	if err != nil {
		fmt.Fprintln(os.Stderr, err)
		os.Exit(2)
	}
	for i, it := range g.items {
		rep.Compared++
		if res[i] != it.goR {
			rep.Add(vh.Case{Kind: "disagreement", Op: it.line, Go: it.goR, Model: res[i], Detail: it.kind})
		}
	}
	for k, p := range prints {
		printed := res[len(g.items)+k]
		rep.Eval(p.line, true)
		rep.Count("op:print-" + p.kind)
		if !strings.HasPrefix(printed, "x") {
			if printed == "unprintable" {
				rep.Count("print:unprintable-value")
				continue
			}
			rep.Add(vh.Case{Kind: "disagreement", Op: p.line, Model: printed, Detail: "printer did not answer"})
			continue
		}
		text, _ := vh.UnX(printed)
		in := append(append([]byte{}, text...), p.trail...)
		for _, pkg := range []string{"turtle", "trig"} {
			got := goTok(pkg, p.kind, false, in)
			ok := false
			if p.kind == "numeric" {
				dt, _ := turtle.VerifBareLiteralDatatype(p.vals[0])
				ok = got == "ok "+ruleOf[dt]+","+vh.XS(p.vals[0])+" "+vh.XS(p.trail)
			} else {
				ok = expectTok(got, p.vals, p.trail)
			}
			if !ok {
				rep.Add(vh.Case{Kind: "violation", Op: fmt.Sprintf("ttl.tok %s %s eof %s", p.kind, pkg, vh.X(in)),
					Detail: fmt.Sprintf("C08: printed form %q (%s) of value %q read back as %s", in, p.line, p.vals, got)})
			}
		}
	}
	if rep.Cases == nil {
		rep.Cases = []vh.Case{} // "cases": [] rather than null for ./check
	}
	if err := rep.Write(*out); err != nil {
		fmt.Fprintln(os.Stderr, err)
		os.Exit(2)
	}
	fmt.Printf("c02tok[%s]: %d evaluations, %d compared with the model, %d failures\n", *prop, rep.Evaluations, rep.Compared, rep.Failures())
	if rep.Failures() > 0 {
		os.Exit(1)
	}
}
