/-
  Proofs.C04Tables — the N-Quads writer tables (T1, UTF-8 mode) against canonical N-Quads
  (RDFC-1.0 §5): Boolean checkers over the table *entries* with their soundness theorems, and the
  two writer lemmas `canonical_literal_escaping`, `canonical_iri` that follow from the table facts.

  `Props/C04Tables.lean` discharges the checkers on the regenerated tables by `decide`.  The
  checkers look only at the function graph of `lookup` (first matching entry, default 0), so they
  accept every table denoting the same function and reject a table in which, e.g., TAB is no longer
  written as `\t`.
-/
import RdfModel.Props.C04Defs
import RdfModel.Proofs.C01Check
namespace RdfModel.Proofs.C04
open RdfModel RdfModel.NQ RdfModel.C04
open RdfModel.Proofs.C01 (checkRange checkRange_sound)

/-! ### range checks on an interval unbounded above -/

/-- `q (lookup tbl d c)` for every `c ≥ lo` (also beyond U+10FFFF), decided on the entries. -/
def checkFrom (q : Nat → Bool) (d : Nat) : RangeTable → Nat → Bool
  | [], _ => q d
  | (l, h, v) :: rest, lo =>
    (if max lo l ≤ h then q v else true) &&
    (if lo < l then checkRange q d rest lo (l - 1) else true) &&
    checkFrom q d rest (max lo (h + 1))

theorem checkFrom_sound (q : Nat → Bool) (d : Nat) (tbl : RangeTable) :
    ∀ lo, checkFrom q d tbl lo = true → ∀ c, lo ≤ c → q (lookup tbl d c) = true := by
  induction tbl with
  | nil => intro lo h c _; simpa [checkFrom, lookup] using h
  | cons e rest ih =>
    obtain ⟨l, h, v⟩ := e
    intro lo hchk c h1
    simp only [checkFrom, Bool.and_eq_true] at hchk
    obtain ⟨⟨hA, hB⟩, hC⟩ := hchk
    unfold lookup
    split
    · next hin =>
      rw [if_pos (by omega)] at hA
      exact hA
    · next hout =>
      rcases Nat.lt_or_ge c l with hc | hc
      · rw [if_pos (by omega)] at hB
        exact checkRange_sound q d rest _ _ hB c h1 (by omega)
      · exact ih _ hC c (by omega)

def isVal (n v : Nat) : Bool := v == n

/-- the table value is `n` on every code point of every range of `rs` -/
def valOn (n : Nat) (tbl : RangeTable) (rs : RangeSet) : Bool :=
  rs.all (fun r => checkRange (isVal n) 0 tbl r.1 r.2)

theorem valOn_sound {n : Nat} {tbl : RangeTable} {rs : RangeSet} (h : valOn n tbl rs = true)
    {c : Nat} (hc : inRanges rs c = true) : lookup tbl 0 c = n := by
  rw [inRanges_iff] at hc
  obtain ⟨r, hr, h1, h2⟩ := hc
  simp only [valOn, List.all_eq_true] at h
  have := checkRange_sound (isVal n) 0 tbl _ _ (h r hr) c h1 h2
  simpa [isVal] using this

theorem valFrom_sound {n : Nat} {tbl : RangeTable} {lo : Nat}
    (h : checkFrom (isVal n) 0 tbl lo = true) {c : Nat} (hc : lo ≤ c) : lookup tbl 0 c = n := by
  have := checkFrom_sound (isVal n) 0 tbl lo h c hc
  simpa [isVal] using this

/-! ### (a) the literal table: `TablesCanon` -/

/-- The seven ECHAR code points with the letter canonical N-Quads writes after the backslash:
    `\b \t \n \f \r \" \\`. -/
def echarPoints : List (Nat × Nat) :=
  [(0x08, 0x62), (0x09, 0x74), (0x0a, 0x6e), (0x0c, 0x66), (0x0d, 0x72), (0x22, 0x22), (0x5c, 0x5c)]

/-- Code points written `\uXXXX`: C0 controls other than the ECHAR ones, DEL, U+FFFE, U+FFFF. -/
def litU4 : RangeSet := [(0x00, 0x07), (0x0b, 0x0b), (0x0e, 0x1f), (0x7f, 0x7f), (0xFFFE, 0xFFFF)]

/-- Bounded part of the code points written raw (the rest is everything from U+10000 upwards). -/
def litRaw : RangeSet := [(0x20, 0x21), (0x23, 0x5b), (0x5d, 0x7e), (0x80, 0xFFFD)]

def echarChk (T : Tables) : Bool :=
  echarPoints.all (fun p => lookup (T.litEsc false) 0 p.1 == 1 && lookup T.echar 0 p.1 == p.2)

/-- All the Boolean checks behind `TablesCanon`. -/
def chkCanon (T : Tables) : Bool :=
  valOn 0 (T.litEsc false) litRaw &&
  checkFrom (isVal 0) 0 (T.litEsc false) 0x10000 &&
  echarChk T &&
  valOn 2 (T.litEsc false) litU4

theorem echar_of_chk {T : Tables} (h : echarChk T = true) {c l : Nat} (hm : (c, l) ∈ echarPoints) :
    NQ.escLitRune T false c = [0x5c, l] := by
  simp only [echarChk, List.all_eq_true, Bool.and_eq_true, beq_iff_eq] at h
  obtain ⟨h1, h2⟩ := h _ hm
  simp only [NQ.escLitRune, h1, h2]

theorem u4_of_chk {T : Tables} (h : valOn 2 (T.litEsc false) litU4 = true) {c : Nat}
    (hc : inRanges litU4 c = true) : NQ.escLitRune T false c = 0x5c :: 0x75 :: hex4 c := by
  simp only [NQ.escLitRune, valOn_sound h hc]

theorem raw_of_chk {T : Tables} {c : Nat} (h : lookup (T.litEsc false) 0 c = 0) :
    NQ.escLitRune T false c = [c] := by
  simp only [NQ.escLitRune, h]

theorem tablesCanon_of_chk (T : NQ.Tables) (h : chkCanon T = true) : C04.TablesCanon T := by
  simp only [chkCanon, Bool.and_eq_true] at h
  obtain ⟨⟨⟨hraw, hbig⟩, hech⟩, hu4⟩ := h
  constructor
  intro c
  unfold Spec.RDFC10.escLitRune
  split
  · next hc => subst hc; exact echar_of_chk hech (by simp [echarPoints])
  split
  · next hc => subst hc; exact echar_of_chk hech (by simp [echarPoints])
  split
  · next hc => subst hc; exact echar_of_chk hech (by simp [echarPoints])
  split
  · next hc => subst hc; exact echar_of_chk hech (by simp [echarPoints])
  split
  · next hc => subst hc; exact echar_of_chk hech (by simp [echarPoints])
  split
  · next hc => subst hc; exact echar_of_chk hech (by simp [echarPoints])
  split
  · next hc => subst hc; exact echar_of_chk hech (by simp [echarPoints])
  split
  · next h1 h2 h3 h4 h5 h6 h7 hc =>
    apply u4_of_chk hu4
    simp only [litU4, inRanges, Bool.or_eq_true, Bool.and_eq_true, decide_eq_true_eq]
    omega
  · next h1 h2 h3 h4 h5 h6 h7 hc =>
    apply raw_of_chk
    rcases Nat.lt_or_ge c 0x10000 with hlt | hge
    · apply valOn_sound hraw
      simp only [litRaw, inRanges, Bool.or_eq_true, Bool.and_eq_true, decide_eq_true_eq]
      omega
    · exact valFrom_sound hbig hge

/-! ### (c) IRIs whose code points the table leaves raw are written verbatim -/

theorem iriBody_raw (T : NQ.Tables) (v : Str) (h : C04.IriRaw T v) : NQ.iriBody T false v = v := by
  induction v with
  | nil => rfl
  | cons c v ih =>
    have hc : lookup (T.iriEsc false) 0 c = 0 := h c List.mem_cons_self
    have hv : NQ.iriBody T false v = v := ih (fun x hx => h x (List.mem_cons_of_mem _ hx))
    simp only [NQ.iriBody] at hv
    simp only [NQ.iriBody, List.flatMap_cons, NQ.escIRIRune, hc, hv, List.singleton_append]

theorem canonical_iri (T : NQ.Tables) (v : Str) (h : C04.IriRaw T v) :
    NQ.writeIRI T false v = Spec.RDFC10.iriRef v := by
  simp only [NQ.writeIRI, Spec.RDFC10.iriRef, iriBody_raw T v h]

/-! ### (b) literals -/

theorem litBody_canon (T : NQ.Tables) (hT : C04.TablesCanon T) (lex : Str) :
    NQ.litBody T false lex = lex.flatMap Spec.RDFC10.escLitRune := by
  have : NQ.escLitRune T false = Spec.RDFC10.escLitRune := funext hT.lit
  simp only [NQ.litBody, this]

theorem xsdString_ne_rdfLangString : xsdString ≠ rdfLangString := by decide

theorem canonical_literal_escaping (T : NQ.Tables) (hT : C04.TablesCanon T) (lex dt : Str)
    (lang : Option Str) (h : C04.WFLit T dt lang) :
    NQ.writeLiteral T false lex dt lang = Spec.RDFC10.literal lex dt lang := by
  obtain ⟨hraw, htag⟩ := h
  simp only [NQ.writeLiteral, Spec.RDFC10.literal, litBody_canon T hT, canonical_iri T dt hraw]
  by_cases hx : dt = xsdString
  · have hl : dt ≠ rdfLangString := fun hr => xsdString_ne_rdfLangString (hx ▸ hr)
    cases lang with
    | none => simp only [if_pos hx]
    | some l => exact absurd (htag.1 rfl) hl
  · by_cases hr : dt = rdfLangString
    · cases lang with
      | none => exact absurd (htag.2 hr) (by simp)
      | some l => simp only [if_neg hx, if_pos hr]
    · cases lang with
      | none => simp only [if_neg hx, if_neg hr]
      | some l => exact absurd (htag.1 rfl) hr

/-! ### (d) the IRI table: which code points are written raw -/

/-- Code points `WriteIRI` must escape: U+0000–U+0020 and `" < > \ ^ backquote { | }`. -/
def iriBad : RangeSet :=
  [(0x00, 0x20), (0x22, 0x22), (0x3c, 0x3c), (0x3e, 0x3e), (0x5c, 0x5c), (0x5e, 0x5e), (0x60, 0x60),
   (0x7b, 0x7d)]

/-- Bounded part of the complement (the rest is everything from U+007E upwards). -/
def iriGood : RangeSet :=
  [(0x21, 0x21), (0x23, 0x3b), (0x3d, 0x3d), (0x3f, 0x5b), (0x5d, 0x5d), (0x5f, 0x5f), (0x61, 0x7a)]

def chkIri (T : Tables) : Bool :=
  C01.badNZ (T.iriEsc false) iriBad &&
  valOn 0 (T.iriEsc false) iriGood &&
  checkFrom (isVal 0) 0 (T.iriEsc false) 0x7e

theorem iriRaw_iff_of_chk (T : NQ.Tables) (h : chkIri T = true) (c : Nat) :
    lookup (T.iriEsc false) 0 c = 0 ↔
      ¬ (c ≤ 0x20 ∨ c = 0x3c ∨ c = 0x3e ∨ c = 0x22 ∨ c = 0x7b ∨ c = 0x7d ∨ c = 0x7c ∨ c = 0x5e ∨
         c = 0x60 ∨ c = 0x5c) := by
  simp only [chkIri, Bool.and_eq_true] at h
  obtain ⟨⟨hbad, hgood⟩, hbig⟩ := h
  constructor
  · intro h0
    have := C01.raw_of_bad _ _ hbad c h0
    simp only [iriBad, inRanges, Bool.or_eq_false_iff, Bool.and_eq_false_iff,
      decide_eq_false_iff_not] at this
    omega
  · intro hc
    rcases Nat.lt_or_ge c 0x7e with hlt | hge
    · apply valOn_sound hgood
      simp only [iriGood, inRanges, Bool.or_eq_true, Bool.and_eq_true, decide_eq_true_eq]
      omega
    · exact valFrom_sound hbig hge

end RdfModel.Proofs.C04
