/-
  C11, combined decoder: the iterator chain of encoding/html/htmldefaults yields the concatenation of its nested
  decoders' streams (up to the first one that fails), and the blank-node histories of one combined decode keep the
  sub-decoders' nodes apart. Helper lemmas for Props/C11.lean.
-/
import RdfModel.Model.HtmlCombined
import RdfModel.Proofs.C14
namespace RdfModel.Html
open RdfModel

variable {Q : Type}

def total (its : List (Iter Q)) : Nat := (its.map (fun it => it.items.length)).sum

theorem nextIters_some {its its' : List (Iter Q)} {q : Q} {e : Bool} (h : nextIters its = (some q, its', e)) :
    e = false ∧ chainItems its = q :: chainItems its' ∧ chainErr its = chainErr its' ∧ total its = total its' + 1 := by
  induction its with
  | nil => simp [nextIters] at h
  | cons it rest ih =>
    cases hit : it.items with
    | nil =>
      by_cases he : it.err = true
      · simp [nextIters, hit, he] at h
      · have he' : it.err = false := by simpa using he
        simp only [nextIters, hit, he'] at h
        obtain ⟨h1, h2, h3, h4⟩ := ih h
        refine ⟨h1, ?_, ?_, ?_⟩
        · simp [chainItems, hit, he', h2]
        · simp [chainErr, he', h3]
        · simp [total, hit] at h4 ⊢; exact h4
    | cons x xs =>
      simp only [nextIters, hit, Prod.mk.injEq, Option.some.injEq] at h
      obtain ⟨rfl, rfl, rfl⟩ := h
      refine ⟨rfl, ?_, ?_, ?_⟩
      · simp [chainItems, hit]
      · simp [chainErr]
      · simp [total, hit]; omega

theorem nextIters_none {its its' : List (Iter Q)} {e : Bool} (h : nextIters its = (none, its', e)) :
    chainItems its = [] ∧ e = chainErr its := by
  induction its with
  | nil => simp [nextIters] at h; simp [chainItems, chainErr, h]
  | cons it rest ih =>
    cases hit : it.items with
    | nil =>
      by_cases he : it.err = true
      · simp [nextIters, hit, he] at h
        simp [chainItems, chainErr, hit, he, h]
      · have he' : it.err = false := by simpa using he
        simp only [nextIters, hit, he'] at h
        obtain ⟨h1, h2⟩ := ih h
        simp [chainItems, chainErr, hit, he', h1, h2]
    | cons x xs => simp [nextIters, hit] at h

/-- draining a decoder that has been initialised with `its` -/
theorem drain_running (init : Option (List (Iter Q))) (fuel : Nat) (its : List (Iter Q)) (h : total its < fuel) :
    (drain init fuel { err := false, iters := some its }).1 = chainItems its ∧
    (drain init fuel { err := false, iters := some its }).2.err = chainErr its := by
  induction fuel generalizing its with
  | zero => omega
  | succ f ih =>
    rcases hn : nextIters its with ⟨oq, its', e⟩
    cases oq with
    | none =>
      obtain ⟨h1, h2⟩ := nextIters_none hn
      simp [drain, Dec.next, hn, h1, h2]
    | some q =>
      obtain ⟨h1, h2, h3, h4⟩ := nextIters_some hn
      subst h1
      have := ih its' (by omega)
      simp [drain, Dec.next, hn, h2, h3, this.1, this.2]

theorem drain_new (fuel : Nat) (its : List (Iter Q)) (h : total its < fuel) :
    (drain (some its) fuel Dec.new).1 = chainItems its ∧ (drain (some its) fuel Dec.new).2.err = chainErr its := by
  cases fuel with
  | zero => omega
  | succ f =>
    rcases hn : nextIters its with ⟨oq, its', e⟩
    cases oq with
    | none =>
      obtain ⟨h1, h2⟩ := nextIters_none hn
      simp [drain, Dec.next, Dec.new, hn, h1, h2]
    | some q =>
      obtain ⟨h1, h2, h3, h4⟩ := nextIters_some hn
      subst h1
      have := drain_running (some its) f its' (by omega)
      simp [drain, Dec.next, Dec.new, hn, h2, h3, this.1, this.2]

theorem chainItems_clean (its : List (Iter Q)) (h : ∀ it ∈ its, it.err = false) :
    chainItems its = its.flatMap (fun it => it.items) := by
  induction its with
  | nil => rfl
  | cons it rest ih =>
    have h1 := h it (by simp)
    simp [chainItems, h1, ih (fun x hx => h x (by simp [hx]))]

theorem chainErr_clean (its : List (Iter Q)) (h : ∀ it ∈ its, it.err = false) : chainErr its = false := by
  induction its with
  | nil => rfl
  | cons it rest ih => simp [chainErr, h it (by simp), ih (fun x hx => h x (by simp [hx]))]

open RdfModel.Desc in
/-- the chain over a document's three readings yields their union, in the order jsonld, microdata, rdfa -/
theorem docIters_items {βJ βM βR : Type} (fm : βM → CB βJ) (fr : βR → CB βJ) (scripts : List (List (DQuad βJ)))
    (md : List (Triple βM)) (rdfa : List (Triple βR)) :
    chainItems (docIters fm fr scripts md rdfa) = unionOf fm fr scripts md rdfa ∧
    chainErr (docIters fm fr scripts md rdfa) = false := by
  have hclean : ∀ it ∈ scripts.zipIdx.map (fun sk => ({ items := sk.1.map (DQuad.map (CB.j sk.2)), err := false } : Iter (DQuad (CB βJ)))),
      it.err = false := by
    intro it hit
    obtain ⟨sk, _, rfl⟩ := List.mem_map.mp hit
    rfl
  constructor
  · simp [docIters, unionOf, chainItems, jsonldIter, chainErr_clean _ hclean, chainItems_clean _ hclean, List.flatMap_map]
  · simp [docIters, chainErr, jsonldIter, chainErr_clean _ hclean]

/-! ### which script elements htmljsonld reads -/

open Spec.Html in
theorem scriptsKids_append (xs ys : List Tree) : scriptsKids (xs ++ ys) = scriptsKids xs ++ scriptsKids ys := by
  induction xs with
  | nil => simp [scriptsKids]
  | cons x xs ih => simp [scriptsKids, ih, List.append_assoc]

open Spec.Html in
/-- a JSON-LD script element with content -/
def ldScript (text : Str) : Tree := .elem .script { type := some ldJson } [.text text]

open Spec.Html in
/-- where the harness writer puts the script: in the head, in the body, or wrapped inside body content -/
def embed (place : Nat) (headNoise before after : List Tree) (text : Str) : Tree :=
  match place % 3 with
  | 0 => .elem .html {} [.elem .head {} (headNoise ++ [ldScript text]), .elem .body {} (before ++ after)]
  | 1 => .elem .html {} [.elem .head {} headNoise, .elem .body {} (before ++ ldScript text :: after)]
  | _ => .elem .html {} [.elem .head {} headNoise, .elem .body {} (before ++ .elem .div {} [.elem .span {} [ldScript text]] :: after)]

open Spec.Html in
theorem scripts_embed (place : Nat) (headNoise before after : List Tree) (text : Str)
    (h1 : scriptsKids headNoise = []) (h2 : scriptsKids before = []) (h3 : scriptsKids after = []) :
    scriptsNode (embed place headNoise before after text) = [text] := by
  unfold embed
  split <;>
    simp [scriptsNode, scriptsKids, scriptsKids_append, ldScript, h1, h2, h3]

/-! ### blank-node factories -/

open BN RdfModel.C14 in
/-- the factory each sub-decoder (each script's decoder) draws from, by allocation order -/
def ownerFactory (r : Run) : Owner → FactoryRef
  | .jsonld k => .strf (k + 1)
  | .microdata => .bnf (r.scripts.length + 1)
  | .rdfa => .strf 0

open BN in
theorem ownerFactory_injective (r : Run) : Function.Injective (ownerFactory r) := by
  intro a b h
  cases a <;> cases b <;> simp [ownerFactory] at h <;> simp [h]

open BN RdfModel.C14 in
theorem opFactory_reqOp (j : Nat) (q : Req) : opFactory (reqOp j q) = some (.strf j) := by
  cases q <;> rfl

open BN RdfModel.C14 in
theorem scriptOps_owner (ss : List (List Req)) (k : Nat) :
    ∀ e ∈ scriptOps k ss, ∃ k' q, e = (some (Owner.jsonld k'), reqOp (k' + 1) q) := by
  induction ss generalizing k with
  | nil => simp [scriptOps]
  | cons rs rest ih =>
    intro e he
    simp only [scriptOps, List.mem_append, List.mem_map] at he
    rcases he with ⟨q, _, rfl⟩ | he
    · exact ⟨k, q, rfl⟩
    · exact ih (k + 1) e he

open BN RdfModel.C14 in
/-- every node request of the history goes to the factory of the sub-decoder it is tagged with -/
theorem tagged_owner (r : Run) (e : Option Owner × Op) (he : e ∈ tagged r) (o : Owner) (ho : e.1 = some o) :
    opFactory e.2 = some (ownerFactory r o) := by
  simp only [tagged, List.mem_append, List.mem_cons, List.mem_map, List.mem_replicate, List.not_mem_nil, or_false] at he
  rcases he with ((((rfl | ⟨_, _, rfl⟩) | he) | rfl) | ⟨_, rfl⟩) | ⟨q, _, rfl⟩
  · simp at ho
  · simp at ho
  · obtain ⟨k', q, rfl⟩ := scriptOps_owner r.scripts 0 e he
    simp at ho; subst ho
    simp [ownerFactory, opFactory_reqOp]
  · simp at ho
  · simp at ho; subst ho
    simp [ownerFactory, opFactory]
  · simp at ho; subst ho
    simp [ownerFactory, opFactory_reqOp]

end RdfModel.Html
