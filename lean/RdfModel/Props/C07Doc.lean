/-
  C07 at document level — "every Turtle document is TriG": what the document-level development of
  C08 (`Props/C08Doc.lean`) adds to `Props/C07Ttl.lean`.

  `C07.ttl_sub_trig_sim_partial` (Props/C07Ttl.lean) is the simulation for ALL inputs the Turtle run
  accepts, grammatical or not, over abstract token producers with the hypothesis `KwSafe`.
  PROVED here, for the configuration the driver runs:

    * `ttl_sub_trig_real_partial` — the simulation for the REAL token producers and tables of both
      packages (`C05.realCfg`), every resolver, base, prefix table, input and stream ending, and
      every white-space predicate without PN_CHARS runes, `:` and `.` (`SpaceOK`);
      `ttl_sub_trig_unicode_partial` instantiates it with Go's `unicode.IsSpace` minus U+1680 (the
      regenerated table); `ttl_sub_trig_driver_partial` extends it to the driver's EXACT configuration
      (`unicode.IsSpace` with U+1680) for every input that does not contain U+1680 (buffer-content
      invariant, Proofs/TtlDocSub.lean) — the remaining inputs are finding C07-graph-ogham
      (`C07.finding_graph_ogham`);
    * `gen_tables_eq` — the regenerated Turtle and TriG tables are the same `Tables` value, so the
      two packages are run with the same token producers and character classes;
    * `ttl_sub_trig_grammatical_partial` — for every well-formed Turtle document (any nesting, every
      lexical and layout choice of the printer of `Spec/TurtleAbstract.lean`, default base present
      or absent; minus the three findings of C08) the Turtle run and the TriG run on the SAME text
      end cleanly with the SAME statements, all in the default graph.  I.e. `ttl_sub_trig`
      restricted to the image of the grammar-directed printer.  What is missing for the full
      statement: inputs outside that image which the Turtle run nevertheless accepts (leniencies
      such as `@prefixex: <x> .` or non-grammar white space), and the three finding classes.

  `nt_sub_ttl_partial` — N-Triples ⊂ Turtle AND TriG at DOCUMENT level, for ALL inputs (Proofs/TtlDocNT.lean):
  whatever the N-Triples decoder model (`NQ.run Gen.ntriples … quads := false`) accepts with triples `qs`
  and a clean end, the scan-function machine of either package (`C05.realCfg trig`, the driver's exact
  configuration incl. `unicode.IsSpace`; no base, no prefixes) accepts with the same triples, the same
  blank-node labels, all in the default graph.  A simulation: per statement `S P O .` eight iterations of
  the loop in `Next` (the first two differ between the packages: `Triples_Subject_*` vs `labelOrSubject` /
  `E1`), comments / white space / EOL handling of `toEOL`, `skipToStatement`, `captureTerm`, `expectDot`
  mapped to `scan`'s skipping; token level from `Proofs/C07Tok.lean` (IRIREF, strings) and new lemmas for
  language tags and blank-node labels.  Relative IRIs are no issue: N-Triples refuses them (`urlOk`), the
  Turtle model without a base keeps every reference verbatim.  U+1680 does not bite (no keyword is
  involved).  The ONE exclusion (`_partial`): no blank-node label of `qs` contains ':' — finding
  C07-bnode-label-colon (`finding_bnode_label_colon`, by `decide`: `_:c:d` is a label for N-Triples,
  the label `c` followed by an unexpected `:` for Turtle).  Hence the unconditional `def nt_sub_ttl` is
  false as it stands.  Also PROVED here: `nt_encoder_sub_ttl_partial` — for every dataset (well-formed triples, labels
  that are Turtle labels) and every encoder option, the N-Triples text the repository's encoder
  writes (`NQ.encodeDoc`, the model proved to round-trip in C01) is read by the Turtle AND the
  TriG model as exactly the triples the N-Triples model reads from it.  I.e. `nt_sub_ttl` restricted
  to the encoder's own output (one lexical form per term); the text is shown to be `TA.print` of a
  document of plain triples (`Proofs/C07NT.lean`), then `C08.decode_print_partial` applies.  Other
  grammatical N-Triples documents (other escapes, white space, comments) are covered by the Go-side
  oracle only (go/cmd/c05ttl, go/cmd/c08: all four decoders on generated documents and the W3C
  files); the token-level inclusions are in `Props/C07Tokens.lean`.
-/
import RdfModel.Props.C08Doc
import RdfModel.Props.C07Ttl
import RdfModel.Props.C07Tables
import RdfModel.Proofs.C07NT
import RdfModel.Proofs.TtlDocNT
import RdfModel.Proofs.TtlDocSub
import RdfModel.Props.C01Tables
namespace RdfModel.C07
open RdfModel RdfModel.TA RdfModel.TtlDoc RdfModel.C08

/-- The regenerated tables of the two packages coincide (T1, `tables_agree`). -/
theorem gen_tables_eq : Gen.turtle = Gen.trig := by
  obtain ⟨⟨h1, _, _⟩, ⟨h2, _, _⟩, ⟨h3, h4, _, _⟩, _⟩ := tables_agree
  simp only [Gen.turtle, Gen.trig, h1, h2, h3, h4]

/-- a document without graph blocks that is well-formed Turtle is well-formed TriG -/
theorem docWf_trig (T : Ttl.Tables) (doc : Doc) (h : docWf T false doc = true) : docWf T true doc = true := by
  simp only [docWf, List.all_eq_true] at h ⊢
  intro b hb
  have := h b hb
  cases b with
  | dir d => simpa [blockWf] using this
  | triples t => simpa [blockWf] using this
  | graph kw g body => simp [blockWf] at this

/-- Every grammatical Turtle document decodes with the TriG decoder to the same triples, all in the
    default graph (model level, both runs on the same printed text). -/
theorem ttl_sub_trig_grammatical_partial (resolve : Option (List Nat) → List Nat → Option (List Nat))
    (base : Option (List Nat)) (pf : List (List Nat × List Nat)) (doc : Doc) (ch : Choices) (qs : List QuadB)
    (hwf : docWf Gen.turtle false doc = true) (hnb : docNoBoolPfx doc = true) (hch : choicesOK ch = true)
    (hd : denote resolve base pf doc = some qs) :
    ∃ ts,
      run (C05.realCfg false resolve (inRanges Gen.unicodeSpace)) .eof base pf (print Gen.turtle doc ch) = (ts, .clean) ∧
      run (C05.realCfg true resolve (inRanges Gen.unicodeSpace)) .eof base pf (print Gen.turtle doc ch) = (ts, .clean) ∧
      sameTriples ts ts := by
  have h1 := decode_print_real false resolve base pf doc ch qs hwf hnb hch hd
  have h2 := decode_print_real true resolve base pf doc ch qs
    (by simp only [if_true]; rw [← gen_tables_eq]; exact docWf_trig _ _ hwf) hnb hch hd
  simp only [Bool.false_eq_true, if_false] at h1
  simp only [if_true] at h2
  rw [← gen_tables_eq] at h2
  refine ⟨_, h1, h2, rfl, ?_⟩
  intro q hq
  have := C06.ttl_default_graph resolve (inRanges Gen.unicodeSpace) .eof base pf (print Gen.turtle doc ch) q
  rw [h1] at this
  exact this hq

/-! ### The simulation for the real producers -/

/-- Go's `unicode.IsSpace` (regenerated) without U+1680 contains no name character, `:` or `.`. -/
theorem spaceOK_unicode_minus_ogham :
    SpaceOK Gen.turtle (fun c => inRanges Gen.unicodeSpace c && c != 0x1680) := by
  intro c hc
  simp only [Bool.and_eq_true, bne_iff_ne, ne_eq] at hc
  obtain ⟨hsp, hne⟩ := hc
  have hns := space_not_solid Gen.turtle Gen.unicodeSpace (by decide)
  have hsolid : solid Gen.turtle c = false := by
    cases h : solid Gen.turtle c with
    | false => rfl
    | true => have := hns c h; rw [hsp] at this; cases this
  simp only [solid, Bool.or_eq_false_iff, Bool.and_eq_false_iff, bne_eq_false_iff_eq, Bool.not_eq_false'] at hsolid
  obtain ⟨h1, h2⟩ := hsolid
  refine ⟨?_, ?_, ?_⟩
  · rintro rfl; rcases h2 with h2 | h2 <;> revert h2 <;> decide
  · rintro rfl; rcases h2 with h2 | h2 <;> revert h2 <;> decide
  · rcases h1 with h1 | h1
    · exact h1
    · exact absurd h1 hne

/-- THE SIMULATION for the real producers and tables of the two packages: for every input, base,
    prefix table, resolver and stream ending, what the Turtle decoder model accepts the TriG decoder
    model accepts with the same statements, all in the default graph. `_partial`: the white-space
    predicate must not contain a PN_CHARS rune (finding C07-graph-ogham: U+1680 in `unicode.IsSpace`). -/
theorem ttl_sub_trig_real_partial (resolve : Option (List Nat) → List Nat → Option (List Nat)) (isSpace : Nat → Bool)
    (hsp : SpaceOK Gen.turtle isSpace) (e : End) (base : Option (List Nat)) (pf : List (List Nat × List Nat))
    (inp : List Nat) (ts : List Stmt)
    (h : run (C05.realCfg false resolve isSpace) e base pf inp = (ts, .clean)) :
    run (C05.realCfg true resolve isSpace) e base pf inp = (ts, .clean) ∧ sameTriples ts ts := by
  obtain ⟨hP, hC, hL⟩ := C05.real_producers_ok Gen.turtle C05.gen_tables_nul.1
  have e1 : C05.realCfg true resolve isSpace = { C05.realCfg false resolve isSpace with trig := true } := by
    simp [C05.realCfg, ← gen_tables_eq]
  obtain ⟨qs, h1, h2⟩ := ttl_sub_trig_sim_partial (C05.realCfg false resolve isSpace) e hP hC hL
    (kwSafe_real false resolve isSpace hsp) base pf inp ts h
  obtain ⟨rfl, h3⟩ := h2
  rw [e1]
  exact ⟨h1, rfl, h3⟩

/-- … in particular for `unicode.IsSpace` minus U+1680. -/
theorem ttl_sub_trig_unicode_partial (resolve : Option (List Nat) → List Nat → Option (List Nat)) (e : End)
    (base : Option (List Nat)) (pf : List (List Nat × List Nat)) (inp : List Nat) (ts : List Stmt)
    (h : run (C05.realCfg false resolve (fun c => inRanges Gen.unicodeSpace c && c != 0x1680)) e base pf inp = (ts, .clean)) :
    run (C05.realCfg true resolve (fun c => inRanges Gen.unicodeSpace c && c != 0x1680)) e base pf inp = (ts, .clean) ∧
      sameTriples ts ts :=
  ttl_sub_trig_real_partial resolve _ spaceOK_unicode_minus_ogham e base pf inp ts h

/-- … and for the driver's EXACT white-space predicate (`unicode.IsSpace`, U+1680 included) on every input
    that does not contain U+1680: the rune buffer only ever holds runes of the input, pushed-back `.`s
    and NULs, and the white-space predicate is only asked about buffer runes (`run_space_congr`,
    Proofs/TtlDocSub.lean), so both runs coincide with the runs under `unicode.IsSpace` minus U+1680.
    Together with `finding_graph_ogham` (an input WITH that rune on which the inclusion fails) this
    delimits the finding exactly. -/
theorem ttl_sub_trig_driver_partial (resolve : Option (List Nat) → List Nat → Option (List Nat))
    (base : Option (List Nat)) (pf : List (List Nat × List Nat)) (inp : List Nat) (ts : List Stmt)
    (hno : 0x1680 ∉ inp)
    (h : run (C05.realCfg false resolve (inRanges Gen.unicodeSpace)) .eof base pf inp = (ts, .clean)) :
    run (C05.realCfg true resolve (inRanges Gen.unicodeSpace)) .eof base pf inp = (ts, .clean) ∧ sameTriples ts ts := by
  have key : ∀ b : Bool,
      run (C05.realCfg b resolve (fun c => inRanges Gen.unicodeSpace c && c != 0x1680)) .eof base pf inp =
      run (C05.realCfg b resolve (inRanges Gen.unicodeSpace)) .eof base pf inp := by
    intro b
    refine run_space_congr (C := C05.realCfg b resolve (inRanges Gen.unicodeSpace)) (real_subP _)
      (fun c => inRanges Gen.unicodeSpace c && c != 0x1680) ?_ ?_ base pf inp ?_
    · show inRanges Gen.unicodeSpace 0x2e = (inRanges Gen.unicodeSpace 0x2e && (0x2e : Nat) != 0x1680); decide
    · show inRanges Gen.unicodeSpace 0 = (inRanges Gen.unicodeSpace 0 && (0 : Nat) != 0x1680); decide
    · intro y hy
      show inRanges Gen.unicodeSpace y = (inRanges Gen.unicodeSpace y && y != 0x1680)
      have : y ≠ 0x1680 := fun hc => hno (hc ▸ hy)
      simp [this]
  rw [← key false] at h
  have := ttl_sub_trig_unicode_partial resolve .eof base pf inp ts h
  rw [key true] at this
  exact this

/-- non-vacuity: a TriG-looking Turtle document (subject `graph:x`) accepted by both runs -/
example :
    run (C05.realCfg false (fun _ r => some r) (fun c => inRanges Gen.unicodeSpace c && c != 0x1680)) .eof none []
      (asc "@prefix graph: <a:> . graph:x a graph:y .") =
      ([⟨some (.iri (asc "a:x")), some (.iri TtlDoc.rdfType), .iri (asc "a:y"), none⟩], .clean) := by
  decide

/-! ### N-Triples ⊂ Turtle / TriG, all documents -/

/-- every range of the set consists of Unicode scalar values -/
def scalarChk (rs : RangeSet) : Bool :=
  rs.all (fun e => decide (e.2 < 0xD800) || (decide (0xE000 ≤ e.1) && decide (e.2 ≤ 0x10FFFF)))

theorem scalar_of_chk {rs : RangeSet} (h : scalarChk rs = true) (c : Nat) (hc : inRanges rs c = true) : IsScalar c := by
  rw [inRanges_iff] at hc
  obtain ⟨e, he, h1, h2⟩ := hc
  have := List.all_eq_true.1 h e he
  simp only [Bool.or_eq_true, Bool.and_eq_true, decide_eq_true_eq] at this
  rcases this with h3 | ⟨h3, h4⟩
  · exact Or.inl (by omega)
  · exact Or.inr ⟨by omega, by omega⟩

/-- The hypotheses of the document-level simulation hold for the regenerated tables of the three packages
    and the configuration the driver runs. -/
theorem ntCfg_real (trig : Bool) (resolve : Option (List Nat) → List Nat → Option (List Nat)) :
    NTCfg Gen.ntriples (if trig then Gen.trig else Gen.turtle) (C05.realCfg trig resolve (inRanges Gen.unicodeSpace)) := by
  obtain ⟨_, ⟨hh1, _, hh3⟩, ⟨hu, hp, hu', hp'⟩, hagU, hagP, ⟨_, _, _, hcol⟩⟩ := tables_agree
  have hws : ∀ c, isWs (C05.realCfg trig resolve (inRanges Gen.unicodeSpace)) c = inRanges Gen.unicodeSpace c := by
    intro c
    show (decide (c = 0x20) || decide (c = 0x09) || decide (c = 0x0a) || decide (c = 0x0d) || inRanges Gen.unicodeSpace c) = _
    by_cases h1 : c = 0x20
    · subst h1; decide
    · by_cases h2 : c = 0x09
      · subst h2; decide
      · by_cases h3 : c = 0x0a
        · subst h3; decide
        · by_cases h4 : c = 0x0d
          · subst h4; decide
          · simp [h1, h2, h3, h4]
  have hbase : NTCfg Gen.ntriples Gen.turtle (C05.realCfg false resolve (inRanges Gen.unicodeSpace)) :=
    { prod := rfl
      hex := hh3.symm
      pn := fun c hc => by
        show inRanges Gen.ntriples_pnChars c = inRanges Gen.turtle_pnChars c
        rw [← hp']; exact hagP c hc
      pnU := fun c hc => by
        show inRanges Gen.ntriples_pnCharsU c = inRanges Gen.turtle_pnCharsU c
        rw [← hu']; exact hagU c hc
      colonT := hcol
      dotU := by decide
      scalar := fun c hc => by
        rcases hc with hc | hc
        · exact scalar_of_chk (rs := Gen.ntriples_pnChars) (by decide) c hc
        · exact scalar_of_chk (rs := Gen.ntriples_pnCharsU) (by decide) c hc
      ws := hws
      sp_lt := by decide
      sp_us := by decide
      sp_dq := by decide
      sp_dot := by decide }
  cases trig with
  | false => exact hbase
  | true =>
    have e1 : C05.realCfg true resolve (inRanges Gen.unicodeSpace) =
        { C05.realCfg false resolve (inRanges Gen.unicodeSpace) with trig := true } := by
      simp [C05.realCfg, ← gen_tables_eq]
    simp only [if_true]
    rw [← gen_tables_eq, e1]
    exact { hbase with ws := hbase.ws }

/-- the exclusion of `nt_sub_ttl_partial`, decidable: no blank-node label contains ':' -/
def noColonLabels (qs : List (Quad (List Nat))) : Bool :=
  qs.all (fun q => (match q.s with | .bnode l => !l.contains 0x3a | _ => true) &&
                   (match q.o with | .bnode l => !l.contains 0x3a | _ => true))

/-- statement of the Turtle model for a triple of the N-Triples model (labels as labelled nodes) -/
def stmtOfNT (q : Quad (List Nat)) : Stmt := ⟨some (ntTerm q.s), some (ntTerm q.p), ntTerm q.o, none⟩

/-- N-TRIPLES ⊂ TURTLE and ⊂ TRIG, DOCUMENT LEVEL, ALL INPUTS: what the N-Triples decoder model accepts with
    triples `qs` (clean end) the Turtle (`trig := false`) and the TriG (`trig := true`) model — real
    producers, regenerated tables, `unicode.IsSpace`, no base, no prefixes, any resolver — accept with
    the same triples and blank-node labels, in the default graph. `_partial`: labels containing ':'
    are excluded (finding C07-bnode-label-colon). -/
theorem nt_sub_ttl_partial (trig : Bool) (urlOk : List Nat → Bool)
    (resolve : Option (List Nat) → List Nat → Option (List Nat)) (inp : List Nat) (qs : List (Quad (List Nat)))
    (hrun : NQ.run Gen.ntriples urlOk .eof false inp = (qs, .clean)) (hok : noColonLabels qs = true) :
    run (C05.realCfg trig resolve (inRanges Gen.unicodeSpace)) .eof none [] inp = (qs.map stmtOfNT, .clean) := by
  have hT : inRanges (if trig then Gen.trig else Gen.turtle).pnCharsBase 0 = false := by
    cases trig
    · exact C05.gen_tables_nul.1
    · exact C05.gen_tables_nul.2
  obtain ⟨_, hC, _⟩ := C05.real_producers_ok _ hT
  refine nt_doc_sim (ntCfg_real trig resolve) hC urlOk inp qs hrun ?_
  intro q hq
  have := List.all_eq_true.1 hok q hq
  simp only [Bool.and_eq_true] at this
  constructor
  · cases hs : q.s with
    | bnode l => rw [hs] at this; simpa [labelOK] using this.1
    | iri v => trivial
    | lit a b c => trivial
  · cases ho : q.o with
    | bnode l => rw [ho] at this; simpa [labelOK] using this.2
    | iri v => trivial
    | lit a b c => trivial

/-- non-vacuity: comments, CR / LF, a language tag, a datatype, escapes, labels with `.` inside -/
example :
    let doc := asc "# c\r<a:s> <a:p> \"x\\n\"@en-GB . # d\n_:b.1 <a:p> \"1\"^^<a:dt>.\n<a:s> <a:p> _:b.1 ."
    (NQ.run Gen.ntriples (fun _ => true) .eof false doc).2 = .clean ∧
    (NQ.run Gen.ntriples (fun _ => true) .eof false doc).1.length = 3 ∧
    noColonLabels (NQ.run Gen.ntriples (fun _ => true) .eof false doc).1 = true := by
  decide

/-- FINDING C07-bnode-label-colon (known): `_:c:d` is one label for the N-Triples decoder; the Turtle decoder
    reads the label `c`, yields the triple with it, and fails on the `:` where it expects `.`. The exclusion
    of `nt_sub_ttl_partial` is needed. -/
theorem finding_bnode_label_colon :
    NQ.run Gen.ntriples (fun _ => true) .eof false (asc "<a:a> <a:b> _:c:d .") =
      ([⟨.iri (asc "a:a"), .iri (asc "a:b"), .bnode (asc "c:d"), none⟩], .clean) ∧
    run (C05.realCfg false (fun _ r => some r) (inRanges Gen.unicodeSpace)) .eof none [] (asc "<a:a> <a:b> _:c:d .") =
      ([⟨some (.iri (asc "a:a")), some (.iri (asc "a:b")), .bnode (.lbl (asc "c")), none⟩], .error .syntax) := by
  decide

/-- Hence the unconditional statement `nt_sub_ttl` (Props/C07Ttl.lean) is false: the witness is grammatical
    N-Triples (`Spec.NQG.accepts`) and accepted by the N-Triples decoder model. -/
theorem nt_sub_ttl_refuted : ¬ nt_sub_ttl := by
  intro h
  obtain ⟨h1, h2⟩ := finding_bnode_label_colon
  have := h (fun _ => true) (fun _ r => some r) (inRanges Gen.unicodeSpace) (asc "<a:a> <a:b> _:c:d .") _
    (fun _ => rfl) (by decide) h1
  rw [h2] at this
  cases this

theorem toStmt_qB {β : Type} (label : β → List Nat) (q : Quad β) :
    toStmt (C07NT.qB label q) = stmtOfNT (Quad.map label (C01.Quad.dropGraph q)) := by
  have ht : ∀ t : Term β, (t.map (fun b => B.lbl (label b))).map toBN = ntTerm (t.map label) := by
    intro t; cases t <;> rfl
  simp [toStmt, C07NT.qB, stmtOfNT, Quad.map, C01.Quad.dropGraph, ht]

/-- The N-Triples encoder's output is read by the Turtle / TriG model as the same triples. -/
theorem nt_encoder_sub_ttl_partial {β : Type} (Tn : NQ.Tables) (hTn : C01.TablesOK Tn) (hGn : C01.TablesGrammar Tn)
    (T : Ttl.Tables) (hT : C02.TablesOK T) (hT2 : TablesOK2 T) (C : Cfg) (hC : CfgOK T C) (ascii : Bool)
    (label : β → List Nat) (hlab : ∀ b, labelWf T (label b) = true) (urlOk : List Nat → Bool)
    (qs : List (Quad β)) (hwf : ∀ q ∈ qs, C01.WFQuad urlOk q) :
    run C .eof none [] (NQ.encodeDoc Tn ascii label false qs) =
      (qs.map (fun q => stmtOfNT (Quad.map label (C01.Quad.dropGraph q))), .clean) := by
  obtain ⟨w1, w2, w3⟩ := C07NT.doc_wf_denote T C.resolve label urlOk hlab qs hwf { base := none, ns := [], next := 0 } rfl
  have hwf' : docWf T C.trig (C07NT.docOf label qs) = true := by
    cases C.trig
    · exact w1
    · exact docWf_trig T _ w1
  have := decode_print_partial T hT hT2 C hC none [] (C07NT.docOf label qs) (C07NT.choicesOf Tn ascii qs)
    (qs.map (C07NT.qB label)) hwf' w2 (C07NT.choicesOK_of Tn ascii qs) (by simp [denote, w3])
  rw [C07NT.print_eq T Tn hTn hGn ascii label urlOk qs hwf] at this
  rw [this]
  simp [toStmt_qB]

/-- … together with C01: the N-Triples model and the Turtle / TriG model agree on that text. -/
theorem nt_encoder_agree_partial {β : Type} (Tn : NQ.Tables) (hTn : C01.TablesOK Tn) (hGn : C01.TablesGrammar Tn)
    (T : Ttl.Tables) (hT : C02.TablesOK T) (hT2 : TablesOK2 T) (C : Cfg) (hC : CfgOK T C) (ascii : Bool)
    (label : β → List Nat) (hl : C01.LabelsOK Tn label) (hlab : ∀ b, labelWf T (label b) = true) (urlOk : List Nat → Bool)
    (qs : List (Quad β)) (hwf : ∀ q ∈ qs, C01.WFQuad urlOk q) :
    ∃ ts, NQ.run Tn urlOk .eof false (NQ.encodeDoc Tn ascii label false qs) = (ts, .clean) ∧
      run C .eof none [] (NQ.encodeDoc Tn ascii label false qs) = (ts.map stmtOfNT, .clean) := by
  refine ⟨_, C01.ntriples_roundtrip Tn hTn urlOk ascii label hl qs hwf, ?_⟩
  rw [nt_encoder_sub_ttl_partial Tn hTn hGn T hT hT2 C hC ascii label hlab urlOk qs hwf]
  simp

/-- … for the tables regenerated from /repo: the N-Triples encoder's output through the Turtle and the
    TriG configuration the driver runs. -/
theorem nt_encoder_sub_ttl_real {β : Type} (trig : Bool) (resolve : Option (List Nat) → List Nat → Option (List Nat))
    (ascii : Bool) (label : β → List Nat) (hlab : ∀ b, labelWf Gen.turtle (label b) = true) (urlOk : List Nat → Bool)
    (qs : List (Quad β)) (hwf : ∀ q ∈ qs, C01.WFQuad urlOk q) :
    run (C05.realCfg trig resolve (inRanges Gen.unicodeSpace)) .eof none [] (NQ.encodeDoc Gen.ntriples ascii label false qs) =
      (qs.map (fun q => stmtOfNT (Quad.map label (C01.Quad.dropGraph q))), .clean) := by
  have hT : C02.TablesOK (if trig then Gen.trig else Gen.turtle) := by cases trig; exact C02.gen_turtle_ok; exact C02.gen_trig_ok
  have hT2 : TablesOK2 (if trig then Gen.trig else Gen.turtle) := by cases trig; exact gen_turtle_ok2; exact gen_trig_ok2
  exact nt_encoder_sub_ttl_partial Gen.ntriples C01.gen_ntriples_ok C01.gen_ntriples_grammar _ hT hT2 _ (cfgOK_real trig resolve)
    ascii label (by cases trig; exact hlab; rw [← gen_tables_eq]; exact hlab) urlOk qs hwf

/-- non-vacuity: the C01 witness dataset (IRIs, labelled blank nodes, literals with escapes, a
    language tag, a datatype) satisfies the hypotheses with its labeller -/
example : (∀ q ∈ C01.Witness.quads, C01.WFQuad (fun _ => true) q) ∧ (∀ b, labelWf Gen.turtle (C01.Witness.label b) = true) :=
  ⟨C01.Witness.wf, by decide⟩

-- … and the conclusion on it, computed: four triples, clean end, with the Turtle configuration
set_option maxRecDepth 8000 in
example :
    let r := run (C05.realCfg false (fun _ r => some r) (inRanges Gen.unicodeSpace)) .eof none []
      (NQ.encodeDoc Gen.ntriples false C01.Witness.label false C01.Witness.quads)
    r.1.length = 4 ∧ r.2 = .clean := by decide

end RdfModel.C07
