package main

// RDF/XML: an independent scanner of XML markup (token and attribute spans) and the range checks
// described in the header of whole.go. The token type is shared with whole_html.go.

import (
	"fmt"
	"strconv"
	"strings"
	"sync"
	"unicode/utf8"

	"github.com/dpb587/rdfkit-go/rdf"
)

type mAttr struct {
	ks, ke int    // name span
	vs, ve int    // value span as written (quotes included); vs == ve: no value
	key    string // name as written (HTML: lower-cased)
	raw    string // value text between the quotes / unquoted value, undecoded
	quoted bool
}

type mTok struct {
	kind   byte // 'S' start tag, 'E' end tag, 'T' text, 'D' CDATA, 'C' comment, 'P' processing instruction, '!' directive, 'X' unterminated
	s, e   int
	ns, ne int // tag name span
	name   string
	attrs  []mAttr
	selfCl bool
	text   string // HTML: decoded text of a text token
}

func xmlSpace(b byte) bool { return b == ' ' || b == '\t' || b == '\n' || b == '\r' }

// scanAttrs: attributes of the start tag doc[lt:gt+1] (doc[gt] == '>'), from position i (after the
// name), with the rules of the HTML tokenizer of golang.org/x/net/html (readTagAttrKey/Val), which
// coincide with XML for well-formed tags.
func scanAttrs(doc []byte, i, gt int, htmlSpace bool) []mAttr {
	ws := func(b byte) bool {
		return b == ' ' || b == '\n' || b == '\r' || b == '\t' || (htmlSpace && b == '\f')
	}
	skip := func() {
		for i < gt && ws(doc[i]) {
			i++
		}
	}
	var out []mAttr
	skip()
	for i < gt {
		// key
		a := mAttr{ks: i}
		for i < gt {
			c := doc[i]
			if c == '=' && i == a.ks {
				i++
				continue
			}
			if c == '=' || ws(c) || c == '/' || c == '>' {
				break
			}
			i++
		}
		a.ke = i
		a.vs, a.ve = i, i
		// value
		skip()
		if i < gt && doc[i] == '/' {
			i++
		} else if i < gt && doc[i] == '=' {
			i++
			skip()
			if i < gt {
				switch q := doc[i]; q {
				case '"', '\'':
					a.vs = i
					k := i + 1
					for k < gt && doc[k] != q {
						k++
					}
					// an unterminated quote cannot happen inside a tag delimited by the tokenizer
					if k < gt {
						a.ve = k + 1
						a.raw = string(doc[i+1 : k])
					} else {
						a.ve = gt
						a.raw = string(doc[i+1 : gt])
					}
					a.quoted = true
					i = a.ve
				default:
					a.vs = i
					for i < gt && !ws(doc[i]) {
						i++
					}
					a.ve = i
					a.raw = string(doc[a.vs:a.ve])
				}
			}
		}
		if a.ke > a.ks {
			a.key = string(doc[a.ks:a.ke])
			out = append(out, a)
		}
		if i == a.ks {
			i++ // a stray '>' (or any rune no rule consumed) inside the tag: always make progress
		}
		skip()
	}
	return out
}

// xmlScan: tokens of an XML document (lenient: never fails; an unterminated construct becomes 'X').
func xmlScan(doc []byte) []mTok {
	var toks []mTok
	n := len(doc)
	i := 0
	find := func(from int, pat string) int {
		k := strings.Index(string(doc[from:]), pat)
		if k < 0 {
			return -1
		}
		return from + k
	}
	for i < n {
		if doc[i] != '<' {
			k := i
			for k < n && doc[k] != '<' {
				k++
			}
			toks = append(toks, mTok{kind: 'T', s: i, e: k})
			i = k
			continue
		}
		rest := string(doc[i:min(n, i+9)])
		switch {
		case strings.HasPrefix(rest, "<!--"):
			k := find(i+4, "-->")
			if k < 0 {
				toks = append(toks, mTok{kind: 'X', s: i, e: n})
				return toks
			}
			toks = append(toks, mTok{kind: 'C', s: i, e: k + 3})
			i = k + 3
		case strings.HasPrefix(rest, "<![CDATA["):
			k := find(i+9, "]]>")
			if k < 0 {
				toks = append(toks, mTok{kind: 'X', s: i, e: n})
				return toks
			}
			toks = append(toks, mTok{kind: 'D', s: i, e: k + 3})
			i = k + 3
		case strings.HasPrefix(rest, "<?"):
			k := find(i+2, "?>")
			if k < 0 {
				toks = append(toks, mTok{kind: 'X', s: i, e: n})
				return toks
			}
			toks = append(toks, mTok{kind: 'P', s: i, e: k + 2})
			i = k + 2
		case strings.HasPrefix(rest, "<!"):
			// Directive, delimited exactly as encoding/xml (Decoder.rawToken) does it — the decoder uses
			// encoding/xml with capture off and inspectxml, a wrapper around the same encoding/xml
			// tokenizer, with capture on:
			//  * the byte after `<!` is taken verbatim: it neither opens a quote nor nests nor ends the
			//    directive (`<!'- x -->` ends at its first `>`; `<!>` does not end there);
			//  * then up to the first `>` outside quotes at nesting depth 0; `'`/`"` open a quote closed by
			//    the same byte; outside quotes `<` nests (unless it starts `<!--`, a comment skipped up to
			//    the next `-->`) and `>` un-nests; `[` and `]` mean nothing.
			k := i + 3
			depth := 0
			var q byte
			closed := false
			for k < n {
				c := doc[k]
				if q == 0 && c == '>' && depth == 0 {
					closed = true
					break
				}
				k++
				switch {
				case c == q:
					q = 0
				case q != 0:
				case c == '"' || c == '\'':
					q = c
				case c == '>':
					depth--
				case c == '<':
					if strings.HasPrefix(string(doc[k:min(n, k+3)]), "!--") {
						e := find(k+3, "-->")
						if e < 0 {
							k = n
						} else {
							k = e + 3
						}
					} else {
						depth++
					}
				}
			}
			if !closed {
				toks = append(toks, mTok{kind: 'X', s: i, e: n})
				return toks
			}
			toks = append(toks, mTok{kind: '!', s: i, e: k + 1})
			i = k + 1
		default:
			end := strings.HasPrefix(rest, "</")
			k := i + 1
			if end {
				k++
			}
			ns := k
			for k < n && !xmlSpace(doc[k]) && doc[k] != '>' && doc[k] != '/' {
				k++
			}
			ne := k
			var q byte
			for ; k < n; k++ {
				c := doc[k]
				if q != 0 {
					if c == q {
						q = 0
					}
					continue
				}
				if c == '"' || c == '\'' {
					q = c
				} else if c == '>' {
					break
				}
			}
			if k >= n {
				toks = append(toks, mTok{kind: 'X', s: i, e: n})
				return toks
			}
			t := mTok{kind: 'S', s: i, e: k + 1, ns: ns, ne: ne, name: string(doc[ns:ne])}
			if end {
				t.kind = 'E'
			} else {
				t.attrs = scanAttrs(doc, ne, k, false)
				t.selfCl = doc[k-1] == '/'
			}
			toks = append(toks, t)
			i = k + 1
		}
	}
	return toks
}

// ---------------------------------------------------------------- cache (one scan per document)

type scanKey struct {
	p    *byte
	n    int
	html bool
}

var (
	scanMu    sync.Mutex
	scanCache = map[scanKey][]mTok{}
)

func scanDoc(doc []byte, asHTML bool) []mTok {
	if len(doc) == 0 {
		return nil
	}
	k := scanKey{&doc[0], len(doc), asHTML}
	scanMu.Lock()
	t, ok := scanCache[k]
	scanMu.Unlock()
	if ok {
		return t
	}
	if asHTML {
		t = htmlScan(doc)
	} else {
		t = xmlScan(doc)
	}
	scanMu.Lock()
	if len(scanCache) > 256 {
		scanCache = map[scanKey][]mTok{}
	}
	scanCache[k] = t
	scanMu.Unlock()
	return t
}

// tokAt: index of the token containing byte position p (p == end of document: last token), -1 if none.
func tokAt(toks []mTok, p int) int {
	lo, hi := 0, len(toks)
	for lo < hi {
		m := (lo + hi) / 2
		if toks[m].e <= p {
			lo = m + 1
		} else {
			hi = m
		}
	}
	if lo < len(toks) && toks[lo].s <= p {
		return lo
	}
	return -1
}

// tokStartingAt / tokEndingAt: index of the token with s == p / e == p.
func tokStartingAt(toks []mTok, p int) int {
	if k := tokAt(toks, p); k >= 0 && toks[k].s == p {
		return k
	}
	return -1
}

func tokEndingAt(toks []mTok, p int) int {
	if p == 0 {
		return -1
	}
	if k := tokAt(toks, p-1); k >= 0 && toks[k].e == p {
		return k
	}
	return -1
}

// located: what a range is within the markup.
type located struct {
	kind    string // "tagname", "attrname", "attrvalue", "content", "starttag", "element", ""
	tag     *mTok  // the start tag concerned
	attr    *mAttr
	endTok  int // content / element: index of the end tag token
	fromTok int // content: index of the first token of the content; element/starttag: index of the start tag
	why     string
}

// locate: classify [fb,ub) against the scanned tokens. lenient (HTML): an element may end at the end
// of any token and a content at the start of any token or the end of the document (implied end tags,
// unclosed elements: inspecthtml derives those ends from the last child / next sibling).
func locate(toks []mTok, fb, ub int, lenient, wantContent bool) located {
	k := tokAt(toks, fb)
	if fb == ub {
		return located{why: "empty range"}
	}
	if k >= 0 && toks[k].kind == 'S' && ub <= toks[k].e && !(fb == toks[k].s) {
		t := &toks[k]
		if fb == t.ns && ub == t.ne {
			return located{kind: "tagname", tag: t, fromTok: k}
		}
		for ai := range t.attrs {
			a := &t.attrs[ai]
			if fb == a.ks && ub == a.ke {
				return located{kind: "attrname", tag: t, attr: a, fromTok: k}
			}
			if a.ve > a.vs && fb == a.vs && ub == a.ve {
				return located{kind: "attrvalue", tag: t, attr: a, fromTok: k}
			}
		}
		return located{tag: t, why: fmt.Sprintf("inside the start tag <%s …> but not exactly its name, an attribute name or an attribute value", t.name)}
	}
	if k >= 0 && toks[k].kind == 'S' && fb == toks[k].s {
		if p := tokEndingAt(toks, fb); wantContent && p >= 0 && toks[p].kind == 'S' {
			if c := locateContent(toks, fb, ub, lenient); c.kind != "" {
				return c
			}
		}
		if ub == toks[k].e {
			return located{kind: "starttag", tag: &toks[k], fromTok: k}
		}
		if e := tokEndingAt(toks, ub); e > k && (toks[e].kind == 'E' || lenient) {
			return located{kind: "element", tag: &toks[k], fromTok: k, endTok: e}
		}
		return located{tag: &toks[k], why: "starts at a start tag but ends neither with it nor at the end of an end tag"}
	}
	return locateContent(toks, fb, ub, lenient)
}

// locateContent: [fb,ub) as the content following a start tag.
func locateContent(toks []mTok, fb, ub int, lenient bool) located {
	if p := tokEndingAt(toks, fb); p >= 0 && toks[p].kind == 'S' {
		if e := tokStartingAt(toks, ub); e > p && (toks[e].kind == 'E' || lenient) {
			return located{kind: "content", tag: &toks[p], fromTok: p + 1, endTok: e}
		}
		if lenient && len(toks) > 0 && ub == toks[len(toks)-1].e {
			return located{kind: "content", tag: &toks[p], fromTok: p + 1, endTok: len(toks)}
		}
		return located{tag: &toks[p], why: "starts after a start tag but does not end at the start of an end tag"}
	}
	return located{why: "on no markup boundary (not a tag name, attribute name/value, element, start tag or element content)"}
}

// ---------------------------------------------------------------- XML text decoding (as encoding/xml)

var xmlEntities = map[string]string{"lt": "<", "gt": ">", "amp": "&", "apos": "'", "quot": "\""}

// xmlDecodeText: references resolved, CR LF and lone CR → LF (encoding/xml does that for character
// data and attribute values alike; it does not otherwise normalise attribute values).
func xmlDecodeText(s string, refs bool) (string, bool) {
	var sb strings.Builder
	for i := 0; i < len(s); {
		c := s[i]
		switch {
		case c == '\r':
			sb.WriteByte('\n')
			i++
			if i < len(s) && s[i] == '\n' {
				i++
			}
		case c == '&' && refs:
			k := strings.IndexByte(s[i:], ';')
			if k < 0 {
				return "", false
			}
			name := s[i+1 : i+k]
			i += k + 1
			if strings.HasPrefix(name, "#") {
				var v uint64
				var err error
				if strings.HasPrefix(name, "#x") {
					v, err = strconv.ParseUint(name[2:], 16, 32)
				} else {
					v, err = strconv.ParseUint(name[1:], 10, 32)
				}
				if err != nil {
					return "", false
				}
				sb.WriteRune(rune(v))
			} else if r, ok := xmlEntities[name]; ok {
				sb.WriteString(r)
			} else {
				return "", false
			}
		default:
			sb.WriteByte(c)
			i++
		}
	}
	return sb.String(), true
}

// xmlContentText: character data of the content tokens toks[from:to] (text, CDATA; comments and PIs
// skipped); ok=false when an element or anything undecodable is inside.
func xmlContentText(doc []byte, toks []mTok, from, to int) (string, bool) {
	var sb strings.Builder
	for _, t := range toks[from:to] {
		switch t.kind {
		case 'T':
			s, ok := xmlDecodeText(string(doc[t.s:t.e]), true)
			if !ok {
				return "", false
			}
			sb.WriteString(s)
		case 'D':
			s, _ := xmlDecodeText(string(doc[t.s+9:t.e-3]), false)
			sb.WriteString(s)
		case 'C', 'P', '!':
		default:
			return "", false
		}
	}
	return sb.String(), true
}

// ---------------------------------------------------------------- namespaces

// xmlNamespaces: prefix → every namespace name declared for it anywhere in the document ("" = default).
func xmlNamespaces(doc []byte, toks []mTok) map[string][]string {
	m := map[string][]string{}
	for _, t := range toks {
		if t.kind != 'S' {
			continue
		}
		for _, a := range t.attrs {
			if a.key == "xmlns" || strings.HasPrefix(a.key, "xmlns:") {
				v, ok := xmlDecodeText(a.raw, true)
				if !ok {
					continue
				}
				m[strings.TrimPrefix(strings.TrimPrefix(a.key, "xmlns"), ":")] = append(m[strings.TrimPrefix(strings.TrimPrefix(a.key, "xmlns"), ":")], v)
			}
		}
	}
	return m
}

// qnameExpansions: the IRIs a written name may expand to (encoding/xml: an undeclared prefix is kept
// as the "namespace"; unprefixed attributes have none; unprefixed elements take the default).
func qnameExpansions(nv nsView, qname string, isAttr bool) []string {
	ns := nv.decl
	prefix, local := "", qname
	if k := strings.IndexByte(qname, ':'); k > 0 && k < len(qname)-1 {
		prefix, local = qname[:k], qname[k+1:]
	}
	if prefix == "" && isAttr {
		return []string{local}
	}
	if prefix == "xml" {
		return []string{"http://www.w3.org/XML/1998/namespace" + local}
	}
	var out []string
	for _, n := range ns[prefix] {
		out = append(out, n+local)
	}
	if len(out) == 0 || prefix == "" || (nv.undeclaredAt != nil && nv.undeclaredAt(prefix)) {
		out = append(out, prefix+local)
	}
	return out
}

// nsView: the declarations of the whole document plus "is this prefix undeclared at the tag concerned".
type nsView struct {
	decl         map[string][]string
	undeclaredAt func(prefix string) bool
}

// prefixInScope: is `xmlns:prefix` declared by the start tag toks[at] or one of its open ancestors?
func prefixInScope(toks []mTok, at int, prefix string) bool {
	declares := func(t *mTok) bool {
		for _, a := range t.attrs {
			if a.key == "xmlns:"+prefix {
				return true
			}
		}
		return false
	}
	var open []bool
	for i := 0; i < len(toks) && i <= at; i++ {
		t := &toks[i]
		switch t.kind {
		case 'S':
			if i == at {
				if declares(t) {
					return true
				}
				for _, d := range open {
					if d {
						return true
					}
				}
				return false
			}
			if !t.selfCl {
				open = append(open, declares(t))
			}
		case 'E':
			if len(open) > 0 {
				open = open[:len(open)-1]
			}
		}
	}
	return true // not a start tag: no opinion, keep the document-wide declarations only
}

func containsStr(xs []string, x string) bool {
	for _, y := range xs {
		if y == x {
			return true
		}
	}
	return false
}

// ---------------------------------------------------------------- RDF/XML

func isRdfLiN(iri string) bool {
	if !strings.HasPrefix(iri, rdfNS+"_") {
		return false
	}
	_, err := strconv.ParseUint(iri[len(rdfNS)+1:], 10, 64)
	return err == nil
}

func rdfxmlSlice(sc sliceCtx) (sub, msg string) {
	p := predIRI(sc.res, sc.i)
	sub, msg = rdfxmlSlot(sc, sc.slot)
	if msg == "" || sc.slot != 2 {
		return
	}
	// reification: rdf:subject / rdf:predicate / rdf:object statements carry the range of the reified
	// statement's subject / predicate / object
	switch p {
	case rdfSubject:
		s2, m2 := rdfxmlSlot(sc, 0)
		if m2 == "" || s2 == "xml-subject-of-other-node" {
			return s2, m2
		}
	case rdfPredicate:
		if s2, m2 := rdfxmlSlot(sc, 1); m2 == "" {
			return s2, m2
		}
	}
	return
}

// rdfxmlSlot: check the slice as a range of slot `slot` (the term is sc.term in every case).
func rdfxmlSlot(sc sliceCtx, slot int) (sub, msg string) {
	toks := scanDoc(sc.doc, false)
	_, wantC := sc.term.(rdf.Literal)
	loc := locate(toks, int(sc.fb), int(sc.ub), false, wantC)
	if loc.kind == "" {
		if loc.tag != nil && int(sc.fb) == loc.tag.ns && sc.slice == loc.tag.name+"/" {
			return "xml-tagname-slash", "range of the tag name of a self-closing element includes the `/`"
		}
		if loc.tag != nil {
			for _, a := range loc.tag.attrs {
				if int(sc.ub) == a.ke && int(sc.fb) < a.ks && int(sc.fb) > loc.tag.ne {
					return "xml-attrname-overreach", fmt.Sprintf("range of attribute name %s starts inside what precedes it in the tag", a.key)
				}
			}
		}
		// (xmlScan delimits directives exactly as encoding/xml does, and everything before an unterminated
		// construct 'X' — where encoding/xml stops with a syntax error — is delimited as well: no escape
		// hatch for documents with directives)
		return "xml-boundary", "range is " + loc.why
	}
	ns0 := xmlNamespaces(sc.doc, toks)
	// encoding/xml keeps a prefix that is not declared in scope as the "namespace": such a name expands
	// to prefix+local even when the prefix is declared elsewhere in the document
	ns := nsView{ns0, func(prefix string) bool { return !prefixInScope(toks, loc.fromTok, prefix) }}
	iri, isIRI := termIRI(sc.term)
	lit, isLit := sc.term.(rdf.Literal)
	label, isLabelled := labelOf(sc.res, sc.term)
	anon := isAnon(sc.res, sc.term)

	nameIs := func(isAttr bool) (string, string) {
		if !isIRI {
			return "xml-name-term", fmt.Sprintf("%s range `%s` on a term that is not an IRI", loc.kind, sc.slice)
		}
		exp := qnameExpansions(ns, sc.slice, isAttr)
		if containsStr(exp, iri) {
			return "", ""
		}
		if !isAttr && containsStr(exp, rdfNS+"li") && isRdfLiN(iri) {
			return "", ""
		}
		return "xml-name-mismatch", fmt.Sprintf("name `%s` expands to %v, term is %s", sc.slice, exp, iri)
	}
	attrValueIs := func() (string, string) {
		a := loc.attr
		if !a.quoted {
			return "xml-attr-unquoted", "attribute value without quotes"
		}
		v, ok := xmlDecodeText(a.raw, true)
		if !ok {
			return "xml-attr-undecodable", "attribute value does not decode"
		}
		names := qnameExpansions(ns, a.key, true)
		is := func(local string) bool { return containsStr(names, rdfNS+local) }
		if p := predIRI(sc.res, sc.i); slot == 2 && isLit && (containsStr(names, p) || p == rdfObject) {
			// property attribute (whatever its name): the literal
			if lit.LexicalForm != v {
				return "content-mismatch", fmt.Sprintf("%s=%s, lexical form is %s", a.key, quoteClip(v), quoteClip(lit.LexicalForm))
			}
			return "", ""
		}
		switch {
		case is("about"), is("resource"), is("type"), is("datatype"):
			if !isIRI {
				return "xml-attr-term", fmt.Sprintf("value of %s on a term that is not an IRI (%v)", a.key, sc.term)
			}
			if is("datatype") {
				return "xml-attr-role", "range is the value of rdf:datatype, which is no statement term"
			}
			if !iriRefOK(iri, v) {
				return "content-mismatch", fmt.Sprintf("%s=%s does not resolve to %s", a.key, quoteClip(v), iri)
			}
		case is("ID"):
			if !isIRI || !strings.HasSuffix(iri, "#"+v) {
				return "content-mismatch", fmt.Sprintf("%s=%s, term is %v", a.key, quoteClip(v), sc.term)
			}
		case is("nodeID"):
			if !isLabelled || label != v {
				return "content-mismatch", fmt.Sprintf("%s=%s, term is %v (label %q, generated %v)", a.key, quoteClip(v), sc.term, label, anon)
			}
		default:
			// property attribute: only as an object, the literal
			if slot != 2 || !isLit {
				return "xml-attr-role", fmt.Sprintf("value of attribute %s as a %s range of %v", a.key, slotName[slot], sc.term)
			}
			if lit.LexicalForm != v {
				return "content-mismatch", fmt.Sprintf("%s=%s, lexical form is %s", a.key, quoteClip(v), quoteClip(lit.LexicalForm))
			}
			if p := predIRI(sc.res, sc.i); !containsStr(names, p) && p != rdfObject {
				return "xml-attr-predicate", fmt.Sprintf("object range is the value of attribute %s (%v) but the predicate is %s", a.key, names, p)
			}
		}
		return "", ""
	}

	switch slot {
	case 0:
		if loc.kind != "attrvalue" {
			return "xml-subject-kind", fmt.Sprintf("subject range is a %s, not an attribute value", loc.kind)
		}
		names := qnameExpansions(ns, loc.attr.key, true)
		if !(containsStr(names, rdfNS+"about") || containsStr(names, rdfNS+"ID") || containsStr(names, rdfNS+"nodeID") || containsStr(names, rdfNS+"resource")) {
			return "xml-attr-role", fmt.Sprintf("subject range is the value of attribute %s", loc.attr.key)
		}
		if anon {
			return "xml-subject-of-other-node", fmt.Sprintf("generated blank node subject carries the range of %s=%s", loc.attr.key, quoteClip(loc.attr.raw))
		}
		return attrValueIs()
	case 1:
		switch loc.kind {
		case "tagname":
			return nameIs(false)
		case "attrname":
			return nameIs(true)
		}
		return "xml-predicate-kind", fmt.Sprintf("predicate range is a %s, not a tag or attribute name", loc.kind)
	case 2:
		switch loc.kind {
		case "tagname":
			if p := predIRI(sc.res, sc.i); p != rdfType && p != rdfObject && p != rdfPredicate {
				return "xml-object-kind", "tag name as the object range of a statement that is not rdf:type"
			}
			return nameIs(false)
		case "attrname":
			if p := predIRI(sc.res, sc.i); p != rdfPredicate {
				return "xml-object-kind", "attribute name as an object range"
			}
			return nameIs(true)
		case "attrvalue":
			return attrValueIs()
		case "content":
			if !isLit {
				return "xml-object-kind", fmt.Sprintf("element content as the range of %v", sc.term)
			}
			if toks[loc.endTok].name != loc.tag.name {
				return "xml-content-end", fmt.Sprintf("content of <%s> ends at </%s>", loc.tag.name, toks[loc.endTok].name)
			}
			text, ok := xmlContentText(sc.doc, toks, loc.fromTok, loc.endTok)
			if !ok {
				return "xml-content-markup", "literal content range contains markup"
			}
			if text != lit.LexicalForm {
				return "content-mismatch", fmt.Sprintf("content decodes to %s, lexical form is %s", quoteClip(text), quoteClip(lit.LexicalForm))
			}
			return "", ""
		}
		return "xml-object-kind", fmt.Sprintf("object range is a %s", loc.kind)
	}
	return "graph", "RDF/XML has no graph names"
}

func rdfxmlMissing(c cfg, res *result, i, slot int) string {
	r := rdfxmlMissing1(c, res, i, slot)
	if r == "" || strings.HasPrefix(r, "rdfxml-collection-head") {
		return r
	}
	if d := docOf(res); d != nil && wholeDocTraits("rdfxml", d) != "" {
		return "rdfxml-attr-unlocated: the document has attributes inspectxml cannot locate (single quotes, empty value, layout around `=`, no layout before the name); " + r
	}
	return r
}

func rdfxmlMissing1(c cfg, res *result, i, slot int) string {
	q := res.stmts[i].quad
	p := predIRI(res, i)
	s, sIsIRI := termIRI(q.Triple.Subject)
	o, oIsIRI := termIRI(q.Triple.Object)
	reif := sIsIRI && strings.Contains(s, "#") && (p == rdfSubject || p == rdfPredicate || p == rdfObject || (p == rdfType && o == rdfStatement))
	none := true
	for _, r := range res.stmts[i].r {
		if r.ok {
			none = false
		}
	}
	if none && slot < 2 && p != rdfFirst && p != rdfRest && !reif && (isAnon(res, q.Triple.Object) || (oIsIRI && o == rdfNil)) {
		if slot == 0 && isAnon(res, q.Triple.Subject) {
			return ""
		}
		// decoder.go processParseTypeCollectionPropertyElt builds the statement linking the property to
		// the list without any offsets although it knows the subject and predicate positions
		return "rdfxml-collection-head: the statement linking a parseType=Collection property to its list carries no range at all"
	}
	switch slot {
	case 0:
		if isAnon(res, q.Triple.Subject) || reif {
			return ""
		}
		if _, isB := labelOf(res, q.Triple.Subject); isB {
			return "rdfxml-subject-nodeid: a labelled blank node subject is read from rdf:nodeID"
		}
		return "rdfxml-subject-iri: an IRI subject is read from rdf:about / rdf:ID / rdf:resource"
	case 1:
		if p == rdfType || p == rdfFirst || p == rdfRest || reif {
			return ""
		}
		return "rdfxml-predicate: a predicate other than rdf:type / rdf:first / rdf:rest is read from a tag or attribute name"
	case 2:
		if reif || p == rdfFirst || p == rdfRest {
			return ""
		}
		if isAnon(res, q.Triple.Object) {
			return "" // nested node element without identifier, parseType Resource / Collection, empty property element with property attributes
		}
		if oIsIRI && o == rdfNil {
			return ""
		}
		if l, ok := q.Triple.Object.(rdf.Literal); ok && (l.LexicalForm == "" || string(l.Datatype) == rdfXMLLit) {
			return ""
		}
		// nested node element with rdf:about / rdf:ID / rdf:nodeID: the decoder leaves the object range
		// out ("TODO processNodeElt"); indistinguishable here from rdf:resource without a range
		if _, isLit := q.Triple.Object.(rdf.Literal); !isLit {
			return ""
		}
		return "rdfxml-object-literal: a non-empty literal is read from element content or an attribute value"
	}
	return ""
}

var _ = utf8.RuneError
