/-
  Proofs for Props/C16TtlDocO.lean, part 3: OFFSETS ATTACHED TO ERRORS lie inside the document, and the
  rune buffer's byte offset accounts for every rune (capture on or off).  Size-based: `EOff.bound`
  (Props/C16Defs.lean) is the byte position an error offset refers to (for a range: its larger end),
  relative to the start of the input.  Core tactics only.

  The seven `produceX_errP` lemmas are the top-level lemmas of Proofs/C16TtlErr.lean restated with the
  weaker hypothesis their proofs actually use (`Pend s 0`: the writer holds at most what the rune
  buffer has handed out) instead of `InStep s` (exactly that much): after the reader has ended the
  statement layer may have read white space that is never committed.
-/
import RdfModel.Props.C16TtlDocODefs
import RdfModel.Proofs.C16TtlErr
namespace RdfModel.Proofs.C16TtlDocO
section producers
open RdfModel RdfModel.TW RdfModel.NQO RdfModel.TtlO
open RdfModel.Proofs.C16Ttl RdfModel.Proofs.C16 RdfModel.C16

theorem produceIRIREF_errP (T : Tables) (e : End) (s : S) (inp : List RP) (c : EClass) (o : EOff)
    (hp0 : Pend s 0) (h : TtlO.produceIRIREF T e s inp = .err c o) : EOff.bound o ≤ s.bo + size inp := by
  cases inp with
  | nil => simp [TtlO.produceIRIREF] at h; simp [← h.2, EOff.bound]
  | cons r rest =>
    simp only [TtlO.produceIRIREF] at h
    split at h
    · have := scanIRIREF_err _ _ _ _ _ _ _ _ _ (by pend_next hp0) h
      simp at this ⊢; omega
    · err_here h hp0

theorem produceString_errP (T : Tables) (e : End) (s : S) (inp : List RP) (c : EClass) (o : EOff)
    (hp0 : Pend s 0) (h : TtlO.produceString T e false s inp = .err c o) :
    EOff.bound o ≤ s.bo + size inp := by
  cases inp with
  | nil => simp [TtlO.produceString] at h; simp [← h.2, EOff.bound]
  | cons q r =>
    simp only [TtlO.produceString] at h
    split at h
    · cases r with
      | nil => err_here h hp0
      | cons c1 r1 =>
        simp only at h
        split at h
        · cases r1 with
          | nil =>
            cases e
            · simp [done] at h
            · err_here h hp0
          | cons c2 r2 =>
            simp only at h
            split at h
            · have := scanString_err _ _ _ _ _ _ _ _ _ _ _ (by pend_next hp0) h
              simp at this ⊢; omega
            · simp [done] at h
        · have := scanString_err _ _ _ _ _ _ _ _ _ _ _ (by pend_next hp0) h
          simp at this ⊢; omega
    · err_here h hp0

theorem produceLANGTAG_errP (e : End) (s : S) (inp : List RP) (c : EClass) (o : EOff)
    (hp0 : Pend s 0) (h : TtlO.produceLANGTAG e s inp = .err c o) : EOff.bound o ≤ s.bo + size inp := by
  cases inp with
  | nil => simp [TtlO.produceLANGTAG] at h; simp [← h.2, EOff.bound]
  | cons r rest =>
    simp only [TtlO.produceLANGTAG] at h
    split at h
    · have := langPrimary_err _ _ _ _ _ _ _ (by pend_next hp0) h
      simp at this ⊢; omega
    · err_here h hp0

theorem produceBlankNode_errP (T : Tables) (e : End) (labelOnly : Bool) (s : S) (inp : List RP)
    (c : EClass) (o : EOff) (hp0 : Pend s 0)
    (h : TtlO.produceBlankNode T e labelOnly s inp = .err c o) : EOff.bound o ≤ s.bo + size inp := by
  cases inp with
  | nil => simp [TtlO.produceBlankNode] at h; simp [← h.2, EOff.bound]
  | cons c0 r0 =>
    simp only [TtlO.produceBlankNode] at h
    split at h
    · err_here h hp0
    · cases r0 with
      | nil => err_here h hp0
      | cons c1 r1 =>
        simp only at h
        split at h
        · err_here h hp0
        · cases r1 with
          | nil => err_here h hp0
          | cons c2 r2 =>
            simp only at h
            split at h
            · have := bnLoop_err _ _ _ _ _ _ _ _ _ (by
                intro hh hd
                cases hd0 : s.doc with
                | none => simp [hd0] at hd
                | some h0 =>
                  have := hp0 h0 hd0
                  simp [hd0] at hd
                  subst hd
                  simp; omega) h
              simp at this ⊢; omega
            · err_here h hp0

theorem produceNumericLiteral_errP (e : End) (s : S) (inp : List RP) (c : EClass) (o : EOff)
    (hp0 : Pend s 0) (h : TtlO.produceNumericLiteral e s inp = .err c o) :
    EOff.bound o ≤ s.bo + size inp := by
  cases inp with
  | nil => simp [TtlO.produceNumericLiteral] at h; simp [← h.2, EOff.bound]
  | cons r rest =>
    simp only [TtlO.produceNumericLiteral] at h
    split at h
    · have := scanNum_err _ _ _ _ _ _ _ _ (by pend_next hp0) h
      simp at this ⊢; omega
    · split at h
      · have := scanNum_err _ _ _ _ _ _ _ _ (by pend_next hp0) h
        simp at this ⊢; omega
      · err_here h hp0

theorem producePNAME_NS_errP (T : Tables) (e : End) (trig : Bool) (s : S) (inp : List RP) (c : EClass)
    (o : EOff) (hp0 : Pend s 0) (h : TtlO.producePNAME_NS T e trig s inp = .err c o) :
    EOff.bound o ≤ s.bo + size inp := by
  cases inp with
  | nil => simp [TtlO.producePNAME_NS] at h; simp [← h.2, EOff.bound]
  | cons r rest =>
    simp only [TtlO.producePNAME_NS] at h
    split at h
    · simp [done] at h
    · split at h
      · have := pnameNsLoop_err _ _ _ _ _ _ _ _ _ (by pend_next hp0) h
        simp at this ⊢; omega
      · err_here h hp0

theorem producePrefixedName_errP (T : Tables) (e : End) (trig : Bool) (s : S) (inp : List RP)
    (c : EClass) (o : EOff) (hp0 : Pend s 0)
    (h : TtlO.producePrefixedName T e trig s inp = .err c o) : EOff.bound o ≤ s.bo + size inp := by
  unfold TtlO.producePrefixedName at h
  cases hn : TtlO.producePNAME_NS T e trig s inp with
  | err c' o' =>
    simp only [hn, TtlO.RO.err.injEq] at h
    obtain ⟨rfl, rfl⟩ := h
    exact producePNAME_NS_errP _ _ _ _ _ _ _ hp0 hn
  | panic => simp [hn] at h
  | ok nsv rgNs s1 rest1 =>
    simp only [hn] at h
    obtain ⟨ns, ⟨rfl, rfl, rfl⟩, -⟩ := producePNAME_NS_ok _ _ _ _ _ _ _ _ _ hn
    cases hl : TtlO.scanLocal T e .first ⟨s.bo + size ns, s.doc.map (fun h => ns :: h)⟩ rest1 [] false [] with
    | ok loc rgLoc s2 rest2 => simp [hl] at h
    | panic => simp [hl] at h
    | err c' o' =>
      simp only [hl, TtlO.RO.err.injEq] at h
      obtain ⟨rfl, rfl⟩ := h
      have := scanLocal_err _ _ _ _ _ _ _ _ _ _ (by
        intro hh hd
        cases hd0 : s.doc with
        | none => simp [hd0] at hd
        | some h0 =>
          have := hp0 h0 hd0
          simp [hd0] at hd
          subst hd
          simp; omega) hl
      simp at this ⊢; omega

end producers

end RdfModel.Proofs.C16TtlDocO
