#!/bin/sh
# regenerate assembled props + MANIFEST.json and validate it against the schema
cd "$(dirname "$0")/.." && python3 tools/assemble.py >/dev/null && python3 tools_manifest.py && python3-vt -c "
import json,jsonschema
jsonschema.validate(json.load(open('MANIFEST.json')), json.load(open('/root/.vp/MANIFEST.schema.json'))); print('MANIFEST valid')"
