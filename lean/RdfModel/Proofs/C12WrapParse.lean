/-
  Part C12W — `url.Parse` / `URL.String` on the recomposition of components inside `InLang`.
-/
import RdfModel.Proofs.C12WrapCut
namespace RdfModel.C12W
open RdfModel.GoUrlFull RdfModel.PIRI
open RdfModel.Spec.RFC3986 (Parts recompose schemePart authorityPart queryPart fragmentPart)

theorem not_mem_of_all {f : Nat → Bool} {l : Str} {x : Nat} (h : l.all f = true) (hx : f x = false) : x ∉ l := by
  intro hm
  have := List.all_eq_true.mp h x hm
  rw [hx] at this; cases this

/-- what `parse(pre, false)` and `String` do on a fragment-free recomposition -/
def GoodNoFrag (pre : Str) (u : URL) : Prop :=
  parseNoFrag pre = .ok u ∧ u.str = pre ∧ u.fragment = [] ∧ u.rawFragment = [] ∧
  (u.rawPath = [] ∨ u.escapedPath = u.rawPath) ∧ (reclassify u).1 = u

theorem queryTail (body : Str) (Q : Option Str) :
    (if ((Q == some []) || !(Q.getD []).isEmpty) = true then body ++ 0x3f :: Q.getD [] else body) = body ++ queryPart Q := by
  cases Q with
  | none => simp [queryPart]
  | some q => cases q <;> simp [queryPart, RdfModel.Spec.RFC3986.cQuest]

theorem authority_facts {a : Str} (h : authorityOk a = true) :
    a ≠ [] ∧ a.all hostByteOk = true ∧ 0x2f ∉ a ∧ 0x40 ∉ a ∧ 0x5b ∉ a ∧ 0x3f ∉ a ∧ 0x23 ∉ a ∧
    (match lastIndexOf 0x3a a with | some i => validOptionalPort (a.drop i) | none => true) = true := by
  unfold authorityOk at h
  simp only [Bool.and_eq_true, Bool.not_eq_true'] at h
  obtain ⟨⟨h1, h2⟩, h3⟩ := h
  refine ⟨by cases a <;> simp_all, h2, ?_, ?_, ?_, ?_, ?_, h3⟩ <;> exact not_mem_of_all h2 (by decide)

theorem parseAuthority_ok {a : Str} (h : authorityOk a = true) : parseAuthority a = .ok (none, a) := by
  obtain ⟨_, hall, _, hat, hbr, _, _, hport⟩ := authority_facts h
  have hph : parseHost a = .ok a := by
    unfold parseHost
    rw [lastIndexOf_none _ _ hbr]
    simp only
    cases hl : lastIndexOf 0x3a a with
    | none => simp [unescape_host_id a hall]
    | some i =>
      rw [hl] at hport
      simp at hport
      simp [hport, unescape_host_id a hall]
  unfold parseAuthority
  rw [lastIndexOf_none _ _ hat]
  simp [hph]

def schemePre (scheme : Str) : Str := if !scheme.isEmpty then scheme ++ [0x3a] else []

/-- the conclusions shared by all shapes, at the level of `parseRest` -/
def GoodRest (scheme rest0 : Str) (u : URL) : Prop :=
  parseRest scheme rest0 = .ok u ∧ u.str = schemePre scheme ++ rest0 ∧ u.fragment = [] ∧ u.rawFragment = [] ∧
  (u.rawPath = [] ∨ u.escapedPath = u.rawPath) ∧ (reclassify u).1 = u

theorem path_facts {p : Str} (h : pathOk p = true) :
    validEncoded .path p = true ∧ (∃ r, unescape .path p = .ok r) ∧ 0x3f ∉ p ∧ 0x23 ∉ p := by
  unfold pathOk at h
  simp only [Bool.and_eq_true] at h
  refine ⟨h.1, unescOk_elim h.2, ?_, ?_⟩ <;> exact not_mem_of_all h.1 (by decide)

theorem rawPath_cases (path p : Str) :
    ((if escape .path path = p then ([] : Str) else p) = [] ∨ p = (if escape .path path = p then ([] : Str) else p)) := by
  by_cases h : escape .path path = p <;> simp [h]

theorem parseRest_authority (scheme a path : Str) (Q : Option Str) (ha : authorityOk a = true)
    (hp : pathOk path = true) (hsh : path = [] ∨ path.head? = some 0x2f) :
    GoodRest scheme (0x2f :: 0x2f :: a ++ path ++ queryPart Q)
      { scheme := scheme, host := a, path := unescD .path path, rawPath := rawOf .path path,
        forceQuery := (Q == some []), rawQuery := Q.getD [] } := by
  obtain ⟨hane, hall, haslash, _, _, haq, _, _⟩ := authority_facts ha
  obtain ⟨hv, ⟨r, hr⟩, hpq, _⟩ := path_facts hp
  have hrd : unescD .path path = r := by simp [unescD, hr]
  unfold rawOf
  rw [hrd]
  have hstar : path ≠ pctStar := by
    rcases hsh with h | h
    · subst h; decide
    · intro e; subst e; cases h
  have hstuff : 0x3f ∉ (0x2f :: 0x2f :: a ++ path) := by
    simp only [List.cons_append, List.mem_cons, List.mem_append, not_or]
    exact ⟨by decide, by decide, haq, hpq⟩
  have hq := queryCut_spec (0x2f :: 0x2f :: a ++ path) Q hstuff
  obtain ⟨hset, hesc⟩ := setPath_spec
    { scheme := scheme, forceQuery := (Q == some []), rawQuery := Q.getD [], user := none, host := a } path r hr hv hstar
  refine ⟨?_, ?_, rfl, rfl, ?_, ?_⟩
  · -- parseRest
    unfold parseRest
    rw [hq]
    have h1 : [0x2f].isPrefixOf (a ++ path) = false := by
      cases a with
      | nil => exact absurd rfl hane
      | cons c a' =>
        have : c ≠ 0x2f := fun e => haslash (by simp [e])
        simp [List.isPrefixOf, Ne.symm this]
    have hdrop : (0x2f :: 0x2f :: (a ++ path)).drop 2 = a ++ path := rfl
    simp only [startsWith, List.cons_append, List.isPrefixOf, beq_self_eq_true, Bool.true_and, Bool.not_true,
      Bool.false_and, Bool.false_eq_true, if_false]
    rw [h1, hdrop]
    simp only [Bool.not_false, Bool.or_true, Bool.and_self, if_true]
    rw [authCut_spec a path haslash hsh, parseAuthority_ok ha]
    exact hset
  · -- String
    have hh : a.isEmpty = false := by cases a <;> simp_all
    have hpath : (!path.isEmpty && path.head? != some 0x2f) = false := by
      rcases hsh with h | h
      · subst h; simp
      · simp [h]
    unfold URL.str
    rw [hesc]
    simp only [URL.authorityPart, hh, hpath, List.isEmpty_nil, Bool.not_true, Bool.not_false, Bool.or_true, Bool.true_or,
      Option.isSome_none, Option.isNone_none, Bool.and_false, Bool.false_and, Bool.false_eq_true, if_false, if_true,
      escape_host_id a hall, Bool.or_false, List.append_nil]
    have hne : (((if (!List.isEmpty scheme) = true then scheme ++ [0x3a] else []) ++ ([0x2f, 0x2f] ++ a)).isEmpty) = false := by
      simp
    rw [hne]
    simp only [Bool.false_and, Bool.false_eq_true, if_false]
    rw [queryTail]
    simp [schemePre, List.append_assoc]
  · exact (rawPath_cases r path).imp id (fun h => by rw [hesc]; exact h)
  · have hh : a.isEmpty = false := by cases a <;> simp_all
    simp [reclassify, reclassGuard, hh]

theorem isEmpty_false_of_ne {l : Str} (h : l ≠ []) : l.isEmpty = false := by cases l <;> simp_all

/-- scheme present, no authority, rootless or empty path: kept raw in `Opaque` -/
theorem parseRest_opaque (scheme path : Str) (Q : Option Str) (hs : scheme ≠ [])
    (hp : pathOk path = true) (hns : path.head? ≠ some 0x2f) :
    GoodRest scheme (path ++ queryPart Q)
      { scheme := scheme, opaq := path, forceQuery := (Q == some []), rawQuery := Q.getD [] } := by
  obtain ⟨_, _, hpq, _⟩ := path_facts hp
  have hq := queryCut_spec path Q hpq
  have hse := isEmpty_false_of_ne hs
  have hsw : startsWith [0x2f] path = false := by
    cases path with
    | nil => rfl
    | cons c p =>
      have : c ≠ 0x2f := fun e => hns (by simp [e])
      simp [startsWith, List.isPrefixOf, Ne.symm this]
  refine ⟨?_, ?_, rfl, rfl, Or.inl rfl, ?_⟩
  · unfold parseRest
    rw [hq]
    simp [hsw, hse]
  · unfold URL.str
    by_cases hpe : path = []
    · subst hpe
      have hne : ((if (!List.isEmpty scheme) = true then scheme ++ [0x3a] else ([] : Str)) ++ []).isEmpty = false := by
        simp [hse]
      simp only [URL.authorityPart, URL.escapedPath, List.isEmpty_nil, Bool.not_true, hse, Bool.not_false, Bool.true_or,
        Bool.false_and, Bool.false_eq_true, if_false, if_true, Option.isSome_none, Option.isNone_none, Bool.or_self,
        Bool.and_true, Bool.and_false, escape, List.append_nil, List.nil_append]
      simp only [show (scheme ++ [0x3a]).isEmpty = false by simp, show ¬(([] : Str) = [0x2a]) by decide,
        Bool.false_and, Bool.false_eq_true, if_false, List.append_nil]
      rw [queryTail]
      simp [schemePre, hse]
    · simp only [isEmpty_false_of_ne hpe, Bool.not_false, if_true, List.isEmpty_nil, Bool.not_true, Bool.false_eq_true, if_false]
      rw [queryTail]
      simp [schemePre, hse, List.append_assoc]
  · by_cases hpe : path = []
    · subst hpe
      unfold reclassify
      split <;> simp
    · simp [reclassify, reclassGuard, isEmpty_false_of_ne hpe]

/-- no authority, path handed to `setPath` as a whole: `scheme:/path` for the special schemes, or a relative
    reference -/
theorem parseRest_path (scheme path : Str) (Q : Option Str) (hp : pathOk path = true)
    (hnn : startsWith [0x2f, 0x2f] path = false) (hstar : path ≠ pctStar)
    (hcase : (scheme ≠ [] ∧ special scheme = true ∧ path.head? = some 0x2f) ∨
             (scheme = [] ∧ ((cut 0x2f path).1).contains 0x3a = false)) :
    GoodRest scheme (path ++ queryPart Q)
      { scheme := scheme, omitHost := (!scheme.isEmpty && startsWith [0x2f] path), path := unescD .path path,
        rawPath := rawOf .path path, forceQuery := (Q == some []), rawQuery := Q.getD [] } := by
  obtain ⟨hv, ⟨r, hr⟩, hpq, _⟩ := path_facts hp
  have hrd : unescD .path path = r := by simp [unescD, hr]
  unfold rawOf
  rw [hrd]
  have hq := queryCut_spec path Q hpq
  obtain ⟨hset, hesc⟩ := setPath_spec
    { scheme := scheme, omitHost := (!scheme.isEmpty && startsWith [0x2f] path), forceQuery := (Q == some []), rawQuery := Q.getD [] } path r hr hv hstar
  refine ⟨?_, ?_, rfl, rfl, ?_, ?_⟩
  · unfold parseRest
    rw [hq]
    simp only [hnn, Bool.and_false, Bool.false_eq_true, if_false]
    rcases hcase with ⟨hs, _, hh⟩ | ⟨hs, hc⟩
    · have hsw : startsWith [0x2f] path = true := by
        cases path with
        | nil => cases hh
        | cons c p => simp only [List.head?_cons, Option.some.injEq] at hh; subst hh; simp [startsWith, List.isPrefixOf]
      simp only [hsw, Bool.not_true, Bool.false_and, Bool.false_eq_true, if_false] at hset ⊢
      exact hset
    · subst hs
      simp only [List.isEmpty_nil, Bool.not_true, Bool.and_false, Bool.false_and, Bool.false_eq_true, if_false, hc] at hset ⊢
      exact hset
  · unfold URL.str
    rw [hesc]
    simp only [URL.authorityPart, List.isEmpty_nil, Bool.not_true, Bool.or_false, Option.isSome_none, Option.isNone_none,
      Bool.and_true, Bool.and_false, Bool.false_eq_true, if_false, List.append_nil]
    rcases hcase with ⟨hs, _, hh⟩ | ⟨hs, hc⟩
    · have hse := isEmpty_false_of_ne hs
      have hsw : startsWith [0x2f] path = true := by
        cases path with
        | nil => cases hh
        | cons c p => simp only [List.head?_cons, Option.some.injEq] at hh; subst hh; simp [startsWith, List.isPrefixOf]
      have hne : (scheme ++ [0x3a]).isEmpty = false := by simp
      simp only [hse, hsw, Bool.not_false, Bool.and_self, if_true, List.append_nil, hne, Bool.false_and, Bool.false_eq_true,
        if_false]
      rw [queryTail]
      simp [schemePre, hse, List.append_assoc]
    · subst hs
      simp only [List.isEmpty_nil, Bool.not_true, Bool.false_eq_true, if_false, List.append_nil, hc, Bool.and_false,
        List.nil_append]
      rw [queryTail]
      simp [schemePre]
  · exact (rawPath_cases r path).imp id (fun h => by rw [hesc]; exact h)
  · rcases hcase with ⟨hs, hsp, _⟩ | ⟨hs, _⟩
    · unfold special at hsp
      simp only [Bool.or_eq_true, beq_iff_eq] at hsp
      unfold reclassify reclassGuard
      rcases hsp with (h | h) | h <;> simp [h]
    · subst hs
      simp [reclassify, reclassGuard]

/-! ### `parse(pre, false)` on the fragment-free recomposition -/

theorem recompose_eq (P : Parts) : recompose P = preOf P ++ fragmentPart P.fragment := rfl

theorem map_lowerC_id : ∀ (s : Str), s.all (fun c => !isUpperC c) = true → s.map lowerC = s
  | [], _ => rfl
  | c :: s, h => by
    simp only [List.all_cons, Bool.and_eq_true, Bool.not_eq_true'] at h
    simp [lowerC, h.1, map_lowerC_id s (by simpa using h.2)]

theorem schemeOk_lower {s : Str} (h : schemeOk s = true) : s.map lowerC = s := by
  apply map_lowerC_id
  cases s with
  | nil => rfl
  | cons c t =>
    simp only [schemeOk, Bool.and_eq_true] at h
    simp only [List.all_cons, Bool.and_eq_true, Bool.not_eq_true']
    refine ⟨?_, ?_⟩
    · have := h.1; unfold isLowerC at this; unfold isUpperC
      simp only [Bool.and_eq_true, decide_eq_true_eq] at this
      simp only [Bool.and_eq_false_iff, decide_eq_false_iff_not]; omega
    · apply List.all_eq_true.mpr
      intro x hx
      have := List.all_eq_true.mp h.2 x hx
      unfold schemeTailByte isLowerC isDigitC at this
      unfold isUpperC
      simp only [Bool.or_eq_true, Bool.and_eq_true, decide_eq_true_eq, beq_iff_eq] at this
      simp only [Bool.not_eq_true', Bool.and_eq_false_iff, decide_eq_false_iff_not]; omega

theorem schemeOk_ne_nil {s : Str} (h : schemeOk s = true) : s ≠ [] := by
  cases s <;> simp_all [schemeOk]

theorem goodNoFrag_of_rest {sch rest0 : Str} {u : URL} (hs : schemeOk sch = true) (h : GoodRest sch rest0 u)
    (hctl : hasCTL (sch ++ 0x3a :: rest0) = false) : GoodNoFrag (sch ++ 0x3a :: rest0) u := by
  obtain ⟨h1, h2, h3, h4, h5, h6⟩ := h
  have hne := schemeOk_ne_nil hs
  refine ⟨?_, ?_, h3, h4, h5, h6⟩
  · unfold parseNoFrag
    have hstar : (sch ++ 0x3a :: rest0) ≠ [0x2a] := by
      cases sch with
      | nil => exact absurd rfl hne
      | cons c t => intro e; simp at e
    simp [hctl, hstar, getScheme_scheme sch rest0 hs, schemeOk_lower hs, h1]
  · rw [h2]; simp [schemePre, isEmpty_false_of_ne hne]

theorem goodNoFrag_of_rest_nil {rest0 : Str} {u : URL} (h : GoodRest [] rest0 u)
    (hctl : hasCTL rest0 = false) (hstar : rest0 ≠ [0x2a])
    (hsch : (rest0.dropWhile isSchemeByte).head? ≠ some 0x3a) : GoodNoFrag rest0 u := by
  obtain ⟨h1, h2, h3, h4, h5, h6⟩ := h
  refine ⟨?_, ?_, h3, h4, h5, h6⟩
  · unfold parseNoFrag
    simp [hctl, hstar, getScheme_none rest0 hsch, h1]
  · rw [h2]; simp [schemePre]

theorem hasCTL_append (a b : Str) : hasCTL (a ++ b) = (hasCTL a || hasCTL b) := by simp [hasCTL]

theorem queryPart_shape (Q : Option Str) : queryPart Q = [] ∨ (queryPart Q).head? = some 0x3f := by
  cases Q with
  | none => exact Or.inl rfl
  | some q => exact Or.inr rfl

theorem preOf_ne_star_scheme {P : Parts} {sch : Str} (hs : P.scheme = some sch) (hne : sch ≠ []) : preOf P ≠ [0x2a] := by
  unfold preOf
  rw [hs]
  cases sch with
  | nil => exact absurd rfl hne
  | cons c t => intro e; simp [schemePart, RdfModel.Spec.RFC3986.cColon] at e

theorem preOf_ne_star_auth {P : Parts} {a : Str} (hs : P.scheme = none) (ha : P.authority = some a) : preOf P ≠ [0x2a] := by
  unfold preOf
  rw [hs, ha]
  intro e; simp [schemePart, authorityPart, RdfModel.Spec.RFC3986.cSlash] at e

theorem urlNoFrag_auth {P : Parts} {a : Str} (hne : preOf P ≠ [0x2a]) (ha : P.authority = some a) :
    urlNoFrag P = { scheme := P.scheme.getD [], host := a, path := unescD .path P.path, rawPath := rawOf .path P.path,
                    forceQuery := (P.query == some []), rawQuery := P.query.getD [] } := by
  unfold urlNoFrag
  simp [hne, ha]

theorem urlNoFrag_opaque {P : Parts} {sch : Str} (hne : preOf P ≠ [0x2a]) (ha : P.authority = none)
    (hs : P.scheme = some sch) (hh : P.path.head? ≠ some 0x2f) :
    urlNoFrag P = { scheme := sch, opaq := P.path, forceQuery := (P.query == some []), rawQuery := P.query.getD [] } := by
  unfold urlNoFrag
  simp [hne, ha, hs, hh]

theorem urlNoFrag_path {P : Parts} (hne : preOf P ≠ [0x2a]) (ha : P.authority = none)
    (hc : P.scheme = none ∨ P.path.head? = some 0x2f) :
    urlNoFrag P = { scheme := P.scheme.getD [], omitHost := (!(P.scheme.getD []).isEmpty && startsWith [0x2f] P.path),
                    path := unescD .path P.path, rawPath := rawOf .path P.path,
                    forceQuery := (P.query == some []), rawQuery := P.query.getD [] } := by
  unfold urlNoFrag
  rcases hc with hc | hc <;> simp [hne, ha, hc]

theorem parseNoFrag_good_ex (P : Parts) (h : InLang P = true) : ∃ u, GoodNoFrag (preOf P) u ∧ u = urlNoFrag P := by
  unfold InLang at h
  simp only [Bool.and_eq_true, Bool.not_eq_true'] at h
  obtain ⟨⟨⟨⟨⟨⟨hsch, hauth⟩, hpath⟩, hshape⟩, _⟩, _⟩, hctl⟩ := h
  rw [recompose_eq, hasCTL_append, Bool.or_eq_false_iff] at hctl
  have hctl := hctl.1
  unfold shapeOk at hshape
  have hpre : preOf P = schemePart P.scheme ++ authorityPart P.authority ++ P.path ++ queryPart P.query := rfl
  rw [hpre]
  unfold preOf at hctl
  cases hs : P.scheme with
  | some sch =>
    rw [hs] at hsch hshape hctl
    simp only at hsch
    cases ha : P.authority with
    | some a =>
      rw [ha] at hauth hshape hctl
      simp only [Bool.or_eq_true, List.isEmpty_iff, beq_iff_eq] at hauth hshape
      have hu := parseRest_authority sch a P.path P.query hauth hpath hshape
      refine ⟨_, ?_, by rw [urlNoFrag_auth (preOf_ne_star_scheme hs (schemeOk_ne_nil hsch)) ha, hs]⟩
      have e : schemePart (some sch) ++ authorityPart (some a) ++ P.path ++ queryPart P.query
          = sch ++ 0x3a :: (0x2f :: 0x2f :: a ++ P.path ++ queryPart P.query) := by
        simp [schemePart, authorityPart, RdfModel.Spec.RFC3986.cColon, RdfModel.Spec.RFC3986.cSlash, List.append_assoc]
      rw [e] at hctl ⊢
      exact goodNoFrag_of_rest hsch hu hctl
    | none =>
      rw [ha] at hshape hctl
      simp only [Bool.and_eq_true, Bool.not_eq_true', Bool.or_eq_true, beq_iff_eq] at hshape
      have e : schemePart (some sch) ++ authorityPart none ++ P.path ++ queryPart P.query
          = sch ++ 0x3a :: (P.path ++ queryPart P.query) := by
        simp [schemePart, authorityPart, RdfModel.Spec.RFC3986.cColon, List.append_assoc]
      rw [e] at hctl ⊢
      by_cases hh : P.path.head? = some 0x2f
      · have hsp : special sch = true := by
          rcases hshape.2 with h | h
          · simp [hh] at h
          · exact h
        have hstar : P.path ≠ pctStar := by intro e; rw [e] at hh; cases hh
        have hu := parseRest_path sch P.path P.query hpath hshape.1 hstar
          (Or.inl ⟨schemeOk_ne_nil hsch, hsp, hh⟩)
        exact ⟨_, goodNoFrag_of_rest hsch hu hctl,
          by rw [urlNoFrag_path (preOf_ne_star_scheme hs (schemeOk_ne_nil hsch)) ha (Or.inr hh), hs]; rfl⟩
      · have hu := parseRest_opaque sch P.path P.query (schemeOk_ne_nil hsch) hpath hh
        exact ⟨_, goodNoFrag_of_rest hsch hu hctl,
          by rw [urlNoFrag_opaque (preOf_ne_star_scheme hs (schemeOk_ne_nil hsch)) ha hs hh]⟩
  | none =>
    rw [hs] at hshape hctl
    cases ha : P.authority with
    | some a =>
      rw [ha] at hauth hshape hctl
      simp only [Bool.or_eq_true, List.isEmpty_iff, beq_iff_eq] at hauth hshape
      have hu := parseRest_authority [] a P.path P.query hauth hpath hshape
      refine ⟨_, ?_, by rw [urlNoFrag_auth (preOf_ne_star_auth hs ha) ha, hs]⟩
      have e : schemePart none ++ authorityPart (some a) ++ P.path ++ queryPart P.query
          = 0x2f :: 0x2f :: a ++ P.path ++ queryPart P.query := by
        simp [schemePart, authorityPart, RdfModel.Spec.RFC3986.cSlash]
      rw [e] at hctl ⊢
      refine goodNoFrag_of_rest_nil hu hctl (by simp) ?_
      simp only [List.cons_append]
      rw [List.dropWhile_cons_of_neg (by decide)]
      simp
    | none =>
      rw [ha] at hshape hctl
      simp only [Bool.and_eq_true, Bool.not_eq_true', Bool.or_eq_true, beq_iff_eq, bne_iff_ne, ne_eq] at hshape
      have e : schemePart none ++ authorityPart none ++ P.path ++ queryPart P.query = P.path ++ queryPart P.query := by
        simp [schemePart, authorityPart]
      rw [e] at hctl ⊢
      have hcol : ((cut 0x2f P.path).1).contains 0x3a = false := by
        rcases hshape.2.2 with h | h
        · cases hp : P.path with
          | nil => rfl
          | cons c p => rw [hp] at h; simp only [List.head?_cons, Option.some.injEq] at h; subst h; simp [cut]
        · exact h
      by_cases hst : P.path ++ queryPart P.query = [0x2a]
      · refine ⟨{ path := [0x2a] }, ⟨?_, ?_, rfl, rfl, Or.inl rfl, ?_⟩, ?_⟩
        · unfold parseNoFrag
          rw [hst]; rfl
        · rw [hst]; decide
        · decide
        · have : preOf P = [0x2a] := by rw [hpre, hs, ha, e]; exact hst
          unfold urlNoFrag; simp [this]
      · have hu := parseRest_path [] P.path P.query hpath hshape.1 hshape.2.1 (Or.inr ⟨rfl, hcol⟩)
        have hne : preOf P ≠ [0x2a] := by rw [hpre, hs, ha, e]; exact hst
        exact ⟨_, goodNoFrag_of_rest_nil hu hctl hst (noScheme_of_firstSeg _ _ (queryPart_shape _) hcol),
          by rw [urlNoFrag_path hne ha (Or.inl hs), hs]; rfl⟩

theorem parseNoFrag_good (P : Parts) (h : InLang P = true) : GoodNoFrag (preOf P) (urlNoFrag P) := by
  obtain ⟨u, hu, e⟩ := parseNoFrag_good_ex P h
  rw [← e]; exact hu

end RdfModel.C12W
