/-
  C11, RDFa: `id` attributes are irrelevant markup — `Spec.Rdfa.denote` does not look at them.
    denote_reId   any rewriting of the ids of a document (`Spec.Microdata.reId f`) leaves the RDFa denotation unchanged
-/
import RdfModel.Proofs.C11MdIds
namespace RdfModel.Spec.Rdfa
open RdfModel RdfModel.Spec.Html RdfModel.Desc

theorem elemLocal_id (C : Ctx) (lm : LM) (n : Nat) (tag : Tag) (a : Attrs) (x : Option Str) (txt : Str) :
    elemLocal C lm n tag { a with id := x } txt = elemLocal C lm n tag a txt := rfl

mutual
theorem procNode_reId (f : Microdata.IdMap) (here : Microdata.Path) :
    ∀ (t : Tree) (C : Ctx) (lm : LM) (n : Nat), procNode C lm n (Microdata.reId f here t) = procNode C lm n t
  | .text _, C, lm, n => by simp [Microdata.reId]
  | .elem tag a ks, C, lm, n => by
    simp only [Microdata.reId]
    rw [procNode, procNode]
    simp only [Microdata.textOfList_reIdKids, elemLocal_id]
    simp only [procKids_reId f here 0 ks]
theorem procKids_reId (f : Microdata.IdMap) (here : Microdata.Path) (i : Nat) :
    ∀ (ks : List Tree) (C : Ctx) (lm : LM) (n : Nat), procKids C lm n (Microdata.reIdKids f here i ks) = procKids C lm n ks
  | [], C, lm, n => by simp [Microdata.reIdKids]
  | k :: ks, C, lm, n => by
    simp only [Microdata.reIdKids]
    rw [procKids, procKids]
    simp only [procNode_reId f (here ++ [i]) k, procKids_reId f here (i + 1) ks]
end

theorem denote_reId (f : Microdata.IdMap) (base : Str) (prefixes terms : List (Str × Str)) (doc : Tree) :
    denote base prefixes terms (Microdata.reId f [] doc) = denote base prefixes terms doc := by
  unfold denote
  simp only [procNode_reId f [] doc]

end RdfModel.Spec.Rdfa
