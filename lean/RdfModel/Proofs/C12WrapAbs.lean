/-
  Part C12W — an absolute reference without dot segments is returned unchanged by `ResolveReference`, whatever
  the shape of the base.
-/
import RdfModel.Proofs.C12WrapResolveRef
namespace RdfModel.C12W
open RdfModel.GoUrlFull RdfModel.PIRI
open RdfModel.Spec.RFC3986 (Parts recompose NoDotSegments)

theorem resolve_abs_core (pb pr : ParsedIRI) (h1 : pr.u.scheme ≠ [])
    (h2 : setPathIgnore pr.u (RdfModel.IRI.resolvePath (pathOf pr.u) []) = pr.u) (h3 : pb.forceFragment = false) :
    pb.resolveReference pr = .ok pr := by
  unfold ParsedIRI.resolveReference
  simp only [isEmpty_false_of_ne h1, Bool.false_eq_true, if_false, Bool.not_false, Bool.true_or, if_true, h2, h3,
    Bool.false_or]

/-- re-setting the path a URL was parsed from leaves it unchanged -/
theorem setPathIgnore_fix (u : URL) (p : Str) (hu : unescape .path p = .ok u.path)
    (hr : u.rawPath = (if escape .path u.path = p then [] else p)) (hv : validEncoded .path p = true)
    (hstar : p ≠ pctStar) (hres : RdfModel.IRI.resolvePath p [] = p) :
    setPathIgnore u (RdfModel.IRI.resolvePath (pathOf u) []) = u := by
  obtain ⟨hset, hesc⟩ := setPath_spec u p u.path hu hv hstar
  have heta : ({ u with path := u.path, rawPath := if escape .path u.path = p then [] else p } : URL) = u := by
    cases u; simp_all
  rw [heta] at hset hesc
  have hpo : pathOf u = p := by
    unfold pathOf
    by_cases he : escape .path u.path = p
    · rw [if_pos he] at hr
      rw [hr]
      simp only [List.isEmpty_nil, Bool.not_true, Bool.false_eq_true, if_false]
      exact hesc
    · rw [if_neg he] at hr
      have hne : p ≠ [] := by
        intro e; subst e
        have hp0 : u.path = [] := by
          have : unescape .path ([] : Str) = .ok [] := rfl
          rw [this] at hu
          injection hu with hu
          exact hu.symm
        apply he
        rw [hp0]; rfl
      simp [hr, isEmpty_false_of_ne hne]
  rw [hpo, hres]
  simp [setPathIgnore, hset]

theorem resolvePath_self {p : Str} (hp : p = [] ∨ p.head? = some 0x2f) (hnd : C12.hasDotSegment p = false)
    (hdd : C12.dotdotThenEmpty p = false) : RdfModel.IRI.resolvePath p [] = p := by
  rcases hp with hp | hp
  · subst hp; decide
  · have hfull : C12.rfcFull p [] = p := by simp [C12.rfcFull]
    have := C12.resolvePath_eq_rfc_partial p [] hp (by rw [hfull]; exact hdd)
    rw [this, hfull]
    apply C12.rds_fixes_dot_free
    intro s hs
    unfold C12.hasDotSegment at hnd
    have := List.any_eq_false.mp hnd s hs
    simpa using this

structure AbsFacts (B R : Parts) : Prop where
  inB : InLang B = true
  inR : InLang R = true
  rs : R.scheme.isSome = true
  bf : (B.fragment == some []) = false
  nd : C12.hasDotSegment R.path = false
  dd : C12.dotdotThenEmpty R.path = false

theorem absFacts {B R : Parts} (h : AbsLang B R = true) : AbsFacts B R := by
  unfold AbsLang at h
  simp only [Bool.and_eq_true, Bool.not_eq_true'] at h
  obtain ⟨⟨⟨⟨⟨h1, h2⟩, h3⟩, h4⟩, h5⟩, h6⟩ := h
  exact ⟨h1, h2, h3, h4, h5, h6⟩

theorem urlOf_path (P : Parts) : (urlOf P).path = (urlNoFrag P).path ∧ (urlOf P).rawPath = (urlNoFrag P).rawPath ∧
    (urlOf P).scheme = (urlNoFrag P).scheme := by
  rw [urlOf_eq]; exact ⟨rfl, rfl, rfl⟩

theorem unescape_unescD {mode : Mode} {s : Str} (h : unescOk mode s = true) : unescape mode s = .ok (unescD mode s) := by
  obtain ⟨r, hr⟩ := unescOk_elim h
  simp [unescD, hr]

theorem resolve_abs_pOf {B R : Parts} (h : AbsFacts B R) : (pOf B).resolveReference (pOf R) = .ok (pOf R) := by
  have fr := langFacts h.inR
  obtain ⟨sch, hsch⟩ := Option.isSome_iff_exists.mp h.rs
  have hschOk : schemeOk sch = true := by have := fr.sch; rw [hsch] at this; exact this
  have hsne := schemeOk_ne_nil hschOk
  have hne : preOf R ≠ [0x2a] := preOf_ne_star_scheme hsch hsne
  have hpok := fr.path
  unfold pathOk at hpok
  simp only [Bool.and_eq_true] at hpok
  obtain ⟨hv, huo⟩ := hpok
  have hunesc := unescape_unescD huo
  obtain ⟨e1, e2, e3⟩ := urlOf_path R
  have hshape := fr.shape
  unfold shapeOk at hshape
  apply resolve_abs_core
  · -- the scheme
    show (urlOf R).scheme ≠ []
    rw [e3]
    cases ha : R.authority with
    | some a => rw [urlNoFrag_auth hne ha, hsch]; exact hsne
    | none =>
      by_cases hh : R.path.head? = some 0x2f
      · rw [urlNoFrag_path hne ha (Or.inr hh), hsch]; exact hsne
      · rw [urlNoFrag_opaque hne ha hsch hh]; exact hsne
  · -- re-setting the path
    show setPathIgnore (urlOf R) (RdfModel.IRI.resolvePath (pathOf (urlOf R)) []) = urlOf R
    cases ha : R.authority with
    | some a =>
      rw [ha] at hshape
      simp only [Bool.or_eq_true, List.isEmpty_iff, beq_iff_eq] at hshape
      have hstar : R.path ≠ pctStar := by
        rcases hshape with e | e
        · rw [e]; decide
        · intro e'; rw [e'] at e; cases e
      apply setPathIgnore_fix (urlOf R) R.path
      · rw [e1, urlNoFrag_auth hne ha]; exact hunesc
      · rw [e1, e2, urlNoFrag_auth hne ha]; rfl
      · exact hv
      · exact hstar
      · exact resolvePath_self hshape h.nd h.dd
    | none =>
      by_cases hh : R.path.head? = some 0x2f
      · have hstar : R.path ≠ pctStar := by intro e'; rw [e'] at hh; cases hh
        apply setPathIgnore_fix (urlOf R) R.path
        · rw [e1, urlNoFrag_path hne ha (Or.inr hh)]; exact hunesc
        · rw [e1, e2, urlNoFrag_path hne ha (Or.inr hh)]; rfl
        · exact hv
        · exact hstar
        · exact resolvePath_self (Or.inr hh) h.nd h.dd
      · apply setPathIgnore_fix (urlOf R) []
        · rw [e1, urlNoFrag_opaque hne ha hsch hh]; rfl
        · rw [e1, e2, urlNoFrag_opaque hne ha hsch hh]; rfl
        · rfl
        · decide
        · decide
  · exact h.bf

end RdfModel.C12W
