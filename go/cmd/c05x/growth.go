package main

// Growth ("step count") oracle of C05: bounded time and memory, judged without a clock.
//
// Every grammar-directed generator of gen.go is a family of documents indexed by a parameter (nesting
// depth, number of mutually referencing items, …). A ladder of small parameters is decoded in one
// child process, one document after the other, and the *work* of each run is measured as the number
// of heap allocations the run performed (runtime.MemStats.Mallocs delta) plus the number of
// statements it yielded. Both are properties of the execution, not of the machine: they do not depend
// on the load, the number of CPUs or the scheduler, unlike a watchdog. Between two ladder points
// (n1 bytes, w1 work) and (n2, w2) the observed growth exponent is ln(w2/w1)/ln(n2/n1): linear
// decoding gives ≈ 1, the known quadratic paths ≈ 2. A family whose exponent exceeds growthLimit on
// a run that did real work (≥ growthMinTop allocations, same verdict at both points) is reported as super-polynomial growth: a
// factorial or exponential blow-up shows at parameters where the run still takes milliseconds
// (k = 5 … 7 mutually referencing items), long before the 2 s watchdog could fire (k ≈ 9 … 10).
//
// What the measure cannot see: work that allocates nothing (a pure loop); that is what the watchdog
// families (nest / huge, same generators at larger parameters) remain for.

import (
	"fmt"
	"math"
	"os"
	"runtime"
	"time"
)

const (
	growthLimit   = 4.0  // exponent (work vs input bytes) above which a family is reported
	growthMinBase = 200  // the lower ladder point of a judged pair must have done this much work
	growthMinTop  = 5000 // the upper one this much (a linear decoder reaches it at a few KiB of input)
)

type growthPoint struct {
	K, N    int // parameter, input bytes
	Work    uint64
	Verdict string
	Stmts   int
	Elapsed time.Duration
}

// growthLadder: the parameters of the growth oracle for a generator. Generators with their own
// parameter list are the "clique" families (k items each referring to all the others: input size
// Θ(k²), number of reference paths k!): consecutive small k. The others are nesting depths / widths:
// a doubling ladder.
func growthLadder(g nestGen) []int {
	if g.Params != nil {
		return []int{3, 4, 5, 6, 7}
	}
	return []int{8, 16, 32, 64, 128, 256}
}

func findNestGen(format, name string) (nestGen, bool) {
	for _, g := range nestGens[format] {
		if g.Name == name {
			return g, true
		}
	}
	return nestGen{}, false
}

// execCaseMeasured: execCase plus the allocation count of the run (measured inside the goroutine that
// runs the decoder; the child process runs one job at a time, nothing else allocates meanwhile but
// the watchdog timer).
func execCaseMeasured(c Case) (runResult, uint64) {
	type mres struct {
		r runResult
		w uint64
	}
	done := make(chan mres, 1)
	go func() {
		var m0, m1 runtime.MemStats
		rd := newSchedReader(c.Input, c.Sched)
		runtime.ReadMemStats(&m0)
		o := runDecoder(c.Format, c.Opts, rd)
		runtime.ReadMemStats(&m1)
		done <- mres{runResult{o, rd.Delivered}, m1.Mallocs - m0.Mallocs}
	}()
	select {
	case r := <-done:
		return r.r, r.w
	case <-time.After(budget(len(c.Input))):
		return runResult{Outcome: Outcome{Verdict: "hang", Elapsed: budget(len(c.Input))}}, 0
	}
}

func exponent(a, b growthPoint) float64 {
	return math.Log(float64(b.Work)/float64(a.Work)) / math.Log(float64(b.N)/float64(a.N))
}

// growth runs the ladder of one (format, options, generator) and judges it. c.Name is the generator
// name, c.Input is ignored.
func (s *sink) growth(c Case, ladder []int, verboseOut bool) {
	g, ok := findNestGen(c.Format, c.Name)
	if !ok {
		s.count("growth-unknown-generator")
		return
	}
	var pts []growthPoint
	var top Case
	for _, k := range ladder {
		cc := c
		cc.Input, cc.Sched, cc.Family, cc.Name = g.F(k), wholeSched, "growth", fmt.Sprintf("%s@%d", c.Name, k)
		r, w := execCaseMeasured(cc)
		if r.Verdict == "hang" { // not expected at these parameters; confirmed alone like any other watchdog hit
			s.suspect(cc)
			break
		}
		s.account(cc, r)
		s.judge(cc, r)
		if r.Verdict == "panic" {
			break
		}
		pts = append(pts, growthPoint{K: k, N: len(cc.Input), Work: w + uint64(len(r.Stmts)), Stmts: len(r.Stmts), Elapsed: r.Elapsed, Verdict: r.Verdict})
		top = cc
		if verboseOut {
			s.Log = append(s.Log, fmt.Sprintf("growth %s %s: %d bytes, %d allocations, %d statements, %v, verdict %s", c.Format, cc.Name, len(cc.Input), w, len(r.Stmts), r.Elapsed, r.Verdict))
		}
		if r.Elapsed > budget(len(cc.Input))/4 { // stop climbing well before the watchdog: the verdict is in the counts
			s.count("growth-ladder-cut-short")
			break
		}
	}
	// judged pairs: consecutive points, and the lowest eligible point against the top
	worst, wa, wb := 0.0, growthPoint{}, growthPoint{}
	judged := false
	consider := func(a, b growthPoint) {
		if a.Work < growthMinBase || b.Work < growthMinTop || float64(b.N) < 1.1*float64(a.N) || b.Work <= a.Work || a.Verdict != b.Verdict {
			return
		}
		judged = true
		if e := exponent(a, b); e > worst {
			worst, wa, wb = e, a, b
		}
	}
	for i := 0; i+1 < len(pts); i++ {
		consider(pts[i], pts[i+1])
		consider(pts[i], pts[len(pts)-1])
	}
	if os.Getenv("C05X_GROWTH_DUMP") != "" { // development aid: every ladder
		s.Log = append(s.Log, fmt.Sprintf("growth %s %s off=%v: worst %.2f; %s", c.Format, c.Name, c.Opts.Offsets, worst, ladderText(pts)))
	}
	switch {
	case !judged:
		s.count("growth-exponent:too-little-work-to-judge")
	case worst > growthLimit:
		s.count("growth-exponent:>4")
	default:
		s.count(fmt.Sprintf("growth-exponent:%d-%d", int(worst), int(worst)+1))
	}
	if judged && worst > growthLimit {
		s.add(violation{Prop: "C05", Kind: "growth", Format: c.Format, Sub: "nest:" + c.Name,
			Detail: fmt.Sprintf("super-polynomial work: %s@%d (%d bytes) %d allocations+statements, %s@%d (%d bytes) %d: growth exponent %.1f in the input size (limit %.0f; linear decoding ≈ 1); ladder %s",
				c.Name, wa.K, wa.N, wa.Work, c.Name, wb.K, wb.N, wb.Work, worst, growthLimit, ladderText(pts)), Case: top})
	}
}

func ladderText(pts []growthPoint) string {
	out := ""
	for i, p := range pts {
		if i > 0 {
			out += " "
		}
		out += fmt.Sprintf("%d:%dB/%d", p.K, p.N, p.Work)
	}
	return out
}

// runGrowth: every generator family x text offsets on/off (the other options at random), once per run.
func (e *engine) runGrowth() {
	r := e.rng
	e.farm(e.nw, func(emit func(job)) {
		for _, f := range allFormats {
			for _, g := range nestGens[f] {
				for _, off := range []bool{false, true} {
					o := e.randOpts(r, f)
					o.Offsets = off
					emit(job{Kind: jobGrowth, C: Case{Format: f, Opts: o, Sched: wholeSched, Family: "growth", Name: g.Name}, Ladder: growthLadder(g)})
				}
			}
		}
	})
}
