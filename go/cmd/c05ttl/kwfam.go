package main

// kwFamDocs: the systematic keyword-ladder family (builder-ttlmiss, round 3e).
//
// Why seed C02r3-2 (Turtle PREFIX ladder pushes back 3 of 4 runes after p-r-e + non-'f') was found by this harness
// only by luck of the hand-written list: kwLabels happened to contain "pre" and "prez", the only two labels of 71
// that leave the PREFIX ladder at its 4th rung; nothing left it at the 5th/6th rung with a non-letter, nothing left
// the BASE ladder at 'bas'+digit, and so on.  The family is now derived from the scanners' keyword list
// (vh.KeywordLabels): every rung of every ladder x every kind of rune that can follow x the spellings the ladder
// accepts, and it is used where the ladders run: as the FIRST token of a statement / block —
//
//	after an @prefix / PREFIX / @base / BASE directive (with and without white space in between), after a comment,
//	after the '.' of a triple (with / without white space), inside a TriG graph block (first and later statement,
//	with and without GRAPH), as the label of a graph block (bare and after GRAPH, first and later block), and as
//	the subject of top-level triples after a graph block.
//
// Every document is generated from its denotation, so there are four oracles: Turtle decoder = TriG decoder (C07),
// each = the expected statements (C08 denotation; the label and all its one-edit siblings are bound to DIFFERENT
// namespaces, so a lost or doubled rune is a wrong IRI, not only an unknown prefix), and each = Model/TurtleDoc
// (T3, through g.dec).  The family labels are used in subject / graph-label position only (`o:` everywhere else),
// so none of the known classes (pname-bool-prefix: OBJECT position; graph-keyword-ogham-space: U+1680) can apply:
// every failure here is reported as a violation.

import (
	"fmt"
	"strings"

	"verifharness/vh"

	"github.com/dpb587/rdfkit-go/rdf"
)

type kwBody struct {
	name string
	trig bool        // TriG-only syntax
	text string      // {K} = the family prefixed name
	exp  [][4]string // expected statements: tokens K, o:<local>, a, - (default graph)
}

var kwBodies = []kwBody{
	{"ttl:first-statement", false, "{K} o:p o:o .", [][4]string{{"K", "o:p", "o:o", "-"}}},
	{"ttl:after-dot-ws", false, "o:s o:p o:o .\n{K} a o:C ; o:p o:o .", [][4]string{{"o:s", "o:p", "o:o", "-"}, {"K", "a", "o:C", "-"}, {"K", "o:p", "o:o", "-"}}},
	{"ttl:after-dot-nows", false, "o:s o:p o:o .{K} o:p o:o .{K} o:q o:o .", [][4]string{{"o:s", "o:p", "o:o", "-"}, {"K", "o:p", "o:o", "-"}, {"K", "o:q", "o:o", "-"}}},
	{"ttl:after-comment", false, "o:s o:p o:o . # {K} c\n{K}\to:p\to:o\t.", [][4]string{{"o:s", "o:p", "o:o", "-"}, {"K", "o:p", "o:o", "-"}}},
	{"trig:block-first", true, "{ {K} o:p o:o }", [][4]string{{"K", "o:p", "o:o", "-"}}},
	{"trig:block-nows-later", true, "{{K} o:p o:o .{K} o:q o:o . o:s o:p o:o.\n{K} o:r o:o}", [][4]string{{"K", "o:p", "o:o", "-"}, {"K", "o:q", "o:o", "-"}, {"o:s", "o:p", "o:o", "-"}, {"K", "o:r", "o:o", "-"}}},
	{"trig:GRAPH-block-first", true, "GRAPH o:g { {K} o:p o:o }", [][4]string{{"K", "o:p", "o:o", "o:g"}}},
	{"trig:named-block-nows", true, "o:g {{K} o:p o:o}", [][4]string{{"K", "o:p", "o:o", "o:g"}}},
	{"trig:graph-label-bare", true, "{K} { o:s o:p o:o }", [][4]string{{"o:s", "o:p", "o:o", "K"}}},
	{"trig:graph-label-bare-nows", true, "{K}{o:s o:p o:o}", [][4]string{{"o:s", "o:p", "o:o", "K"}}},
	{"trig:graph-label-GRAPH", true, "gRaPh {K} { o:s o:p o:o . }", [][4]string{{"o:s", "o:p", "o:o", "K"}}},
	{"trig:graph-label-later-block", true, "o:g { o:s o:p o:o } {K} { o:s o:q o:o }", [][4]string{{"o:s", "o:p", "o:o", "o:g"}, {"o:s", "o:q", "o:o", "K"}}},
	{"trig:triples-after-block", true, "{ o:s o:p o:o }{K} o:p o:o .", [][4]string{{"o:s", "o:p", "o:o", "-"}, {"K", "o:p", "o:o", "-"}}},
	{"trig:graph-label-after-dot", true, "o:s o:p o:o .{K} { o:s o:q o:o }", [][4]string{{"o:s", "o:p", "o:o", "-"}, {"o:s", "o:q", "o:o", "K"}}},
}

// what directly precedes the body: the last directive of the header
var kwTails = []struct{ name, text string }{
	{"@prefix-nl", "@prefix z9: <http://k.example/z9/> .\n"},
	{"@prefix-nows", "@prefix z9: <http://k.example/z9/> ."},
	{"PREFIX-nl", "PREFIX z9: <http://k.example/z9/>\n"},
	{"PREFIX-nows", "prefix z9:<http://k.example/z9/>"},
	{"@base-sp", "@base <http://k.example/b/> . "},
	{"BASE-nl", "BASE <http://k.example/b/>\n"},
	{"BASE-nows", "base<http://k.example/b/>"},
	{"comment", "# PREFIX base graph a true false\n"},
}

var kwLocals = []string{"s", "", "fix", "e", "ase", "raph", "x1", "rue"}

const kwRDFType = "http://www.w3.org/1999/02/22-rdf-syntax-ns#type"

func (g *gen) kwFamDocs(thorough bool) {
	fam := vh.KeywordLabels()
	docs := 0
	iriW := func(s string) string { return vh.TermWire(rdf.IRI(s), nil) }
	for li, l := range fam {
		sibs := vh.KwSiblings(l.Label)
		for si, withSib := range []bool{false, true} {
			var hdr strings.Builder
			decl := func(lab string) {
				if (li+len(lab))%2 == 0 {
					fmt.Fprintf(&hdr, "@prefix %s: <%s> .\n", lab, vh.KwNamespace(lab))
				} else {
					fmt.Fprintf(&hdr, "%s %s: <%s>\n", caseMix(g.r, "PREFIX"), lab, vh.KwNamespace(lab))
				}
			}
			decl("o")
			if withSib {
				for _, s := range sibs {
					if s != "o" && s != "z9" {
						decl(s)
					}
				}
			}
			decl(l.Label)
			for bi, b := range kwBodies {
				ntails := 1
				if thorough {
					ntails = len(kwTails)
				} else if !b.trig {
					ntails = 2
				}
				for k := 0; k < ntails; k++ {
					tail := kwTails[(li+bi+si+k*3)%len(kwTails)]
					loc := kwLocals[(li+bi+k)%len(kwLocals)]
					K := l.Label + ":" + loc
					doc := []byte(hdr.String() + tail.text + strings.ReplaceAll(b.text, "{K}", K))
					tok := func(t string) string {
						switch {
						case t == "K":
							return iriW(vh.KwNamespace(l.Label) + loc)
						case t == "a":
							return iriW(kwRDFType)
						case t == "-":
							return "-"
						}
						return iriW(vh.KwNamespace("o") + strings.TrimPrefix(t, "o:"))
					}
					var want, wantTtl []string
					for _, e := range b.exp {
						want = append(want, tok(e[0])+","+tok(e[1])+","+tok(e[2])+","+tok(e[3]))
						wantTtl = append(wantTtl, tok(e[0])+","+tok(e[1])+","+tok(e[2])+",-")
					}
					docs++
					g.rep.Count("kwfam:pos:" + b.name)
					g.rep.Count("kwfam:after:" + tail.name)
					check := func(pkg string, res result, want []string) {
						if res.verdict != "clean" || strings.Join(res.stmts, ";") != strings.Join(want, ";") {
							g.violation("C08", fmt.Sprintf("ttld.dec %s eof - %s", pkg, vh.X(doc)),
								fmt.Sprintf("keyword-ladder family (label %q: keyword %s, rung %d, next %s; position %s after %s; siblings bound: %v): the %s decoder does not yield the statements the document denotes: got %s, want %s|clean -- document %q",
									l.Label, l.Keyword, l.StemLen, l.Next, b.name, tail.name, withSib, pkg, res.wire, strings.Join(want, ";"), doc))
						}
					}
					if b.trig {
						q := g.dec("kwfam-trig", "trig", false, "", doc, true)
						check("trig", q, want)
						// the Turtle decoder must not accept TriG-only syntax silently differently: T3 only
						g.dec("kwfam-trig-as-turtle", "turtle", false, "", doc, true)
					} else {
						t := g.dec("kwfam-ttl", "turtle", false, "", doc, true)
						q := g.dec("kwfam-ttl", "trig", false, "", doc, true)
						g.rep.Count("c07:turtle-vs-trig")
						if t.wire != q.wire {
							g.violation("C07", "turtle vs trig on "+vh.X(doc), fmt.Sprintf("keyword-ladder family (label %q, position %s after %s): Turtle decoder %s, TriG decoder %s -- document %q", l.Label, b.name, tail.name, t.wire, q.wire, doc))
						}
						check("turtle", t, wantTtl)
						check("trig", q, wantTtl)
					}
				}
			}
		}
		g.rep.Count(fmt.Sprintf("kwfam:%s:rung%d:next-%s", l.Keyword, l.StemLen, l.Next))
	}
	g.rep.Hist["kwfam:docs"] += docs
	tails := "2 (Turtle bodies) / 1 (TriG bodies) rotating"
	if thorough {
		tails = fmt.Sprintf("all %d", len(kwTails))
	}
	g.rep.Exhaustive = append(g.rep.Exhaustive, fmt.Sprintf("keyword-ladder family: all %d prefix labels derived from the scanners' keywords (prefix/base/graph in 4 spellings, a/true/false: every proper prefix, the keyword, keyword+1 rune, each x next rune {':', continuing letter, other letter, digit, '-', '.'}) x {alone, all one-edit siblings bound to other namespaces} x %d statement-start positions (after '.', comment, in graph blocks, as graph label, after blocks) x preceding directive kinds (%s of @prefix/PREFIX/@base/BASE with and without white space, comment): %d documents, each checked Turtle = TriG = denotation = model", len(fam), len(kwBodies), tails, docs))
}

var kwFamily = vh.KeywordLabels()

// pickKwLabel: a keyword-like label for the grammar-directed generator: the hand-written list of earlier rounds or
// (half of the time) the derived family.
func pickKwLabel(r *vh.Rng) string {
	if r.Bool() {
		return vh.Pick(r, kwFamily).Label
	}
	return vh.Pick(r, kwLabels)
}
