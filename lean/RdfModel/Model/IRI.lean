/-
  RdfModel.Model.IRI — executable model of /repo/iri/parsed_iri.go, over bytes (`List Nat`).

  Modelled (hand translation, function by function):
    * `resolvePath`      the function duplicated from net/url (`strings.Cut` loop, `strings.Builder`,
                         `first` flag, trailing-slash and double-slash fix-ups)        — proved about, T3
    * `reclassify`       the block of `ParseIRI` that moves `Path` into `Opaque`       — T3 (`iri.reclass`)
    * `forceFragment`    `strings.HasSuffix(s, "#")`                                   — T3 (`iri.reclass`)
    * `stringFix`        `ParsedIRI.String()` after `u.String()`: raw path / raw fragment substitution
                         (`strings.Replace(…, 1)`) and the forced empty fragment       — T3 (`iri.string`)
  Outside the model (parameters supplied by the real net/url on the Go side of T3): `url.Parse`,
  `URL.String`, `URL.EscapedPath`, `URL.EscapedFragment`, `URL.setPath`, and the body of
  `ResolveReference` that shuffles `url.URL` fields around them. Their composition is tied to
  `Spec.RFC3986` by the end-to-end ops `iri.parse` / `iri.resolve` only.

  Core-only; does not import the spec.
-/
namespace RdfModel.IRI

abbrev Str := List Nat

/-- `strings.Cut(s, "/")`: `(before, some after)` when found, `(s, none)` otherwise. -/
def cutSlash : Str → Str × Option Str
  | [] => ([], none)
  | c :: rest =>
    if c = 0x2f then ([], some rest)
    else let r := cutSlash rest; (c :: r.1, r.2)

/-- `strings.LastIndexByte(s, '/')` / `strings.LastIndex(s, "/")`; `none` is `-1`. -/
def lastIndexSlash : Str → Option Nat
  | [] => none
  | c :: rest =>
    match lastIndexSlash rest with
    | some i => some (i + 1)
    | none => if c = 0x2f then some 0 else none

/-- `base[:strings.LastIndex(base, "/")+1]` -/
def uptoLastSlash (base : Str) : Str :=
  match lastIndexSlash base with
  | some i => base.take (i + 1)
  | none => []

/-- first assignment of `resolvePath`: the string whose dot segments are then processed -/
def fullPath (base ref : Str) : Str :=
  if ref = [] then base
  else if ref.head? ≠ some 0x2f then uptoLastSlash base ++ ref
  else ref

/-- One pass of the `for found { … }` loop body; returns the new `dst` and `first`. -/
def rpBody (elem dst : Str) (first : Bool) : Str × Bool :=
  if elem = [0x2e] then (dst, false)                       -- "." : first = false; continue
  else if elem = [0x2e, 0x2e] then
    let str := dst.drop 1                                   -- dst.String()[1:]
    match lastIndexSlash str with
    | none => ([0x2f], true)                                -- Reset; WriteByte('/'); first = true
    | some i => (0x2f :: str.take i, first)                 -- Reset; WriteByte('/'); WriteString(str[:index])
  else ((if first then dst else dst ++ [0x2f]) ++ elem, false)

/-- The loop: `elem, remaining, found = strings.Cut(remaining, "/")` until not found.
    Returns the final `dst` and the last `elem`. `fuel = |remaining| + 1` always suffices. -/
def rpLoop : Nat → Str → Str → Bool → Str × Str
  | 0, _, dst, _ => (dst, [])
  | fuel + 1, remaining, dst, first =>
    let c := cutSlash remaining
    let b := rpBody c.1 dst first
    match c.2 with
    | some rest => rpLoop fuel rest b.1 b.2
    | none => (b.1, c.1)

/-- the two fix-ups after the loop -/
def rpFinish (r : Str × Str) : Str :=
  let dst := if r.2 = [0x2e] ∨ r.2 = [0x2e, 0x2e] then r.1 ++ [0x2f] else r.1
  match dst with
  | _ :: 0x2f :: _ => dst.drop 1                          -- len(r) > 1 && r[1] == '/'
  | _ => dst

/-- `resolvePath(base, ref string) string` -/
def resolvePath (base ref : Str) : Str :=
  let full := fullPath base ref
  if full = [] then []
  else rpFinish (rpLoop (full.length + 1) full [0x2f] true)

/-! ### `ParseIRI` around `url.Parse` -/

/-- the fields of `url.URL` that `ParseIRI` reads or writes -/
structure URL where
  scheme : Str
  opaq : Str
  host : Str
  path : Str
  rawPath : Str
deriving DecidableEq, Repr

def sHttp : Str := [0x68, 0x74, 0x74, 0x70]
def sHttps : Str := [0x68, 0x74, 0x74, 0x70, 0x73]
def sFile : Str := [0x66, 0x69, 0x6c, 0x65]

/-- `ParseIRI` after a successful `url.Parse`: returns the rewritten URL and `isOpaque`. -/
def reclassify (u : URL) : URL × Bool :=
  if u.scheme ≠ [] ∧ u.scheme ≠ sHttp ∧ u.scheme ≠ sHttps ∧ u.scheme ≠ sFile ∧ u.host = [] ∧ u.opaq = [] then
    if u.path ≠ [] then
      ({ u with opaq := (if u.path.head? = some 0x2f then u.path.drop 1 else u.path), path := [], rawPath := [] }, true)
    else ({ u with opaq := [] }, true)
  else (u, false)

/-- `strings.HasSuffix(s, "#")` -/
def forceFragment (s : Str) : Bool := s.getLast? = some 0x23

/-! ### `ParsedIRI.String()` -/

/-- `strings.Replace(s, old, new, 1)` (for `old = ""` Go inserts `new` at the front) -/
def replaceFirst (s old new : Str) : Str :=
  if old.isPrefixOf s then new ++ s.drop old.length
  else match s with
    | [] => []
    | c :: rest => c :: replaceFirst rest old new

def containsHash (s : Str) : Bool := s.contains 0x23

/-- `String()` given `s = u.String()`, `u.EscapedPath()`, `u.RawPath`, `u.EscapedFragment()`,
    `u.RawFragment` and the `forceFragment` flag. -/
def stringFix (s escapedPath rawPath escapedFragment rawFragment : Str) (force : Bool) : Str :=
  let s := if rawPath ≠ [] then replaceFirst s escapedPath rawPath else s
  if rawFragment ≠ [] then replaceFirst s (0x23 :: escapedFragment) (0x23 :: rawFragment)
  else if force ∧ !containsHash s then s ++ [0x23]
  else s

end RdfModel.IRI
