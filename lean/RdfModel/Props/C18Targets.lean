/-
  Property C18, the Turtle and RDF/JSON targets and the option plumbing of `rdfkit pipe`
  (theorems only; helper lemmas in RdfModel/Proofs/C18Cfg.lean). Builder-c18b.

  All theorems are about `Model/Pipe.lean` (`ttlOptions`, `nqAscii`, `encoderBase`, `pipeTtl`, `pipeRJ`,
  `pipeNQp`), which the driver runs (`Driver/Pipe.lean`, ops `ttl`, `rj`, `nqp`, `encbase`, `ttlopt`) against the
  real rdfio encoder managers, and which is built on the encoder / decoder models of C02 (`Model/TurtleEncoder`,
  `Model/TurtleDoc`) and C01RJ (`Model/RdfJson`).

  PROVED
    * `cli_param_facts`            the parameter layer as modelled agrees with what was evaluated on the real
                                   `Params` objects at extract time (T1: defaults after `ApplyDefaults`,
                                   `strconv.ParseBool` on a word list, implied values of `KEY` alone);
    * `cli_flag_facts`             which `--out*` flag fills which field of the writer / encoder options (T2, go/ast);
    * `ttl_options_shape`          whatever `--out-param`s are given, the Turtle encoder configuration never has a
                                   directive mode or `bufferedSort` set; `buffered` is unset or true; the base is unset or
                                   the encoder base — so the C02 theorems apply with NO decoder defaults: the output
                                   is a self-contained document;
    * `ttl_options_default`        the default configuration (no parameters): base = encoder base, prefixes = RDFa
                                   context, buffered, plain-triple mode;
    * `encoder_base_*`             `--out-base` wins, else the IRI of the output resource (never the input's base);
    * `pipe_preserves_ttl_plain`   Turtle target, `resources=false`, EVERY parameter list: composition of the label
                                   stage (C14) with `C02.plain_doc_iso`; hypotheses listed at the theorem;
    * `pipe_preserves_rdfjson`     RDF/JSON target: composition with `C01RJ.rdfjson_roundtrip`, lifted from a
                                   permutation of relabelled triples to a graph isomorphism (`IsoRJ`);
    * `pipe_rdfjson_params`        any `--out-param` makes the RDF/JSON target fail at open;
    * `pipe_preserves_nq_params`   N-Quads / N-Triples with parameters: `ascii` as parsed, then `pipe_nq_preserves` /
                                   `pipe_nt_preserves`.
    * `ttl_resources_writer`       the `BufferedTriplesEncoder` path on labelled triples, for ANY injective well-formed
                                   labelling and any two iteration orders: round trip at every nesting depth
                                   (`C02.buffered_resources_roundtrip` + equivariance of build / export / write under
                                   an injective renaming, Proofs/C18ResEquiv.lean);
    * `pipe_ttl_assign_link`       the executable pipe (`pipeTtlWith`, provider asked in statement order) is
                                   `pipeTtlAssign` at the assignment the provider realises;
    * `pipe_preserves_ttl_assign`  Turtle target, BOTH modes, for ANY admissible label assignment — independent of
                                   the order in which fresh UUID texts are drawn (Go: at `Close` in writing order);
    * `pipe_preserves_ttl_resources_holds`   the full statement `pipe_preserves_ttl_resources` (`resources=true`,
                                   every nesting depth, collections, anonymous roots, every iteration order) for
                                   the executable model.
  SUPERSEDED (kept): `pipe_preserves_ttl_resources_partial` (depth 0 under a flatness hypothesis).
-/
import RdfModel.Props.C18
import RdfModel.Props.C02Doc
import RdfModel.Props.C02DocNest
import RdfModel.Proofs.C18ResEquiv
import RdfModel.Props.C01RJ
import RdfModel.Proofs.C18Cfg
import RdfModel.Gen.PipeCfgFacts
namespace RdfModel.C18
open RdfModel RdfModel.Pipe RdfModel.BN
open scoped List

/-! ## The parameter layer against the extracted facts (T1) -/

/-- `ExportKeyValues()` of the model's parameter sets -/
def showBool (b : Bool) : List Nat := if b then asc "true" else asc "false"

def TtlParams.export (p : TtlParams) : List (List Nat × List Nat) :=
  (match p.buffered with | some b => [(asc "buffered", showBool b)] | none => []) ++
  (match p.irisUseBase with | some b => [(asc "iris.useBase", showBool b)] | none => []) ++
  p.irisUsePrefixes.map (fun v => (asc "iris.usePrefix", v)) ++
  (match p.resources with | some b => [(asc "resources", showBool b)] | none => [])

def NQParams.export (p : NQParams) : List (List Nat × List Nat) :=
  match p.ascii with | some b => [(asc "ascii", showBool b)] | none => []

/-- what `KEY` alone imports, rendered as the extractor renders it -/
def impliedOf {P : Type} (imp : P → List Nat → Option P) (empty : P) (exp : P → List (List Nat × List Nat))
    (key : List Nat) : List Nat :=
  match imp empty key with
  | some p => (match exp p with | [(_, v)] => v | _ => asc "?")
  | none => asc "err"

open Gen.PipeCfgFacts in
/-- The parameter layer of the model agrees with the real `Params` objects, as evaluated at extract time:
    defaults of the four target encoders after `ApplyDefaults()`; `strconv.ParseBool` on the extracted word list;
    what `KEY` alone means for every parameter of every target (true for the booleans, an error for
    `iris.usePrefix`). -/
theorem cli_param_facts :
    encoderDefaults =
      [ (asc "org.w3.n-quads", NQParams.export {}),
        (asc "org.w3.n-triples", NQParams.export {}),
        (asc "org.w3.rdf-json", []),
        (asc "org.w3.turtle", TtlParams.export (TtlParams.applyDefaults {})) ] ∧
    boolWords.all (fun e => parseBool e.1 == e.2) = true ∧
    impliedValues =
      [ (asc "org.w3.n-quads", asc "ascii", impliedOf NQParams.import1 {} NQParams.export (asc "ascii")),
        (asc "org.w3.n-triples", asc "ascii", impliedOf NQParams.import1 {} NQParams.export (asc "ascii")),
        (asc "org.w3.turtle", asc "buffered", impliedOf TtlParams.import1 {} TtlParams.export (asc "buffered")),
        (asc "org.w3.turtle", asc "iris.useBase", impliedOf TtlParams.import1 {} TtlParams.export (asc "iris.useBase")),
        (asc "org.w3.turtle", asc "iris.usePrefix", impliedOf TtlParams.import1 {} TtlParams.export (asc "iris.usePrefix")),
        (asc "org.w3.turtle", asc "resources", impliedOf TtlParams.import1 {} TtlParams.export (asc "resources")) ] := by
  decide

open Gen.PipeCfgFacts in
/-- The flag layer, read from the source of cmd/rdfkit with go/ast on every run (T2), is the one `OutFlags` /
    `encoderBase` / the `raw` parameter of `pipeTtl` … model: `rdfkit pipe` registers the output flags under the stem
    `out` (`-o`); `--out` is the resource name handed to the writer (→ `fileName`, `fileIRI`), `--out-type` the
    `Type`, `--out-base` the `BaseIRI` and `--out-param` the `Params` of `rdfiotypes.EncoderOptions`; the encoder's
    `DecoderPipe` is the handle of the INPUT (`bfIn`), whose blank-node factory `pipeProvider` propagates; the
    fallback type is N-Quads. -/
theorem cli_flag_facts :
    pipeOutBind = ("out", "o") ∧
    outFlagBindings = [("base", "ResourceName"), ("base + \"-base\"", "EncodingBaseIRI"), ("base + \"-param\"", "EncodingParams"),
      ("base + \"-param-io\"", "ResourceParams"), ("base + \"-type\"", "EncodingName")] ∧
    writerOptionFields = [("Name", "f.ResourceName"), ("Params", "f.ResourceParams"), ("Tee", "opts.WriterTee")] ∧
    encoderOptionFields = [("Type", "f.EncodingName"), ("BaseIRI", "rdf.IRI(f.EncodingBaseIRI)"), ("Params", "f.EncodingParams"),
      ("Patcher", "opts.EncoderPatcher"), ("DecoderPipe", "opts.EncoderDecoderPipe")] ∧
    pipeOpenFields = [("EncoderDecoderPipe", "bfIn"), ("EncoderFallbackType", "nquadscontent.TypeIdentifier")] := by
  decide

/-- Whatever the parameters: no directive mode, no `bufferedSort`; `buffered` unset or true; base unset or the
    encoder base. -/
theorem ttl_options_shape (rdfa : List Prefix.Mapping) (raw : List (List Nat)) (base : List Nat)
    (cfg : TtlEnc.Config) (res : Bool) (h : ttlOptions rdfa raw base = some (cfg, res)) :
    cfg.baseMode = none ∧ cfg.prefixMode = none ∧ cfg.bufferedSort = none ∧
    (cfg.buffered = none ∨ cfg.buffered = some true) ∧ (cfg.base = none ∨ cfg.base = some base) :=
  Proofs.C18.ttlOptions_shape rdfa raw base cfg res h

/-- … hence the decoder needs no default base and no default prefixes to read the output back. -/
theorem ttl_options_no_defaults (rdfa : List Prefix.Mapping) (raw : List (List Nat)) (base : List Nat)
    (cfg : TtlEnc.Config) (res : Bool) (h : ttlOptions rdfa raw base = some (cfg, res)) (pm : Prefix.PM) :
    C02.defaultBase cfg = none ∧ C02.defaultPrefixes cfg pm = [] := by
  obtain ⟨h1, h2, _⟩ := ttl_options_shape rdfa raw base cfg res h
  simp [C02.defaultBase, C02.defaultPrefixes, h1, h2]

/-- No parameters: base = the encoder base, the RDFa context, buffered (hence sorted sections and only the used
    prefixes in the header), plain-triple mode. -/
theorem ttl_options_default (rdfa : List Prefix.Mapping) (base : List Nat) :
    ttlOptions rdfa [] base = some ({ base := some base, prefixes := rdfa, buffered := some true }, false) := by
  simp [ttlOptions, importAll, TtlParams.applyDefaults, ttlPrefixes]

/-- every field of the result, for `decide` (`TtlEnc.Config` has no `DecidableEq`) -/
structure OptView where
  base : Option (List Nat)
  prefixes : List Prefix.Mapping
  buffered : Option Bool
  bufferedSort : Option Bool
  baseMode : Option TtlEnc.DirMode
  prefixMode : Option TtlEnc.DirMode
  resources : Bool
  deriving DecidableEq, Repr

def optView (r : Option (TtlEnc.Config × Bool)) : Option OptView :=
  r.map (fun x => ⟨x.1.base, x.1.prefixes, x.1.buffered, x.1.bufferedSort, x.1.baseMode, x.1.prefixMode, x.2⟩)

/-- A few parameter lists and what they do (decided on the model; the same lists run against the real manager
    in the harness): a later `buffered` overrides an earlier one; `none` resets the prefix list; a prefix without
    `:` and an unknown key are errors; `resources` alone means true. -/
example :
    optView (ttlOptions [] [asc "buffered=false", asc "buffered=T", asc "iris.usePrefix=none", asc "iris.usePrefix=ex:http://e/:x",
        asc "resources", asc "iris.useBase=0"] (asc "file:///o")) =
      some ⟨none, [⟨asc "ex", asc "http://e/:x"⟩], some true, none, none, none, true⟩ ∧
    optView (ttlOptions [⟨asc "r", asc "http://r/"⟩] [asc "iris.usePrefix=a:http://a/", asc "iris.usePrefix=rdfa-context", asc "buffered=0"] (asc "b:")) =
      some ⟨some (asc "b:"), [⟨asc "a", asc "http://a/"⟩, ⟨asc "r", asc "http://r/"⟩], none, none, none, none, false⟩ ∧
    optView (ttlOptions [] [asc "iris.usePrefix=nocolon"] []) = none ∧
    optView (ttlOptions [] [asc "ascii"] []) = none ∧
    optView (ttlOptions [] [asc "buffered=yes"] []) = none ∧
    optView (ttlOptions [] [asc "iris.usePrefix"] []) = none ∧
    nqAscii [] = some false ∧ nqAscii [asc "ascii"] = some true ∧ nqAscii [asc "ascii=1", asc "ascii=F"] = some false ∧
    nqAscii [asc "buffered"] = none := by decide

/-- `--out-base` wins … -/
theorem encoder_base_flag (f : OutFlags) (h : f.base ≠ []) : encoderBase f = f.base := by
  simp [encoderBase, h]

/-- … else the base is the IRI of the OUTPUT resource (`file://` + path; `/dev/stdout` for `-` or nothing).
    Nothing of the input (its IRI, `--in-base`, a `@base` of the document) reaches the encoder. -/
theorem encoder_base_resource (f : OutFlags) (h : f.base = []) :
    encoderBase f = fileIRI (asc "/dev/stdout") f.name := by
  simp [encoderBase, h]

example : encoderBase { name := asc "/tmp/x/out.ttl" } = asc "file:///tmp/x/out.ttl" ∧
    encoderBase { name := asc "-" } = asc "file:///dev/stdout" ∧
    encoderBase { name := asc "o.ttl", base := asc "http://e/" } = asc "http://e/" := by decide

/-! ## Turtle target, plain-triple mode -/

open Gen.PipeCfgFacts in
/-- `rdfkit pipe` into **Turtle** with `resources=false` (the default), for EVERY list of `--out-param`s the
    encoder manager accepts (`hopt`; buffered or not, base or not, any prefix list) and every encoder base.
    GIVEN that the source decoder yields the statements `qs` over the blank nodes `β` of the dataset (as in
    `pipe_nq_preserves`), the pipe succeeds and the Turtle decoder — the scanner the driver runs, with NO default
    base and NO default prefixes — accepts the document and yields a graph isomorphic to the triples `ts` of the
    source statements (graph names dropped: D20 / `pipe_triples_restricts_default_graph_partial`).

    Hypotheses, by whom they oblige:
    * on the CONFIGURATION (`hcfg`, `C02.ConfigOK`, decidable for a concrete parameter list and base — see the
      examples below): prefix labels given by `iris.usePrefix` are PN_PREFIX-like and outside the two known-finding
      classes; namespaces consist of IRI characters and are fixed points of the resolver under the base; the
      encoder base (`--out-base` / `file://…`) is absolute, of IRI characters, with sane index bookkeeping, and a
      fixed point of the resolver;
    * on the DATASET (`hwf`, `C02.TripleOK`): IRIs consist of IRI characters and — when written in full next to a
      base — are fixed points of the resolver (excludes the C12 deviation classes, e.g. dot segments); literals
      have scalar lexical forms, a LANGTAG exactly with rdf:langString, no rdf:dirLangString; predicates are IRIs
      (`hts`); source labels are BLANK_NODE_LABELs of scalars (`hscope`; finding `label-not-valid-in-target`
      otherwise) and no UUID text drawn by this process; every node of `β` occurs in a triple (`hocc`);
    * on the ENVIRONMENT: C14's invariant (every reachable state), UUID texts pairwise distinct and well-formed
      labels (`hU`, `hUok`; crypto/rand, `uuid.String()`);
    * tables: none left — `C02.gen_turtle_doc_ok` and `C02.docCfg_ok` are proved for the regenerated tables. -/
theorem pipe_preserves_ttl_plain {β : Type} (S : Prefix.Sorter) (raw : List (List Nat)) (base : List Nat)
    (cfg : TtlEnc.Config) (hopt : ttlOptions rdfaContext raw base = some (cfg, false))
    (hcfg : C02.ConfigOK C02.docCfg.isSpace Gen.turtle cfg (Prefix.new S cfg.prefixes))
    (U : Nat → Bytes) (hU : Function.Injective U)
    (hUok : ∀ k, C02.labelOK Gen.turtle (U k) = true ∧ C02.Scalars (U k))
    (s : State) (hI : C14.Inv s) (j : Nat) (hj : j < s.strfs.length)
    (node : β → Node) (hnode : Function.Injective node) (src : Kind) (qs : List (Quad β))
    (ts : List (Desc.Triple β)) (hts : Proofs.C18.triplesOf qs = some ts)
    (hocc : ∀ b, b ∈ nodesOf (qs.map quadAsTriple))
    (hscope : ∀ b v, node b = some (.bnString j v) →
      (C02.labelOK Gen.turtle v = true ∧ C02.Scalars v) ∧ ∀ k, v ≠ U k)
    (hwf : ∀ t ∈ ts, C02.TripleOK (TtlEnc.ctxOf Gen.turtle cfg (Prefix.new S cfg.prefixes) (fun _ : β => [])) cfg.base t)
    (ord1 ord2 : List (Term Bytes)) :
    ∃ (doc : List Nat) (out : List TtlDoc.Stmt) (tr : List (Desc.Triple TtlDoc.BN)),
      pipeTtl Gen.turtle rdfaContext S raw base ord1 ord2 U s (some (.strf j)) src (qs.map (Quad.map node)) = .ok doc ∧
      TtlDoc.run C02.docCfg .eof none [] doc = (out, .clean) ∧
      out.map C02.tripleOfStmt = tr.map some ∧ Spec.Iso tr ts := by
  obtain ⟨p, s1, σ, hinj, hgood, hprov, hlab, _⟩ :=
    Proofs.C18.pipe_labelled (fun l => C02.labelOK Gen.turtle l = true ∧ C02.Scalars l) U hU hUok s hI j hj node hnode
      (qs.map quadAsTriple) hocc hscope
  have hlbl : C02.LabelOK Gen.turtle σ := ⟨hinj, hgood⟩
  obtain ⟨doc, out, tr, h1, h2, h3, h4⟩ :=
    C02.plain_doc_iso C02.docCfg Gen.turtle C02.gen_turtle_doc_ok C02.docCfg_ok cfg (Prefix.new S cfg.prefixes) σ hcfg hlbl ts
      (fun t ht => Proofs.C18.tripleOK_label Gen.turtle cfg _ _ σ t (hwf t ht))
  obtain ⟨hd1, hd2⟩ := ttl_options_no_defaults rdfaContext raw base cfg false hopt (Prefix.new S cfg.prefixes)
  rw [hd1, hd2] at h2
  refine ⟨doc, out, tr, ?_, h2, h3, h4⟩
  have hts' : toTriples (qs.map quadAsTriple) = some ts := hts
  simp only [pipeTtl, pipeTtlWith, hopt, hprov, Proofs.C18.pipeStatements_map, Proofs.C18.pipeStatements_triples, hlab,
    Proofs.C18.toTriples_map, hts', Option.map_some, Proofs.C18.encodePlainWith_map, h1]
  rfl

/-! ## Turtle target, nested-resource mode (partial) -/

open Gen.PipeCfgFacts in
/-- FULL statement for `resources=true`: as `pipe_preserves_ttl_plain` with `hopt` yielding `true`, for every
    iteration order of the subject map (`ord1`, `ord2` may depend on the labelling). PROVED below:
    `pipe_preserves_ttl_resources_holds` (from `C02.buffered_resources_roundtrip` and the equivariance of
    `ExportResources` + `AddResource` under an injective relabelling, Proofs/C18ResEquiv.lean). The order in which
    fresh labels are drawn is immaterial: `pipe_preserves_ttl_assign`. -/
def pipe_preserves_ttl_resources : Prop :=
  ∀ (β : Type) [DecidableEq β] (S : Prefix.Sorter) (raw : List (List Nat)) (base : List Nat) (cfg : TtlEnc.Config),
    ttlOptions rdfaContext raw base = some (cfg, true) →
    C02.ConfigOK C02.docCfg.isSpace Gen.turtle cfg (Prefix.new S cfg.prefixes) →
    ∀ (U : Nat → Bytes), Function.Injective U → (∀ k, C02.labelOK Gen.turtle (U k) = true ∧ C02.Scalars (U k)) →
    ∀ (s : State), C14.Inv s → ∀ (j : Nat), j < s.strfs.length →
    ∀ (node : β → Node), Function.Injective node → ∀ (src : Kind) (qs : List (Quad β)) (ts : List (Desc.Triple β)),
    Proofs.C18.triplesOf qs = some ts → (∀ b, b ∈ nodesOf (qs.map quadAsTriple)) →
    (∀ b v, node b = some (.bnString j v) → (C02.labelOK Gen.turtle v = true ∧ C02.Scalars v) ∧ ∀ k, v ≠ U k) →
    (∀ t ∈ ts, C02.TripleOK (TtlEnc.ctxOf Gen.turtle cfg (Prefix.new S cfg.prefixes) (fun _ : β => [])) cfg.base t) →
    ∀ (ord1 ord2 : (β → List Nat) → List (Term Bytes)),
    (∀ σ, (ord1 σ).Perm (Desc.build (ts.map (Desc.Triple.map σ))).subjects) →
    (∀ σ, (ord2 σ).Perm (Desc.build (ts.map (Desc.Triple.map σ))).subjects) →
    ∃ (σ : β → List Nat) (doc : List Nat) (out : List TtlDoc.Stmt) (tr : List (Desc.Triple TtlDoc.BN)),
      pipeTtl Gen.turtle rdfaContext S raw base (ord1 σ) (ord2 σ) U s (some (.strf j)) src (qs.map (Quad.map node)) = .ok doc ∧
      TtlDoc.run C02.docCfg .eof none [] doc = (out, .clean) ∧
      out.map C02.tripleOfStmt = tr.map some ∧ Spec.Iso tr ts

open Gen.PipeCfgFacts in
/-- SUPERSEDED by `pipe_preserves_ttl_resources_holds` / `pipe_preserves_ttl_assign` (kept: it was the state of the
    art before `C02.buffered_resources_roundtrip` existed).
    `rdfkit pipe` into **Turtle** with `resources=true` — PARTIAL: exactly what `C02.resources_doc_roundtrip_partial`
    gives (resources of nesting depth 0 with explicit subjects), transported through the option plumbing and the
    label stage. Hypotheses as `pipe_preserves_ttl_plain`, plus
    * `hflat`: for the labelling `σ` the provider produces (any injective `σ` that keeps the source labels), the
      document the `BufferedTriplesEncoder` path writes for the labelled triples — export with the default
      options in the orders `ord1`, `ord2`, `AddResource`, `Close` — IS the document `AddResource … Close` writes for
      the flat resource list `rs` over the source's blank nodes with labeller `σ`;
    * `hrs`, `hperm`: `rs` is well-formed (`FlatOK`) and stands for the triples `ts`.
    MISSING towards `pipe_preserves_ttl_resources`: (a) `hflat` is a hypothesis — it holds when the export inlines
    nothing (no blank node that is referenced exactly once, no list cells) but that, and the equivariance of
    export/`write` under `σ`, is not proved; (b) nested `[ … ]`, `( … )`, anonymous roots: not covered by C02 either;
    (c) the order in which Go draws fresh UUID texts in this mode differs from the model's (see `pipeTtlWith`): the
    statement is about the model's assignment, which differs from Go's by a renaming of the fresh texts. -/
theorem pipe_preserves_ttl_resources_partial {β : Type} [DecidableEq β] (S : Prefix.Sorter) (raw : List (List Nat))
    (base : List Nat) (cfg : TtlEnc.Config) (hopt : ttlOptions rdfaContext raw base = some (cfg, true))
    (hcfg : C02.ConfigOK C02.docCfg.isSpace Gen.turtle cfg (Prefix.new S cfg.prefixes))
    (U : Nat → Bytes) (hU : Function.Injective U)
    (hUok : ∀ k, C02.labelOK Gen.turtle (U k) = true ∧ C02.Scalars (U k))
    (s : State) (hI : C14.Inv s) (j : Nat) (hj : j < s.strfs.length)
    (node : β → Node) (hnode : Function.Injective node) (src : Kind) (qs : List (Quad β))
    (ts : List (Desc.Triple β)) (hts : Proofs.C18.triplesOf qs = some ts)
    (hocc : ∀ b, b ∈ nodesOf (qs.map quadAsTriple))
    (hscope : ∀ b v, node b = some (.bnString j v) →
      (C02.labelOK Gen.turtle v = true ∧ C02.Scalars v) ∧ ∀ k, v ≠ U k)
    (ord1 ord2 : List (Term Bytes)) (rs : List (Proofs.C02Doc.FlatRes β))
    (hflat : ∀ σ : β → List Nat, Function.Injective σ → (∀ b v, node b = some (.bnString j v) → σ b = v) →
      TtlEnc.encodeResourcesWith Gen.turtle false cfg (Prefix.new S cfg.prefixes) id ord1 ord2 (ts.map (Desc.Triple.map σ)) =
        TtlEnc.encodeResourceListWith Gen.turtle false cfg (Prefix.new S cfg.prefixes) σ (rs.map (·.toResource)))
    (hrs : ∀ r ∈ rs, Proofs.C02Doc.FlatOK
      (TtlEnc.ctxOf Gen.turtle cfg (Prefix.new S cfg.prefixes) (fun _ : β => [])) cfg.base r)
    (hperm : (C02.flatTriples rs).Perm ts) :
    ∃ (doc : List Nat) (out : List TtlDoc.Stmt) (tr : List (Desc.Triple TtlDoc.BN)),
      pipeTtl Gen.turtle rdfaContext S raw base ord1 ord2 U s (some (.strf j)) src (qs.map (Quad.map node)) = .ok doc ∧
      TtlDoc.run C02.docCfg .eof none [] doc = (out, .clean) ∧
      out.map C02.tripleOfStmt = tr.map some ∧ Spec.Iso tr ts := by
  obtain ⟨p, s1, σ, hinj, hgood, hprov, hlab, hown⟩ :=
    Proofs.C18.pipe_labelled (fun l => C02.labelOK Gen.turtle l = true ∧ C02.Scalars l) U hU hUok s hI j hj node hnode
      (qs.map quadAsTriple) hocc hscope
  have hlbl : C02.LabelOK Gen.turtle σ := ⟨hinj, hgood⟩
  obtain ⟨doc, out, tr, h1, h2, h3, h4⟩ :=
    C02.resources_doc_roundtrip_partial C02.docCfg Gen.turtle C02.gen_turtle_doc_ok C02.docCfg_ok cfg
      (Prefix.new S cfg.prefixes) σ hcfg hlbl false rs
      (fun r hr => Proofs.C18.flatOK_label Gen.turtle cfg _ _ σ r (hrs r hr))
  obtain ⟨hd1, hd2⟩ := ttl_options_no_defaults rdfaContext raw base cfg true hopt (Prefix.new S cfg.prefixes)
  rw [hd1, hd2] at h2
  obtain ⟨ρ, hρ, hp⟩ := h4
  refine ⟨doc, out, tr, ?_, h2, h3, ρ, hρ, hp.trans (hperm.map _)⟩
  have hts' : toTriples (qs.map quadAsTriple) = some ts := hts
  simp only [pipeTtl, pipeTtlWith, hopt, hprov, Proofs.C18.pipeStatements_map, Proofs.C18.pipeStatements_triples, hlab,
    Proofs.C18.toTriples_map, hts', Option.map_some, hflat σ hinj hown, h1]
  rfl

/-! ## Turtle target, nested-resource mode: FULL (via `C02.buffered_resources_roundtrip`) -/

/-- The writer stage alone, for ANY labelling: whatever injective labelling `σ` with well-formed labels the
    provider realises (in whatever order it drew the fresh texts), the document the `BufferedTriplesEncoder` path
    writes for the labelled triples — for any iteration orders `ord1`, `ord2` of the subject map — is accepted by
    the decoder (no defaults needed when `cfg` has no directive mode) and decodes to a graph isomorphic to the
    source triples. Composition of `C02.buffered_resources_roundtrip` (all nesting depths, collections, anonymous
    roots; itself composed with C17's `flatten_export_repaired`) with the equivariance of build / export /
    `AddResource` under an injective renaming (`Proofs.C18Res.encodeResourcesWith_map`). -/
theorem ttl_resources_writer {β : Type} [DecidableEq β] (cfg : TtlEnc.Config) (pm : Prefix.PM)
    (hcfg : C02.ConfigOK C02.docCfg.isSpace Gen.turtle cfg pm) (σ : β → List Nat) (hσ : C02.LabelOK Gen.turtle σ)
    (ts : List (Desc.Triple β))
    (hwf : ∀ t ∈ ts, C02.TripleOK (TtlEnc.ctxOf Gen.turtle cfg pm (fun _ : β => [])) cfg.base t)
    (ord1 ord2 : List (Term Bytes))
    (h1 : ord1.Perm (Desc.build (ts.map (Desc.Triple.map σ))).subjects)
    (h2 : ord2.Perm (Desc.build (ts.map (Desc.Triple.map σ))).subjects) :
    ∃ (doc : List Nat) (out : List TtlDoc.Stmt) (tr : List (Desc.Triple TtlDoc.BN)),
      TtlEnc.encodeResourcesWith Gen.turtle false cfg pm id ord1 ord2 (ts.map (Desc.Triple.map σ)) = some (.ok doc) ∧
      TtlDoc.run C02.docCfg .eof (C02.defaultBase cfg) (C02.defaultPrefixes cfg pm) doc = (out, .clean) ∧
      out.map C02.tripleOfStmt = tr.map some ∧ Spec.Iso tr ts := by
  have hsub : (Desc.build (ts.map (Desc.Triple.map σ))).subjects = (Desc.build ts).subjects.map (Term.map σ) := by
    rw [Proofs.C18Res.build_map hσ.inj, Proofs.C18Res.subjects_map]
  rw [hsub] at h1 h2
  obtain ⟨o1, ho1, rfl⟩ := Proofs.C18Res.perm_map_inv _ _ _ h1
  obtain ⟨o2, ho2, rfl⟩ := Proofs.C18Res.perm_map_inv _ _ _ h2
  rw [Proofs.C18Res.encodeResourcesWith_map Gen.turtle cfg pm id σ hσ.inj false o1 o2 ts]
  exact C02.buffered_resources_roundtrip C02.docCfg Gen.turtle C02.gen_turtle_doc_ok C08.gen_turtle_ok2
    Proofs.C02Doc.gen_turtle_print_ok C02.docCfg_nest_ok cfg pm σ hcfg hσ o1 o2 ts
    (fun t ht => Proofs.C18.tripleOK_label Gen.turtle cfg _ _ σ t (hwf t ht)) ho1 ho2

/-- `pipeTtlWith` (the executable model the driver runs, provider asked in statement order) IS `pipeTtlAssign` at the
    assignment the provider realises — for any provider run whose answers are a function of the node. -/
theorem pipe_ttl_assign_link (T : Ttl.Tables) (rdfa : List Prefix.Mapping) (mk : List Prefix.Mapping → Prefix.PM)
    (raw : List (List Nat)) (base : List Nat) (ord1 ord2 : List (Term Bytes)) (U : Nat → Bytes) (s s1 : State)
    (h : Option FactoryRef) (p : ProvRef) (src : Kind) (decoded : List (Quad Node)) (assign : Node → Bytes)
    (hprov : pipeProvider U s h = (s1, some p))
    (hlab : (labelQuads U p s1 (pipeStatements src .triples decoded)).2 =
      some ((pipeStatements src .triples decoded).map (Quad.map assign))) :
    pipeTtlWith T rdfa mk raw base ord1 ord2 U s h src decoded =
      pipeTtlAssign T rdfa mk raw base ord1 ord2 assign src decoded := by
  unfold pipeTtlWith pipeTtlAssign
  cases ttlOptions rdfa raw base with
  | none => rfl
  | some x => obtain ⟨cfg, res⟩ := x; simp only [hprov, hlab]

open Gen.PipeCfgFacts in
/-- `rdfkit pipe` into **Turtle**, BOTH modes (`resources` true or false), for ANY admissible label assignment —
    hence independent of the order in which the provider is asked (Go: at `Close`, in writing order, never for an
    inlined node; model: statement order): if the labels the run uses are given by an `assign : Node → Bytes` whose
    restriction `assign ∘ node` to the dataset's blank nodes is injective with well-formed labels, the document
    round-trips to a graph isomorphic to the source triples, for every accepted parameter list, encoder base and
    every pair of iteration orders of the subject map. Hypotheses otherwise as `pipe_preserves_ttl_plain`. -/
theorem pipe_preserves_ttl_assign {β : Type} [DecidableEq β] (S : Prefix.Sorter) (raw : List (List Nat))
    (base : List Nat) (cfg : TtlEnc.Config) (res : Bool) (hopt : ttlOptions rdfaContext raw base = some (cfg, res))
    (hcfg : C02.ConfigOK C02.docCfg.isSpace Gen.turtle cfg (Prefix.new S cfg.prefixes))
    (node : β → Node) (assign : Node → Bytes) (hσ : C02.LabelOK Gen.turtle (assign ∘ node))
    (src : Kind) (qs : List (Quad β)) (ts : List (Desc.Triple β)) (hts : Proofs.C18.triplesOf qs = some ts)
    (hwf : ∀ t ∈ ts, C02.TripleOK (TtlEnc.ctxOf Gen.turtle cfg (Prefix.new S cfg.prefixes) (fun _ : β => [])) cfg.base t)
    (ord1 ord2 : List (Term Bytes))
    (h1 : res = true → ord1.Perm (Desc.build (ts.map (Desc.Triple.map (assign ∘ node)))).subjects)
    (h2 : res = true → ord2.Perm (Desc.build (ts.map (Desc.Triple.map (assign ∘ node)))).subjects) :
    ∃ (doc : List Nat) (out : List TtlDoc.Stmt) (tr : List (Desc.Triple TtlDoc.BN)),
      pipeTtlAssign Gen.turtle rdfaContext (Prefix.new S) raw base ord1 ord2 assign src (qs.map (Quad.map node)) = .ok doc ∧
      TtlDoc.run C02.docCfg .eof none [] doc = (out, .clean) ∧
      out.map C02.tripleOfStmt = tr.map some ∧ Spec.Iso tr ts := by
  obtain ⟨hd1, hd2⟩ := ttl_options_no_defaults rdfaContext raw base cfg res hopt (Prefix.new S cfg.prefixes)
  have hts' : toTriples (qs.map quadAsTriple) = some ts := hts
  have hmap : ((qs.map quadAsTriple).map (Quad.map node)).map (Quad.map assign) =
      (qs.map quadAsTriple).map (Quad.map (assign ∘ node)) := by
    simp only [List.map_map]
    apply List.map_congr_left
    intro q _
    obtain ⟨a, b, c, d⟩ := q
    cases a <;> cases b <;> cases c <;> cases d <;> simp [Quad.map, Term.map, quadAsTriple]
  cases res with
  | true =>
    obtain ⟨doc, out, tr, e1, e2, e3, e4⟩ := ttl_resources_writer cfg (Prefix.new S cfg.prefixes) hcfg (assign ∘ node) hσ ts hwf
      ord1 ord2 (h1 rfl) (h2 rfl)
    rw [hd1, hd2] at e2
    refine ⟨doc, out, tr, ?_, e2, e3, e4⟩
    simp only [pipeTtlAssign, hopt, Proofs.C18.pipeStatements_map, Proofs.C18.pipeStatements_triples, hmap,
      Proofs.C18.toTriples_map, hts', Option.map_some, e1]
    rfl
  | false =>
    obtain ⟨doc, out, tr, e1, e2, e3, e4⟩ :=
      C02.plain_doc_iso C02.docCfg Gen.turtle C02.gen_turtle_doc_ok C02.docCfg_ok cfg (Prefix.new S cfg.prefixes)
        (assign ∘ node) hcfg hσ ts (fun t ht => Proofs.C18.tripleOK_label Gen.turtle cfg _ _ _ t (hwf t ht))
    rw [hd1, hd2] at e2
    refine ⟨doc, out, tr, ?_, e2, e3, e4⟩
    simp only [pipeTtlAssign, hopt, Proofs.C18.pipeStatements_map, Proofs.C18.pipeStatements_triples, hmap,
      Proofs.C18.toTriples_map, hts', Option.map_some, Proofs.C18.encodePlainWith_map, e1]
    rfl

/-- The full statement for `resources=true` HOLDS for the executable model `pipeTtl` (labels drawn in statement
    order): no flatness hypothesis, every nesting depth, every iteration order of the subject map. -/
theorem pipe_preserves_ttl_resources_holds : pipe_preserves_ttl_resources := by
  intro β _ S raw base cfg hopt hcfg U hU hUok s hI j hj node hnode src qs ts hts hocc hscope hwf ord1 ord2 ho1 ho2
  obtain ⟨p, s1, σ, hinj, hgood, hprov, hlab, _⟩ :=
    Proofs.C18.pipe_labelled (fun l => C02.labelOK Gen.turtle l = true ∧ C02.Scalars l) U hU hUok s hI j hj node hnode
      (qs.map quadAsTriple) hocc hscope
  have hσ : C02.LabelOK Gen.turtle σ := ⟨hinj, hgood⟩
  obtain ⟨doc, out, tr, e1, e2, e3, e4⟩ := ttl_resources_writer cfg (Prefix.new S cfg.prefixes) hcfg σ hσ ts hwf
    (ord1 σ) (ord2 σ) (ho1 σ) (ho2 σ)
  obtain ⟨hd1, hd2⟩ := ttl_options_no_defaults Gen.PipeCfgFacts.rdfaContext raw base cfg true hopt (Prefix.new S cfg.prefixes)
  rw [hd1, hd2] at e2
  refine ⟨σ, doc, out, tr, ?_, e2, e3, e4⟩
  have hts' : toTriples (qs.map quadAsTriple) = some ts := hts
  simp only [pipeTtl, pipeTtlWith, hopt, hprov, Proofs.C18.pipeStatements_map, Proofs.C18.pipeStatements_triples, hlab,
    Proofs.C18.toTriples_map, hts', Option.map_some, e1]
  rfl

/-! ## RDF/JSON target -/

/-- graph isomorphism for the triples of `Model/RdfJson.lean`: `out` is, as a multiset, the image of `inp` under an
    injective renaming of blank nodes -/
def IsoRJ {β : Type} (out : List (RJ.Triple RJ.BNode)) (inp : List (RJ.Triple β)) : Prop :=
  ∃ ρ : β → RJ.BNode, Function.Injective ρ ∧ out ~ inp.map (RJ.Triple.map ρ)

/-- `rdfkit pipe` into **RDF/JSON** (the target takes no parameters). GIVEN the statements `qs` the source decoder
    yields, the pipe succeeds; the token stream of the document `Close` marshals is read back by the RDF/JSON
    decoder (any version `v` of decoder.go) cleanly, and the triples it yields are the source triples (graph names
    dropped) up to an injective renaming of blank nodes — a graph isomorphism, multiplicities included
    (`C01RJ.rdfjson_roundtrip` gives a permutation of the relabelled list; the lift is that the relabelling
    `b ↦ _:σ b` is injective because the provider's `σ` is).
    Hypotheses on the DATASET (`hwf`, `C01RJ.WFTriple`): subject IRIs do not start with `_:`, predicates are IRIs,
    literals have a non-empty datatype other than rdf:dirLangString and a non-empty tag exactly with rdf:langString
    (IRIs, lexical forms and labels are otherwise ARBITRARY code-point strings); source labels are non-empty and no
    UUID text of this process (`hscope`; the string factory never makes an empty label); every node occurs.
    ENVIRONMENT: C14's invariant; UUID texts pairwise distinct and non-empty.
    Outside the model: the JSON text layer (`encoding/json` marshalling, the `inspectjson` tokenizer) — tied by T3
    on the real tokenizer's tokens (go/cmd/c18 `rj`, go/cmd/c01rj). -/
theorem pipe_preserves_rdfjson {β : Type} (v : RJ.Variant) (U : Nat → Bytes) (hU : Function.Injective U)
    (hUne : ∀ k, U k ≠ []) (s : State) (hI : C14.Inv s) (j : Nat) (hj : j < s.strfs.length)
    (node : β → Node) (hnode : Function.Injective node) (src : Kind) (qs : List (Quad β))
    (hocc : ∀ b, b ∈ nodesOf (qs.map quadAsTriple))
    (hscope : ∀ b l, node b = some (.bnString j l) → l ≠ [] ∧ ∀ k, l ≠ U k)
    (hwf : ∀ q ∈ qs, C01RJ.WFTriple (toRJ q)) :
    ∃ (toks : List RJ.Tok) (out : List (RJ.Triple RJ.BNode)),
      pipeRJ [] U s (some (.strf j)) src (qs.map (Quad.map node)) = .ok toks ∧
      RJ.parseRoot v toks .eof = .done out .clean ∧
      IsoRJ out (qs.map toRJ) := by
  obtain ⟨p, s1, σ, hinj, hgood, hprov, hlab, _⟩ :=
    Proofs.C18.pipe_labelled (fun l => l ≠ []) U hU hUne s hI j hj node hnode (qs.map quadAsTriple) hocc hscope
  have hwf' : ∀ t ∈ qs.map toRJ, C01RJ.WFTriple t := by
    intro t ht
    obtain ⟨q, hq, rfl⟩ := List.mem_map.mp ht
    exact hwf q hq
  obtain ⟨out, hdec, hperm⟩ := C01RJ.rdfjson_roundtrip v σ hgood (qs.map toRJ) hwf'
  have hacc : ∀ st, ∀ t ∈ qs.map toRJ, (RJ.addTriple σ st t).isSome := by
    intro st t ht
    obtain ⟨hs, hp, _⟩ := hwf' t ht
    obtain ⟨s', p', o'⟩ := t
    cases s' <;> cases p' <;> simp_all [RJ.addTriple, C01RJ.WFSubject, C01RJ.WFPredicate]
  have hlist : ((qs.map quadAsTriple).map (Quad.map σ)).map toRJ = (qs.map toRJ).map (RJ.Triple.map σ) := by
    simp only [List.map_map]
    apply List.map_congr_left
    intro q _
    rfl
  refine ⟨_, out, ?_, hdec, fun b => RJ.BNode.named (σ b), ?_, hperm⟩
  · simp only [pipeRJ, rjParamsOK, List.isEmpty_nil, Bool.not_true, Bool.false_eq_true, if_false, hprov,
      Proofs.C18.pipeStatements_map, Proofs.C18.pipeStatements_triples, hlab, hlist,
      Proofs.C18.rjAddAll_eq σ (qs.map toRJ) hacc []]
    rfl
  · intro a b hab
    exact hinj (by injection hab)

/-- The RDF/JSON encoder manager has no parameters: any `--out-param` makes the command fail at open. -/
theorem pipe_rdfjson_params (raw : List (List Nat)) (h : raw ≠ []) (U : Nat → Bytes) (s : State)
    (hh : Option FactoryRef) (src : Kind) (decoded : List (Quad Node)) :
    pipeRJ raw U s hh src decoded = .openErr := by
  cases raw with
  | nil => exact absurd rfl h
  | cons a l => simp [pipeRJ, rjParamsOK]

/-! ## N-Quads / N-Triples with parameters -/

/-- With `--out-param`s the N-Quads / N-Triples pipe is `pipeNQ` at the `ascii` value the parameters denote
    (`pipe_nq_preserves` / `pipe_nt_preserves` hold for both values); a refused parameter fails at open. -/
theorem pipe_preserves_nq_params (T : NQ.Tables) (quads : Bool) (raw : List (List Nat)) (U : Nat → Bytes) (s : State)
    (h : Option FactoryRef) (src : Kind) (decoded : List (Quad Node)) :
    (∀ ascii, nqAscii raw = some ascii →
      pipeNQp T quads raw U s h src decoded = some (pipeNQ T ascii quads U s h src decoded)) ∧
    (nqAscii raw = none → pipeNQp T quads raw U s h src decoded = none) := by
  constructor
  · intro ascii ha; simp [pipeNQp, ha]
  · intro ha; simp [pipeNQp, ha]

end RdfModel.C18
