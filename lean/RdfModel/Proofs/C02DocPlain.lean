/-
  Proofs.C02DocPlain — the Turtle statement machine on one `AddTriple` section, on the header
  directives, and on a whole plain document (property C02, `plain_doc_roundtrip`).
-/
import RdfModel.Proofs.C02DocSteps
namespace RdfModel.Proofs.C02Doc
open RdfModel RdfModel.Ttl RdfModel.TtlEnc RdfModel.C02 RdfModel.TtlDoc RdfModel.Desc

variable {C : Cfg} {T : Tables} {e : NQ.End}

/-- what the encoder writes after a term: a space or a line feed -/
def Follow (rest : List Nat) : Prop := ∃ r, rest = 0x20 :: r ∨ rest = 0x0a :: r

theorem follow_sp (r : List Nat) : Follow (0x20 :: r) := ⟨r, Or.inl rfl⟩
theorem follow_nl (r : List Nat) : Follow (0x0a :: r) := ⟨r, Or.inr rfl⟩

theorem follow_local (hT : TablesOK T) {rest : List Nat} (h : Follow rest) : LocalStop T e rest := by
  obtain ⟨r, rfl | rfl⟩ := h
  · exact localStop_sp hT r
  · exact localStop_nl hT r

theorem follow_label (hT : TablesOK T) {rest : List Nat} (h : Follow rest) : LabelStop T e rest := by
  obtain ⟨r, rfl | rfl⟩ := h
  · exact labelStop_sp hT r
  · exact labelStop_nl hT r

theorem follow_lang {rest : List Nat} (h : Follow rest) : LangStop e rest := by
  obtain ⟨r, rfl | rfl⟩ := h <;> simp only [LangStop] <;> decide

theorem follow_num {rest : List Nat} (h : Follow rest) : NumStop e rest := by
  obtain ⟨r, rfl | rfl⟩ := h <;> simp only [NumStop] <;> left <;> decide

theorem follow_head {rest : List Nat} (h : Follow rest) :
    ∃ c r, rest = c :: r ∧ c ≠ 0x40 ∧ c ≠ 0x5e ∧ c ≠ 0x22 := by
  obtain ⟨r, rfl | rfl⟩ := h
  · exact ⟨0x20, r, rfl, by decide, by decide, by decide⟩
  · exact ⟨0x0a, r, rfl, by decide, by decide, by decide⟩

variable {β : Type} {c : Ctx β} {base : Option (List Nat)} {D : List Nat → Prop}

/-- reading back what `writeIRI` wrote, in the three positions: the dispatch each scan function makes
    on the first rune picks the right producer -/
theorem written_cases (S : Setup C T c base) (env : Env) (henv : EnvOK env base c.pm D) (v : List Nat)
    (hv : iriTermOK c base v) (hD : ∀ l ∈ usedOfIRI c.pm v, D l) (w : Written) (hw : writeIRIForm c v = .ok w)
    (rest : List Nat) (hf : Follow rest) :
    (∃ p loc out, w = .pname p loc out ∧ labelSafe C.isSpace T p = true ∧
        iriPName C e env (p ++ 0x3a :: (out ++ rest)) = .ok v rest) ∨
    (∃ r, (w = .rel r ∨ w = .full r) ∧
        iriIRIREF C e env (0x3c :: (formatIRI T false r ++ 0x3e :: rest)) = .ok v rest) := by
  have hd := decode_writeIRI S.hT S.hC c S.cT base S.cb S.baseOK S.labels env D henv v hv hD w hw e rest
    (follow_local S.hT.tok hf)
  cases w with
  | pname p loc out =>
    left
    refine ⟨p, loc, out, rfl, ?_, hd⟩
    -- the label is one of the manager's
    unfold writeIRIForm at hw
    cases hcl : compactLocal c.T c.pm v with
    | none =>
      rw [hcl] at hw
      simp only at hw
      split at hw
      · cases hw
      · split at hw <;> cases hw
    | some y =>
      obtain ⟨p', loc', out'⟩ := y
      rw [hcl] at hw
      simp only [TtlEnc.Res.ok.injEq, Written.pname.injEq] at hw
      obtain ⟨rfl, rfl, rfl⟩ := hw
      unfold compactLocal at hcl
      cases hcp : Prefix.compact c.pm v with
      | none => rw [hcp] at hcl; cases hcl
      | some pr =>
        rw [hcp] at hcl
        simp only [Option.map_eq_some_iff, Prod.mk.injEq] at hcl
        obtain ⟨_, _, h1, _, _⟩ := hcl
        obtain ⟨m, hm, hmp, _⟩ := compactIn_spec v c.pm.ordered pr hcp
        rw [← h1, ← hmp]
        exact S.labels m hm
  | rel r => right; exact ⟨r, Or.inl rfl, hd⟩
  | full r => right; exact ⟨r, Or.inr rfl, hd⟩

theorem text_rel (r rest : List Nat) :
    (Written.rel r).text T ++ rest = 0x3c :: (formatIRI T false r ++ 0x3e :: rest) := by
  simp [Written.text]
theorem text_full (r rest : List Nat) :
    (Written.full r).text T ++ rest = 0x3c :: (formatIRI T false r ++ 0x3e :: rest) := by
  simp [Written.text]
theorem text_pname (p loc out rest : List Nat) :
    (Written.pname p loc out).text T ++ rest = p ++ 0x3a :: (out ++ rest) := by
  simp [Written.text]

/-! ### the three positions -/

theorem run_subject_term (S : Setup C T c base) (env : Env) (henv : EnvOK env base c.pm D) (s : Term β)
    (hs : subjectOK c base s) (hD : ∀ l ∈ usedOfSubject c.pm s, D l) (St : List Nat) (hS : writeSubject c s = .ok St)
    (x : Ectx) (K : List Frame) (k : Nat) (rest : List Nat) (hf : Follow rest) :
    Run C e (mk (⟨x, .statement⟩ :: K) (List.replicate k 0x0a ++ (St ++ rest)) env) []
      (mk (subjFrames x (dterm c.label s) K) rest env) := by
  cases s with
  | lit lex dt lang => cases hS
  | bnode b =>
    simp only [writeSubject, TtlEnc.Res.ok.injEq] at hS
    subst hS
    have hl := S.lbl.ok b
    have := run_subject_bnode (e := e) S.hT S.hC x K k env (c.label b) rest hl.2 hl.1 (follow_label S.hT.tok hf)
    simpa [dterm, Term.map] using this
  | iri v =>
    simp only [writeSubject] at hS
    obtain ⟨w, hw, rfl⟩ := writeIRI_ok hS
    rw [S.cT]
    rcases written_cases (e := e) S env henv v hs hD w hw rest hf with ⟨p, loc, out, rfl, hp, h⟩ | ⟨r, hr, h⟩
    · rw [text_pname]
      exact run_subject_pname S.hT S.hC x K k env p out v rest hp h
    · rcases hr with rfl | rfl
      · rw [text_rel]; exact run_subject_iriref S.hC x K k env _ v rest h
      · rw [text_full]; exact run_subject_iriref S.hC x K k env _ v rest h

theorem run_pred_term (S : Setup C T c base) (env : Env) (henv : EnvOK env base c.pm D) (p : List Nat)
    (hp : iriTermOK c base p) (hD : ∀ l ∈ usedOfPredicate c.pm p, D l) (Pt : List Nat)
    (hP : writePredicate c p = .ok Pt) (x : Ectx) (K : List Frame) (rest : List Nat) :
    ∃ ws, Lead ws ∧ Run C e (mk (⟨x, .polRequired⟩ :: K) (0x20 :: (Pt ++ 0x20 :: rest)) env) []
      (mk (predFrames x (.iri p) K) (ws ++ rest) env) := by
  unfold writePredicate at hP
  split at hP
  · next hty =>
    injection hP with hP
    subst hP hty
    exact ⟨[], lead_nil, by simpa [TtlEnc.rdfType, TtlDoc.rdfType, TtlEnc.rdfNS, TtlDoc.rdfNS] using run_pred_a S.hC x K env rest⟩
  · next hty =>
    obtain ⟨w, hw, rfl⟩ := writeIRI_ok hP
    rw [S.cT]
    refine ⟨[0x20], lead_sp, ?_⟩
    have hD' : ∀ l ∈ usedOfIRI c.pm p, D l := by simpa [usedOfPredicate, hty] using hD
    rcases written_cases (e := e) S env henv p hp hD' w hw (0x20 :: rest) (follow_sp rest) with ⟨q, loc, out, rfl, hq, h⟩ | ⟨r, hr, h⟩
    · rw [text_pname]
      exact run_pred_pname S.hT S.hC x K env q out p _ hq h
    · rcases hr with rfl | rfl
      · rw [text_rel]; exact run_pred_iriref S.hC x K env _ p _ h
      · rw [text_full]; exact run_pred_iriref S.hC x K env _ p _ h

theorem run_object_term (S : Setup C T c base) (env : Env) (henv : EnvOK env base c.pm D) (o : Term β)
    (ho : objectOK c base o) (hD : ∀ l ∈ usedOfObject c.pm o, D l) (Ot : List Nat) (hO : writeObject c o = .ok Ot)
    (x : Ectx) (K : List Frame) (ws : List Nat) (hws : Lead ws) (rest : List Nat) (hf : Follow rest) :
    Run C e (mk (⟨x, .object⟩ :: K) (ws ++ (Ot ++ rest)) env) [mkStmt x (dterm c.label o)] (mk K rest env) := by
  cases o with
  | bnode b =>
    simp only [writeObject, TtlEnc.Res.ok.injEq] at hO
    subst hO
    have hl := S.lbl.ok b
    have := run_obj_bnode (e := e) S.hT S.hC x K env ws (c.label b) rest hws hl.2 hl.1 (follow_label S.hT.tok hf)
    simpa [dterm, Term.map] using this
  | iri v =>
    simp only [writeObject] at hO
    obtain ⟨w, hw, rfl⟩ := writeIRI_ok hO
    rw [S.cT]
    rcases written_cases (e := e) S env henv v ho hD w hw rest hf with ⟨p, loc, out, rfl, hp, h⟩ | ⟨r, hr, h⟩
    · rw [text_pname]
      exact run_obj_pname S.hT S.hC x K env ws p out v rest hws hp h
    · rcases hr with rfl | rfl
      · rw [text_rel]; exact run_obj_iriref S.hC x K env ws _ v rest hws h
      · rw [text_full]; exact run_obj_iriref S.hC x K env ws _ v rest hws h
  | lit lex dt lang =>
    obtain ⟨hlex, hl⟩ := ho
    simp only [writeObject] at hO
    split at hO
    · next hsh =>
      -- bare token
      injection hO with hO
      subst hO
      have hnone : lang = none := by
        cases lang with
        | none => rfl
        | some t =>
          simp only at hl
          have hdt := C02.shorthand_datatypes dt lex hsh
          rw [hl.1] at hdt
          exfalso
          revert hdt; decide
      subst hnone
      by_cases hb : dt = xsdBoolean
      · subst hb
        exact run_obj_bool S.hC x K env ws lex rest hws hsh
      · exact run_obj_numeric S.hC x K env ws lex dt rest hws hsh hb (follow_num hf)
    · split at hO
      · next hdt =>
        -- rdf:langString
        injection hO with hO
        subst hO hdt
        cases lang with
        | none => simp only at hl; exact absurd rfl hl.1
        | some t =>
          simp only at hl
          rw [S.cT, List.append_assoc, List.cons_append]
          exact run_obj_lang S.hT S.hC x K env ws lex t rest hws hlex hl.2 (follow_lang hf)
      · next hnl =>
        cases lang with
        | some t => simp only at hl; exact absurd hl.1 hnl
        | none =>
          simp only at hl
          split at hO
          · next hstr =>
            injection hO with hO
            subst hO hstr
            obtain ⟨f, r, rfl, h1, h2, h3⟩ := follow_head hf
            rw [S.cT]
            exact run_obj_string S.hT S.hC x K env ws lex f r hws hlex h1 h2 h3
          · -- explicit datatype
            unfold Res.map Res.bind at hO
            cases hwd : writeIRI c dt with
            | err => rw [hwd] at hO; cases hO
            | panic => rw [hwd] at hO; cases hO
            | ok d =>
              rw [hwd] at hO
              injection hO with hO
              subst hO
              obtain ⟨w, hw, rfl⟩ := writeIRI_ok hwd
              rw [S.cT]
              have hgoal : ∀ dtText, dtText = w.text T →
                  (∃ c2 r2, dtText ++ rest = c2 :: r2 ∧
                    (if c2 = 0x3c then iriIRIREF C e env (c2 :: r2) else iriPName C e env (c2 :: r2)) = .ok dt rest) →
                  Run C e (mk (⟨x, .object⟩ :: K)
                    (ws ++ ((formatLiteralLexicalForm T false lex ++ 0x5e :: 0x5e :: dtText) ++ rest)) env)
                    [mkStmt x (dterm c.label (.lit lex dt none))] (mk K rest env) := by
                intro dtText _ h
                rw [List.append_assoc, List.cons_append, List.cons_append]
                exact run_obj_typed S.hT S.hC x K env ws lex dtText dt rest hws hlex ⟨hl.1, hl.2.1⟩ h
              apply hgoal _ rfl
              have hD' : ∀ l ∈ usedOfIRI c.pm dt, D l := by
                simpa [usedOfObject, hnl, *] using hD
              rcases written_cases (e := e) S env henv dt hl.2.2 hD' w hw rest hf with ⟨p, loc, out, rfl, hp, h⟩ | ⟨r, hr, h⟩
              · rw [text_pname]
                obtain ⟨c0, r0, h0, _, hc0, _⟩ := pname_head S.hT S.hC hp (out ++ rest)
                refine ⟨c0, r0, h0, ?_⟩
                have n3c : c0 ≠ 0x3c := by
                  rcases hc0 with rfl | hb
                  · decide
                  · exact base_ne S.hT hb 0x3c (by decide) (by decide)
                rw [if_neg n3c, ← h0]
                exact h
              · refine ⟨0x3c, formatIRI T false r ++ 0x3e :: rest, ?_, by simpa using h⟩
                rcases hr with rfl | rfl
                · rw [text_rel]
                · rw [text_full]


/-! ### one `AddTriple` section -/

theorem tripleSection_parts {t : Triple β} {sec : List Nat} (h : tripleSection c t = .ok sec) :
    ∃ St Pt Ot, writeSubject c t.s = .ok St ∧ writePredicate c t.p = .ok Pt ∧ writeObject c t.o = .ok Ot ∧
      sec = St ++ 0x20 :: (Pt ++ 0x20 :: (Ot ++ [0x20, 0x2e, 0x0a])) := by
  unfold tripleSection Res.bind at h
  cases h1 : writeSubject c t.s with
  | err => rw [h1] at h; cases h
  | panic => rw [h1] at h; cases h
  | ok St =>
    rw [h1] at h
    simp only at h
    cases h2 : writePredicate c t.p with
    | err => rw [h2] at h; cases h
    | panic => rw [h2] at h; cases h
    | ok Pt =>
      rw [h2] at h
      simp only at h
      cases h3 : writeObject c t.o with
      | err => rw [h3] at h; cases h
      | panic => rw [h3] at h; cases h
      | ok Ot =>
        rw [h3] at h
        simp only [TtlEnc.Res.ok.injEq] at h
        exact ⟨St, Pt, Ot, rfl, rfl, rfl, h.symm⟩

/-- The machine on `S P O .\n`: exactly the input triple comes out, and the machine is back at
    statement level with the same environment. -/
theorem run_triple (S : Setup C T c base) (env : Env) (henv : EnvOK env base c.pm D) (t : Triple β)
    (ht : TripleOK c base t) (hD : ∀ l ∈ usedOfTriple c.pm t, D l) (sec : List Nat)
    (hsec : tripleSection c t = .ok sec) (K : List Frame) (k : Nat) (rest : List Nat) :
    Run C e (mk (⟨{}, .statement⟩ :: K) (List.replicate k 0x0a ++ (sec ++ rest)) env) [stmtOf c.label t]
      (mk (⟨{}, .statement⟩ :: K) (0x0a :: rest) env) := by
  obtain ⟨St, Pt, Ot, h1, h2, h3, rfl⟩ := tripleSection_parts hsec
  have hshape : (St ++ 0x20 :: (Pt ++ 0x20 :: (Ot ++ [0x20, 0x2e, 0x0a]))) ++ rest =
      St ++ (0x20 :: (Pt ++ 0x20 :: (Ot ++ 0x20 :: 0x2e :: 0x0a :: rest))) := by simp
  rw [hshape]
  have hD1 : ∀ l ∈ usedOfSubject c.pm t.s, D l := fun l hl => hD l (by simp [usedOfTriple, hl])
  have hD2 : ∀ l ∈ usedOfPredicate c.pm t.p, D l := fun l hl => hD l (by simp [usedOfTriple, hl])
  have hD3 : ∀ l ∈ usedOfObject c.pm t.o, D l := fun l hl => hD l (by simp [usedOfTriple, hl])
  have r1 := run_subject_term (e := e) S env henv t.s ht.s hD1 St h1 {} K k
    (0x20 :: (Pt ++ 0x20 :: (Ot ++ 0x20 :: 0x2e :: 0x0a :: rest))) (follow_sp _)
  obtain ⟨ws, hws, r2⟩ := run_pred_term (e := e) S env henv t.p ht.p hD2 Pt h2
    { subj := some (dterm c.label t.s) }
    (⟨{ subj := some (dterm c.label t.s) }, .polContinue⟩ :: ⟨{}, .triplesEnd⟩ :: ⟨{}, .statement⟩ :: K)
    (Ot ++ 0x20 :: 0x2e :: 0x0a :: rest)
  have r3 := run_object_term (e := e) S env henv t.o ht.o hD3 Ot h3
    { subj := some (dterm c.label t.s), pred := some (.iri t.p) }
    (⟨{ subj := some (dterm c.label t.s), pred := some (.iri t.p) }, .objListContinue⟩ ::
      ⟨{ subj := some (dterm c.label t.s) }, .polContinue⟩ :: ⟨{}, .triplesEnd⟩ :: ⟨{}, .statement⟩ :: K)
    ws hws (0x20 :: 0x2e :: 0x0a :: rest) (follow_sp _)
  have r4 := run_statement_end (e := e) S.hC
    { subj := some (dterm c.label t.s), pred := some (.iri t.p) } { subj := some (dterm c.label t.s) } {}
    (⟨{}, .statement⟩ :: K) (0x0a :: rest) env
  have := ((r1.trans r2).trans r3).trans r4
  simpa [stmtOf, mkStmt, dterm] using this


/-- all the sections of a plain document, then the end of the input -/
theorem run_triples (S : Setup C T c base) (env : Env) (henv : EnvOK env base c.pm D) :
    ∀ (ts : List (Triple β)) (secs : List (List Nat)), (∀ t ∈ ts, TripleOK c base t) →
      (∀ t ∈ ts, ∀ l ∈ usedOfTriple c.pm t, D l) →
      mapRes (tripleSection c) ts = .ok secs → ∀ (K : List Frame) (k : Nat),
      Run C .eof (mk (⟨{}, .statement⟩ :: K) (List.replicate k 0x0a ++ secs.flatten) env)
        (ts.map (stmtOf c.label)) (mk [] [] env)
  | [], secs, _, _, h, K, k => by
    simp only [mapRes, TtlEnc.Res.ok.injEq] at h
    subst h
    simpa using run_eof (C := C) {} K k env
  | t :: ts, secs, hok, hD, h, K, k => by
    unfold mapRes Res.bind at h
    cases h1 : tripleSection c t with
    | err => rw [h1] at h; cases h
    | panic => rw [h1] at h; cases h
    | ok sec =>
      rw [h1] at h
      simp only at h
      cases h2 : mapRes (tripleSection c) ts with
      | err => rw [h2] at h; cases h
      | panic => rw [h2] at h; cases h
      | ok secs' =>
        rw [h2] at h
        simp only [TtlEnc.Res.ok.injEq] at h
        subst h
        have r1 := run_triple (e := .eof) S env henv t (hok t List.mem_cons_self) (hD t List.mem_cons_self) sec h1 K k
          secs'.flatten
        have r2 := run_triples S env henv ts secs' (fun t' ht' => hok t' (List.mem_cons_of_mem _ ht'))
          (fun t' ht' => hD t' (List.mem_cons_of_mem _ ht')) h2 K 1
        have := r1.trans r2
        simpa using this

/-! ### directives -/

theorem scanIRIREF_raw (e : NQ.End) : ∀ (s rest acc : List Nat), (∀ c ∈ s, Spec.TtlPrint.iriRawOK c = true) →
    scanIRIREF T e .body (s ++ 0x3e :: rest) acc = .ok (goString (acc.reverse ++ s)) rest
  | [], rest, acc, _ => by simp [scanIRIREF]
  | c :: s, rest, acc, h => by
    have hc := h c List.mem_cons_self
    simp only [Spec.TtlPrint.iriRawOK, Bool.not_eq_true', Bool.or_eq_false_iff, decide_eq_false_iff_not] at hc
    have h1 : c ≠ 0x3e := by omega
    have h2 : c ≠ 0x5c := by omega
    have h3 : iriForbidden c = false := by
      simp only [iriForbidden, Bool.or_eq_false_iff, decide_eq_false_iff_not]; omega
    rw [List.cons_append]
    unfold scanIRIREF
    rw [if_neg h1, if_neg h2]
    simp only [h3, Bool.false_eq_true, ↓reduceIte]
    rw [scanIRIREF_raw e s rest (c :: acc) (fun x hx => h x (List.mem_cons_of_mem _ hx))]
    simp

/-- an IRI written verbatim between `<` and `>` (directives) is read back as it is -/
theorem iriref_raw (hC : CfgOK C T) (v rest : List Nat) (hv : iriOK v = true) :
    C.P.iriref e (0x3c :: (v ++ 0x3e :: rest)) = .ok v rest := by
  rw [hC.prod]
  simp only [Producers.real, produceIRIREF, ↓reduceIte]
  rw [scanIRIREF_raw e v rest [] (rawOK_of_iriOK hv)]
  simp [goString_id_of_scalar (scalars_of_iriOK hv)]

theorem pnameNS_tok (hC : CfgOK C T) (p rest : List Nat) (hp : prefixOK T p = true) (hps : Scalars p) :
    C.P.pnameNS e (p ++ 0x3a :: rest) = .ok p rest := by
  rw [hC.prod]
  exact Proofs.C02Tok.pnameNs_ok T e p rest hp hps

/-- a label followed by ':' starts with a visible rune -/
theorem label_colon_head (hT : DocTablesOK T) (hC : CfgOK C T) {p : List Nat} (hp : labelSafe C.isSpace T p = true)
    (more : List Nat) : ∃ c0 r0, p ++ 0x3a :: more = c0 :: r0 ∧ Vis C c0 := by
  obtain ⟨c0, r0, h0, hv, _, _⟩ := pname_head hT hC hp more
  exact ⟨c0, r0, h0, hv⟩

/-- `@prefix p: <ns> .` -/
theorem run_at_prefix (hT : DocTablesOK T) (hC : CfgOK C T) (x : Ectx) (K : List Frame) (k : Nat) (env : Env)
    (p ns rest : List Nat) (hp : labelSafe C.isSpace T p = true) (hns : iriOK ns = true)
    (hres : C.resolve env.base ns = some ns) :
    Run C e (mk (⟨x, .statement⟩ :: K)
        (List.replicate k 0x0a ++ (prefixDirective .at ⟨p, ns⟩ ++ rest)) env) []
      (mk (⟨x, .statement⟩ :: ⟨x, .statement⟩ :: K) (0x0a :: rest) (env.addPrefix p ns)) := by
  obtain ⟨hpo, hps, _, _, _⟩ := labelSafe_parts hp
  have htext : prefixDirective .at ⟨p, ns⟩ ++ rest =
      0x40 :: 0x70 :: 0x72 :: 0x65 :: 0x66 :: 0x69 :: 0x78 :: 0x20 :: (p ++ 0x3a :: 0x20 :: 0x3c :: (ns ++ 0x3e :: 0x20 :: 0x2e :: 0x0a :: rest)) := by
    have a1 : asc "@prefix " = [0x40, 0x70, 0x72, 0x65, 0x66, 0x69, 0x78, 0x20] := by decide
    have a2 : asc ": <" = [0x3a, 0x20, 0x3c] := by decide
    have a3 : asc "> .\n" = [0x3e, 0x20, 0x2e, 0x0a] := by decide
    simp [prefixDirective, a1, a2, a3]
  rw [htext]
  have hat : Vis C 0x40 := vis_ascii hC (by decide) (by decide) (by decide)
  have hlt : Vis C 0x3c := vis_ascii hC (by decide) (by decide) (by decide)
  have hdot : Vis C 0x2e := vis_ascii hC (by decide) (by decide) (by decide)
  obtain ⟨c0, r0, h0, hv0⟩ := label_colon_head hT hC hp (0x20 :: 0x3c :: (ns ++ 0x3e :: 0x20 :: 0x2e :: 0x0a :: rest))
  have s1 : scanFn C e ⟨x, .statement⟩ (List.replicate k 0x0a ++
      0x40 :: 0x70 :: 0x72 :: 0x65 :: 0x66 :: 0x69 :: 0x78 :: 0x20 :: (p ++ 0x3a :: 0x20 :: 0x3c :: (ns ++ 0x3e :: 0x20 :: 0x2e :: 0x0a :: rest))) env =
      .ok { cur := some ⟨x, .atPrefixNS⟩, push := [⟨x, .statement⟩],
            inp := 0x20 :: (p ++ 0x3a :: 0x20 :: 0x3c :: (ns ++ 0x3e :: 0x20 :: 0x2e :: 0x0a :: rest)), env := env } := by
    rw [scanFn_nls, scanFn_vis hat]
    simp [stepFn, withSelf, stepStatementRune, stepAtDirective, matchKw, kwExact, asc]
  have s2 : scanFn C e ⟨x, .atPrefixNS⟩ (0x20 :: (p ++ 0x3a :: 0x20 :: 0x3c :: (ns ++ 0x3e :: 0x20 :: 0x2e :: 0x0a :: rest))) env =
      .ok { cur := some ⟨x, .atPrefixIRI p⟩, inp := 0x20 :: 0x3c :: (ns ++ 0x3e :: 0x20 :: 0x2e :: 0x0a :: rest), env := env } := by
    rw [scanFn_sp, h0, scanFn_vis hv0]
    simp only [stepFn]
    rw [← h0, pnameNS_tok hC p _ hpo hps]
    simp
  have s3 : scanFn C e ⟨x, .atPrefixIRI p⟩ (0x20 :: 0x3c :: (ns ++ 0x3e :: 0x20 :: 0x2e :: 0x0a :: rest)) env =
      .ok { cur := some ⟨x, .atPrefixDot p ns⟩, inp := 0x20 :: 0x2e :: 0x0a :: rest, env := env } := by
    rw [scanFn_sp, scanFn_vis hlt]
    simp [stepFn, iriref_raw hC ns _ hns, resolveURL, hres]
  have s4 : scanFn C e ⟨x, .atPrefixDot p ns⟩ (0x20 :: 0x2e :: 0x0a :: rest) env =
      .ok { cur := some ⟨x, .statement⟩, inp := 0x0a :: rest, env := env.addPrefix p ns } := by
    rw [scanFn_sp, scanFn_vis hdot]
    simp [stepFn]
  exact (((run_of_scanFn (stk := K) s1).trans (run_of_scanFn (stk := ⟨x, .statement⟩ :: K) s2)).trans
    (run_of_scanFn (stk := ⟨x, .statement⟩ :: K) s3)).trans (run_of_scanFn (stk := ⟨x, .statement⟩ :: K) s4)


/-- `PREFIX p: <ns>` -/
theorem run_sparql_prefix (hT : DocTablesOK T) (hC : CfgOK C T) (x : Ectx) (K : List Frame) (k : Nat) (env : Env)
    (p ns rest : List Nat) (hp : labelSafe C.isSpace T p = true) (hns : iriOK ns = true)
    (hres : C.resolve env.base ns = some ns) :
    Run C e (mk (⟨x, .statement⟩ :: K)
        (List.replicate k 0x0a ++ (prefixDirective .sparql ⟨p, ns⟩ ++ rest)) env) []
      (mk (⟨x, .statement⟩ :: ⟨x, .statement⟩ :: K) (0x0a :: rest) (env.addPrefix p ns)) := by
  obtain ⟨hpo, hps, _, _, _⟩ := labelSafe_parts hp
  have htext : prefixDirective .sparql ⟨p, ns⟩ ++ rest =
      0x50 :: 0x52 :: 0x45 :: 0x46 :: 0x49 :: 0x58 :: 0x20 :: (p ++ 0x3a :: 0x20 :: 0x3c :: (ns ++ 0x3e :: 0x0a :: rest)) := by
    have a1 : asc "PREFIX " = [0x50, 0x52, 0x45, 0x46, 0x49, 0x58, 0x20] := by decide
    have a2 : asc ": <" = [0x3a, 0x20, 0x3c] := by decide
    have a3 : asc ">\n" = [0x3e, 0x0a] := by decide
    simp [prefixDirective, a1, a2, a3]
  rw [htext]
  have hP : Vis C 0x50 := vis_ascii hC (by decide) (by decide) (by decide)
  have hlt : Vis C 0x3c := vis_ascii hC (by decide) (by decide) (by decide)
  obtain ⟨c0, r0, h0, hv0⟩ := label_colon_head hT hC hp (0x20 :: 0x3c :: (ns ++ 0x3e :: 0x0a :: rest))
  have s1 : scanFn C e ⟨x, .statement⟩ (List.replicate k 0x0a ++
      0x50 :: 0x52 :: 0x45 :: 0x46 :: 0x49 :: 0x58 :: 0x20 :: (p ++ 0x3a :: 0x20 :: 0x3c :: (ns ++ 0x3e :: 0x0a :: rest))) env =
      .ok { cur := some ⟨x, .sparqlPrefixNS⟩, push := [⟨x, .statement⟩],
            inp := p ++ 0x3a :: 0x20 :: 0x3c :: (ns ++ 0x3e :: 0x0a :: rest), env := env } := by
    rw [scanFn_nls, scanFn_vis hP]
    simp [stepFn, withSelf, stepStatementRune, stepKwSpace, matchKw, kwCI, asc, hC.sp]
  have s2 : scanFn C e ⟨x, .sparqlPrefixNS⟩ (p ++ 0x3a :: 0x20 :: 0x3c :: (ns ++ 0x3e :: 0x0a :: rest)) env =
      .ok { cur := some ⟨x, .sparqlPrefixIRI p⟩, inp := 0x20 :: 0x3c :: (ns ++ 0x3e :: 0x0a :: rest), env := env } := by
    rw [h0, scanFn_vis hv0]
    simp only [stepFn]
    rw [← h0, pnameNS_tok hC p _ hpo hps]
    simp
  have s3 : scanFn C e ⟨x, .sparqlPrefixIRI p⟩ (0x20 :: 0x3c :: (ns ++ 0x3e :: 0x0a :: rest)) env =
      .ok { cur := some ⟨x, .statement⟩, inp := 0x0a :: rest, env := env.addPrefix p ns } := by
    rw [scanFn_sp, scanFn_vis hlt]
    simp [stepFn, iriref_raw hC ns _ hns, resolveURL, hres]
  exact ((run_of_scanFn (stk := K) s1).trans (run_of_scanFn (stk := ⟨x, .statement⟩ :: K) s2)).trans
    (run_of_scanFn (stk := ⟨x, .statement⟩ :: K) s3)

/-- `@base <b> .` -/
theorem run_at_base (hC : CfgOK C T) (x : Ectx) (K : List Frame) (k : Nat) (env : Env)
    (b rest : List Nat) (hb : iriOK b = true) (hne : b ≠ []) (hres : C.resolve env.base b = some b) :
    Run C e (mk (⟨x, .statement⟩ :: K) (List.replicate k 0x0a ++ (baseDirective .at b ++ rest)) env) []
      (mk (⟨x, .statement⟩ :: ⟨x, .statement⟩ :: K) (0x0a :: rest) { env with base := some b }) := by
  have htext : baseDirective .at b ++ rest =
      0x40 :: 0x62 :: 0x61 :: 0x73 :: 0x65 :: 0x20 :: 0x3c :: (b ++ 0x3e :: 0x20 :: 0x2e :: 0x0a :: rest) := by
    have a1 : asc "@base <" = [0x40, 0x62, 0x61, 0x73, 0x65, 0x20, 0x3c] := by decide
    have a3 : asc "> .\n" = [0x3e, 0x20, 0x2e, 0x0a] := by decide
    have : b.isEmpty = false := by cases b <;> simp_all
    simp [baseDirective, a1, a3, this]
  rw [htext]
  have hat : Vis C 0x40 := vis_ascii hC (by decide) (by decide) (by decide)
  have hlt : Vis C 0x3c := vis_ascii hC (by decide) (by decide) (by decide)
  have hdot : Vis C 0x2e := vis_ascii hC (by decide) (by decide) (by decide)
  have s1 : scanFn C e ⟨x, .statement⟩ (List.replicate k 0x0a ++
      0x40 :: 0x62 :: 0x61 :: 0x73 :: 0x65 :: 0x20 :: 0x3c :: (b ++ 0x3e :: 0x20 :: 0x2e :: 0x0a :: rest)) env =
      .ok { cur := some ⟨x, .atBaseIRI⟩, push := [⟨x, .statement⟩],
            inp := 0x20 :: 0x3c :: (b ++ 0x3e :: 0x20 :: 0x2e :: 0x0a :: rest), env := env } := by
    rw [scanFn_nls, scanFn_vis hat]
    simp [stepFn, withSelf, stepStatementRune, stepAtDirective, matchKw, kwExact, asc]
  have s2 : scanFn C e ⟨x, .atBaseIRI⟩ (0x20 :: 0x3c :: (b ++ 0x3e :: 0x20 :: 0x2e :: 0x0a :: rest)) env =
      .ok { cur := some ⟨x, .atBaseDot b⟩, inp := 0x20 :: 0x2e :: 0x0a :: rest, env := env } := by
    rw [scanFn_sp, scanFn_vis hlt]
    simp [stepFn, iriref_raw hC b _ hb, resolveURL, hres]
  have s3 : scanFn C e ⟨x, .atBaseDot b⟩ (0x20 :: 0x2e :: 0x0a :: rest) env =
      .ok { cur := some ⟨x, .statement⟩, inp := 0x0a :: rest, env := { env with base := some b } } := by
    rw [scanFn_sp, scanFn_vis hdot]
    simp [stepFn]
  exact ((run_of_scanFn (stk := K) s1).trans (run_of_scanFn (stk := ⟨x, .statement⟩ :: K) s2)).trans
    (run_of_scanFn (stk := ⟨x, .statement⟩ :: K) s3)

/-- `BASE <b>` -/
theorem run_sparql_base (hC : CfgOK C T) (x : Ectx) (K : List Frame) (k : Nat) (env : Env)
    (b rest : List Nat) (hb : iriOK b = true) (hne : b ≠ []) (hres : C.resolve env.base b = some b) :
    Run C e (mk (⟨x, .statement⟩ :: K) (List.replicate k 0x0a ++ (baseDirective .sparql b ++ rest)) env) []
      (mk (⟨x, .statement⟩ :: ⟨x, .statement⟩ :: K) (0x0a :: rest) { env with base := some b }) := by
  have htext : baseDirective .sparql b ++ rest =
      0x42 :: 0x41 :: 0x53 :: 0x45 :: 0x20 :: 0x3c :: (b ++ 0x3e :: 0x0a :: rest) := by
    have a1 : asc "BASE <" = [0x42, 0x41, 0x53, 0x45, 0x20, 0x3c] := by decide
    have a3 : asc ">\n" = [0x3e, 0x0a] := by decide
    have : b.isEmpty = false := by cases b <;> simp_all
    simp [baseDirective, a1, a3, this]
  rw [htext]
  have hB : Vis C 0x42 := vis_ascii hC (by decide) (by decide) (by decide)
  have hlt : Vis C 0x3c := vis_ascii hC (by decide) (by decide) (by decide)
  have s1 : scanFn C e ⟨x, .statement⟩ (List.replicate k 0x0a ++
      0x42 :: 0x41 :: 0x53 :: 0x45 :: 0x20 :: 0x3c :: (b ++ 0x3e :: 0x0a :: rest)) env =
      .ok { cur := some ⟨x, .sparqlBaseIRI⟩, push := [⟨x, .statement⟩],
            inp := 0x3c :: (b ++ 0x3e :: 0x0a :: rest), env := env } := by
    rw [scanFn_nls, scanFn_vis hB]
    simp [stepFn, withSelf, stepStatementRune, stepKwBase, matchKw, kwCI, asc, hC.sp]
  have s2 : scanFn C e ⟨x, .sparqlBaseIRI⟩ (0x3c :: (b ++ 0x3e :: 0x0a :: rest)) env =
      .ok { cur := some ⟨x, .statement⟩, inp := 0x0a :: rest, env := { env with base := some b } } := by
    rw [scanFn_vis hlt]
    simp [stepFn, iriref_raw hC b _ hb, resolveURL, hres]
  exact (run_of_scanFn (stk := K) s1).trans (run_of_scanFn (stk := ⟨x, .statement⟩ :: K) s2)


/-! ### the header -/

/-- the decoder's prefix table after the prefix directives of a header -/
def addAll (ms : List Prefix.Mapping) (env : Env) : Env := ms.foldl (fun v m => v.addPrefix m.pfx m.expanded) env

theorem addAll_base : ∀ (ms : List Prefix.Mapping) (env : Env), (addAll ms env).base = env.base
  | [], _ => rfl
  | m :: ms, env => by simp only [addAll, List.foldl_cons]; exact addAll_base ms (env.addPrefix m.pfx m.expanded)

theorem lookup_addAll_not : ∀ (ms : List Prefix.Mapping) (env : Env) (p : List Nat), p ∉ ms.map (·.pfx) →
    lookupPfx p (addAll ms env).prefixes = lookupPfx p env.prefixes
  | [], _, _, _ => rfl
  | m :: ms, env, p, h => by
    simp only [List.map_cons, List.mem_cons, not_or] at h
    simp only [addAll, List.foldl_cons]
    have := lookup_addAll_not ms (env.addPrefix m.pfx m.expanded) p h.2
    simp only [addAll] at this
    rw [this]
    simp only [Env.addPrefix, lookupPfx]
    rw [if_neg (fun hh => h.1 hh.symm)]

theorem lookup_addAll_mem : ∀ (ms : List Prefix.Mapping) (env : Env), (ms.map (·.pfx)).Nodup → ∀ m ∈ ms,
    lookupPfx m.pfx (addAll ms env).prefixes = some m.expanded
  | [], _, _, m, hm => by cases hm
  | m' :: ms, env, hnd, m, hm => by
    simp only [List.map_cons, List.nodup_cons] at hnd
    simp only [addAll, List.foldl_cons]
    rcases List.mem_cons.mp hm with rfl | hm'
    · have := lookup_addAll_not ms (env.addPrefix m.pfx m.expanded) m.pfx hnd.1
      simp only [addAll] at this
      rw [this]
      simp [Env.addPrefix, lookupPfx]
    · have := lookup_addAll_mem ms (env.addPrefix m'.pfx m'.expanded) hnd.2 m hm'
      simpa [addAll] using this

theorem replicate_nl_cons (rest : List Nat) : 0x0a :: rest = List.replicate 1 0x0a ++ rest := rfl

/-- the prefix directives of a header, in either style -/
theorem run_prefix_list (hT : DocTablesOK T) (hC : CfgOK C T) (mode : DirMode) (hmode : mode ≠ .disabled) (x : Ectx)
    (rest : List Nat) : ∀ (ms : List Prefix.Mapping) (K : List Frame) (k : Nat) (env : Env),
      (∀ m ∈ ms, labelSafe C.isSpace T m.pfx = true ∧ iriOK m.expanded = true ∧
        C.resolve env.base m.expanded = some m.expanded) →
      ∃ K' k', Run C e (mk (⟨x, .statement⟩ :: K)
          (List.replicate k 0x0a ++ (ms.flatMap (prefixDirective mode) ++ rest)) env) []
        (mk (⟨x, .statement⟩ :: K') (List.replicate k' 0x0a ++ rest) (addAll ms env))
  | [], K, k, env, _ => ⟨K, k, by simpa [addAll] using Run.refl _⟩
  | m :: ms, K, k, env, h => by
    obtain ⟨h1, h2, h3⟩ := h m List.mem_cons_self
    have hrest : ∀ m' ∈ ms, labelSafe C.isSpace T m'.pfx = true ∧ iriOK m'.expanded = true ∧
        C.resolve (env.addPrefix m.pfx m.expanded).base m'.expanded = some m'.expanded :=
      fun m' hm' => h m' (List.mem_cons_of_mem _ hm')
    obtain ⟨K', k', ih⟩ := run_prefix_list hT hC mode hmode x rest ms (⟨x, .statement⟩ :: K) 1
      (env.addPrefix m.pfx m.expanded) hrest
    refine ⟨K', k', ?_⟩
    have hshape : (m :: ms).flatMap (prefixDirective mode) ++ rest =
        prefixDirective mode m ++ (ms.flatMap (prefixDirective mode) ++ rest) := by simp
    rw [hshape]
    have r1 : Run C e (mk (⟨x, .statement⟩ :: K)
        (List.replicate k 0x0a ++ (prefixDirective mode m ++ (ms.flatMap (prefixDirective mode) ++ rest))) env) []
        (mk (⟨x, .statement⟩ :: ⟨x, .statement⟩ :: K) (0x0a :: (ms.flatMap (prefixDirective mode) ++ rest))
          (env.addPrefix m.pfx m.expanded)) := by
      cases mode with
      | disabled => exact absurd rfl hmode
      | «at» => exact run_at_prefix hT hC x K k env m.pfx m.expanded _ h1 h2 h3
      | sparql => exact run_sparql_prefix hT hC x K k env m.pfx m.expanded _ h1 h2 h3
    rw [replicate_nl_cons] at r1
    have := r1.trans ih
    simpa [addAll] using this

/-- the decoder's base after the base directive of a header -/
def baseAfter (mode : DirMode) (b : List Nat) (env : Env) : Env :=
  if b.isEmpty || mode = .disabled then env else { env with base := some b }

theorem run_base_directive (hC : CfgOK C T) (mode : DirMode) (x : Ectx) (K : List Frame) (k : Nat) (env : Env)
    (b rest : List Nat) (hb : iriOK b = true) (hres : C.resolve env.base b = some b) :
    ∃ K' k', Run C e (mk (⟨x, .statement⟩ :: K) (List.replicate k 0x0a ++ (baseDirective mode b ++ rest)) env) []
      (mk (⟨x, .statement⟩ :: K') (List.replicate k' 0x0a ++ rest) (baseAfter mode b env)) := by
  by_cases hbe : b = []
  · subst hbe
    exact ⟨K, k, by simpa [baseDirective, baseAfter] using Run.refl _⟩
  · have hne : b.isEmpty = false := by cases b <;> simp_all
    cases mode with
    | disabled => exact ⟨K, k, by simpa [baseDirective, baseAfter, hne] using Run.refl _⟩
    | «at» =>
      refine ⟨⟨x, .statement⟩ :: K, 1, ?_⟩
      have := run_at_base (e := e) hC x K k env b rest hb hbe hres
      simpa [baseAfter, hne] using this
    | sparql =>
      refine ⟨⟨x, .statement⟩ :: K, 1, ?_⟩
      have := run_sparql_base (e := e) hC x K k env b rest hb hbe hres
      simpa [baseAfter, hne] using this

/-- a whole header (`WriteDirectives` and the empty line after it) -/
theorem run_header (hT : DocTablesOK T) (hC : CfgOK C T) (x : Ectx) (K : List Frame) (env : Env)
    (b : List Nat) (bm : DirMode) (ms : List Prefix.Mapping) (pmode : DirMode) (rest : List Nat)
    (hb : iriOK b = true) (hres : C.resolve env.base b = some b)
    (hms : pmode ≠ .disabled → ∀ m ∈ ms, labelSafe C.isSpace T m.pfx = true ∧ iriOK m.expanded = true ∧
        C.resolve (baseAfter bm b env).base m.expanded = some m.expanded) :
    ∃ K' k', Run C e (mk (⟨x, .statement⟩ :: K) (header b bm ms pmode ++ rest) env) []
      (mk (⟨x, .statement⟩ :: K') (List.replicate k' 0x0a ++ rest)
        (if pmode = .disabled then baseAfter bm b env else addAll ms (baseAfter bm b env))) := by
  -- the text of the directives, followed by at most one more line feed
  obtain ⟨j, hj⟩ : ∃ j, header b bm ms pmode ++ rest =
      writeDirectives b bm ms pmode ++ (List.replicate j 0x0a ++ rest) := by
    unfold header
    simp only
    split
    · next hd =>
      have : writeDirectives b bm ms pmode = [] := by simpa using hd
      exact ⟨0, by simp [this]⟩
    · exact ⟨1, by simp [nl]⟩
  rw [hj]
  unfold writeDirectives
  obtain ⟨K1, k1, r1⟩ := run_base_directive (e := e) hC bm x K 0 env b
    (ms.flatMap (prefixDirective pmode) ++ (List.replicate j 0x0a ++ rest)) hb hres
  by_cases hp : pmode = .disabled
  · subst hp
    have hnil : ms.flatMap (prefixDirective .disabled) = [] := by
      induction ms with
      | nil => rfl
      | cons m ms ih => simp [List.flatMap_cons, prefixDirective, ih]
    refine ⟨K1, k1 + j, ?_⟩
    simp only [hnil, List.nil_append, List.replicate_zero, List.append_assoc, ↓reduceIte] at r1 ⊢
    rw [← List.replicate_append_replicate, List.append_assoc]
    exact r1
  · obtain ⟨K2, k2, r2⟩ := run_prefix_list (e := e) hT hC pmode hp x (List.replicate j 0x0a ++ rest) ms K1 k1
      (baseAfter bm b env) (hms hp)
    refine ⟨K2, k2 + j, ?_⟩
    simp only [hp, ↓reduceIte]
    have := r1.trans r2
    simp only [List.replicate_zero, List.nil_append, List.append_assoc] at this ⊢
    rw [← List.replicate_append_replicate, List.append_assoc]
    exact this

end RdfModel.Proofs.C02Doc
