/-
  Line-protocol handler for the JSON-LD fragment (component `jl`, property C10).

  JSON value token (one token, no spaces):
    n | t | f | i[-]<digits>; | d<hex of the canonical xsd:double lexical form>; | s<hex of UTF-8>;
    [ value* ]   { (<hex of member name>; value)* }
  quads  S,P,O,G joined by `;` (term tokens of Driver/Wire.lean), the empty list is `-`;
  blank nodes of results: `B<hex>` for `_:label` of the document, `F<n>` for generated ones.

  Ops
    jl.tordf  <mode:10|11> <base x<hex>|-> <json>          → ok:<quads> | outside
    jl.write  <mode> <base> <choices> <context json|-> <local context json|-> <quads> → ok:<json> <path> <quads|outside>   (Spec.JsonLdWriter.write)
    jl.encode <base> <prefixes> <buffered> <hint> <quads>   → ok:<json>            (Model.JsonLdEncoder.encode)
    jl.cert   <mode> <doc base> <base> <prefixes> <buffered> <hint> <quads> → cert=… dg=… nonative=… wf=… acyclic=… clash=…
-/
import RdfModel.Driver.Wire
import RdfModel.Spec.JsonLdFragment
import RdfModel.Spec.JsonLdWriter
import RdfModel.Props.C10Defs
import RdfModel.Props.C17Defs
namespace RdfModel.Driver.JsonLd
open RdfModel RdfModel.Wire RdfModel.Desc RdfModel.JL RdfModel.JLEnc RdfModel.C10

abbrev L := List Nat

/-! ### JSON wire form -/

def takeUntilSemi : List Char → Option (List Char × List Char)
  | [] => none
  | c :: cs =>
    if c = ';' then some ([], cs)
    else (takeUntilSemi cs).map fun (a, r) => (c :: a, r)

def parseDec (cs : List Char) : Option Int :=
  let (neg, ds) := match cs with
    | '-' :: r => (true, r)
    | r => (false, r)
  if ds = [] ∨ !ds.all Char.isDigit then none
  else
    let n : Nat := ds.foldl (fun (acc : Nat) d => acc * 10 + (d.toNat - 48)) 0
    some (if neg then - (Int.ofNat n) else Int.ofNat n)

mutual
def parseVal : Nat → List Char → Option (Json × List Char)
  | 0, _ => none
  | fuel + 1, cs =>
    match cs with
    | 'n' :: r => some (.null, r)
    | 't' :: r => some (.bool true, r)
    | 'f' :: r => some (.bool false, r)
    | 'i' :: r => do
      let (a, r') ← takeUntilSemi r
      let i ← parseDec a
      pure (.int i, r')
    | 'd' :: r => do
      let (a, r') ← takeUntilSemi r
      let b ← unhexChars a
      pure (.dbl (utf8Decode b), r')
    | 's' :: r => do
      let (a, r') ← takeUntilSemi r
      let b ← unhexChars a
      pure (.str (utf8Decode b), r')
    | '[' :: r => do
      let (xs, r') ← parseVals fuel r
      pure (.arr xs, r')
    | '{' :: r => do
      let (ms, r') ← parseMembers fuel r
      pure (.obj ms, r')
    | _ => none
def parseVals : Nat → List Char → Option (List Json × List Char)
  | 0, _ => none
  | fuel + 1, cs =>
    match cs with
    | ']' :: r => some ([], r)
    | _ => do
      let (x, r) ← parseVal fuel cs
      let (xs, r') ← parseVals fuel r
      pure (x :: xs, r')
def parseMembers : Nat → List Char → Option (List (L × Json) × List Char)
  | 0, _ => none
  | fuel + 1, cs =>
    match cs with
    | '}' :: r => some ([], r)
    | _ => do
      let (a, r) ← takeUntilSemi cs
      let b ← unhexChars a
      let (v, r) ← parseVal fuel r
      let (ms, r') ← parseMembers fuel r
      pure ((utf8Decode b, v) :: ms, r')
end

def parseJson (s : String) : Option Json :=
  match parseVal (s.length + 1) s.toList with
  | some (j, []) => some j
  | _ => none

mutual
def showJson : Json → String
  | .null => "n"
  | .bool true => "t"
  | .bool false => "f"
  | .int i => "i" ++ toString i ++ ";"
  | .dbl l => "d" ++ hexRunes l ++ ";"
  | .str s => "s" ++ hexRunes s ++ ";"
  | .arr xs => "[" ++ showJsons xs ++ "]"
  | .obj ms => "{" ++ showMembers ms ++ "}"
def showJsons : List Json → String
  | [] => ""
  | x :: xs => showJson x ++ showJsons xs
def showMembers : List (L × Json) → String
  | [] => ""
  | (k, v) :: ms => hexRunes k ++ ";" ++ showJson v ++ showMembers ms
end

/-! ### quads -/

def splitList (s : String) : List String := if s = "-" then [] else s.splitOn ";"

def parseIri (s : String) : Option L :=
  match parseTerm s with
  | some (some (.iri v)) => some v
  | _ => none

def parseQuad (s : String) : Option (DQuad L) :=
  match s.splitOn "," with
  | [a, b, c, g] => do
    let a ← (← parseTerm a)
    let b ← parseIri b
    let c ← (← parseTerm c)
    let g ← parseTerm g
    pure ⟨⟨a, b, c⟩, g⟩
  | _ => none

def parseQuads (s : String) : Option (List (DQuad L)) := (splitList s).mapM parseQuad

def showBN : Term (BN L) → String
  | .bnode (.orig b) => "B" ++ hexRunes b
  | .bnode (.fresh n) => "F" ++ toString n
  | .iri v => "I" ++ hexRunes v
  | .lit l d t => showTerm (.lit l d t)

def showQ (q : DQuad (BN L)) : String :=
  showBN q.t.s ++ ",I" ++ hexRunes q.t.p ++ "," ++ showBN q.t.o ++ "," ++
    (match q.g with | some g => showBN g | none => "-")

def showQs (qs : List (DQuad (BN L))) : String :=
  if qs = [] then "-" else String.intercalate ";" (qs.map showQ)

def parseMode (s : String) : Option Bool :=
  if s = "11" then some true else if s = "10" then some false else none

def parseBase (s : String) : Option (Option L) :=
  if s = "-" then some none else (runesTok s).map some

/-- choices token `<nest><lists><anonTop><natives><useType><compactGroups>:<shape>:<seed>` -/
def parseChoices (mode11 : Bool) (base : Option L) (ctx loc : Option Json) (s : String) : Option Choices :=
  match s.splitOn ":" with
  | [flags, shape, seed] =>
    match flags.toList.map (· == '1'), shape.toNat?, seed.toNat? with
    | [nest, lists, anonTop, natives, useType, compactGroups], some shape, some seed =>
      some { mode11, base, context := ctx, localContext := loc, nest, lists, anonTop, natives, useType, compactGroups, shape, seed }
    | _, _, _ => none
  | _ => none

/-- encoder configuration tokens: base `x<hex>|-`, prefixes `<hex>=<hex>;…|-`, buffered `0|1` -/
def parseCfg (b ps buf : String) : Option (Cfg L) := do
  let b ← parseBase b
  let ps ← (if ps = "-" then some [] else (ps.splitOn ";").mapM fun e =>
    match e.splitOn "=" with
    | [k, v] => do
      let k ← unhex k
      let v ← unhex v
      pure (utf8Decode k, utf8Decode v)
    | _ => none)
  pure { base := b, prefixes := ps, buffered := buf = "1", label := fun l => l }

def b01 (b : Bool) : String := if b then "1" else "0"

/-- blank node labels `<hex>;…|-`: the roots the implementation chose in the second pass of
    `ExportResources` (Go map iteration order is a parameter of the model), tried first -/
def parseHint (s : String) : Option (List (Term L)) :=
  if s = "-" then some [] else (s.splitOn ";").mapM fun h =>
    -- `_` stands for the empty label (an empty token cannot travel on the wire)
    if h = "_" then some (Term.bnode []) else (unhex h).map fun b => Term.bnode (utf8Decode b)

def handle (op : String) (args : List String) : Option String :=
  match op, args with
  | "encode", [b, ps, buf, hint, qs] => do
    let cfg ← parseCfg b ps buf
    let d ← parseQuads qs
    let hint ← parseHint hint
    match encode cfg d (defaultOrd d) (hint ++ defaultOrd d) with
    | some doc => pure ("ok:" ++ showJson doc)
    | none => pure "diverges"
  | "cert", [m, db, b, ps, buf, hint, qs] => do
    let m ← parseMode m
    let db ← parseBase db
    let cfg ← parseCfg b ps buf
    let d ← parseQuads qs
    let hint ← parseHint hint
    let cert := encCert m db cfg d (defaultOrd d) (hint ++ defaultOrd d)
    let acyclic := decide (C17.Acyclic1 (d.map (·.t)))
    pure ("cert=" ++ b01 cert ++ " dg=" ++ b01 (defaultGraphOnly d) ++ " nonative=" ++ b01 (noNativeTyped d) ++
      " wf=" ++ b01 (decide (WFDataset d)) ++ " acyclic=" ++ b01 acyclic ++ " clash=" ++ b01 (schemeClash cfg d) ++
      -- the hypotheses of encoder_roundtrip_natural_partial (Props/C10Defs.lean)
      " lbl=" ++ b01 (labelsOK cfg d) ++ " ctx=" ++ b01 (ctxOK cfg d (defaultOrd d) (hint ++ defaultOrd d)) ++
      " loc=" ++ b01 (locOK cfg d (defaultOrd d) (hint ++ defaultOrd d)) ++
      " struct=" ++ b01 (structOK cfg d (defaultOrd d) (hint ++ defaultOrd d)))
  | "write", [m, b, chs, cj, lj, qs] => do
    let m ← parseMode m
    let b ← parseBase b
    let cj ← (if cj = "-" then some none else (parseJson cj).map some)
    let lj ← (if lj = "-" then some none else (parseJson lj).map some)
    let ch ← parseChoices m b cj lj chs
    let d ← parseQuads qs
    let doc := write (fun (l : L) => l) d ch
    let path := match tryWrite (fun (l : L) => l) d ch with
      | some _ => "validated"
      | none => "fallback"
    let r := match toRdf m b doc with
      | some out => showQs out
      | none => "outside"
    pure ("ok:" ++ showJson doc ++ " " ++ path ++ " " ++ r)
  | "tordf", [m, b, j] => do
    let m ← parseMode m
    let b ← parseBase b
    let j ← parseJson j
    match toRdf m b j with
    | some qs => pure ("ok:" ++ showQs qs)
    | none => pure "outside"
  | "echo", [j] => do
    let j ← parseJson j
    pure (showJson j)
  | _, _ => none

end RdfModel.Driver.JsonLd
