/-
  RdfModel.Model.TurtleDoc — executable model of the *statement layer* of encoding/turtle and
  encoding/trig: the scan-function stack machine (decoder.go: Next / scan / terminate / emit /
  pushState) and every scan function of

    turtle: decoder_scan_statement.go, decoder_scan_triples.go, decoder_scan_predicateObjectList.go,
            decoder_scan_objectList.go, decoder_scan_object.go, decoder_scan_collection.go,
            decoder_scan_blankNodePropertyList.go, decoder_ectx.go
    trig:   decoder_scan_trigDoc.go, decoder_scan_triplesOrGraph.go, decoder_scan_wrappedGraph.go,
            decoder_scan_triplesBlock.go, decoder_scan_triples.go, decoder_scan_triples2.go and the
            copies of the files above.

  ONE model with a flag `trig`.  Go's scan functions are closures; each is a constructor of `Cont`
  carrying exactly the captured values (defunctionalisation).  `CurSubject` / `CurPredicate` /
  `CurGraphName` are nil-able interfaces in Go and `Option`s here.  `ectx.Global` is a pointer shared
  by every evaluation context: it is the `Env` component of the machine state.

  The token producers are a parameter (`Producers`); `Producers.real T` instantiates them with the
  models of `Model/TurtleTokens.lean`, and that instance is what the driver runs.

  The model is of the REPAIRED code (patches `fix-ttl-collection-subject`, `fix-trig-collection-
  subject-continue`, `fix-ttl-comment-eof`, `fix-ttl-explicit-langstring`):
    * D11  Turtle `( … )` in subject position is handled as in TriG (`()` is rdf:nil, a non-empty
           collection is followed by a *required* predicateObjectList that may continue with `;`);
    * D40  TriG pushed the `;`-continuation of a subject collection with the *outer* evaluation
           context (nil subject): `(1) <p> <o> ; <q> <r> .` emitted `(nil, q, r)`;
    * D13  a comment that ends the input hands EOF to the pending scan function instead of
           `terminate()`;
    * D41  `"x"^^rdf:langString` / `^^rdf:dirLangString` (explicit datatype, hence no tag) is an error, as
           in the repaired N-Triples / N-Quads decoders (patch `fix-ttl-explicit-langstring`);
    * D44  a comment ended at LF only; Turtle 1.1 §6.1 ends it at CR as well (`# c` CR `<a> <b> <c> .`
           lost the statement; patch `fix-ttl-comment-cr`);
    * D42  `[ <p> <o> ] <q> <r> ; <s> <t> .` was rejected: the optional predicateObjectList after a
           blank-node property list in subject position was pushed without its `;`-continuation
           (patch `fix-ttl-bnpl-subject-semicolon`: `reader_scanStatement_Subject_AnonOrBlankNode`,
           `reader_triples2_blankNodePropertyList`).

  Faithfully kept oddities (not defects of the properties checked here, so not repaired):
    * several closures ignore their `err` argument and look at the zero `DecodedRune`; when they
      then call `BacktrackRunes(r0)` a NUL rune enters the buffer (`Arg.orNul`); the read error is
      thereby replaced by a later "unexpected rune '\x00'" error;
    * each directive leaks one `reader_scanStatement` frame (the function pushes itself and the
      directive's last closure returns it again); `terminate()` drops them all at the end;
    * leniencies such as `{ <a> <b> <c> <d> <e> <f> }` (missing `.` in a TriG graph block) are
      reproduced as they are.

  Not modelled: text offsets (`commit…` calls, `…Location` fields, D18), directive listeners,
  error message texts (errors are the classes of `EClass`).
-/
import RdfModel.Model.TurtleTokens
namespace RdfModel.TtlDoc
open RdfModel

abbrev End := NQ.End

/-- Error classes of the document layer. -/
inductive EClass where
  | eof      -- `errors.Is(err, io.EOF)`
  | io       -- the reader's own error
  | syntax   -- unexpected rune and every other token-level error
  | pfx      -- `iri.UnknownPrefixError`
  | resolve  -- IRI parsing / resolution failed (`ResolveIRI`, `ResolveURL`)
  deriving Repr, DecidableEq, Inhabited

def endCls : End → EClass
  | .eof => .eof
  | .ioerr => .io

def ofTok : NQ.EClass → EClass
  | .eof => .eof
  | .io => .io
  | .syntax => .syntax
  | .url => .resolve

/-- The token producers the statement layer calls (`r.produceX(r0)`): input = remaining runes
    *including* `r0`. -/
structure Producers where
  iriref : End → List Nat → Ttl.Res (List Nat)
  string : End → List Nat → Ttl.Res (List Nat)
  pnameNS : End → List Nat → Ttl.Res (List Nat)
  pname : End → List Nat → Ttl.Res (List Nat × List Nat)
  bnode : End → List Nat → Ttl.Res (List Nat)
  langtag : End → List Nat → Ttl.Res (List Nat)
  numeric : End → List Nat → Ttl.Res (Ttl.NumKind × List Nat)
  boolean : End → List Nat → Ttl.BoolRes

def Producers.real (T : Ttl.Tables) : Producers where
  iriref := Ttl.produceIRIREF T
  string := Ttl.produceString T
  pnameNS := Ttl.producePNAME_NS T
  pname := Ttl.producePrefixedName T
  bnode := Ttl.produceBlankNode T
  langtag := Ttl.produceLANGTAG
  numeric := Ttl.produceNumericLiteral
  boolean := Ttl.scanBoolean

/-- Blank nodes of one decoder run: `NewBlankNode()` (fresh, numbered by the factory's counter) and
    `NewStringBlankNode(label)` (identity = label). -/
inductive BN where
  | anon (n : Nat)
  | lbl (l : List Nat)
  deriving Repr, DecidableEq, Inhabited

abbrev T := Term BN

def rdfNS : String := "http://www.w3.org/1999/02/22-rdf-syntax-ns#"
def rdfType : List Nat := asc (rdfNS ++ "type")
def rdfFirst : List Nat := asc (rdfNS ++ "first")
def rdfRest : List Nat := asc (rdfNS ++ "rest")
def rdfNil : List Nat := asc (rdfNS ++ "nil")

/-- What `r.emit` appends: subject and predicate are whatever the evaluation context holds. -/
structure Stmt where
  s : Option T
  p : Option T
  o : T
  g : Option T
  deriving Repr, DecidableEq, Inhabited

/-- `evaluationContext` without the locations and without `Global`. -/
structure Ectx where
  subj : Option T := none
  pred : Option T := none
  graph : Option T := none
  deriving Repr, DecidableEq, Inhabited

/-- `globalEvaluationContext`: base, prefix table, blank-node factory state. `base` is the string form
    of the `*iri.ParsedIRI`. -/
structure Env where
  base : Option (List Nat)
  prefixes : List (List Nat × List Nat)
  nextAnon : Nat
  deriving Repr, DecidableEq, Inhabited

/-- `BlankNodeStringFactory.NewBlankNode()`. -/
def Env.fresh (v : Env) : T × Env := (.bnode (.anon v.nextAnon), { v with nextAnon := v.nextAnon + 1 })

/-- `BlankNodeStringFactory.NewStringBlankNode(l)`: an empty identifier gives a fresh node. -/
def Env.labelled (v : Env) (l : List Nat) : T × Env :=
  if l = [] then v.fresh else (.bnode (.lbl l), v)

def lookupPfx (ns : List Nat) : List (List Nat × List Nat) → Option (List Nat)
  | [] => none
  | (p, x) :: rest => if p = ns then some x else lookupPfx ns rest

/-- `Prefixes.ExpandPrefix`. -/
def Env.expand (v : Env) (ns loc : List Nat) : Option (List Nat) :=
  (lookupPfx ns v.prefixes).map (· ++ loc)

/-- `Prefixes.AddPrefixMappings`: last declaration wins. -/
def Env.addPrefix (v : Env) (ns x : List Nat) : Env := { v with prefixes := (ns, x) :: v.prefixes }

/-- Scan functions. Comments name the Go function or the closure's position. -/
inductive Cont where
  | statement                -- reader_scanStatement (turtle) / reader_scan_trigDoc (trig)
  | atBaseIRI                -- `@base` read: IRIREF expected
  | atBaseDot (b : List Nat) -- … then `.`; captured `resolvedBase`
  | atPrefixNS               -- `@prefix` read: PNAME_NS expected
  | atPrefixIRI (ns : List Nat)
  | atPrefixDot (ns x : List Nat)
  | sparqlBaseIRI            -- `BASE` read
  | sparqlPrefixNS           -- `PREFIX` read
  | sparqlPrefixIRI (ns : List Nat)
  | subjAnonOrBNPL           -- reader_scanStatement_Subject_AnonOrBlankNode (turtle)
  | triplesEnd               -- reader_scan_Triples_End / reader_scan_triples_End
  | subjIRIREF               -- reader_scan_Triples_Subject_IRIREF / reader_scan_triples_subject_IRIREF
  | subjPName
  | subjBNode
  | pol                      -- reader_scan_PredicateObjectList
  | polContinue              -- reader_scan_PredicateObjectList_Continue
  | polRequired              -- reader_scan_PredicateObjectList_Required
  | objListContinue          -- reader_scan_ObjectList_Continue
  | object                   -- reader_scan_Object
  | objectPName              -- reader_scan_object_PrefixedName
  | collOpenObj              -- closure of reader_scan_Object, case '('
  | collOpenSubj (o : T)     -- inner closure of the subject-position '(' (captures nectx.CurSubject)
  | collContinue             -- reader_scan_collection_Continue
  | bnplEnd                  -- reader_scan_blankNodePropertyList_End
  | parenTop (bn : T)        -- outer closure of '(' in reader_scanStatement (repaired) / reader_scan_trigDoc
  -- TriG only
  | graphLabel               -- `GRAPH` read: label expected
  | graphAnonClose           -- `GRAPH [` read: `]` expected
  | wrappedGraph             -- reader_scan_wrappedGraph
  | wrappedGraphEnd          -- reader_scan_wrappedGraph_End
  | triplesBlock             -- reader_scan_triplesBlock
  | triplesBlockQuest        -- reader_scan_triplesBlock_QUEST
  | triples                  -- reader_scan_triples
  | tgE1 (v : T)             -- reader_scan_triplesOrGraph_E1(value, …)
  | tgBracket (bn : T)       -- closure of '[' in reader_scan_trigDoc
  | parenBlock (bn : T)      -- outer closure of '(' in reader_scan_triples
  | triples2BNPL             -- reader_triples2_blankNodePropertyList
  deriving Repr, DecidableEq, Inhabited

/-- `readerStack`. -/
structure Frame where
  x : Ectx
  k : Cont
  deriving Repr, DecidableEq, Inhabited

/-- What a scan function is called with: a rune (and the input after it) or `err != nil`. -/
inductive Arg where
  | rune (c : Nat) (rest : List Nat)
  | fail
  deriving Repr

/-- For closures that never look at `err`: on a failed read `r0` is the zero `DecodedRune`. -/
def Arg.orNul : Arg → Nat × List Nat
  | .rune c rest => (c, rest)
  | .fail => (0, [])

/-- Effect of one scan-function call that returned `(readerStack, nil)`. -/
structure Out where
  cur : Option Frame := none      -- the returned readerStack (`fn == nil` ↦ none)
  push : List Frame := []         -- `pushState` calls, in call order
  emit : Option Stmt := none      -- `r.emit(…)`
  inp : List Nat                  -- rune buffer + unread input afterwards
  env : Env
  term : Bool := false            -- `r.terminate()`: the stack is dropped
  deriving Repr

inductive FnRes where
  | ok (o : Out)
  | err (e : EClass)
  | panic
  deriving Repr

structure Cfg where
  trig : Bool
  P : Producers
  /-- `ResolveURL` as a string function: `resolve base ref`; `base = none` is `iri.ParseIRI(ref)`.
      `none` = error. Recorded assumption: `Base.Parse` depends on the base only through `String()`. -/
  resolve : Option (List Nat) → List Nat → Option (List Nat)
  /-- `unicode.IsSpace` (T1). -/
  isSpace : Nat → Bool
  /-- `internal.IsRune_PN_CHARS_BASE` (T1). -/
  pnBase : Nat → Bool

/-- `ectx.ResolveIRI`: without a base the reference is used as it is (no parsing at all). -/
def resolveIRI (C : Cfg) (v : Env) (r : List Nat) : Option (List Nat) :=
  match v.base with
  | none => some r
  | some b => C.resolve (some b) r

/-- `ectx.ResolveURL`. -/
def resolveURL (C : Cfg) (v : Env) (r : List Nat) : Option (List Nat) := C.resolve v.base r

/-! ### Keyword matching -/

inductive Kw where
  | ok (rest : List Nat)
  | mismatch
  | eoi          -- `NextRune` failed inside the keyword
  deriving Repr

/-- Read the runes of a keyword one by one; each position accepts two spellings. -/
def matchKw : List (Nat × Nat) → List Nat → Kw
  | [], inp => .ok inp
  | _ :: _, [] => .eoi
  | (u, l) :: ks, c :: rest => if c = u ∨ c = l then matchKw ks rest else .mismatch

def kwExact (s : String) : List (Nat × Nat) := (asc s).map (fun c => (c, c))
/-- upper-case letters `s`, either case accepted -/
def kwCI (s : String) : List (Nat × Nat) := (asc s).map (fun c => (c, c + 0x20))

def isWs (C : Cfg) (c : Nat) : Bool := c = 0x20 || c = 0x09 || c = 0x0a || c = 0x0d || C.isSpace c

/-! ### The scan functions -/

def mkStmt (x : Ectx) (o : T) : Stmt := { s := x.subj, p := x.pred, o := o, g := x.graph }

/-- Subject productions `…_Subject_IRIREF/PrefixedName/BlankNode` share their tail. -/
def subjectTail (x : Ectx) (s : T) (inp : List Nat) (env : Env) : FnRes :=
  let x' := { x with subj := some s }
  .ok { cur := some ⟨x', .polRequired⟩, push := [⟨x', .polContinue⟩], inp := inp, env := env }

/-- token → subject / graph-label term, shared by the subject productions and `labelOrSubject_*`. -/
inductive TermRes where
  | ok (t : T) (rest : List Nat) (env : Env)
  | err (e : EClass)
  | panic

/-- token → resolved / expanded IRI string -/
inductive IriRes where
  | ok (i : List Nat) (rest : List Nat)
  | err (e : EClass)
  | panic

def iriIRIREF (C : Cfg) (e : End) (env : Env) (inp : List Nat) : IriRes :=
  match C.P.iriref e inp with
  | .panic => .panic
  | .err c => .err (ofTok c)
  | .ok v rest =>
    match resolveIRI C env v with
    | none => .err .resolve
    | some i => .ok i rest

def iriPName (C : Cfg) (e : End) (env : Env) (inp : List Nat) : IriRes :=
  match C.P.pname e inp with
  | .panic => .panic
  | .err c => .err (ofTok c)
  | .ok (ns, loc) rest =>
    match env.expand ns loc with
    | none => .err .pfx
    | some i => .ok i rest

def IriRes.toTerm (env : Env) : IriRes → TermRes
  | .ok i rest => .ok (.iri i) rest env
  | .err c => .err c
  | .panic => .panic

def termIRIREF (C : Cfg) (e : End) (env : Env) (inp : List Nat) : TermRes := (iriIRIREF C e env inp).toTerm env

def termPName (C : Cfg) (e : End) (env : Env) (inp : List Nat) : TermRes := (iriPName C e env inp).toTerm env

def termBNode (C : Cfg) (e : End) (env : Env) (inp : List Nat) : TermRes :=
  match C.P.bnode e inp with
  | .panic => .panic
  | .err c => .err (ofTok c)
  | .ok l rest => .ok (env.labelled l).1 rest (env.labelled l).2

/-- `reader_scan_triplesOrGraph_labelOrSubject_*` (TriG): token, then `E1`. -/
def labelOrSubject (x : Ectx) : TermRes → FnRes
  | .panic => .panic
  | .err c => .err c
  | .ok t rest env => .ok { cur := some ⟨x, .tgE1 t⟩, inp := rest, env := env }

def subjectOf (x : Ectx) : TermRes → FnRes
  | .panic => .panic
  | .err c => .err c
  | .ok t rest env => subjectTail x t rest env

/-- Fallback of the `BASE` / `PREFIX` / `GRAPH` keyword matchers: the runes read so far start a
    prefixed name. `inp` is the input from `r0` on. -/
def kwFallback (C : Cfg) (e : End) (x : Ectx) (env : Env) (inp : List Nat) : FnRes :=
  if C.trig then labelOrSubject x (termPName C e env inp)
  else .ok { cur := some ⟨x, .subjPName⟩, push := [⟨x, .triplesEnd⟩], inp := inp, env := env }

/-- Adds the `pushState(ectx, reader_scanStatement)` every non-error path of the top-level function
    performs first. -/
def withSelf (x : Ectx) : FnRes → FnRes
  | .ok o => .ok { o with push := ⟨x, .statement⟩ :: o.push }
  | r => r

/-- `reader_scan_wrappedGraph`. -/
def stepWrappedGraph (e : End) (x : Ectx) (env : Env) : Arg → FnRes
  | .fail => .err (endCls e)
  | .rune c rest =>
    if c ≠ 0x7b then .err .syntax
    else .ok { cur := some ⟨x, .triplesBlock⟩, push := [⟨x, .wrappedGraphEnd⟩], inp := rest, env := env }

/-- `case '@'`: `rest` is the input after the `@`. -/
def stepAtDirective (e : End) (x : Ectx) (env : Env) (rest : List Nat) : FnRes :=
  match rest with
  | [] => .err (endCls e)
  | r1 :: rest1 =>
    if r1 = 0x62 then                              -- "@b" ase
      match matchKw (kwExact "ase") rest1 with
      | .eoi => .err (endCls e)
      | .mismatch => .err .syntax
      | .ok r => .ok { cur := some ⟨x, .atBaseIRI⟩, inp := r, env := env }
    else if r1 = 0x70 then                         -- "@p" refix
      match matchKw (kwExact "refix") rest1 with
      | .eoi => .err (endCls e)
      | .mismatch => .err .syntax
      | .ok r => .ok { cur := some ⟨x, .atPrefixNS⟩, inp := r, env := env }
    else .err .syntax

/-- `case 'B', 'b'`. -/
def stepKwBase (C : Cfg) (e : End) (x : Ectx) (env : Env) (c : Nat) (rest : List Nat) : FnRes :=
  match matchKw (kwCI "ASE") rest with
  | .eoi => .err (endCls e)
  | .mismatch => kwFallback C e x env (c :: rest)
  | .ok r =>
    match r with
    | [] => .err (endCls e)
    | r4 :: rest4 =>
      if r4 = 0x3c then .ok { cur := some ⟨x, .sparqlBaseIRI⟩, inp := r4 :: rest4, env := env }
      else if !C.isSpace r4 then kwFallback C e x env (c :: rest)
      else .ok { cur := some ⟨x, .sparqlBaseIRI⟩, inp := rest4, env := env }

/-- `case 'P', 'p'` and (TriG) `case 'G', 'g'`: keyword tail, then a white-space rune, then `k`. -/
def stepKwSpace (C : Cfg) (e : End) (x : Ectx) (env : Env) (kw : List (Nat × Nat)) (k : Cont) (c : Nat)
    (rest : List Nat) : FnRes :=
  match matchKw kw rest with
  | .eoi => .err (endCls e)
  | .mismatch => kwFallback C e x env (c :: rest)
  | .ok r =>
    match r with
    | [] => .err (endCls e)
    | r6 :: rest6 =>
      if !C.isSpace r6 then kwFallback C e x env (c :: rest)
      else .ok { cur := some ⟨x, k⟩, inp := rest6, env := env }

/-- The subject starters `<`, `_`, `[`, `(`, `:`/PN_CHARS_BASE of the top-level function. -/
def stepSubjectStart (C : Cfg) (e : End) (x : Ectx) (env : Env) (c : Nat) (rest : List Nat) : FnRes :=
  if c = 0x3c then                                   -- '<'
    if C.trig then labelOrSubject x (termIRIREF C e env (c :: rest))
    else .ok { cur := some ⟨x, .subjIRIREF⟩, push := [⟨x, .triplesEnd⟩], inp := c :: rest, env := env }
  else if c = 0x5f then                              -- '_'
    if C.trig then labelOrSubject x (termBNode C e env (c :: rest))
    else .ok { cur := some ⟨x, .subjBNode⟩, push := [⟨x, .triplesEnd⟩], inp := c :: rest, env := env }
  else if c = 0x5b then                              -- '['
    if C.trig then .ok { cur := some ⟨x, .tgBracket env.fresh.1⟩, inp := rest, env := env.fresh.2 }
    else .ok { cur := some ⟨{ x with subj := some env.fresh.1 }, .subjAnonOrBNPL⟩, inp := rest, env := env.fresh.2 }
  else if c = 0x28 then                              -- '('
    .ok { cur := some ⟨x, .parenTop env.fresh.1⟩, inp := rest, env := env.fresh.2 }
  else if c = 0x3a ∨ C.pnBase c then                 -- ':' or PN_CHARS_BASE
    if C.trig then labelOrSubject x (termPName C e env (c :: rest))
    else .ok { cur := some ⟨x, .subjPName⟩, push := [⟨x, .triplesEnd⟩], inp := c :: rest, env := env }
  else .err .syntax

/-- `reader_scanStatement` / `reader_scan_trigDoc` after the EOF test, without the self push. -/
def stepStatementRune (C : Cfg) (e : End) (x : Ectx) (env : Env) (c : Nat) (rest : List Nat) : FnRes :=
  if c = 0x40 then stepAtDirective e x env rest                                   -- '@'
  else if c = 0x42 ∨ c = 0x62 then stepKwBase C e x env c rest                    -- 'B' 'b'
  else if c = 0x50 ∨ c = 0x70 then stepKwSpace C e x env (kwCI "REFIX") .sparqlPrefixNS c rest  -- 'P' 'p'
  else if C.trig ∧ (c = 0x47 ∨ c = 0x67) then stepKwSpace C e x env (kwCI "RAPH") .graphLabel c rest  -- 'G' 'g' (TriG)
  else if C.trig ∧ c = 0x7b then stepWrappedGraph e x env (.rune c rest)          -- '{' (TriG)
  else stepSubjectStart C e x env c rest

/-- `reader_scan_collection(r, ectx, r0, openSubject, …)`. -/
def stepCollection (x : Ectx) (env : Env) (c : Nat) (rest : List Nat) (o : T) : FnRes :=
  if c = 0x29 then .ok { emit := some (mkStmt x (.iri rdfNil)), inp := rest, env := env }
  else
    let nx : Ectx := { x with subj := some o, pred := some (.iri rdfFirst) }
    match x.subj with
    | none => .ok { cur := some ⟨nx, .object⟩, push := [⟨nx, .collContinue⟩], inp := c :: rest, env := env }
    | some _ => .ok { cur := some ⟨nx, .object⟩, push := [⟨nx, .collContinue⟩], emit := some (mkStmt x o),
                      inp := c :: rest, env := env }

/-- tail of the verb branches of `reader_scan_PredicateObjectList` -/
def polGo (x : Ectx) (p : T) (inp : List Nat) (env : Env) : FnRes :=
  let x' := { x with pred := some p }
  .ok { cur := some ⟨x', .object⟩, push := [⟨x', .objListContinue⟩], inp := inp, env := env }

def polOfTerm (x : Ectx) : TermRes → FnRes
  | .panic => .panic
  | .err k => .err k
  | .ok p r env' => polGo x p r env'

/-- `reader_scan_PredicateObjectList` on a rune. -/
def stepPOL (C : Cfg) (e : End) (x : Ectx) (env : Env) (c : Nat) (rest : List Nat) : FnRes :=
  if c = 0x3c then polOfTerm x (termIRIREF C e env (c :: rest))
  else if c = 0x61 then                              -- 'a'
    match rest with
    | [] => .err (endCls e)
    | r1 :: rest1 =>
      if !C.isSpace r1 then polOfTerm x (termPName C e env (c :: rest)) else polGo x (.iri rdfType) rest1 env
  else if c = 0x3a ∨ C.pnBase c then polOfTerm x (termPName C e env (c :: rest))
  else .ok { inp := c :: rest, env := env }

/-- The literal part of `reader_scan_Object` after the string token: optional LANGTAG or `^^` iri. -/
def stepLiteralTail (C : Cfg) (e : End) (x : Ectx) (env : Env) (lex : List Nat) (rest : List Nat) : FnRes :=
  match rest with
  | [] => .err (endCls e)
  | c :: rest0 =>
    if c = 0x40 then
      match C.P.langtag e (c :: rest0) with
      | .panic => .panic
      | .err k => .err (ofTok k)
      | .ok tag r => .ok { emit := some (mkStmt x (.lit lex rdfLangString (some tag))), inp := r, env := env }
    else if c = 0x5e then
      match rest0 with
      | [] => .err (endCls e)
      | c1 :: rest1 =>
        if c1 ≠ 0x5e then .err .syntax
        else match rest1 with
          | [] => .err (endCls e)
          | c2 :: rest2 =>
            let tr := if c2 = 0x3c then iriIRIREF C e env (c2 :: rest2) else iriPName C e env (c2 :: rest2)
            match tr with
            | .panic => .panic
            | .err k => .err k
            | .ok dt r =>
              -- repaired (D41): an explicit rdf:langString / rdf:dirLangString datatype is an error
              if dt = rdfLangString ∨ dt = rdfDirLangString then .err .syntax
              else .ok { emit := some (mkStmt x (.lit lex dt none)), inp := r, env := env }
    else .ok { emit := some (mkStmt x (.lit lex xsdString none)), inp := c :: rest0, env := env }

/-- emit `(CurSubject, CurPredicate, term)` -/
def emitOfTerm (x : Ectx) : TermRes → FnRes
  | .panic => .panic
  | .err k => .err k
  | .ok o r env' => .ok { emit := some (mkStmt x o), inp := r, env := env' }

def emitOfNumeric (x : Ectx) (env : Env) : Ttl.Res (Ttl.NumKind × List Nat) → FnRes
  | .panic => .panic
  | .err k => .err (ofTok k)
  | .ok (kind, lex) r => .ok { emit := some (mkStmt x (.lit lex kind.datatype none)), inp := r, env := env }

/-- `reader_scan_Object` on a rune. -/
def stepObject (C : Cfg) (e : End) (x : Ectx) (env : Env) (c : Nat) (rest : List Nat) : FnRes :=
  if c = 0x3c then emitOfTerm x (termIRIREF C e env (c :: rest))
  else if c = 0x5f then emitOfTerm x (termBNode C e env (c :: rest))
  else if c = 0x28 then .ok { cur := some ⟨x, .collOpenObj⟩, inp := rest, env := env }
  else if c = 0x5b then
    let nx : Ectx := { x with subj := some env.fresh.1, pred := none }
    .ok { push := [⟨nx, .bnplEnd⟩, ⟨nx, .polContinue⟩, ⟨nx, .pol⟩], emit := some (mkStmt x env.fresh.1),
          inp := rest, env := env.fresh.2 }
  else if c = 0x22 ∨ c = 0x27 then
    match C.P.string e (c :: rest) with
    | .panic => .panic
    | .err k => .err (ofTok k)
    | .ok lex r => stepLiteralTail C e x env lex r
  else if c = 0x2b ∨ c = 0x2d ∨ (0x30 ≤ c ∧ c ≤ 0x39) ∨ c = 0x2e then
    if c = 0x2e then
      match rest with
      | [] => .err (endCls e)
      | r1 :: _ =>
        if r1 < 0x30 ∨ r1 > 0x39 then .err .syntax else emitOfNumeric x env (C.P.numeric e (c :: rest))
    else emitOfNumeric x env (C.P.numeric e (c :: rest))
  else if c = 0x74 ∨ c = 0x66 then                   -- 't' 'f'
    match C.P.boolean e (c :: rest) with
    | .err k => .err (ofTok k)
    | .other => .ok { cur := some ⟨x, .objectPName⟩, inp := c :: rest, env := env }
    | .bool b r =>
      .ok { emit := some (mkStmt x (.lit (asc (if b then "true" else "false")) Ttl.xsdBoolean none)),
            inp := r, env := env }
  else if C.pnBase c ∨ c = 0x3a then .ok { cur := some ⟨x, .objectPName⟩, inp := c :: rest, env := env }
  else .err .syntax

/-- `reader_scan_triples` (TriG) on a rune. -/
def stepTriples (C : Cfg) (x : Ectx) (env : Env) (c : Nat) (rest : List Nat) : FnRes :=
  if c = 0x3c then .ok { cur := some ⟨x, .subjIRIREF⟩, inp := c :: rest, env := env }
  else if c = 0x5f then .ok { cur := some ⟨x, .subjBNode⟩, inp := c :: rest, env := env }
  else if c = 0x5b then
    let x' := { x with subj := some env.fresh.1 }
    .ok { cur := some ⟨x', .pol⟩,
          push := [⟨x', .polContinue⟩, ⟨x', .pol⟩, ⟨x', .bnplEnd⟩, ⟨x', .polContinue⟩],
          inp := rest, env := env.fresh.2 }
  else if c = 0x28 then .ok { cur := some ⟨x, .parenBlock env.fresh.1⟩, inp := rest, env := env.fresh.2 }
  else if c = 0x3a ∨ C.pnBase c then .ok { cur := some ⟨x, .subjPName⟩, inp := c :: rest, env := env }
  else .err .syntax

/-- Outer closure of a subject-position '(' ; `top` = pushes `Triples_End` first (document level).
    Ignores `err`. -/
def stepParen (top : Bool) (x : Ectx) (env : Env) (bn : T) (a : Arg) : FnRes :=
  let c := a.orNul.1
  let rest := a.orNul.2
  let tail : List Frame := if top then [⟨x, .triplesEnd⟩] else []
  if c = 0x29 then
    let nx := { x with subj := some (.iri rdfNil) }
    .ok { cur := some ⟨nx, .polRequired⟩, push := tail ++ [⟨nx, .polContinue⟩], inp := rest, env := env }
  else
    let nx := { x with subj := some bn }
    .ok { cur := some ⟨x, .collOpenSubj bn⟩, push := tail ++ [⟨nx, .polContinue⟩, ⟨nx, .polRequired⟩],
          inp := c :: rest, env := env }

/-- One scan-function call. -/
def stepFn (C : Cfg) (e : End) (k : Cont) (x : Ectx) (env : Env) (a : Arg) : FnRes :=
  match k with
  | .statement =>
    match a with
    | .fail => (match e with
        | .eof => .ok { inp := [], env := env, term := true }
        | .ioerr => .err .io)
    | .rune c rest => withSelf x (stepStatementRune C e x env c rest)
  | .atBaseIRI | .sparqlBaseIRI =>
    match a with
    | .fail => .err (endCls e)
    | .rune c rest =>
      match C.P.iriref e (c :: rest) with
      | .panic => .panic
      | .err t => .err (ofTok t)
      | .ok v r =>
        match resolveURL C env v with
        | none => .err .resolve
        | some b =>
          if k = .atBaseIRI then .ok { cur := some ⟨x, .atBaseDot b⟩, inp := r, env := env }
          else .ok { cur := some ⟨x, .statement⟩, inp := r, env := { env with base := some b } }
  | .atBaseDot b =>
    match a with
    | .fail => .err (endCls e)
    | .rune c rest =>
      if c ≠ 0x2e then .err .syntax
      else .ok { cur := some ⟨x, .statement⟩, inp := rest, env := { env with base := some b } }
  | .atPrefixNS | .sparqlPrefixNS =>
    match a with
    | .fail => .err (endCls e)
    | .rune c rest =>
      match C.P.pnameNS e (c :: rest) with
      | .panic => .panic
      | .err t => .err (ofTok t)
      | .ok ns r =>
        .ok { cur := some ⟨x, if k = .atPrefixNS then .atPrefixIRI ns else .sparqlPrefixIRI ns⟩, inp := r, env := env }
  | .atPrefixIRI ns =>
    match a with
    | .fail => .err (endCls e)
    | .rune c rest =>
      match C.P.iriref e (c :: rest) with
      | .panic => .panic
      | .err t => .err (ofTok t)
      | .ok v r =>
        match resolveURL C env v with
        | none => .err .resolve
        | some b => .ok { cur := some ⟨x, .atPrefixDot ns b⟩, inp := r, env := env }
  | .sparqlPrefixIRI ns =>
    match a with
    | .fail => .err (endCls e)
    | .rune c rest =>
      match C.P.iriref e (c :: rest) with
      | .panic => .panic
      | .err t => .err (ofTok t)
      | .ok v r =>
        match resolveURL C env v with
        | none => .err .resolve
        | some b => .ok { cur := some ⟨x, .statement⟩, inp := r, env := env.addPrefix ns b }
  | .atPrefixDot ns b =>
    match a with
    | .fail => .err (endCls e)
    | .rune c rest =>
      if c ≠ 0x2e then .err .syntax
      else .ok { cur := some ⟨x, .statement⟩, inp := rest, env := env.addPrefix ns b }
  | .subjAnonOrBNPL =>
    match a with
    | .fail => .err (endCls e)
    | .rune c rest =>
      if c = 0x5d then
        .ok { cur := some ⟨x, .polRequired⟩, push := [⟨x, .triplesEnd⟩, ⟨x, .polContinue⟩], inp := rest, env := env }
      else
        .ok { cur := some ⟨x, .polRequired⟩,
              push := [⟨x, .triplesEnd⟩, ⟨x, .polContinue⟩, ⟨x, .pol⟩, ⟨x, .bnplEnd⟩, ⟨x, .polContinue⟩],
              inp := c :: rest, env := env }
  | .triplesEnd =>
    match a with
    | .fail => .err (endCls e)
    | .rune c rest => if c = 0x2e then .ok { inp := rest, env := env } else .err .syntax
  | .subjIRIREF =>
    match a with
    | .fail => .err (endCls e)
    | .rune c rest => subjectOf x (termIRIREF C e env (c :: rest))
  | .subjPName =>
    match a with
    | .fail => .err (endCls e)
    | .rune c rest => subjectOf x (termPName C e env (c :: rest))
  | .subjBNode =>
    match a with
    | .fail => .err (endCls e)
    | .rune c rest => subjectOf x (termBNode C e env (c :: rest))
  | .pol =>
    match a with
    | .fail => .err (endCls e)
    | .rune c rest => stepPOL C e x env c rest
  | .polContinue =>
    match a with
    | .fail => .err (endCls e)
    | .rune c rest =>
      if c = 0x3b then .ok { cur := some ⟨x, .pol⟩, push := [⟨x, .polContinue⟩], inp := rest, env := env }
      else .ok { inp := c :: rest, env := env }
  | .polRequired =>
    match a with
    | .fail => .err (endCls e)
    | .rune c rest =>
      match stepPOL C e x env c rest with
      | .ok o => if o.cur.isNone then .err .syntax else .ok o
      | r => r
  | .objListContinue =>
    match a with
    | .fail => .err (endCls e)
    | .rune c rest =>
      if c = 0x2c then .ok { cur := some ⟨x, .object⟩, push := [⟨x, .objListContinue⟩], inp := rest, env := env }
      else .ok { inp := c :: rest, env := env }
  | .object =>
    match a with
    | .fail => .err (endCls e)
    | .rune c rest => stepObject C e x env c rest
  | .objectPName =>
    match a with
    | .fail => .err (endCls e)
    | .rune c rest => emitOfTerm x (termPName C e env (c :: rest))
  | .collOpenObj =>
    match a with
    | .fail => .err (endCls e)
    | .rune c rest => stepCollection x env.fresh.2 c rest env.fresh.1
  | .collOpenSubj o => stepCollection x env a.orNul.1 a.orNul.2 o
  | .collContinue =>
    match a with
    | .fail => .err (endCls e)
    | .rune c rest =>
      if c = 0x29 then
        .ok { emit := some { s := x.subj, p := some (.iri rdfRest), o := .iri rdfNil, g := x.graph }, inp := rest, env := env }
      else
        let nx := { x with subj := some env.fresh.1 }
        .ok { cur := some ⟨nx, .object⟩, push := [⟨nx, .collContinue⟩],
              emit := some { s := x.subj, p := some (.iri rdfRest), o := env.fresh.1, g := x.graph },
              inp := c :: rest, env := env.fresh.2 }
  | .bnplEnd =>
    match a with
    | .fail => .err (endCls e)
    | .rune c rest => if c = 0x5d then .ok { inp := rest, env := env } else .err .syntax
  | .parenTop bn => stepParen true x env bn a
  | .parenBlock bn => stepParen false x env bn a
  | .graphLabel =>
    match a with
    | .fail => .err (endCls e)
    | .rune c rest =>
      if c = 0x5b then .ok { cur := some ⟨x, .graphAnonClose⟩, inp := rest, env := env }
      else
        let tr := if c = 0x5f then termBNode C e env (c :: rest)
                  else if c = 0x3c then termIRIREF C e env (c :: rest)
                  else termPName C e env (c :: rest)
        match tr with
        | .panic => .panic
        | .err t => .err t
        | .ok g r env' => .ok { cur := some ⟨{ x with graph := some g }, .wrappedGraph⟩, inp := r, env := env' }
  | .graphAnonClose =>
    let c := a.orNul.1
    let rest := a.orNul.2
    if c ≠ 0x5d then .err .syntax
    else .ok { cur := some ⟨{ x with graph := some env.fresh.1 }, .wrappedGraph⟩, inp := rest, env := env.fresh.2 }
  | .wrappedGraph => stepWrappedGraph e x env a
  | .wrappedGraphEnd =>
    match a with
    | .fail => .err (endCls e)
    | .rune c rest => if c ≠ 0x7d then .err .syntax else .ok { inp := rest, env := env }
  | .triplesBlock =>
    match a with
    | .fail => .err (endCls e)
    | .rune c rest =>
      if c = 0x7d then .ok { inp := c :: rest, env := env }
      else .ok { cur := some ⟨x, .triples⟩, push := [⟨x, .triplesBlockQuest⟩], inp := c :: rest, env := env }
  | .triplesBlockQuest =>
    match a with
    | .fail => .err (endCls e)
    | .rune c rest =>
      if c = 0x2e then .ok { cur := some ⟨x, .triplesBlock⟩, inp := rest, env := env }
      else if c = 0x7d then .ok { inp := c :: rest, env := env }
      else .ok { cur := some ⟨x, .triplesBlock⟩, inp := c :: rest, env := env }
  | .triples =>
    match a with
    | .fail => .err (endCls e)
    | .rune c rest => stepTriples C x env c rest
  | .tgE1 v =>
    let c := a.orNul.1
    let rest := a.orNul.2
    if c = 0x7b then
      let x' := { x with graph := some v }
      .ok { cur := some ⟨x', .triplesBlock⟩, push := [⟨x', .wrappedGraphEnd⟩], inp := rest, env := env }
    else
      match v with
      | .lit .. => .panic                     -- `value.(rdf.SubjectValue)`
      | _ =>
        let x' := { x with subj := some v }
        .ok { cur := some ⟨x', .polRequired⟩, push := [⟨x', .triplesEnd⟩, ⟨x', .polContinue⟩],
              inp := c :: rest, env := env }
  | .tgBracket bn =>
    let c := a.orNul.1
    let rest := a.orNul.2
    if c = 0x5d then .ok { cur := some ⟨x, .tgE1 bn⟩, inp := rest, env := env }
    else .ok { cur := some ⟨{ x with subj := some bn }, .triples2BNPL⟩, inp := c :: rest, env := env }
  | .triples2BNPL =>
    match a with
    | .fail => .err (endCls e)
    | .rune c rest =>
      if c = 0x5d then
        .ok { cur := some ⟨x, .pol⟩, push := [⟨x, .triplesEnd⟩, ⟨x, .polContinue⟩], inp := rest, env := env }
      else
        .ok { cur := some ⟨x, .pol⟩,
              push := [⟨x, .triplesEnd⟩, ⟨x, .polContinue⟩, ⟨x, .pol⟩, ⟨x, .bnplEnd⟩, ⟨x, .polContinue⟩],
              inp := c :: rest, env := env }

/-! ### `scan`: white space and comments before every scan function -/

inductive Skip where
  | rune (c : Nat) (rest : List Nat)
  | end_          -- the scan function is called with `err` (repaired D13: also from inside a comment at EOF)
  | commentIo     -- a non-EOF read error inside a comment is returned as it is
  deriving Repr

def skipWs (C : Cfg) (e : End) : Bool → List Nat → Skip
  | false, [] => .end_
  | true, [] => (match e with | .eof => .end_ | .ioerr => .commentIo)
  | true, c :: rest => if c = 0x0a ∨ c = 0x0d then skipWs C e false rest else skipWs C e true rest
  | false, c :: rest =>
    if c = 0x23 then skipWs C e true rest
    else if isWs C c then skipWs C e false rest
    else .rune c rest

/-! ### The decoder object: `Next`, `Err`, accessors -/

structure St where
  stack : List Frame          -- head = top
  inp : List Nat
  env : Env
  err : Option EClass := none -- `r.err`
  stmts : List Stmt := []     -- `r.statements`
  deriving Repr

inductive ScanRes where
  | ok (cur : Option Frame) (st : St)
  | err (e : EClass)
  | panic

/-- `r.scan(ectx, fn)`: skip white space and comments, then call the scan function. -/
def scanFn (C : Cfg) (e : End) (f : Frame) (inp : List Nat) (env : Env) : FnRes :=
  match skipWs C e false inp with
  | .commentIo => .err .io
  | .end_ => stepFn C e f.k f.x env .fail
  | .rune c rest => stepFn C e f.k f.x env (.rune c rest)

/-- The effects of a scan-function call on the decoder (stack without the frame being run). -/
def applyOut (st : St) (o : Out) : St :=
  { st with
    stack := if o.term then [] else o.push.reverse ++ st.stack
    inp := o.inp
    env := o.env
    stmts := st.stmts ++ o.emit.toList }

def scan (C : Cfg) (e : End) (f : Frame) (st : St) : ScanRes :=
  match scanFn C e f st.inp st.env with
  | .panic => .panic
  | .err k => .err k
  | .ok o => .ok o.cur (applyOut st o)

inductive NextRes where
  | yes (st : St)      -- Next() = true
  | no (st : St)       -- Next() = false
  | panic
  | outOfFuel
  deriving Repr

/-- `rsNext` if set, else the top of the stack (popped). -/
def popFrame (cur : Option Frame) (st : St) : Option (Frame × St) :=
  match cur with
  | some f => some (f, st)
  | none =>
    match st.stack with
    | [] => none
    | f :: s => some (f, { st with stack := s })

/-- `if rsNext.fn != nil { r.pushState(rsNext.ectx, rsNext.fn) }` -/
def pushCur (cur : Option Frame) (st : St) : St :=
  match cur with
  | some f => { st with stack := f :: st.stack }
  | none => st

/-- The `for` loop of `Next`. `cur` is `rsNext` (`none` ⇔ `rsNext.fn == nil`). -/
def nextLoop (C : Cfg) (e : End) : Nat → Option Frame → St → NextRes
  | 0, _, _ => .outOfFuel
  | fuel + 1, cur, st =>
    if st.err.isSome then .no st
    else if !st.stmts.isEmpty then .yes (pushCur cur st)
    else
      match popFrame cur st with
      | none => .no st
      | some (f, st1) =>
        match scan C e f st1 with
        | .panic => .panic
        | .err k => nextLoop C e fuel none { st1 with err := some k }
        | .ok cur' st2 => nextLoop C e fuel cur' st2

/-! ### Step budget: a potential that every loop iteration of `Next` decreases -/

/-- Price of one buffered rune. NUL is cheap: it is the only rune the machine itself can put into
    the buffer (`Arg.orNul`). -/
def runeCost (c : Nat) : Nat := if c = 0 then 4 else 64

def inputCost : List Nat → Nat
  | [] => 0
  | c :: rest => runeCost c + inputCost rest

/-- Weight of a frame (in `rsNext` or on the stack). -/
def Cont.weight : Cont → Nat
  | .statement | .subjIRIREF | .subjPName | .subjBNode | .objectPName => 1
  | .triplesBlockQuest => 3
  | .parenTop _ | .parenBlock _ => 16
  | .tgE1 _ => 12
  | .triples2BNPL | .subjAnonOrBNPL => 14
  | .tgBracket _ => 20
  | _ => 2

/-- Scan functions that, whatever they are called with, consume a rune, fail, or hand over to such
    a function without pushing anything: no surcharge while they are the next to run. -/
def Cont.ready : Cont → Bool
  | .subjIRIREF | .subjPName | .subjBNode | .object | .objectPName | .triples => true
  | _ => false

def framesCost : List Frame → Nat
  | [] => 0
  | f :: s => f.k.weight + framesCost s

/-- surcharge for the frame that runs next (`rsNext`, else the top of the stack) -/
def readyCost : List Frame → Nat
  | [] => 0
  | f :: _ => if f.k.ready then 0 else 40

def potential (cur : Option Frame) (st : St) : Nat :=
  inputCost st.inp + framesCost (cur.toList ++ st.stack) + readyCost (cur.toList ++ st.stack) + st.stmts.length

def St.cost (st : St) : Nat := potential none st

/-- `Next()`. The fuel is the potential of the state; `next_fuel` proves it suffices. -/
def next (C : Cfg) (e : End) (st : St) : NextRes :=
  let st0 := { st with stmts := st.stmts.drop 1 }
  nextLoop C e (st0.cost + 1) none st0

inductive Verdict where
  | clean
  | error (e : EClass)
  | panic
  | outOfFuel
  deriving Repr, DecidableEq

/-- Iterate `Next()` and read `Triple()` / `Quad()` (= `r.statements[0]`) after every `true`. -/
def runLoop (C : Cfg) (e : End) : Nat → St → List Stmt × Verdict
  | 0, _ => ([], .outOfFuel)
  | n + 1, st =>
    match next C e st with
    | .panic => ([], .panic)
    | .outOfFuel => ([], .outOfFuel)
    | .no st' => ([], match st'.err with | none => .clean | some k => .error k)
    | .yes st' =>
      match st'.stmts with
      | [] => ([], .panic)                 -- `r.statements[0]` out of range
      | s :: _ => let (ss, v) := runLoop C e n st'; (s :: ss, v)

/-- `newDecoder`: one frame, default base and prefixes from the options. -/
def init (base : Option (List Nat)) (prefixes : List (List Nat × List Nat)) (inp : List Nat) : St :=
  { stack := [⟨{}, .statement⟩], inp := inp, env := { base := base, prefixes := prefixes, nextAnon := 0 } }

def run (C : Cfg) (e : End) (base : Option (List Nat)) (prefixes : List (List Nat × List Nat))
    (inp : List Nat) : List Stmt × Verdict :=
  let st := init base prefixes inp
  runLoop C e (st.cost + 1) st

end RdfModel.TtlDoc
