/-
  Proofs.C16 — assembly of the C16 theorems (statements in `Props/C16.lean`).
-/
import RdfModel.Proofs.C16Run
namespace RdfModel.Proofs.C16
open RdfModel RdfModel.NQ RdfModel.TW RdfModel.NQO RdfModel.C16

theorem run_refines (T : Tables) (urlOk : List Nat → Bool) (e : End) (legacy quads capture : Bool)
    (inp : List RP) :
    ((NQO.run T urlOk e legacy quads capture inp).stmts.map Prod.fst,
      (NQO.run T urlOk e legacy quads capture inp).verdict) = NQ.run T urlOk e quads (runes inp) := by
  unfold NQO.run NQ.run
  rw [runFuel_erase]
  simp [runes]

theorem run_stmts_ok (T : Tables) (urlOk : List Nat → Bool) (e : End) (legacy quads capture : Bool)
    (inp : List RP) :
    ∀ x ∈ (NQO.run T urlOk e legacy quads capture inp).stmts, StmtOK T urlOk inp capture x.1 x.2 :=
  runFuel_stmts_ok T urlOk e legacy quads inp capture _ false _ inp (disc_init capture inp)
    (init_isSome capture)

theorem rangeAt_of (cols : List Nat → Nat) (init : Offset) (fr un : Hist) (pre tok : List RP)
    (h1 : histRunes fr = pre) (h2 : histRunes un = pre ++ tok) :
    RangeAt cols init pre tok (histOffset cols init fr) (histOffset cols init un) := by
  refine ⟨by rw [histOffset_byte, h1], by rw [histOffset_byte, h2]; simp; omega,
    by rw [histOffset_line, h1], by rw [histOffset_line, h2, countLF_append]; omega, ?_⟩
  intro hc hs
  have hs' := hs
  simp only [runes_append, simple_append] at hs'
  exact ⟨by rw [histOffset_simple hc init fr (by rw [h1]; exact hs'.1), h1],
    by rw [histOffset_simple hc init un (by rw [h2]; exact hs), h2]⟩

theorem slots_ok (T : Tables) (urlOk : List Nat → Bool) (inp : List RP) (q : Quad (List Nat))
    (rg : Ranges) (h : StmtOK T urlOk inp true q rg) :
    ∀ x ∈ slots q rg, ∃ r, x.2.2 = some r ∧ RangeOK T urlOk inp x.1 x.2.1 r := by
  obtain ⟨h1, h2, h3, h4⟩ := h
  simp only [SlotOK, if_true] at h1 h2 h3
  intro x hx
  simp only [slots, List.mem_append, List.mem_cons, List.not_mem_nil, or_false] at hx
  rcases hx with (rfl | rfl | rfl) | hx
  · exact h1
  · exact h2
  · exact h3
  · cases hg : q.g with
    | none => simp [hg] at hx
    | some g =>
      simp only [hg, List.mem_cons, List.not_mem_nil, or_false] at hx h4
      subst hx
      simpa [SlotOK] using h4

theorem slots_none (T : Tables) (urlOk : List Nat → Bool) (inp : List RP) (q : Quad (List Nat))
    (rg : Ranges) (h : StmtOK T urlOk inp false q rg) :
    rg.s = none ∧ rg.p = none ∧ rg.o = none ∧ rg.g = none := by
  obtain ⟨h1, h2, h3, h4⟩ := h
  simp only [SlotOK, Bool.false_eq_true, if_false] at h1 h2 h3
  refine ⟨h1, h2, h3, ?_⟩
  cases hg : q.g with
  | none => simpa [hg] using h4
  | some g => simpa [hg, SlotOK] using h4

theorem evalEOff_shift (cols : List Nat → Nat) (o : Offset) (x : EOff) :
    evalEOff cols o x = shiftErrPos o (evalEOff cols zero x) := by
  cases x with
  | none => rfl
  | byte n => rfl
  | text h unc =>
    simp only [evalEOff, shiftErrPos]
    split
    · rw [histOffset_shift cols o h, write_shift]
    · rw [histOffset_shift cols o h]
  | range f u =>
    simp only [evalEOff, shiftErrPos]
    rw [histOffset_shift cols o f, histOffset_shift cols o u]

theorem report_shift (cols : List Nat → Nat) (o : Offset) (out : Out) :
    report cols o out = shiftReport o (report cols zero out) := by
  simp only [report, shiftReport, List.map_map, evalEOff_shift cols o out.eoff, Prod.mk.injEq, and_true]
  apply List.map_congr_left
  intro x _
  simp only [Function.comp, evalRanges, List.map_map, Prod.mk.injEq, true_and]
  apply List.map_congr_left
  intro r _
  cases r with
  | none => rfl
  | some r =>
    simp only [Function.comp, Option.map_some, evalRange, shiftPair]
    rw [histOffset_shift cols o r.1, histOffset_shift cols o r.2]

theorem errInside_of_bound (cols : List Nat → Nat) (init : Offset) (x : EOff) (n : Nat)
    (h : EOff.bound x ≤ n) : ErrInside init n (evalEOff cols init x) := by
  cases x with
  | none => trivial
  | byte b => simpa [evalEOff, ErrInside, EOff.bound] using h
  | text hh unc =>
    simp only [EOff.bound] at h
    simp only [evalEOff, ErrInside]
    split
    · simp [histOffset_byte]; omega
    · simp [histOffset_byte]; omega
  | range f u =>
    simp only [EOff.bound, Nat.max_le] at h
    simp only [evalEOff, ErrInside, histOffset_byte]
    omega

end RdfModel.Proofs.C16
