/-
  Part C12W — the two slice expressions that could go out of range are never reached:
  `host[openBracketIdx+1 : closeBracketIdx]` in net/url's parseHost and `resolved[1:]` in
  ParsedIRI.ResolveReference. Errors of the model are therefore never `PErr.panic`, results never `Res.panic`.
-/
import RdfModel.Proofs.C12WrapBasic
namespace RdfModel.C12W
open RdfModel.GoUrlFull RdfModel.PIRI

/-! ### resolvePath never returns the empty string on a non-empty input -/

theorem rpBody_ne_nil (elem dst : Str) (first : Bool) (h : dst ≠ []) : (RdfModel.IRI.rpBody elem dst first).1 ≠ [] := by
  unfold RdfModel.IRI.rpBody
  split
  · exact h
  · split
    · dsimp only
      split <;> simp
    · cases first <;> cases dst <;> simp_all

theorem rpLoop_ne_nil : ∀ (fuel : Nat) (rem dst : Str) (first : Bool), dst ≠ [] →
    (RdfModel.IRI.rpLoop fuel rem dst first).1 ≠ []
  | 0, _, _, _, h => by simpa [RdfModel.IRI.rpLoop] using h
  | fuel + 1, rem, dst, first, h => by
    unfold RdfModel.IRI.rpLoop
    have hb := rpBody_ne_nil (RdfModel.IRI.cutSlash rem).1 dst first h
    dsimp only
    split
    · exact rpLoop_ne_nil fuel _ _ _ hb
    · exact hb

theorem rpFinish_ne_nil (r : Str × Str) (h : r.1 ≠ []) : RdfModel.IRI.rpFinish r ≠ [] := by
  unfold RdfModel.IRI.rpFinish
  simp only
  split
  · rename_i heq
    rw [heq]; simp
  · split <;> simp [h]

theorem resolvePath_ne_nil (base : Str) (h : base ≠ []) : RdfModel.IRI.resolvePath base [] ≠ [] := by
  have hf : RdfModel.IRI.fullPath base [] = base := by simp [RdfModel.IRI.fullPath]
  unfold RdfModel.IRI.resolvePath
  simp only [hf]
  rw [if_neg h]
  exact rpFinish_ne_nil _ (rpLoop_ne_nil _ _ _ _ (by simp))

theorem resolveRel_no_panic (url : URL) (uPath refuPath : Str) (ff : Bool) : resolveRel url uPath refuPath ff ≠ .panic := by
  unfold resolveRel
  split
  · split
    · dsimp only
      split
      · split
        · rename_i hne _ _ heq
          exfalso
          refine resolvePath_ne_nil _ ?_ heq
          intro e
          rw [e] at hne
          simp at hne
        · simp
      · simp
    · simp
  · simp

theorem resolveReference_no_panic (b r : ParsedIRI) : b.resolveReference r ≠ .panic := by
  unfold ParsedIRI.resolveReference
  dsimp only
  split
  · simp
  · split
    · simp
    · split
      · simp
      · split
        · simp
        · exact resolveRel_no_panic _ _ _ _

/-! ### parseHost: with a valid port after ']' the '[' cannot come later -/

theorem lastIndexOf_drop (c : Nat) : ∀ (l : Str) (i : Nat), lastIndexOf c l = some i → c ∈ l.drop i
  | [], _, h => by simp [lastIndexOf] at h
  | x :: l, i, h => by
    unfold lastIndexOf at h
    cases hl : lastIndexOf c l with
    | some j =>
      rw [hl] at h
      simp only [Option.some.injEq] at h
      subst h
      simpa using lastIndexOf_drop c l j hl
    | none =>
      rw [hl] at h
      simp only at h
      split at h
      · rename_i hx
        simp only [Option.some.injEq] at h
        subst h; simp [hx]
      · cases h

theorem lastIndexOf_lt (c : Nat) : ∀ (l : Str) (i : Nat), lastIndexOf c l = some i → i < l.length
  | [], _, h => by simp [lastIndexOf] at h
  | x :: l, i, h => by
    unfold lastIndexOf at h
    cases hl : lastIndexOf c l with
    | some j =>
      rw [hl] at h
      simp only [Option.some.injEq] at h
      subst h
      have := lastIndexOf_lt c l j hl
      simp; omega
    | none =>
      rw [hl] at h
      simp only at h
      split at h
      · simp only [Option.some.injEq] at h
        subst h; simp
      · cases h

theorem lastIndexOf_getElem (c : Nat) : ∀ (l : Str) (i : Nat), lastIndexOf c l = some i → l[i]? = some c
  | [], _, h => by simp [lastIndexOf] at h
  | x :: l, i, h => by
    unfold lastIndexOf at h
    cases hl : lastIndexOf c l with
    | some j =>
      rw [hl] at h
      simp only [Option.some.injEq] at h
      subst h
      simpa using lastIndexOf_getElem c l j hl
    | none =>
      rw [hl] at h
      simp only at h
      split at h
      · rename_i hx
        simp only [Option.some.injEq] at h
        subst h; simp [hx]
      · cases h

theorem validOptionalPort_mem {l : Str} (h : validOptionalPort l = true) : ∀ x ∈ l, x = 0x3a ∨ isDigitC x = true := by
  cases l with
  | nil => simp
  | cons c t =>
    simp only [validOptionalPort, Bool.and_eq_true, beq_iff_eq] at h
    intro x hx
    rcases List.mem_cons.mp hx with e | e
    · exact Or.inl (e ▸ h.1)
    · exact Or.inr (List.all_eq_true.mp h.2 x e)

theorem bracket_order (host : Str) (ob cb : Nat) (ho : lastIndexOf 0x5b host = some ob)
    (hc : lastIndexOf 0x5d host = some cb) (hp : validOptionalPort (host.drop (cb + 1)) = true) : ¬ cb < ob + 1 := by
  intro hlt
  have h1 := lastIndexOf_getElem _ _ _ ho
  have h2 := lastIndexOf_getElem _ _ _ hc
  have hne : cb ≠ ob := by
    intro e; subst e; rw [h1] at h2; cases h2
  have hlt' : cb + 1 ≤ ob := by omega
  have hm : 0x5b ∈ host.drop (cb + 1) := by
    have := lastIndexOf_drop _ _ _ ho
    have e : host.drop ob = (host.drop (cb + 1)).drop (ob - (cb + 1)) := by
      rw [List.drop_drop]; congr 1; omega
    rw [e] at this
    exact List.mem_of_mem_drop this
  rcases validOptionalPort_mem hp _ hm with h | h
  · cases h
  · revert h; decide

/-! ### no error of the model is `panic` -/

theorem unescape_no_panic (mode : Mode) : ∀ (s : Str), unescape mode s ≠ .error .panic
  | [] => by simp [unescape]
  | c :: s => by
    unfold unescape
    split
    · split
      · split
        · split
          · simp
          · have := unescape_no_panic mode (by assumption : Str)
            split
            · simp
            · rename_i e he; intro h; cases h; exact this he
        · simp
      · simp
    · split
      · simp
      · have := unescape_no_panic mode s
        split
        · simp
        · rename_i e he; intro h; cases h; exact this he

theorem parseHost_no_panic (host : Str) : parseHost host ≠ .error .panic := by
  unfold parseHost
  split
  · rename_i ob ho
    split
    · simp
    · rename_i cb hc
      dsimp only
      split
      · simp
      · rename_i hp
        split
        · intro h; cases h; exact unescape_no_panic _ _ (by assumption)
        · split
          · rename_i hlt
            exact absurd hlt (bracket_order host ob cb ho hc (by simpa using hp))
          · split
            · simp
            · split
              · intro h; cases h; exact unescape_no_panic _ _ (by assumption)
              · split <;> simp
  · dsimp only
    split
    · split
      · simp
      · exact unescape_no_panic _ _
    · split
      · simp
      · exact unescape_no_panic _ _

theorem parseAuthority_no_panic (a : Str) : parseAuthority a ≠ .error .panic := by
  unfold parseAuthority
  split
  · split
    · intro h; cases h; exact parseHost_no_panic _ (by assumption)
    · simp
  · split
    · intro h; cases h; exact parseHost_no_panic _ (by assumption)
    · dsimp only
      split
      · simp
      · split
        · split
          · intro h; cases h; exact unescape_no_panic _ _ (by assumption)
          · simp
        · split
          · intro h; cases h; exact unescape_no_panic _ _ (by assumption)
          · split
            · intro h; cases h; exact unescape_no_panic _ _ (by assumption)
            · simp

theorem setPath_no_panic (u : URL) (p : Str) : setPath u p ≠ .error .panic := by
  unfold setPath
  split
  · rename_i e he; intro h; cases h; exact unescape_no_panic _ _ he
  · simp

theorem setFragment_no_panic (u : URL) (p : Str) : setFragment u p ≠ .error .panic := by
  unfold setFragment
  split
  · rename_i e he; intro h; cases h; exact unescape_no_panic _ _ he
  · simp

theorem parseRest_no_panic (scheme rest0 : Str) : parseRest scheme rest0 ≠ .error .panic := by
  unfold parseRest
  simp only
  split
  · simp
  · split
    · simp
    · split
      · split
        · rename_i e he; intro h; cases h; exact parseAuthority_no_panic _ he
        · exact setPath_no_panic _ _
      · exact setPath_no_panic _ _

theorem parseNoFrag_no_panic (raw : Str) : parseNoFrag raw ≠ .error .panic := by
  unfold parseNoFrag
  split
  · simp
  · split
    · simp
    · split
      · simp
      · exact parseRest_no_panic _ _

theorem parse_no_panic (raw : Str) : parse raw ≠ .error .panic := by
  unfold parse
  simp only
  split
  · rename_i e he; intro h; cases h; exact parseNoFrag_no_panic _ he
  · split
    · simp
    · split
      · simp
      · exact setFragment_no_panic _ _

theorem parseIRI_no_panic (s : Str) : parseIRI s ≠ .error .panic := by
  unfold parseIRI
  split
  · rename_i e he; intro h; cases h; exact parse_no_panic _ he
  · simp

end RdfModel.C12W
