package main

// Targeted families of the end-to-end part (builder-c18miss). The general generator of e2e.go draws data IRIs and
// output bases / prefix lists independently, so the combinations on which the Turtle target's two IRI shorteners
// (relative references against the encoder base, prefixed names) actually DO something are rare, and documents
// are small. Three families close that gap; each is a product of independent dimensions, all recorded in the
// report's histograms (`fam:…`):
//
//	nearbase  Turtle target × encoder base (given by --out-base OR implied by the output file's own IRI) × data
//	          IRIs built as <part of that base> + <remainder>: the part is the base's directory, its parent, its
//	          root, the base resource itself; the remainder classes are colon in the first segment (with / without
//	          '.'), colon in a later segment, empty segments ('//'), query / fragment only, dot segments, leading /
//	          trailing dots, plain siblings. Every way RelativizeIRI can cut an IRI is hit with every kind of rest
//	          that makes the cut unsafe.
//	pnlocal   Turtle target × prefix lists that cover the namespaces of the data (explicit prefix:namespace and
//	          the rdfa-context preset) × local names composed of atoms: ASCII letters / digits, '.', '-', '_', ':',
//	          percent escapes, PN_LOCAL_ESC punctuation, non-ASCII characters of 2, 3 and 4 UTF-8 bytes, characters
//	          that are PN_CHARS but not PN_CHARS_U (U+00B7, combining marks), IRI characters that no PN_LOCAL can
//	          carry (U+00D7, U+00F7, U+2030); start / middle / end drawn independently, several IRIs per namespace
//	          in one document (the encoder's prefix bookkeeping is stateful).
//	big       LARGE documents: sources whose decoder yields unlabelled blank nodes (Turtle / TriG `[ ]` and `( )`,
//	          RDF/XML without rdf:nodeID, JSON-LD node objects without @id) with more than 2^12 … more than 2^16 such
//	          nodes, arranged as a tree whose inner nodes are mentioned BEFORE and AFTER all their descendants
//	          (`[ :first … ; :item [ … ] , … ; :last … ]`), so that any bounded / recycled label table in the
//	          pipe's label provider splits or merges nodes. Compared with `bigIso` (colour refinement with hashed
//	          signatures; exact when the colouring becomes discrete, which the unique :id values guarantee).

import (
	"bytes"
	"encoding/json"
	"fmt"
	"hash/fnv"
	"path/filepath"
	"sort"
	"strings"
	"sync"

	"verifharness/vh"

	"github.com/dpb587/rdfkit-go/rdf"
)

// caseHint: what a family fixes of an e2eCase; everything else (how the types are given, file names, stdin /
// HTTP / file transport) is drawn by the general generator.
type caseHint struct {
	family string
	format string           // source format
	target string           // target format ("" = any)
	build  func(c *e2eCase) // called last: fills c.src (and, for a Turtle target, c.ttl / c.outBase)
}

// writerIRIOf: the IRI fileresource reports for the output of a case (= the encoder base without --out-base)
func (g *gen) writerIRIOf(c *e2eCase) string {
	if c.outName == "" {
		return "file:///dev/stdout"
	}
	return "file://" + filepath.Join(g.scratch, fmt.Sprintf("c%d", c.id), "o", c.outName)
}

// ---------------------------------------------------------------- shared: documents from abstract statements

var famSourceFormats = []string{"nt", "nt", "nq", "ttl", "ttl", "trig", "jsonld", "rdfxml", "html"}

// famDoc: statements over absolute IRIs written verbatim in the given source format (no prefixes, no relative
// references on the source side: the family is about the TARGET encoder).
func (g *gen) famDoc(fm string, qs []vh.GQuad) []byte {
	r := g.r
	label := func(i int) string { return fmt.Sprintf("b%d", i) }
	tbl := vh.NewBNTable(label)
	switch fm {
	case "nt", "ttl":
		b, _ := encodeNTNQ(false, false, tbl, qs)
		return b
	case "nq":
		b, _ := encodeNTNQ(true, false, tbl, qs)
		return b
	case "trig":
		return genTriG(r, qs, label)
	case "jsonld":
		return genJSONLD(r, qs, label)
	case "rdfxml":
		return genRDFXML(r, qs, label)
	}
	return genHTML(r, qs, label)
}

func gIRI(s string) vh.GTerm { return vh.GTerm{Kind: vh.KIRI, IRI: s} }

// famStatements: 2–6 statements that use every IRI of `hot` at least once (subject or object position, sometimes
// predicate), padded with ordinary vocabulary, a literal and a blank node.
func (g *gen) famStatements(hot []string, predToo bool) []vh.GQuad {
	r := g.r
	plainP := []string{"http://example.org/ns#p", "http://schema.org/name", "http://purl.org/dc/terms/subject", "http://example.org/v/rel"}
	other := func() vh.GTerm {
		switch r.Intn(5) {
		case 0:
			return vh.GTerm{Kind: vh.KBNode, BNode: r.Intn(2)}
		case 1:
			return gIRI(vh.Pick(r, vocabIRIs))
		}
		return gIRI(vh.Pick(r, hot))
	}
	var qs []vh.GQuad
	for _, h := range hot {
		q := vh.GQuad{P: gIRI(vh.Pick(r, plainP))}
		switch r.Intn(5) {
		case 0, 1:
			q.S, q.O = gIRI(h), other()
		case 2, 3:
			q.S, q.O = other(), gIRI(h)
		default:
			if predToo {
				q.S, q.P, q.O = other(), gIRI(h), other()
			} else {
				q.S, q.O = gIRI(h), gIRI(h)
			}
		}
		qs = append(qs, q)
	}
	if r.Chance(50) {
		qs = append(qs, vh.GQuad{S: gIRI(vh.Pick(r, hot)), P: gIRI(vh.Pick(r, plainP)), O: vh.GTerm{Kind: vh.KLit, Lex: vh.Pick(r, []string{"Paris", "x.", "é", "5"}), DT: vh.XSDString}})
	}
	if r.Chance(30) { // formatting order differs from the order above
		for i := len(qs) - 1; i > 0; i-- {
			j := r.Intn(i + 1)
			qs[i], qs[j] = qs[j], qs[i]
		}
	}
	return qs
}

// ---------------------------------------------------------------- family nearbase

var nbBases = []string{
	"http://example.org/wiki/Main_Page", "http://example.org/wiki/", "http://example.org/a/b/c?q=1#f", "http://example.org/doc",
	"http://example.org/", "https://example.org/a/b/c.ttl", "http://a/x/y", "file:///data/set/doc.ttl", "http://example.org/wiki/Main_Page?action=raw",
	"http://example.org/wiki/Main_Page#top",
}

type nbRem struct{ class, rem string }

// remainders: what is left of a data IRI after the part it shares with the base
var nbRems = []nbRem{
	{"colon-first", "Category:Cities"}, {"colon-first", "a:b"}, {"colon-first", "x:"}, {"colon-first", ":x"}, {"colon-first", "Category:Cities/sub"},
	{"colon-first", "a:b?q=1"}, {"colon-first", "a:b#f"}, {"colon-first", "1:2"}, {"colon-first", "urn:x"}, {"colon-first", "http:x"},
	{"colon-first+dot", "Category:Cities.html"}, {"colon-first+dot", "File:Foo.png"}, {"colon-first+dot", "a.b:c"}, {"colon-first+dot", "a:b/c.d"},
	{"colon-later", "sub/Category:Cities"}, {"colon-later", "sub/a:b.c"}, {"colon-later", "x/:"},
	{"empty-segment", "/x"}, {"empty-segment", "x//y"}, {"empty-segment", "/"}, {"empty-segment", "//x/y"}, {"empty-segment", "x/"},
	{"query-fragment", "?q=1"}, {"query-fragment", "#frag"}, {"query-fragment", "?"}, {"query-fragment", "#"}, {"query-fragment", "?a:b"}, {"query-fragment", "#a:b"},
	{"query-fragment", "?q=1#f"}, {"query-fragment", "x?y/z"}, {"query-fragment", "x#y/z:w"},
	{"dot-segment", "./a"}, {"dot-segment", "../a"}, {"dot-segment", "a/../b"}, {"dot-segment", "a/./b"}, {"dot-segment", "."}, {"dot-segment", ".."}, {"dot-segment", "a/."}, {"dot-segment", "a/.."},
	{"dots", ".hidden"}, {"dots", "..a"}, {"dots", "a."}, {"dots", "a..b"}, {"dots", "a/.b"}, {"dots", "..."}, {"dots", "a/b.c/"},
	{"plain", "Lyon"}, {"plain", "Paris.html"}, {"plain", "sub/x"}, {"plain", "é"}, {"plain", "a%20b"}, {"plain", "a;b=c"}, {"plain", "@x"},
	{"empty", ""},
}

var nbRemClasses = []string{"colon-first", "colon-first", "colon-first", "colon-first+dot", "colon-later", "empty-segment", "query-fragment", "query-fragment", "dot-segment", "dots", "plain", "plain", "empty"}

// nbParts: the prefixes of the base an IRI can share with it — the base without fragment, without query
// ("resource"), its directory, the parent directory, the root; "other" = another authority / scheme.
func nbParts(base string) map[string]string {
	m := map[string]string{}
	noFrag, _, _ := strings.Cut(base, "#")
	res, _, _ := strings.Cut(noFrag, "?")
	m["base"] = base
	m["nofragment"] = noFrag
	m["resource"] = res
	scheme, rest, _ := strings.Cut(res, "://")
	auth, path, hasPath := strings.Cut(rest, "/")
	root := scheme + "://" + auth + "/"
	m["root"] = root
	if !hasPath {
		m["directory"], m["parent"] = root, root
		return m
	}
	dir := path
	if i := strings.LastIndex(dir, "/"); i >= 0 {
		dir = dir[:i+1]
	} else {
		dir = ""
	}
	m["directory"] = root + dir
	par := strings.TrimSuffix(dir, "/")
	if i := strings.LastIndex(par, "/"); i >= 0 {
		par = par[:i+1]
	} else {
		par = ""
	}
	m["parent"] = root + par
	return m
}

func (g *gen) nearbaseHint() caseHint {
	r := g.r
	fm := vh.Pick(r, famSourceFormats)
	return caseHint{family: "nearbase", format: fm, target: "ttl", build: func(c *e2eCase) {
		o := ttlOpts{}
		switch r.Intn(8) { // iris.useBase: mostly on (default or explicit)
		case 0:
			o.useBase = boolp(false)
		case 1, 2, 3:
			o.useBase = boolp(true)
		}
		switch r.Intn(4) {
		case 0:
			o.buffered = boolp(false)
		case 1:
			o.buffered = boolp(true)
		}
		if r.Chance(20) {
			o.resources = boolp(true)
		}
		switch r.Intn(4) { // prefixed names take precedence over relative references: mostly out of the way
		case 0:
			o.prefixes = nil // rdfa-context
		case 1:
			o.prefixes = []string{"w:http://example.org/wiki/", "e:http://example.org/"}
		default:
			o.prefixes = []string{"none"}
		}
		baseHow := "writer-iri"
		if r.Chance(65) {
			c.outBase = vh.Pick(r, nbBases)
			baseHow = "out-base"
		}
		base := c.outBase
		if base == "" {
			base = g.writerIRIOf(c)
		}
		parts := nbParts(base)
		var hot []string
		for k, n := 0, 1+r.Intn(3); k < n; k++ {
			cls := vh.Pick(r, nbRemClasses)
			var pool []nbRem
			for _, x := range nbRems {
				if x.class == cls {
					pool = append(pool, x)
				}
			}
			rem := vh.Pick(r, pool)
			part := vh.Pick(r, []string{"directory", "directory", "directory", "directory", "resource", "nofragment", "parent", "root", "base"})
			v := parts[part] + rem.rem
			if part == "resource" || part == "nofragment" || part == "base" {
				// "…/Main_Page" + "Category:Cities" would be a plain sibling: glue with what may follow a resource
				if rem.rem != "" && !strings.ContainsAny(rem.rem[:1], "?#/") {
					v = parts[part] + "/" + rem.rem
				}
			}
			hot = append(hot, v)
			g.rep.Count("fam:nearbase:remainder:" + rem.class)
			g.rep.Count("fam:nearbase:shares:" + part)
		}
		if r.Chance(40) {
			hot = append(hot, vh.Pick(r, []string{"http://other.example/wiki/Category:Cities", "https://example.org/wiki/Paris", "urn:example:a:b", "http://example.org:8080/wiki/x"}))
		}
		g.rep.Count("fam:nearbase:base-from:" + baseHow)
		g.rep.Count(fmt.Sprintf("fam:nearbase:useBase=%s", triName(o.useBase)))
		c.ttl = o
		c.outParam = o.params()
		c.src = sourceDoc{fm, "fam-nearbase", g.famDoc(fm, g.famStatements(hot, r.Chance(30)))}
	}}
}

func triName(b *bool) string {
	if b == nil {
		return "default"
	}
	return fmt.Sprint(*b)
}

// ---------------------------------------------------------------- family pnlocal

type pnNS struct {
	ns     string
	prefix string // iris.usePrefix entry that covers it ("" = covered by the rdfa-context preset)
}

var pnNamespaces = []pnNS{
	{"http://dbpedia.org/resource/", "dbr:http://dbpedia.org/resource/"},
	{"http://example.org/ns#", "ex:http://example.org/ns#"},
	{"http://example.com/vocab/", "v:http://example.com/vocab/"},
	{"http://example.org/", ":http://example.org/"},
	{"http://schema.org/", ""},
	{"http://purl.org/dc/terms/", ""},
	{"http://xmlns.com/foaf/0.1/", ""},
}

type pnAtom struct{ class, s string }

var pnAtoms = []pnAtom{
	{"ascii", "Apple"}, {"ascii", "x"}, {"ascii", "Inc"}, {"ascii", "S"}, {"ascii", "A"}, {"ascii", "_"}, {"ascii", "_S"},
	{"digit", "3"}, {"digit", "42"}, {"digit", "0"},
	{"dot", "."}, {"dot", ".."},
	{"hyphen", "-"},
	{"colon", ":"},
	{"percent", "%41"}, {"percent", "%C3%A9"}, {"percent", "%2e"},
	{"esc-punct", "~"}, {"esc-punct", "!"}, {"esc-punct", "$"}, {"esc-punct", "&"}, {"esc-punct", "'"}, {"esc-punct", "("}, {"esc-punct", ")"}, {"esc-punct", "*"},
	{"esc-punct", "+"}, {"esc-punct", ","}, {"esc-punct", ";"}, {"esc-punct", "="}, {"esc-punct", "@"}, {"esc-punct", "/"},
	{"utf8-2", "é"}, {"utf8-2", "ü"}, {"utf8-2", "Ñ"},
	{"utf8-3", "日本"}, {"utf8-3", "—"}, {"utf8-3", "ẞ"},
	{"utf8-4", "𝒳"}, {"utf8-4", "😀"},
	{"pnchars-not-start", "·"}, {"pnchars-not-start", "́"}, {"pnchars-not-start", "‿"},
	{"unrepresentable", "×"}, {"unrepresentable", "÷"}, {"unrepresentable", "‰"},
}

var pnStart = []string{"ascii", "ascii", "ascii", "digit", "dot", "hyphen", "colon", "percent", "utf8-2", "utf8-3", "utf8-4", "pnchars-not-start", "esc-punct"}
var pnMid = []string{"ascii", "ascii", "dot", "hyphen", "colon", "percent", "esc-punct", "utf8-2", "utf8-2", "utf8-3", "utf8-4", "pnchars-not-start", "digit", "unrepresentable"}
var pnEnd = []string{"ascii", "ascii", "dot", "dot", "dot", "hyphen", "colon", "percent", "utf8-2", "utf8-3", "digit", "esc-punct", "pnchars-not-start"}

func (g *gen) pnAtom(class string) string {
	var pool []string
	for _, a := range pnAtoms {
		if a.class == class {
			pool = append(pool, a.s)
		}
	}
	return vh.Pick(g.r, pool)
}

// pnLocal: start · middle* · end, each atom class drawn independently; returns the feature set for the histogram
func (g *gen) pnLocal(hashNS bool) (string, []string) {
	r := g.r
	for {
		var classes []string
		classes = append(classes, vh.Pick(r, pnStart))
		for n := r.Intn(4); n > 0; n-- {
			classes = append(classes, vh.Pick(r, pnMid))
		}
		if r.Chance(85) {
			classes = append(classes, vh.Pick(r, pnEnd))
		}
		var sb strings.Builder
		for _, c := range classes {
			sb.WriteString(g.pnAtom(c))
		}
		s := sb.String()
		if hashNS && strings.ContainsAny(s, "/") && r.Chance(50) {
			continue
		}
		feat := map[string]bool{}
		rs := []rune(s)
		if rs[len(rs)-1] == '.' {
			feat["trailing-dot"] = true
		}
		if rs[0] == '.' {
			feat["leading-dot"] = true
		}
		if rs[0] >= '0' && rs[0] <= '9' {
			feat["leading-digit"] = true
		}
		if rs[0] == '-' {
			feat["leading-hyphen"] = true
		}
		for _, c := range rs {
			switch {
			case c >= 0x10000:
				feat["non-ascii"], feat["utf8-4"] = true, true
			case c >= 0x800:
				feat["non-ascii"], feat["utf8-3"] = true, true
			case c >= 0x80:
				feat["non-ascii"], feat["utf8-2"] = true, true
			case c == '%':
				feat["percent"] = true
			case c == ':':
				feat["colon"] = true
			}
			if c == '×' || c == '÷' || c == '‰' {
				feat["unrepresentable"] = true
			}
		}
		if feat["non-ascii"] && feat["trailing-dot"] {
			feat["non-ascii+trailing-dot"] = true
		}
		if len(feat) == 0 {
			feat["plain"] = true
		}
		var fs []string
		for k := range feat {
			fs = append(fs, k)
		}
		sort.Strings(fs)
		return s, fs
	}
}

func (g *gen) pnlocalHint() caseHint {
	r := g.r
	fm := vh.Pick(r, famSourceFormats)
	return caseHint{family: "pnlocal", format: fm, target: "ttl", build: func(c *e2eCase) {
		o := ttlOpts{}
		tri := func() *bool {
			switch r.Intn(3) {
			case 0:
				return boolp(true)
			case 1:
				return boolp(false)
			}
			return nil
		}
		o.buffered, o.resources = tri(), tri()
		if r.Chance(25) {
			o.useBase = boolp(false)
		}
		if r.Chance(15) {
			c.outBase = vh.Pick(r, []string{"http://example.org/base/doc", "http://dbpedia.org/resource/Main", "http://example.com/vocab/x"})
		}
		nss := []pnNS{vh.Pick(r, pnNamespaces)}
		if r.Chance(40) {
			nss = append(nss, vh.Pick(r, pnNamespaces))
		}
		preset := false
		var user []string
		for _, n := range nss {
			if n.prefix == "" {
				preset = true
			} else {
				user = append(user, n.prefix)
			}
		}
		switch {
		case preset && len(user) == 0 && r.Chance(50):
			o.prefixes = nil // default = rdfa-context
		case preset || r.Chance(30):
			o.prefixes = append([]string{"rdfa-context"}, user...)
		default:
			o.prefixes = user
		}
		var hot []string
		for _, n := range nss {
			for k, cnt := 0, 2+r.Intn(3); k < cnt; k++ {
				local, feats := g.pnLocal(strings.HasSuffix(n.ns, "#"))
				hot = append(hot, n.ns+local)
				for _, f := range feats {
					g.rep.Count("fam:pnlocal:local:" + f)
				}
			}
			if n.prefix == "" {
				g.rep.Count("fam:pnlocal:prefix:rdfa-context")
			} else {
				g.rep.Count("fam:pnlocal:prefix:explicit")
			}
		}
		g.rep.Count(fmt.Sprintf("fam:pnlocal:buffered=%s,resources=%s", triName(o.buffered), triName(o.resources)))
		c.ttl = o
		c.outParam = o.params()
		c.src = sourceDoc{fm, "fam-pnlocal", g.famDoc(fm, g.famStatements(hot, r.Chance(40)))}
	}}
}

// ---------------------------------------------------------------- family big

type bigShape struct {
	name   string
	format string
}

var bigShapes = []bigShape{
	{"ttl-collection", "ttl"}, {"ttl-tree", "ttl"}, {"trig-tree", "trig"}, {"rdfxml-tree", "rdfxml"}, {"jsonld-tree", "jsonld"}, {"trig-collection", "trig"},
}

// bigSizes: numbers of unlabelled nodes; the boundaries 2^12 and 2^16 from both sides of "more than", multiples
var bigSizesQuick = []int{4100, 4100, 5000, 8200, 12500, 66000}
var bigSizesThorough = []int{4095, 4096, 4097, 4100, 5000, 8191, 8193, 12500, 16400, 33000, 65535, 65537, 66000, 131100}

// bigDoc: a tree of anonymous nodes. The root is described before and after `groups` group nodes, each of which is
// described before and after its items; every node carries a unique :id (so the colouring of bigIso is discrete).
// n = total number of anonymous nodes (approximately; at least n).
func bigDoc(shape string, n int, groups int) []byte {
	var sb bytes.Buffer
	per := n - 1
	if groups > 0 {
		per = (n - 1 - groups + groups - 1) / groups
	}
	id := 0
	next := func() int { id++; return id }
	switch shape {
	case "ttl-collection", "trig-collection":
		// [ :first "a" ; :items ( "i1" "i2" … ) ; :last "z" ]: the list nodes are the anonymous nodes
		sb.WriteString("@prefix : <http://example.org/ns#> .\n")
		if shape == "trig-collection" {
			sb.WriteString("{\n")
		}
		sb.WriteString("[ :first \"a\" ; :items (")
		for i := 0; i < n-1; i++ {
			if i%8 == 0 {
				sb.WriteString("\n ")
			}
			fmt.Fprintf(&sb, " \"i%d\"", next())
		}
		sb.WriteString(" ) ; :last \"z\" ] .\n")
		if shape == "trig-collection" {
			sb.WriteString("}\n")
		}
	case "ttl-tree", "trig-tree":
		sb.WriteString("@prefix : <http://example.org/ns#> .\n")
		if shape == "trig-tree" {
			sb.WriteString("{\n")
		}
		sb.WriteString("[] :first \"a\" ;\n")
		item := func() { fmt.Fprintf(&sb, "[ :id %d ]", next()) }
		if groups == 0 {
			sb.WriteString(" :item ")
			for i := 0; i < per; i++ {
				if i > 0 {
					sb.WriteString(" ,\n  ")
				}
				item()
			}
			sb.WriteString(" ;\n")
		} else {
			for gI := 0; gI < groups; gI++ {
				fmt.Fprintf(&sb, " :group [ :gfirst %d ; :item ", next())
				for i := 0; i < per; i++ {
					if i > 0 {
						sb.WriteString(" ,\n  ")
					}
					item()
				}
				fmt.Fprintf(&sb, " ; :glast %d ] ;\n", id)
			}
		}
		sb.WriteString(" :last \"z\" .\n")
		if shape == "trig-tree" {
			sb.WriteString("}\n")
		}
	case "rdfxml-tree":
		sb.WriteString("<rdf:RDF xmlns:rdf=\"http://www.w3.org/1999/02/22-rdf-syntax-ns#\" xmlns:ex=\"http://example.org/ns#\">\n<rdf:Description><ex:first>a</ex:first>\n")
		item := func() {
			fmt.Fprintf(&sb, "<ex:item><rdf:Description><ex:id>%d</ex:id></rdf:Description></ex:item>\n", next())
		}
		if groups == 0 {
			for i := 0; i < per; i++ {
				item()
			}
		} else {
			for gI := 0; gI < groups; gI++ {
				fmt.Fprintf(&sb, "<ex:group rdf:parseType=\"Resource\"><ex:gfirst>%d</ex:gfirst>\n", next())
				for i := 0; i < per; i++ {
					item()
				}
				fmt.Fprintf(&sb, "<ex:glast>%d</ex:glast></ex:group>\n", id)
			}
		}
		sb.WriteString("<ex:last>z</ex:last></rdf:Description>\n</rdf:RDF>\n")
	default: // jsonld-tree
		items := func() []any {
			var l []any
			for i := 0; i < per; i++ {
				l = append(l, map[string]any{"id": next()})
			}
			return l
		}
		doc := map[string]any{"@context": map[string]any{"@vocab": "http://example.org/ns#"}, "first": "a", "last": "z"}
		if groups == 0 {
			doc["item"] = items()
		} else {
			var gs []any
			for gI := 0; gI < groups; gI++ {
				gid := next()
				gs = append(gs, map[string]any{"gfirst": gid, "item": items(), "glast": id})
			}
			doc["group"] = gs
		}
		b, _ := json.Marshal(doc)
		sb.Write(b)
		sb.WriteByte('\n')
	}
	return sb.Bytes()
}

func (g *gen) bigHint(k int) caseHint {
	r := g.r
	sizes := bigSizesQuick
	if *tier == "thorough" {
		sizes = bigSizesThorough
	}
	n := sizes[k%len(sizes)]
	shape := vh.Pick(r, bigShapes)
	if n > 20000 && shape.format == "jsonld" {
		shape = bigShape{"ttl-tree", "ttl"}
	}
	groups := 0
	if strings.HasSuffix(shape.name, "-tree") && r.Chance(50) {
		groups = vh.Pick(r, []int{2, 7, 40})
	}
	return caseHint{family: "big", format: shape.format, build: func(c *e2eCase) {
		c.src = sourceDoc{shape.format, fmt.Sprintf("fam-big:%s:n=%d:groups=%d", shape.name, n, groups), bigDoc(shape.name, n, groups)}
		g.rep.Count("fam:big:shape:" + shape.name)
		switch {
		case n > 65536:
			g.rep.Count("fam:big:nodes:>2^16")
		case n > 4096:
			g.rep.Count("fam:big:nodes:>2^12")
		default:
			g.rep.Count("fam:big:nodes:<=2^12")
		}
		g.rep.Count(fmt.Sprintf("fam:big:groups:%d", groups))
	}}
}

// ---------------------------------------------------------------- isomorphism for large datasets

const bigThreshold = 2500 // quads; above it vh.Isomorphic (quadratic ordering, string signatures) is too slow

type bigQuad struct {
	t  [4]int32 // blank node index or -1
	gk [4]uint64
}

type bigSide struct {
	nbn   int
	quads []bigQuad
}

func h64(parts ...uint64) uint64 {
	h := uint64(14695981039346656037)
	for _, p := range parts {
		for i := 0; i < 8; i++ {
			h ^= (p >> (8 * i)) & 0xff
			h *= 1099511628211
		}
	}
	return h
}

func hstr(s string) uint64 {
	h := fnv.New64a()
	h.Write([]byte(s))
	return h.Sum64()
}

func bigGround(t rdf.Term) uint64 {
	switch v := t.(type) {
	case nil:
		return 1
	case rdf.IRI:
		return hstr("I" + string(v))
	case rdf.Literal:
		tag := ""
		switch x := v.Tag.(type) {
		case nil:
		case rdf.LanguageLiteralTag:
			tag = "@" + x.Language
		default:
			tag = fmt.Sprintf("?%#v", v.Tag)
		}
		return hstr(fmt.Sprintf("L%d:%s%d:%s%s", len(v.Datatype), v.Datatype, len(v.LexicalForm), v.LexicalForm, tag))
	}
	return hstr(fmt.Sprintf("?%#v", t))
}

func bigSideOf(qs []rdf.Quad) *bigSide {
	s := &bigSide{}
	idx := map[rdf.BlankNodeIdentifier]int32{}
	seen := map[[4]uint64]struct{}{}
	for _, q := range qs {
		var bq bigQuad
		var gn rdf.Term
		if q.GraphName != nil {
			gn = q.GraphName
		}
		var ident [4]uint64
		for i, t := range []rdf.Term{q.Triple.Subject, q.Triple.Predicate, q.Triple.Object, gn} {
			if b, ok := t.(rdf.BlankNode); ok {
				j, have := idx[b.Identifier]
				if !have {
					j = int32(len(idx))
					idx[b.Identifier] = j
				}
				bq.t[i] = j
				ident[i] = h64(7, uint64(j))
			} else {
				bq.t[i] = -1
				bq.gk[i] = bigGround(t)
				ident[i] = bq.gk[i]
			}
		}
		if _, dup := seen[ident]; dup { // set semantics, as vh.Isomorphic
			continue
		}
		seen[ident] = struct{}{}
		s.quads = append(s.quads, bq)
	}
	s.nbn = len(idx)
	return s
}

// refine: `rounds` rounds of colour refinement; returns the colours, the number of classes
func (s *bigSide) refine(rounds int) ([]uint64, int) {
	col := make([]uint64, s.nbn)
	classes := 0
	if s.nbn > 0 {
		classes = 1
	}
	for round := 0; round < rounds; round++ {
		sigs := make([][]uint64, s.nbn)
		for _, q := range s.quads {
			for i := 0; i < 4; i++ {
				n := q.t[i]
				if n < 0 {
					continue
				}
				// the quad as seen from n: ground keys, n's own positions, colours of the other nodes
				var parts [4]uint64
				for j := 0; j < 4; j++ {
					switch {
					case q.t[j] < 0:
						parts[j] = q.gk[j]
					case q.t[j] == n:
						parts[j] = 3
					default:
						parts[j] = h64(5, col[q.t[j]])
					}
				}
				first := true
				for j := 0; j < i; j++ {
					if q.t[j] == n {
						first = false
					}
				}
				if first {
					sigs[n] = append(sigs[n], h64(parts[0], parts[1], parts[2], parts[3]))
				}
			}
		}
		next := make([]uint64, s.nbn)
		set := map[uint64]struct{}{}
		for n := range sigs {
			sort.Slice(sigs[n], func(a, b int) bool { return sigs[n][a] < sigs[n][b] })
			next[n] = h64(append([]uint64{col[n]}, sigs[n]...)...)
			set[next[n]] = struct{}{}
		}
		col = next
		if len(set) == classes {
			break
		}
		classes = len(set)
	}
	return col, classes
}

func (s *bigSide) coloured(col []uint64) []uint64 {
	out := make([]uint64, len(s.quads))
	for i, q := range s.quads {
		var parts [4]uint64
		for j := 0; j < 4; j++ {
			if q.t[j] < 0 {
				parts[j] = q.gk[j]
			} else {
				parts[j] = h64(5, col[q.t[j]])
			}
		}
		out[i] = h64(parts[0], parts[1], parts[2], parts[3])
	}
	sort.Slice(out, func(a, b int) bool { return out[a] < out[b] })
	return out
}

// bigIso: a and b as sets of quads up to renaming of blank nodes. `exact` = the refinement separated all blank
// nodes on both sides, so equal coloured quad multisets ARE an isomorphism (up to 64-bit hash collisions); when
// it is not exact a `true` answer only means "not refuted" (same node / quad counts, same refined signature
// multiset). A `false` answer is always definite.
func bigIso(a, b []rdf.Quad) (iso bool, exact bool) {
	sa, sb := bigSideOf(a), bigSideOf(b)
	if sa.nbn != sb.nbn || len(sa.quads) != len(sb.quads) {
		return false, true
	}
	ca, na := sa.refine(24)
	cb, nb := sb.refine(24)
	if na != nb {
		return false, true
	}
	qa, qb := sa.coloured(ca), sb.coloured(cb)
	for i := range qa {
		if qa[i] != qb[i] {
			return false, true
		}
	}
	return true, na == sa.nbn && nb == sb.nbn
}

// isoQuads: the isomorphism oracle of the end-to-end part — vh.Isomorphic for ordinary documents, bigIso above
// the threshold.
func isoQuads(a, b []rdf.Quad) bool {
	if len(a) <= bigThreshold && len(b) <= bigThreshold {
		return vh.Isomorphic(a, b)
	}
	iso, exact := bigIso(a, b)
	bigStats.Lock()
	switch {
	case !iso:
		bigStats.n["e2e:big-compare:refuted"]++
	case exact:
		bigStats.n["e2e:big-compare:isomorphic(exact)"]++
	default:
		bigStats.n["e2e:big-compare:not-refuted(inexact)"]++
	}
	bigStats.Unlock()
	return iso
}

// evaluation runs in parallel; the report is not safe for concurrent use
var bigStats = struct {
	sync.Mutex
	n map[string]int
}{n: map[string]int{}}

// bigIsoSelfTest: the comparator must refute a split node, a merged pair, a changed literal and accept a renaming.
func bigIsoSelfTest() error {
	mk := func(n int, split bool, merge bool, change bool, seed int) []rdf.Quad {
		f := rdf.NewBlankNodeFactory()
		nodes := make([]rdf.BlankNode, n+2)
		for i := range nodes {
			nodes[i] = f.NewBlankNode()
		}
		p := func(s string) rdf.IRI { return rdf.IRI("http://example.org/ns#" + s) }
		lit := func(s string) rdf.Literal { return rdf.Literal{Datatype: rdf.IRI(vh.XSDString), LexicalForm: s} }
		root, root2 := nodes[n], nodes[n]
		if split {
			root2 = nodes[n+1]
		}
		var qs []rdf.Quad
		add := func(s rdf.Term, pp rdf.IRI, o rdf.Term) {
			qs = append(qs, rdf.Quad{Triple: rdf.Triple{Subject: s.(rdf.SubjectValue), Predicate: pp, Object: o.(rdf.ObjectValue)}})
		}
		add(root, p("first"), lit("a"))
		for i := 0; i < n; i++ {
			k := (i*7 + seed) % n // another order of mention
			node := nodes[k]
			if merge && k == 1 {
				node = nodes[0]
			}
			add(root, p("item"), node)
			v := fmt.Sprint(k)
			if change && k == n/2 {
				v = "changed"
			}
			add(node, p("id"), lit(v))
		}
		add(root2, p("last"), lit("z"))
		return qs
	}
	const n = 3001
	base := mk(n, false, false, false, 0)
	if iso, exact := bigIso(base, mk(n, false, false, false, 5)); !iso || !exact {
		return fmt.Errorf("bigIso rejects a renamed / reordered copy (iso=%v exact=%v)", iso, exact)
	}
	if iso, _ := bigIso(base, mk(n, true, false, false, 5)); iso {
		return fmt.Errorf("bigIso accepts a split node")
	}
	if iso, _ := bigIso(base, mk(n, false, true, false, 5)); iso {
		return fmt.Errorf("bigIso accepts a merged pair")
	}
	if iso, _ := bigIso(base, mk(n, false, false, true, 5)); iso {
		return fmt.Errorf("bigIso accepts a changed literal")
	}
	return nil
}
