/-
  C09 helper lemmas, part 2: the denotation of a rendered well-formed plan is its intended triples.
-/
import RdfModel.Proofs.C09Attrs
namespace RdfModel.RX
open RdfModel RdfModel.Desc

variable (rs : Str → Str → Str)

/-! ### property attributes -/

theorem wfPAttr_isProp (env : Env) (a : PAttr) (h : wfPAttr rs env a = true) : isPropAttr a.render = true := by
  cases a with
  | lit ns name val lang =>
    simp only [wfPAttr, Bool.and_eq_true] at h
    exact h.1.1.1
  | type iri ref =>
    have h1 : badAttrName n_type = false := by decide
    have h2 : syntaxAttrName n_type = false := by decide
    simp [PAttr.render, isPropAttr, rdfNS_ne_nil, xmlNS_ne_rdfNS.symm, h1, h2]

theorem wfPAttrs_isProp (env : Env) (pattrs : List PAttr) (h : wfPAttrs rs env pattrs = true) :
    ∀ a ∈ pattrs.map PAttr.render, isPropAttr a = true := by
  intro a ha
  simp only [wfPAttrs, Bool.and_eq_true, List.all_eq_true] at h
  obtain ⟨b, hb, rfl⟩ := List.mem_map.mp ha
  exact wfPAttr_isProp rs env b (h.1 b hb)

theorem wfPAttr_triple (env : Env) (s : Term BN) (a : PAttr) (h : wfPAttr rs env a = true) :
    propAttrTriple rs env s a.render = a.triple s := by
  cases a with
  | lit ns name val lang =>
    simp only [wfPAttr, Bool.and_eq_true, Bool.not_eq_true', decide_eq_true_eq] at h
    obtain ⟨⟨⟨_, h2⟩, _⟩, h4⟩ := h
    have h2' : ¬(ns = rdfNS ∧ name = n_type) := by simpa using h2
    simp [propAttrTriple, PAttr.render, PAttr.triple, h2', h4]
  | type iri ref =>
    simp only [wfPAttr, decide_eq_true_eq] at h
    simp [propAttrTriple, PAttr.render, PAttr.triple, h]

theorem wfPAttrs_triples (env : Env) (s : Term BN) (pattrs : List PAttr) (h : wfPAttrs rs env pattrs = true) :
    (pattrs.map PAttr.render).map (propAttrTriple rs env s) = pattrs.map (PAttr.triple s) := by
  simp only [wfPAttrs, Bool.and_eq_true, List.all_eq_true] at h
  rw [List.map_map]
  apply List.map_congr_left
  intro a ha
  exact wfPAttr_triple rs env s a (h.1 a ha)

/-! ### rdf:ID -/

theorem wfId_optId (env : Env) (id : PId) (st st' : St) (h : wfId rs env id st = some st') :
    optId rs env (PId.val id) st = .ok (PId.iri id, st') := by
  cases id with
  | none => simp only [wfId, Option.some.injEq] at h; subst h; rfl
  | some p =>
    obtain ⟨iri, v⟩ := p
    simp only [wfId] at h
    split at h
    · rename_i hc
      simp only [Bool.and_eq_true, decide_eq_true_eq, Bool.not_eq_true', List.contains_eq_mem,
        decide_eq_false_iff_not] at hc
      simp only [Option.some.injEq] at h; subst h
      simp [optId, PId.val, PId.iri, useId, hc.1.1, hc.1.2, hc.2]
    · exact absurd h (by simp)

/-! ### subjects -/

theorem wfSubj_subjectOf (env : Env) (sc : Scope) (props : List Attr) (subj : Subj) (st st' : St)
    (h : wfSubj rs env st subj = some st') :
    subjectOf rs env (subj.info sc props) st = .ok (subj.term, st') := by
  cases subj with
  | about iri ref =>
    simp only [wfSubj] at h
    split at h
    · rename_i hc; simp only [Option.some.injEq] at h; subst h
      simp [subjectOf, Subj.info, Subj.term, hc]
    · exact absurd h (by simp)
  | id iri v =>
    simp only [wfSubj] at h
    have := wfId_optId rs env (some (iri, v)) st st' h
    simp only [optId, PId.val, PId.iri, Option.map] at this
    simp only [subjectOf, Subj.info, Subj.term]
    split at this
    · rename_i r st1 hu
      simp only [Except.ok.injEq, Prod.mk.injEq, Option.some.injEq] at this
      rw [this.1, this.2]
    · exact absurd this (by simp)
  | nodeID l =>
    simp only [wfSubj] at h
    split at h
    · rename_i hc; simp only [Option.some.injEq] at h; subst h
      simp [subjectOf, Subj.info, Subj.term, hc]
    · exact absurd h (by simp)
  | anon n =>
    simp only [wfSubj] at h
    split at h
    · rename_i hc; simp only [Option.some.injEq] at h; subst h; subst hc
      simp [subjectOf, Subj.info, Subj.term]
    · exact absurd h (by simp)

/-! ### property element names -/

theorem wfName_facts (li : Nat) (nm : PName) (h : wfName li nm = true) :
    ¬(nm.ns = rdfNS ∧ badPropName nm.name = true) ∧ propPred nm.ns nm.name li = nm.pred ∧
      propLi nm.ns nm.name li = nm.nextLi li := by
  cases nm with
  | el ns name =>
    simp only [wfName, Bool.and_eq_true, Bool.not_eq_true', decide_eq_true_eq, Bool.and_eq_false_iff,
      Bool.or_eq_false_iff, decide_eq_false_iff_not] at h
    obtain ⟨⟨_, _⟩, h3⟩ := h
    have hli : isLiName ns name = false := by
      simp only [isLiName, decide_eq_false_iff_not, not_and]
      intro hns
      rcases h3 with h3 | h3
      · exact absurd hns h3
      · exact h3.2
    refine ⟨?_, ?_, ?_⟩
    · simp only [PName.ns, PName.name, not_and, Bool.not_eq_true]
      intro hns
      rcases h3 with h3 | h3
      · exact absurd hns h3
      · exact h3.1
    · simp [propPred, PName.ns, PName.name, PName.pred, hli]
    · simp [propLi, PName.ns, PName.name, PName.nextLi, hli]
  | li p =>
    simp only [wfName, decide_eq_true_eq] at h
    refine ⟨?_, ?_, ?_⟩
    · simp only [PName.ns, PName.name]; decide
    · simp [propPred, PName.ns, PName.name, PName.pred, isLiName, h]
    · simp [propLi, PName.ns, PName.name, PName.nextLi, isLiName]

end RdfModel.RX

namespace RdfModel.RX
open RdfModel RdfModel.Desc

variable (rs : Str → Str → Str)

/-! ### node element names and the subject record -/

theorem Subj.info_fields (sc : Scope) (props : List Attr) (subj : Subj) :
    (subj.info sc props).props = props ∧ (subj.info sc props).bad = false ∧
    (subj.info sc props).unsup = false ∧ (subj.info sc props).resource = none ∧
    (subj.info sc props).datatype = none ∧ (subj.info sc props).parseType = none ∧
    (subj.info sc props).base = sc.base ∧ (subj.info sc props).lang = sc.lang := by
  cases subj <;> simp [Subj.info]

theorem wfTyp_facts (s : Term BN) (typ : Option (Str × Str)) (h : wfTyp typ = true) :
    ¬(typNs typ = rdfNS ∧ badNodeName (typName typ) = true) ∧
    typeTriple s (typNs typ) (typName typ) = typTriple s typ := by
  cases typ with
  | none =>
    refine ⟨?_, ?_⟩
    · simp only [typNs, typName, not_and, Bool.not_eq_true]; intro _; decide
    · simp [typeTriple, typTriple, typNs, typName]
  | some p =>
    obtain ⟨ns, name⟩ := p
    simp only [wfTyp, Bool.and_eq_true, Bool.not_eq_true', decide_eq_true_eq, Bool.and_eq_false_iff,
      Bool.or_eq_false_iff, decide_eq_false_iff_not] at h
    obtain ⟨_, h3⟩ := h
    refine ⟨?_, ?_⟩
    · simp only [typNs, typName, not_and, Bool.not_eq_true]
      intro hns
      rcases h3 with h3 | h3
      · exact absurd hns h3
      · exact h3.1
    · have : ¬(ns = rdfNS ∧ name = n_Description) := by
        intro ⟨h1, h2⟩
        rcases h3 with h3 | h3
        · exact h3 h1
        · exact h3.2 h2
      simp [typeTriple, typTriple, typNs, typName, this]

theorem textOnly_renderNode (n : PNode) (ks : List Node) : textOnly (renderNode n :: ks) = none := by
  cases n; simp [renderNode, textOnly]

theorem resKids_single (env : Env) (n : PNode) (st st1 : St) (o : Term BN) (ts : List T)
    (h : nodeElt rs env (renderNode n) st = .ok (o, ts, st1)) :
    resKids rs env [renderNode n] st = .ok (some (o, ts), st1) := by
  cases n
  simp only [renderNode] at h ⊢
  simp only [resKids, h]

/-! ### the round trip -/

mutual

theorem nodeElt_render : ∀ (n : PNode) (env : Env) (st st' : St), wfNode rs env st n = some st' →
    nodeElt rs env (renderNode n) st = .ok (n.subj, flatNode n, st')
  | .mk sc subj typ pattrs props, env, st, st', h => by
    simp only [wfNode] at h
    split at h
    · rename_i hc
      simp only [Bool.and_eq_true] at hc
      obtain ⟨htyp, hpa⟩ := hc
      obtain ⟨ht1, ht2⟩ := wfTyp_facts subj.term typ htyp
      obtain ⟨f1, f2, f3, f4, f5, f6, f7, f8⟩ := Subj.info_fields sc (pattrs.map PAttr.render) subj
      cases hs : wfSubj rs (env.push rs sc.base sc.lang) st subj with
      | none => rw [hs] at h; exact absurd h (by simp)
      | some st1 =>
        rw [hs] at h
        have hsub := wfSubj_subjectOf rs _ sc (pattrs.map PAttr.render) subj st st1 hs
        have hpl := propList_render props (env.push rs sc.base sc.lang) subj.term 0 st1 st' h
        simp only [renderNode, nodeElt]
        rw [info_stdAttrs _ (by rw [f1]; exact wfPAttrs_isProp rs _ pattrs hpa) f2 f3]
        simp only [ht1, if_false, f1, f2, f3, f4, f5, f6, f7, f8, hsub, hpl, ht2,
          wfPAttrs_triples rs _ subj.term pattrs hpa]
        simp [PNode.subj, flatNode]
    · exact absurd h (by simp)

theorem propList_render : ∀ (ps : List PProp) (env : Env) (s : Term BN) (li : Nat) (st st' : St),
    wfProps rs env li st ps = some st' →
    propList rs env s (renderProps ps) li st = .ok (flatProps s ps, st')
  | [], env, s, li, st, st', h => by
    simp only [wfProps, Option.some.injEq] at h
    simp [renderProps, propList, flatProps, h]
  | p :: ps, env, s, li, st, st', h => by
    simp only [wfProps] at h
    cases hp : wfProp rs env li st p with
    | none => rw [hp] at h; exact absurd h (by simp)
    | some r =>
      obtain ⟨li1, st1⟩ := r
      rw [hp] at h
      have h1 := propElt_render p env s li st li1 st1 hp
      have h2 := propList_render ps env s li1 st1 st' h
      simp only [renderProps, propList, h1, h2, flatProps]

theorem propElt_render : ∀ (p : PProp) (env : Env) (s : Term BN) (li : Nat) (st : St) (li' : Nat) (st' : St),
    wfProp rs env li st p = some (li', st') →
    propElt rs env s (renderProp p) li st = .ok (flatProp s p, li', st')
  | .lit sc nm id lex lang, env, s, li, st, li', st', h => by
    simp only [wfProp] at h
    split at h
    · rename_i hc
      simp only [Bool.and_eq_true, decide_eq_true_eq, ne_eq, decide_not, Bool.not_eq_true',
        decide_eq_false_iff_not] at hc
      obtain ⟨⟨hn, hlex⟩, hlang⟩ := hc
      obtain ⟨hn1, hn2, hn3⟩ := wfName_facts li nm hn
      cases hid : wfId rs (env.push rs sc.base sc.lang) id st with
      | none => rw [hid] at h; exact absurd h (by simp)
      | some st0 =>
        rw [hid] at h
        simp only [Option.map, Option.some.injEq, Prod.mk.injEq] at h
        have hoid := wfId_optId rs _ id st st0 hid
        simp only [renderProp, propElt]
        rw [info_stdAttrs _ (by simp) rfl rfl]
        simp only [hn1, if_false, hn2, hn3, hoid]
        cases lex with
        | nil => exact absurd rfl hlex
        | cons c cs => simp [textOnly, flatProp, hlang, h.1, h.2]
    · exact absurd h (by simp)
  | .typed sc nm id lex dt ref, env, s, li, st, li', st', h => by
    simp only [wfProp] at h
    split at h
    · rename_i hc
      simp only [Bool.and_eq_true, decide_eq_true_eq, ne_eq, decide_not, Bool.not_eq_true',
        decide_eq_false_iff_not] at hc
      obtain ⟨⟨⟨⟨hn, hlex⟩, hdt⟩, hnl⟩, hnd⟩ := hc
      obtain ⟨hn1, hn2, hn3⟩ := wfName_facts li nm hn
      cases hid : wfId rs (env.push rs sc.base sc.lang) id st with
      | none => rw [hid] at h; exact absurd h (by simp)
      | some st0 =>
        rw [hid] at h
        simp only [Option.map, Option.some.injEq, Prod.mk.injEq] at h
        have hoid := wfId_optId rs _ id st st0 hid
        simp only [renderProp, propElt]
        rw [info_stdAttrs _ (by simp) rfl rfl]
        simp only [hn1, if_false, hn2, hn3, hoid]
        cases lex with
        | nil => exact absurd rfl hlex
        | cons c cs => simp [textOnly, flatProp, hdt, hnl, hnd, h.1, h.2]
    · exact absurd h (by simp)
  | .empty sc nm id lang, env, s, li, st, li', st', h => by
    simp only [wfProp] at h
    split at h
    · rename_i hc
      simp only [Bool.and_eq_true, decide_eq_true_eq] at hc
      obtain ⟨hn, hlang⟩ := hc
      obtain ⟨hn1, hn2, hn3⟩ := wfName_facts li nm hn
      cases hid : wfId rs (env.push rs sc.base sc.lang) id st with
      | none => rw [hid] at h; exact absurd h (by simp)
      | some st0 =>
        rw [hid] at h
        simp only [Option.map, Option.some.injEq, Prod.mk.injEq] at h
        have hoid := wfId_optId rs _ id st st0 hid
        simp only [renderProp, propElt]
        rw [info_stdAttrs _ (by simp) rfl rfl]
        simp only [hn1, if_false, hn2, hn3, hoid]
        simp [textOnly, flatProp, hlang, h.1, h.2]
    · exact absurd h (by simp)
  | .res sc nm id iri ref pattrs, env, s, li, st, li', st', h => by
    simp only [wfProp] at h
    split at h
    · rename_i hc
      simp only [Bool.and_eq_true, decide_eq_true_eq] at hc
      obtain ⟨⟨hn, href⟩, hpa⟩ := hc
      obtain ⟨hn1, hn2, hn3⟩ := wfName_facts li nm hn
      cases hid : wfId rs (env.push rs sc.base sc.lang) id st with
      | none => rw [hid] at h; exact absurd h (by simp)
      | some st0 =>
        rw [hid] at h
        simp only [Option.map, Option.some.injEq, Prod.mk.injEq] at h
        have hoid := wfId_optId rs _ id st st0 hid
        simp only [renderProp, propElt]
        rw [info_stdAttrs _ (wfPAttrs_isProp rs _ pattrs hpa) rfl rfl]
        simp only [hn1, if_false, hn2, hn3, hoid]
        simp [textOnly, flatProp, emptyObj, href, h.1, h.2, wfPAttrs_triples rs _ _ pattrs hpa]
    · exact absurd h (by simp)
  | .bref sc nm id l pattrs, env, s, li, st, li', st', h => by
    simp only [wfProp] at h
    split at h
    · rename_i hc
      simp only [Bool.and_eq_true] at hc
      obtain ⟨⟨hn, hl⟩, hpa⟩ := hc
      obtain ⟨hn1, hn2, hn3⟩ := wfName_facts li nm hn
      cases hid : wfId rs (env.push rs sc.base sc.lang) id st with
      | none => rw [hid] at h; exact absurd h (by simp)
      | some st0 =>
        rw [hid] at h
        simp only [Option.map, Option.some.injEq, Prod.mk.injEq] at h
        have hoid := wfId_optId rs _ id st st0 hid
        simp only [renderProp, propElt]
        rw [info_stdAttrs _ (wfPAttrs_isProp rs _ pattrs hpa) rfl rfl]
        simp only [hn1, if_false, hn2, hn3, hoid]
        simp [textOnly, flatProp, emptyObj, hl, h.1, h.2, wfPAttrs_triples rs _ _ pattrs hpa]
    · exact absurd h (by simp)
  | .banon sc nm id n dt pattrs, env, s, li, st, li', st', h => by
    simp only [wfProp] at h
    split at h
    · rename_i hc
      simp only [Bool.and_eq_true, Bool.or_eq_true, Bool.not_eq_true'] at hc
      obtain ⟨⟨hn, hne⟩, hpa⟩ := hc
      obtain ⟨hn1, hn2, hn3⟩ := wfName_facts li nm hn
      cases hid : wfId rs (env.push rs sc.base sc.lang) id st with
      | none => rw [hid] at h; exact absurd h (by simp)
      | some st0 =>
        rw [hid] at h
        simp only at h
        split at h
        · rename_i hnn
          simp only [Option.some.injEq, Prod.mk.injEq] at h
          have hoid := wfId_optId rs _ id st st0 hid
          simp only [renderProp, propElt]
          rw [info_stdAttrs _ (wfPAttrs_isProp rs _ pattrs hpa) rfl rfl]
          simp only [hn1, if_false, hn2, hn3, hoid]
          subst hnn
          simp [textOnly, flatProp, emptyObj, h.1, ← h.2, wfPAttrs_triples rs _ _ pattrs hpa]
          intro hd hp
          subst hd hp
          simp at hne
        · exact absurd h (by simp)
    · exact absurd h (by simp)
  | .node sc nm id n, env, s, li, st, li', st', h => by
    simp only [wfProp] at h
    split at h
    · rename_i hn
      obtain ⟨hn1, hn2, hn3⟩ := wfName_facts li nm hn
      cases hid : wfId rs (env.push rs sc.base sc.lang) id st with
      | none => rw [hid] at h; exact absurd h (by simp)
      | some st0 =>
        rw [hid] at h
        simp only at h
        cases hnd : wfNode rs (env.push rs sc.base sc.lang) st0 n with
        | none => rw [hnd] at h; exact absurd h (by simp)
        | some st1 =>
          rw [hnd] at h
          simp only [Option.map, Option.some.injEq, Prod.mk.injEq] at h
          have hoid := wfId_optId rs _ id st st0 hid
          have hne := nodeElt_render n (env.push rs sc.base sc.lang) st0 st1 hnd
          have hrk := resKids_single rs _ n st0 st1 _ _ hne
          simp only [renderProp, propElt]
          rw [info_stdAttrs _ (by simp) rfl rfl]
          simp only [hn1, if_false, hn2, hn3, hoid, textOnly_renderNode, hrk]
          simp [flatProp, h.1, h.2]
    · exact absurd h (by simp)
  | .ptRes sc nm id n props, env, s, li, st, li', st', h => by
    simp only [wfProp] at h
    split at h
    · rename_i hn
      obtain ⟨hn1, hn2, hn3⟩ := wfName_facts li nm hn
      cases hid : wfId rs (env.push rs sc.base sc.lang) id st with
      | none => rw [hid] at h; exact absurd h (by simp)
      | some st0 =>
        rw [hid] at h
        simp only at h
        split at h
        · rename_i hnn
          cases hps : wfProps rs (env.push rs sc.base sc.lang) 0 { st0 with next := st0.next + 1 } props with
          | none => rw [hps] at h; exact absurd h (by simp)
          | some st1 =>
            rw [hps] at h
            simp only [Option.map, Option.some.injEq, Prod.mk.injEq] at h
            have hoid := wfId_optId rs _ id st st0 hid
            have hpl := propList_render props (env.push rs sc.base sc.lang) (.bnode (.gen st0.next)) 0 _ st1 hps
            simp only [renderProp, propElt]
            rw [info_stdAttrs _ (by simp) rfl rfl]
            simp only [hn1, if_false, hn2, hn3, hoid]
            subst hnn
            simp [flatProp, hpl, h.1, h.2]
        · exact absurd h (by simp)
    · exact absurd h (by simp)
  | .ptColl sc nm id cells items, env, s, li, st, li', st', h => by
    simp only [wfProp] at h
    split at h
    · rename_i hn
      obtain ⟨hn1, hn2, hn3⟩ := wfName_facts li nm hn
      cases hid : wfId rs (env.push rs sc.base sc.lang) id st with
      | none => rw [hid] at h; exact absurd h (by simp)
      | some st0 =>
        rw [hid] at h
        simp only at h
        cases hcl : wfColl rs (env.push rs sc.base sc.lang) st0 cells items with
        | none => rw [hcl] at h; exact absurd h (by simp)
        | some st1 =>
          rw [hcl] at h
          simp only [Option.map, Option.some.injEq, Prod.mk.injEq] at h
          have hoid := wfId_optId rs _ id st st0 hid
          have hck := collKids_render cells items (env.push rs sc.base sc.lang) s nm.pred st0 st1 hcl
          simp only [renderProp, propElt]
          rw [info_stdAttrs _ (by simp) rfl rfl]
          simp only [hn1, if_false, hn2, hn3, hoid]
          have hne : n_Collection ≠ n_Resource := by decide
          simp [flatProp, hck, hne, h.1, h.2]
    · exact absurd h (by simp)
  | .ptLit sc nm id pt content, env, s, li, st, li', st', h => by
    simp only [wfProp] at h
    split at h
    · rename_i hc
      simp only [Bool.and_eq_true, ne_eq, decide_not, Bool.not_eq_true',
        decide_eq_false_iff_not] at hc
      obtain ⟨⟨hn, hp1⟩, hp2⟩ := hc
      obtain ⟨hn1, hn2, hn3⟩ := wfName_facts li nm hn
      cases hid : wfId rs (env.push rs sc.base sc.lang) id st with
      | none => rw [hid] at h; exact absurd h (by simp)
      | some st0 =>
        rw [hid] at h
        simp only [Option.map, Option.some.injEq, Prod.mk.injEq] at h
        have hoid := wfId_optId rs _ id st st0 hid
        simp only [renderProp, propElt]
        rw [info_stdAttrs _ (by simp) rfl rfl]
        simp only [hn1, if_false, hn2, hn3, hoid]
        simp [rawOnly, flatProp, hp1, hp2, h.1, h.2]
    · exact absurd h (by simp)

theorem collKids_render : ∀ (cells : List Nat) (items : List PNode) (env : Env) (s : Term BN) (p : Str)
    (st st' : St), wfColl rs env st cells items = some st' →
    collKids rs env s p (renderNodes items) st = .ok (flatColl s p cells items, st')
  | [], [], env, s, p, st, st', h => by
    simp only [wfColl, Option.some.injEq] at h
    simp [renderNodes, collKids, flatColl, h]
  | c :: cs, [], env, s, p, st, st', h => by simp [wfColl] at h
  | [], n :: ns, env, s, p, st, st', h => by simp [wfColl] at h
  | c :: cs, n :: ns, env, s, p, st, st', h => by
    simp only [wfColl] at h
    split at h
    · rename_i hc
      cases hnd : wfNode rs env { st with next := st.next + 1 } n with
      | none => rw [hnd] at h; exact absurd h (by simp)
      | some st1 =>
        rw [hnd] at h
        simp only at h
        have hne := nodeElt_render n env _ st1 hnd
        have hck := collKids_render cs ns env (.bnode (.gen st.next)) rdfRest st1 st' h
        subst hc
        cases n
        simp only [renderNode] at hne
        simp only [renderNodes, renderNode, collKids, hne, hck, flatColl]
    · exact absurd h (by simp)

end

end RdfModel.RX
