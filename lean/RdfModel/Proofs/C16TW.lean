/-
  Proofs.C16TW — facts about `Model.TextWriter` and writer histories (property C16).
-/
import RdfModel.Model.NQOffsets
namespace RdfModel.Proofs.C16
open RdfModel RdfModel.TW RdfModel.NQO

/-! ### sizes, runes, counting -/

@[simp] theorem size_nil : size [] = 0 := rfl
@[simp] theorem size_cons (r : RP) (rs : List RP) : size (r :: rs) = r.2 + size rs := rfl

@[simp] theorem size_append (a b : List RP) : size (a ++ b) = size a + size b := by
  induction a with
  | nil => simp
  | cons r a ih => simp [ih]; omega

@[simp] theorem size_reverse (a : List RP) : size a.reverse = size a := by
  induction a with
  | nil => rfl
  | cons r a ih => simp [ih]; omega

@[simp] theorem runes_nil : runes [] = [] := rfl
@[simp] theorem runes_cons (r : RP) (rs : List RP) : runes (r :: rs) = r.1 :: runes rs := rfl
@[simp] theorem runes_append (a b : List RP) : runes (a ++ b) = runes a ++ runes b := by
  simp [runes]
@[simp] theorem runes_reverse (a : List RP) : runes a.reverse = (runes a).reverse := by
  simp [runes]

@[simp] theorem runes_eq_nil (a : List RP) : runes a = [] ↔ a = [] := by
  simp [runes]

@[simp] theorem countLF_nil : countLF [] = 0 := rfl

theorem countLF_append (a b : List RP) : countLF (a ++ b) = countLF a + countLF b := by
  induction a with
  | nil => simp
  | cons r a ih => simp [countLF, ih]; omega

theorem colAfter_append (a b : List RP) (acc : Nat) :
    colAfter (a ++ b) acc = colAfter b (colAfter a acc) := by
  induction a generalizing acc with
  | nil => rfl
  | cons r a ih =>
    simp only [List.cons_append, colAfter]
    split
    · exact ih 0
    · split
      · exact ih acc
      · exact ih (acc + 1)

theorem posAfter_append (o : Offset) (a b : List RP) : posAfter (posAfter o a) b = posAfter o (a ++ b) := by
  simp only [posAfter, size_append, countLF_append, colAfter_append]
  congr 1 <;> omega

@[simp] theorem posAfter_nil (o : Offset) : posAfter o [] = o := by
  simp [posAfter, colAfter]

/-! ### `write`: bytes and lines for every cluster counter -/

theorem lineCol_line (cols : List Nat → Nat) (seg : List Nat) (rs : List RP) (l c : Nat) :
    (lineCol cols seg rs l c).1 = l + countLF rs := by
  induction rs generalizing seg l c with
  | nil => simp [lineCol]
  | cons r rs ih =>
    simp only [lineCol, countLF]
    split
    · rw [ih]; omega
    · split
      · rw [ih]; omega
      · rw [ih]; omega

@[simp] theorem write_byte (cols : List Nat → Nat) (o : Offset) (rs : List RP) :
    (write cols o rs).byte = o.byte + size rs := rfl

@[simp] theorem write_line (cols : List Nat → Nat) (o : Offset) (rs : List RP) :
    (write cols o rs).line = o.line + countLF rs := by
  simp [write, lineCol_line]

/-! ### `write` on simple text: the column is the position in the line -/

theorem simple_cons {c : Nat} {rs : List Nat} : simple (c :: rs) = true ↔ simpleRune c = true ∧ simple rs = true := by
  simp [simple]

theorem simple_append {a b : List Nat} : simple (a ++ b) = true ↔ simple a = true ∧ simple b = true := by
  simp [simple, List.all_append]

theorem simple_reverse {a : List Nat} : simple a.reverse = simple a := by
  simp [simple]

theorem flush_simple {cols : List Nat → Nat} (hc : ColsSimple cols) (seg : List Nat) (c : Nat)
    (hs : simple seg = true) : flush cols seg c = c + seg.length := by
  cases seg with
  | nil => simp [flush]
  | cons x seg =>
    simp only [flush]
    rw [hc _ (by rw [simple_reverse]; exact hs)]
    simp

theorem lineCol_col_simple {cols : List Nat → Nat} (hc : ColsSimple cols) (seg : List Nat)
    (rs : List RP) (l c : Nat) (hseg : simple seg = true) (hrs : simple (runes rs) = true) :
    (lineCol cols seg rs l c).2 = colAfter rs (c + seg.length) := by
  induction rs generalizing seg l c with
  | nil => simp [lineCol, colAfter, flush_simple hc seg c hseg]
  | cons r rs ih =>
    simp only [runes_cons, simple_cons] at hrs
    simp only [lineCol, colAfter]
    split
    · rw [ih [] _ _ rfl hrs.2]; simp
    · split
      · rw [ih [] _ _ rfl hrs.2, flush_simple hc seg c hseg]; simp
      · rw [ih (r.1 :: seg) _ _ (simple_cons.2 ⟨hrs.1, hseg⟩) hrs.2]
        simp only [List.length_cons]
        congr 1

/-- On simple text `write` computes the position of the text (`posAfter`), whatever cluster counter
    is used, as long as it counts one cluster per rune on simple text. -/
theorem write_simple {cols : List Nat → Nat} (hc : ColsSimple cols) (o : Offset) (rs : List RP)
    (hrs : simple (runes rs) = true) : write cols o rs = posAfter o rs := by
  simp only [write, posAfter, Offset.mk.injEq, true_and]
  refine ⟨lineCol_line cols [] rs o.line o.col, ?_⟩
  rw [lineCol_col_simple hc [] rs _ _ rfl hrs]; simp

/-! ### histories -/

@[simp] theorem histRunes_nil : histRunes [] = [] := rfl
@[simp] theorem histRunes_cons (c : Chunk) (h : Hist) : histRunes (c :: h) = histRunes h ++ c := rfl
@[simp] theorem histOffset_nil (cols : List Nat → Nat) (init : Offset) : histOffset cols init [] = init := rfl
@[simp] theorem histOffset_cons (cols : List Nat → Nat) (init : Offset) (c : Chunk) (h : Hist) :
    histOffset cols init (c :: h) = write cols (histOffset cols init h) c := rfl

/-- Byte offset of a writer = initial byte offset + total size of everything committed. -/
theorem histOffset_byte (cols : List Nat → Nat) (init : Offset) (h : Hist) :
    (histOffset cols init h).byte = init.byte + size (histRunes h) := by
  induction h with
  | nil => simp
  | cons c h ih => simp [ih]; omega

/-- Line of a writer = initial line + number of LF committed (for every cluster counter). -/
theorem histOffset_line (cols : List Nat → Nat) (init : Offset) (h : Hist) :
    (histOffset cols init h).line = init.line + countLF (histRunes h) := by
  induction h with
  | nil => simp
  | cons c h ih => simp [ih, countLF_append]; omega

/-- On simple text the writer's offset is the position of the committed text. -/
theorem histOffset_simple {cols : List Nat → Nat} (hc : ColsSimple cols) (init : Offset) (h : Hist)
    (hs : simple (runes (histRunes h)) = true) : histOffset cols init h = posAfter init (histRunes h) := by
  induction h with
  | nil => simp
  | cons c h ih =>
    simp only [histRunes_cons, runes_append, simple_append] at hs
    rw [histOffset_cons, ih hs.1, write_simple hc _ _ hs.2, posAfter_append, histRunes_cons]

/-! ### shifting by the initial offset -/

theorem shift_zero (o : Offset) : shift o zero = o := by
  simp [shift, zero]

theorem flush_shift (cols : List Nat → Nat) (seg : List Nat) (oc l c : Nat) :
    flush cols seg (if l = 0 then oc + c else c) = if l = 0 then oc + flush cols seg c else flush cols seg c := by
  cases seg with
  | nil => simp [flush]
  | cons x seg => simp only [flush]; split <;> omega

theorem lineCol_shift (cols : List Nat → Nat) (ol oc : Nat) (seg : List Nat) (rs : List RP) (l c : Nat) :
    lineCol cols seg rs (ol + l) (if l = 0 then oc + c else c)
      = (ol + (lineCol cols seg rs l c).1,
          if (lineCol cols seg rs l c).1 = 0 then oc + (lineCol cols seg rs l c).2
          else (lineCol cols seg rs l c).2) := by
  induction rs generalizing seg l c with
  | nil => simp only [lineCol]; rw [flush_shift]; by_cases hl : l = 0 <;> simp [hl]
  | cons r rs ih =>
    simp only [lineCol]
    split
    · have := ih [] (l + 1) 0
      simp only [Nat.add_eq_zero_iff, Nat.succ_ne_self, and_false, if_false] at this
      rw [← this]; rfl
    · split
      · rw [flush_shift]; exact ih [] l (flush cols seg c)
      · exact ih (r.1 :: seg) l c

theorem write_shift (cols : List Nat → Nat) (o p : Offset) (rs : List RP) :
    write cols (shift o p) rs = shift o (write cols p rs) := by
  simp only [write, shift, Offset.mk.injEq]
  have h := lineCol_shift cols o.line o.col [] rs p.line p.col
  refine ⟨by omega, ?_, ?_⟩
  · simp only [h]
  · simp only [h]; by_cases hl : (lineCol cols [] rs p.line p.col).fst = 0 <;> simp [hl]

/-- A writer started at `o` is, at every moment, the writer started at zero, shifted by `o`. -/
theorem histOffset_shift (cols : List Nat → Nat) (o : Offset) (h : Hist) :
    histOffset cols o h = shift o (histOffset cols zero h) := by
  induction h with
  | nil => simp [shift_zero]
  | cons c h ih => rw [histOffset_cons, ih, write_shift, histOffset_cons]

end RdfModel.Proofs.C16
