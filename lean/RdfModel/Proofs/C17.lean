/- C17 helper lemmas: umbrella import. -/
import RdfModel.Proofs.C17Builder
import RdfModel.Proofs.C17Walk
import RdfModel.Proofs.C17Perm
import RdfModel.Proofs.C17Term
import RdfModel.Proofs.C17Main
import RdfModel.Proofs.C17Dataset
import RdfModel.Proofs.C17Cycle
import RdfModel.Proofs.C17List
