/-
  RdfModel.Model.Term — RDF terms over code-point lists, parametric in the blank-node carrier.
-/
import RdfModel.Model.Rune
namespace RdfModel

/-- An RDF term. `β` is the blank-node carrier: an abstract identity on the encoder side,
    a label (`List Nat`) on the decoder side. -/
inductive Term (β : Type) where
  | iri (v : List Nat)
  | bnode (b : β)
  | lit (lex : List Nat) (dt : List Nat) (lang : Option (List Nat))
  deriving Repr, DecidableEq, Inhabited

structure Quad (β : Type) where
  s : Term β
  p : Term β
  o : Term β
  g : Option (Term β)
  deriving Repr, DecidableEq, Inhabited

def Term.map {β γ : Type} (f : β → γ) : Term β → Term γ
  | .iri v => .iri v
  | .bnode b => .bnode (f b)
  | .lit l d t => .lit l d t

def Quad.map {β γ : Type} (f : β → γ) (q : Quad β) : Quad γ :=
  { s := q.s.map f, p := q.p.map f, o := q.o.map f, g := q.g.map (Term.map f) }

/-- ASCII helper for writing constants. -/
def asc (s : String) : List Nat := s.toList.map Char.toNat

def xsdString : List Nat := asc "http://www.w3.org/2001/XMLSchema#string"
def rdfLangString : List Nat := asc "http://www.w3.org/1999/02/22-rdf-syntax-ns#langString"
def rdfDirLangString : List Nat := asc "http://www.w3.org/1999/02/22-rdf-syntax-ns#dirLangString"

end RdfModel
