/-
  Statement layer of Turtle/TriG: terminal-state lemmas (`Next` latch, accessor usability).
-/
import RdfModel.Props.C05TtlDefs
namespace RdfModel.TtlDoc
open RdfModel

/-- terminal state of a decoder: an error is latched, or nothing is pending and the stack is empty -/
def Dead (st : St) : Prop := st.stmts = [] ∧ (st.err.isSome = true ∨ st.stack = [])

theorem isEmpty_false_of {α} {l : List α} (h : ¬(!l.isEmpty) = true) : l = [] := by
  cases l with
  | nil => rfl
  | cons a b => simp at h

theorem popFrame_none {cur : Option Frame} {st : St} (h : popFrame cur st = none) :
    cur = none ∧ st.stack = [] := by
  unfold popFrame at h
  cases cur with
  | some f => simp at h
  | none =>
    cases hs : st.stack with
    | nil => exact ⟨rfl, rfl⟩
    | cons a b => simp [hs] at h

theorem popFrame_some {cur : Option Frame} {st : St} {f : Frame} {st1 : St}
    (h : popFrame cur st = some (f, st1)) :
    st1.stmts = st.stmts ∧ st1.err = st.err ∧ st1.inp = st.inp ∧ st1.env = st.env ∧
    ((cur = some f ∧ st1.stack = st.stack) ∨ (cur = none ∧ st.stack = f :: st1.stack)) := by
  unfold popFrame at h
  cases cur with
  | some f' =>
    simp at h; obtain ⟨rfl, rfl⟩ := h
    exact ⟨rfl, rfl, rfl, rfl, Or.inl ⟨rfl, rfl⟩⟩
  | none =>
    cases hs : st.stack with
    | nil => simp [hs] at h
    | cons a b =>
      simp [hs] at h; obtain ⟨rfl, rfl⟩ := h
      exact ⟨rfl, rfl, rfl, rfl, Or.inr ⟨rfl, rfl⟩⟩

theorem nextLoop_no_dead (C : Cfg) (e : End) :
    ∀ fuel cur st st', st.stmts = [] ∨ st.err.isSome = true → nextLoop C e fuel cur st = .no st' →
      (st.err.isSome = true → st' = st) ∧ (st.stmts = [] → Dead st') := by
  intro fuel
  induction fuel with
  | zero => intro cur st st' _ h; simp [nextLoop] at h
  | succ n ih =>
    intro cur st st' h0 h
    unfold nextLoop at h
    split at h
    · next herr =>
      injection h with h; subst h
      exact ⟨fun _ => rfl, fun hs => ⟨hs, Or.inl herr⟩⟩
    · next herr =>
      have hst' : st.stmts = [] := by
        rcases h0 with h0 | h0
        · exact h0
        · exact absurd h0 herr
      split at h
      · simp at h
      · split at h
        · next hp =>
          injection h with h; subst h
          exact ⟨fun _ => rfl, fun hs => ⟨hs, Or.inr (popFrame_none hp).2⟩⟩
        · next f st1 hp =>
          obtain ⟨hs1, he1, _, _, _⟩ := popFrame_some hp
          refine ⟨fun h => absurd h herr, fun _ => ?_⟩
          split at h
          · simp at h
          · next k hsc =>
            have := ih none { st1 with err := some k } st' (Or.inr rfl) h
            have h2 := this.1 rfl
            subst h2
            exact ⟨by simp [hs1, hst'], Or.inl rfl⟩
          · next cur' st2 hsc =>
            unfold scan at hsc
            split at hsc <;> try simp at hsc
            next o ho =>
            obtain ⟨rfl, rfl⟩ := hsc
            cases hem : o.emit with
            | none =>
              have : (applyOut st1 o).stmts = [] := by simp [applyOut, hem, hs1, hst']
              exact (ih _ _ _ (Or.inl this) h).2 this
            | some s =>
              -- a statement is pending: the next iteration answers `true`, never `false`
              cases n with
              | zero => simp [nextLoop] at h
              | succ m =>
                unfold nextLoop at h
                split at h
                · next herr2 =>
                  simp [applyOut] at herr2
                  rw [he1] at herr2
                  exact absurd herr2 herr
                · simp [applyOut, hem] at h

/-- After `Next()` has answered `false` it keeps answering `false` and `Err()` does not change. -/
theorem next_dead (C : Cfg) (e : End) (st : St) (h : Dead st) : next C e st = .no st := by
  obtain ⟨hs, h⟩ := h
  unfold next
  simp only [hs, List.drop_nil]
  have : ({ st with stmts := [] } : St) = st := by cases st; simp_all
  rw [this]
  unfold nextLoop
  split
  · rfl
  · next herr =>
    have hstack : st.stack = [] := by
      rcases h with h | h
      · exact absurd h herr
      · exact h
    simp [hs, popFrame, hstack]

theorem next_no_dead (C : Cfg) (e : End) (st st' : St) (h : next C e st = .no st') :
    Dead st' ∨ (st.err.isSome = true ∧ st'.err = st.err ∧ st'.stack = st.stack ∧ st'.stmts = st.stmts.drop 1) := by
  unfold next at h
  by_cases herr : st.err.isSome = true
  · right
    have := (nextLoop_no_dead C e _ none { st with stmts := st.stmts.drop 1 } st' (Or.inr herr) h).1 herr
    subst this
    exact ⟨herr, rfl, rfl, rfl⟩
  · by_cases hs : st.stmts.drop 1 = []
    · left
      exact (nextLoop_no_dead C e _ none { st with stmts := st.stmts.drop 1 } st' (Or.inl hs) h).2 hs
    · -- a pending statement: `Next` answers `true`
      exfalso
      unfold nextLoop at h
      simp only [herr] at h
      cases hd : st.stmts.drop 1 with
      | nil => exact hs hd
      | cons a b => simp [hd] at h

/-- `Next() = true` ⇒ `r.statements` is not empty: `Triple()` / `Quad()` are usable. -/
theorem nextLoop_yes (C : Cfg) (e : End) :
    ∀ fuel cur st st', nextLoop C e fuel cur st = .yes st' → st'.stmts ≠ [] := by
  intro fuel
  induction fuel with
  | zero => intro cur st st' h; simp [nextLoop] at h
  | succ n ih =>
    intro cur st st' h
    unfold nextLoop at h
    split at h
    · simp at h
    · split at h
      · next hne =>
        injection h with h; subst h
        cases cur with
        | none => simp [pushCur]; intro h; simp [h] at hne
        | some f => simp [pushCur]; intro h; simp [h] at hne
      · split at h
        · simp at h
        · split at h
          · simp at h
          · exact ih _ _ _ h
          · exact ih _ _ _ h

end RdfModel.TtlDoc

namespace RdfModel.TtlDoc

theorem next_err (C : Cfg) (e : End) (st : St) (h : st.err.isSome = true) :
    next C e st = .no { st with stmts := st.stmts.drop 1 } := by
  unfold next
  show nextLoop C e (({ st with stmts := st.stmts.drop 1 } : St).cost + 1) none _ = _
  unfold nextLoop
  simp [h]

theorem afterFalse_of_err (C : Cfg) (e : End) :
    ∀ n st, st.err.isSome = true → ∃ st'', afterFalse C e n st = some st'' ∧ st''.err = st.err := by
  intro n
  induction n with
  | zero => intro st _; exact ⟨st, rfl, rfl⟩
  | succ n ih =>
    intro st h
    unfold afterFalse
    rw [next_err C e st h]
    obtain ⟨s, h1, h2⟩ := ih { st with stmts := st.stmts.drop 1 } h
    exact ⟨s, h1, h2⟩

theorem afterFalse_of_dead (C : Cfg) (e : End) :
    ∀ n st, Dead st → afterFalse C e n st = some st := by
  intro n
  induction n with
  | zero => intro st _; rfl
  | succ n ih =>
    intro st h
    unfold afterFalse
    rw [next_dead C e st h]
    exact ih st h

end RdfModel.TtlDoc
