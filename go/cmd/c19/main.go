// Command c19: correspondence (T3) between Model.Dataset and x/storage/inmemory (+ the matchers of
// rdf/terms, rdf/quads, rdf/triples), plus the direct oracle of property C19 on the implementation:
// after every history the real dataset must answer every membership query and every iteration
// exactly like a plain Go map-based set of quads.
package main

import (
	"context"
	"encoding/hex"
	"encoding/json"
	"flag"
	"fmt"
	"os"
	"sort"
	"strconv"
	"strings"

	"verifharness/vh"

	"github.com/dpb587/rdfkit-go/rdf"
	"github.com/dpb587/rdfkit-go/rdf/blanknodes"
	"github.com/dpb587/rdfkit-go/rdf/quads"
	"github.com/dpb587/rdfkit-go/rdf/terms"
	"github.com/dpb587/rdfkit-go/rdf/triples"
	"github.com/dpb587/rdfkit-go/x/storage/inmemory"
)

var (
	tier     = flag.String("tier", "quick", "quick|thorough")
	driver   = flag.String("driver", "/verif/lean/.lake/build/bin/driver", "lean driver binary")
	out      = flag.String("out", "/verif/evidence/.c19.report.json", "report path")
	findings = flag.String("findings", "/verif/known-findings.json", "known findings")
	replay   = flag.String("replay", "", "replay file (one protocol line per line)")
	scale    = flag.Int("scale", 1, "multiply generated case counts (search mode uses 10)")
	nomodel  = flag.Bool("nomodel", false, "property oracle on the implementation only (search mode / driver unavailable)")
	hints    = flag.String("hints", "", "file of protocol lines that disagreed; their inputs are pushed through the oracle first")
)

var ctx = context.Background()

var cleanup = func() {}

func exit(code int) {
	cleanup()
	os.Exit(code)
}

// ---------------------------------------------------------------- terms

// term is one element of the universe: its wire token, the real value, and whether it is inside the
// property's quantifier (well-formed: non-nil, blank node with identifier, literal tag iff tagged datatype).
type term struct {
	wire string
	v    rdf.Term // nil interface for the nil term
	wf   bool
	// eq: the term has an RDF term identity (non-nil; a blank node has an identifier). Every literal has
	// one, well-formed or not: (datatype, lexical form, tag presence, tag kind, language, direction).
	// Terms with eq are inside the equality/matcher oracles and may be arguments of every operation;
	// wf additionally says the literal is a well-formed RDF literal (tag iff tagged datatype).
	eq bool
}

const (
	xsdString  = "http://www.w3.org/2001/XMLSchema#string"
	xsdToken   = "http://www.w3.org/2001/XMLSchema#token"
	langString = "http://www.w3.org/1999/02/22-rdf-syntax-ns#langString"
	dirLangStr = "http://www.w3.org/1999/02/22-rdf-syntax-ns#dirLangString"
)

func hx(s string) string { return hex.EncodeToString([]byte(s)) }

func iriTerm(s string) *term { return &term{wire: "I" + hx(s), v: rdf.IRI(s), wf: true, eq: true} }

func litTerm(dt, lex string, tag rdf.LiteralTag) *term {
	t := &term{v: rdf.Literal{Datatype: rdf.IRI(dt), LexicalForm: lex, Tag: tag}, eq: true}
	tagged := dt == langString || dt == dirLangStr
	switch tg := tag.(type) {
	case nil:
		t.wire = "L" + hx(dt) + "." + hx(lex) + ".-"
		t.wf = !tagged
	case rdf.LanguageLiteralTag:
		t.wire = "L" + hx(dt) + "." + hx(lex) + ".l" + hx(tg.Language)
		t.wf = tagged
	case rdf.DirectionalLanguageLiteralTag:
		t.wire = "L" + hx(dt) + "." + hx(lex) + ".d" + hx(tg.Language) + ":" + hx(tg.BaseDirection)
		t.wf = tagged
	}
	if strings.Contains(dt, "\n") {
		t.wf = false
	}
	return t
}

var nilTerm = &term{wire: "-", v: nil, wf: false}

// litKey: the byte string x/storage/inmemory hashes to key a literal node (dataset.go bindNode),
// re-implemented here for the decidable predicate of the finding `literal-key-collision-illformed`:
// two DIFFERENT literals with the same byte string share one node of the store.
func litKey(l rdf.Literal) string {
	k := string(l.Datatype) + "\n"
	switch tag := l.Tag.(type) {
	case rdf.LanguageLiteralTag:
		k += fmt.Sprintf("lang=%q\n", tag.Language)
	case rdf.DirectionalLanguageLiteralTag:
		k += fmt.Sprintf("lang=%q; dir=%q\n", tag.Language, tag.BaseDirection)
	}
	return k + l.LexicalForm
}

// keyCollision: a and b are different literals that the store cannot tell apart.
func keyCollision(a, b *term) bool {
	la, ok1 := a.v.(rdf.Literal)
	lb, ok2 := b.v.(rdf.Literal)
	return ok1 && ok2 && a.wire != b.wire && litKey(la) == litKey(lb)
}

// sameTerm: RDF term equality written out on the Go values, independently of the wire tokens: same
// kind and, for literals, same datatype, lexical form, tag presence, tag kind, language and direction.
// Blank nodes: same identifier value (== on the interface: same factory and same counter/label).
func sameTerm(a, b rdf.Term) bool {
	switch x := a.(type) {
	case rdf.IRI:
		y, ok := b.(rdf.IRI)
		return ok && x == y
	case rdf.BlankNode:
		y, ok := b.(rdf.BlankNode)
		return ok && x.Identifier != nil && y.Identifier != nil && x.Identifier == y.Identifier
	case rdf.Literal:
		y, ok := b.(rdf.Literal)
		if !ok || x.Datatype != y.Datatype || x.LexicalForm != y.LexicalForm || (x.Tag == nil) != (y.Tag == nil) {
			return false
		}
		switch tx := x.Tag.(type) {
		case rdf.LanguageLiteralTag:
			ty, ok := y.Tag.(rdf.LanguageLiteralTag)
			return ok && tx.Language == ty.Language
		case rdf.DirectionalLanguageLiteralTag:
			ty, ok := y.Tag.(rdf.DirectionalLanguageLiteralTag)
			return ok && tx.Language == ty.Language && tx.BaseDirection == ty.BaseDirection
		}
		return true
	}
	return false
}

type universe struct {
	iris, bnodes, lits []*term // well-formed
	illLits            []*term // ill-formed literals differing from a member of lits (or from each other) ONLY in tag presence / tag kind
	badLits, badBNodes []*term // badLits: ill-formed literals built to collide in the store's hashed concatenation (+ their twins); badBNodes: outside the quantifier
	illPool            []*term // illLits + badLits
	twins              map[string][]*term // literal wire -> the other universe literals with the same datatype and lexical form
	graphs             []*term // graph names (nilTerm = default graph)
	byWire             map[string]*term
	bnWire             map[rdf.BlankNode]string
	iriWire            map[rdf.IRI]string
	litWire            map[rdf.Literal]string
	subjects, objects  []*term
	preds              []*term
	allWF              []*term
}

func newUniverse() *universe {
	u := &universe{byWire: map[string]*term{}, bnWire: map[rdf.BlankNode]string{}, iriWire: map[rdf.IRI]string{}, litWire: map[rdf.Literal]string{}}
	for _, s := range []string{"http://e/a", "http://e/b", "http://e/p", "http://e/q"} {
		u.iris = append(u.iris, iriTerm(s))
	}
	bn := func(w string, n rdf.BlankNode) *term {
		u.bnWire[n] = w
		return &term{wire: w, v: n, wf: true, eq: true}
	}
	fA, fB := rdf.NewBlankNodeFactory(), rdf.NewBlankNodeFactory()
	sA, sB := blanknodes.NewStringFactory(), blanknodes.NewStringFactory()
	u.bnodes = []*term{
		bn("Bd1", rdf.NewBlankNode()), bn("Bd2", rdf.NewBlankNode()), // default factory (no scope field)
		bn("Bs1.1", fA.NewBlankNode()), bn("Bs1.2", fA.NewBlankNode()),
		bn("Bs2.1", fB.NewBlankNode()), // same counter value as Bs1.1, other factory
		bn("Bt1."+hx("x"), sA.NewStringBlankNode("x")), bn("Bt2."+hx("x"), sB.NewStringBlankNode("x")),
		bn("Bt1."+hx("y"), sA.NewStringBlankNode("y")),
	}
	u.lits = []*term{
		litTerm(xsdString, "x", nil),
		litTerm(xsdToken, "x", nil), // differs in datatype only
		litTerm(langString, "x", rdf.LanguageLiteralTag{Language: "en"}),
		litTerm(langString, "x", rdf.LanguageLiteralTag{Language: "fr"}), // differs in tag only
		litTerm(xsdString, "y", nil),                                     // differs in lexical form only
		litTerm(dirLangStr, "x", rdf.DirectionalLanguageLiteralTag{Language: "en", BaseDirection: "ltr"}),
		litTerm(xsdString, "lang=\"en\"\nx", nil), // lexical form that looks like a tag line
		litTerm(xsdString, "", nil),
		litTerm("http://e/a", "x", nil), // datatype equal to an IRI of the universe
		// differ from members above in letter case only (tag, lexical form, datatype): term equality is exact
		litTerm(langString, "x", rdf.LanguageLiteralTag{Language: "EN"}),
		litTerm(xsdString, "X", nil),
		litTerm("http://e/A", "x", nil),
		litTerm(langString, "x", rdf.LanguageLiteralTag{Language: "en-US"}),
		litTerm(langString, "x", rdf.LanguageLiteralTag{Language: "en-us"}),
		litTerm(dirLangStr, "x", rdf.DirectionalLanguageLiteralTag{Language: "en", BaseDirection: "rtl"}), // differs in base direction only
	}
	// Ill-formed literals (a tag on an untagged datatype, no tag on a tagged one, the other kind of tag):
	// each differs from a well-formed member (or from another entry) ONLY in the presence or kind of the
	// tag. None of them collides with any other universe literal in the store's hashed concatenation, so
	// they are first-class members of the property's universe ("literals differing only in datatype, tag
	// or lexical form"): as matcher arguments, as HasQuad/DeleteQuad arguments and as stored objects.
	u.illLits = []*term{
		litTerm(langString, "x", nil),                                    // "x"@en without its tag
		litTerm(dirLangStr, "x", nil),                                    // the directional literal without its tag
		litTerm(xsdToken, "x", rdf.LanguageLiteralTag{Language: "en"}),   // "x"^^xsd:token with a tag
		litTerm(xsdString, "y", rdf.LanguageLiteralTag{Language: "fr"}),  // "y" with a tag
		litTerm(xsdString, "", rdf.LanguageLiteralTag{Language: ""}),     // "" with an empty (but present) tag
		litTerm(dirLangStr, "x", rdf.LanguageLiteralTag{Language: "en"}), // language-only tag where a directional one is expected
		litTerm(xsdString, "x", rdf.DirectionalLanguageLiteralTag{Language: "en", BaseDirection: "ltr"}),
		litTerm("http://e/a", "x", rdf.LanguageLiteralTag{Language: "en"}),
	}
	u.badLits = []*term{
		litTerm(langString, "lang=\"en\"\nx", nil),                      // collides with "x"@en in the hashed concatenation
		litTerm(xsdString, "x", rdf.LanguageLiteralTag{Language: "en"}), // tag on a plain datatype
		litTerm(xsdString, "lang=\"en\"\nx", nil),                       // (well-formed twin of the previous one; same key)
		litTerm("http://e/d\nlang=\"en\"", "x", nil),                    // newline inside the datatype IRI
		litTerm("http://e/d", "lang=\"en\"\nx", nil),                    // … and its twin
		litTerm(langString, "x", rdf.DirectionalLanguageLiteralTag{Language: "en", BaseDirection: "ltr"}),
		litTerm(langString, "x", rdf.LanguageLiteralTag{Language: "en\"; dir=\"ltr"}), // %q keeps these apart
	}
	u.badBNodes = []*term{{wire: "Bn", v: rdf.BlankNode{}, wf: false}}
	u.graphs = []*term{nilTerm, iriTerm("http://e/g"), u.iris[0], u.bnodes[2]}
	u.subjects = append(append([]*term{}, u.iris...), u.bnodes...)
	u.preds = u.iris
	u.objects = append(append(append([]*term{}, u.iris...), u.bnodes...), u.lits...)
	u.allWF = append(append([]*term{}, u.objects...), u.graphs[1])
	u.illPool = append(append([]*term{}, u.illLits...), u.badLits...)
	for _, l := range [][]*term{u.iris, u.bnodes, u.lits, u.illLits, u.badLits, u.badBNodes, u.graphs, {nilTerm}} {
		for _, t := range l {
			u.byWire[t.wire] = t
		}
	}
	u.twins = map[string][]*term{}
	allLits := append(append([]*term{}, u.lits...), u.illPool...)
	for _, a := range allLits {
		for _, b := range allLits {
			la, lb := a.v.(rdf.Literal), b.v.(rdf.Literal)
			if a.wire != b.wire && la.Datatype == lb.Datatype && la.LexicalForm == lb.LexicalForm {
				u.twins[a.wire] = append(u.twins[a.wire], b)
			}
		}
	}
	return u
}

// wireOf renders a term that came back from the implementation.
func (u *universe) wireOf(t rdf.Term) string {
	switch v := t.(type) {
	case nil:
		return "-"
	case rdf.IRI:
		if w, ok := u.iriWire[v]; ok {
			return w
		}
		w := "I" + hx(string(v))
		u.iriWire[v] = w
		return w
	case rdf.BlankNode:
		if v.Identifier == nil {
			return "Bn"
		}
		if w, ok := u.bnWire[v]; ok {
			return w
		}
		return "B?"
	case rdf.Literal:
		if w, ok := u.litWire[v]; ok {
			return w
		}
		w := litTerm(string(v.Datatype), v.LexicalForm, v.Tag).wire
		u.litWire[v] = w
		return w
	}
	return fmt.Sprintf("?%T", t)
}

// parseTerm reads a wire token back (replay, hints).
func (u *universe) parseTerm(w string) (*term, error) {
	if t, ok := u.byWire[w]; ok {
		return t, nil
	}
	un := func(h string) (string, error) { b, err := hex.DecodeString(h); return string(b), err }
	switch {
	case strings.HasPrefix(w, "I"):
		s, err := un(w[1:])
		return iriTerm(s), err
	case strings.HasPrefix(w, "L"):
		f := strings.Split(w[1:], ".")
		if len(f) != 3 {
			return nil, fmt.Errorf("bad literal token %q", w)
		}
		dt, e1 := un(f[0])
		lex, e2 := un(f[1])
		if e1 != nil || e2 != nil {
			return nil, fmt.Errorf("bad literal token %q", w)
		}
		var tag rdf.LiteralTag
		switch {
		case f[2] == "-":
		case strings.HasPrefix(f[2], "l"):
			l, err := un(f[2][1:])
			if err != nil {
				return nil, err
			}
			tag = rdf.LanguageLiteralTag{Language: l}
		case strings.HasPrefix(f[2], "d"):
			p := strings.Split(f[2][1:], ":")
			if len(p) != 2 {
				return nil, fmt.Errorf("bad tag %q", w)
			}
			l, e1 := un(p[0])
			d, e2 := un(p[1])
			if e1 != nil || e2 != nil {
				return nil, fmt.Errorf("bad tag %q", w)
			}
			tag = rdf.DirectionalLanguageLiteralTag{Language: l, BaseDirection: d}
		default:
			return nil, fmt.Errorf("bad tag %q", w)
		}
		return litTerm(dt, lex, tag), nil
	}
	return nil, fmt.Errorf("unknown term token %q (blank nodes must be those of the fixed universe)", w)
}

// ---------------------------------------------------------------- matchers (AST ↔ Go value ↔ RPN ↔ reference)

type tm struct {
	op   string // eq of isb isi isl ldt or and not
	t    *term
	ts   []*term
	kids []*tm
}

func (m *tm) goM() rdf.TermMatcher {
	switch m.op {
	case "eq":
		return terms.Equals{Expected: m.t.v}
	case "of":
		vs := make([]rdf.Term, len(m.ts))
		for i, t := range m.ts {
			vs[i] = t.v
		}
		return terms.EqualsOneOf(vs...)
	case "isb":
		return terms.IsBlankNode
	case "isi":
		return terms.IsIRI
	case "isl":
		return terms.IsLiteral
	case "ldt":
		return terms.IsLiteralDatatype{Datatype: m.kids[0].goM()}
	case "or":
		var l terms.LogicalOrMatcher
		for _, k := range m.kids {
			l = append(l, k.goM())
		}
		return l
	case "and":
		var l terms.LogicalAndMatcher
		for _, k := range m.kids {
			l = append(l, k.goM())
		}
		return l
	default:
		return terms.LogicalNotMatcher{Matcher: m.kids[0].goM()}
	}
}

func (m *tm) rpn() []string {
	var r []string
	switch m.op {
	case "eq":
		return []string{m.t.wire, "eq"}
	case "of":
		for _, t := range m.ts {
			r = append(r, t.wire)
		}
		return append(r, "of"+strconv.Itoa(len(m.ts)))
	case "isb", "isi", "isl":
		return []string{m.op}
	case "or", "and":
		for _, k := range m.kids {
			r = append(r, k.rpn()...)
		}
		return append(r, m.op+strconv.Itoa(len(m.kids)))
	default: // ldt, not
		return append(m.kids[0].rpn(), m.op)
	}
}

// wellFormed: every term mentioned is inside the quantifier.
func (m *tm) wellFormed() bool {
	if m.t != nil && !m.t.wf {
		return false
	}
	for _, t := range m.ts {
		if !t.wf {
			return false
		}
	}
	for _, k := range m.kids {
		if !k.wellFormed() {
			return false
		}
	}
	return true
}

// hasRef: every term mentioned has an RDF term identity (non-nil, blank nodes with identifier; literals
// of any shape, ill-formed ones included): the reference semantics below is defined.
func (m *tm) hasRef() bool {
	if m.t != nil && !m.t.eq {
		return false
	}
	for _, t := range m.ts {
		if !t.eq {
			return false
		}
	}
	for _, k := range m.kids {
		if !k.hasRef() {
			return false
		}
	}
	return true
}

// ref is the reference semantics on terms with an identity: RDF term equality is equality of the
// canonical token (which spells out datatype, lexical form, tag presence, tag kind, language and
// direction). t == nilTerm stands for a nil term (default graph name).
func (m *tm) ref(t *term) bool {
	switch m.op {
	case "eq":
		return t != nilTerm && m.t.wire == t.wire
	case "of":
		for _, x := range m.ts {
			if t != nilTerm && x.wire == t.wire {
				return true
			}
		}
		return false
	case "isb":
		return strings.HasPrefix(t.wire, "B")
	case "isi":
		return strings.HasPrefix(t.wire, "I")
	case "isl":
		return strings.HasPrefix(t.wire, "L")
	case "ldt":
		l, ok := t.v.(rdf.Literal)
		return ok && m.kids[0].ref(iriTerm(string(l.Datatype)))
	case "or":
		for _, k := range m.kids {
			if k.ref(t) {
				return true
			}
		}
		return false
	case "and":
		for _, k := range m.kids {
			if !k.ref(t) {
				return false
			}
		}
		return true
	default:
		return !m.kids[0].ref(t)
	}
}

// sm is a statement-level matcher: pos ∈ qg qs qp qo (quads.*Matcher), ts tp to (triples.*Matcher,
// wrapped in quads.TripleMatcher when used on the dataset).
type sm struct {
	pos string
	m   *tm
}

func (x sm) quadM() rdf.QuadMatcher {
	switch x.pos {
	case "qg":
		return quads.GraphNameMatcher{Matcher: x.m.goM()}
	case "qs":
		return quads.SubjectMatcher{Matcher: x.m.goM()}
	case "qp":
		return quads.PredicateMatcher{Matcher: x.m.goM()}
	case "qo":
		return quads.ObjectMatcher{Matcher: x.m.goM()}
	}
	return quads.TripleMatcher{Matcher: x.tripleM()}
}

func (x sm) tripleM() rdf.TripleMatcher {
	switch x.pos {
	case "ts":
		return triples.SubjectMatcher{Matcher: x.m.goM()}
	case "tp":
		return triples.PredicateMatcher{Matcher: x.m.goM()}
	}
	return triples.ObjectMatcher{Matcher: x.m.goM()}
}

func (x sm) rpn(quad bool) []string {
	r := append(x.m.rpn(), x.pos)
	if quad && x.pos[0] == 't' {
		r = append(r, "qt")
	}
	return r
}

type rquad struct{ s, p, o, g *term }

func (q rquad) wire() string    { return q.s.wire + "," + q.p.wire + "," + q.o.wire + "," + q.g.wire }
func (q rquad) triWire() string { return q.s.wire + "," + q.p.wire + "," + q.o.wire }
func (q rquad) wf() bool {
	return q.s.wf && q.p.wf && q.o.wf && (q.g == nilTerm || q.g.wf)
}

// hasRef: all four positions have an RDF term identity (the object may be an ill-formed literal).
func (q rquad) hasRef() bool {
	return q.s.eq && q.p.eq && q.o.eq && (q.g == nilTerm || q.g.eq)
}

func (x sm) ref(q rquad) bool {
	switch x.pos {
	case "qg":
		return x.m.ref(q.g)
	case "qs", "ts":
		return x.m.ref(q.s)
	case "qp", "tp":
		return x.m.ref(q.p)
	}
	return x.m.ref(q.o)
}

// parseRPN evaluates an RPN matcher expression; returns the statement-level matchers and/or term matchers left on the stack.
func (u *universe) parseRPN(e string) (sms []sm, tms []*tm, err error) {
	type item struct {
		t *term
		m *tm
		s *sm
	}
	var st []item
	if e == "" {
		return nil, nil, nil
	}
	pop := func() (item, bool) {
		if len(st) == 0 {
			return item{}, false
		}
		it := st[len(st)-1]
		st = st[:len(st)-1]
		return it, true
	}
	bad := fmt.Errorf("bad matcher expression %q", e)
	for _, tok := range strings.Split(e, ";") {
		switch {
		case tok == "eq":
			it, ok := pop()
			if !ok || it.t == nil {
				return nil, nil, bad
			}
			st = append(st, item{m: &tm{op: "eq", t: it.t}})
		case strings.HasPrefix(tok, "of") || strings.HasPrefix(tok, "or") || strings.HasPrefix(tok, "and"):
			op := tok[:2]
			if op == "an" {
				op = "and"
			}
			n, err := strconv.Atoi(tok[len(op):])
			if err != nil || n > len(st) {
				return nil, nil, bad
			}
			m := &tm{op: op}
			for _, it := range st[len(st)-n:] {
				if op == "of" {
					if it.t == nil {
						return nil, nil, bad
					}
					m.ts = append(m.ts, it.t)
				} else {
					if it.m == nil {
						return nil, nil, bad
					}
					m.kids = append(m.kids, it.m)
				}
			}
			st = append(st[:len(st)-n], item{m: m})
		case tok == "isb" || tok == "isi" || tok == "isl":
			st = append(st, item{m: &tm{op: tok}})
		case tok == "ldt" || tok == "not":
			it, ok := pop()
			if !ok || it.m == nil {
				return nil, nil, bad
			}
			st = append(st, item{m: &tm{op: tok, kids: []*tm{it.m}}})
		case tok == "qg" || tok == "qs" || tok == "qp" || tok == "qo" || tok == "ts" || tok == "tp" || tok == "to":
			it, ok := pop()
			if !ok || it.m == nil {
				return nil, nil, bad
			}
			st = append(st, item{s: &sm{pos: tok, m: it.m}})
		case tok == "qt":
			if len(st) == 0 || st[len(st)-1].s == nil || st[len(st)-1].s.pos[0] != 't' {
				return nil, nil, bad
			}
		default:
			t, err := u.parseTerm(tok)
			if err != nil {
				return nil, nil, err
			}
			st = append(st, item{t: t})
		}
	}
	for _, it := range st {
		switch {
		case it.s != nil:
			sms = append(sms, *it.s)
		case it.m != nil:
			tms = append(tms, it.m)
		default:
			return nil, nil, bad
		}
	}
	return sms, tms, nil
}

// ---------------------------------------------------------------- operations

type op struct {
	kind string // A D H Q G a d h q s
	q    rquad  // A D H (with g) / a d h (g = view) / G q s (only g)
	sms  []sm   // Q q
	tms  []*tm  // s
}

func joinRPN(parts [][]string) string {
	var all []string
	for _, p := range parts {
		all = append(all, p...)
	}
	return strings.Join(all, ";")
}

func (o op) wire() string {
	switch o.kind {
	case "A", "D", "H":
		return o.kind + "," + o.q.wire()
	case "a", "d", "h":
		return o.kind + "," + o.q.g.wire + "," + o.q.triWire()
	case "G":
		return "G," + o.q.g.wire
	case "Q":
		var parts [][]string
		for _, m := range o.sms {
			parts = append(parts, m.rpn(true))
		}
		return "Q," + joinRPN(parts)
	case "q":
		var parts [][]string
		for _, m := range o.sms {
			parts = append(parts, m.rpn(false))
		}
		return "q," + o.q.g.wire + "," + joinRPN(parts)
	default: // s
		var parts [][]string
		for _, m := range o.tms {
			parts = append(parts, m.rpn())
		}
		return "s," + o.q.g.wire + "," + joinRPN(parts)
	}
}

// inProperty: the operation and all its arguments are inside C19's quantifier: non-nil terms with an
// RDF term identity. Literals need not be well-formed ("literals differing only in datatype, tag or
// lexical form"); what ill-formed literals can do is collide in the store's key, which the oracle
// treats per history (see runRef: literal-key-collision-illformed).
func (o op) inProperty() bool {
	switch o.kind {
	case "A", "D", "H", "a", "d", "h":
		return o.q.hasRef()
	case "G":
		return o.q.g == nilTerm || o.q.g.eq
	case "Q", "q":
		for _, m := range o.sms {
			if !m.m.hasRef() {
				return false
			}
		}
		return o.kind == "Q" || o.q.g == nilTerm || o.q.g.eq
	}
	return false // s: NewSubjectIterator is not an operation of the property
}

// illShape classifies how an operation uses ill-formed literals (histograms; the three uses are
// counted separately): "" none, "stored" (AddQuad/AddTriple object), "arg" (Has/Delete object),
// "matcher" (a matcher mentions one).
func (o op) illShape() string {
	switch o.kind {
	case "A", "a":
		if o.q.hasRef() && !o.q.wf() {
			return "stored"
		}
	case "D", "H", "d", "h":
		if o.q.hasRef() && !o.q.wf() {
			return "arg"
		}
	case "Q", "q":
		for _, m := range o.sms {
			if m.m.hasRef() && !m.m.wellFormed() {
				return "matcher"
			}
		}
	}
	return ""
}

func (u *universe) parseOp(w string) (op, error) {
	f := strings.Split(w, ",")
	terms := func(ws ...string) ([]*term, error) {
		r := make([]*term, len(ws))
		for i, x := range ws {
			t, err := u.parseTerm(x)
			if err != nil {
				return nil, err
			}
			r[i] = t
		}
		return r, nil
	}
	bad := fmt.Errorf("bad op %q", w)
	switch {
	case len(f) == 5 && (f[0] == "A" || f[0] == "D" || f[0] == "H"):
		t, err := terms(f[1:]...)
		if err != nil {
			return op{}, err
		}
		return op{kind: f[0], q: rquad{t[0], t[1], t[2], t[3]}}, nil
	case len(f) == 5 && (f[0] == "a" || f[0] == "d" || f[0] == "h"):
		t, err := terms(f[1:]...)
		if err != nil {
			return op{}, err
		}
		return op{kind: f[0], q: rquad{t[1], t[2], t[3], t[0]}}, nil
	case len(f) == 2 && f[0] == "G":
		t, err := terms(f[1])
		if err != nil {
			return op{}, err
		}
		return op{kind: "G", q: rquad{g: t[0]}}, nil
	case len(f) == 2 && f[0] == "Q":
		sms, tms, err := u.parseRPN(f[1])
		if err != nil || len(tms) > 0 {
			return op{}, bad
		}
		return op{kind: "Q", sms: sms}, nil
	case len(f) == 3 && (f[0] == "q" || f[0] == "s"):
		t, err := terms(f[1])
		if err != nil {
			return op{}, err
		}
		sms, tms, err := u.parseRPN(f[2])
		if err != nil || (f[0] == "q" && len(tms) > 0) || (f[0] == "s" && len(sms) > 0) {
			return op{}, bad
		}
		for _, m := range sms {
			if m.pos[0] != 't' {
				return op{}, bad
			}
		}
		return op{kind: f[0], q: rquad{g: t[0]}, sms: sms, tms: tms}, nil
	}
	return op{}, bad
}

func (u *universe) parseLine(l string) ([]op, error) {
	f := strings.Fields(l)
	if len(f) == 0 || f[0] != "ds.run" {
		return nil, fmt.Errorf("not a ds.run line")
	}
	var ops []op
	for _, w := range f[1:] {
		o, err := u.parseOp(w)
		if err != nil {
			return nil, err
		}
		ops = append(ops, o)
	}
	return ops, nil
}

func lineOf(ops []op) string {
	parts := make([]string, len(ops))
	for i, o := range ops {
		parts[i] = o.wire()
	}
	return "ds.run " + strings.Join(parts, " ")
}

// ---------------------------------------------------------------- implementation side

func goQuad(q rquad) rdf.Quad {
	var r rdf.Quad
	if q.s.v != nil {
		r.Triple.Subject = q.s.v.(rdf.SubjectValue)
	}
	if q.p.v != nil {
		r.Triple.Predicate = q.p.v.(rdf.PredicateValue)
	}
	if q.o.v != nil {
		r.Triple.Object = q.o.v.(rdf.ObjectValue)
	}
	if q.g.v != nil {
		r.GraphName = q.g.v.(rdf.GraphNameValue)
	}
	return r
}

func showList(l []string) string {
	sort.Strings(l)
	return "[" + strings.Join(l, ";") + "]"
}

func tf(b bool) string {
	if b {
		return "t"
	}
	return "f"
}

// runGo executes a history on a fresh real dataset; one canonical output per op.
// useCached decides per view op whether an earlier handle of the same graph is reused.
func (u *universe) runGo(ops []op, useCached func(i int) bool) []string {
	outs, _ := u.runGo2(ops, useCached)
	return outs
}

// runGo2 additionally returns, for every subject-iterator op, the answer without residue: the
// distinct subjects of the graph's triple iterator that satisfy the matchers (computed on the
// implementation itself, so it is defined for malformed histories too).
func (u *universe) runGo2(ops []op, useCached func(i int) bool) (outs, alts []string) {
	d := inmemory.NewDataset()
	handles := map[string]triples.Graph{}
	outs = make([]string, len(ops))
	alts = make([]string, len(ops))
	view := func(i int, g *term) triples.Graph {
		if h, ok := handles[g.wire]; ok && useCached(i) {
			return h
		}
		var gn rdf.GraphNameValue
		if g.v != nil {
			gn = g.v.(rdf.GraphNameValue)
		}
		h, err := d.GetGraph(ctx, gn)
		if err != nil {
			panic(err)
		}
		handles[g.wire] = h
		return h
	}
	for i, o := range ops {
		func() {
			defer func() {
				if p := recover(); p != nil {
					outs[i] = "panic"
				}
			}()
			errOr := func(err error, s string) string {
				if err != nil {
					return "err"
				}
				return s
			}
			switch o.kind {
			case "A":
				outs[i] = errOr(d.AddQuad(ctx, goQuad(o.q)), "u")
			case "D":
				outs[i] = errOr(d.DeleteQuad(ctx, goQuad(o.q)), "u")
			case "H":
				b, err := d.HasQuad(ctx, goQuad(o.q))
				outs[i] = errOr(err, tf(b))
			case "G":
				view(i, o.q.g)
				outs[i] = "u"
			case "a":
				outs[i] = errOr(view(i, o.q.g).AddTriple(ctx, goQuad(o.q).Triple), "u")
			case "d":
				outs[i] = errOr(view(i, o.q.g).DeleteTriple(ctx, goQuad(o.q).Triple), "u")
			case "h":
				b, err := view(i, o.q.g).HasTriple(ctx, goQuad(o.q).Triple)
				outs[i] = errOr(err, tf(b))
			case "Q":
				ms := make([]rdf.QuadMatcher, len(o.sms))
				for k, m := range o.sms {
					ms[k] = m.quadM()
				}
				it, err := d.NewQuadIterator(ctx, ms...)
				if err != nil {
					outs[i] = "err"
					return
				}
				var l []string
				for it.Next() {
					q := it.Quad()
					l = append(l, u.wireOf(q.Triple.Subject)+","+u.wireOf(q.Triple.Predicate)+","+u.wireOf(q.Triple.Object)+","+u.wireOf(q.GraphName))
				}
				outs[i] = errOr(it.Err(), showList(l))
				it.Close()
			case "q":
				ms := make([]rdf.TripleMatcher, len(o.sms))
				for k, m := range o.sms {
					ms[k] = m.tripleM()
				}
				it, err := view(i, o.q.g).NewTripleIterator(ctx, ms...)
				if err != nil {
					outs[i] = "err"
					return
				}
				var l []string
				for it.Next() {
					t := it.Triple()
					l = append(l, u.wireOf(t.Subject)+","+u.wireOf(t.Predicate)+","+u.wireOf(t.Object))
				}
				outs[i] = errOr(it.Err(), showList(l))
				it.Close()
			case "s":
				ms := make([]rdf.TermMatcher, len(o.tms))
				for k, m := range o.tms {
					ms[k] = m.goM()
				}
				it, err := view(i, o.q.g).(*inmemory.Graph).NewSubjectIterator(ctx, ms...)
				if err != nil {
					outs[i] = "err"
					return
				}
				var l []string
				for it.Next() {
					l = append(l, u.wireOf(it.Term()))
				}
				outs[i] = errOr(it.Err(), showList(l))
				it.Close()
				ti, err := view(i, o.q.g).NewTripleIterator(ctx)
				if err == nil {
					seen := map[string]bool{}
					var al []string
				NEXT:
					for ti.Next() {
						sub := ti.Triple().Subject
						w := u.wireOf(sub)
						if seen[w] {
							continue
						}
						for _, m := range ms {
							if !m.MatchTerm(sub) {
								continue NEXT
							}
						}
						seen[w] = true
						al = append(al, w)
					}
					alts[i] = showList(al)
					ti.Close()
				}
			}
		}()
	}
	return outs, alts
}

// runRef executes the history on a plain map-based set. ok[i] reports whether op i has a reference
// answer (the history up to and including i is inside the property's quantifier).
//
// coll[i]: at or before op i the history has handed the store two DIFFERENT literals whose hashed
// concatenations are equal (predicate of the finding literal-key-collision-illformed; at least one of
// the two is ill-formed: Lean C19.literal_key_injective). From that op on the store may deviate from
// the set; a deviation there is in the class of the finding, not a fresh violation.
func runRef(ops []op) (outs []string, ok []bool, residue []bool, coll []bool) {
	set := map[string]rquad{}
	outs = make([]string, len(ops))
	ok = make([]bool, len(ops))
	residue = make([]bool, len(ops))
	coll = make([]bool, len(ops))
	inside := true
	boundKeys := map[string]string{} // hashed byte string -> wire of the first literal handed to the store with it
	collided := false
	for i, o := range ops {
		if o.kind != "s" && !o.inProperty() {
			inside = false
		}
		if !inside {
			continue
		}
		switch o.kind {
		case "A", "D", "H", "a", "d", "h":
			if l, isLit := o.q.o.v.(rdf.Literal); isLit {
				k := litKey(l)
				if w, seen := boundKeys[k]; seen && w != o.q.o.wire {
					collided = true
				} else if !seen {
					boundKeys[k] = o.q.o.wire
				}
			}
		}
		coll[i] = collided
		ok[i] = true
		switch o.kind {
		case "A", "a":
			set[o.q.wire()] = o.q
			outs[i] = "u"
		case "D", "d":
			delete(set, o.q.wire())
			outs[i] = "u"
		case "H", "h":
			_, b := set[o.q.wire()]
			outs[i] = tf(b)
		case "G":
			outs[i] = "u"
		case "Q":
			var l []string
		NEXTQ:
			for w, q := range set {
				for _, m := range o.sms {
					if !m.ref(q) {
						continue NEXTQ
					}
				}
				l = append(l, w)
			}
			outs[i] = showList(l)
		case "q":
			var l []string
		NEXTT:
			for _, q := range set {
				if q.g.wire != o.q.g.wire {
					continue
				}
				for _, m := range o.sms {
					if !m.ref(q) {
						continue NEXTT
					}
				}
				l = append(l, q.triWire())
			}
			outs[i] = showList(l)
		case "s":
			// the expected answer of a subject iterator: subjects that have a statement in the graph
			seen := map[string]bool{}
			var l []string
			wfm := true
			for _, m := range o.tms {
				wfm = wfm && m.hasRef()
			}
			if !wfm {
				ok[i] = false
				continue
			}
		NEXTS:
			for _, q := range set {
				if q.g.wire != o.q.g.wire || seen[q.s.wire] {
					continue
				}
				for _, m := range o.tms {
					if !m.ref(q.s) {
						continue NEXTS
					}
				}
				seen[q.s.wire] = true
				l = append(l, q.s.wire)
			}
			outs[i] = showList(l)
			residue[i] = true // compared under the residue rule, not as a C19 violation
		}
	}
	return
}

// ---------------------------------------------------------------- generators

type gen struct {
	r   *vh.Rng
	u   *universe
	rep *vh.Report
	// mode of the history being generated:
	//   "wf"        every term well-formed
	//   "illarg"    stored quads well-formed; ill-formed literals (differing from members only in tag
	//               presence/kind) as matcher arguments and as HasQuad/DeleteQuad/HasTriple/DeleteTriple objects
	//   "illstored" ill-formed literals also as objects of AddQuad/AddTriple
	//   "malformed" additionally nil terms, blank nodes without identifier (outside the quantifier)
	mode  string
	added []rquad // quads added so far in the history being generated
}

func (g *gen) ill() bool { return g.mode == "illarg" || g.mode == "illstored" }

// twinOf: a universe literal with the same datatype and lexical form as t but another tag (presence,
// kind or value), if t is a literal that has one.
func (g *gen) twinOf(t *term) *term {
	if tw := g.u.twins[t.wire]; len(tw) > 0 {
		return vh.Pick(g.r, tw)
	}
	return nil
}

// twinOfAdded: a twin of the object of a quad added earlier in this history.
func (g *gen) twinOfAdded() *term {
	for k := 0; k < 4 && len(g.added) > 0; k++ {
		if t := g.twinOf(vh.Pick(g.r, g.added).o); t != nil && (g.ill() || t.wf) {
			return t
		}
	}
	return nil
}

func (g *gen) anyTerm(pool []*term, malformed bool) *term {
	if malformed && g.r.Chance(12) {
		switch g.r.Intn(3) {
		case 0:
			return nilTerm
		case 1:
			return g.u.badBNodes[0]
		}
	}
	return vh.Pick(g.r, pool)
}

func (g *gen) quad(malformed bool) rquad {
	u := g.u
	// a small hot core makes re-adds, deletes of present quads and shared nodes frequent
	hot := g.r.Chance(60)
	subj, obj := u.subjects, u.objects
	if hot {
		subj = []*term{u.iris[0], u.iris[1], u.bnodes[2], u.bnodes[4]}
		obj = []*term{u.iris[0], u.lits[0], u.lits[1], u.lits[2], u.lits[3], u.lits[4], u.lits[5], u.bnodes[2], u.bnodes[4]}
	}
	q := rquad{s: g.anyTerm(subj, malformed), p: vh.Pick(g.r, u.preds[2:]), o: g.anyTerm(obj, malformed), g: vh.Pick(g.r, u.graphs)}
	if g.r.Chance(15) {
		q.p = vh.Pick(g.r, u.preds)
	}
	if g.mode == "illstored" && g.r.Chance(35) {
		q.o = vh.Pick(g.r, u.illPool)
		if g.r.Chance(60) {
			q.o = vh.Pick(g.r, u.illLits[:4]) // hot: twins of the hot well-formed literals
		}
	}
	if malformed {
		if g.r.Chance(5) {
			q.p = nilTerm
		}
		if g.r.Chance(35) {
			q.o = vh.Pick(g.r, u.illPool)
		}
		if g.r.Chance(5) {
			q.g = u.badBNodes[0] // graph named by a blank node without identifier
		}
	}
	return q
}

func (g *gen) termMatcher(depth int, malformed bool) *tm {
	u := g.u
	pool := u.allWF
	if malformed && g.r.Chance(40) {
		pool = append(append(append([]*term{}, u.illPool...), u.badBNodes...), u.lits...)
	} else if g.ill() && g.r.Chance(50) {
		pool = append(append([]*term{}, u.illPool...), u.lits...)
	}
	n := 10
	if depth > 0 {
		n = 14
	}
	switch g.r.Intn(n) {
	case 0, 1, 2:
		return &tm{op: "eq", t: vh.Pick(g.r, pool)}
	case 3, 4, 5, 6:
		k := g.r.Intn(5)
		m := &tm{op: "of"}
		for i := 0; i < k; i++ {
			t := vh.Pick(g.r, pool)
			if g.r.Chance(50) {
				t = vh.Pick(g.r, append(append([]*term{}, u.iris[:2]...), u.lits[:3]...)) // IRI/literal mixes, duplicates
			}
			if malformed && g.r.Chance(10) {
				t = nilTerm
			}
			m.ts = append(m.ts, t)
		}
		return m
	case 7:
		return &tm{op: vh.Pick(g.r, []string{"isb", "isi", "isl"})}
	case 8:
		return &tm{op: "ldt", kids: []*tm{{op: "eq", t: iriTerm(vh.Pick(g.r, []string{xsdString, xsdToken, langString, "http://e/a"}))}}}
	case 9:
		return &tm{op: "ldt", kids: []*tm{{op: "of", ts: []*term{iriTerm(xsdString), iriTerm(langString)}}}}
	case 10, 11:
		m := &tm{op: vh.Pick(g.r, []string{"or", "and"})}
		for i, k := 0, g.r.Intn(4); i < k; i++ {
			m.kids = append(m.kids, g.termMatcher(depth-1, malformed))
		}
		return m
	default:
		return &tm{op: "not", kids: []*tm{g.termMatcher(depth-1, malformed)}}
	}
}

// focused matcher: picks terms that actually occur, so that results are non-empty often
func (g *gen) focused(pool []*term, object bool) *tm {
	pick := func() *term {
		// object position: a literal that differs from a stored object only in its tag
		if object && g.r.Chance(40) {
			if t := g.twinOfAdded(); t != nil {
				return t
			}
		}
		return vh.Pick(g.r, pool)
	}
	if g.r.Bool() {
		return &tm{op: "eq", t: pick()}
	}
	m := &tm{op: "of"}
	for i, k := 0, 1+g.r.Intn(3); i < k; i++ {
		m.ts = append(m.ts, pick())
	}
	return m
}

func (g *gen) stmtMatchers(quad, malformed bool) []sm {
	u := g.u
	var positions []string
	if quad {
		positions = []string{"qg", "qs", "qp", "qo", "ts", "tp", "to"}
	} else {
		positions = []string{"ts", "tp", "to"}
	}
	var ms []sm
	n := g.r.Intn(4)
	for i := 0; i < n; i++ {
		pos := vh.Pick(g.r, positions)
		if g.r.Chance(35) {
			pos = "ts" // the fast path needs exactly one of these
		}
		var m *tm
		if g.r.Chance(50) {
			switch pos {
			case "qg":
				m = g.focused(u.graphs[1:], false)
			case "qs", "ts":
				m = g.focused([]*term{u.iris[0], u.iris[1], u.bnodes[2], u.bnodes[4]}, false)
			case "qp", "tp":
				m = g.focused(u.preds[2:], false)
			default:
				pool := u.objects
				if g.ill() {
					pool = append(append([]*term{}, u.objects...), u.illPool...)
				}
				m = g.focused(pool, true)
			}
		} else {
			m = g.termMatcher(2, malformed)
		}
		ms = append(ms, sm{pos: pos, m: m})
	}
	return ms
}

func (g *gen) history(maxOps int, mode string) []op {
	g.mode = mode
	malformed := mode == "malformed"
	n := 1 + g.r.Intn(maxOps)
	ops := make([]op, 0, n)
	var added []rquad
	for i := 0; i < n; i++ {
		g.added = added
		q := g.quad(malformed)
		if len(added) > 0 && g.r.Chance(45) {
			q = vh.Pick(g.r, added) // re-add / delete / query something present
			if g.r.Chance(20) {     // … or a neighbour differing in one position
				switch g.r.Intn(4) {
				case 0:
					q.s = vh.Pick(g.r, g.u.subjects)
				case 1:
					q.p = vh.Pick(g.r, g.u.preds)
				case 2:
					q.o = vh.Pick(g.r, g.u.objects)
				default:
					q.g = vh.Pick(g.r, g.u.graphs)
				}
			}
		}
		x := g.r.Intn(100)
		if isArg := (x >= 26 && x < 52) || (x >= 77 && x < 89); isArg && g.ill() && g.r.Chance(45) {
			// HasQuad/DeleteQuad/HasTriple/DeleteTriple with a literal that differs from a stored one only in its tag
			if t := g.twinOf(q.o); t != nil {
				q.o = t
			} else if g.r.Chance(30) {
				q.o = vh.Pick(g.r, g.u.illPool)
			}
		}
		switch {
		case x < 26:
			ops = append(ops, op{kind: "A", q: q})
			added = append(added, q)
		case x < 42:
			ops = append(ops, op{kind: "D", q: q})
		case x < 52:
			ops = append(ops, op{kind: "H", q: q})
		case x < 66:
			ops = append(ops, op{kind: "Q", sms: g.stmtMatchers(true, malformed)})
		case x < 69:
			ops = append(ops, op{kind: "G", q: rquad{g: q.g}})
		case x < 77:
			ops = append(ops, op{kind: "a", q: q})
			added = append(added, q)
		case x < 84:
			ops = append(ops, op{kind: "d", q: q})
		case x < 89:
			ops = append(ops, op{kind: "h", q: q})
		case x < 97:
			ops = append(ops, op{kind: "q", q: rquad{g: q.g}, sms: g.stmtMatchers(false, malformed)})
		default:
			var tms []*tm
			for k, kn := 0, g.r.Intn(3); k < kn; k++ {
				tms = append(tms, g.termMatcher(1, malformed))
			}
			ops = append(ops, op{kind: "s", q: rquad{g: q.g}, tms: tms})
		}
	}
	return ops
}

// ---------------------------------------------------------------- oracle

// residueOnly: the implementation's subject list is the expected one plus subjects all of whose
// statements in that graph were deleted earlier in the history (predicate of the residue finding).
func residueOnly(ops []op, i int, goOut, refOut string) bool {
	parse := func(s string) map[string]bool {
		m := map[string]bool{}
		s = strings.TrimSuffix(strings.TrimPrefix(s, "["), "]")
		if s == "" {
			return m
		}
		for _, x := range strings.Split(s, ";") {
			m[x] = true
		}
		return m
	}
	if !strings.HasPrefix(goOut, "[") {
		return false
	}
	got, want := parse(goOut), parse(refOut)
	for w := range want {
		if !got[w] {
			return false
		}
	}
	var tms []*tm = ops[i].tms
	for x := range got {
		if want[x] {
			continue
		}
		// x must have been the subject of a deleted statement of this graph, and satisfy the matchers
		was := false
		for _, o := range ops[:i] {
			if (o.kind == "D" || o.kind == "d") && o.q.g.wire == ops[i].q.g.wire && o.q.s.wire == x {
				was = true
				for _, m := range tms {
					if !m.ref(o.q.s) {
						return false
					}
				}
			}
		}
		if !was {
			return false
		}
	}
	return true
}

const collisionPredicate = "literal-key-collision-illformed"

// addCase stores a case. `known` cases are capped at 5 per finding (the rest only counted) and failures
// at 40 per kind of probe, so that neither residue cases nor one noisy family can crowd other failures
// out of the report. (Before round 3e vh.Report.Add kept 200 cases in all, known ones included: 200
// residue cases came first and seeded defect C19r3-1 went unreported although ds.teq disagreed; vh now
// keeps separate budgets as well.)
var knownStored = map[string]int{}

func addCase(rep *vh.Report, c vh.Case) {
	cat, limit := "known:"+c.Key, 5
	if c.Kind != "known" {
		// failures: at most 40 stored per kind of probe, so that one noisy family leaves room for the others
		cat, limit = "failure:"+c.Kind+":"+strings.SplitN(c.Op, " ", 2)[0], 40
	}
	rep.Count(cat)
	if knownStored[cat] >= limit {
		return
	}
	knownStored[cat]++
	rep.Add(c)
}

type verdict struct {
	violation string // first property violation (Go vs reference set), "" if none
	at        int
	residue   bool   // a subject iterator reported residue subjects
	collision string // first deviation inside the class literal-key-collision-illformed, "" if none
	collSkip  int    // ops not judged because the class applies and the finding is not (yet) listed
}

// collisionKnown: the finding literal-key-collision-illformed is listed in known-findings.json. With
// the entry, histories that make two different literals share a key are judged in full and their
// deviations reported as `known`; without it the ops from the collision on are left to the
// correspondence check (T3) alone, exactly as before the ill-formed literals entered the quantifier.
var collisionKnown bool

func (u *universe) oracle(ops []op, goOuts []string) verdict {
	ref, ok, residue, coll := runRef(ops)
	v := verdict{at: -1}
	for i := range ops {
		if ok[i] && coll[i] && !collisionKnown {
			v.collSkip++
			continue
		}
		if !ok[i] || goOuts[i] == ref[i] {
			continue
		}
		if coll[i] {
			if v.collision == "" {
				v.collision = fmt.Sprintf("op %d (%s): implementation answered %s, a plain set of quads answers %s", i, ops[i].wire(), goOuts[i], ref[i])
			}
			continue
		}
		if residue[i] {
			if residueOnly(ops, i, goOuts[i], ref[i]) {
				v.residue = true
				continue
			}
			// anything else a subject iterator gets wrong is reported, although the operation is
			// outside C19's list, as a violation of the residue rule
		}
		if v.violation == "" {
			v.violation = fmt.Sprintf("op %d (%s): implementation answered %s, a plain set of quads answers %s", i, ops[i].wire(), goOuts[i], ref[i])
			v.at = i
		}
	}
	return v
}

// shrink removes operations while the predicate keeps failing.
func shrink(ops []op, failing func([]op) bool) []op {
	cur := ops
	for changed := true; changed; {
		changed = false
		for i := len(cur) - 1; i >= 0; i-- {
			cand := append(append([]op{}, cur[:i]...), cur[i+1:]...)
			if len(cand) > 0 && failing(cand) {
				cur = cand
				changed = true
			}
		}
	}
	return cur
}

// ---------------------------------------------------------------- main

type item struct {
	line string
	goR  string
	kind string
	alt  string // per-op residue-free answers of subject iterators, "|"-joined ("" = none)
}

// sameUpToResidue: the model's output differs from the implementation's only at subject-iterator
// ops where the implementation gave the residue-free answer (an upstream repair of the residue
// finding must not raise an alarm: on inputs inside a known class T3 accepts either behaviour).
func sameUpToResidue(goR, model, alt string) bool {
	if alt == "" {
		return false
	}
	g, m, a := strings.Split(goR, "|"), strings.Split(model, "|"), strings.Split(alt, "|")
	if len(g) != len(m) || len(g) != len(a) {
		return false
	}
	for i := range g {
		if g[i] != m[i] && (a[i] == "" || g[i] != a[i]) {
			return false
		}
	}
	return true
}

func main() {
	flag.Parse()
	seed := vh.SeedFromEnv()
	rep := vh.NewReport("C19", *tier, seed, "random histories (<= 20 ops: AddQuad/DeleteQuad/HasQuad/NewQuadIterator, GetGraph and AddTriple/DeleteTriple/HasTriple/NewTripleIterator/NewSubjectIterator through fresh or earlier graph handles) over 5 IRIs, 8 blank nodes of 5 factories (default, 2 counter, 2 string), 15 well-formed literals differing only in datatype/tag/lexical form/letter case/base direction, 3 graph names + default; matcher lists of 0-3 subject/predicate/object/graph/triple matchers over Equals, EqualsOneOf, Is*, IsLiteralDatatype, and/or/not. Four streams: wf (50%); illarg (20%): 8 ill-formed literals that differ from a member ONLY in the presence or kind of the tag, used as matcher arguments and as HasQuad/DeleteQuad/HasTriple/DeleteTriple objects, never stored; illstored (10%): the same also stored; malformed (20%): additionally nil terms and blank nodes without identifier (outside the quantifier: correspondence only from the first such op on) and ill-formed literals built to collide in the store's hashed concatenation. The reference set judges every op whose arguments have an RDF term identity (literals of any shape); from the op at which a history hands the store two different literals with equal hashed byte strings (finding literal-key-collision-illformed) deviations are reported as known if the finding is listed, else left to the correspondence check. Plus all ordered literal pairs (store a / match, has, delete b) and all ordered term pairs (TermEquals symmetric and structural, Equals/EqualsOneOf agree). non-trivial = the history deletes a present quad or iterates with at least one matcher")
	u := newUniverse()
	g := &gen{r: vh.NewRng(seed), u: u, rep: rep}
	fs, err := vh.LoadFindings(*findings)
	if err != nil {
		fmt.Fprintln(os.Stderr, "findings:", err)
		exit(2)
	}
	known := vh.KnownKeys(fs, "C19")
	_, collisionKnown = known[collisionPredicate]
	if !collisionKnown {
		rep.Count("oracle:finding-" + collisionPredicate + "-not-listed(colliding-histories-judged-by-T3-only)")
	}
	// The driver binary is shared with the checks of other properties and is relinked by their
	// builds; run from a private copy so that a concurrent relink cannot pull it away mid-run.
	if !*nomodel {
		if b, err := os.ReadFile(*driver); err == nil {
			priv := fmt.Sprintf("%s/c19-driver-%d", os.TempDir(), os.Getpid())
			if err := os.WriteFile(priv, b, 0o755); err == nil {
				*driver = priv
				cleanup = func() { os.Remove(priv) }
				defer cleanup()
			}
		}
	}
	var items []item
	modelOff := false // exhaustive depth-4 part: oracle only

	// flush: run the queued lines through the Lean driver and compare (bounded memory)
	flush := func() {
		if *nomodel || len(items) == 0 {
			items = items[:0]
			return
		}
		lines := make([]string, len(items))
		for i, it := range items {
			lines[i] = it.line
		}
		res, err := vh.Driver{Path: *driver}.RunParallel(lines)
		if err != nil {
			fmt.Fprintln(os.Stderr, err)
			exit(2)
		}
		for i, it := range items {
			rep.Compared++
			if res[i] == it.goR {
				continue
			}
			if sameUpToResidue(it.goR, res[i], it.alt) {
				rep.Count("residue:implementation-without-residue-tolerated")
				continue
			}
			// shrink the disagreement against the model when it is a history
			c := vh.Case{Kind: "disagreement", Op: it.line, Go: it.goR, Model: res[i], Detail: it.kind}
			if ops, err := u.parseLine(it.line); err == nil && rep.Failures() < 20 {
				d := vh.Driver{Path: *driver}
				small := shrink(ops, func(cand []op) bool {
					r, err := d.Run([]string{lineOf(cand)})
					return err == nil && r[0] != strings.Join(u.runGo(cand, func(int) bool { return false }), "|")
				})
				if r, err := d.Run([]string{lineOf(small)}); err == nil {
					if gr := strings.Join(u.runGo(small, func(int) bool { return false }), "|"); gr != r[0] {
						c.Op, c.Go, c.Model = lineOf(small), gr, r[0]
					}
				}
			}
			addCase(rep, c)
		}
		items = items[:0]
	}

	// one history: run on the implementation, judge with the oracle, queue for the model
	eval := func(kind string, ops []op) {
		cacheRng := g.r.Fork()
		cached := map[int]bool{}
		for i := range ops {
			cached[i] = cacheRng.Bool()
		}
		useCached := func(i int) bool { return cached[i] }
		outs, alts := u.runGo2(ops, useCached)
		line := lineOf(ops)
		nontrivial := false
		present := map[string]bool{}
		for i, o := range ops {
			switch o.kind {
			case "A", "a":
				present[o.q.wire()] = true
			case "D", "d":
				if present[o.q.wire()] {
					nontrivial = true
				}
				delete(present, o.q.wire())
			case "Q", "q":
				if len(o.sms) > 0 {
					nontrivial = true
				}
				if len(outs[i]) > 2 {
					rep.Count("iter:nonempty")
				} else {
					rep.Count("iter:empty")
				}
				if n := fastPath(o); n != "" {
					rep.Count("iter-path:" + n)
				}
			}
			rep.Count("op:" + o.kind)
			if sh := o.illShape(); sh != "" {
				rep.Count("ill-formed-literal:" + sh + ":" + o.kind)
			}
			if outs[i] == "panic" {
				rep.Count("out:panic")
			}
		}
		rep.Eval(line, nontrivial)
		rep.Count("history:" + kind)
		v := u.oracle(ops, outs)
		if v.residue {
			rep.Count("residue:subject-iterator-reports-subject-without-statements")
			if f, ok := known["subject-iterator-residue"]; ok {
				addCase(rep, vh.Case{Kind: "known", Key: f.Key, Op: line, Detail: f.What})
			}
		}
		if v.collSkip > 0 {
			rep.Count("oracle:history-with-literal-key-collision:ops-left-to-T3")
		}
		if v.collision != "" {
			rep.Count("oracle:deviation-in-class-" + collisionPredicate)
			if f, ok := known[collisionPredicate]; ok {
				addCase(rep, vh.Case{Kind: "known", Key: f.Key, Op: line, Detail: v.collision})
			}
		}
		if v.violation != "" {
			small := ops
			if rep.Failures() < 40 { // shrinking is for the reader; the first few suffice
				small = shrink(ops, func(c []op) bool {
					return u.oracle(c, u.runGo(c, func(int) bool { return false })).violation != ""
				})
			}
			so := u.runGo(small, func(int) bool { return false })
			sv := u.oracle(small, so)
			if sv.violation == "" { // depends on handle caching: keep the unshrunk history
				small, sv = ops, v
			}
			addCase(rep, vh.Case{Kind: "violation", Op: lineOf(small), Go: strings.Join(u.runGo(small, func(int) bool { return false }), "|"), Detail: sv.violation})
		}
		if !modelOff {
			alt := ""
			for _, a := range alts {
				if a != "" {
					alt = strings.Join(alts, "|")
					break
				}
			}
			items = append(items, item{line: line, goR: strings.Join(outs, "|"), kind: kind, alt: alt})
			if len(items) >= 200000 {
				flush()
			}
		}
	}

	runLines := func(path string, oracleOnly bool) {
		b, err := os.ReadFile(path)
		if err != nil {
			fmt.Fprintln(os.Stderr, err)
			exit(2)
		}
		text := string(b)
		if strings.HasPrefix(strings.TrimSpace(text), "{") { // a replay file written by ./check
			var rf struct {
				Violations    []vh.Case `json:"violations"`
				Disagreements []vh.Case `json:"disagreements"`
			}
			if err := json.Unmarshal(b, &rf); err == nil {
				var ls []string
				for _, c := range append(rf.Violations, rf.Disagreements...) {
					ls = append(ls, c.Op)
				}
				text = strings.Join(ls, "\n")
			}
		}
		for _, l := range strings.Split(text, "\n") {
			if strings.TrimSpace(l) == "" {
				continue
			}
			ops, err := u.parseLine(l)
			if err != nil {
				if !oracleOnly {
					fmt.Fprintln(os.Stderr, "replay:", err)
				}
				continue
			}
			eval("replay", ops)
		}
	}

	if *replay != "" {
		runLines(*replay, false)
	} else {
		if *hints != "" {
			runLines(*hints, true)
		}
		n := 150000 * *scale
		if *tier == "thorough" {
			n = 2000000 * *scale
		}
		// hand-picked seeds first
		for _, l := range corpus {
			ops, err := u.parseLine(l)
			if err != nil {
				fmt.Fprintln(os.Stderr, "corpus:", err, l)
				exit(2)
			}
			eval("corpus", ops)
		}
		for i := 0; i < n; i++ {
			switch i % 10 {
			case 4, 9:
				eval("malformed", g.history(20, "malformed"))
			case 2, 7:
				eval("illarg", g.history(20, "illarg"))
			case 5:
				eval("illstored", g.history(20, "illstored"))
			default:
				eval("wf", g.history(20, "wf"))
			}
		}
		g.mode = "malformed"
		g.matcherProbes(&items, known)
		g.literalPairs(eval)
		if *tier != "thorough" {
			g.exhaustive(eval, 2, "compared with the reference set and with the model")
		} else {
			g.exhaustive(eval, 3, "compared with the reference set and with the model")
			flush()
			modelOff = true
			g.exhaustive(eval, 4, "compared with the reference set")
			modelOff = false
		}
	}

	if *nomodel {
		if rep.Cases == nil {
			rep.Cases = []vh.Case{}
		}
		if err := rep.Write(*out); err != nil {
			fmt.Fprintln(os.Stderr, err)
			exit(2)
		}
		fmt.Printf("c19 (oracle only): %d evaluations, %d failures\n", rep.Evaluations, rep.Failures())
		if rep.Failures() > 0 {
			exit(1)
		}
		return
	}
	flush()
	if rep.Cases == nil {
		rep.Cases = []vh.Case{}
	}
	if err := rep.Write(*out); err != nil {
		fmt.Fprintln(os.Stderr, err)
		exit(2)
	}
	fmt.Printf("c19: %d evaluations, %d compared with the model, %d failures, %d known\n", rep.Evaluations, rep.Compared, rep.Failures(), len(rep.Cases)-rep.Failures())
	if rep.Failures() > 0 {
		exit(1)
	}
}

// fastPath names the branch of newQuadIterator / NewTripleIterator an iteration takes.
func fastPath(o op) string {
	if len(o.sms) == 0 {
		return "no-matchers"
	}
	n := 0
	for _, m := range o.sms {
		if m.pos == "ts" {
			n++
		}
	}
	switch {
	case n == 1 && len(o.sms) == 1:
		return "single-subject-only"
	case n == 1:
		return "single-subject+others"
	case n == 0:
		return "general-no-subject"
	}
	return "general-many-subjects"
}

// matcherProbes: every pair of universe terms for TermEquals (ds.teq) and for node-key equality
// (ds.key, observed through HasQuad), every Equals / EqualsOneOf matcher built from one universe term
// against every universe term, and random matcher shapes against random terms (ds.match).
//
// Direct oracles on the implementation (besides the correspondence with the model):
//   - TermEquals is symmetric on every pair of non-nil terms;
//   - on terms with an identity (all but nil and the blank node without identifier), ill-formed
//     literals included, TermEquals is structural equality (sameTerm: kind, datatype, lexical form, tag
//     presence, tag kind, language, direction) = equality of the canonical token;
//   - Equals{a} and EqualsOneOf(a), EqualsOneOf(a, other) match b iff a equals b;
//   - two terms with an identity are interned as one node iff they are equal — except pairs of
//     different literals whose hashed byte strings coincide (class literal-key-collision-illformed).
func (g *gen) matcherProbes(items *[]item, known map[string]vh.Finding) {
	u := g.u
	all := append(append(append(append(append([]*term{}, u.allWF...), u.illLits...), u.badLits...), u.badBNodes...), nilTerm)
	pairs, illPairs := 0, 0
	for _, a := range all {
		if a == nilTerm {
			continue
		}
		for _, b := range all {
			g.rep.Count("op:teq")
			pairs++
			if a.eq && !a.wf || b.eq && !b.wf {
				g.rep.Count("teq:pair-with-ill-formed-literal")
				illPairs++
			}
			line := "ds.teq " + a.wire + " " + b.wire
			g.rep.Eval(line, false)
			ab := a.v.TermEquals(b.v)
			*items = append(*items, item{line: line, goR: tf(ab), kind: "teq"})
			if b != nilTerm {
				if ba := b.v.TermEquals(a.v); ab != ba {
					addCase(g.rep, vh.Case{Kind: "violation", Op: line, Go: tf(ab), Detail: fmt.Sprintf("TermEquals is not symmetric: a.TermEquals(b)=%v, b.TermEquals(a)=%v", ab, ba)})
				}
			}
			// on terms with an identity TermEquals is structural equality = equality of the canonical form
			if a.eq && (b.eq || b == nilTerm) {
				want := b != nilTerm && sameTerm(a.v, b.v)
				if want != (a.wire == b.wire) {
					addCase(g.rep, vh.Case{Kind: "violation", Op: line, Detail: "harness: structural equality and canonical tokens disagree"})
				}
				if ab != want {
					addCase(g.rep, vh.Case{Kind: "violation", Op: line, Go: tf(ab), Detail: "TermEquals disagrees with RDF term equality (same kind, datatype, lexical form, tag presence, tag kind, language, direction): expected " + tf(want)})
				}
				// the matchers built from a agree with term equality on b
				other := u.iris[3]
				for _, m := range []*tm{{op: "eq", t: a}, {op: "of", ts: []*term{a}}, {op: "of", ts: []*term{other, a}}, {op: "of", ts: []*term{a, u.lits[4], a}}} {
					mline := "ds.match " + strings.Join(m.rpn(), ";") + " " + b.wire
					got := m.goM().MatchTerm(b.v)
					g.rep.Count("op:match-pair")
					*items = append(*items, item{line: mline, goR: tf(got), kind: "match"})
					if got != m.ref(b) {
						addCase(g.rep, vh.Case{Kind: "violation", Op: mline, Go: tf(got), Detail: "term matcher disagrees with term equality (reference evaluation: " + tf(m.ref(b)) + ")"})
					}
				}
			}
			if b == nilTerm {
				continue
			}
			// same node? add (s,p,a) then ask for (s,p,b)
			if _, ok := a.v.(rdf.ObjectValue); ok {
				d := inmemory.NewDataset()
				s, p := u.iris[0].v.(rdf.SubjectValue), u.iris[2].v.(rdf.PredicateValue)
				d.AddQuad(ctx, rdf.Quad{Triple: rdf.Triple{Subject: s, Predicate: p, Object: a.v.(rdf.ObjectValue)}})
				same, _ := d.HasQuad(ctx, rdf.Quad{Triple: rdf.Triple{Subject: s, Predicate: p, Object: b.v.(rdf.ObjectValue)}})
				g.rep.Count("op:key")
				kline := "ds.key " + a.wire + " " + b.wire
				*items = append(*items, item{line: kline, goR: tf(same), kind: "key"})
				if a.eq && b.eq && same != (a.wire == b.wire) {
					switch {
					case !keyCollision(a, b):
						addCase(g.rep, vh.Case{Kind: "violation", Op: kline, Go: tf(same), Detail: "two terms are interned as the same node iff they are equal: violated (their hashed byte strings differ)"})
					case collisionKnown:
						f := known[collisionPredicate]
						addCase(g.rep, vh.Case{Kind: "known", Key: f.Key, Op: kline, Go: tf(same), Detail: f.What})
					default:
						g.rep.Count("oracle:key-pair-in-class-" + collisionPredicate + "(finding-not-listed)")
					}
				}
			}
		}
	}
	g.rep.Exhaustive = append(g.rep.Exhaustive, fmt.Sprintf("TermEquals on all %d ordered pairs of the %d universe terms (%d pairs involve an ill-formed literal): symmetry, agreement with structural equality, agreement of Equals/EqualsOneOf built from the first term, node identity in the store; compared with the model", pairs, len(all), illPairs))
	n := 4000
	if *tier == "thorough" {
		n = 100000
	}
	for i := 0; i < n**scale; i++ {
		g.mode = []string{"wf", "illarg", "illstored", "malformed"}[i%4]
		mal := g.mode == "malformed"
		m := g.termMatcher(3, mal)
		t := vh.Pick(g.r, all)
		line := "ds.match " + strings.Join(m.rpn(), ";") + " " + t.wire
		got := m.goM().MatchTerm(t.v)
		g.rep.Count("op:match")
		g.rep.Count("match:" + m.op)
		if m.hasRef() && !m.wellFormed() {
			g.rep.Count("match:with-ill-formed-literal-argument")
		}
		g.rep.Eval(line, m.op == "of" || len(m.kids) > 0)
		*items = append(*items, item{line: line, goR: tf(got), kind: "match"})
		if m.hasRef() && (t.eq || t == nilTerm) && got != m.ref(t) {
			addCase(g.rep, vh.Case{Kind: "violation", Op: line, Go: tf(got), Detail: "term matcher disagrees with term equality (reference evaluation: " + tf(m.ref(t)) + ")"})
		}
	}
}

// literalPairs: for every ordered pair (a, b) of universe literals — well-formed, ill-formed twins and
// the colliding ones — the history "store a; iterate with object matchers built from b (Equals,
// EqualsOneOf, through the dataset and through the view); HasQuad b; DeleteQuad b; iterate": exactly
// the quad with a is selected iff a = b. Judged by the reference set and compared with the model.
func (g *gen) literalPairs(eval func(string, []op)) {
	u := g.u
	lits := append(append([]*term{}, u.lits...), u.illPool...)
	s, p := u.iris[0], u.iris[2]
	count := 0
	for _, a := range lits {
		for _, b := range lits {
			q := func(o *term) rquad { return rquad{s, p, o, nilTerm} }
			ops := []op{
				{kind: "A", q: q(a)},
				{kind: "Q", sms: []sm{{pos: "qo", m: &tm{op: "eq", t: b}}}},
				{kind: "Q", sms: []sm{{pos: "to", m: &tm{op: "of", ts: []*term{b, u.iris[3]}}}}},
				{kind: "q", q: rquad{g: nilTerm}, sms: []sm{{pos: "ts", m: &tm{op: "eq", t: s}}, {pos: "to", m: &tm{op: "of", ts: []*term{b}}}}},
				{kind: "Q", sms: []sm{{pos: "qo", m: &tm{op: "not", kids: []*tm{{op: "eq", t: b}}}}}},
				{kind: "H", q: q(b)},
				{kind: "D", q: q(b)},
				{kind: "Q"},
				{kind: "h", q: q(a)},
			}
			kind := "literal-pairs:wf-stored"
			if !a.wf {
				kind = "literal-pairs:ill-formed-stored"
			}
			eval(kind, ops)
			count++
		}
	}
	nwf := 0
	for _, a := range lits {
		if a.wf {
			nwf++
		}
	}
	g.rep.Exhaustive = append(g.rep.Exhaustive, fmt.Sprintf("all %d ordered pairs (a, b) of the %d universe literals (%d well-formed, %d ill-formed): store a, then Equals/EqualsOneOf/not object matchers built from b through NewQuadIterator and a view's NewTripleIterator (fast path), HasQuad b, DeleteQuad b, full iteration, HasTriple a; compared with the reference set (from a literal-key collision on only if that finding is listed) and with the model", count, len(lits), nwf, len(lits)-nwf))
}

// exhaustive: all histories of <= 4 Add/Delete operations over a 2x2x2x2 universe, each followed by
// a HasQuad of every quad, a full iteration, and a fast-path iteration.
func (g *gen) exhaustive(eval func(string, []op), depth int, how string) {
	u := g.u
	var qs []rquad
	for _, s := range []*term{u.iris[0], u.bnodes[2]} {
		for _, p := range []*term{u.iris[2], u.iris[3]} {
			for _, o := range []*term{u.lits[0], u.lits[2]} {
				for _, gn := range []*term{nilTerm, u.iris[0]} {
					qs = append(qs, rquad{s, p, o, gn})
				}
			}
		}
	}
	var base []op
	for _, q := range qs {
		base = append(base, op{kind: "A", q: q}, op{kind: "D", q: q})
	}
	var tail []op
	for _, q := range qs {
		tail = append(tail, op{kind: "H", q: q})
	}
	tail = append(tail, op{kind: "Q"},
		op{kind: "Q", sms: []sm{{pos: "ts", m: &tm{op: "eq", t: u.iris[0]}}, {pos: "qo", m: &tm{op: "of", ts: []*term{u.lits[0], u.iris[0]}}}}},
		op{kind: "q", q: rquad{g: u.iris[0]}, sms: []sm{{pos: "ts", m: &tm{op: "of", ts: []*term{u.bnodes[2]}}}}})
	count := 0
	var rec func(prefix []op, depth int)
	rec = func(prefix []op, depth int) {
		if len(prefix) > 0 {
			eval("exhaustive", append(append([]op{}, prefix...), tail...))
			count++
		}
		if depth == 0 {
			return
		}
		for _, o := range base {
			rec(append(prefix, o), depth-1)
		}
	}
	rec(nil, depth)
	g.rep.Exhaustive = append(g.rep.Exhaustive, fmt.Sprintf("all %d histories of <= %d AddQuad/DeleteQuad over a 2x2x2x2 universe (16 quads), each followed by HasQuad of all 16 quads, a full iteration and two fast-path iterations; %s", count, depth, how))
}

// corpus: hand-picked histories, always run first.
var corpus = []string{
	// "x"@en stored; the literal without its tag as Equals / EqualsOneOf object matcher, HasQuad, DeleteQuad: not a member (seeded C19r3-1)
	"ds.run A,I687474703a2f2f652f61,I687474703a2f2f652f70,L687474703a2f2f7777772e77332e6f72672f313939392f30322f32322d7264662d73796e7461782d6e73236c616e67537472696e67.78.l656e,- Q,L687474703a2f2f7777772e77332e6f72672f313939392f30322f32322d7264662d73796e7461782d6e73236c616e67537472696e67.78.-;eq;qo Q,L687474703a2f2f7777772e77332e6f72672f313939392f30322f32322d7264662d73796e7461782d6e73236c616e67537472696e67.78.-;I687474703a2f2f652f71;of2;to;qt H,I687474703a2f2f652f61,I687474703a2f2f652f70,L687474703a2f2f7777772e77332e6f72672f313939392f30322f32322d7264662d73796e7461782d6e73236c616e67537472696e67.78.-,- D,I687474703a2f2f652f61,I687474703a2f2f652f70,L687474703a2f2f7777772e77332e6f72672f313939392f30322f32322d7264662d73796e7461782d6e73236c616e67537472696e67.78.-,- Q,",
	// delete the last statement of a subject, then re-add and iterate (residue must stay invisible)
	"ds.run A,I687474703a2f2f652f61,I687474703a2f2f652f70,I687474703a2f2f652f62,- D,I687474703a2f2f652f61,I687474703a2f2f652f70,I687474703a2f2f652f62,- Q, H,I687474703a2f2f652f61,I687474703a2f2f652f70,I687474703a2f2f652f62,- s,-, A,I687474703a2f2f652f61,I687474703a2f2f652f70,I687474703a2f2f652f62,- Q, s,-,",
	// HasQuad on a graph that does not exist yet, with a nil subject: no panic
	"ds.run H,-,I687474703a2f2f652f70,I687474703a2f2f652f62,I687474703a2f2f652f67 G,I687474703a2f2f652f67 H,-,I687474703a2f2f652f70,I687474703a2f2f652f62,I687474703a2f2f652f67",
	// ill-formed literal colliding with "x"@en: the second add is swallowed and the first term is reported
	"ds.run A,I687474703a2f2f652f61,I687474703a2f2f652f70,L687474703a2f2f7777772e77332e6f72672f313939392f30322f32322d7264662d73796e7461782d6e73236c616e67537472696e67.78.l656e,- A,I687474703a2f2f652f61,I687474703a2f2f652f70,L687474703a2f2f7777772e77332e6f72672f313939392f30322f32322d7264662d73796e7461782d6e73236c616e67537472696e67.6c616e673d22656e220a78.-,- Q,",
}
