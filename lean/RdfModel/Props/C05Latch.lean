/-
  C05 (part: decoders without a parsing model) — the Next/Err wrapper.

  Property text: "Iteration ends with Next returning false and keeps returning false, Err is stable
  from then on."

  What is proved here: for the wrapper model `Latch.next` (Model/Latch.lean, executed by the driver,
  op `latch.run`) under the two facts T2 extracts from every decoder's `Next`
  (`Gen.LatchFacts`, regenerated from the Go sources on every run):

    guardFirst  `if d.err != nil { return false }` is the first statement of Next (or the first
                statement of its top-level `for {}` after a call-free prelude), so nothing of the
                decoder proper runs once an error is stored;
    storesErr   every `return false` is the guard itself, directly follows `d.err = …`, or is a
                reviewed clean end (list below);

  and under one hypothesis about the decoder proper, `QuietAbsorbing` (once it reports "no
  statement, no error" it keeps doing so — proved for the buffered decoders' index/length step,
  *assumed* for the others, where it is what the life-cycle oracle of go/cmd/c05x searches).

  What is NOT proved: that the Go decoders are instances of this model beyond the extracted
  syntactic facts (T2) and the trace correspondence of go/cmd/c05x (T3, observational); termination,
  absence of panics, memory: search only for RDF/XML, JSON-LD, RDFa, Microdata, HTML-embedded
  JSON-LD and the combined HTML decoder (see props/C05X.fragment.json `explanation`).
-/
import RdfModel.Proofs.C05Latch
import RdfModel.Gen.LatchFacts
namespace RdfModel.C05X
open RdfModel.Latch

/-- types with Next/Err in the scanned packages that are not one of the property's decoders -/
def outOfScope : List (String × String) := [
  ("encoding/encodingutil.quadIteratorIterator", "concatenation of already latched iterators; not reachable from any of the eleven decoders (no caller in the repository)")
]

def inScope (d : DecoderFacts) : Bool := !(outOfScope.map (·.1)).contains d.decoder

def patternOK (d : DecoderFacts) : Bool :=
  (d.guard == .delegate && d.errKind == .errDelegate && d.returns.isEmpty) ||
  ((factsOf d).guardFirst && (factsOf d).storesErr && d.errKind == .errField)

/-- T2: every decoder of the repository has the latch pattern. (Fails on a tree where some `Next`
    runs decoder code before the guard — as `encoding/rdfxml` did before patch
    `c05x-1-fix-rdfxml-next-guard` — or gains an unreviewed `return false`.) -/
theorem latch_pattern_present :
    ∀ d ∈ Gen.LatchFacts.decoders, inScope d = true → patternOK d = true := by decide

/-- all eleven decoders of the property are in the table (by type) -/
theorem latch_table_complete :
    ["encoding/ntriples.Decoder", "encoding/nquads.Decoder", "encoding/turtle.Decoder", "encoding/trig.Decoder",
     "encoding/rdfjson.Decoder", "encoding/rdfxml.Decoder", "encoding/jsonld.Decoder", "encoding/htmlrdfa.Decoder",
     "encoding/htmlmicrodata.Decoder", "encoding/htmljsonld.Decoder", "encoding/html/htmldefaults.Decoder",
     "encoding/encodingutil.TripleAsQuadDecoder"].all
      (fun n => (Gen.LatchFacts.decoders.map (·.decoder)).contains n) = true := by decide

/-- Sticky false, stable Err: once `Next` has returned false, every later `Next` returns false and
    `Err` is what it was at that moment. -/
def Sticky {σ ε : Type} (f : Facts) (step : σ → StepResult σ ε) : Prop :=
  ∀ s : State σ ε, (next f step s).1 = false →
    ∀ n : Nat, (next f step (iter f step n (next f step s).2)).1 = false ∧
               err (iter f step n (next f step s).2) = err (next f step s).2

theorem latch_generic {σ ε : Type} (f : Facts) (step : σ → StepResult σ ε)
    (hg : f.guardFirst = true) (hs : f.storesErr = true) (hq : QuietAbsorbing step) :
    Sticky f step := by
  intro s hfalse n
  have hd := dead_after_false f step hq hg hs s hfalse
  obtain ⟨h1, h2, _⟩ := dead_iter f step hq hg n _ hd
  exact ⟨h1, h2⟩

/-- the generic theorem instantiated at the facts extracted from each non-delegating decoder -/
theorem latch_all_decoders {σ ε : Type} (step : σ → StepResult σ ε) (hq : QuietAbsorbing step) :
    ∀ d ∈ Gen.LatchFacts.decoders, inScope d = true → d.guard ≠ .delegate → Sticky (factsOf d) step := by
  intro d hd hin hnd
  have hp := latch_pattern_present d hd hin
  have : (factsOf d).guardFirst = true ∧ (factsOf d).storesErr = true := by
    unfold patternOK at hp
    have hdel : (d.guard == GuardKind.delegate) = false := by
      cases hgd : d.guard <;> simp_all
    simp [hdel] at hp
    exact ⟨hp.1.1, hp.1.2⟩
  exact latch_generic _ step this.1 this.2 hq

/-- buffered decoders (RDF/XML, JSON-LD, RDF/JSON, RDFa, Microdata parse everything on the first
    call and then walk an index): no hypothesis left. -/
theorem latch_buffered (ε : Type) (f : Facts) (hg : f.guardFirst = true) (hs : f.storesErr = true) :
    Sticky f (bufferedStep ε) :=
  latch_generic f _ hg hs (buffered_quiet ε)

/-- hypotheses are satisfiable: a buffered decoder with two statements, error-free -/
example : Sticky (σ := Buffered) (ε := Unit) ⟨true, true⟩ (bufferedStep Unit) :=
  latch_buffered Unit _ rfl rfl

/-- The guard is needed: without `guardFirst` a decoder proper that fails differently when re-run
    changes Err after Next has returned false. This is the shape of the RDF/XML defect repaired by
    patch `c05x-1-fix-rdfxml-next-guard` (parseAll re-run on every call after an error). -/
def rerunStep (n : Nat) : StepResult Nat Nat := { yielded := false, raised := some n, inner := n + 1 }

theorem latch_needs_guard :
    let f : Facts := ⟨false, true⟩
    let s1 := (next f rerunStep ⟨none, 0⟩).2
    (next f rerunStep ⟨none, 0⟩).1 = false ∧ err s1 = some 0 ∧ err (next f rerunStep s1).2 = some 1 := by
  decide

/-- The hypothesis `QuietAbsorbing` is needed as well: a decoder proper that reports a quiet end and
    later yields again (which none of the guards of the wrapper can prevent) is not sticky. For the
    decoders without a model this hypothesis is exactly what stays *unproved* here and is only
    searched by the life-cycle oracle of go/cmd/c05x ("next-true-after-false"). -/
def flickerStep (n : Nat) : StepResult Nat Unit := { yielded := n % 2 == 1, raised := none, inner := n + 1 }

theorem latch_needs_quiet_absorbing :
    let f : Facts := ⟨true, true⟩
    (next f flickerStep ⟨none, 0⟩).1 = false ∧
    (next f flickerStep (next f flickerStep ⟨none, 0⟩).2).1 = true := by
  decide

/-- Full statement of the C05 life-cycle clause for a decoder of the repository, kept as a
    documented `Prop`: it quantifies over the *actual* decoder proper of each Go decoder, of which
    there is no model for RDF/XML, JSON-LD, RDFa, Microdata, HTML-embedded JSON-LD and the combined
    HTML decoder. What is proved instead is `latch_all_decoders` (for every quiet-absorbing decoder
    proper) and `latch_buffered` (index/length step); missing: a model of each decoder proper with a
    proof that it is quiet-absorbing, never panics and terminates — search only (go/cmd/c05x). -/
def C05LifeCycleFull : Prop :=
  ∀ d ∈ Gen.LatchFacts.decoders, inScope d = true → d.guard ≠ .delegate →
    ∀ (σ ε : Type) (step : σ → StepResult σ ε), Sticky (factsOf d) step

/-- …and as stated (without a hypothesis on the decoder proper) it is false: -/
theorem C05LifeCycleFull_needs_hypothesis : ¬ C05LifeCycleFull := by
  intro h
  have hex : Gen.LatchFacts.decoders.any (fun d => inScope d && d.guard != .delegate) = true := by decide
  obtain ⟨d, hd, hp⟩ := List.any_eq_true.mp hex
  have hp' : inScope d = true ∧ d.guard ≠ .delegate := by
    simpa using hp
  have := h d hd hp'.1 hp'.2 Nat Unit flickerStep ⟨none, 0⟩
  have hfalse : (next (factsOf d) flickerStep ⟨none, 0⟩).1 = false := by
    simp [next, flickerStep]
  have h0 := (this hfalse 0).1
  simp [next, iter, flickerStep] at h0

end RdfModel.C05X
