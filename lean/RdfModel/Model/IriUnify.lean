/-
  RdfModel.Model.IriUnify — the glue that puts the consumers of `net/url` / `iri.ParsedIRI` on the ONE model
  that is tied exactly to the code (Model/GoUrlFull.lean + Model/ParsedIRI.lean, T3 ops `piri.*`):

    * `fullAbsOk` / `fullOk`   acceptance of `url.Parse` (+ `IsAbs`) read off the full model
    * `urlOk`                  the `urlOk` parameter of the N-Triples / N-Quads decoders as the driver now
                               instantiates it: runes → `string(runes)` (UTF-8) → `fullAbsOk`; on the single
                               class the full model declines (`PErr.unmodelled`: '%' inside an IP literal) the
                               acceptance model Model/GoUrl.lean answers (zones are modelled there)
    * `relativizeCode`         `ParseBaseIRI(b)` then `RelativizeIRI(v)` (iri/base_iri.go) with NOTHING
                               abstracted: `original = ParsedIRI.String()` of the base, the five indices from
                               `PIRI.baseIndices` (which runs the model of `Parse("/")`, `Parse("./")`), the
                               candidate by the index arithmetic of `relativizeIRI` (`candidateCode`: as
                               `Prefix.candidate`, every slice expression with its explicit `.panic`
                               outcome, with the two bounds guards of patches/c13-fix-relativize-bounds.patch:
                               bases such as "http:/a/b" print shorter than their own directory
                               "http:///a/"), and the verification step by `rb.parsed.Parse(rel)` / `String()` =
                               `PIRI.ParsedIRI.parseRef` / `str` — the resolver the Go code calls, instead of
                               `Prefix.goResolve` (RFC 3986 plus two measured deviations, valid on a domain).

  Tied by T3 ops `iriu.url` and `iriu.rel` (go/cmd/iriu), exact agreement on every input (no domain
  restriction). Core-only.
-/
import RdfModel.Model.GoUrl
import RdfModel.Model.ParsedIRI
import RdfModel.Model.Prefix
namespace RdfModel.IriUnify
open RdfModel RdfModel.GoUrlFull RdfModel.PIRI
open RdfModel.Prefix (BaseIRI Outcome)

/-! ### acceptance -/

/-- `url.Parse(s)` succeeds and `IsAbs()`, by the full model; `unmodelled` counts as "no" -/
def fullAbsOk (s : Str) : Bool :=
  match parse s with
  | .ok u => u.isAbs
  | .error _ => false

/-- `url.Parse(s)` succeeds, by the full model -/
def fullOk (s : Str) : Bool :=
  match parse s with
  | .ok _ => true
  | .error _ => false

/-- the full model declines (`'%'` between `[` and `]`) -/
def fullUnmodelled (s : Str) : Bool :=
  match parse s with
  | .error .unmodelled => true
  | _ => false

/-- acceptance on bytes: the full model, falling back to the acceptance model where the full model declines -/
def absOkBytes (s : Str) : Bool :=
  match parse s with
  | .ok u => u.isAbs
  | .error .unmodelled => GoUrl.parseAbsOk s
  | .error _ => false

/-- the `urlOk` parameter of the NT/NQ decoders (argument: the runes of `string(decoded)`) -/
def urlOk (rs : List Nat) : Bool := absOkBytes (utf8Encode rs)

/-! ### `RelativizeIRI` over the exact resolver -/

/-- `NewBaseIRI(parsed)`; `none` = the nil dereference of `baseRoot.String()` (never reached:
    `C12W.parseRef_no_panic` and "/" , "./" always parse) -/
def newBaseIRICode (p : ParsedIRI) : Option BaseIRI :=
  match baseIndices p with
  | none => none
  | some ix =>
    some { original := p.str
           root := (match ix.root, ix.directory with
             | some r, some d => some (r, d)
             | _, _ => none)
           resourceIndex := ix.resource
           queryIndex := ix.query
           fragmentIndex := ix.fragment }

/-- the last resort of `relativizeIRI`: `v[rb.rootIndex-1:]` -/
def rootRelative (rootIndex : Nat) (v : Str) : Outcome :=
  if rootIndex = 0 ∨ v.length < rootIndex - 1 then .panic
  else .some (v.drop (rootIndex - 1))

/-- the part of `relativizeIRI` after the `rb.original == v` test, for an absolute base -/
def candidateAbs (rb : BaseIRI) (rootIndex directoryIndex : Nat) (v : Str) : Outcome :=
  let n := rb.original.length
  -- if len(v) > rb.resourceIndex && strings.HasPrefix(v, rb.original[0:rb.resourceIndex]) { switch v[rb.resourceIndex] … }
  let sw : Option Outcome :=
    if rb.resourceIndex < v.length then
      if n < rb.resourceIndex then some .panic
      else if (rb.original.take rb.resourceIndex).isPrefixOf v then
        if v[rb.resourceIndex]? = some 0x23 then
          -- case '#': if len(v) >= rb.directoryIndex { return v[rb.directoryIndex:], true }
          (if directoryIndex ≤ v.length then some (.some (v.drop directoryIndex)) else Option.none)
        else if v[rb.resourceIndex]? = some 0x3f then some (.some (v.drop rb.resourceIndex))
        else Option.none
      else Option.none
    else Option.none
  match sw with
  | some o => o
  | Option.none =>
    -- if len(v) >= rb.directoryIndex && strings.HasPrefix(rb.original, v[:rb.directoryIndex])
    if directoryIndex ≤ v.length ∧ (v.take directoryIndex).isPrefixOf rb.original = true then
      let rel := v.drop directoryIndex
      if rel = [] ∨ rel.head? = some 0x3f ∨ rel.head? = some 0x23 then .some ([0x2e, 0x2f] ++ rel) else .some rel
    else
      rootRelative rootIndex v

/-- `(*BaseIRI).relativizeIRI`: the candidate reference -/
def candidateCode (rb : BaseIRI) (v : Str) : Outcome :=
  let n := rb.original.length
  let first : Option Str :=
    if n < v.length ∧ rb.fragmentIndex = Option.none ∧ rb.original.isPrefixOf v = true then
      if v[n]? = some 0x23 then some (v.drop n)
      else if rb.queryIndex = Option.none ∧ v[n]? = some 0x3f then some (v.drop n)
      else Option.none
    else Option.none
  match first with
  | some r => .some r
  | Option.none =>
    match rb.root with
    | Option.none => .none
    | some (rootIndex, directoryIndex) =>
      if ¬ (rb.original.take (min rootIndex n)).isPrefixOf v = true then .none
      else if rb.original = v then .some []
      else candidateAbs rb rootIndex directoryIndex v

/-- `(*BaseIRI).RelativizeIRI` with `rb.parsed = p`: the candidate, the "//" refusal and, for an absolute
    base, `resolved, err := rb.parsed.Parse(rel); if err != nil || resolved.String() != v { return "", false }` -/
def relativizeP (p : ParsedIRI) (rb : BaseIRI) (v : Str) : Outcome :=
  match candidateCode rb v with
  | .some rel =>
    if [0x2f, 0x2f].isPrefixOf rel = true then .none
    else if rb.root.isSome then
      match p.parseRef rel with
      | .ok t => if t.str = v then .some rel else .none
      | .err _ => .none
      | .panic => .panic
    else .some rel
  | o => o

inductive RelRes where
  | badBase (e : PErr)          -- `ParseBaseIRI` returns the error of `url.Parse`
  | basePanic                   -- `NewBaseIRI` panics
  | res (o : Outcome)
deriving DecidableEq, Repr

/-- `ParseBaseIRI(b)` then `RelativizeIRI(v)` -/
def relativizeCode (b v : Str) : RelRes :=
  match parseIRI b with
  | .error e => .badBase e
  | .ok p =>
    match newBaseIRICode p with
    | none => .basePanic
    | some rb => .res (relativizeP p rb v)

end RdfModel.IriUnify
