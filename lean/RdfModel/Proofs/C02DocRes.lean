/-
  Proofs.C02DocRes — nested-resource mode, the fragment that is proved (`resources_doc_roundtrip_partial`):
  AddResource for resources with an explicit subject whose statements are all ObjectStatements (no
  `[ … ]`, no `( … )`): predicate-object lists with `;` and `,`, the keyword `a`, the multi-line layout.
  Also the configuration-independent part of a document (header, sorting, defaults) stated once for
  arbitrary sections (`doc_generic`).
-/
import RdfModel.Proofs.C02DocMain
namespace RdfModel.Proofs.C02Doc
open RdfModel RdfModel.Ttl RdfModel.TtlEnc RdfModel.C02 RdfModel.TtlDoc RdfModel.Desc

variable {C : Cfg} {T : Tables}

/-! ### a document of arbitrary sections -/

section Generic
variable {α : Type} {cfg : Config} {pm : Prefix.PM}

/-- sections one after the other, then the end of the input -/
theorem run_sections (sec : α → List Nat) (out : α → List Stmt) (env : Env) :
    ∀ (items : List α),
      (∀ x ∈ items, ∀ (K : List Frame) (k : Nat) (rest : List Nat),
        Run C .eof (mk (⟨{}, .statement⟩ :: K) (List.replicate k 0x0a ++ (sec x ++ rest)) env) (out x)
          (mk (⟨{}, .statement⟩ :: K) (0x0a :: rest) env)) →
      ∀ (K : List Frame) (k : Nat),
      Run C .eof (mk (⟨{}, .statement⟩ :: K) (List.replicate k 0x0a ++ (items.map sec).flatten) env)
        (items.flatMap out) (mk [] [] env)
  | [], _, K, k => by simpa using run_eof (C := C) {} K k env
  | x :: items, h, K, k => by
    have r1 := h x List.mem_cons_self K k (items.map sec).flatten
    have r2 := run_sections sec out env items (fun y hy => h y (List.mem_cons_of_mem _ hy)) K 1
    have := r1.trans r2
    simpa using this

/-- The configuration-dependent part of a round trip, for any kind of section: if every section, read at
    statement level in an environment that agrees with the encoder's, yields `out x` and leaves the
    environment alone, then the whole document (`TtlEnc.document`: header, buffering, sorting) decodes to
    the outputs of the sections, in their order or — sorted sections — in the sorted order. -/
theorem doc_generic (hT : DocTablesOK T) (hC : CfgOK C T) (hcfg : ConfigOK C.isSpace T cfg pm)
    (items : List α) (sec : α → List Nat) (out : α → List Stmt) (used : α → List (List Nat))
    (hrun : ∀ (env : Env) (D : List Nat → Prop), EnvOK env cfg.base pm D → ∀ x ∈ items, (∀ l ∈ used x, D l) →
      ∀ (K : List Frame) (k : Nat) (rest : List Nat),
        Run C .eof (mk (⟨{}, .statement⟩ :: K) (List.replicate k 0x0a ++ (sec x ++ rest)) env) (out x)
          (mk (⟨{}, .statement⟩ :: K) (0x0a :: rest) env)) :
    ∃ items' : List α, items'.Perm items ∧
      run C .eof (defaultBase cfg) (defaultPrefixes cfg pm) (document cfg pm (items.map sec) (items.flatMap used)) =
        (items'.flatMap out, .clean) := by
  -- header ++ sections
  have core : ∀ (H : List Nat) (items' : List α) (D : List Nat → Prop), items'.Perm items →
      (∀ x ∈ items', ∀ l ∈ used x, D l) →
      (∀ rest, ∃ K' k' env', Run C .eof (mk [⟨{}, .statement⟩] (H ++ rest) ⟨defaultBase cfg, defaultPrefixes cfg pm, 0⟩) []
        (mk (⟨{}, .statement⟩ :: K') (List.replicate k' 0x0a ++ rest) env') ∧ EnvOK env' cfg.base pm D) →
      run C .eof (defaultBase cfg) (defaultPrefixes cfg pm) (H ++ (items'.map sec).flatten) = (items'.flatMap out, .clean) := by
    intro H items' D hperm hD hH
    obtain ⟨K', k', env', r1, henv⟩ := hH (items'.map sec).flatten
    have r2 := run_sections (C := C) sec out env' items'
      (fun x hx K k rest => hrun env' D henv x (hperm.mem_iff.mp hx) (hD x hx) K k rest) K' k'
    have r := r1.trans r2
    have hinit : init (defaultBase cfg) (defaultPrefixes cfg pm) (H ++ (items'.map sec).flatten) =
        mk [⟨{}, .statement⟩] (H ++ (items'.map sec).flatten) ⟨defaultBase cfg, defaultPrefixes cfg pm, 0⟩ := rfl
    rw [← hinit] at r
    simpa using run_of_Run (consumes_of hT hC) _ _ _ r ⟨rfl, rfl, rfl⟩
  unfold document
  by_cases hbuf : cfg.isBuffered = true
  · simp only [hbuf, Bool.not_true, Bool.false_eq_true, ↓reduceIte]
    cases items with
    | nil =>
      refine ⟨[], List.Perm.refl _, ?_⟩
      simp only [List.map_nil, List.isEmpty_nil, ↓reduceIte]
      have r := run_eof (C := C) {} [] 0 ⟨defaultBase cfg, defaultPrefixes cfg pm, 0⟩
      simpa using run_of_Run (consumes_of hT hC) (defaultBase cfg) (defaultPrefixes cfg pm) [] r ⟨rfl, rfl, rfl⟩
    | cons x0 xs =>
      simp only [List.map_cons, List.isEmpty_cons, Bool.false_eq_true, ↓reduceIte]
      let le' : α → α → Bool := fun a b => strLe (sec a) (sec b)
      let items' : List α := if cfg.isSorted then isortBy le' (x0 :: xs) else x0 :: xs
      have hperm : items'.Perm (x0 :: xs) := by
        show (if cfg.isSorted then isortBy le' (x0 :: xs) else x0 :: xs).Perm (x0 :: xs)
        split
        · exact isortBy_perm le' _
        · exact List.Perm.refl _
      have hsecs : (if cfg.isSorted = true then sortStrs (sec x0 :: xs.map sec) else sec x0 :: xs.map sec) =
          items'.map sec := by
        show _ = (if cfg.isSorted then isortBy le' (x0 :: xs) else x0 :: xs).map _
        split
        · rw [← List.map_cons, sortStrs, isortBy_map]
        · rfl
      rw [hsecs]
      refine ⟨items', hperm, ?_⟩
      exact core _ items' (fun l => l ∈ (x0 :: xs).flatMap used) hperm
        (fun x hx l hl => List.mem_flatMap.mpr ⟨x, hperm.mem_iff.mp hx, hl⟩)
        (fun rest => header_buffered_ok hT hC hcfg _ rest)
  · simp only [hbuf, Bool.not_false, ↓reduceIte]
    refine ⟨items, List.Perm.refl _, ?_⟩
    exact core _ items (fun _ => True) (List.Perm.refl _) (fun _ _ _ _ => trivial)
      (fun rest => header_unbuffered_ok hT hC hcfg rest)

end Generic


/-! ### predicate-object lists: the machine on what `putResourceStatements` writes for ObjectStatements -/

section Flat
variable {β : Type} {c : Ctx β} {base : Option (List Nat)} {D : List Nat → Prop} {e : NQ.End}

/-- what the term writers produce, as total functions (used where they do not fail) -/
def objText (c : Ctx β) (o : Term β) : List Nat := match writeObject c o with | .ok t => t | _ => []
def predText (c : Ctx β) (p : List Nat) : List Nat := match writePredicate c p with | .ok t => t | _ => []
def subjText (c : Ctx β) (s : Term β) : List Nat := match writeSubject c s with | .ok t => t | _ => []

theorem joinSep_cons (sep a : List Nat) (l : List (List Nat)) :
    joinSep sep (a :: l) = a ++ l.flatMap (fun b => sep ++ b) := by
  induction l generalizing a with
  | nil => simp [joinSep]
  | cons b l ih => simp [joinSep, ih b]

theorem lead_cons (m : Bool) (ind : Nat) : ∃ f tl, lead m ind = f :: tl ∧ (f = 0x20 ∨ f = 0x0a) ∧ Lead tl := by
  unfold lead
  cases m
  · exact ⟨0x20, [], by simp [sp], Or.inl rfl, lead_nil⟩
  · refine ⟨0x0a, tabs ind, by simp [nl], Or.inr rfl, ?_⟩
    intro x hx
    simp only [tabs, List.mem_replicate] at hx
    exact Or.inr (Or.inr (by simpa [tab] using hx.2))

theorem lead_isLead (m : Bool) (ind : Nat) : Lead (lead m ind) := by
  obtain ⟨f, tl, h, hf, htl⟩ := lead_cons m ind
  rw [h]
  intro x hx
  rcases List.mem_cons.mp hx with rfl | hx
  · rcases hf with rfl | rfl
    · exact Or.inl rfl
    · exact Or.inr (Or.inl rfl)
  · exact htl x hx

theorem lead_append {a b : List Nat} (ha : Lead a) (hb : Lead b) : Lead (a ++ b) := by
  intro x hx
  rcases List.mem_append.mp hx with h | h
  · exact ha x h
  · exact hb x h

theorem writeObject_objText (S : Setup C T c base) (o : Term β) (ho : objectOK c base o) :
    writeObject c o = .ok (objText c o) := by
  have : ∃ t, writeObject c o = .ok t := by
    cases o with
    | iri v => exact writeIRI_isOk S v
    | bnode b => exact ⟨_, rfl⟩
    | lit lex dt lang =>
      simp only [writeObject]
      split
      · exact ⟨_, rfl⟩
      · split
        · exact ⟨_, rfl⟩
        · split
          · exact ⟨_, rfl⟩
          · obtain ⟨d, hd⟩ := writeIRI_isOk S dt
            exact ⟨formatLiteralLexicalForm c.T false lex ++ 0x5e :: 0x5e :: d, by simp [hd, Res.map, Res.bind]⟩
  obtain ⟨t, ht⟩ := this
  simp [objText, ht]

theorem writePredicate_predText (S : Setup C T c base) (p : List Nat) :
    writePredicate c p = .ok (predText c p) := by
  have : ∃ t, writePredicate c p = .ok t := by
    unfold writePredicate
    split
    · exact ⟨_, rfl⟩
    · exact writeIRI_isOk S p
  obtain ⟨t, ht⟩ := this
  simp [predText, ht]

/-- the objects of one predicate: `O₁ , O₂ , …` -/
theorem run_items (S : Setup C T c base) (env : Env) (henv : EnvOK env base c.pm D) (x : Ectx) (K : List Frame)
    (pMulti : Bool) (ind2 : Nat) (rest : List Nat) (hf : Follow rest) :
    ∀ (os : List (Term β)) (o : Term β) (ws : List Nat), Lead ws →
      (∀ o' ∈ o :: os, objectOK c base o' ∧ ∀ l ∈ usedOfObject c.pm o', D l) →
      Run C e (mk (⟨x, .object⟩ :: ⟨x, .objListContinue⟩ :: K)
          (ws ++ (objText c o ++ (os.flatMap (fun o' => [sp, 0x2c] ++ (lead pMulti ind2 ++ objText c o')) ++ rest))) env)
        ((o :: os).map (fun o' => mkStmt x (dterm c.label o')))
        (mk (⟨x, .objListContinue⟩ :: K) rest env)
  | [], o, ws, hws, h => by
    obtain ⟨ho, hD⟩ := h o List.mem_cons_self
    have := run_object_term (e := e) S env henv o ho hD (objText c o) (writeObject_objText S o ho) x
      (⟨x, .objListContinue⟩ :: K) ws hws rest hf
    simpa using this
  | o2 :: os, o, ws, hws, h => by
    obtain ⟨ho, hD⟩ := h o List.mem_cons_self
    have r1 := run_object_term (e := e) S env henv o ho hD (objText c o) (writeObject_objText S o ho) x
      (⟨x, .objListContinue⟩ :: K) ws hws
      (0x20 :: 0x2c :: (lead pMulti ind2 ++ (objText c o2 ++
        (os.flatMap (fun o' => [sp, 0x2c] ++ (lead pMulti ind2 ++ objText c o')) ++ rest)))) (follow_sp _)
    have r2 := run_comma (e := e) S.hC x K env (lead pMulti ind2 ++ (objText c o2 ++
        (os.flatMap (fun o' => [sp, 0x2c] ++ (lead pMulti ind2 ++ objText c o')) ++ rest)))
    have r3 := run_items S env henv x K pMulti ind2 rest hf os o2 (lead pMulti ind2) (lead_isLead _ _)
      (fun o' ho' => h o' (List.mem_cons_of_mem _ ho'))
    have := (r1.trans r2).trans r3
    simpa [sp, List.flatMap_cons] using this


/-- a verb in either scan function, followed by the lead-in of its first object -/
theorem run_pol_term (S : Setup C T c base) (env : Env) (henv : EnvOK env base c.pm D) (p : List Nat)
    (hp : iriTermOK c base p) (hD : ∀ l ∈ usedOfPredicate c.pm p, D l) {k : Cont} (hk : IsPol k) (x : Ectx)
    (K : List Frame) (ws : List Nat) (hws : Lead ws) (f : Nat) (hf : f = 0x20 ∨ f = 0x0a) (rest : List Nat) :
    ∃ ws', Lead ws' ∧ Run C e (mk (⟨x, k⟩ :: K) (ws ++ (predText c p ++ f :: rest)) env) []
      (mk (predFrames x (.iri p) K) (ws' ++ rest) env) := by
  have hP := writePredicate_predText S p
  have hfol : Follow (f :: rest) := by rcases hf with rfl | rfl; exact follow_sp _; exact follow_nl _
  have hlead : Lead [f] := by
    intro y hy
    simp only [List.mem_singleton] at hy
    subst hy
    rcases hf with rfl | rfl
    · exact Or.inl rfl
    · exact Or.inr (Or.inl rfl)
  unfold writePredicate at hP
  split at hP
  · next hty =>
    injection hP with hP
    rw [← hP]
    subst hty
    refine ⟨[], lead_nil, ?_⟩
    simpa [TtlEnc.rdfType, TtlDoc.rdfType, TtlEnc.rdfNS, TtlDoc.rdfNS] using run_pol_a S.hC hk x K env ws hws f hf rest
  · next hty =>
    obtain ⟨w, hw, hwt⟩ := writeIRI_ok hP
    rw [hwt, S.cT]
    refine ⟨[f], hlead, ?_⟩
    have hD' : ∀ l ∈ usedOfIRI c.pm p, D l := by simpa [usedOfPredicate, hty] using hD
    rcases written_cases (e := e) S env henv p hp hD' w hw (f :: rest) hfol with ⟨q, loc, out, rfl, hq, h⟩ | ⟨r, hr, h⟩
    · rw [text_pname]
      exact run_pol_pname S.hT S.hC hk x K env ws hws q out p _ hq h
    · rcases hr with rfl | rfl
      · rw [text_rel]; exact run_pol_iriref S.hC hk x K env ws hws _ p _ h
      · rw [text_full]; exact run_pol_iriref S.hC hk x K env ws hws _ p _ h

/-- the text of one predicate group -/
def groupText (c : Ctx β) (multi : Bool) (ind1 : Nat) (p : List Nat) (objs : List (Term β)) : List Nat :=
  lead multi ind1 ++ (predText c p ++
    joinSep [sp, 0x2c] (objs.map (fun o => lead (decide (objs.length > 1)) (if decide (objs.length > 1) then ind1 + 1 else ind1) ++
      objText c o)))

/-- one predicate with its objects -/
theorem run_group (S : Setup C T c base) (env : Env) (henv : EnvOK env base c.pm D) (x : Ectx) (K : List Frame)
    {k : Cont} (hk : IsPol k) (multi : Bool) (ind1 : Nat) (p : List Nat) (objs : List (Term β)) (hne : objs ≠ [])
    (hp : iriTermOK c base p) (hDp : ∀ l ∈ usedOfPredicate c.pm p, D l)
    (hobjs : ∀ o ∈ objs, objectOK c base o ∧ ∀ l ∈ usedOfObject c.pm o, D l) (rest : List Nat) (hf : Follow rest) :
    Run C e (mk (⟨x, k⟩ :: K) (groupText c multi ind1 p objs ++ rest) env)
      (objs.map (fun o => mkStmt { x with pred := some (.iri p) } (dterm c.label o)))
      (mk (⟨{ x with pred := some (.iri p) }, .objListContinue⟩ :: K) rest env) := by
  cases objs with
  | nil => exact absurd rfl hne
  | cons o os =>
    -- name the lead-in of the objects
    obtain ⟨L, hL⟩ : ∃ L, L = lead (decide ((o :: os).length > 1)) (if decide ((o :: os).length > 1) then ind1 + 1 else ind1) :=
      ⟨_, rfl⟩
    obtain ⟨f, tl, hl, hf1, htl⟩ := lead_cons (decide ((o :: os).length > 1))
      (if decide ((o :: os).length > 1) then ind1 + 1 else ind1)
    rw [← hL] at hl
    have hshape : groupText c multi ind1 p (o :: os) ++ rest =
        lead multi ind1 ++ (predText c p ++ (L ++ (objText c o ++ (os.flatMap (fun o' => [sp, 0x2c] ++ (L ++ objText c o')) ++ rest)))) := by
      simp only [groupText, List.map_cons, joinSep_cons, ← hL, List.flatMap_map, List.append_assoc]
    rw [hshape]
    obtain ⟨ws', hws', r1⟩ := run_pol_term (e := e) S env henv p hp hDp hk x K (lead multi ind1) (lead_isLead _ _) f hf1
      (tl ++ (objText c o ++ (os.flatMap (fun o' => [sp, 0x2c] ++ (L ++ objText c o')) ++ rest)))
    have r2 := run_items (e := e) S env henv { x with pred := some (.iri p) } K (decide ((o :: os).length > 1))
      (if decide ((o :: os).length > 1) then ind1 + 1 else ind1) rest hf os o (ws' ++ tl) (lead_append hws' htl) hobjs
    rw [← hL, List.append_assoc] at r2
    have := r1.trans r2
    rw [← List.cons_append, ← hl] at this
    simpa using this

/-- groups as data: predicate and objects -/
abbrev Group (β : Type) := List Nat × List (Term β)

def groupsTail (c : Ctx β) (multi : Bool) (ind1 : Nat) (gs : List (Group β)) : List Nat :=
  gs.flatMap (fun g => [sp, 0x3b] ++ groupText c multi ind1 g.1 g.2)

def groupOK (c : Ctx β) (base : Option (List Nat)) (D : List Nat → Prop) (g : Group β) : Prop :=
  g.2 ≠ [] ∧ iriTermOK c base g.1 ∧ (∀ l ∈ usedOfPredicate c.pm g.1, D l) ∧
  ∀ o ∈ g.2, objectOK c base o ∧ ∀ l ∈ usedOfObject c.pm o, D l

def groupOut (label : β → List Nat) (s : TtlDoc.T) (g : Group β) : List Stmt :=
  g.2.map (fun o => ⟨some s, some (.iri g.1), dterm label o, none⟩)

/-- `G₁ ; G₂ ; …` -/
theorem run_groups (S : Setup C T c base) (env : Env) (henv : EnvOK env base c.pm D) (s : TtlDoc.T) (K : List Frame)
    (multi : Bool) (ind1 : Nat) (rest : List Nat) (hf : Follow rest) :
    ∀ (gs : List (Group β)) (g : Group β) {k : Cont}, IsPol k → (∀ g' ∈ g :: gs, groupOK c base D g') →
      ∃ x2, Run C e (mk (⟨{ subj := some s }, k⟩ :: ⟨{ subj := some s }, .polContinue⟩ :: K)
          (groupText c multi ind1 g.1 g.2 ++ (groupsTail c multi ind1 gs ++ rest)) env)
        ((g :: gs).flatMap (groupOut c.label s))
        (mk (⟨x2, .objListContinue⟩ :: ⟨{ subj := some s }, .polContinue⟩ :: K) rest env)
  | [], g, k, hk, h => by
    obtain ⟨h1, h2, h3, h4⟩ := h g List.mem_cons_self
    refine ⟨{ subj := some s, pred := some (.iri g.1) }, ?_⟩
    have := run_group (e := e) S env henv { subj := some s } (⟨{ subj := some s }, .polContinue⟩ :: K) hk multi ind1
      g.1 g.2 h1 h2 h3 h4 rest hf
    simpa [groupsTail, groupOut, mkStmt] using this
  | g2 :: gs, g, k, hk, h => by
    obtain ⟨h1, h2, h3, h4⟩ := h g List.mem_cons_self
    have r1 := run_group (e := e) S env henv { subj := some s } (⟨{ subj := some s }, .polContinue⟩ :: K) hk multi ind1
      g.1 g.2 h1 h2 h3 h4
      (0x20 :: 0x3b :: (groupText c multi ind1 g2.1 g2.2 ++ (groupsTail c multi ind1 gs ++ rest))) (follow_sp _)
    have r2 := run_semicolon (e := e) S.hC { subj := some s, pred := some (.iri g.1) } { subj := some s } K env
      (groupText c multi ind1 g2.1 g2.2 ++ (groupsTail c multi ind1 gs ++ rest))
    obtain ⟨x2, r3⟩ := run_groups S env henv s K multi ind1 rest hf gs g2 (Or.inl rfl)
      (fun g' hg' => h g' (List.mem_cons_of_mem _ hg'))
    refine ⟨x2, ?_⟩
    have := (r1.trans r2).trans r3
    simpa [groupsTail, groupOut, mkStmt, sp, List.flatMap_cons, List.append_assoc] using this


/-! ### flat resources: subject, `(predicate, object)` pairs -/

/-- a resource with an explicit subject and ObjectStatements only -/
abbrev FlatRes (β : Type) := Term β × List (List Nat × Term β)

def FlatRes.stmts (r : FlatRes β) : List (Stmt β) := r.2.map (fun po => Stmt.obj po.1 po.2)

def FlatRes.toResource (r : FlatRes β) : Resource β := Resource.subject (some r.1) r.stmts

/-- the objects of predicate `p`, in statement order -/
def objsOfPred (p : List Nat) (pos : List (List Nat × Term β)) : List (Term β) :=
  (pos.filter (fun po => po.1 == p)).map (·.2)

def FlatRes.preds (r : FlatRes β) : List (List Nat) := predicateList r.stmts
def FlatRes.multi (r : FlatRes β) : Bool := decide (r.preds.length > 1)
def FlatRes.ind1 (r : FlatRes β) : Nat := if r.multi then 1 else 0
def FlatRes.groups (r : FlatRes β) : List (Group β) := r.preds.map (fun p => (p, objsOfPred p r.2))

/-- the section `AddResource` writes for a flat resource -/
def secFlat (c : Ctx β) (r : FlatRes β) : List Nat :=
  subjText c r.1 ++ (joinSep [sp, 0x3b] (r.groups.map (fun g => groupText c r.multi r.ind1 g.1 g.2)) ++ [sp, 0x2e, nl])

/-- the prefixes it marks as used -/
def usedFlat (pm : Prefix.PM) (r : FlatRes β) : List (List Nat) :=
  usedOfSubject pm r.1 ++ r.groups.flatMap (fun g => usedOfPredicate pm g.1 ++ g.2.flatMap (usedOfObject pm))

/-- what the decoder must yield for it -/
def outFlat (label : β → List Nat) (r : FlatRes β) : List Stmt :=
  r.groups.flatMap (groupOut label (dterm label r.1))

/-- well-formedness of a flat resource (every term as in `TripleOK`), non-empty -/
structure FlatOK (c : Ctx β) (base : Option (List Nat)) (r : FlatRes β) : Prop where
  ne : r.2 ≠ []
  s : subjectOK c base r.1
  po : ∀ po ∈ r.2, iriTermOK c base po.1 ∧ objectOK c base po.2

theorem withPred_flat (p : List Nat) (pos : List (List Nat × Term β)) :
    withPred p (pos.map (fun po => Stmt.obj po.1 po.2)) = (pos.filter (fun po => po.1 == p)).map (fun po => Stmt.obj po.1 po.2) := by
  induction pos with
  | nil => rfl
  | cons po pos ih =>
    simp only [withPred, List.map_cons, List.filter_cons, stmtPred] at ih ⊢
    split <;> simp [ih]

theorem mem_predicateList {l : List (Stmt β)} {p : List Nat} : p ∈ predicateList l ↔ ∃ s ∈ l, stmtPred s = p := by
  have hs : ∀ q, q ∈ sortStrs (dedup (l.map stmtPred)) ↔ ∃ s ∈ l, stmtPred s = q := by
    intro q
    rw [sortStrs, (isortBy_perm strLe _).mem_iff, mem_dedup, List.mem_map]
  unfold predicateList
  simp only
  split
  · next hty =>
    simp only [List.mem_cons, List.mem_filter, bne_iff_ne, ne_eq]
    constructor
    · rintro (rfl | ⟨h, _⟩)
      · exact (hs _).mp hty
      · exact (hs _).mp h
    · intro h
      by_cases hp : p = TtlEnc.rdfType
      · exact Or.inl hp
      · exact Or.inr ⟨(hs _).mpr h, hp⟩
  · exact hs p

theorem groups_ok (S : Setup C T c base) (r : FlatRes β) (hr : FlatOK c base r)
    (hD : ∀ l ∈ usedFlat c.pm r, D l) : ∀ g ∈ r.groups, groupOK c base D g := by
  intro g hg
  simp only [FlatRes.groups, List.mem_map] at hg
  obtain ⟨p, hp, rfl⟩ := hg
  obtain ⟨st, hst, hpp⟩ := mem_predicateList.mp hp
  simp only [FlatRes.stmts, List.mem_map] at hst
  obtain ⟨po, hpo, rfl⟩ := hst
  simp only [stmtPred] at hpp
  have hDg : ∀ l ∈ usedOfPredicate c.pm p ++ (objsOfPred p r.2).flatMap (usedOfObject c.pm), D l := by
    intro l hl
    apply hD
    simp only [usedFlat, List.mem_append, List.mem_flatMap]
    right
    exact ⟨(p, objsOfPred p r.2), by simp only [FlatRes.groups, List.mem_map]; exact ⟨p, hp, rfl⟩, by simpa using hl⟩
  refine ⟨?_, ?_, ?_, ?_⟩
  · simp only [objsOfPred]
    intro h
    have : po ∈ r.2.filter (fun po => po.1 == p) := by simp [List.mem_filter, hpo, hpp]
    have hm := List.mem_map_of_mem (f := (·.2)) this
    rw [h] at hm
    cases hm
  · rw [← hpp]; exact (hr.po po hpo).1
  · intro l hl; exact hDg l (List.mem_append_left _ hl)
  · intro o ho
    simp only [objsOfPred, List.mem_map, List.mem_filter] at ho
    obtain ⟨po', ⟨hpo', _⟩, rfl⟩ := ho
    refine ⟨(hr.po po' hpo').2, fun l hl => hDg l (List.mem_append_right _ ?_)⟩
    simp only [List.mem_flatMap]
    exact ⟨po'.2, by simp only [objsOfPred, List.mem_map, List.mem_filter]; exact ⟨po', ⟨hpo', by assumption⟩, rfl⟩, hl⟩

theorem preds_ne (r : FlatRes β) (hne : r.2 ≠ []) : r.preds ≠ [] := by
  cases hr : r.2 with
  | nil => exact absurd hr hne
  | cons po pos =>
    intro h
    have : po.1 ∈ r.preds := mem_predicateList.mpr ⟨Stmt.obj po.1 po.2, by simp [FlatRes.stmts, hr], rfl⟩
    rw [h] at this
    cases this

/-- the machine on the section of a flat resource -/
theorem run_flat (S : Setup C T c base) (env : Env) (henv : EnvOK env base c.pm D) (r : FlatRes β)
    (hr : FlatOK c base r) (hD : ∀ l ∈ usedFlat c.pm r, D l) (K : List Frame) (k : Nat) (rest : List Nat) :
    Run C e (mk (⟨{}, .statement⟩ :: K) (List.replicate k 0x0a ++ (secFlat c r ++ rest)) env) (outFlat c.label r)
      (mk (⟨{}, .statement⟩ :: K) (0x0a :: rest) env) := by
  have hgs := groups_ok S r hr hD
  have hpne := preds_ne r hr.ne
  obtain ⟨g, gs, hgg⟩ : ∃ g gs, r.groups = g :: gs := by
    cases h : r.groups with
    | nil => simp [FlatRes.groups] at h; exact absurd h hpne
    | cons g gs => exact ⟨g, gs, rfl⟩
  -- the text after the subject
  have htext : secFlat c r ++ rest = subjText c r.1 ++ (groupText c r.multi r.ind1 g.1 g.2 ++
      (groupsTail c r.multi r.ind1 gs ++ (0x20 :: 0x2e :: 0x0a :: rest))) := by
    simp only [secFlat, hgg, List.map_cons, joinSep_cons, groupsTail, List.flatMap_map, List.append_assoc]
    simp [sp, nl]
  rw [htext]
  have hsub : writeSubject c r.1 = .ok (subjText c r.1) := by
    have : ∃ t, writeSubject c r.1 = .ok t := by
      cases hs1 : r.1 with
      | iri v => exact writeIRI_isOk S v
      | bnode b => exact ⟨_, rfl⟩
      | lit l d g' => have := hr.s; rw [hs1] at this; exact absurd this (by simp [subjectOK])
    obtain ⟨t, ht⟩ := this
    simp [subjText, ht]
  have hfol : Follow (groupText c r.multi r.ind1 g.1 g.2 ++
      (groupsTail c r.multi r.ind1 gs ++ (0x20 :: 0x2e :: 0x0a :: rest))) := by
    obtain ⟨f, tl, hl, hf1, _⟩ := lead_cons r.multi r.ind1
    simp only [groupText, hl, List.cons_append]
    rcases hf1 with rfl | rfl
    · exact follow_sp _
    · exact follow_nl _
  have r1 := run_subject_term (e := e) S env henv r.1 hr.s
    (fun l hl => hD l (by simp [usedFlat, hl])) (subjText c r.1) hsub {} K k _ hfol
  obtain ⟨x2, r2⟩ := run_groups (e := e) S env henv (dterm c.label r.1) (⟨{}, .triplesEnd⟩ :: ⟨{}, .statement⟩ :: K)
    r.multi r.ind1 (0x20 :: 0x2e :: 0x0a :: rest) (follow_sp _) gs g (k := .polRequired) (Or.inr rfl)
    (fun g' hg' => hgs g' (by rw [hgg]; exact hg'))
  have r3 := run_statement_end (e := e) S.hC x2 { subj := some (dterm c.label r.1) } {} (⟨{}, .statement⟩ :: K)
    (0x0a :: rest) env
  have := (r1.trans r2).trans r3
  simpa [outFlat, hgg, subjFrames] using this


/-! ### the encoder on a flat resource -/

theorem bind_mapOR_ok {α γ δ : Type} {f : α → OR γ} {g : α → γ} {l : List α} {k : List γ → OR δ}
    (h : ∀ a ∈ l, f a = OR.ok (g a)) : (mapOR f l).bind k = k (l.map g) := by
  have : mapOR f l = OR.ok (l.map g) := by
    induction l with
    | nil => rfl
    | cons a l ih =>
      simp only [mapOR, h a List.mem_cons_self, ih (fun b hb => h b (List.mem_cons_of_mem _ hb)), OR.bind, OR.ok,
        List.map_cons]
  rw [this]; rfl

def pieceOfStmt (c : Ctx β) : Stmt β → Piece
  | .obj _ o => ⟨objText c o, false, usedOfObject c.pm o⟩
  | .anon _ _ => ⟨[], false, []⟩

theorem stmtsDepth_flat (pos : List (List Nat × Term β)) : stmtsDepth (pos.map (fun po => Stmt.obj po.1 po.2)) = 0 := by
  induction pos with
  | nil => simp [stmtsDepth]
  | cons po pos ih => simp [stmtsDepth, stmtDepth, ih]

theorem flat_used (c : Ctx β) (L : List (List Nat × Term β)) :
    (List.map (pieceOfStmt c) (L.map (fun po => Stmt.obj po.1 po.2))).flatMap (·.used) =
      (L.map (·.2)).flatMap (usedOfObject c.pm) := by
  induction L with
  | nil => rfl
  | cons po L ih => simp only [List.map_cons, List.flatMap_cons, pieceOfStmt, ih]

theorem flat_texts (c : Ctx β) (ld : List Nat) (L : List (List Nat × Term β)) :
    List.map (fun r => ld ++ r.text) (List.map (pieceOfStmt c) (L.map (fun po => Stmt.obj po.1 po.2))) =
      (L.map (·.2)).map (fun o => ld ++ objText c o) := by
  induction L with
  | nil => rfl
  | cons po L ih => simp only [List.map_cons, pieceOfStmt, ih]

variable [DecidableEq β]

theorem write_put_flat (S : Setup C T c base) (d7 : Bool) (r : FlatRes β) (hr : FlatOK c base r) (n : Nat) :
    ∃ m, write c d7 (n + 2) (.put 0 r.stmts) =
      OR.ok ⟨joinSep [sp, 0x3b] (r.groups.map (fun g => groupText c r.multi r.ind1 g.1 g.2)), m,
        r.groups.flatMap (fun g => usedOfPredicate c.pm g.1 ++ g.2.flatMap (usedOfObject c.pm))⟩ := by
  rw [write]
  rw [bind_mapOR_ok (g := fun p => (⟨groupText c r.multi r.ind1 p (objsOfPred p r.2),
      decide ((objsOfPred p r.2).length > 1) || ((withPred p r.stmts).map (pieceOfStmt c)).any (·.multi),
      usedOfPredicate c.pm p ++ (objsOfPred p r.2).flatMap (usedOfObject c.pm)⟩ : Piece))]
  · apply Exists.intro
    simp only [OR.ok, FlatRes.groups, List.map_map, List.flatMap_map, Function.comp_def]
    rfl
  · intro p hp
    have hw : withPred p r.stmts = (r.2.filter (fun po => po.1 == p)).map (fun po => Stmt.obj po.1 po.2) :=
      withPred_flat p r.2
    rw [writePredicate_predText S p]
    simp only
    rw [bind_mapOR_ok (g := pieceOfStmt c)]
    · -- the group's piece
      have hlen : (withPred p r.stmts).length = (objsOfPred p r.2).length := by
        rw [hw]; simp [objsOfPred]
      have hused : ((withPred p r.stmts).map (pieceOfStmt c)).flatMap (·.used) =
          (objsOfPred p r.2).flatMap (usedOfObject c.pm) := by
        rw [hw, flat_used]; rfl
      have htext : ∀ ld, List.map (fun r => ld ++ r.text) ((withPred p r.stmts).map (pieceOfStmt c)) =
          (objsOfPred p r.2).map (fun o => ld ++ objText c o) := by
        intro ld; rw [hw, flat_texts]; rfl
      simp only [OR.ok, hlen, hused, htext, groupText, FlatRes.multi, FlatRes.ind1, FlatRes.preds, List.append_assoc,
        Nat.zero_add]
      rfl
    · intro st hst
      rw [hw] at hst
      simp only [List.mem_map, List.mem_filter] at hst
      obtain ⟨po, ⟨hpo, _⟩, rfl⟩ := hst
      rw [write]
      simp only [objectPiece, writeObject_objText S po.2 (hr.po po hpo).2, pieceOfStmt]

theorem resourceSection_flat (S : Setup C T c base) (d7 : Bool) (r : FlatRes β) (hr : FlatOK c base r) :
    resourceSection c d7 r.toResource = OR.ok (some (secFlat c r), usedFlat c.pm r) := by
  have hne : r.stmts.isEmpty = false := by
    cases h : r.2 with
    | nil => exact absurd h hr.ne
    | cons a l => simp [FlatRes.stmts, h]
  have hsub : writeSubject c r.1 = .ok (subjText c r.1) := by
    have : ∃ t, writeSubject c r.1 = .ok t := by
      cases hs1 : r.1 with
      | iri v => exact writeIRI_isOk S v
      | bnode b => exact ⟨_, rfl⟩
      | lit l d g' => have := hr.s; rw [hs1] at this; exact absurd this (by simp [subjectOK])
    obtain ⟨t, ht⟩ := this
    simp [subjText, ht]
  have hfuel : fuelFor r.stmts = 1 + 2 := by
    simp [fuelFor, FlatRes.stmts, stmtsDepth_flat]
  obtain ⟨m, hw⟩ := write_put_flat S d7 r hr 1
  simp only [resourceSection, FlatRes.toResource, hne, Bool.false_eq_true, ↓reduceIte, hsub, hfuel, hw, OR.bind, OR.ok,
    secFlat, usedFlat, List.append_assoc]


/-! ### regrouping by predicate is a permutation -/

theorem filter_map_const_key {ν : Type} (p : List Nat) : ∀ (pos : List (List Nat × ν)),
    (pos.filter (fun po => po.1 == p)).map (fun po => (p, po.2)) = pos.filter (fun po => po.1 == p)
  | [] => rfl
  | po :: pos => by
    simp only [List.filter_cons]
    split
    · next h =>
      have : po.1 = p := by simpa using h
      simp only [List.map_cons, filter_map_const_key p pos]
      congr 1
      rw [← this]
    · exact filter_map_const_key p pos

theorem regroup_perm {ν : Type} : ∀ (ps : List (List Nat)) (pos : List (List Nat × ν)), ps.Nodup →
    (∀ po ∈ pos, po.1 ∈ ps) →
    (ps.flatMap (fun p => (pos.filter (fun po => po.1 == p)).map (fun po => (p, po.2)))).Perm pos
  | [], pos, _, h => by
    cases pos with
    | nil => exact List.Perm.refl _
    | cons po pos => exact absurd (h po List.mem_cons_self) (by simp)
  | p :: ps, pos, hnd, h => by
    simp only [List.nodup_cons] at hnd
    simp only [List.flatMap_cons, filter_map_const_key]
    have hsplit := List.filter_append_perm (fun po : List Nat × ν => po.1 == p) pos
    refine List.Perm.trans ?_ hsplit
    refine List.Perm.append_left _ ?_
    -- the other predicates see the same statements in `pos` and in `pos` without `p`
    have hrest : ∀ q ∈ ps, (pos.filter (fun po => po.1 == q)) =
        ((pos.filter (fun po => !(po.1 == p))).filter (fun po => po.1 == q)) := by
      intro q hq
      rw [List.filter_filter]
      congr 1
      funext po
      by_cases hpq : po.1 = q
      · have hqp : ¬ q = p := by intro hh; exact hnd.1 (hh ▸ hq)
        simp [hpq, hqp]
      · simp [hpq]
    have ih := regroup_perm ps (pos.filter (fun po => !(po.1 == p))) hnd.2 (by
      intro po hpo
      simp only [List.mem_filter, Bool.not_eq_true', beq_eq_false_iff_ne, ne_eq] at hpo
      rcases List.mem_cons.mp (h po hpo.1) with h1 | h1
      · exact absurd h1 hpo.2
      · exact h1)
    simp only [filter_map_const_key] at ih
    have hcongr : ∀ (qs : List (List Nat)), (∀ q ∈ qs, q ∈ ps) →
        qs.flatMap (fun q => pos.filter (fun po => po.1 == q)) =
        qs.flatMap (fun q => (pos.filter (fun po => !(po.1 == p))).filter (fun po => po.1 == q)) := by
      intro qs
      induction qs with
      | nil => intro _; rfl
      | cons q qs ihq =>
        intro hq
        simp only [List.flatMap_cons]
        rw [hrest q (hq q List.mem_cons_self), ihq (fun q' hq' => hq q' (List.mem_cons_of_mem _ hq'))]
    rw [hcongr ps (fun _ h => h)]
    exact ih

theorem predicateList_nodup (l : List (Stmt β)) : (predicateList l).Nodup := by
  have hs : (sortStrs (dedup (l.map stmtPred))).Nodup :=
    (isortBy_perm strLe _).nodup_iff.mpr (nodup_dedup _)
  unfold predicateList
  simp only
  split
  · refine List.nodup_cons.mpr ⟨?_, hs.filter _⟩
    simp [List.mem_filter]
  · exact hs

/-- the triples a flat resource stands for (`Resource.NewTriples`) -/
def FlatRes.triples (r : FlatRes β) : List (Triple β) := r.2.map (fun po => ⟨r.1, po.1, po.2⟩)

/-- the triples in the order the encoder writes them: grouped by predicate -/
def FlatRes.grouped (r : FlatRes β) : List (Triple β) :=
  r.groups.flatMap (fun g => g.2.map (fun o => ⟨r.1, g.1, o⟩))

theorem grouped_perm (r : FlatRes β) : r.grouped.Perm r.triples := by
  have h := regroup_perm r.preds r.2 (predicateList_nodup _) (by
    intro po hpo
    exact mem_predicateList.mpr ⟨Stmt.obj po.1 po.2, by simp only [FlatRes.stmts, List.mem_map]; exact ⟨po, hpo, rfl⟩, rfl⟩)
  have h2 := h.map (fun po : List Nat × Term β => (⟨r.1, po.1, po.2⟩ : Triple β))
  simp only [FlatRes.grouped, FlatRes.groups, FlatRes.triples, List.flatMap_map, objsOfPred, List.map_map,
    Function.comp_def, List.map_flatMap] at h2 ⊢
  exact h2

theorem outFlat_triples (label : β → List Nat) (r : FlatRes β) :
    (outFlat label r).map tripleOfStmt = (r.grouped.map (Triple.map (fun b => BN.lbl (label b)))).map some := by
  simp only [outFlat, FlatRes.grouped, groupOut, List.map_flatMap, List.map_map, Function.comp_def]
  rfl

/-- `Resource.NewTriples` of a flat resource (Model/Description.lean): no fresh blank node is made -/
theorem newTriples_flat (r : FlatRes β) (n : Nat) :
    r.toResource.newTriples n = (r.triples.map (Triple.map BN.orig), n) := by
  have h : ∀ (pos : List (List Nat × Term β)) (s : Term (BN β)) (n : Nat),
      stmtsNewTriples s (pos.map (fun po => Stmt.obj po.1 po.2)) n =
        (pos.map (fun po => (⟨s, po.1, po.2.map BN.orig⟩ : Triple (BN β))), n) := by
    intro pos s n
    induction pos with
    | nil => simp [stmtsNewTriples]
    | cons po pos ih => simp [stmtsNewTriples, Stmt.newTriples, ih]
  simp only [FlatRes.toResource, Resource.newTriples, FlatRes.stmts, h, FlatRes.triples, List.map_map,
    Function.comp_def, Triple.map]


/-! ### `resources_doc_roundtrip_partial` -/

theorem bind_mapOR_map_ok {α α' γ δ : Type} {f : α' → OR γ} {h : α → α'} {g : α → γ} {l : List α}
    {k : List γ → OR δ} (hh : ∀ a ∈ l, f (h a) = OR.ok (g a)) : (mapOR f (l.map h)).bind k = k (l.map g) := by
  have : ∀ l' : List α, (∀ a ∈ l', f (h a) = OR.ok (g a)) → mapOR f (l'.map h) = OR.ok (l'.map g) := by
    intro l'
    induction l' with
    | nil => intro _; rfl
    | cons a l' ih =>
      intro hl
      simp only [List.map_cons, mapOR, hl a List.mem_cons_self, ih (fun b hb => hl b (List.mem_cons_of_mem _ hb)),
        OR.bind, OR.ok]
  rw [this l hh]; rfl

variable {cfg : Config} {pm : Prefix.PM} {label : β → List Nat}

/-- Nested-resource mode, the proved fragment: `AddResource` for resources with an explicit subject
    whose statements are ObjectStatements, then `Close` — every configuration. -/
theorem flat_roundtrip (hT : DocTablesOK T) (hC : CfgOK C T) (hcfg : ConfigOK C.isSpace T cfg pm)
    (hlbl : LabelOK T label) (d7 : Bool) (rs : List (FlatRes β))
    (hrs : ∀ r ∈ rs, FlatOK (ctxOf T cfg pm label) cfg.base r) :
    ∃ (doc : List Nat) (rs' : List (FlatRes β)),
      encodeResourceListWith T d7 cfg pm label (rs.map FlatRes.toResource) = OR.ok doc ∧ rs'.Perm rs ∧
      run C .eof (defaultBase cfg) (defaultPrefixes cfg pm) doc = (rs'.flatMap (outFlat label), .clean) := by
  have S := setup_of (label := label) hT hC hcfg hlbl
  have henc : encodeResourceListWith T d7 cfg pm label (rs.map FlatRes.toResource) =
      OR.ok (document cfg pm (rs.map (secFlat (ctxOf T cfg pm label))) (rs.flatMap (usedFlat pm))) := by
    unfold encodeResourceListWith
    rw [bind_mapOR_map_ok (g := fun r => (some (secFlat (ctxOf T cfg pm label) r), usedFlat pm r))
      (fun r hr => resourceSection_flat S d7 r (hrs r hr))]
    have hfm : ∀ (l : List (FlatRes β)), List.filterMap (fun x => some (secFlat (ctxOf T cfg pm label) x)) l =
        l.map (secFlat (ctxOf T cfg pm label)) := by
      intro l
      induction l with
      | nil => rfl
      | cons a l ih => simp [List.filterMap_cons, ih]
    simp only [List.filterMap_map, List.flatMap_map, Function.comp_def, hfm]
  obtain ⟨rs', hperm, hrun⟩ := doc_generic (C := C) hT hC hcfg rs (secFlat (ctxOf T cfg pm label)) (outFlat label)
    (usedFlat pm)
    (fun env D henv r hr hD K k rest => run_flat (e := .eof) S env henv r (hrs r hr) hD K k rest)
  exact ⟨_, rs', henc, hperm, hrun⟩

end Flat

end RdfModel.Proofs.C02Doc
