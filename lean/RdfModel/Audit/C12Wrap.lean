import RdfModel.Props.C12Wrap
import RdfModel.Props.C12WrapTables
import RdfModel.Props.C12WrapResolve
import RdfModel.Props.C12WrapDrop
#print axioms RdfModel.C12W.gen_shouldEscape_tables
#print axioms RdfModel.C12W.gen_byte_classes
#print axioms RdfModel.C12W.gen_escape_shape
#print axioms RdfModel.C12W.upperhex_unhex
#print axioms RdfModel.C12W.parse_string_identity_partial
#print axioms RdfModel.C12W.parseStr_identity_partial
#print axioms RdfModel.C12W.resolve_eq_rfc_partial
#print axioms RdfModel.C12W.resolveS_eq_rfc_partial
#print axioms RdfModel.C12W.resolve_abs_identity_partial
#print axioms RdfModel.C12W.parseIRI_never_panics
#print axioms RdfModel.C12W.resolveReference_never_panics
#print axioms RdfModel.C12W.parseRef_no_panic
#print axioms RdfModel.C12W.resolveStr_no_panic
#print axioms RdfModel.C12W.deviates_scheme_uppercase
#print axioms RdfModel.C12W.deviates_host_non_ascii
#print axioms RdfModel.C12W.deviates_host_pct
#print axioms RdfModel.C12W.deviates_userinfo
#print axioms RdfModel.C12W.deviates_ipvfuture
#print axioms RdfModel.C12W.deviates_empty_host
#print axioms RdfModel.C12W.deviates_opaque_reclassified
#print axioms RdfModel.C12W.deviates_escaped_asterisk
#print axioms RdfModel.C12W.deviates_encoded_colon
#print axioms RdfModel.C12W.deviates_special_no_authority
#print axioms RdfModel.C12W.deviates_rootless_base
#print axioms RdfModel.C12W.deviates_base_dot_segments
#print axioms RdfModel.C12W.deviates_base_fragment
#print axioms RdfModel.C12W.deviates_dotdot_empty
#print axioms RdfModel.C12W.deviates_absolute_rootless
#print axioms RdfModel.C12W.deviates_empty_base_path
#print axioms RdfModel.C12W.deviates_chain_sticky
#print axioms RdfModel.C12W.repaired_base_empty_query
#print axioms RdfModel.C12W.dropFragment_spec_partial
#print axioms RdfModel.C12W.dropFragment_fresh_partial
#print axioms RdfModel.C12W.dropFragment_hist_partial
#print axioms RdfModel.C12W.dropFragment_idempotent
#print axioms RdfModel.C12W.dropFragment_clears
#print axioms RdfModel.C12W.dropFragment_witness
