package main

// Hand-written encoder cases that run first in every run of the encode stage: for each hypothesis of
// theorem encoder_roundtrip_natural_partial (wf, nonative, lbl, ctx, loc, struct) small (dataset,
// configuration) pairs on which it fails, and a few on which everything holds. Each one goes through
// encodeOne like a generated case (model comparison, round-trip oracle on the implementation,
// certificate, classes of known findings); the histogram
//
//	encode:witness:<name>:<roundtrip-ok|roundtrip-fails|decoder-error|decoder-panic>
//	encode:witness:<name>:flags:cert=…,natural2=…,failing=[…]
//
// records what /repo does with it and what the driver says, i.e. which hypotheses are necessary for the
// implementation and which only for the model / the fragment semantics.

import "verifharness/vh"

type encWitness struct {
	name    string
	quads   []vh.GQuad
	cfg     encCfg
	docBase string
}

func gq(s, p, o vh.GTerm) vh.GQuad { return vh.GQuad{S: s, P: p, O: o} }

func gqg(s, p, o, g vh.GTerm) vh.GQuad { return vh.GQuad{S: s, P: p, O: o, G: &g} }

func pfx(kv ...string) [][2]string {
	var out [][2]string
	for i := 0; i+1 < len(kv); i += 2 {
		out = append(out, [2]string{kv[i], kv[i+1]})
	}
	return out
}

var encWitnesses = func() []encWitness {
	s, p, o := iriT("http://e.org/s"), iriT("http://e.org/p"), iriT("http://e.org/o")
	x := litT("x", vh.XSDString)
	return []encWitness{
		// everything holds
		{name: "00-plain", quads: []vh.GQuad{gq(s, p, x), gq(s, p, o)}, cfg: encCfg{base: "http://e.org/doc", prefixes: pfx("e", "http://e.org/")}},
		// 1. dg / struct: a quad of a named graph (the encoder drops it)
		{name: "01-named-graph", quads: []vh.GQuad{gqg(s, p, x, iriT("http://e.org/g"))}},
		// 2. nonative: value-preserving only
		{name: "02-native-integer-minus-zero", quads: []vh.GQuad{gq(s, p, litT("-0", xsdNS+"integer"))}},
		{name: "02-native-double-1.0", quads: []vh.GQuad{gq(s, p, litT("1.0", xsdNS+"double"))}},
		// 3. ctx (C10-K2): an IRI of the dataset has a declared prefix as its scheme
		{name: "03-scheme-clash", quads: []vh.GQuad{gq(s, iriT("http://e.org/u/p"), iriT("urn:x:y"))}, cfg: encCfg{prefixes: pfx("urn", "http://e.org/u/")}},
		// 4. ctx: the namespace of a declared prefix has another declared prefix as its scheme
		{name: "04-namespace-clash", quads: []vh.GQuad{gq(s, iriT("http://e.org/u/p"), iriT("urn:a:b"))}, cfg: encCfg{prefixes: pfx("urn", "http://e.org/u/", "a", "urn:a:")}},
		{name: "04-namespace-clash-reversed", quads: []vh.GQuad{gq(s, iriT("http://e.org/u/p"), iriT("urn:a:b"))}, cfg: encCfg{prefixes: pfx("a", "urn:a:", "urn", "http://e.org/u/")}},
		// 5. ctx: a prefix name that starts with '@' and is not of keyword form
		{name: "05-prefix-at-1", quads: []vh.GQuad{gq(s, iriT("http://e.org/v/p"), iriT("http://e.org/v/o"))}, cfg: encCfg{prefixes: pfx("@1", "http://e.org/v/")}},
		// 6. loc / relOK: relative references with a colon
		{name: "06-rel-fragment-a-slash-slash", quads: []vh.GQuad{gq(iriT("http://e.org/doc#a://b"), p, x)}, cfg: encCfg{base: "http://e.org/doc"}},
		{name: "06-rel-fragment-bnode-form", quads: []vh.GQuad{gq(s, p, iriT("http://e.org/doc#_:x"))}, cfg: encCfg{base: "http://e.org/doc"}},
		{name: "06-rel-query-colon", quads: []vh.GQuad{gq(s, p, iriT("http://e.org/doc?q=a:b"))}, cfg: encCfg{base: "http://e.org/doc"}},
		{name: "06-rel-fragment-prefix-form", quads: []vh.GQuad{gq(iriT("http://e.org/doc#p:x"), iriT("http://e.org/v/p"), x)}, cfg: encCfg{base: "http://e.org/doc", prefixes: pfx("#p", "http://e.org/v/", "p", "http://e.org/v/")}},
		{name: "06-rel-path-colon", quads: []vh.GQuad{gq(iriT("http://e.org/dir/x:y/z"), p, iriT("http://e.org/dir/_:b"))}, cfg: encCfg{base: "http://e.org/dir/doc"}},
		// 7. ctx: a base that is not an absolute IRI
		{name: "07-relative-base", quads: []vh.GQuad{gq(s, p, o)}, cfg: encCfg{base: "doc/"}},
		{name: "07-relative-base-docbase", quads: []vh.GQuad{gq(s, p, o)}, cfg: encCfg{base: "doc/"}, docBase: "http://e.com/other/doc"},

		// wf: an IRI without scheme, an ill-formed language tag
		{name: "11-wf-relative-iri", quads: []vh.GQuad{gq(iriT("doc/s"), p, iriT("doc/o"))}},
		{name: "11-wf-language-tag", quads: []vh.GQuad{gq(s, p, vh.GTerm{Kind: vh.KLit, Lex: "x", DT: vh.RDFLangString, Lang: "en_US"})}},
		// 8. struct: a cycle of once-referenced blank nodes (round trips since fix-c17-export-cycles)
		{name: "08-bnode-two-cycle", quads: []vh.GQuad{gq(bnT(0), p, bnT(1)), gq(bnT(1), p, bnT(0))}},
		// lbl: the empty blank node label
		{name: "09-empty-label-subject", quads: []vh.GQuad{gq(bnT(-1), p, x), gq(s, p, bnT(-1)), gq(o, p, bnT(-1))}},
		{name: "09-empty-label-inlined", quads: []vh.GQuad{gq(s, p, bnT(-1)), gq(bnT(-1), p, x)}},
		// loc / compactOK: non-ASCII namespace and IRIs
		{name: "10-non-ascii-namespace", quads: []vh.GQuad{gq(iriT("http://e.org/é/s"), iriT("http://e.org/é/p"), iriT("http://e.org/é/ü"))}, cfg: encCfg{base: "http://e.org/é/doc", prefixes: pfx("eu", "http://e.org/é/")}},
		{name: "10-non-ascii-relative", quads: []vh.GQuad{gq(iriT("http://e.org/é/s#ü"), p, iriT("http://e.org/é/ü?k=é"))}, cfg: encCfg{base: "http://e.org/é/doc"}},
	}
}()

// encodeWitnesses runs the fixed list (json-ld-1.1, buffered and streaming alike: buffering only
// changes orders).
func (h *harness) encodeWitnesses() {
	for _, w := range encWitnesses {
		feat := map[string]bool{}
		for _, q := range w.quads {
			if q.G != nil || q.S.Kind != vh.KIRI || q.O.Kind != vh.KIRI {
				feat["witness"] = true // non-trivial by the rule of the report: a blank node, a literal or a named graph
			}
		}
		h.encodeOne(dataset{quads: w.quads, feat: feat, witness: w.name}, w.cfg, true, w.docBase)
	}
}
