/-
  Line-protocol handler for Model.RdfXmlDecoder (component `rxd`).

    rxd.dec <xBASE|-> <eof|syntax|io> <item>…   →  `ok <triples|->` | `err:<class>` | `panic`

  Items (fixed arity each; strings are `x<hex of UTF-8>` as in Driver/Wire.lean):
    S xNS xNAME            xml.StartElement (attributes follow as `A` items)
    A xNS xNAME xVAL       one xml.Attr of the most recent `S`
    E xNS xNAME            xml.EndElement
    C xS                   xml.CharData
    M xS                   xml.Comment
    P xTARGET xINST        xml.ProcInst
    D xS                   xml.Directive
    R n<i> n<len> xOUT|!   graph of the parameter `render` (encoding/xml's Encoder, outside the model):
                           the token sequence tokens[i .. i+len) renders to OUT, `!` = EncodeToken/Flush
                           error; sequences not listed render to "" (never an error)

  Triples: `S,P,O` joined by `;`, terms `I<hex>`, `B<hex of the decimal first-occurrence index>`,
  `L<hexlex>.<hexdt>.<hexlang|->` — exactly the form `canon` of go/cmd/c09 prints for the real decoder.
  Reference resolution is `Spec.RFC3986.resolve`, `parseOK` is constantly true (the harness only sends
  documents on which `iri.ParsedIRI` agrees with that; the rest is property C12's subject).

    rxd.tokens <xBASE> <tree>   →  the token stream `tokensDoc` of an RX tree (tree syntax of Driver/RdfXml.lean)
                                   in the item syntax above, followed by ` | ` and the result of decoding it
-/
import RdfModel.Driver.Wire
import RdfModel.Driver.RdfXml
import RdfModel.Model.RdfXmlDecoder
import RdfModel.Model.RdfXmlTokens
import RdfModel.Spec.RFC3986
namespace RdfModel.Driver.RdfXmlDec
open RdfModel RdfModel.Wire RdfModel.RX RdfModel.RXD RdfModel.Desc

def natTok (s : String) : Option Nat :=
  match s.toList with
  | 'n' :: ds => (String.ofList ds).toNat?
  | _ => none

def addAttr (a : Attr) : List Tok → Option (List Tok)
  | .start ns n as :: rest => some (.start ns n (as ++ [a]) :: rest)
  | _ => none

/-- tokens newest first; render entries -/
def parseItems : List String → List Tok → List (Nat × Nat × Option Str) → Option (List Tok × List (Nat × Nat × Option Str))
  | [], ts, rs => some (ts.reverse, rs)
  | "S" :: ns :: nm :: rest, ts, rs => do
    parseItems rest (.start (← runesTok ns) (← runesTok nm) [] :: ts) rs
  | "A" :: ns :: nm :: v :: rest, ts, rs => do
    let ts1 ← addAttr ⟨← runesTok ns, ← runesTok nm, ← runesTok v⟩ ts
    parseItems rest ts1 rs
  | "E" :: ns :: nm :: rest, ts, rs => do parseItems rest (.end_ (← runesTok ns) (← runesTok nm) :: ts) rs
  | "C" :: s :: rest, ts, rs => do parseItems rest (.chars (← runesTok s) :: ts) rs
  | "M" :: s :: rest, ts, rs => do parseItems rest (.comment (← runesTok s) :: ts) rs
  | "P" :: t :: i :: rest, ts, rs => do parseItems rest (.procInst (← runesTok t) (← runesTok i) :: ts) rs
  | "D" :: s :: rest, ts, rs => do parseItems rest (.directive (← runesTok s) :: ts) rs
  | "R" :: i :: n :: o :: rest, ts, rs => do
    let out ← (if o = "!" then some none else (runesTok o).map some)
    parseItems rest ts ((← natTok i, ← natTok n, out) :: rs)
  | _, _, _ => none

def renderOf (tbl : List (List Tok × Option Str)) (c : List Tok) : Option Str :=
  match tbl.find? (fun e => decide (e.1 = c)) with
  | some e => e.2
  | none => some []

def params (tbl : List (List Tok × Option Str)) : Params :=
  { resolve := fun b r => some (Spec.RFC3986.resolve b r), parseOK := fun _ => true, render := renderOf tbl }

/-! ### output: blank nodes by first occurrence -/

def bnIndex (seen : List BN) (b : BN) : Nat × List BN :=
  match seen.idxOf? b with
  | some i => (i, seen)
  | none => (seen.length, seen ++ [b])

def showTermC (seen : List BN) : Term BN → String × List BN
  | .iri v => ("I" ++ hexRunes v, seen)
  | .bnode b => let (i, s) := bnIndex seen b; ("B" ++ hexRunes (dec i), s)
  | .lit l d t => ("L" ++ hexRunes l ++ "." ++ hexRunes d ++ "." ++ (match t with | some x => hexRunes x | none => "-"), seen)

def showTriplesC : List T → List BN → List String → List String
  | [], _, acc => acc.reverse
  | t :: ts, seen, acc =>
    let (s, seen1) := showTermC seen t.s
    let (o, seen2) := showTermC seen1 t.o
    showTriplesC ts seen2 ((s ++ ",I" ++ hexRunes t.p ++ "," ++ o) :: acc)

def showE : E → String
  | .xmlSyntax => "xml-syntax" | .io => "io" | .eofInside => "eof-inside" | .directive => "directive"
  | .elementNotAllowed => "element-not-allowed" | .attrNotAllowed => "attribute-not-allowed"
  | .invalidName => "invalid-name" | .duplicateName => "duplicate-name" | .multipleNames => "multiple-names"
  | .unexpectedAttr => "unexpected-attr" | .parseBase => "parse-base" | .resourceOnLiteral => "resource-on-literal"
  | .alreadyFound => "already-found" | .datatypeNeedsLang => "datatype-needs-lang" | .render => "render"

def showResult : Result → String
  | .ok ts => "ok " ++ (if ts.isEmpty then "-" else String.intercalate ";" (showTriplesC ts [] []))
  | .err e _ => "err:" ++ showE e
  | .panic => "panic"

def parseFin (s : String) : Option Fin :=
  if s = "eof" then some .eof else if s = "syntax" then some .syntax else if s = "io" then some .io else none

def optBase (s : String) : Option (Option Str) :=
  if s = "-" then some none else (runesTok s).map some

/-! ### token items (for `rxd.tokens`) -/

def showAttrItem (a : Attr) : String := "A " ++ tokOfRunes a.ns ++ " " ++ tokOfRunes a.name ++ " " ++ tokOfRunes a.val

def showTokItem : Tok → String
  | .start ns n as => String.intercalate " " (("S " ++ tokOfRunes ns ++ " " ++ tokOfRunes n) :: as.map showAttrItem)
  | .end_ ns n => "E " ++ tokOfRunes ns ++ " " ++ tokOfRunes n
  | .chars s => "C " ++ tokOfRunes s
  | .comment s => "M " ++ tokOfRunes s
  | .procInst t i => "P " ++ tokOfRunes t ++ " " ++ tokOfRunes i
  | .directive s => "D " ++ tokOfRunes s

def handle (op : String) (args : List String) : Option String :=
  match op, args with
  | "dec", base :: fin :: items => do
    let base ← optBase base
    let fin ← parseFin fin
    let (toks, rs) ← parseItems items [] []
    let tbl := rs.map (fun (i, n, o) => ((toks.drop i).take n, o))
    pure (showResult (decode (params tbl) base toks fin))
  | "tokens", base :: rest => do
    let base ← runesTok base
    let t ← Driver.RdfXml.tree (← Driver.RdfXml.parseSExp rest)
    let toks := tokensDoc t
    pure (String.intercalate " " (toks.map showTokItem) ++ " | " ++
      showResult (decode (params (rawTable t)) (some base) toks .eof))
  | _, _ => none

end RdfModel.Driver.RdfXmlDec
