/-
  Property C11 — RDFa, Microdata and embedded JSON-LD in HTML decode to the data they mark up; the combined HTML
  decoder yields the union of the three without ever identifying blank nodes that come from different syntaxes.

  Statements only; proofs are in Proofs/C11Rdfa.lean, Proofs/C11Microdata.lean, Proofs/C11Chain.lean.

  A. Combined decoder (level: proof).  Model.HtmlCombined follows encoding/html/htmldefaults/decoder.go; the facts
     about which factory each sub-decoder draws from are T2 (Gen/HtmlFacts.lean, regenerated from the Go source on
     every run); blank-node identity is Model.BlankNodes (property C14) and `factories_disjoint` proved there.
  B. Markup semantics (level: fragment).  Spec.RdfaFragment / Spec.MicrodataFragment are denotations over abstract
     element trees written from the standards; the writers produce trees from graphs and markup choices. The Go
     decoders are tied to the denotations by T3 only (go/cmd/c11); the HTML5 parser is outside the model.
-/
import RdfModel.Proofs.C11Rdfa
import RdfModel.Proofs.C11Microdata
import RdfModel.Proofs.C11Chain
import RdfModel.Proofs.C11Scope
import RdfModel.Proofs.C11MdIds
import RdfModel.Proofs.C11RaIds
import RdfModel.Spec.GraphIso
namespace RdfModel.C11
open RdfModel RdfModel.Desc

/-! ## A. the combined decoder -/

/- The T2 facts (`factories_not_shared`, `chain_order`) are in Props/C11Facts.lean: they are re-proved against the
   regenerated Gen/HtmlFacts.lean on every run and must not take the other theorems down with them. -/

/-- Union semantics of the iterator chain: calling `Next()` until it returns false yields exactly the statements
    of the nested decoders one after the other, up to and including the first nested decoder that ends in an
    error, and then reports an error iff one of them did. -/
theorem combined_is_union {Q : Type} (its : List (Html.Iter Q)) (fuel : Nat) (h : Html.total its < fuel) :
    (Html.drain (some its) fuel Html.Dec.new).1 = Html.chainItems its ∧
    (Html.drain (some its) fuel Html.Dec.new).2.err = Html.chainErr its :=
  Html.drain_new fuel its h

/-- …which, when no nested decoder fails, is the plain concatenation. -/
theorem combined_is_union_clean {Q : Type} (its : List (Html.Iter Q)) (h : ∀ it ∈ its, it.err = false) :
    Html.chainItems its = its.flatMap (fun it => it.items) ∧ Html.chainErr its = false :=
  ⟨Html.chainItems_clean its h, Html.chainErr_clean its h⟩

/-- A failing `init` (HTML parse error, sub-decoder constructor error) yields nothing and latches the error. -/
theorem combined_init_failure {Q : Type} (fuel : Nat) :
    Html.drain (none : Option (List (Html.Iter Q))) (fuel + 1) Html.Dec.new = ([], { err := true, iters := none }) := by
  simp [Html.drain, Html.Dec.next, Html.Dec.new]

/-- For one document: the chain over the three readings (JSON-LD scripts in document order, Microdata, RDFa)
    yields their union in that order and no error. -/
theorem combined_document {βJ βM βR : Type} (fm : βM → Html.CB βJ) (fr : βR → Html.CB βJ)
    (scripts : List (List (DQuad βJ))) (md : List (Triple βM)) (rdfa : List (Triple βR)) (fuel : Nat)
    (h : Html.total (Html.docIters fm fr scripts md rdfa) < fuel) :
    (Html.drain (some (Html.docIters fm fr scripts md rdfa)) fuel Html.Dec.new).1 = Html.unionOf fm fr scripts md rdfa ∧
    (Html.drain (some (Html.docIters fm fr scripts md rdfa)) fuel Html.Dec.new).2.err = false := by
  obtain ⟨h1, h2⟩ := Html.drain_new fuel _ h
  obtain ⟨h3, h4⟩ := Html.docIters_items fm fr scripts md rdfa
  exact ⟨h1.trans h3, h2.trans h4⟩

/-- No identification across syntaxes. Take the blank-node operations of one combined decode (`Html.history r`:
    the factory each sub-decoder makes and the node requests it sends to it, for any numbers and labels of
    requests `r`), on any process state `BN.init d`. Two nodes handed to different sub-decoders — or to the decoders
    of different script elements — are never `TermEquals`. (From C14 `factories_disjoint` and the fact that the
    history sends each sub-decoder's requests to its own factory, `Html.tagged_owner`.) -/
theorem no_cross_syntax_identification (U : Nat → BN.Bytes) (d : Nat) (r : Html.Run) (i j : Nat)
    (oi oj : Html.Owner) (opi opj : BN.Op) (x y : BN.Node)
    (hi : (Html.tagged r)[i]? = some (some oi, opi)) (hj : (Html.tagged r)[j]? = some (some oj, opj))
    (hx : (BN.trace U (BN.init d) (Html.history r))[i]? = some (opi, .node x))
    (hy : (BN.trace U (BN.init d) (Html.history r))[j]? = some (opj, .node y))
    (hne : oi ≠ oj) :
    BN.termEquals x y = false := by
  have hfi := Html.tagged_owner r _ (List.mem_of_getElem? hi) oi rfl
  have hfj := Html.tagged_owner r _ (List.mem_of_getElem? hj) oj rfl
  exact Proofs.C14.factories_disjoint U d (Html.history r) i j opi opj _ _ x y hx hy hfi hfj
    (fun h => hne (Html.ownerFactory_injective r h))

/-- Non-vacuity: a run with two scripts, Microdata and RDFa all asking for anonymous nodes and for the same
    label `b0`: every request is answered with a node, ten in all. -/
def Witness.run : Html.Run :=
  { scripts := [[.anon, .named (BN.asc "b0")], [.named (BN.asc "b0")]], micro := 2,
    rdfa := [.named (BN.asc "b0"), .anon, .named (BN.asc "b0")] }

example : ((BN.trace BN.driverU (BN.init 7) (Html.history Witness.run)).filter
    (fun e => match e.2 with | .node (some _) => true | _ => false)).length = 8 := by decide

/-! ## B. markup semantics -/

section
variable {β κ : Type}

/-- RDFa round trip. For every graph that RDFa can express in the initial context (`expressible`: subjects are
    IRIs or blank nodes; every IRI, written out in full, is read back as itself — it is absolute, its scheme is not
    a prefix in scope; literals are plain, language-tagged or typed with a datatype other than rdf:XMLLiteral /
    rdf:HTML), every document base, every injective labelling of the blank nodes, every skeleton choice and every
    list of block choices — with *any* candidate builder `build` (the harness uses `Rdfa.Pat.build`) — the document
    the writer produces denotes the graph up to blank-node renaming. -/
theorem rdfa_roundtrip (base : Spec.Html.Str) (prefixes terms : List (Spec.Html.Str × Spec.Html.Str))
    (lbl : β → Spec.Html.Str) (hinj : Function.Injective lbl) (take : κ → Nat)
    (build : Spec.Rdfa.Ctx → κ → List (Triple β) → Spec.Html.Tree) (sk : Spec.Rdfa.Skel) (cs : List κ)
    (g : List (Triple β))
    (hg : Spec.Rdfa.expressible (Spec.Rdfa.bodyCtx base prefixes terms {}).env g = true) :
    Spec.Iso (Spec.Rdfa.denote base prefixes terms (Spec.Rdfa.write base prefixes terms lbl take build sk cs g)) g :=
  ⟨Spec.Rdfa.sigma lbl, Spec.Rdfa.sigma_injective lbl hinj,
   Spec.Rdfa.write_denote base prefixes terms lbl take build sk cs g hg⟩

/-- The canonical one-element block of any expressible triple is right in every context without pending
    incomplete triples (what the writer falls back to). -/
theorem rdfa_canonical_block (lbl : β → Spec.Html.Str) (C : Spec.Rdfa.Ctx) (n : Nat) (t : Triple β)
    (hinc : C.incomplete = []) (hs : Spec.Rdfa.okRes C.env t.s = true) (hp : Spec.Rdfa.okPred C.env t.p = true)
    (ho : Spec.Rdfa.okObj C.env t.o = true) :
    Spec.Rdfa.procNode C [] n (Spec.Rdfa.canon lbl t) =
      { out := [Triple.map (Spec.Rdfa.sigma lbl) t], lm := [], next := n } :=
  Spec.Rdfa.canon_correct lbl C n t hinc hs hp ho

/-! Pattern theorems: what the §7.5 sequence yields for the chaining idioms, for all attribute spellings that
    resolve (`resSCI … = some S`, `resTCAs … = [p]`) and every context without pending incomplete triples.
    `chaining`, `inherited subject` are what the writer's validated candidates consist of; processor-made blank
    nodes and @inlist are *not* used by the writer and are covered by these statements (and by the rdfa-soup
    correspondence) only. -/

/-- incomplete triples + processor-made blank node: `<div about rel><span property content/></div>` -/
theorem rdfa_hanging_anonymous (C : Spec.Rdfa.Ctx) (n : Nat) (a p q c : Spec.Html.Str) (S : Spec.Rdfa.T)
    (hinc : C.incomplete = []) (ha : Spec.Rdfa.resSCI C.env a = some S)
    (hp : Spec.Rdfa.resTCAs C.env p = [p]) (hq : Spec.Rdfa.resTCAs C.env q = [q]) :
    Spec.Rdfa.procNode C [] n (.elem .div { about := some a, rel := some p }
        [.elem .span { property := some q, content := some c, lang := some [] } []]) =
      { out := [⟨Spec.Rdfa.fresh n, q, .lit c xsdString none⟩, ⟨S, p, Spec.Rdfa.fresh n⟩], lm := [], next := n + 1 } :=
  Spec.Rdfa.hanging_anonymous C n a p q c S hinc ha hp hq

/-- chaining: `<div about=s rel=p><span about=o property=q content=c/></div>` gives `o q c . s p o` -/
theorem rdfa_chaining (C : Spec.Rdfa.Ctx) (n : Nat) (a p r q c : Spec.Html.Str) (S O : Spec.Rdfa.T)
    (hinc : C.incomplete = []) (ha : Spec.Rdfa.resSCI C.env a = some S) (hr : Spec.Rdfa.resSCI C.env r = some O)
    (hp : Spec.Rdfa.resTCAs C.env p = [p]) (hq : Spec.Rdfa.resTCAs C.env q = [q]) :
    Spec.Rdfa.procNode C [] n (.elem .div { about := some a, rel := some p }
        [.elem .span { about := some r, property := some q, content := some c, lang := some [] } []]) =
      { out := [⟨O, q, .lit c xsdString none⟩, ⟨S, p, O⟩], lm := [], next := n + 1 } :=
  Spec.Rdfa.chaining C n a p r q c S O hinc ha hr hp hq

/-- subject and language inherited from the parent, literal from the text content -/
theorem rdfa_inherited_subject (C : Spec.Rdfa.Ctx) (n : Nat) (a q c l : Spec.Html.Str) (S : Spec.Rdfa.T) (hl : l ≠ [])
    (hinc : C.incomplete = []) (ha : Spec.Rdfa.resSCI C.env a = some S) (hq : Spec.Rdfa.resTCAs C.env q = [q]) :
    Spec.Rdfa.procNode C [] n (.elem .div { about := some a, lang := some l }
        [.elem .span { property := some q } [.text c]]) =
      { out := [⟨S, q, .lit c rdfLangString (some l)⟩], lm := [], next := n } :=
  Spec.Rdfa.inherited_subject C n a q c l S hl hinc ha hq

/-- `@property @typeof` without a resource: a typed blank node as the property's object (step 5.1) -/
theorem rdfa_typed_bnode_object (C : Spec.Rdfa.Ctx) (n : Nat) (a q ty : Spec.Html.Str) (S : Spec.Rdfa.T)
    (hinc : C.incomplete = []) (ha : Spec.Rdfa.resSCI C.env a = some S) (hq : Spec.Rdfa.resTCAs C.env q = [q])
    (hty : Spec.Rdfa.resTCAs C.env ty = [ty]) :
    Spec.Rdfa.procNode C [] n (.elem .div { about := some a }
        [.elem .span { property := some q, typeof := some ty } []]) =
      { out := [⟨Spec.Rdfa.fresh n, Spec.Rdfa.rdfType, .iri ty⟩, ⟨S, q, Spec.Rdfa.fresh n⟩], lm := [], next := n + 1 } :=
  Spec.Rdfa.typed_bnode_object C n a q ty S hinc ha hq hty

/-- `@rev` + `@property` + a resource attribute on one element: the resource is the object of the @rev triple only,
    the @property value is the text content (step 11: a resource is taken only when @rel, @rev, @content are absent) -/
theorem rdfa_rev_property_literal (C : Spec.Rdfa.Ctx) (n : Nat) (a p q r txt : Spec.Html.Str) (S O : Spec.Rdfa.T)
    (hinc : C.incomplete = []) (ha : Spec.Rdfa.resSCI C.env a = some S) (hr : Spec.Rdfa.resSCI C.env r = some O)
    (hp1 : Spec.Html.fields p = [p]) (hp2 : (Spec.Html.splitColon p).isSome = true)
    (hp : Spec.Rdfa.resTCAs C.env p = [p]) (hq : Spec.Rdfa.resTCAs C.env q = [q]) :
    Spec.Rdfa.procNode C [] n
        (.elem .span { about := some a, rev := some p, property := some q, resource := some r, lang := some [] } [.text txt]) =
      { out := [⟨O, p, S⟩, ⟨S, q, .lit txt xsdString none⟩], lm := [], next := n } :=
  Spec.Rdfa.rev_property_literal C n a p q r txt S O hinc ha hr hp1 hp2 hp hq

/-- list mapping: the @inlist children of an element that sets a new subject become one RDF collection, in
    document order, attached to that subject (for any number ≥ 1 of items) -/
theorem rdfa_inlist_collection (C : Spec.Rdfa.Ctx) (n : Nat) (a p c : Spec.Html.Str) (cs : List Spec.Html.Str)
    (S : Spec.Rdfa.T) (hinc : C.incomplete = []) (ha : Spec.Rdfa.resSCI C.env a = some S) (hne : S ≠ C.parentSubject)
    (hp : Spec.Rdfa.resTCAs C.env p = [p]) :
    Spec.Rdfa.procNode C [] n (.elem .div { about := some a } ((c :: cs).map (Spec.Rdfa.listItem p))) =
      { out := Spec.Rdfa.listCells n ((c :: cs).map (fun c => (.lit c xsdString none : Spec.Rdfa.T))) ++
               [⟨S, p, Spec.Rdfa.fresh n⟩],
        lm := [], next := n + (c :: cs).length } :=
  Spec.Rdfa.inlist_collection C n a p c cs S hinc ha hne hp

variable [DecidableEq β]

/-- Microdata round trip, for validated candidates and canonical fallbacks alike: whenever the writer reports
    success, its document denotes the graph. Success is reported for every candidate document that validates —
    blank-node objects (nested items, `itemref`) included — and for every graph without blank-node objects. -/
theorem microdata_roundtrip_validated (lbl : β → Spec.Html.Str) (hinj : Function.Injective lbl) (base : Spec.Html.Str)
    (g : List (Triple β)) (cand : Spec.Html.Tree) (pos : β → Spec.Microdata.Path)
    (hok : (Spec.Microdata.write base g cand pos).2 = true) :
    Spec.Iso (Spec.Microdata.denote base (Spec.Microdata.write base g cand pos).1) g := by
  unfold Spec.Microdata.write at hok ⊢
  split
  · rename_i hv
    obtain ⟨h1, h2⟩ := Spec.Microdata.validDoc_sound lbl hinj base g cand pos hv
    exact ⟨_, h1, h2⟩
  · rename_i hv
    simp only [hv] at hok
    exact ⟨_, Spec.Microdata.canonPos_injective lbl hinj g, Spec.Microdata.canonDoc_denote lbl base g hok⟩

/-- Microdata round trip, *partial*: for every graph expressible without blank-node objects (`expressible`:
    IRI or blank-node subjects, one-token absolute property names, `xsd:string` literals, IRI objects the base
    leaves alone), every base and every candidate, the writer's document denotes the graph.
    MISSING for the full statement `microdata_roundtrip`: a canonical document, proved for all graphs, for blank
    nodes in object position (nested items or `itemref`); such graphs are covered only when the candidate validates
    (`microdata_roundtrip_validated`) — in the harness runs that is every generated case but the writer does not
    guarantee it. -/
theorem microdata_roundtrip_partial (lbl : β → Spec.Html.Str) (hinj : Function.Injective lbl) (base : Spec.Html.Str)
    (g : List (Triple β)) (cand : Spec.Html.Tree) (pos : β → Spec.Microdata.Path)
    (hg : Spec.Microdata.expressible base g = true) :
    Spec.Iso (Spec.Microdata.denote base (Spec.Microdata.write base g cand pos).1) g := by
  apply microdata_roundtrip_validated lbl hinj
  unfold Spec.Microdata.write
  split <;> simp_all

/-- what Microdata can express once blank-node objects are admitted: each blank node is the object of at most
    one triple (an item has one place in the document; `itemprop` names apply to every referrer alike) -/
def mdExpressibleFull (base : Spec.Html.Str) (g : List (Triple β)) : Prop :=
  (∀ t ∈ g, Spec.Microdata.okTriple base { t with o := (match t.o with | .bnode _ => .iri t.p | o => o) } = true) ∧
  ∀ b, (g.filter (fun t => t.o == .bnode b)).length ≤ 1

/-- The full statement (NOT proved; see `microdata_roundtrip_partial`). -/
def microdata_roundtrip : Prop :=
  ∀ (lbl : β → Spec.Html.Str), Function.Injective lbl → ∀ (base : Spec.Html.Str) (g : List (Triple β))
    (cand : Spec.Html.Tree) (pos : β → Spec.Microdata.Path), mdExpressibleFull base g →
    Spec.Iso (Spec.Microdata.denote base (Spec.Microdata.write base g cand pos).1) g

end

/-! ## C. scoping (round 3)

  What the fragment semantics say about the three places where the harness's generator families go since round 3:
  a prefix token used outside the scope that declares it, an author-written @vocab equal to the host language's default
  vocabulary, and `id` attributes on the ancestors of an `itemref` target. The documents of these families are inside
  the fragment; the writers' round-trip theorems above cover them (the candidate builders are arbitrary); the Go
  decoders are tied to the denotations by T3. -/

/-- RDFa Core §7.4.2: a `prefix:reference` value whose prefix has no mapping in scope is not a CURIE: in a
    TERMorCURIEorAbsIRI attribute it is the IRI `prefix:reference` itself, in a SafeCURIEorCURIEorIRI attribute (unsafe
    spelling) the reference resolved against the base — which, having a scheme, is itself up to dot segments. -/
theorem rdfa_prefix_out_of_scope_is_iri (E : Spec.Rdfa.Env) (v p r : Spec.Html.Str)
    (hs : Spec.Html.splitColon v = some (p, r)) (h1 : p ≠ [0x5f]) (h2 : p ≠ [])
    (hl : Spec.Html.alookup (Spec.Html.toLowerAscii p) E.prefixes = none) :
    Spec.Rdfa.resTCA E v = some v ∧
    (Spec.Rdfa.safeInner v = none → Spec.Rdfa.resSCI E v = some (.iri (Spec.Rdfa.resolveRef E.base v))) :=
  ⟨Spec.Rdfa.resTCA_undeclared E v p r hs h1 h2 hl, fun hsafe => Spec.Rdfa.resSCI_undeclared E v p r hsafe hs h1 h2 hl⟩

/-- …and the same text with the prefix in scope is the concatenation. -/
theorem rdfa_prefix_in_scope_is_curie (E : Spec.Rdfa.Env) (v p r ns : Spec.Html.Str)
    (hs : Spec.Html.splitColon v = some (p, r)) (h1 : p ≠ [0x5f]) (h2 : p ≠ [])
    (hn : Spec.Rdfa.isNCName p = true) (hl : Spec.Html.alookup (Spec.Html.toLowerAscii p) E.prefixes = some ns) :
    Spec.Rdfa.resTCA E v = some (ns ++ r) :=
  Spec.Rdfa.resTCA_declared E v p r ns hs h1 h2 hn hl

/-- non-vacuity of both: `ex:q` with and without `ex` in scope -/
example : Spec.Rdfa.resTCA { base := [], prefixes := [], vocab := none, terms := [] } (asc "ex:q") = some (asc "ex:q") ∧
    Spec.Rdfa.resTCA { base := [], prefixes := [(asc "ex", asc "http://e.com/ns#")], vocab := none, terms := [] } (asc "ex:q") =
      some (asc "http://e.com/ns#q") := by decide

/-- The scope of `@prefix` (§7.5 steps 3 and 13): the mappings handed to an element's children are its own
    declarations in front of the inherited ones; the following siblings are processed in the parent's own evaluation
    context — nothing an element declares reaches an element that is not its descendant. -/
theorem rdfa_prefix_scope (C : Spec.Rdfa.Ctx) (lm : Spec.Rdfa.LM) (n : Nat) (tag : Spec.Html.Tag) (a : Spec.Html.Attrs)
    (kids sibs : List Spec.Html.Tree) :
    (Spec.Rdfa.elemLocal C lm n tag a (Spec.Html.textOfList kids)).kid.env.prefixes =
      (match a.pfx with | some p => Spec.Rdfa.prefixDecls (Spec.Html.fields p) | none => []) ++ C.env.prefixes ∧
    (Spec.Rdfa.procKids C lm n (.elem tag a kids :: sibs)).out =
      (Spec.Rdfa.procNode C lm n (.elem tag a kids)).out ++
      (Spec.Rdfa.procKids C (Spec.Rdfa.procNode C lm n (.elem tag a kids)).lm
        (Spec.Rdfa.procNode C lm n (.elem tag a kids)).next sibs).out :=
  ⟨Spec.Rdfa.elemLocal_prefixes C lm n tag a _, by rw [Spec.Rdfa.procKids_cons]⟩

namespace ScopeWitness
open Spec.Html Spec.Rdfa
/-- the two sections of the seeded-defect demo C11r3-1: the first declares `ex`, the second uses `ex:q` undeclared -/
def secA : Tree := .elem .div { about := some (asc "http://e.com/a"), pfx := some (asc "ex: http://e.com/ns#") }
  [.elem .span { property := some (asc "ex:p"), content := some (asc "1") } []]
def secB : Tree := .elem .div { about := some (asc "http://e.com/b") }
  [.elem .span { property := some (asc "ex:q"), content := some (asc "2") } []]
def doc (x y : Tree) : Tree := .elem .html {} [.elem .head {} [], .elem .body {} [x, y]]
def tA : Tr := ⟨.iri (asc "http://e.com/a"), asc "http://e.com/ns#p", .lit (asc "1") xsdString none⟩
def tB : Tr := ⟨.iri (asc "http://e.com/b"), asc "ex:q", .lit (asc "2") xsdString none⟩
end ScopeWitness

/-- Both orders of two sibling sections, one declaring a prefix the other uses undeclared, denote the same graph: the
    undeclared use is the IRI `ex:q` whether the declaration comes before or after it in the document. -/
theorem rdfa_prefix_scope_witness :
    Spec.Rdfa.denote (asc "http://e.com/d") [] [] (ScopeWitness.doc ScopeWitness.secA ScopeWitness.secB) =
      [ScopeWitness.tA, ScopeWitness.tB] ∧
    Spec.Rdfa.denote (asc "http://e.com/d") [] [] (ScopeWitness.doc ScopeWitness.secB ScopeWitness.secA) =
      [ScopeWitness.tB, ScopeWitness.tA] := by decide

/-- RDFa Core §7.4.3: with a local default vocabulary, a term denotes vocabulary ++ term — whatever IRI the vocabulary
    is, the host language's default vocabulary `http://www.w3.org/1999/xhtml/vocab#` included; and `@vocab="v"` (v not
    empty) makes `v` the local default vocabulary of the element's children (§7.5 step 2). -/
theorem rdfa_term_under_any_vocab (E : Spec.Rdfa.Env) (voc v : Spec.Html.Str) (hv : E.vocab = some voc)
    (hc : Spec.Html.splitColon v = none) (ht : Spec.Rdfa.isTerm v = true) :
    Spec.Rdfa.resTCA E v = some (voc ++ v) :=
  Spec.Rdfa.resTCA_vocab E voc v hv hc ht

theorem rdfa_vocab_declared (C : Spec.Rdfa.Ctx) (lm : Spec.Rdfa.LM) (n : Nat) (tag : Spec.Html.Tag) (a : Spec.Html.Attrs)
    (txt v : Spec.Html.Str) (ha : a.vocab = some v) (hv : v ≠ []) :
    (Spec.Rdfa.elemLocal C lm n tag a txt).kid.env.vocab = some v :=
  Spec.Rdfa.elemLocal_vocab C lm n tag a txt v ha hv

/-- non-vacuity, and the seeded-defect demo C11r3-3: `vocab` = the host default vocabulary, terms that are not
    predefined (`note`, `Part`): property and type triples are there. -/
example : Spec.Rdfa.denote (asc "http://e.com/d") [] [(asc "license", Spec.Rdfa.xhv ++ asc "license")]
    (.elem .html {} [.elem .head {} [], .elem .body {}
      [.elem .div { vocab := some Spec.Rdfa.xhv, about := some (asc "http://e.com/a"), typeof := some (asc "Part") }
        [.elem .span { property := some (asc "note"), content := some (asc "n") } []]]]) =
    [⟨.iri (asc "http://e.com/d"), Spec.Rdfa.usesVocabulary, .iri Spec.Rdfa.xhv⟩,
     ⟨.iri (asc "http://e.com/a"), Spec.Rdfa.rdfType, .iri (Spec.Rdfa.xhv ++ asc "Part")⟩,
     ⟨.iri (asc "http://e.com/a"), Spec.Rdfa.xhv ++ asc "note", .lit (asc "n") xsdString none⟩] := by decide

/-- Microdata `itemref`: which element a token names (the first one in tree order with that `id`) does not depend
    on the `id` attributes with other values, wherever they are — on ancestors of the target included. `reId f` rewrites
    the `id` of every element by position; it may add, change or remove any id as long as it neither makes nor
    unmakes an `id="r"`. -/
theorem microdata_itemref_ignores_other_ids (f : Spec.Microdata.Path → Option Spec.Html.Str → Option Spec.Html.Str)
    (r : Spec.Html.Str) (hf : ∀ p o, f p o = some r ↔ o = some r) (doc : Spec.Html.Tree) :
    Spec.Microdata.findIdNode r [] (Spec.Microdata.reId f [] doc) = Spec.Microdata.findIdNode r [] doc :=
  Spec.Microdata.findIdNode_reId f r hf [] doc

namespace IdWitness
open Spec.Html Spec.Microdata
/-- the seeded-defect demo C11r3-2: the itemref target `more` inside a wrapper which may carry an id of its own -/
def doc (wrapperId : Option Str) : Tree :=
  .elem .html {} [.elem .head {} [], .elem .body {}
    [.elem .div { itemscope := true, itemtype := some (asc "http://e.com/T"), itemref := some (asc "more") }
       [.elem .span { itemprop := some (asc "http://e.com/p") } [.text (asc "one")]],
     .elem .other { id := wrapperId }
       [.elem .div { id := some (asc "more") } [.elem .span { itemprop := some (asc "http://e.com/q") } [.text (asc "two")]]]]]
/-- a decoration satisfying the hypothesis of `microdata_itemref_ignores_other_ids` for `more`: fresh ids on every
    element that has none -/
def addIds : Path → Option Str → Option Str
  | p, none => some (asc "zz" ++ p)
  | _, some x => some x
end IdWitness

example : ∀ p o, IdWitness.addIds p o = some (asc "more") ↔ o = some (asc "more") := by
  intro p o
  cases o with
  | none => simp [IdWitness.addIds, asc]
  | some x => simp [IdWitness.addIds]

/-- the wrapper's id does not change the graph: three triples either way -/
theorem microdata_nested_target_witness :
    Spec.Microdata.denote (asc "http://e.com/d") (IdWitness.doc (some (asc "footer"))) =
      Spec.Microdata.denote (asc "http://e.com/d") (IdWitness.doc none) ∧
    (Spec.Microdata.denote (asc "http://e.com/d") (IdWitness.doc (some (asc "footer")))).length = 3 := by decide

/-- Ids that no `itemref` names are irrelevant markup for Microdata: rewriting the `id` attributes of a document in
    any way (`reId f`: add, change, remove, by position) that neither makes nor unmakes an id equal to an `itemref`
    token occurring in the document leaves the denotation unchanged. This is the statement behind the harness's
    "ids on ancestors" decoration (fresh ids on any elements, ancestors of itemref targets included). -/
theorem microdata_denote_ignores_unreferenced_ids
    (f : Spec.Microdata.Path → Option Spec.Html.Str → Option Spec.Html.Str) (base : Spec.Html.Str) (doc : Spec.Html.Tree)
    (hf : ∀ r ∈ Spec.Microdata.refTokens doc, ∀ p o, (f p o = some r ↔ o = some r)) :
    Spec.Microdata.denote base (Spec.Microdata.reId f [] doc) = Spec.Microdata.denote base doc :=
  Spec.Microdata.denote_reId f base doc hf

/-- `id` attributes are irrelevant markup for RDFa: any rewriting of the ids of a document (no hypothesis on `f`)
    leaves the RDFa denotation unchanged. -/
theorem rdfa_denote_ignores_ids (f : Spec.Microdata.Path → Option Spec.Html.Str → Option Spec.Html.Str)
    (base : Spec.Html.Str) (prefixes terms : List (Spec.Html.Str × Spec.Html.Str)) (doc : Spec.Html.Tree) :
    Spec.Rdfa.denote base prefixes terms (Spec.Microdata.reId f [] doc) = Spec.Rdfa.denote base prefixes terms doc :=
  Spec.Rdfa.denote_reId f base prefixes terms doc

/-- non-vacuity: fresh ids on every element of the witness document that has none -/
example : ∀ r ∈ Spec.Microdata.refTokens (IdWitness.doc none), ∀ p o,
    (IdWitness.addIds p o = some r ↔ o = some r) := by
  intro r hr p o
  have : r = asc "more" := by
    have h : Spec.Microdata.refTokens (IdWitness.doc none) = [asc "more"] := by decide
    rw [h] at hr
    simpa using hr
  subst this
  cases o with
  | none => simp [IdWitness.addIds, asc]
  | some x => simp [IdWitness.addIds]

/-- Embedded JSON-LD: wherever the writer puts the script element (head, body, nested in body content), among
    elements that contain no JSON-LD script themselves, htmljsonld reads exactly its text. With `J` the JSON-LD
    semantics of that text (property C10), the decoded dataset is `J text`. -/
theorem jsonld_script_extracted (place : Nat) (headNoise before after : List Spec.Html.Tree) (text : Spec.Html.Str)
    (h1 : Html.scriptsKids headNoise = []) (h2 : Html.scriptsKids before = []) (h3 : Html.scriptsKids after = []) :
    Html.scriptsNode (Html.embed place headNoise before after text) = [text] :=
  Html.scripts_embed place headNoise before after text h1 h2 h3

/-- Non-vacuity of `microdata_roundtrip_partial`'s hypothesis. -/
example : Spec.Microdata.expressible (asc "http://ex.org/dir/page.html")
    ([⟨.iri (asc "http://ex.org/a"), asc "http://schema.org/name", .lit (asc "A b") xsdString none⟩,
      ⟨.bnode 3, asc "urn:p:x", .iri (asc "mailto:a@b.example")⟩] : List (Triple Nat)) = true := by decide

end RdfModel.C11
