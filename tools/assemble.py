#!/usr/bin/env python3
"""Assembles props/Cxx.json for properties decided by several builders' parts (fragments).
Each part contributes lean targets, audit files, theorem names (optionally filtered), harness runs."""
import json, os, re
ROOT = os.path.dirname(os.path.dirname(os.path.abspath(__file__)))
def load(n): return json.load(open(os.path.join(ROOT, "props", n + ".json")))
def harnesses(c, prop=None, override_prop=True):
    hs = c["harness"]
    if isinstance(hs, str): hs = [{"cmd": hs}]
    out = []
    for h in hs:
        h = json.loads(json.dumps(h))
        if prop and override_prop:
            a = h.setdefault("args", {}).setdefault("all", [])
            if "-prop" in a:
                a[a.index("-prop") + 1] = prop
            elif h["cmd"] in ("c05ttl", "c02tok", "c05x"):
                a += ["-prop", prop]
        out.append(h)
    return out
def extract_names(c):
    a = c.get("extract_args", [])
    return set(a[a.index("-only") + 1].split(",")) if "-only" in a else set()

def assemble(pid, parts, level, level_text, level_note, technique, extra_assumptions=(), explanation=""):
    targets, audit, theorems, hs, tb, asm, gens = [], [], [], [], [], [], set()
    for name, flt, prop_for_harness in parts:
        c = load(name)
        targets += [t for t in c["lean_targets"] if t not in targets]
        audit += [a for a in c.get("audit", []) if a not in audit]
        ths = c.get("theorems", [])
        if flt: ths = [t for t in ths if re.search(flt, t)]
        theorems += [t for t in ths if t not in theorems]
        if prop_for_harness is not False:
            for h in harnesses(c, prop_for_harness):
                if h not in hs: hs.append(h)
        tb += [x for x in c.get("trusted_base", []) if x not in tb]
        asm += [x for x in c.get("assumptions", []) if x not in asm]
        gens |= extract_names(c)
        if c.get("explanation"): explanation += (" " if explanation else "") + c["explanation"]
    out = {"id": pid, "level": level, "claimed": True, "lean_targets": targets, "audit": audit, "theorems": theorems,
           "harness": hs, "extract_args": ["-only", ",".join(sorted(gens))] if gens else [],
           "trusted_base": tb, "assumptions": list(extra_assumptions) + asm, "level_text": level_text,
           "level_note": level_note, "technique": technique, "explanation": explanation,
           "assembled_from": [p[0] for p in parts]}
    json.dump(out, open(os.path.join(ROOT, "props", pid + ".json"), "w"), indent=1)
    print(pid, "targets", len(targets), "theorems", len(theorems), "harness", [h["cmd"] for h in hs])

NQDEC = "C05NQ.part"
if __name__ == "__main__":
    # part describing the NT/NQ decoder theorems proved in Props/C05NQ.lean with harness c01
    json.dump({"id": "C05NQ", "lean_targets": ["RdfModel.Props.C05NQ"], "audit": ["RdfModel/Audit/C05NQ.lean"],
               "theorems": ["RdfModel.C05NQ." + t for t in ["run_fuel_suffices", "next_shrinks", "latch", "next_true_has_current",
                            "run_emits_wf", "ioerr_reported", "done_only_on_blank", "next_extend", "prefix_monotone"]],
               "harness": "c01", "extract_args": ["-only", "nq"],
               "trusted_base": ["T3 correspondence go/cmd/c01 (valid, mutated, truncated documents, single-rune probes, both stream endings) for Model/NQuads.lean"],
               "assumptions": ["N-Triples/N-Quads: bufio.Reader.ReadRune yields the UTF-8 decoding of the bytes and a sticky terminal error; the model has no panic outcome (every index/assertion of the Go decoders is in range; a recovered Go panic shows as a disagreement)"]},
              open(os.path.join(ROOT, "props", NQDEC + ".json"), "w"), indent=1)
    json.dump({"id": "C07NQ", "lean_targets": ["RdfModel.Props.C07NQ"], "audit": ["RdfModel/Audit/C07NQ.lean"],
               "theorems": ["RdfModel.C07NQ." + t for t in ["next_nt_quad", "next_nt_done", "nt_sub_nq", "nt_statements_default_graph", "run_congr",
                            "gen_decoder_tables_equal", "gen_iriEsc_equal", "gen_tables_equal", "nt_sub_nq_real"]],
               "harness": "c01", "extract_args": ["-only", "nq"], "trusted_base": [], "assumptions": []},
              open(os.path.join(ROOT, "props", "C07NQ.part.json"), "w"), indent=1)
    assemble("C05", [(NQDEC, r"run_fuel_suffices|next_shrinks|latch|next_true_has_current", None),
                     ("C01RJ.fragment", r"no_panic|latch|accessor|idx_inv|closed_form|legacy_panics", None),
                     ("C05Ttl", r"C05\.|no_panic|fuel|latch|accessors|real_producers|total_real|gen_tables_nul", "C05"),
                     ("C02T.fragment", r"no_panic", False),
                     ("C05X", None, "C05")],
             "proof",
             "Proof for the modelled decoders: N-Triples/N-Quads (model NQ: fuel |input|+1 always suffices, Next consumes input, sticky end, accessor usable; the model has no panic outcome), RDF/JSON (token-level model: no panic for every token stream on the repaired code, latch, accessor range), Turtle/TriG (defunctionalised stack machine with explicit panic outcomes: no panic, linear fuel bound 64*|input|+42, latch, accessors; token producers panic-free). For RDF/XML, JSON-LD, RDFa, Microdata, HTML-embedded JSON-LD and the combined decoder there is no model of the parsing core: T2 facts (latch pattern of every decoder type, by decide on regenerated go/ast facts) plus search with recover/watchdog over corpora, mutations, nesting, truncation, chunking — labelled search in coverage.explanation.",
             "Trusted: Lean kernel; the three standard axioms at most; T1/T2 extractors; T3 harnesses c01, c01rj, c05ttl, c05x and their generators; tokenizers/parsers outside the repository; memory and wall-clock bounds are runtime behaviour no model exhibits (watchdog only).",
             "Lean 4 theorems (no panic, fuel bounds, latch, accessors) about executable decoder models tied by T1 tables + T3 differential correspondence; T2 latch-pattern facts and recover/watchdog search for decoders without a model")
    assemble("C06", [(NQDEC, r"run_emits_wf", None),
                     ("C01RJ.fragment", r"emits_wf|yields_wf|legacy_", None),
                     ("C05Ttl", r"C06\.|emits_wf|default_graph|literal_tag", "C06"),
                     ("C06X", None, "C06")],
             "proof",
             "Proof for N-Triples/N-Quads (every statement of every run, also before an error: term kinds per position, blank nodes carry a non-empty label, every IRI passed the absolute-IRI check, non-empty language tag iff rdf:langString, never rdf:dirLangString), RDF/JSON (rj_emits_wf/rj_yields_wf on the repaired code), Turtle/TriG (doc_emits_wf: subject/predicate never nil, graph only in TriG, tag iff langString). RDF/XML, JSON-LD, RDFa, Microdata: T2 emission-site table (every rdf.Triple/rdf.Quad composite literal with static field types; theorem emit_sites_static by decide) plus the structural oracle on every statement yielded in the search harness.",
             "Trusted: as C05; for the unmodelled decoders well-formedness of dynamically typed fields rests on the reviewed-sites list and the oracle.",
             "Lean 4 invariants over all inputs for the modelled decoders + T2 emission-site facts + structural oracle on the implementation")
    assemble("C15", [(NQDEC, r"ioerr_reported|done_only_on_blank|next_extend|prefix_monotone", None),
                     ("C05Ttl", r"C15\.|ioerr|truncation|clean_only|top_level_clean", "C15"),
                     ("C15X", None, "C15")],
             "proof",
             "Proof for N-Triples/N-Quads: a reader error is never a clean end, a clean end only on blank remainder (truncation inside a statement is an error), a produced statement is independent of what follows and of how the stream ends (next_extend), statements of a prefix are a prefix of the statements of the document (prefix_monotone); determinism is functionhood of the model. Turtle/TriG: ioerr_reported, truncation reported for every scan function that checks its error argument (partial: six closures excluded, corresponded only), prefix monotonicity corresponded only (known finding D43). Chunking independence: bufio turns any chunking into one rune stream (assumption) — exercised by T3 with 1-byte/mid-rune/random chunk readers for every decoder incl. the whole-document formats.",
             "Trusted: as C05; bufio.Reader semantics; whole-document formats by search only.",
             "Lean 4 theorems over the abstract rune stream (eof | ioerr) + T3 with chunked/failing readers and every-prefix truncation")
    assemble("C02", [("C02T.fragment", r"C02\.", "C02"), ("C02D", None, None)],
      "proof (partial)",
      "Proof (partial: token level): for every IRI, lexical form, local name, language tag and label the Turtle formatter's output is read back by the decoder's token producer as the same value (iriref_roundtrip, string_roundtrip, pname_roundtrip under PNLocalOK, langtag/bnode round trips), a literal written in bare shorthand is read back with the same datatype AND lexical form (shorthand_sound, shorthand_datatypes), producers never panic; generic in the T1 tables regenerated from encoding/turtle and encoding/trig. Document level: the encoder is modelled byte for byte (Model/TurtleEncoder.lean) and plain-triple mode is proved for EVERY configuration (plain_doc_roundtrip / plain_doc_iso: buffered or not, sorted or not, @/SPARQL/disabled directives with the same defaults given to the decoder; writeIRI_expand through the prefixed, relative and absolute branches, citing C13 and the token theorems; the decoder side is the Turtle statement machine of Model/TurtleDoc.lean). Nested-resource mode: proved for flat resources (resources_doc_roundtrip_partial); the full nested statement ([ ] property lists, ( ) collections, anonymous roots, composition with the C17 export) stays a def and is covered by T3 (bytes) and the encode -> decode isomorphism oracle.",
      "Trusted: Lean kernel; standard axioms at most; T1 extractor (ttl); T3 harnesses c02tok (producers/formatters of both packages) and c02 (encoder bytes, order parameters taken from the real PrefixManager/ResourceListBuilder); the resolver is a parameter constrained to the C12 domain (stableUnder); nested-resource mode beyond flat resources by T3 + oracle.",
      "Lean 4 round-trip theorems for every Turtle token kind over T1-regenerated tables + T3 of producers/formatters + encode/decode isomorphism oracle")
    assemble("C07", [("C07NQ.part", None, None), ("C02T.fragment", r"C07\.", "C07"), ("C05Ttl", r"C07\.", "C07"), ("C08D", r"C07\.", None)],
      "proof (partial)",
      "Proof: N-Triples in N-Quads at document level (nt_sub_nq: a document the N-Triples model accepts is accepted by the N-Quads model with the same statements, all in the default graph; per-step next_nt_quad/next_nt_done; run_congr + gen_decoder_tables_equal transfer it to the two real packages' regenerated tables: nt_sub_nq_real). Table, token and scan-function level for Turtle/TriG: the four packages' PN_CHARS_BASE and HexDecode tables are identical and PN_CHARS_U/PN_CHARS differ exactly by ':' between {ntriples,nquads} and {turtle,trig} (tables_agree, by decide on T1 tables of all four packages; the W3C grammars' own difference is known finding C07-bnode-label-colon); what the N-Triples IRIREF/string scanners accept the Turtle producers read identically; every Turtle scan function except the top-level one is independent of the trig flag (step_flag_independent, ttl_sub_trig_partial). Whole-document inclusion NT in Turtle/TriG and Turtle in TriG is corresponded: the harnesses run the same bytes through all four real decoders (encoder output, grammar-directed documents, all positive W3C N-Triples/Turtle files); one Lean model serves both Turtle and TriG so a drift between the duplicated copies shows as a T3 disagreement of one package.",
      "Trusted: as C05 for the Turtle/TriG model; Turtle in TriG is proved for every printed (grammatical) document (ttl_sub_trig_grammatical_partial) and NT in Turtle/TriG for the N-Triples encoder's own output (nt_encoder_sub_ttl_*); the unrestricted ttl_sub_trig / nt_sub_ttl over all inputs remain defs, covered by the four-decoder oracle.",
      "Lean 4 document-level theorem NT in NQ + table/token/scan-function theorems + four-decoder differential oracle")
    assemble("C08", [("C08D", r"C08\.", None), ("C02T.fragment", r"C08\.", "C08"), ("C05Ttl", r"doc_emits_wf|ttl_doc_total_real", "C05")],
      "proof (partial)",
      "Proof (partial: token level): for every token kind and every lexical choice of the printer Spec/TurtlePrinter.lean (IRIREF raw or \\u/\\U per rune in either hex case; four string styles with raw/ECHAR/UCHAR per rune; prefixed names raw, PN_LOCAL_ESC or PERCENT per rune; numeric and boolean shorthand; language tags; blank node labels) the decoder's producer returns the token's value (decode_print_*). Document level: Spec/TurtleAbstract.lean gives the abstract syntax of Turtle 1.1 / TriG 1.1, its denotation (Turtle section 7) and a printer with every lexical and layout choice; decode_print_partial proves, for every well-formed document with [ ] and ( ) nested to ANY depth, every choice, Turtle and TriG, base present or absent: TtlDoc.run (print doc ch) = denote doc, same statements in the same order, clean verdict (decode_print_real for the regenerated tables). It is named _partial because three exhibited decoder deviations are excluded by hypothesis and listed as known findings (keyword glued to the next token, prefix labels starting with true/false, U+1680 in prefix labels); the unrestricted statement stays a def, refuted by decide witnesses.",
      "Trusted: as C02/C05; the resolver is a parameter compared on a safe fragment (about 5% resolver skips); the printer prints no layout between a string and its @lang/^^datatype.",
      "Lean 4 printer/producer theorems per token kind + T3 of the statement machine against both decoders")
    # C16: N-Triples/N-Quads part (the former hand-written props/C16.json, kept as props/C16NQ.part.json) + part C16X
    # (Turtle/TriG token producers proved, statement layer and whole-document formats by oracle)
    assemble("C16", [("C16NQ.part", None, None), ("C16X", None, None)],
      "proof",
      "N-Triples/N-Quads: machine-checked in full, for all inputs (arbitrary rune/size lists incl. ill-formed bytes), both stream endings, both packages, every initial offset: (1) the run with offset bookkeeping yields exactly the statements and verdict of the base decoder model, capture on or off; (2) after any number of successful Next calls the runes committed to the text writer followed by the unread input are exactly the input (commit discipline), the rune buffer offset is the size of the consumed prefix; (3) with capture on every statement has subject/predicate/object ranges and a graph range iff it has a graph name, each range delimits a segment of the input with the delimiters of the term's token, from/until are initial+bytes, initial line+LFs (every grapheme counter) and the exact line/column under the Simple hypothesis, inside the document with from <= until; (4) reports with initial offset o are the zero-offset reports translated by o; (5) the base decoder re-reads every range segment to the same term; (6) offsets attached to errors lie inside the document (repaired code; the unrepaired code is refuted by a decide witness). Turtle/TriG: machine-checked for the seven token producers of encoding/turtle and encoding/trig (produceIRIREF, produceString, producePNAME_NS, producePrefixedName, produceBlankNode, produceLANGTAG, produceNumericLiteral), all inputs, both endings, both packages, any writer history: erasure (the producer with bookkeeping returns exactly the value, remaining input, error class and panic outcome of Model.TurtleTokens, so capture never changes a token), commit discipline per call (a successful call consumes exactly pre++body and commits exactly those runes, in order, each once), the range delimits exactly the token body with From/Until = initial+bytes / line+LFs / exact position on Simple text, label/tag/numeric lexical form = range text, producer error offsets inside the input (repaired code, patches c16x-1/c16x-2; the unrepaired produceString is refuted by a decide witness); at document level only the PARTIAL corollary doc_capture_irrelevant_producers_partial (the statement machine Model.TurtleDoc over the instrumented producers, any bookkeeping state per call, capture on or off, decodes the same statements and verdict as over the base producers: no token producer's bookkeeping can change what a document decodes to) and the T2 fact writer_is_write_only_T2 (go/ast: the statement layer references its text writer only through the write-only helpers of decoder_offsets_util.go and nil-tests a recorded range only to assign …Location fields). NOT proved, decided by the property oracle of go/cmd/c16x on the implementation (search, labelled as such): the Turtle/TriG STATEMENT layer's own bookkeeping (white space, punctuation and keyword commits between tokens, attachment of ranges to statements, capture on == off for those commits and the initial-offset shift at document level, re-decoding of every subject/predicate/object/graph slice in the prefix/base context in force: Model.TurtleDoc is not instrumented), and EVERYTHING about RDF/JSON, RDF/XML, JSON-LD, RDFa, Microdata, HTML-embedded JSON-LD and the combined HTML decoder, whose positions come from third-party tokenizer wrappers (inspectjson, inspectxml, inspecthtml): oracle only, over the W3C corpora shipped in the repository, grammar-directed documents and (except the HTML family) their byte-level mutations and truncations.",
      "Trusted: Lean kernel; axioms propext/Classical.choice/Quot.sound at most; T1 extractors for the rune tables of the four packages; the T3 harnesses c16 (op nqo.dec: whole N-Triples/N-Quads documents, statements + four ranges + verdict + error offset, capture on/off, initial offsets, both endings) and c16x (op offx.tok: single Turtle/TriG tokens through the add-only hook VerifProduceOffsets) for the hand-written instrumented models, cursorio.TextWriter and RuneBuffer; textseg as a parameter (columns exact only on Simple text); bufio rune decoding; net/url as parameter; the oracle of c16x and its generators for the Turtle/TriG statement layer and for all whole-document formats (the oracle's XML scanner is itself compared with encoding/xml on every RDF/XML document). Whole-document formats: no theorem; RDF/XML and the HTML family carry trait- or class-keyed known findings (third-party attribute location), so for the HTML family C16 is decided only on trait-free documents and byte-level mutations of HTML are not part of the registered tiers.",
      "Lean 4 refinement proofs (instrumented decoder model refines the base decoder model; invariant 'committed runes = consumed prefix'; exact characterisation of every reported range; translation lemma for the initial offset) for the N-Triples/N-Quads decoders at document level and for the Turtle/TriG token producers, about executable models tied by T1 tables and T3 differential correspondence (ops nqo.dec, offx.tok) + independent property oracle on the implementation for every decoder with offset capture (capture on == off, ranges inside and recomputed from the text, shift by the initial offset, slice re-decodes to the same term for NT/NQ/Turtle/TriG, syntactic boundary checks for the whole-document formats, error offsets inside)")
    # C20: base part (the former hand-written props/C20.json, kept as props/C20B.part.json) + C20T (date/time family, builder-time)
    # + C20F (decimal/float/double, builder-xsdfloat) when present
    c20parts = [("C20B.part", None, None), ("C20T", None, None)]
    if os.path.exists(os.path.join(ROOT, "props", "C20F.json")) and load("C20F").get("ready"):
        c20parts.append(("C20F", None, None))
    assemble("C20", c20parts,
      "proof",
      "Machine-checked proof for whiteSpace collapse (= XSD collapse, all strings), the nine integer types and boolean (soundness, completeness on canonical forms of representable values, canonical literal that maps back, TermEquals <=> canonical form), hexBinary/base64Binary (success <=> lexical space) and soundness of decimal/double/float; string/anyURI proved up to the XML Char restriction (counterexample proved). Date/time family (dateTime, date, time, gYear, gYearMonth, gMonth, gDay, gMonthDay, dateTimeStamp): Model.GoTime is an executable model of time.Parse/Time.Format restricted to the layout elements the xsdtype package uses and of the nine Map functions; time_sound_partial proves for all 22 (type, layout) pairs that a successful Map whose parse took none of the four lax branches of time.Parse (one-digit hour, comma fraction separator, signed fraction field, zone beyond +-14:00) implies membership in the XSD lexical space; each lax branch and the fraction-dropped / year-range / 24:00:00 deviations are proved inhabited (decide witnesses = the known findings); TermEquals <=> same datatype and exactly the text AsObjectValue writes. Canonical/idempotent clause of the date/time family, float values and duration: exact T3 agreement of the model + oracle on the implementation.",
      "Trusted: Lean kernel; axioms propext/Classical.choice/Quot.sound at most; the T2 extractor and its shape checks; the T3 harnesses c20, c20t (and c20f) and their generators; strconv float rounding/formatting and regexp as parameters tied by T3; time.Parse/Format modelled by hand (Model.GoTime) and tied by exact T3 agreement on the layouts in use and on random layouts of the same elements; Spec.XsdLexical cross-checked against the standard's regular expressions.",
      "Lean 4 theorems about executable models of xsdtype.Map*/AsObjectValue/TermEquals (incl. a model of time.Parse/Format) parameterised by facts regenerated from the Go source (T2) + exact differential correspondence (T3) + direct property oracle on the implementation with class-keyed known findings")
