/-
  RdfModel.Model.TextWriter — executable model of `cursorio.TextWriter` (third party,
  github.com/dpb587/cursorio-go/cursorio/text_writer.go) as the N-Triples / N-Quads decoders use it:
  `NewTextWriter(initial)`, `WriteRunes`, `WriteRunesForOffset`, `WriteRunesForOffsetRange`, `Clone`,
  `GetTextOffset`.  All of them funnel into `write(p, psize, false)`:

      for len(p) > 0 {
        '\n'            -> line++, column = 0
        '\r' '\n'       -> line++, column = 0
        '\r' (alone)    -> hidden: nothing
        otherwise       -> textseg.ScanGraphemeClusters(p): column++, skip that cluster }
      offset.Byte += psize

  Input of the model: a list of decoded runes `(code point, byte size)` exactly as
  `cursorioutil.RuneBuffer.NextRune` hands them out (`DecodedRune{Rune, Size}`): an ill-formed input
  byte is the pair `(0xFFFD, 1)`, a genuine U+FFFD is `(0xFFFD, 3)`.  The byte offset advances by the
  *sizes* (`psize` is `DecodedRunes.Size`), the line/column logic looks at the code points.

  Grapheme segmentation (`textseg`, Unicode UAX #29) is outside the model: `cols seg` is a parameter,
  "the number of grapheme clusters textseg finds in `seg`", where `seg` is a maximal run of runes
  without CR/LF inside one `write` call (the writer never carries text over between two calls: its
  `buf` field is never assigned).  This uses one fact about textseg: no cluster extends across a CR or
  LF (UAX #29 rules GB4/GB5; in the Ragel grammar every token class excludes CR and LF).
  `onePer` (one cluster per rune) is the instance used for documents satisfying `Simple`.

  Core-only, total, executable.
-/
import RdfModel.Model.Rune
namespace RdfModel.TW
open RdfModel

/-- A decoded rune: (code point, number of input bytes it was decoded from). -/
abbrev RP := Nat × Nat

/-- `DecodedRunes.Size`: total byte size of a rune list. -/
def size : List RP → Nat
  | [] => 0
  | r :: rest => r.2 + size rest

/-- `DecodedRunes.Runes`. -/
def runes (rs : List RP) : List Nat := rs.map Prod.fst

/-- `cursorio.TextOffset`: byte offset, zero-based line, zero-based column (`LineColumn[0]`, `[1]`). -/
structure Offset where
  byte : Nat
  line : Nat
  col : Nat
  deriving Repr, DecidableEq, Inhabited

/-- Column after the pending CR/LF-free segment `seg` (held reversed) has been scanned. -/
def flush (cols : List Nat → Nat) (seg : List Nat) (c : Nat) : Nat :=
  match seg with
  | [] => c
  | _ :: _ => c + cols seg.reverse

/-- Line/column part of `write`: `seg` is the reversed run of runes since the last CR/LF. -/
def lineCol (cols : List Nat → Nat) : List Nat → List RP → Nat → Nat → Nat × Nat
  | seg, [], l, c => (l, flush cols seg c)
  | seg, r :: rest, l, c =>
    if r.1 = 0x0a then lineCol cols [] rest (l + 1) 0                 -- LF, also the LF of CR LF
    else if r.1 = 0x0d then lineCol cols [] rest l (flush cols seg c) -- CR: hidden (CR LF: the LF follows)
    else lineCol cols (r.1 :: seg) rest l c

/-- `TextWriter.write(string(runes), size, false)`. -/
def write (cols : List Nat → Nat) (o : Offset) (rs : List RP) : Offset :=
  let lc := lineCol cols [] rs o.line o.col
  ⟨o.byte + size rs, lc.1, lc.2⟩

/-- One grapheme cluster per rune. -/
def onePer : List Nat → Nat := List.length

/-! ### Documents on which textseg counts one cluster per rune

`Simple`: every rune is TAB, LF, CR, printable ASCII, U+00A0–U+02FF (Latin-1 punctuation and letters,
Latin Extended, IPA, spacing modifiers), a CJK unified ideograph U+4E00–U+9FFF, U+FFFD (also what an
ill-formed byte decodes to), Linear B U+10000–U+100FF or an emoticon U+1F600–U+1F64F.  None of these
has the grapheme-break property Extend, SpacingMark, ZWJ, Prepend, Regional_Indicator or a Hangul
jamo class, so under UAX #29 each forms a cluster of its own next to any other rune of the set
(checked against textseg for every document the harness generates; the set was chosen from an
exhaustive scan of textseg over all scalar values). -/

def simpleRune (c : Nat) : Bool :=
  c = 0x09 || c = 0x0a || c = 0x0d || (0x20 ≤ c && c ≤ 0x7e) || (0xa0 ≤ c && c ≤ 0x2ff) ||
  (0x4e00 ≤ c && c ≤ 0x9fff) || c = 0xfffd || (0x10000 ≤ c && c ≤ 0x100ff) ||
  (0x1f600 ≤ c && c ≤ 0x1f64f)

def simple (rs : List Nat) : Bool := rs.all simpleRune

/-- The assumption on the cluster counter under which columns are exact: on simple text it counts
    one cluster per rune. `onePer` satisfies it outright (`onePer_simple`). -/
def ColsSimple (cols : List Nat → Nat) : Prop :=
  ∀ seg : List Nat, simple seg = true → cols seg = seg.length

theorem onePer_simple : ColsSimple onePer := fun _ _ => rfl

/-! ### Position of a text, stated directly (specification side)

`posAfter init text`: the offset of the point just after `text` when `text` starts at `init`:
bytes add up; every LF starts a new line; the column is the number of visible runes (neither CR nor
LF) since the last LF, counted from `init.col` while still on the first line. -/

def countLF : List RP → Nat
  | [] => 0
  | r :: rest => (if r.1 = 0x0a then 1 else 0) + countLF rest

/-- Visible runes after the last LF (`acc` counts them; reset at every LF). -/
def colAfter : List RP → Nat → Nat
  | [], acc => acc
  | r :: rest, acc =>
    if r.1 = 0x0a then colAfter rest 0
    else if r.1 = 0x0d then colAfter rest acc
    else colAfter rest (acc + 1)

def posAfter (init : Offset) (text : List RP) : Offset :=
  ⟨init.byte + size text, init.line + countLF text, colAfter text init.col⟩

/-! ### Shifting by an initial offset

A run that starts at `o` instead of `⟨0,0,0⟩`: bytes and lines are translated; the column is
translated only while still on the first line (`line = 0` in the unshifted run), because every LF
resets the column to 0 whatever the initial column was. -/

def shift (o p : Offset) : Offset :=
  ⟨o.byte + p.byte, o.line + p.line, if p.line = 0 then o.col + p.col else p.col⟩

def zero : Offset := ⟨0, 0, 0⟩

end RdfModel.TW
