// Command c14: correspondence (T3) between Model.BlankNodes and rdf/blank_node*.go, rdf/blanknodes,
// rdfio/rdfiotypes.PropagateDecoderPipeBlankNodeStringProvider, plus the direct oracle of property C14
// on the implementation (sequential histories) and a concurrent support run (goroutines on shared
// objects; uniqueness / stability / injectivity / linearisability of the observed results).
package main

import (
	"encoding/json"
	"flag"
	"fmt"
	"os"
	"os/exec"
	"regexp"
	"runtime"
	"sort"
	"strconv"
	"strings"
	"sync"
	"sync/atomic"

	"verifharness/vh"

	"github.com/dpb587/rdfkit-go/rdf"
	"github.com/dpb587/rdfkit-go/rdf/blanknodes"
	"github.com/dpb587/rdfkit-go/rdfio/rdfiotypes"
)

var (
	tier     = flag.String("tier", "quick", "quick|thorough")
	driver   = flag.String("driver", "/verif/lean/.lake/build/bin/driver", "lean driver binary")
	out      = flag.String("out", "/verif/evidence/.c14.report.json", "report path")
	findings = flag.String("findings", "/verif/known-findings.json", "known findings")
	replay   = flag.String("replay", "", "replay file (one protocol line per line)")
	scale    = flag.Int("scale", 1, "multiply generated case counts (search mode uses 10)")
	nomodel  = flag.Bool("nomodel", false, "property oracle on the implementation only (search mode / driver unavailable)")
	hints    = flag.String("hints", "", "file of protocol lines that disagreed; their histories are pushed through the oracle first")
)

// ---------------------------------------------------------------- executing one history on the implementation

type kind int

const (
	kBad    kind = iota
	kFac         // rdf.BlankNodeFactory that is not a string factory
	kStrFac      // blanknodes.StringFactory
	kNode
	kProv
	kNoProv
	kMap
	kLabel
	kBool
)

// provDesc: what the harness knows about a provider value (oracle bookkeeping, independent of the Lean model)
type provDesc struct {
	leaf      int   // identity of the int64/uuid provider at the bottom
	scopes    []int // string-factory identities of the pass-through wrappers, outermost first
	propagate bool  // the leaf is the fallback PropagateDecoderPipeBlankNodeStringProvider installs (default configuration)
}

type hres struct {
	kind   kind
	fac    rdf.BlankNodeFactory
	facID  int
	prov   blanknodes.StringProvider
	pd     *provDesc
	mapper blanknodes.Mapper
	mapID  int
	node   rdf.BlankNode
	abs    string // abstract identity the property predicts for a node result
	label  string
	b      bool
}

type violation struct {
	class  string // machine-checkable class (known-finding predicate) or ""
	detail string
}

type glCall struct {
	op       int
	provIdx  int // result index of the provider value used
	pd       *provDesc
	nodeAbs  string
	label    string
	ownScope int    // >= 0: intercepted by the wrapper of that string factory
	ownLabel string // the node's own label when intercepted
}

var uuidRe = regexp.MustCompile(`[0-9a-f]{8}-[0-9a-f]{4}-[0-9a-f]{4}-[0-9a-f]{4}-[0-9a-f]{12}`)

var uuidFull = regexp.MustCompile(`^[0-9a-f]{8}-[0-9a-f]{4}-[0-9a-f]{4}-[0-9a-f]{4}-[0-9a-f]{12}$`)

const zeroUUID = "00000000-0000-0000-0000-000000000000"

type history struct {
	res        []hres
	outs       []string // canonical result tokens
	viol       []violation
	excluded   []string // pass-through collisions excluded by the hypothesis of passthrough_injective_partial
	reps       []rdf.BlankNode
	uuidIdx    map[string]int
	nFac, nLf  int
	mapMemo    map[string]string
	nAbs       int
	gl         []glCall
	strLabel   map[string]string // abs of a string node -> its label
	strScope   map[string]int    // abs of a string node -> its factory identity
	nilHandleT bool
}

func (h *history) canonLabel(s string) string {
	return uuidRe.ReplaceAllStringFunc(s, func(u string) string {
		k, ok := h.uuidIdx[u]
		if !ok {
			k = len(h.uuidIdx)
			h.uuidIdx[u] = k
		}
		return fmt.Sprintf("<U%d>", k)
	})
}

func (h *history) newAbs(prefix string) string {
	h.nAbs++
	return fmt.Sprintf("%s%d", prefix, h.nAbs)
}

func (h *history) classOf(n rdf.BlankNode) int {
	for k, r := range h.reps {
		if r.TermEquals(n) {
			return k
		}
	}
	h.reps = append(h.reps, n)
	return len(h.reps) - 1
}

type argT struct {
	kind string // "r", "nil", "d"
	k    int
}

func parseArg(s string) (argT, error) {
	switch {
	case s == "nil":
		return argT{kind: "nil"}, nil
	case s == "d":
		return argT{kind: "d"}, nil
	case strings.HasPrefix(s, "r"):
		k, err := strconv.Atoi(s[1:])
		return argT{kind: "r", k: k}, err
	}
	return argT{}, fmt.Errorf("bad argument %q", s)
}

func (h *history) factoryArg(a argT) (rdf.BlankNodeFactory, int, bool) {
	switch a.kind {
	case "d":
		return rdf.DefaultBlankNodeFactory, -1, true
	case "r":
		if a.k < len(h.res) && (h.res[a.k].kind == kFac || h.res[a.k].kind == kStrFac) {
			return h.res[a.k].fac, h.res[a.k].facID, true
		}
	}
	return nil, 0, false
}

func (h *history) nodeArg(a argT) (rdf.BlankNode, string, bool) {
	switch a.kind {
	case "nil":
		return rdf.BlankNode{}, "nil", true
	case "r":
		if a.k < len(h.res) && h.res[a.k].kind == kNode {
			return h.res[a.k].node, h.res[a.k].abs, true
		}
	}
	return rdf.BlankNode{}, "", false
}

// exec runs one history (operation tokens as in Driver/BlankNodes.lean) on the real packages.
func execHistory(toks []string) (h *history, err error) {
	h = &history{uuidIdx: map[string]int{}, mapMemo: map[string]string{}, strLabel: map[string]string{}, strScope: map[string]int{}}
	defer func() {
		if p := recover(); p != nil {
			h.viol = append(h.viol, violation{"", fmt.Sprintf("panic: %v", p)})
			err = nil
		}
	}()
	bad := func(t string) (*history, error) { return h, fmt.Errorf("ill-typed operation %q at %d", t, len(h.res)) }
	for _, t := range toks {
		f := strings.Split(t, ":")
		var r hres
		switch {
		case t == "NF":
			h.nFac++
			r = hres{kind: kFac, fac: rdf.NewBlankNodeFactory(), facID: h.nFac}
		case t == "NSF":
			h.nFac++
			r = hres{kind: kStrFac, fac: blanknodes.NewStringFactory(), facID: h.nFac}
		case f[0] == "NB" && len(f) == 2:
			a, e := parseArg(f[1])
			fac, _, ok := h.factoryArg(a)
			if e != nil || !ok {
				return bad(t)
			}
			r = hres{kind: kNode, node: fac.NewBlankNode(), abs: h.newAbs("f")}
		case f[0] == "NS" && len(f) == 3:
			a, e := parseArg(f[1])
			if e != nil || a.kind != "r" || a.k >= len(h.res) || h.res[a.k].kind != kStrFac {
				return bad(t)
			}
			var label string
			if strings.HasPrefix(f[2], "@r") {
				k, e := strconv.Atoi(f[2][2:])
				if e != nil || k >= len(h.res) || h.res[k].kind != kLabel {
					return bad(t)
				}
				label = h.res[k].label
			} else {
				b, e := vh.UnX(f[2])
				if e != nil {
					return bad(t)
				}
				label = string(b)
			}
			n := h.res[a.k].fac.(blanknodes.StringFactory).NewStringBlankNode(label)
			if label == "" {
				r = hres{kind: kNode, node: n, abs: h.newAbs("f")}
			} else {
				abs := fmt.Sprintf("s%d:%s", h.res[a.k].facID, label)
				h.strLabel[abs] = label
				h.strScope[abs] = h.res[a.k].facID
				r = hres{kind: kNode, node: n, abs: abs}
			}
		case (f[0] == "NI" || f[0] == "NU") && len(f) == 2:
			b, e := vh.UnX(f[1])
			if e != nil {
				return bad(t)
			}
			h.nLf++
			if f[0] == "NI" {
				r = hres{kind: kProv, prov: blanknodes.NewInt64StringProvider(string(b)), pd: &provDesc{leaf: h.nLf}}
			} else {
				r = hres{kind: kProv, prov: blanknodes.NewUUIDStringProvider(string(b), nil), pd: &provDesc{leaf: h.nLf}}
			}
		case f[0] == "GSP" && len(f) == 3:
			a, e1 := parseArg(f[1])
			b, e2 := parseArg(f[2])
			if e1 != nil || e2 != nil || a.kind != "r" || b.kind != "r" || a.k >= len(h.res) || b.k >= len(h.res) ||
				h.res[a.k].kind != kStrFac || h.res[b.k].kind != kProv {
				return bad(t)
			}
			spp, ok := h.res[a.k].fac.(blanknodes.StringProviderProvider)
			if !ok {
				h.viol = append(h.viol, violation{"", "string factory is not a StringProviderProvider"})
				return h, nil
			}
			inner := h.res[b.k].pd
			r = hres{kind: kProv, prov: spp.GetStringProvider(h.res[b.k].prov),
				pd: &provDesc{leaf: inner.leaf, scopes: append([]int{h.res[a.k].facID}, inner.scopes...), propagate: inner.propagate}}
		case f[0] == "GL" && len(f) == 3:
			a, e1 := parseArg(f[1])
			b, e2 := parseArg(f[2])
			if e1 != nil || e2 != nil || a.kind != "r" || a.k >= len(h.res) || h.res[a.k].kind != kProv {
				return bad(t)
			}
			n, abs, ok := h.nodeArg(b)
			if !ok {
				return bad(t)
			}
			l := h.res[a.k].prov.GetBlankNodeString(n)
			r = hres{kind: kLabel, label: l}
			c := glCall{op: len(h.res), provIdx: a.k, pd: h.res[a.k].pd, nodeAbs: abs, label: l, ownScope: -1}
			if sc, isStr := h.strScope[abs]; isStr {
				for _, s := range c.pd.scopes {
					if s == sc {
						c.ownScope, c.ownLabel = sc, h.strLabel[abs]
						break
					}
				}
			}
			h.gl = append(h.gl, c)
		case f[0] == "NM" && len(f) == 2:
			a, e := parseArg(f[1])
			if e != nil {
				return bad(t)
			}
			var fac rdf.BlankNodeFactory
			if a.kind != "nil" {
				var ok bool
				if fac, _, ok = h.factoryArg(a); !ok {
					return bad(t)
				}
			}
			r = hres{kind: kMap, mapper: blanknodes.NewFactoryMapper(fac), mapID: len(h.res)}
		case f[0] == "MN" && len(f) == 3:
			a, e1 := parseArg(f[1])
			b, e2 := parseArg(f[2])
			if e1 != nil || e2 != nil || a.kind != "r" || a.k >= len(h.res) || h.res[a.k].kind != kMap {
				return bad(t)
			}
			n, abs, ok := h.nodeArg(b)
			if !ok {
				return bad(t)
			}
			key := fmt.Sprintf("%d|%s", h.res[a.k].mapID, abs)
			mabs, seen := h.mapMemo[key]
			if !seen {
				mabs = h.newAbs("m")
				h.mapMemo[key] = mabs
			}
			r = hres{kind: kNode, node: h.res[a.k].mapper.MapBlankNode(n), abs: mabs}
		case f[0] == "PR" && len(f) == 2:
			a, e := parseArg(f[1])
			if e != nil {
				return bad(t)
			}
			var p blanknodes.StringProvider
			if a.kind == "nil" {
				// both ways of having no decoder factory: nil handle, handle without factory
				h.nilHandleT = !h.nilHandleT
				if h.nilHandleT {
					p = rdfiotypes.PropagateDecoderPipeBlankNodeStringProvider(nil)
				} else {
					p = rdfiotypes.PropagateDecoderPipeBlankNodeStringProvider(&rdfiotypes.DecoderHandle{})
				}
			} else {
				fac, facID, ok := h.factoryArg(a)
				if !ok {
					return bad(t)
				}
				p = rdfiotypes.PropagateDecoderPipeBlankNodeStringProvider(&rdfiotypes.DecoderHandle{DecoderBlankNodes: fac})
				if p != nil {
					h.nLf++
					r = hres{kind: kProv, prov: p, pd: &provDesc{leaf: h.nLf, scopes: []int{facID}, propagate: true}}
				}
			}
			if p == nil {
				r = hres{kind: kNoProv}
			}
		case f[0] == "EQ" && len(f) == 3:
			a, e1 := parseArg(f[1])
			b, e2 := parseArg(f[2])
			if e1 != nil || e2 != nil {
				return bad(t)
			}
			x, xa, ok1 := h.nodeArg(a)
			y, ya, ok2 := h.nodeArg(b)
			if !ok1 || !ok2 {
				return bad(t)
			}
			r = hres{kind: kBool, b: x.TermEquals(y)}
			if want := xa != "nil" && xa == ya; r.b != want {
				h.viol = append(h.viol, violation{"", fmt.Sprintf("op %d %s: TermEquals = %v, expected %v (identities %s, %s)", len(h.res), t, r.b, want, xa, ya)})
			}
		default:
			return bad(t)
		}
		h.res = append(h.res, r)
		switch r.kind {
		case kFac, kStrFac:
			h.outs = append(h.outs, "fac")
		case kProv:
			h.outs = append(h.outs, "prov")
		case kNoProv:
			h.outs = append(h.outs, "noprov")
		case kMap:
			h.outs = append(h.outs, "map")
		case kNode:
			h.outs = append(h.outs, fmt.Sprintf("n%d", h.classOf(r.node)))
		case kLabel:
			h.outs = append(h.outs, vh.XS(h.canonLabel(r.label)))
		case kBool:
			h.outs = append(h.outs, strconv.FormatBool(r.b))
		}
	}
	h.oracle(toks)
	return h, nil
}

// oracle: property C14 evaluated on what the implementation returned.
func (h *history) oracle(toks []string) {
	add := func(class, format string, a ...any) {
		h.viol = append(h.viol, violation{class, fmt.Sprintf(format, a...)})
	}
	// nodes: TermEquals must be exactly "same predicted identity" (fresh nodes unique, string nodes equal iff
	// same factory and same non-empty label, factories disjoint, mapper a function, injective, fresh)
	var nodes []int
	for i, r := range h.res {
		if r.kind == kNode {
			nodes = append(nodes, i)
		}
	}
	for x, i := range nodes {
		if !h.res[i].node.TermEquals(h.res[i].node) {
			add("", "op %d %s: node does not equal itself", i, toks[i])
		}
		if h.res[i].node.Identifier == nil {
			add("", "op %d %s: node without identifier", i, toks[i])
		}
		for _, j := range nodes[x+1:] {
			want := h.res[i].abs == h.res[j].abs
			if got := h.res[i].node.TermEquals(h.res[j].node); got != want {
				add("", "ops %d %s / %d %s: TermEquals = %v, expected %v (identities %s, %s)", i, toks[i], j, toks[j], got, want, h.res[i].abs, h.res[j].abs)
			}
			if got := h.res[j].node.TermEquals(h.res[i].node); got != want {
				add("", "ops %d %s / %d %s: TermEquals = %v, expected %v (identities %s, %s)", j, toks[j], i, toks[i], got, want, h.res[j].abs, h.res[i].abs)
			}
		}
	}
	// providers
	type lk struct {
		leaf int
		abs  string
	}
	byLeafNode := map[lk]glCall{}      // label fixed by a leaf for a node (calls that reached the leaf)
	byLeafLabel := map[string]glCall{} // leaf|label -> first call
	byProvNode := map[string]glCall{}  // provider value | node -> first call
	byProvLabel := map[string]glCall{} // provider value | label -> first call
	class := func(c, d glCall) string {
		if strings.Contains(c.label, zeroUUID) || strings.Contains(d.label, zeroUUID) {
			return "uuid-first-call-zero"
		}
		return ""
	}
	for _, c := range h.gl {
		if c.ownScope < 0 && c.pd.propagate && (!uuidFull.MatchString(c.label) || c.label == zeroUUID) {
			cl := ""
			if c.label == zeroUUID {
				cl = "uuid-first-call-zero"
			}
			add(cl, "op %d %s: the provider installed by PropagateDecoderPipeBlankNodeStringProvider labelled a node that is not a string node of the decoding factory %q, which is not a UUID (default fallback must not produce labels a document can contain)", c.op, toks[c.op], c.label)
		}
		if c.ownScope >= 0 {
			if c.label != c.ownLabel {
				add("", "op %d %s: pass-through provider returned %q for a string node labelled %q of its own factory", c.op, toks[c.op], c.label, c.ownLabel)
			}
		} else {
			k := lk{c.pd.leaf, c.nodeAbs}
			if p, ok := byLeafNode[k]; ok {
				if p.label != c.label {
					add(class(p, c), "ops %d %s / %d %s: same node, labels %q then %q (label not stable)", p.op, toks[p.op], c.op, toks[c.op], p.label, c.label)
				}
			} else {
				byLeafNode[k] = c
			}
			lkey := fmt.Sprintf("%d|%s", c.pd.leaf, c.label)
			if p, ok := byLeafLabel[lkey]; ok && p.nodeAbs != c.nodeAbs {
				add(class(p, c), "ops %d %s / %d %s: different nodes (%s, %s), same label %q", p.op, toks[p.op], c.op, toks[c.op], p.nodeAbs, c.nodeAbs, c.label)
			} else if !ok {
				byLeafLabel[lkey] = c
			}
		}
		pk := fmt.Sprintf("%d|%s", c.provIdx, c.nodeAbs)
		if p, ok := byProvNode[pk]; ok {
			if p.label != c.label && c.ownScope >= 0 {
				add("", "ops %d / %d: pass-through label not stable: %q then %q", p.op, c.op, p.label, c.label)
			}
		} else {
			byProvNode[pk] = c
		}
		plk := fmt.Sprintf("%d|%s", c.provIdx, c.label)
		if p, ok := byProvLabel[plk]; ok && p.nodeAbs != c.nodeAbs {
			if (p.ownScope >= 0) != (c.ownScope >= 0) {
				// hypothesis of passthrough_injective_partial fails: a user-chosen label equals a generated one.
				// Excused (known finding) only when the fallback was constructed explicitly by the caller
				// (GetStringProvider over NewInt64StringProvider/NewUUIDStringProvider) or the user-chosen label is
				// the text of a UUID; with the default propagate fallback any other collision is a violation.
				msg := fmt.Sprintf("ops %d %s / %d %s: different nodes (%s, %s): string node label %q equals a label of the fallback provider", p.op, toks[p.op], c.op, toks[c.op], p.nodeAbs, c.nodeAbs, c.label)
				if !c.pd.propagate || uuidFull.MatchString(c.label) {
					h.excluded = append(h.excluded, msg)
				} else {
					add("", "%s — with the default fallback of PropagateDecoderPipeBlankNodeStringProvider two source blank nodes must never share a label", msg)
				}
			} else if p.ownScope >= 0 && c.ownScope >= 0 && p.ownScope != c.ownScope {
				h.excluded = append(h.excluded, fmt.Sprintf("ops %d / %d: chained pass-through providers, two factories use label %q", p.op, c.op, c.label))
			}
			// the remaining case (both from the leaf) is reported by the leaf check above
		} else if !ok {
			byProvLabel[plk] = c
		}
	}
}

// ---------------------------------------------------------------- generator of well-typed histories

type gen struct {
	r *vh.Rng
}

var int64Formats = []string{"", "b%d", "x%dy", "%d", "n%v", "_%d_", "é%d", "c14n%d"}
var uuidFormats = []string{"", "%s", "u%s", "%v-x"}
var fixedLabels = []string{"", "a", "b0", "b1", "x", "0", "x0y", "n2", "b", "u", "é1", "c14n0", "_1_",
	// near-collisions: must all be different labels
	"_:", "_:x", "_:_:x", "_:b0", "_:a", ":x", "_x", "x ", " x", "x\t", "X", "B0", "A", "b00", "b 0",
	"\u00e9", "e\u0301", "\u00c9", "x\x00", "x\n", "b0\x00"}

// variant: a label that differs from l only slightly (prefix "_:", white space, case, Unicode normal form)
func variant(r *vh.Rng, l string) string {
	switch r.Intn(10) {
	case 0:
		return "_:" + l
	case 1:
		return strings.TrimPrefix(l, "_:")
	case 2:
		return l + " "
	case 3:
		return " " + l
	case 4:
		return strings.ToUpper(l)
	case 5:
		return strings.ToLower(l)
	case 6:
		return strings.ReplaceAll(l, "\u00e9", "e\u0301")
	case 7:
		return strings.TrimSpace(l)
	case 8:
		return l + "\x00"
	default:
		return l + l
	}
}

func (g *gen) history() []string {
	n := 4 + g.r.Intn(28)
	if g.r.Chance(5) {
		n = 40 + g.r.Intn(40)
	}
	var toks []string
	var kinds []kind
	var used []string // literal labels used so far in this history
	pick := func(ks ...kind) (int, bool) {
		var c []int
		for i, k := range kinds {
			for _, w := range ks {
				if k == w {
					c = append(c, i)
				}
			}
		}
		if len(c) == 0 {
			return 0, false
		}
		// prefer recent results a little
		if g.r.Chance(40) {
			return c[len(c)-1-g.r.Intn(min(3, len(c)))], true
		}
		return c[g.r.Intn(len(c))], true
	}
	nodeArg := func() string {
		if i, ok := pick(kNode); ok && !g.r.Chance(4) {
			return fmt.Sprintf("r%d", i)
		}
		return "nil"
	}
	facArg := func(allowNil bool) string {
		x := g.r.Intn(10)
		if allowNil && x == 0 {
			return "nil"
		}
		if x <= 2 {
			return "d"
		}
		if i, ok := pick(kFac, kStrFac); ok {
			return fmt.Sprintf("r%d", i)
		}
		return "d"
	}
	emit := func(t string, k kind) {
		toks = append(toks, t)
		kinds = append(kinds, k)
	}
	for len(toks) < n {
		switch w := g.r.Intn(100); {
		case w < 4:
			emit("NF", kFac)
		case w < 10:
			emit("NSF", kStrFac)
		case w < 24:
			emit("NB:"+facArg(false), kNode)
		case w < 38:
			i, ok := pick(kStrFac)
			if !ok {
				emit("NSF", kStrFac)
				continue
			}
			if j, ok := pick(kLabel); ok && g.r.Chance(25) {
				emit(fmt.Sprintf("NS:r%d:@r%d", i, j), kNode)
			} else {
				var l string
				switch {
				case len(used) > 0 && g.r.Chance(25):
					l = variant(g.r, vh.Pick(g.r, used))
				case g.r.Chance(15):
					l = g.r.LexicalForm()
				default:
					l = vh.Pick(g.r, fixedLabels)
				}
				used = append(used, l)
				emit(fmt.Sprintf("NS:r%d:%s", i, vh.XS(l)), kNode)
			}
		case w < 42:
			emit("NI:"+vh.XS(vh.Pick(g.r, int64Formats)), kProv)
		case w < 45:
			emit("NU:"+vh.XS(vh.Pick(g.r, uuidFormats)), kProv)
		case w < 49:
			i, ok1 := pick(kStrFac)
			j, ok2 := pick(kProv)
			if !ok1 || !ok2 {
				emit("NI:"+vh.XS(vh.Pick(g.r, int64Formats)), kProv)
				continue
			}
			emit(fmt.Sprintf("GSP:r%d:r%d", i, j), kProv)
		case w < 71:
			i, ok := pick(kProv)
			if !ok {
				emit("NI:"+vh.XS(vh.Pick(g.r, int64Formats)), kProv)
				continue
			}
			emit(fmt.Sprintf("GL:r%d:%s", i, nodeArg()), kLabel)
		case w < 75:
			emit("NM:"+facArg(true), kMap)
		case w < 87:
			i, ok := pick(kMap)
			if !ok {
				emit("NM:"+facArg(true), kMap)
				continue
			}
			emit(fmt.Sprintf("MN:r%d:%s", i, nodeArg()), kNode)
		case w < 91:
			a := facArg(true)
			k := kNoProv
			if strings.HasPrefix(a, "r") {
				if i, _ := strconv.Atoi(a[1:]); kinds[i] == kStrFac {
					k = kProv
				}
			}
			emit("PR:"+a, k)
		default:
			emit("EQ:"+nodeArg()+":"+nodeArg(), kBool)
		}
	}
	return toks
}

// exhaustive: every sequence of `depth` operations over a fixed alphabet after a fixed prelude.
func exhaustive(depth int, each func([]string)) int {
	prelude := []string{"NF", "NSF", "NSF", "NI:x", "PR:r1", "NM:r0", "GSP:r1:r3", "NB:r0", "NS:r1:x6230"}
	// r0 bnF, r1 r2 string factories, r3 int64 "b%d", r4 pass(r1, uuid), r5 mapper over r0, r6 pass(r1, int64 r3), r7 node, r8 string node "b0"
	p := len(prelude)
	count := 0
	var rec func(seq []string)
	rec = func(seq []string) {
		if len(seq) == depth {
			each(append(append([]string{}, prelude...), seq...))
			count++
			return
		}
		last := p + len(seq) - 1 // most recent result
		alphabet := []string{"NB:r0", "NB:d", "NB:r1", "NS:r1:x", "NS:r1:x6230", "NS:r2:x6230", "NS:r1:x6231",
			"NS:r1:x5f3a6230", "NS:r1:x5f3a", "NS:r1:x4230", "NS:r1:x623020", // "_:b0", "_:", "B0", "b0 "

			"GL:r3:r7", "GL:r6:r7", "GL:r6:r8", "GL:r4:r8", "GL:r4:r7", "MN:r5:r7", "MN:r5:r8", "EQ:r7:r8"}
		if len(seq) > 0 {
			// operations on the most recent result when it is a node / label
			alphabet = append(alphabet, fmt.Sprintf("?N:GL:r6:r%d", last), fmt.Sprintf("?N:MN:r5:r%d", last),
				fmt.Sprintf("?N:EQ:r%d:r8", last), fmt.Sprintf("?L:NS:r1:@r%d", last))
		}
		for _, a := range alphabet {
			if strings.HasPrefix(a, "?") {
				prev := seq[len(seq)-1]
				isNode := strings.HasPrefix(prev, "NB") || strings.HasPrefix(prev, "NS") || strings.HasPrefix(prev, "MN")
				isLabel := strings.HasPrefix(prev, "GL")
				if (a[1] == 'N' && !isNode) || (a[1] == 'L' && !isLabel) {
					continue
				}
				a = a[3:]
			}
			rec(append(seq, a))
		}
	}
	rec(nil)
	return count
}

// ---------------------------------------------------------------- concurrent support run

type cevent struct {
	op         string
	node       rdf.BlankNode // argument
	nodeKey    int           // index into the shared pool, or -1
	res        rdf.BlankNode
	label      string
	call, retn int64
}

type stressStats struct {
	Runs, Ops  int
	Violations []string
}

func stressRun(r *vh.Rng, goroutines, opsPer int, st *stressStats) {
	f := rdf.NewBlankNodeFactory()
	sf := blanknodes.NewStringFactory()
	p := blanknodes.NewInt64StringProvider("b%d")
	q := blanknodes.NewUUIDStringProvider("", nil)
	mf := rdf.NewBlankNodeFactory()
	m := blanknodes.NewFactoryMapper(mf)
	md := blanknodes.NewFactoryMapper(nil)
	pp := sf.(blanknodes.StringProviderProvider).GetStringProvider(blanknodes.NewInt64StringProvider("?%d"))
	pool := make([]rdf.BlankNode, 6+r.Intn(20))
	for i := range pool {
		switch i % 4 {
		case 0:
			pool[i] = f.NewBlankNode()
		case 1:
			pool[i] = rdf.NewBlankNode()
		case 2:
			pool[i] = sf.NewStringBlankNode(fmt.Sprintf("s%d", i))
		default:
			pool[i] = sf.NewBlankNode()
		}
	}
	var clock atomic.Int64
	useClock := r.Chance(70) // some runs without the shared clock (it synchronises the goroutines a little)
	events := make([][]cevent, goroutines)
	seeds := make([]uint64, goroutines)
	for i := range seeds {
		seeds[i] = r.U64()
	}
	var wg sync.WaitGroup
	start := make(chan struct{})
	for gi := 0; gi < goroutines; gi++ {
		wg.Add(1)
		go func(gi int) {
			defer wg.Done()
			rr := vh.NewRng(seeds[gi])
			ev := make([]cevent, 0, opsPer)
			<-start
			for k := 0; k < opsPer; k++ {
				var e cevent
				e.nodeKey = -1
				w := rr.Intn(100)
				if w >= 30 {
					e.nodeKey = rr.Intn(len(pool))
					e.node = pool[e.nodeKey]
				}
				if useClock {
					e.call = clock.Add(1)
				}
				switch {
				case w < 10:
					e.op, e.res = "F.New", f.NewBlankNode()
				case w < 18:
					e.op, e.res = "D.New", rdf.NewBlankNode()
				case w < 24:
					e.op, e.res = "SF.New", sf.NewBlankNode()
				case w < 30:
					e.op, e.res = "SF.Str", sf.NewStringBlankNode("")
				case w < 55:
					e.op, e.label = "P.Get", p.GetBlankNodeString(e.node)
				case w < 65:
					e.op, e.label = "Q.Get", q.GetBlankNodeString(e.node)
				case w < 80:
					e.op, e.res = "M.Map", m.MapBlankNode(e.node)
				case w < 88:
					e.op, e.res = "MD.Map", md.MapBlankNode(e.node)
				default:
					e.op, e.label = "PP.Get", pp.GetBlankNodeString(e.node)
				}
				if useClock {
					e.retn = clock.Add(1)
				}
				ev = append(ev, e)
			}
			events[gi] = ev
		}(gi)
	}
	close(start)
	wg.Wait()
	st.Runs++
	bad := func(format string, a ...any) {
		if len(st.Violations) < 20 {
			st.Violations = append(st.Violations, fmt.Sprintf("concurrent run (%d goroutines x %d ops): ", goroutines, opsPer)+fmt.Sprintf(format, a...))
		}
	}
	// 1. fresh nodes: pairwise different, also from the pool and from mapper results of other inputs
	var fresh []rdf.BlankNode
	seen := map[rdf.BlankNodeIdentifier]string{}
	for i, n := range pool {
		if n.Identifier != nil {
			if i%4 != 2 {
				seen[n.Identifier] = fmt.Sprintf("pool[%d]", i)
			}
		}
	}
	type mapKey struct {
		mapper string
		key    int
	}
	mapped := map[mapKey]rdf.BlankNode{}
	labels := map[string]map[int]string{"P.Get": {}, "Q.Get": {}, "PP.Get": {}}
	type iv struct{ minCall, minRet int64 }
	pIv := map[int]*iv{}
	for gi, ev := range events {
		st.Ops += len(ev)
		for k, e := range ev {
			where := fmt.Sprintf("g%d#%d %s", gi, k, e.op)
			switch e.op {
			case "F.New", "D.New", "SF.New", "SF.Str":
				if e.res.Identifier == nil {
					bad("%s returned a node without identifier", where)
					continue
				}
				if prev, dup := seen[e.res.Identifier]; dup {
					bad("%s returned the same node as %s", where, prev)
				}
				seen[e.res.Identifier] = where
				fresh = append(fresh, e.res)
			case "M.Map", "MD.Map":
				mk := mapKey{e.op, e.nodeKey}
				if prev, ok := mapped[mk]; ok {
					if !prev.TermEquals(e.res) || !e.res.TermEquals(prev) {
						bad("%s: node pool[%d] mapped to two different nodes", where, e.nodeKey)
					}
				} else {
					mapped[mk] = e.res
				}
			case "P.Get", "Q.Get", "PP.Get":
				if prev, ok := labels[e.op][e.nodeKey]; ok {
					if prev != e.label {
						bad("%s: node pool[%d] labelled %q and %q", where, e.nodeKey, prev, e.label)
					}
				} else {
					labels[e.op][e.nodeKey] = e.label
				}
				if e.op == "P.Get" && useClock {
					x := pIv[e.nodeKey]
					if x == nil {
						pIv[e.nodeKey] = &iv{e.call, e.retn}
					} else {
						x.minCall, x.minRet = min(x.minCall, e.call), min(x.minRet, e.retn)
					}
				}
			}
		}
	}
	// mapper: injective, results different from every directly obtained node
	for _, mp := range []string{"M.Map", "MD.Map"} {
		inv := map[rdf.BlankNodeIdentifier]int{}
		for mk, n := range mapped {
			if mk.mapper != mp {
				continue
			}
			if n.Identifier == nil {
				bad("%s returned a node without identifier", mp)
				continue
			}
			if k2, dup := inv[n.Identifier]; dup {
				bad("%s: pool[%d] and pool[%d] mapped to the same node", mp, mk.key, k2)
			}
			inv[n.Identifier] = mk.key
			if prev, dup := seen[n.Identifier]; dup {
				bad("%s: result for pool[%d] equals the node %s", mp, mk.key, prev)
			}
		}
		for id := range inv {
			seen[id] = mp
		}
	}
	// sampled TermEquals cross-check of the map-based uniqueness (== on identifiers vs EqualsBlankNodeIdentifier)
	for s := 0; s < 2000 && len(fresh) > 1; s++ {
		i, j := r.Intn(len(fresh)), r.Intn(len(fresh))
		if i != j && (fresh[i].TermEquals(fresh[j]) || !fresh[i].TermEquals(fresh[i])) {
			bad("fresh nodes %d and %d: TermEquals inconsistent with identity", i, j)
		}
	}
	// providers: injective; int64 indices are exactly 0..k-1; order of index assignment is consistent with real time
	for opn, ls := range labels {
		inv := map[string]int{}
		for k, l := range ls {
			if k2, dup := inv[l]; dup {
				bad("%s: pool[%d] and pool[%d] share the label %q", opn, k, k2, l)
			}
			inv[l] = k
			if opn == "Q.Get" && (l == zeroUUID || !uuidRe.MatchString(l)) {
				bad("%s: pool[%d] labelled %q", opn, k, l)
			}
			if opn == "PP.Get" && k%4 == 2 && l != fmt.Sprintf("s%d", k) {
				bad("%s: string node s%d labelled %q", opn, k, l)
			}
		}
	}
	idx := map[int]int{} // index -> pool key
	for k, l := range labels["P.Get"] {
		n, err := strconv.Atoi(strings.TrimPrefix(l, "b"))
		if err != nil || !strings.HasPrefix(l, "b") {
			bad("P.Get: malformed label %q", l)
			continue
		}
		idx[n] = k
	}
	var t int64
	for n := 0; n < len(labels["P.Get"]); n++ {
		k, ok := idx[n]
		if !ok {
			bad("P.Get: %d nodes labelled but index %d was never handed out (lost or duplicated counter update)", len(labels["P.Get"]), n)
			break
		}
		if useClock {
			// linearisation point of "first request for pool[k]" lies in [minCall, minRet] and after the previous index's point
			// (points are reals strictly between integer clock ticks, so only `<` between ticks matters)
			x := pIv[k]
			t = max(t, x.minCall)
			if t >= x.minRet {
				bad("P.Get: index %d was assigned to pool[%d] although every request for it returned before index %d could have been assigned (not linearisable)", n, k, n-1)
				break
			}
		}
	}
}

func stress(r *vh.Rng, runs int, st *stressStats) {
	for i := 0; i < runs; i++ {
		g := 2 + r.Intn(15)
		if i%5 == 0 {
			g = 16
		}
		procs := 1 + r.Intn(16)
		old := runtime.GOMAXPROCS(procs)
		stressRun(r, g, 20+r.Intn(120), st)
		runtime.GOMAXPROCS(old)
	}
}

// raceChild builds this command with -race and runs the concurrent part under the race detector.
func raceChild(runs int, seed uint64, rep *vh.Report) {
	args := []string{"build", "-race", "-tags", "verif"}
	if repo := os.Getenv("VERIF_REPO"); repo != "" && repo != "/repo" {
		if _, err := os.Stat(".alt-C14.mod"); err == nil {
			args = append(args, "-modfile=.alt-C14.mod")
		}
	}
	args = append(args, "-o", "bin/c14race", "./cmd/c14")
	if outp, err := exec.Command("go", args...).CombinedOutput(); err != nil {
		rep.Count("race:build-unavailable")
		fmt.Fprintf(os.Stderr, "c14: -race build not available: %v\n%s\n", err, outp)
		return
	}
	cmd := exec.Command("./bin/c14race")
	cmd.Env = append(os.Environ(), "C14_STRESS_CHILD="+strconv.Itoa(runs), "VERIF_SEED="+strconv.FormatUint(seed, 10), "GORACE=halt_on_error=1 exitcode=66")
	outp, err := cmd.CombinedOutput()
	var st stressStats
	if i := strings.LastIndex(string(outp), "\n{"); i >= 0 {
		json.Unmarshal(outp[i+1:], &st)
	} else {
		json.Unmarshal(outp, &st)
	}
	rep.Hist["race:runs"] += st.Runs
	rep.Hist["race:ops"] += st.Ops
	for _, v := range st.Violations {
		rep.Add(vh.Case{Kind: "violation", Op: "concurrent(-race)", Detail: v})
	}
	if err != nil {
		s := string(outp)
		if len(s) > 1500 {
			s = s[:1500]
		}
		rep.Add(vh.Case{Kind: "violation", Op: "concurrent(-race)", Detail: "race detector / child failure: " + err.Error() + ": " + s})
	}
}

// ---------------------------------------------------------------- main

type item struct {
	line string
	goR  string
	toks []string
}

func main() {
	flag.Parse()
	seed := vh.SeedFromEnv()
	if c := os.Getenv("C14_STRESS_CHILD"); c != "" {
		n, _ := strconv.Atoi(c)
		var st stressStats
		stress(vh.NewRng(seed^0xc14), n, &st)
		b, _ := json.Marshal(st)
		fmt.Println(string(b))
		if len(st.Violations) > 0 {
			os.Exit(1)
		}
		return
	}
	rep := vh.NewReport("C14", *tier, seed, "well-typed random histories (4..80 operations) over factories (default, scoped, string), string nodes (fixed hot labels, random scalar strings, labels copied from earlier provider results), int64/UUID providers with several formats, pass-through providers (GetStringProvider, PropagateDecoderPipeBlankNodeStringProvider), mappers, TermEquals probes incl. the nil node; bounded-exhaustive operation sequences after a fixed prelude; concurrent runs of 2..16 goroutines on shared objects; non-trivial = the history contains a provider or mapper call on a node")
	fs, err := vh.LoadFindings(*findings)
	if err != nil {
		fmt.Fprintln(os.Stderr, "findings:", err)
		os.Exit(2)
	}
	known := vh.KnownKeys(fs, "C14")
	g := &gen{r: vh.NewRng(seed)}
	var items []item

	// flush: run the model on the histories collected so far and compare
	flush := func() {
		if *nomodel || len(items) == 0 {
			items = items[:0]
			return
		}
		lines := make([]string, len(items))
		for i, it := range items {
			lines[i] = it.line
		}
		res, err := vh.Driver{Path: *driver}.RunParallel(lines)
		if err != nil {
			fmt.Fprintln(os.Stderr, err)
			os.Exit(2)
		}
		for i, it := range items {
			rep.Compared++
			if res[i] != it.goR {
				rep.Add(vh.Case{Kind: "disagreement", Op: it.line, Go: it.goR, Model: res[i], Detail: firstDiff(it.toks, it.goR, res[i])})
			}
		}
		items = items[:0]
	}

	// known findings are counted in full but only a few are listed, after all failures: vh.Report keeps at
	// most 200 cases and a known finding must never push a violation or a disagreement out of the report
	var knownCases []vh.Case
	nKnown := 0
	addKnown := func(c vh.Case) {
		nKnown++
		rep.Count("known:" + c.Key)
		if len(knownCases) < 10 {
			knownCases = append(knownCases, c)
		}
	}

	run := func(toks []string, kindName string) {
		line := "bn.run " + strings.Join(toks, " ")
		h, err := execHistory(toks)
		if err != nil {
			fmt.Fprintln(os.Stderr, "c14:", err)
			os.Exit(2)
		}
		nontrivial := false
		for _, t := range toks {
			if (strings.HasPrefix(t, "GL:") || strings.HasPrefix(t, "MN:")) && !strings.HasSuffix(t, ":nil") {
				nontrivial = true
			}
		}
		rep.Eval(line, nontrivial)
		rep.Count("kind:" + kindName)
		for _, t := range toks {
			rep.Count("op:" + strings.SplitN(t, ":", 2)[0])
		}
		rep.Count(fmt.Sprintf("len:%02d-%02d", len(toks)/10*10, len(toks)/10*10+9))
		for _, v := range h.viol {
			if f, ok := known[v.class]; ok && v.class != "" {
				addKnown(vh.Case{Kind: "known", Key: f.Key, Op: line, Detail: f.What + " — " + v.detail})
				continue
			}
			d := v.detail
			if v.class != "" {
				d += " [class " + v.class + "]"
			}
			rep.Add(vh.Case{Kind: "violation", Op: line, Detail: d})
		}
		for _, e := range h.excluded {
			if f, ok := known["passthrough-label-collides-with-fallback"]; ok {
				addKnown(vh.Case{Kind: "known", Key: f.Key, Op: line, Detail: f.What + " — " + e})
			} else {
				rep.Count("excluded:passthrough-collision (hypothesis of passthrough_injective_partial)")
			}
		}
		items = append(items, item{line: line, goR: strings.Join(h.outs, " "), toks: toks})
		if len(items) >= 100000 {
			flush()
		}
	}

	readLines := func(path string) [][]string {
		b, err := os.ReadFile(path)
		if err != nil {
			return nil
		}
		var r [][]string
		for _, l := range strings.Split(string(b), "\n") {
			f := strings.Fields(l)
			if len(f) >= 2 && f[0] == "bn.run" {
				r = append(r, f[1:])
			}
		}
		return r
	}

	var st stressStats
	if *replay != "" {
		if _, err := os.Stat(*replay); err != nil {
			fmt.Fprintln(os.Stderr, "c14: replay file:", err)
			os.Exit(2)
		}
		hs := readLines(*replay)
		if hs == nil {
			// the check script writes JSON replays: take the protocol lines from the recorded cases
			if b, err := os.ReadFile(*replay); err == nil {
				var rp struct {
					Violations, Disagreements []vh.Case
				}
				if json.Unmarshal(b, &rp) == nil {
					for _, c := range append(rp.Violations, rp.Disagreements...) {
						if f := strings.Fields(c.Op); len(f) >= 2 && f[0] == "bn.run" {
							hs = append(hs, f[1:])
						}
					}
				}
			}
		}
		for _, toks := range hs {
			run(toks, "replay")
		}
	} else {
		// the witnesses of Props/C14.lean, replayed on the implementation
		run([]string{"NSF", "NI:x", "NS:r0:x6230", "NB:r0", "GSP:r0:r1", "GL:r4:r3", "GL:r4:r2"}, "witness")
		run([]string{"NSF", "PR:r0", "NB:r0", "GL:r1:r2", "NS:r0:@r3", "GL:r1:r4", "GL:r1:r2"}, "witness")
		run([]string{"NU:x", "NB:d", "GL:r0:r1", "GL:r0:r1", "NB:d", "GL:r0:r4"}, "witness")
		if *hints != "" {
			for _, toks := range readLines(*hints) {
				run(toks, "hint")
			}
		}
		n, depth, runs := 20000**scale, 3, 200**scale
		if *tier == "thorough" {
			n, depth, runs = 1000000**scale, 4, 20000**scale
		}
		cnt := exhaustive(depth, func(toks []string) { run(toks, "exhaustive") })
		rep.Exhaustive = append(rep.Exhaustive, fmt.Sprintf("all %d sequences of %d operations over a 19..23-letter alphabet (factories, string labels, providers, mapper, TermEquals) after a fixed 9-operation prelude", cnt, depth))
		for i := 0; i < n; i++ {
			run(g.history(), "random")
		}
		stress(g.r.Fork(), runs, &st)
		rep.Hist["concurrent:runs"] = st.Runs
		rep.Hist["concurrent:ops"] = st.Ops
		for _, v := range st.Violations {
			rep.Add(vh.Case{Kind: "violation", Op: "concurrent", Detail: v})
		}
		if *tier == "thorough" && !*nomodel {
			raceChild(2000**scale, seed, rep)
		}
	}

	flush()
	for _, c := range knownCases {
		if len(rep.Cases) < 190 {
			rep.Add(c)
		}
	}
	if rep.Cases == nil {
		rep.Cases = []vh.Case{}
	}
	sort.SliceStable(rep.Cases, func(i, j int) bool { return len(rep.Cases[i].Op) < len(rep.Cases[j].Op) })
	if err := rep.Write(*out); err != nil {
		fmt.Fprintln(os.Stderr, err)
		os.Exit(2)
	}
	fmt.Printf("c14: %d histories, %d compared with the model, %d concurrent runs (%d ops), %d failures, %d known\n",
		rep.Evaluations, rep.Compared, st.Runs, st.Ops, rep.Failures(), nKnown)
	if rep.Failures() > 0 {
		os.Exit(1)
	}
}

func firstDiff(toks []string, goR, model string) string {
	a, b := strings.Fields(goR), strings.Fields(model)
	for i := range toks {
		if i >= len(a) || i >= len(b) || a[i] != b[i] {
			x, y := "?", "?"
			if i < len(a) {
				x = a[i]
			}
			if i < len(b) {
				y = b[i]
			}
			return fmt.Sprintf("first difference at operation %d (%s): implementation %s, model %s", i, toks[i], x, y)
		}
	}
	return "outputs differ in length"
}
