/-
  Proofs.C03Unique — for ARBITRARY datasets: the canonical identifier of a blank node whose first-degree
  hash is unique in the dataset (§4.4.3 step 4) does not depend on the order of the quads, on the names
  of the blank nodes, on the order parameters, on the enumeration of permutations or on the recursion
  bound; whatever Hash N-Degree Quads does afterwards (step 5) never touches it.
-/
import RdfModel.Proofs.C03Rename
import RdfModel.Proofs.C04Perms
namespace RdfModel.Proofs.C03
open RdfModel RdfModel.Spec.RDFC10 RdfModel.Proofs.StrOrd

set_option linter.unusedSectionVars false
set_option linter.unusedVariables false

variable {β : Type} [DecidableEq β] {γ : Type} [DecidableEq γ]

/-! ### association lists with distinct keys -/

theorem getList_of_mem {κ ν : Type} [DecidableEq κ] (m : List (κ × List ν)) (hn : (m.map (·.1)).Nodup)
    (k : κ) (l : List ν) (h : (k, l) ∈ m) : getList m k = l := by
  induction m with
  | nil => cases h
  | cons e rest ih =>
    obtain ⟨k0, l0⟩ := e
    simp only [List.map_cons, List.nodup_cons] at hn
    simp only [List.mem_cons, Prod.mk.injEq] at h
    rcases h with ⟨rfl, rfl⟩ | h
    · simp [getList]
    · have : ¬ k0 = k := by
        intro e; subst e
        exact hn.1 (List.mem_map.2 ⟨(k0, l), h, rfl⟩)
      simp only [getList, this, if_false]
      exact ih hn.2 h

theorem mem_of_getList_ne_nil {κ ν : Type} [DecidableEq κ] (m : List (κ × List ν)) (k : κ)
    (h : getList m k ≠ []) : (k, getList m k) ∈ m := by
  induction m with
  | nil => simp [getList] at h
  | cons e rest ih =>
    obtain ⟨k0, l0⟩ := e
    by_cases h0 : k0 = k
    · subst h0; simp [getList]
    · simp only [getList, h0, if_false] at h ⊢
      exact List.mem_cons_of_mem _ (ih h)

theorem keys_nodup_addToMap {κ ν : Type} [DecidableEq κ] (m : List (κ × List ν)) (k : κ) (v : ν)
    (hn : (m.map (·.1)).Nodup) : ((addToMap m k v).map (·.1)).Nodup := by
  rw [keys_addToMap]
  split
  · exact hn
  · rename_i hk
    rw [List.nodup_append]
    refine ⟨hn, by simp, ?_⟩
    intro a ha b hb
    simp only [List.mem_singleton] at hb
    subst hb
    exact fun e => hk (e ▸ ha)

/-! ### step 3: the hash to blank nodes map as a grouping -/

/-- §4.4.3 step 3 over the key list `K` with first-degree hash `hf`. -/
def group (hf : β → Str) (K : List β) (m : List (Str × List β)) : List (Str × List β) :=
  K.foldl (fun m n => addToMap m (hf n) n) m

theorem getList_group (hf : β → Str) (K : List β) (m : List (Str × List β)) (k : Str) :
    getList (group hf K m) k = getList m k ++ K.filter (fun n => hf n = k) := by
  induction K generalizing m with
  | nil => simp [group]
  | cons a rest ih =>
    simp only [group, List.foldl_cons] at ih ⊢
    rw [ih, getList_addToMap]
    by_cases h : hf a = k
    · simp [h]
    · simp [h]

theorem keys_nodup_group (hf : β → Str) (K : List β) (m : List (Str × List β))
    (hn : (m.map (·.1)).Nodup) : ((group hf K m).map (·.1)).Nodup := by
  induction K generalizing m with
  | nil => exact hn
  | cons a rest ih =>
    simp only [group, List.foldl_cons] at ih ⊢
    exact ih _ (keys_nodup_addToMap m (hf a) a hn)

theorem filter_eq_singleton (p : β → Bool) (K : List β) (c : β) (hK : K.Nodup) (hc : c ∈ K)
    (hp : p c = true) (hu : ∀ m ∈ K, p m = true → m = c) : K.filter p = [c] := by
  induction K with
  | nil => cases hc
  | cons a rest ih =>
    simp only [List.nodup_cons] at hK
    simp only [List.mem_cons] at hc
    rcases hc with rfl | hc
    · have hrest : rest.filter p = [] := by
        rw [List.filter_eq_nil_iff]
        intro m hm hpm
        have := hu m (List.mem_cons_of_mem _ hm) hpm
        subst this
        exact hK.1 hm
      simp [hp, hrest]
    · have ha : p a ≠ true := by
        intro hpa
        have := hu a (List.mem_cons_self) hpa
        subst this
        exact hK.1 hc
      simp only [List.filter_cons, ha, if_false, Bool.false_eq_true]
      exact ih hK.2 hc (fun m hm => hu m (List.mem_cons_of_mem _ hm))

/-- An entry `(k, [c])` of the grouping: `c` is the only blank node with hash `k`. -/
theorem single_mem_group (hf : β → Str) (K : List β) (hK : K.Nodup) (k : Str) (c : β) :
    (k, [c]) ∈ group hf K [] ↔ c ∈ K ∧ hf c = k ∧ ∀ m ∈ K, hf m = k → m = c := by
  have hg := getList_group hf K [] k
  simp only [getList, List.nil_append] at hg
  constructor
  · intro h
    have h1 := getList_of_mem _ (keys_nodup_group hf K [] (by simp)) k [c] h
    rw [hg] at h1
    have hc : c ∈ K.filter (fun n => hf n = k) := by rw [h1]; simp
    simp only [List.mem_filter, decide_eq_true_eq] at hc
    refine ⟨hc.1, hc.2, fun m hm hmk => ?_⟩
    have : m ∈ K.filter (fun n => hf n = k) := by
      simp only [List.mem_filter, decide_eq_true_eq]; exact ⟨hm, hmk⟩
    rw [h1] at this
    simpa using this
  · rintro ⟨hc, hk, hu⟩
    have h1 : K.filter (fun n => decide (hf n = k)) = [c] :=
      filter_eq_singleton _ K c hK hc (by simpa using hk) (fun m hm hp => hu m hm (by simpa using hp))
    have h2 : getList (group hf K []) k = [c] := by rw [hg, h1]
    have := mem_of_getList_ne_nil (group hf K []) k (by rw [h2]; simp)
    rwa [h2] at this

/-- Every member of an entry has the entry's key as hash. -/
theorem group_inv (hf : β → Str) (K : List β) (e : Str × List β) (he : e ∈ group hf K []) :
    ∀ n ∈ e.2, hf n = e.1 := by
  obtain ⟨k, l⟩ := e
  have h1 := getList_of_mem _ (keys_nodup_group hf K [] (by simp)) k l he
  rw [getList_group] at h1
  simp only [getList, List.nil_append] at h1
  intro n hn
  simp only at hn
  rw [← h1] at hn
  simpa using (List.mem_filter.1 hn).2

/-! ### step 4: canonical identifiers for the uniquely hashed blank nodes, in hash order -/

def single? : List β → Option β
  | [n] => some n
  | _ => none

theorem single?_eq_some (l : List β) (n : β) : single? l = some n ↔ l = [n] := by
  match l with
  | [] => simp [single?]
  | [a] => simp [single?]
  | _ :: _ :: _ => simp [single?]

/-- The blank nodes that get their canonical identifier in step 4, in issue order. -/
def singles (S : List (Str × List β)) : List β := S.filterMap (fun e => single? e.2)

theorem step4_eq_issueAll (S : List (Str × List β)) (C : Issuer β) :
    S.foldl step4f C = issueAll C (singles S) := by
  induction S generalizing C with
  | nil => rfl
  | cons e S ih =>
    obtain ⟨k, l⟩ := e
    match l with
    | [] => simpa [singles, single?, step4f] using ih C
    | [n] =>
      simp only [List.foldl_cons, singles, List.filterMap_cons, single?, issueAll] at ih ⊢
      exact ih _
    | _ :: _ :: _ => simpa [singles, single?, step4f] using ih C

theorem mem_singles (S : List (Str × List β)) (n : β) : n ∈ singles S ↔ ∃ k, (k, [n]) ∈ S := by
  simp only [singles, List.mem_filterMap, single?_eq_some]
  constructor
  · rintro ⟨⟨k, l⟩, he, hl⟩
    simp only at hl
    subst hl
    exact ⟨k, he⟩
  · rintro ⟨k, he⟩
    exact ⟨(k, [n]), he, rfl⟩

/-- The sorted grouping: what step 4 iterates over. -/
def sortedGroups (hf : β → Str) (K : List β) : List (Str × List β) := sortByKey (group hf K [])

theorem sortedGroups_perm (hf : β → Str) (K : List β) : (sortedGroups hf K).Perm (group hf K []) :=
  List.mergeSort_perm _ _

theorem mem_singles_sorted (hf : β → Str) (K : List β) (hK : K.Nodup) (n : β) :
    n ∈ singles (sortedGroups hf K) ↔ n ∈ K ∧ ∀ m ∈ K, hf m = hf n → m = n := by
  rw [mem_singles]
  constructor
  · rintro ⟨k, hk⟩
    have := (single_mem_group hf K hK k n).1 ((sortedGroups_perm hf K).mem_iff.1 hk)
    obtain ⟨h1, h2, h3⟩ := this
    exact ⟨h1, fun m hm e => h3 m hm (e.trans h2)⟩
  · rintro ⟨h1, h2⟩
    exact ⟨hf n, (sortedGroups_perm hf K).mem_iff.2
      ((single_mem_group hf K hK (hf n) n).2 ⟨h1, rfl, h2⟩)⟩

/-- The step-4 nodes come in strictly increasing hash order. -/
theorem singles_sorted_pairwise (hf : β → Str) (K : List β) :
    (singles (sortedGroups hf K)).Pairwise (fun a b => strLe (hf a) (hf b) = true ∧ hf a ≠ hf b) := by
  have hp : (sortedGroups hf K).Pairwise (fun a b => strLe a.1 b.1 = true) :=
    List.pairwise_mergeSort (fun a b c => strLe_trans a.1 b.1 c.1) (fun a b => strLe_total a.1 b.1) _
  have hn : ((sortedGroups hf K).map (·.1)).Nodup :=
    ((sortedGroups_perm hf K).map _).nodup_iff.2 (keys_nodup_group hf K [] (by simp))
  have hne : (sortedGroups hf K).Pairwise (fun a b => a.1 ≠ b.1) := by
    rw [List.Nodup, List.pairwise_map] at hn; exact hn
  have hboth := hp.and hne
  have hinv : ∀ e ∈ sortedGroups hf K, ∀ n ∈ e.2, hf n = e.1 :=
    fun e he => group_inv hf K e ((sortedGroups_perm hf K).mem_iff.1 he)
  have hstrong : (sortedGroups hf K).Pairwise (fun a b =>
      (∀ n ∈ a.2, hf n = a.1) ∧ (∀ n ∈ b.2, hf n = b.1) ∧ strLe a.1 b.1 = true ∧ a.1 ≠ b.1) :=
    hboth.imp_of_mem (fun {a b} ha hb h => ⟨hinv a ha, hinv b hb, h.1, h.2⟩)
  unfold singles
  refine List.Pairwise.filterMap _ ?_ hstrong
  intro a a' hR b hb b' hb'
  rw [single?_eq_some] at hb hb'
  obtain ⟨ia, ia', hle, hne⟩ := hR
  have e1 : hf b = a.1 := ia b (by rw [hb]; simp)
  have e2 : hf b' = a'.1 := ia' b' (by rw [hb']; simp)
  rw [e1, e2]
  exact ⟨hle, hne⟩

/-- The step-4 issue order is the same, up to the renaming, for every reordering of the key list. -/
theorem singles_transport (hf : β → Str) (hf' : γ → Str) (σ : β → γ) (hσ : Function.Injective σ)
    (K : List β) (K' : List γ) (hK : K.Nodup) (hK' : K'.Nodup) (hp : K'.Perm (K.map σ))
    (hh : ∀ n, hf' (σ n) = hf n) :
    singles (sortedGroups hf' K') = (singles (sortedGroups hf K)).map σ := by
  have hpw := singles_sorted_pairwise hf K
  have hpw' := singles_sorted_pairwise hf' K'
  have hmem : ∀ c, c ∈ singles (sortedGroups hf' K') ↔ c ∈ (singles (sortedGroups hf K)).map σ := by
    intro c
    rw [mem_singles_sorted hf' K' hK', List.mem_map]
    constructor
    · rintro ⟨hc, hu⟩
      obtain ⟨n, hn, rfl⟩ := List.mem_map.1 (hp.mem_iff.1 hc)
      refine ⟨n, (mem_singles_sorted hf K hK n).2 ⟨hn, fun m hm e => ?_⟩, rfl⟩
      have := hu (σ m) (hp.mem_iff.2 (List.mem_map.2 ⟨m, hm, rfl⟩)) (by rw [hh, hh, e])
      exact hσ this
    · rintro ⟨n, hn, rfl⟩
      obtain ⟨hnK, hu⟩ := (mem_singles_sorted hf K hK n).1 hn
      refine ⟨hp.mem_iff.2 (List.mem_map.2 ⟨n, hnK, rfl⟩), fun m hm e => ?_⟩
      obtain ⟨m0, hm0, rfl⟩ := List.mem_map.1 (hp.mem_iff.1 hm)
      rw [hh, hh] at e
      rw [hu m0 hm0 e]
  have nd' : (singles (sortedGroups hf' K')).Nodup :=
    hpw'.imp (fun h e => h.2 (by rw [e]))
  have nd : ((singles (sortedGroups hf K)).map σ).Nodup := by
    rw [List.Nodup, List.pairwise_map]
    exact hpw.imp (fun h e => h.2 (by rw [hσ e]))
  have hperm : (singles (sortedGroups hf' K')).Perm ((singles (sortedGroups hf K)).map σ) :=
    (List.perm_ext_iff_of_nodup nd' nd).2 hmem
  apply sorted_unique hf' hperm (hpw'.imp (fun h => h.1))
  · rw [List.pairwise_map]
    exact hpw.imp (fun h => by rw [hh, hh]; exact h.1)
  · rw [List.Nodup, List.pairwise_map]
    exact hpw'.imp (fun h => h.2)

/-! ### step 5 only adds identifiers -/

theorem issue_preserves (I : Issuer β) (a b : β) (v : Str) (h : assoc I.issued b = some v) :
    assoc (I.issue a).2.issued b = some v := by
  unfold Issuer.issue Issuer.get?
  cases ha : assoc I.issued a with
  | some id => simpa using h
  | none =>
    simp only [assoc_append_of_none _ _ _ _ ha]
    have : ¬ a = b := by intro e; subst e; rw [ha] at h; cases h
    simp [this, h]

theorem issueAll_preserves (N : List β) (I : Issuer β) (b : β) (v : Str)
    (h : assoc I.issued b = some v) : assoc (issueAll I N).issued b = some v := by
  induction N generalizing I with
  | nil => exact h
  | cons a rest ih =>
    simp only [issueAll, List.foldl_cons] at ih ⊢
    exact ih _ (issue_preserves I a b v h)

theorem foldl_issueAll_preserves (L : List (NDResult β)) (C : Issuer β) (b : β) (v : Str)
    (hb : assoc C.issued b = some v) :
    assoc (L.foldl (fun c r => issueAll c (r.issuer.issued.map (·.1))) C).issued b = some v := by
  induction L generalizing C with
  | nil => exact hb
  | cons r L ihL =>
    simp only [List.foldl_cons]
    exact ihL _ (issueAll_preserves _ _ b v hb)

theorem step5_preserves (H : Str → Str) (perms : List β → List (List β)) (B : B2Q β) (fuel : Nat)
    (gs : List (Str × List β)) (C C' : Issuer β) (h : step5 H perms B fuel gs C = some C')
    (b : β) (v : Str) (hb : assoc C.issued b = some v) : assoc C'.issued b = some v := by
  induction gs generalizing C with
  | nil => simp only [step5, Option.some.injEq] at h; subst h; exact hb
  | cons g gs ih =>
    obtain ⟨k, il⟩ := g
    simp only [step5] at h
    cases hp : hashPathList H perms B C fuel il with
    | none => rw [hp] at h; cases h
    | some hpl =>
      rw [hp] at h
      simp only at h
      exact ih _ h (foldl_issueAll_preserves _ _ b v hb)

/-- The issued identifiers map of a result is that of the canonical issuer after step 5, which starts from
    the step-4 issuer. -/
theorem canonFuel_issued (H : Str → Str) (ord : List β → List β) (perms : List β → List (List β))
    (fuel : Nat) (qs : List (Quad β)) (r : Result β) (h : canonFuel H ord perms true fuel qs = some r) :
    ∃ canon, step5 H perms (bnodeToQuads true qs) fuel
        ((sortedGroups (hashFirstDegree H (bnodeToQuads true qs))
          (ord ((bnodeToQuads true qs).map (·.1)))).filter (fun e => decide (e.2.length ≠ 1)))
        ((sortedGroups (hashFirstDegree H (bnodeToQuads true qs))
          (ord ((bnodeToQuads true qs).map (·.1)))).foldl step4f (Issuer.new c14nPrefix)) = some canon ∧
      r.issued = canon.issued := by
  rw [canonFuel_unfold] at h
  split at h
  · cases h
  · rename_i canon h5
    refine ⟨canon, h5, ?_⟩
    cases h
    rfl

/-! ### the statement about the specification -/

/-- `b` is a blank node of the dataset whose first-degree hash no other blank node of the dataset has. -/
def UniqueHash (H : Str → Str) (qs : List (Quad β)) (b : β) : Prop :=
  b ∈ qs.flatMap quadBnodes ∧
  ∀ m ∈ qs.flatMap quadBnodes,
    hashFirstDegree H (bnodeToQuads true qs) m = hashFirstDegree H (bnodeToQuads true qs) b → m = b

theorem spec_unique_labels (H : Str → Str) (σ : β → γ) (hσ : Function.Injective σ)
    (qs : List (Quad β)) (qs' : List (Quad γ)) (hp : qs'.Perm (qs.map (Quad.map σ)))
    (ord : List β → List β) (ord' : List γ → List γ) (hord : C04.OrdOK ord) (hord' : C04.OrdOK ord')
    (perms : List β → List (List β)) (perms' : List γ → List (List γ)) (fuel fuel' : Nat)
    (r : Result β) (r' : Result γ) (h : canonFuel H ord perms true fuel qs = some r)
    (h' : canonFuel H ord' perms' true fuel' qs' = some r') (b : β) (hb : UniqueHash H qs b) :
    ∃ v, assoc r.issued b = some v ∧ assoc r'.issued (σ b) = some v := by
  let hf := hashFirstDegree H (bnodeToQuads true qs)
  let hf' := hashFirstDegree H (bnodeToQuads true qs')
  let K := ord ((bnodeToQuads true qs).map (·.1))
  let K' := ord' ((bnodeToQuads true qs').map (·.1))
  have hK : K.Nodup := (hord _).nodup_iff.2 (nodup_keys_bnodeToQuads qs)
  have hK' : K'.Nodup := (hord' _).nodup_iff.2 (nodup_keys_bnodeToQuads qs')
  have hKp : K'.Perm (K.map σ) :=
    (hord' _).trans ((keys_transport σ hσ qs qs' hp).trans ((hord _).map σ).symm)
  have hh : ∀ n, hf' (σ n) = hf n := first_degree_transport H σ hσ qs qs' hp
  have hs := singles_transport hf hf' σ hσ K K' hK hK' hKp hh
  -- the two computations
  obtain ⟨canon, h5, hr⟩ := canonFuel_issued H ord perms fuel qs r h
  obtain ⟨canon', h5', hr'⟩ := canonFuel_issued H ord' perms' fuel' qs' r' h'
  have e4 : (sortedGroups hf K).foldl step4f (Issuer.new c14nPrefix)
      = issueAll (Issuer.new c14nPrefix) (singles (sortedGroups hf K)) := step4_eq_issueAll _ _
  have e4' : (sortedGroups hf' K').foldl step4f (Issuer.new c14nPrefix)
      = issueAll (Issuer.new c14nPrefix) (singles (sortedGroups hf' K')) := step4_eq_issueAll _ _
  -- b is issued in step 4
  have hbK : b ∈ K := (hord _).mem_iff.2 ((mem_keys_bnodeToQuads qs b).2 hb.1)
  have hbs : b ∈ singles (sortedGroups hf K) :=
    (mem_singles_sorted hf K hK b).2 ⟨hbK, fun m hm e =>
      hb.2 m ((mem_keys_bnodeToQuads qs m).1 ((hord _).mem_iff.1 hm)) e⟩
  have hsome := issueAll_isSome (singles (sortedGroups hf K)) (Issuer.new c14nPrefix) b (Or.inl hbs)
  obtain ⟨v, hv⟩ := Option.isSome_iff_exists.1 hsome
  have hv' : assoc (issueAll (Issuer.new c14nPrefix) (singles (sortedGroups hf' K'))).issued (σ b) = some v := by
    rw [hs, ← mapIssuer_new σ (β := β), issueAll_map σ hσ]
    simp only [mapIssuer]
    rw [assoc_map_inj σ hσ]
    exact hv
  refine ⟨v, ?_, ?_⟩
  · rw [hr]
    exact step5_preserves H perms _ fuel _ _ canon h5 b v (by rw [e4]; exact hv)
  · rw [hr']
    exact step5_preserves H perms' _ fuel' _ _ canon' h5' (σ b) v (by rw [e4']; exact hv')

/-! ### transfer to the model of the Go code -/

/-- For ANY well-formed dataset: a blank node whose first-degree hash is unique gets the same canonical
    identifier from `rdfcanon.Canonicalize` (model) in every reordered, relabelled copy of the dataset,
    under every Go map iteration order and every limit configuration for which a result is returned. -/
theorem canon_unique_labels (T : NQ.Tables) (hT : C04.TablesCanon T) (H : Str → Str) (σ : β → γ)
    (hσ : Function.Injective σ) (qs : List (Quad β)) (qs' : List (Quad γ))
    (hp : qs'.Perm (qs.map (Quad.map σ))) (hwf : ∀ q ∈ qs, C04.WFQuad T q)
    (lim lim' : Rdfcanon.Limits) (ord : List β → List β) (ord' : List γ → List γ)
    (hord : C04.OrdOK ord) (hord' : C04.OrdOK ord') (out : Rdfcanon.Out β) (out' : Rdfcanon.Out γ)
    (h : Rdfcanon.canon T H lim ord qs = .ok out) (h' : Rdfcanon.canon T H lim' ord' qs' = .ok out')
    (b : β) (hb : UniqueHash H qs b) :
    labelOf out' (σ b) = labelOf out b ∧ (assoc out.issued b).isSome := by
  have hwf' : ∀ q ∈ qs', C04.WFQuad T q := by
    intro q hq
    obtain ⟨q0, hq0, rfl⟩ := List.mem_map.1 (hp.mem_iff.1 hq)
    exact wfQuad_map T σ q0 (hwf q0 hq0)
  have s1 := C04.canon_refines_spec T hT H lim ord hord _
    (C04.permsAgree_heapPerms lim.maxPermutations _ (Nat.lt_succ_self _)) qs hwf out h
  have s2 := C04.canon_refines_spec T hT H lim' ord' hord' _
    (C04.permsAgree_heapPerms lim'.maxPermutations _ (Nat.lt_succ_self _)) qs' hwf' out' h'
  obtain ⟨v, h1, h2⟩ := spec_unique_labels H σ hσ qs qs' hp ord ord' hord hord' _ _ _ _ _ _ s1 s2 b hb
  simp only [C04.specView] at h1 h2
  unfold labelOf
  rw [h1, h2]
  exact ⟨rfl, rfl⟩

end RdfModel.Proofs.C03
