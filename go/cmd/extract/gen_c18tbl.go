package main

// T2 generator for property C18 (builder-c18miss): how the label tables of the blank-node label providers and
// of the factory mapper are USED  ->  lean/RdfModel/Gen/TableFacts.lean
//
// Model/BlankNodes.lean models each of these Go maps (`uuidStringProvider.known`, `int64StringProvider.known`,
// `factoryMapper.known`) as an association list that only ever grows: `getLabel` / `mapNode` look a node up and,
// when it is absent, cons one entry. `C18.pipe_labels_injective` (one source node, one label) rests on that. The
// Go side keeps the correspondence only if the map is used the same way, so this generator classifies, purely
// syntactically (go/ast), EVERY occurrence of a map-typed struct field of the anchored files:
//
//	read     `x.f[k]` evaluated (incl. the comma-ok form)
//	insert   `x.f[k] = v` (plain assignment to an index expression)
//	other    anything else: the field handed to a call (`clear(x.f)`, `delete(x.f, k)`, `len(x.f)`, `maps.…`),
//	         ranged over, assigned (`x.f = …`), its address taken, compound assignment / ++ on an element, …
//
// plus how often a composite literal of the struct initialises the field (`known: make(…)`, constructors).
// The consuming theorem `RdfModel.C18.label_tables_insert_only` decides: no `other` use anywhere, every expected
// table is read and inserted into, each is initialised exactly once. A `clear`, `delete`, eviction loop or a
// re-made map therefore breaks the build of the check instead of silently leaving the model behind.

import (
	"fmt"
	"go/ast"
	"go/parser"
	"go/token"
	"os"
	"path/filepath"
	"sort"
	"strings"
)

func init() { generators["c18tbl"] = genC18Tbl }

var c18TblFiles = []string{
	"rdf/blanknodes/string_factory.go",
	"rdf/blanknodes/int64_string_provider.go",
	"rdf/blanknodes/uuid_string_provider.go",
	"rdf/blanknodes/mapper.go",
}

type c18TblFact struct {
	strct, field, typ           string
	reads, inserts, other, init int
	otherHow                    []string
}

func genC18Tbl(leanRoot string) {
	repo := os.Getenv("VERIF_REPO")
	if repo == "" {
		repo = "/repo"
	}
	fset := token.NewFileSet()
	var files []*ast.File
	facts := map[string]*c18TblFact{} // "struct.field"
	byField := map[string][]*c18TblFact{}
	for _, rel := range c18TblFiles {
		f, err := parser.ParseFile(fset, filepath.Join(repo, rel), nil, 0)
		if err != nil {
			fmt.Fprintln(os.Stderr, "c18tbl:", err)
			os.Exit(2)
		}
		files = append(files, f)
		for _, d := range f.Decls {
			gd, ok := d.(*ast.GenDecl)
			if !ok || gd.Tok != token.TYPE {
				continue
			}
			for _, sp := range gd.Specs {
				ts := sp.(*ast.TypeSpec)
				stt, ok := ts.Type.(*ast.StructType)
				if !ok {
					continue
				}
				for _, fl := range stt.Fields.List {
					if _, isMap := fl.Type.(*ast.MapType); !isMap {
						continue
					}
					for _, nm := range fl.Names {
						ft := &c18TblFact{strct: ts.Name.Name, field: nm.Name, typ: c14TypeString(fl.Type)}
						facts[ts.Name.Name+"."+nm.Name] = ft
						byField[nm.Name] = append(byField[nm.Name], ft)
					}
				}
			}
		}
	}
	// receiver / variable types are not resolved (no type checker): an occurrence `x.f` counts for EVERY struct of
	// the anchored files that has a map field named f — conservative (a use that cannot be attributed is charged
	// to all candidates); inside a method `recv.f` is charged to the receiver's struct only.
	recvName, recvStruct := "", ""
	var curSel *ast.SelectorExpr
	charge := func(name string, fn func(*c18TblFact)) {
		if id, ok := curSel.X.(*ast.Ident); ok && recvName != "" && id.Name == recvName {
			if ft, ok := facts[recvStruct+"."+name]; ok {
				fn(ft)
				return
			}
		}
		for _, ft := range byField[name] {
			fn(ft)
		}
	}
	var decls []ast.Decl
	for _, f := range files {
		decls = append(decls, f.Decls...)
	}
	for _, d := range decls {
		recvName, recvStruct = "", ""
		if fd, ok := d.(*ast.FuncDecl); ok && fd.Recv != nil && len(fd.Recv.List) == 1 {
			rt := fd.Recv.List[0].Type
			if st, ok := rt.(*ast.StarExpr); ok {
				rt = st.X
			}
			if len(fd.Recv.List[0].Names) == 1 && fd.Recv.List[0].Names[0].Name != "_" {
				recvName, recvStruct = fd.Recv.List[0].Names[0].Name, c14TypeString(rt)
			}
		}
		var stack []ast.Node
		ast.Inspect(d, func(n ast.Node) bool {
			if n == nil {
				stack = stack[:len(stack)-1]
				return true
			}
			stack = append(stack, n)
			switch x := n.(type) {
			case *ast.CompositeLit:
				tn := ""
				switch t := x.Type.(type) {
				case *ast.Ident:
					tn = t.Name
				}
				for _, el := range x.Elts {
					if kv, ok := el.(*ast.KeyValueExpr); ok {
						if id, ok := kv.Key.(*ast.Ident); ok {
							if ft, ok := facts[tn+"."+id.Name]; ok {
								ft.init++
							}
						}
					}
				}
			case *ast.SelectorExpr:
				if _, isField := byField[x.Sel.Name]; !isField {
					return true
				}
				curSel = x
				if id, ok := x.X.(*ast.Ident); ok && id.Obj == nil && (id.Name == "maps" || id.Name == "sync" || id.Name == "atomic") {
					return true // package selector
				}
				// parent decides
				var parent, grand ast.Node
				if len(stack) >= 2 {
					parent = stack[len(stack)-2]
				}
				if len(stack) >= 3 {
					grand = stack[len(stack)-3]
				}
				how := ""
				if ie, ok := parent.(*ast.IndexExpr); ok && ie.X == ast.Expr(x) {
					// x.f[k]: insert when it is a left-hand side of a plain assignment, read otherwise — unless the
					// element itself is modified in another way
					switch gp := grand.(type) {
					case *ast.AssignStmt:
						isLHS := false
						for _, l := range gp.Lhs {
							if l == ast.Expr(ie) {
								isLHS = true
							}
						}
						switch {
						case isLHS && gp.Tok == token.ASSIGN:
							charge(x.Sel.Name, func(ft *c18TblFact) { ft.inserts++ })
						case isLHS:
							how = "element " + gp.Tok.String()
						default:
							charge(x.Sel.Name, func(ft *c18TblFact) { ft.reads++ })
						}
					case *ast.IncDecStmt:
						how = "element " + gp.Tok.String()
					case *ast.UnaryExpr:
						if gp.Op == token.AND {
							how = "address of element"
						} else {
							charge(x.Sel.Name, func(ft *c18TblFact) { ft.reads++ })
						}
					default:
						charge(x.Sel.Name, func(ft *c18TblFact) { ft.reads++ })
					}
				} else {
					switch p := parent.(type) {
					case *ast.CallExpr:
						fn := "call"
						switch c := p.Fun.(type) {
						case *ast.Ident:
							fn = c.Name
						case *ast.SelectorExpr:
							fn = c14TypeString(c)
						}
						how = fn + "(…)"
					case *ast.RangeStmt:
						how = "range"
					case *ast.AssignStmt:
						how = "field " + p.Tok.String()
					case *ast.UnaryExpr:
						how = "unary " + p.Op.String()
					default:
						how = fmt.Sprintf("%T", parent)
					}
				}
				if how != "" {
					charge(x.Sel.Name, func(ft *c18TblFact) {
						ft.other++
						ft.otherHow = append(ft.otherHow, how)
					})
				}
			}
			return true
		})
	}
	var keys []string
	for k := range facts {
		keys = append(keys, k)
	}
	sort.Strings(keys)
	var sb strings.Builder
	sb.WriteString("-- GENERATED by /verif/go/cmd/extract (gen_c18tbl.go) from /repo (T2: go/ast facts). Do not edit.\n")
	sb.WriteString("namespace RdfModel.Gen.TableFacts\n\n")
	sb.WriteString(`/-- one map-typed struct field of rdf/blanknodes (string_factory.go, int64_string_provider.go,
    uuid_string_provider.go, mapper.go) and every syntactic use of it in those files -/
structure TableFact where
  struct : String
  field : String
  type : String
  /-- ` + "`x.f[k]`" + ` evaluated (also the comma-ok form) -/
  reads : Nat
  /-- ` + "`x.f[k] = v`" + ` -/
  inserts : Nat
  /-- any other use: ` + "`clear(x.f)`, `delete(x.f, k)`, `len(x.f)`, `range x.f`, `x.f = …`, `x.f[k] += …`, `&x.f[k]`" + `, … -/
  other : Nat
  /-- composite literals of the struct that initialise the field -/
  inits : Nat
  deriving DecidableEq, Repr

`)
	sb.WriteString("def tables : List TableFact := [\n")
	for i, k := range keys {
		ft := facts[k]
		sep := ","
		if i == len(keys)-1 {
			sep = ""
		}
		fmt.Fprintf(&sb, "  { struct := %s, field := %s, type := %s, reads := %d, inserts := %d, other := %d, inits := %d }%s",
			c14LeanStr(ft.strct), c14LeanStr(ft.field), c14LeanStr(ft.typ), ft.reads, ft.inserts, ft.other, ft.init, sep)
		if len(ft.otherHow) > 0 {
			fmt.Fprintf(&sb, " -- other: %s", strings.Join(ft.otherHow, "; "))
		}
		sb.WriteString("\n")
	}
	sb.WriteString("]\n\nend RdfModel.Gen.TableFacts\n")
	writeIfChanged(filepath.Join(leanRoot, "RdfModel", "Gen", "TableFacts.lean"), sb.String())
}
