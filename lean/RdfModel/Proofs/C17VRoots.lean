/-
  C17 helper lemmas, part 10: the repaired export — one loop of ExportResources over the subject map.
-/
import RdfModel.Proofs.C17V
namespace RdfModel.Proofs.C17
open RdfModel RdfModel.Desc RdfModel.C17

variable {β : Type} [DecidableEq β]

theorem mem_mark {V : List β} {b c : β} : c ∈ mark V b ↔ c = b ∨ c ∈ V := by
  unfold mark
  split
  · rename_i h
    constructor
    · exact Or.inr
    · rintro (rfl | h')
      · exact h
      · exact h'
  · simp

theorem mem_markSubject {V : List β} {s : Term β} {c : β} :
    c ∈ markSubject V s ↔ s = Term.bnode c ∨ c ∈ V := by
  cases s with
  | bnode b =>
    simp only [markSubject, mem_mark, Term.bnode.injEq]
    constructor
    · rintro (rfl | h)
      · exact Or.inl rfl
      · exact Or.inr h
    · rintro (rfl | h)
      · exact Or.inl rfl
      · exact Or.inr h
  | iri v => simp [markSubject]
  | lit l d t => simp [markSubject]

/-- What is known after one loop of ExportResources over `ord` from the set `V`. -/
structure RootsGoodV (B : Builder β) (opts : Opts) (pick : Term β → List β → Bool)
    (ord : List (Term β)) (V : List β) (rs : List (Resource β)) (picked : List (Term β))
    (W : List (Triple β)) (ali al nm : List β) (V' : List β) : Prop where
  sub : picked.Sublist ord
  mono : ∀ b ∈ V, b ∈ V'
  marks : ∀ b ∈ V', b ∈ V ∨ b ∈ ali ∨ Term.bnode b ∈ picked
  marked_ali : ∀ b ∈ ali, b ∈ V'
  marked_root : ∀ b, Term.bnode b ∈ picked → b ∈ V'
  fresh : ∀ b ∈ ali, b ∉ V
  nodup : ali.Nodup
  inl : ∀ b ∈ ali, B.isInl opts (Term.bnode b) = true
  root_not_ali : ∀ b, Term.bnode b ∈ picked → b ∉ ali
  picked_ok : ∀ s ∈ picked, ∃ Vs, (∀ b ∈ V, b ∈ Vs) ∧ pick s Vs = true
  cover : ∀ s ∈ ord, s ∈ picked ∨ ∃ Vs, (∀ b ∈ Vs, b ∈ V') ∧ pick s Vs = false
  perm : W.Perm (picked.flatMap (own B) ++ ali.flatMap (ownB B))
  objs : (bobjs W).Perm (ali ++ nm)
  allocs : (al.map Term.bnode).Perm (ali.map Term.bnode ++ picked.filter (isAnonRoot B opts))
  count : ∀ n, (newTriplesList rs n).2 = n + al.length
  image : ∀ n (σ : β → BN β), al.map σ = (List.range' n al.length).map BN.fresh →
    (∀ b ∈ nm, σ b = BN.orig b) →
    (∀ s ∈ picked, isAnonRoot B opts s = false → s.map σ = s.map BN.orig) →
    (newTriplesList rs n).1 = W.map (Triple.map σ)

theorem resourceOf_anon (B : Builder β) (opts : Opts) (s : Term β) (st : List (Stmt β))
    (h : isAnonRoot B opts s = true) : B.resourceOf opts s st = Resource.anon st := by
  cases s with
  | bnode b => simp only [isAnonRoot] at h; simp [Builder.resourceOf, h]
  | iri v => simp [isAnonRoot] at h
  | lit l d t => simp [isAnonRoot] at h

theorem resourceOf_subject (B : Builder β) (opts : Opts) (s : Term β) (st : List (Stmt β))
    (h : isAnonRoot B opts s = false) : B.resourceOf opts s st = Resource.subject (some s) st := by
  cases s with
  | bnode b => simp only [isAnonRoot] at h; simp [Builder.resourceOf, h]
  | iri v => rfl
  | lit l d t => rfl

/-- `pick` only selects a once-referenced blank node when it is not in the set yet -/
def PickOK (B : Builder β) (opts : Opts) (pick : Term β → List β → Bool) : Prop :=
  ∀ s V, pick s V = true → B.isInl opts s = false ∨ ∃ b, s = Term.bnode b ∧ b ∉ V

theorem rootsV (B : Builder β) (opts : Opts) (fuel : Nat) (pick : Term β → List β → Bool)
    (hpick : PickOK B opts pick) :
    ∀ (ord : List (Term β)) (V : List β) (rs : List (Resource β)) (V' : List β),
      B.foldRootsV opts fuel pick ord V = some (rs, V') →
      ∃ picked W ali al nm, RootsGoodV B opts pick ord V rs picked W ali al nm V' := by
  intro ord
  induction ord with
  | nil =>
    intro V rs V' h
    simp only [Builder.foldRootsV, Option.some.injEq, Prod.mk.injEq] at h
    obtain ⟨rfl, rfl⟩ := h
    refine ⟨[], [], [], [], [], ⟨List.Sublist.refl _, fun _ h => h, fun _ h => Or.inl h, by simp, by simp,
      by simp, by simp, by simp, by simp, by simp, by simp, by simp, by simp [bobjs_nil], by simp, ?_, ?_⟩⟩
    · intro n; simp [newTriplesList]
    · intro n σ _ _ _; simp [newTriplesList]
  | cons s ord ih =>
    intro V rs V' h
    simp only [Builder.foldRootsV] at h
    by_cases hp : pick s V = true
    · simp only [hp, if_true] at h
      cases hexp : B.exportResourceV opts fuel s V with
      | none => simp [hexp] at h
      | some r1 =>
        obtain ⟨r, V1⟩ := r1
        simp only [hexp] at h
        cases hfold : B.foldRootsV opts fuel pick ord V1 with
        | none => simp [hfold] at h
        | some r2 =>
          obtain ⟨rs', V2⟩ := r2
          simp only [hfold, Option.some.injEq, Prod.mk.injEq] at h
          obtain ⟨rfl, rfl⟩ := h
          unfold Builder.exportResourceV at hexp
          obtain ⟨⟨st, V1'⟩, hst, hr⟩ := Option.map_eq_some_iff.1 hexp
          simp only [Prod.mk.injEq] at hr
          obtain ⟨rfl, rfl⟩ := hr
          obtain ⟨Ws, als, nms, gs⟩ := localV B opts fuel s V st V1' hst
          obtain ⟨picked', W', ali', al', nm', g'⟩ := ih V1' rs' V2 hfold
          -- facts about the sets
          have hV1 : ∀ c, c ∈ V1' ↔ c ∈ als ∨ s = Term.bnode c ∨ c ∈ V := by
            intro c; rw [gs.marks]; simp [mem_markSubject]
          have hals_fresh : ∀ c ∈ als, c ∉ V ∧ s ≠ Term.bnode c := by
            intro c hc
            have := gs.fresh c hc
            rw [mem_markSubject] at this
            exact ⟨fun h => this (Or.inr h), fun h => this (Or.inl h)⟩
          have hroot_s : ∀ c, s = Term.bnode c → c ∉ als ∧ c ∉ ali' := by
            intro c hc
            refine ⟨fun h => (hals_fresh c h).2 hc, fun h => ?_⟩
            exact g'.fresh c h ((hV1 c).2 (Or.inr (Or.inl hc)))
          by_cases ha : isAnonRoot B opts s = true
          · -- AnonResource
            obtain ⟨b, rfl⟩ : ∃ b, s = Term.bnode b := by
              cases s with
              | bnode b => exact ⟨b, rfl⟩
              | iri v => simp [isAnonRoot] at ha
              | lit l d t => simp [isAnonRoot] at ha
            rw [resourceOf_anon B opts _ st ha]
            refine ⟨Term.bnode b :: picked', Ws ++ W', als ++ ali', b :: (als ++ al'), nms ++ nm',
              ⟨g'.sub.cons_cons _, ?_, ?_, ?_, ?_, ?_, ?_, ?_, ?_, ?_, ?_, ?_, ?_, ?_, ?_, ?_⟩⟩
            · intro c hc; exact g'.mono c ((hV1 c).2 (Or.inr (Or.inr hc)))
            · intro c hc
              rcases g'.marks c hc with h1 | h1 | h1
              · rcases (hV1 c).1 h1 with h2 | h2 | h2
                · exact Or.inr (Or.inl (by simp [h2]))
                · exact Or.inr (Or.inr (by simp [h2]))
                · exact Or.inl h2
              · exact Or.inr (Or.inl (by simp [h1]))
              · exact Or.inr (Or.inr (by simp [h1]))
            · intro c hc
              rcases List.mem_append.1 hc with h1 | h1
              · exact g'.mono c ((hV1 c).2 (Or.inl h1))
              · exact g'.marked_ali c h1
            · intro c hc
              rcases List.mem_cons.1 hc with h1 | h1
              · exact g'.mono c ((hV1 c).2 (Or.inr (Or.inl h1.symm)))
              · exact g'.marked_root c h1
            · intro c hc
              rcases List.mem_append.1 hc with h1 | h1
              · exact (hals_fresh c h1).1
              · exact fun h => g'.fresh c h1 ((hV1 c).2 (Or.inr (Or.inr h)))
            · rw [List.nodup_append]
              refine ⟨gs.nodup, g'.nodup, ?_⟩
              intro c hc d hd hcd
              subst hcd
              exact g'.fresh c hd ((hV1 c).2 (Or.inl hc))
            · intro c hc
              rcases List.mem_append.1 hc with h1 | h1
              · exact gs.inl c h1
              · exact g'.inl c h1
            · intro c hc hc2
              rcases List.mem_cons.1 hc with h1 | h1
              · have := hroot_s c h1.symm
                rcases List.mem_append.1 hc2 with h2 | h2
                · exact this.1 h2
                · exact this.2 h2
              · rcases List.mem_append.1 hc2 with h2 | h2
                · -- c inlined under s, and a later root: later root is picked with c ∉ Vs or not inl
                  obtain ⟨Vs, hVs, hpk⟩ := g'.picked_ok _ h1
                  rcases hpick _ _ hpk with h3 | ⟨c', hc', h3⟩
                  · rw [gs.inl c h2] at h3; cases h3
                  · cases hc'
                    exact h3 (hVs c ((hV1 c).2 (Or.inl h2)))
                · exact g'.root_not_ali c h1 h2
            · intro s' hs'
              rcases List.mem_cons.1 hs' with rfl | h1
              · exact ⟨V, fun _ h => h, hp⟩
              · obtain ⟨Vs, hVs, hpk⟩ := g'.picked_ok s' h1
                exact ⟨Vs, fun c hc => hVs c ((hV1 c).2 (Or.inr (Or.inr hc))), hpk⟩
            · intro s' hs'
              rcases List.mem_cons.1 hs' with rfl | h1
              · exact Or.inl (by simp)
              · rcases g'.cover s' h1 with h2 | h2
                · exact Or.inl (by simp [h2])
                · exact Or.inr h2
            · have p1 := gs.perm
              have p2 := g'.perm
              have e : (Ws ++ W').Perm ((List.map (tr (Term.bnode b)) (B.stmts (Term.bnode b)) ++ List.flatMap (ownB B) als) ++
                  (List.flatMap (own B) picked' ++ List.flatMap (ownB B) ali')) := List.Perm.append p1 p2
              refine e.trans ?_
              simp only [List.flatMap_cons, List.flatMap_append]
              have : own B (Term.bnode b) = List.map (tr (Term.bnode b)) (B.stmts (Term.bnode b)) := rfl
              rw [this, List.perm_iff_count]
              intro a
              simp only [List.count_append]
              omega
            · simp only [bobjs_append]
              refine (List.Perm.append gs.objs g'.objs).trans ?_
              rw [List.perm_iff_count]
              intro a
              simp only [List.count_append]
              omega
            · simp only [List.map_cons, List.map_append, List.filter_cons, ha, if_true]
              have e := g'.allocs
              -- b :: (als ++ al') ~ (als ++ ali') ++ b :: anon'
              refine List.Perm.trans ?_ List.perm_middle.symm
              refine List.Perm.cons _ ?_
              rw [List.append_assoc]
              exact List.Perm.append_left _ e
            · intro n
              rw [newTriplesList_cons]
              simp only [Resource.newTriples, gs.count, g'.count, List.length_cons, List.length_append]
              omega
            · intro n σ hal hnm hroot
              have hal' : ([b] ++ (als ++ al')).map σ = (List.range' n ([b].length + (als ++ al').length)).map BN.fresh := by
                simpa [Nat.add_comm] using hal
              obtain ⟨hσb, hal2⟩ := (split_alloc σ [b] (als ++ al') n).1 hal'
              simp only [List.length_append] at hal2
              obtain ⟨halb, hal'2⟩ := (split_alloc σ als al' (n + [b].length)).1 hal2
              simp only [List.map_cons, List.map_nil, List.length_cons, List.length_nil, Nat.zero_add,
                List.range'_one, List.cons.injEq, and_true] at hσb
              simp only [List.length_cons, List.length_nil, Nat.zero_add] at halb hal'2
              rw [newTriplesList_cons]
              simp only [Resource.newTriples, gs.count]
              rw [gs.image (Term.bnode (BN.fresh n)) (n + 1) σ (by simp [Term.map, hσb]) halb
                (fun c hc => hnm c (by simp [hc]))]
              rw [g'.image (n + 1 + als.length) σ hal'2 (fun c hc => hnm c (by simp [hc]))
                (fun s' hs' => hroot s' (by simp [hs']))]
              simp
          · -- SubjectResource
            have ha' : isAnonRoot B opts s = false := by simpa using ha
            rw [resourceOf_subject B opts _ st ha']
            refine ⟨s :: picked', Ws ++ W', als ++ ali', als ++ al', nms ++ nm',
              ⟨g'.sub.cons_cons _, ?_, ?_, ?_, ?_, ?_, ?_, ?_, ?_, ?_, ?_, ?_, ?_, ?_, ?_, ?_⟩⟩
            · intro c hc; exact g'.mono c ((hV1 c).2 (Or.inr (Or.inr hc)))
            · intro c hc
              rcases g'.marks c hc with h1 | h1 | h1
              · rcases (hV1 c).1 h1 with h2 | h2 | h2
                · exact Or.inr (Or.inl (by simp [h2]))
                · exact Or.inr (Or.inr (by simp [h2]))
                · exact Or.inl h2
              · exact Or.inr (Or.inl (by simp [h1]))
              · exact Or.inr (Or.inr (by simp [h1]))
            · intro c hc
              rcases List.mem_append.1 hc with h1 | h1
              · exact g'.mono c ((hV1 c).2 (Or.inl h1))
              · exact g'.marked_ali c h1
            · intro c hc
              rcases List.mem_cons.1 hc with h1 | h1
              · exact g'.mono c ((hV1 c).2 (Or.inr (Or.inl h1.symm)))
              · exact g'.marked_root c h1
            · intro c hc
              rcases List.mem_append.1 hc with h1 | h1
              · exact (hals_fresh c h1).1
              · exact fun h => g'.fresh c h1 ((hV1 c).2 (Or.inr (Or.inr h)))
            · rw [List.nodup_append]
              refine ⟨gs.nodup, g'.nodup, ?_⟩
              intro c hc d hd hcd
              subst hcd
              exact g'.fresh c hd ((hV1 c).2 (Or.inl hc))
            · intro c hc
              rcases List.mem_append.1 hc with h1 | h1
              · exact gs.inl c h1
              · exact g'.inl c h1
            · intro c hc hc2
              rcases List.mem_cons.1 hc with h1 | h1
              · have := hroot_s c h1.symm
                rcases List.mem_append.1 hc2 with h2 | h2
                · exact this.1 h2
                · exact this.2 h2
              · rcases List.mem_append.1 hc2 with h2 | h2
                · obtain ⟨Vs, hVs, hpk⟩ := g'.picked_ok _ h1
                  rcases hpick _ _ hpk with h3 | ⟨c', hc', h3⟩
                  · rw [gs.inl c h2] at h3; cases h3
                  · cases hc'
                    exact h3 (hVs c ((hV1 c).2 (Or.inl h2)))
                · exact g'.root_not_ali c h1 h2
            · intro s' hs'
              rcases List.mem_cons.1 hs' with rfl | h1
              · exact ⟨V, fun _ h => h, hp⟩
              · obtain ⟨Vs, hVs, hpk⟩ := g'.picked_ok s' h1
                exact ⟨Vs, fun c hc => hVs c ((hV1 c).2 (Or.inr (Or.inr hc))), hpk⟩
            · intro s' hs'
              rcases List.mem_cons.1 hs' with rfl | h1
              · exact Or.inl (by simp)
              · rcases g'.cover s' h1 with h2 | h2
                · exact Or.inl (by simp [h2])
                · exact Or.inr h2
            · have p1 := gs.perm
              have p2 := g'.perm
              have e : (Ws ++ W').Perm ((List.map (tr s) (B.stmts s) ++ List.flatMap (ownB B) als) ++
                  (List.flatMap (own B) picked' ++ List.flatMap (ownB B) ali')) := List.Perm.append p1 p2
              refine e.trans ?_
              simp only [List.flatMap_cons, List.flatMap_append]
              have : own B s = List.map (tr s) (B.stmts s) := rfl
              rw [this, List.perm_iff_count]
              intro a
              simp only [List.count_append]
              omega
            · simp only [bobjs_append]
              refine (List.Perm.append gs.objs g'.objs).trans ?_
              rw [List.perm_iff_count]
              intro a
              simp only [List.count_append]
              omega
            · simp only [List.map_append, List.filter_cons, ha', Bool.false_eq_true, if_false]
              rw [List.append_assoc]
              exact List.Perm.append_left _ g'.allocs
            · intro n
              rw [newTriplesList_cons]
              simp only [Resource.newTriples, gs.count, g'.count, List.length_append]
              omega
            · intro n σ hal hnm hroot
              obtain ⟨hal1, hal2⟩ := (split_alloc σ als al' n).1 (by simpa using hal)
              rw [newTriplesList_cons]
              simp only [Resource.newTriples, gs.count]
              rw [gs.image (s.map BN.orig) n σ (hroot s (by simp) ha') hal1 (fun c hc => hnm c (by simp [hc]))]
              rw [g'.image (n + als.length) σ hal2 (fun c hc => hnm c (by simp [hc]))
                (fun s' hs' => hroot s' (by simp [hs']))]
              simp
    · -- not picked
      have hp' : pick s V = false := by simpa using hp
      simp only [hp', Bool.false_eq_true, if_false] at h
      obtain ⟨picked', W', ali', al', nm', g'⟩ := ih V rs V' h
      refine ⟨picked', W', ali', al', nm', ⟨g'.sub.cons _, g'.mono, g'.marks, g'.marked_ali, g'.marked_root,
        g'.fresh, g'.nodup, g'.inl, g'.root_not_ali, g'.picked_ok, ?_, g'.perm, g'.objs, g'.allocs, g'.count, g'.image⟩⟩
      intro s' hs'
      rcases List.mem_cons.1 hs' with rfl | h1
      · exact Or.inr ⟨V, g'.mono, hp'⟩
      · exact g'.cover s' h1

end RdfModel.Proofs.C17
