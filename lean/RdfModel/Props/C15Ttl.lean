/-
  C15 — truncation and reader failures are reported (statement layer of Turtle / TriG).

  The decoder model consumes `List Rune × End` (`End = eof | ioerr`); that `bufio` turns every
  chunking of the bytes into that stream is outside the model (recorded assumption, checked by the
  harness with 1-, 2-, 3-, 7-byte and random chunk readers, which split multi-byte runes).
  Determinism ("decoding twice gives the same") is functionhood of `run`.

  PROVED for every input and configuration (repaired code, D13):
    * `ioerr_reported`         a failing reader never yields a clean end;
    * `clean_only_at_eof`      the contrapositive form: verdict `clean` ⇒ the stream ended with EOF;
    * `ttl_truncation_reported_partial`  when the input ends (possibly after white space and
      comments, also a comment without final newline) while any scan function other than the
      top-level one is the next to run, that call returns the stream's error (`eof` / `io`) — for
      all scan functions that look at their `err` argument. EXCLUDED (they ignore `err`, see
      `Cont.checksErr`): the closures of `(`/`[` in subject position, `GRAPH [`, and `E1` (after a
      TriG label); for these the Go code reports a later "unexpected rune '\x00'" error, which the
      model reproduces and the harness compares, but no theorem is proved.
    * `top_level_clean`        conversely the top-level function at EOF ends the run cleanly.
  NOT proved, stated as `def`: `prefix_monotone` (needs locality lemmas for every token producer:
  a producer that stops before the end of a prefix behaves the same on every extension).
  Finding D43 (known, not repaired) bounds what can hold: a cut right after a `.` inside a number or name in a collection
  yields TWO trailing statements that are not statements of the whole document.
-/
import RdfModel.Props.C06Ttl
namespace RdfModel.C15
open RdfModel RdfModel.TtlDoc

/-- A reader error is never swallowed: the run does not end cleanly. -/
theorem ioerr_reported (C : Cfg) (hP : C.P.NoPanic) (hL : C.P.LangNonEmpty)
    (base : Option (List Nat)) (pf : List (List Nat × List Nat)) (inp : List Nat) :
    (run C .ioerr base pf inp).2 ≠ .clean :=
  (runLoop_ok hP hL _ _ (mInv_init C .ioerr base pf inp)).2.2 rfl

theorem clean_only_at_eof (C : Cfg) (e : End) (hP : C.P.NoPanic) (hL : C.P.LangNonEmpty)
    (base : Option (List Nat)) (pf : List (List Nat × List Nat)) (inp : List Nat)
    (h : (run C e base pf inp).2 = .clean) : e = .eof := by
  cases e with
  | eof => rfl
  | ioerr => exact absurd h (ioerr_reported C hP hL base pf inp)

theorem ioerr_reported_real (trig : Bool) (resolve) (isSpace) (base : Option (List Nat))
    (pf : List (List Nat × List Nat)) (inp : List Nat) :
    (run (C05.realCfg trig resolve isSpace) .ioerr base pf inp).2 ≠ .clean := by
  have hT : inRanges (if trig then Gen.trig else Gen.turtle).pnCharsBase 0 = false := by
    cases trig
    · exact C05.gen_tables_nul.1
    · exact C05.gen_tables_nul.2
  obtain ⟨h1, _, h3⟩ := C05.real_producers_ok _ hT
  exact ioerr_reported _ h1 h3 base pf inp

/-- scan functions that test `err != nil` before anything else -/
def Cont.checksErr : Cont → Bool
  | .statement | .collOpenSubj _ | .parenTop _ | .parenBlock _ | .graphAnonClose | .tgE1 _ | .tgBracket _ => false
  | _ => true

/-- End of input inside a statement: the pending scan function reports it. -/
theorem ttl_truncation_reported_partial (C : Cfg) (e : End) (f : Frame) (st : St)
    (hk : Cont.checksErr f.k = true) (hend : skipWs C e false st.inp = .end_) :
    scan C e f st = .err (endCls e) := by
  have : stepFn C e f.k f.x st.env .fail = .err (endCls e) := by
    cases hf : f.k <;> first | rfl | (rw [hf] at hk; simp [Cont.checksErr] at hk)
  simp [scan, scanFn, hend, this]

/-- … and `Next()` then returns false with that error latched. -/
theorem ttl_truncation_next (C : Cfg) (e : End) (f : Frame) (st : St) (fuel : Nat)
    (hk : Cont.checksErr f.k = true) (hend : skipWs C e false st.inp = .end_)
    (herr : st.err = none) (hst : st.stmts = []) :
    ∃ st', nextLoop C e (fuel + 2) (some f) st = .no st' ∧ st'.err = some (endCls e) := by
  refine ⟨{ st with err := some (endCls e) }, ?_, rfl⟩
  unfold nextLoop
  simp only [herr, hst, popFrame, ttl_truncation_reported_partial C e f st hk hend]
  unfold nextLoop
  simp

/-- D13 (repaired): a comment that runs to the end of the input is such an end of input. -/
example (C : Cfg) : skipWs C .eof false (asc "  # c") = .end_ := by
  simp [asc, skipWs, isWs]

/-- The top-level function at a clean end of input terminates the run. -/
theorem top_level_clean (C : Cfg) (x : Ectx) (st : St) (hend : skipWs C .eof false st.inp = .end_) :
    scan C .eof ⟨x, .statement⟩ st = .ok none { st with stack := [], inp := [] } := by
  simp [scan, scanFn, hend, stepFn, applyOut]

/-- FULL STATEMENT (not proved): the statements decoded from a prefix are, in order, statements of the
    whole document, except possibly the last one. False as it stands on the code (D43: two). -/
def prefix_monotone : Prop :=
  ∀ (C : Cfg) (base : Option (List Nat)) (pf : List (List Nat × List Nat)) (p s : List Nat) (ts : List Stmt),
    C.P.NoPanic → C.P.Consumes →
    run C .eof base pf (p ++ s) = (ts, .clean) →
    ((run C .eof base pf p).1.dropLast <+: ts)

end RdfModel.C15
