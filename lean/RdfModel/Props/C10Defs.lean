/-
  Definitions used by the C10 theorems (core-only: the driver evaluates these predicates too).

  * `WFQuad` / `WFDataset`: the datasets a JSON-LD document can denote — subjects and graph names are
    IRIs or blank nodes, every IRI (also datatypes and predicates) is absolute in the sense of the
    fragment (`JL.absIri`), a literal has a language tag iff its datatype is rdf:langString, tags are
    well-formed (`JL.langOK`);
  * hypotheses of the encoder theorem: default graph only, no literal the encoder writes as a native
    JSON value, and the certificate `encCert`.
-/
import RdfModel.Spec.JsonLdWriter
import RdfModel.Model.JsonLdEncoder
namespace RdfModel.C10
open RdfModel RdfModel.Desc RdfModel.JL

variable {β : Type}

/-- a term in object position -/
def wfObj : Term β → Bool
  | .iri v => absIri v
  | .bnode _ => true
  | .lit _ dt (some l) => dt == rdfLangString && langOK l
  | .lit _ dt none => absIri dt

/-- a term in subject or graph-name position -/
def wfNode : Term β → Bool
  | .iri v => absIri v
  | .bnode _ => true
  | .lit _ _ _ => false

def wfQuad (q : DQuad β) : Bool :=
  wfNode q.t.s && absIri q.t.p && wfObj q.t.o &&
  (match q.g with
   | none => true
   | some g => wfNode g)

/-- the dataset is one a JSON-LD document can denote -/
def WFDataset (d : List (DQuad β)) : Prop := ∀ q ∈ d, wfQuad q = true

instance (d : List (DQuad β)) : Decidable (WFDataset d) := by unfold WFDataset; exact inferInstance

end RdfModel.C10
