/-
  C09 helper lemmas, part 3: documents, the flat plan, the writer.
-/
import RdfModel.Proofs.C09Round
import RdfModel.Props.C09Defs
import RdfModel.Spec.GraphIso
namespace RdfModel.RX
open RdfModel RdfModel.Desc RdfModel.C09

variable (rs : Str → Str → Str)

/-! ### documents -/

theorem nodeList_render : ∀ (ns : List PNode) (env : Env) (st st' : St), wfNodes rs env st ns = some st' →
    nodeList rs env (renderNodes ns) st = .ok (flatNodes ns, st')
  | [], env, st, st', h => by
    simp only [wfNodes, Option.some.injEq] at h
    simp [renderNodes, nodeList, flatNodes, h]
  | n :: ns, env, st, st', h => by
    simp only [wfNodes] at h
    cases hn : wfNode rs env st n with
    | none => rw [hn] at h; exact absurd h (by simp)
    | some st1 =>
      rw [hn] at h
      have h1 := nodeElt_render rs n env st st1 hn
      have h2 := nodeList_render ns env st1 st' h
      cases n
      simp only [renderNode] at h1
      simp only [renderNodes, renderNode, nodeList, h1, h2, flatNodes]

theorem denoteDoc_render (env : Env) (d : PDoc) (h : wfDoc rs env d = true) :
    denoteDoc rs env (renderDoc d) = .ok (flatDoc d) := by
  simp only [wfDoc, Option.isSome_iff_exists] at h
  obtain ⟨st', h⟩ := h
  have h1 := nodeList_render rs d.nodes _ _ _ h
  simp only [renderDoc, denoteDoc]
  rw [info_stdAttrs _ (by simp) rfl rfl]
  simp [h1, flatDoc]

/-! ### the flat plan -/

theorem splitAt_append (p : Str) : ∀ (fuel i : Nat) (ns name : Str),
    splitAt p fuel i = some (ns, name) → ns ++ name = p
  | 0, _, _, _, h => by simp [splitAt] at h
  | fuel + 1, i, ns, name, h => by
    simp only [splitAt] at h
    split at h
    · simp only [Option.some.injEq, Prod.mk.injEq] at h
      rw [← h.1, ← h.2]; exact List.take_append_drop i p
    · exact splitAt_append p fuel (i + 1) ns name h

theorem predOK_facts (p : Str) (h : predOK p = true) :
    wfName 0 (predName p) = true ∧ (predName p).pred = p := by
  simp only [predOK] at h
  simp only [predName]
  split at h
  · rename_i ns name hs
    exact ⟨h, splitAt_append p _ _ ns name hs⟩
  · exact absurd h (by simp)

theorem push_none (env : Env) : env.push rs none none = env := by
  cases env; rfl

variable {β : Type}

theorem flatPlanNode_wf (base : Str) (label : β → Str) (hl : LabelsOK label) (t : Triple β)
    (ht : TripleOK rs base t) (st : St) :
    wfNode rs ⟨base, none⟩ st (flatPlanNode label t) = some st := by
  obtain ⟨hn, _⟩ := predOK_facts t.p ht.pred
  have hs := ht.subj
  have ho := ht.obj
  obtain ⟨s, p, o⟩ := t
  simp only [flatPlanNode, wfNode, push_none]
  have e0 : (wfTyp none && wfPAttrs rs ⟨base, none⟩ []) = true := by simp [wfTyp, wfPAttrs]
  rw [if_pos e0]
  have e1 : wfSubj rs ⟨base, none⟩ st (flatSubj label s) = some st := by
    cases s with
    | iri i => simp only [SubjOK, IriOK] at hs; simp [flatSubj, wfSubj, hs]
    | bnode b => simp [flatSubj, wfSubj, hl.ncname b]
    | lit _ _ _ => exact absurd hs (by simp [SubjOK])
  rw [e1]
  simp only [wfProps]
  have e2 : wfProp rs ⟨base, none⟩ 0 st (flatProp1 label p o) = some (0, st) := by
    have hnl : PName.nextLi 0 (predName p) = 0 := by
      simp only [predName]; split <;> rfl
    cases o with
    | iri i =>
      simp only [ObjOK, IriOK] at ho
      simp [flatProp1, wfProp, push_none, hn, ho, wfPAttrs, wfId, hnl]
    | bnode b => simp [flatProp1, wfProp, push_none, hn, hl.ncname b, wfPAttrs, wfId, hnl]
    | lit lex dt lang =>
      cases lang with
      | some l =>
        simp only [ObjOK] at ho
        have hpush : Env.push rs ⟨base, none⟩ none (some l) = ⟨base, some l⟩ := by
          cases l with
          | nil => exact absurd rfl ho.1
          | cons c cs => rfl
        by_cases hlex : lex = []
        · simp [flatProp1, hlex, wfProp, hpush, hn, wfId, hnl]
        · simp [flatProp1, hlex, wfProp, hpush, hn, wfId, hnl]
      | none =>
        simp only [ObjOK, IriOK] at ho
        by_cases hdt : dt = xsdString
        · by_cases hlex : lex = []
          · simp [flatProp1, hdt, hlex, wfProp, push_none, hn, wfId, hnl]
          · simp [flatProp1, hdt, hlex, wfProp, push_none, hn, wfId, hnl]
        · rcases ho with ho | ho
          · exact absurd ho hdt
          · simp [flatProp1, hdt, wfProp, push_none, hn, wfId, hnl, ho.1, ho.2]
  rw [e2]

theorem flatPlan_wf (base : Str) (label : β → Str) (hl : LabelsOK label) (g : List (Triple β))
    (hg : ∀ t ∈ g, TripleOK rs base t) : wfDoc rs ⟨base, none⟩ (flatPlan label g) = true := by
  have : ∀ (g : List (Triple β)) (st : St), (∀ t ∈ g, TripleOK rs base t) →
      wfNodes rs ⟨base, none⟩ st (g.map (flatPlanNode label)) = some st := by
    intro g
    induction g with
    | nil => intro st _; rfl
    | cons t g ih =>
      intro st hg
      simp only [List.map_cons, wfNodes]
      rw [flatPlanNode_wf rs base label hl t (hg t (by simp)) st]
      exact ih st (fun t' ht' => hg t' (by simp [ht']))
  simp only [wfDoc, flatPlan, push_none]
  rw [this g St.init hg]; rfl

theorem flatPlanNode_flat (base : Str) (label : β → Str) (t : Triple β) (ht : TripleOK rs base t) :
    flatNode (flatPlanNode label t) = [Triple.map (fun b => BN.named (label b)) t] := by
  obtain ⟨_, hp⟩ := predOK_facts t.p ht.pred
  have hs := ht.subj
  have ho := ht.obj
  obtain ⟨s, p, o⟩ := t
  simp only at hp
  have es : (flatSubj label s).term = s.map (fun b => BN.named (label b)) := by
    cases s with
    | iri i => rfl
    | bnode b => rfl
    | lit _ _ _ => exact absurd hs (by simp [SubjOK])
  simp only [flatPlanNode, flatNode, typTriple, List.map_nil, List.nil_append, flatProps, List.append_nil, es,
    Triple.map]
  cases o with
  | iri i => simp [flatProp1, flatProp, withReify, PId.iri, hp, Term.map]
  | bnode b => simp [flatProp1, flatProp, withReify, PId.iri, hp, Term.map]
  | lit lex dt lang =>
    cases lang with
    | some l =>
      simp only [ObjOK] at ho
      by_cases hlex : lex = []
      · simp [flatProp1, hlex, flatProp, withReify, PId.iri, hp, Term.map, mkLit, ho.2]
      · simp [flatProp1, hlex, flatProp, withReify, PId.iri, hp, Term.map, mkLit, ho.2]
    | none =>
      by_cases hdt : dt = xsdString
      · by_cases hlex : lex = []
        · simp [flatProp1, hdt, hlex, flatProp, withReify, PId.iri, hp, Term.map, mkLit]
        · simp [flatProp1, hdt, hlex, flatProp, withReify, PId.iri, hp, Term.map, mkLit]
      · simp [flatProp1, hdt, flatProp, withReify, PId.iri, hp, Term.map]

theorem flatPlan_flat (base : Str) (label : β → Str) (g : List (Triple β))
    (hg : ∀ t ∈ g, TripleOK rs base t) :
    flatDoc (flatPlan label g) = g.map (Triple.map (fun b => BN.named (label b))) := by
  simp only [flatDoc, flatPlan]
  induction g with
  | nil => rfl
  | cons t g ih =>
    simp only [List.map_cons, flatNodes]
    rw [flatPlanNode_flat rs base label t (hg t (by simp)), ih (fun t' ht' => hg t' (by simp [ht']))]
    rfl

/-! ### the writer -/

theorem write_denote (base : Str) (label : β → Str) (hl : LabelsOK label) (g : List (Triple β))
    (hg : ∀ t ∈ g, TripleOK rs base t) (ch : Choices β) (hσ : Function.Injective ch.rename) :
    ∃ out, denoteDoc rs ⟨base, none⟩ (write rs base label g ch) = .ok out ∧ Spec.Iso out g := by
  unfold write
  split
  · rename_i hc
    simp only [Bool.and_eq_true, List.isPerm_iff] at hc
    exact ⟨flatDoc ch.plan, denoteDoc_render rs _ _ hc.1, ch.rename, hσ, hc.2⟩
  · refine ⟨flatDoc (flatPlan label g), denoteDoc_render rs _ _ (flatPlan_wf rs base label hl g hg),
      fun b => BN.named (label b), ?_, ?_⟩
    · intro a b hab
      exact hl.inj (BN.named.inj hab)
    · rw [flatPlan_flat rs base label g hg]

end RdfModel.RX
