/-
  Part C11MD (serves C11, C05, C06) — property theorems about the executable model of the Go Microdata decoder,
  `RdfModel.Mdd` (Model/MicrodataDecoder.lean), the model the driver runs for `mdd.dec`.
  Statements only; proofs are in Proofs/C11MdBasic, C11MdTerm, C11MdSteps, C11MdWf, C11MdRelabel, C11MdFlat.

  Every theorem holds for EVERY abstract DOM tree (any node types, namespaces, attribute lists with duplicates,
  cyclic or dangling itemref graphs, duplicate ids), every configuration, and every instantiation of the
  parameters (URL resolution, itemtype normalisation, vocabulary resolver, xsdobject mappers) unless a hypothesis
  says otherwise.
-/
import RdfModel.Model.MicrodataDecoder
import RdfModel.Proofs.C11MdTerm
import RdfModel.Proofs.C11MdSteps
import RdfModel.Proofs.C11MdWf
import RdfModel.Proofs.C11MdRelabel
import RdfModel.Proofs.C11MdCopies
import RdfModel.Proofs.C11MdFlat
import RdfModel.Proofs.C11MdCanon
import RdfModel.Proofs.C11MdTyped
import RdfModel.Proofs.C11MdNested
import RdfModel.Proofs.C11MdWritten
namespace RdfModel.C11Md
open RdfModel RdfModel.Desc RdfModel.Mdd

/-! ## C05: termination in bounded time, no panic -/

/-- C05 for the Microdata decoder: on every tree the first `Next` (which does all the work: `walk` from the root)
    ends normally — the depth budget `fuelFor doc = (nodes + 1) · (height + 1)` is never exhausted although
    `itemref` may point anywhere (ancestors, descendants, the element itself, cycles), and the only `panic` of
    the package (`"should not have found an empty match"` in the itemtype loop) is unreachable.
    Termination comes from the visited-set discipline as coded: an item is entered in ResolvedItemscopes before
    its itemrefs are followed, and an item found there is not expanded again. -/
theorem mdd_terminates_no_panic (E : Env) (t : Node) : ∃ stmts hooks, decode E t = .ok stmts hooks := by
  have h := run_bad_none E (relabel t)
  exact ⟨_, _, by unfold decode finish; rw [h]⟩

/-- the same for a tree with arbitrary (also colliding) node identities: the walk itself never fails -/
theorem mdd_walk_never_fails (E : Env) (doc : Node) : (run E doc).bad = none := run_bad_none E doc

/-- the budget in terms of the input tree -/
theorem mdd_fuel_explicit (t : Node) : fuelFor (relabel t) = ((subnodes t).length + 1) * (height t + 1) := by
  unfold fuelFor; rw [relabel_size, relabel_height]

/-- C05 (bounded time, polynomial): the number of `walk` calls is at most N · (1 + R) where N is the number of
    nodes and R the number of itemref tokens in the document; in particular the k! blow-up that an ineffective
    memo produces on k mutually referencing items is impossible. -/
theorem mdd_step_bound (E : Env) (t : Node) :
    (run E (relabel t)).steps ≤ (subnodes t).length * (1 + refTokens t) := by
  have := run_steps_le E (relabel t)
  rwa [relabel_size, relabel_refTokens] at this

/-- C05 (the memo is effective): every element is expanded (its own statements produced, its itemrefs followed,
    its children walked as its properties) at most once, however often it is reached. -/
theorem mdd_expansion_bound (E : Env) (t : Node) : (run E (relabel t)).expansions ≤ (subnodes t).length := by
  have := run_expansions_le E (relabel t)
  rwa [relabel_size] at this

/-- C05 (the listed finding C05X-microdata-itemref is quadratic, not worse): before every itemref jump the Go code
    copies the whole RecursedItemrefs map into a fresh one; the model counts the copied entries (`St.copies`; not
    observable on the Go side, it restates `for k, v := range ectx.RecursedItemrefs`).  Their total is at most
    N · R (N nodes, R itemref tokens in the document). -/
theorem mdd_copy_cost_bound (E : Env) (t : Node) :
    (run E (relabel t)).copies ≤ (subnodes t).length * refTokens t := by
  have := run_copies_le E (relabel t)
  rwa [relabel_size, relabel_refTokens] at this

/-- `relabel` gives distinct nodes distinct identities (so that the model's `ResolvedItemscopes`, keyed by
    identity, is Go's map keyed by `*html.Node`) -/
theorem mdd_identities_distinct (t : Node) : ((subnodes (relabel t)).map Node.id).Nodup := relabel_nodup t

/-! ## C06: every emitted statement is well-formed -/

/-- C06 for the Microdata decoder, under the hypothesis that the xsdobject mappers (C20's subject) return
    literals with a datatype and no language tag: every statement has an IRI or a (factory) blank node as
    subject; its predicate is rdf:type or exactly what the vocabulary resolver returned for a non-empty itemprop
    token (the code guarantees no more: with the default `LiteralVocabularyResolver` the predicate of
    `itemprop="name"` is the relative IRI `name`); its object is an IRI, a blank node, or a literal with a
    non-empty datatype IRI that is neither rdf:langString nor rdf:dirLangString and carries no language tag
    (plain `xsd:string`, or what a mapper returned). Nothing is nil: terms are values in the model, and the Go
    emission sites build `rdf.IRI(...)`, `rdf.Literal{...}`, a factory blank node, or the non-nil results checked
    by `v != nil`.  NOT guaranteed (and false): that IRIs are absolute or non-empty — `itemid=" "` without a
    document base yields the subject `<>`. -/
theorem mdd_emits_wf (E : Env) (hE : MapsWf E) (t : Node) (stmts : List Stmt) (hooks : List Nat)
    (h : decode E t = .ok stmts hooks) : ∀ s ∈ stmts, WfStmt E s := by
  intro s hs
  unfold decode finish at h
  rw [run_bad_none E (relabel t)] at h
  simp only [Outcome.ok.injEq] at h
  rw [← h.1] at hs
  exact run_wf E hE (relabel t) s (by simpa using hs)

/-- Non-vacuity of `MapsWf`: a configuration whose time chain maps one value to an `xsd:date` literal. -/
def exampleEnv : Env :=
  { resolve := fun v => some (asc "http://ex.org/" ++ v), normType := id, vocab := fun _ p => some p,
    timeMaps := [fun v => if v = asc "2020-01-02" then some (.lit v (asc "http://www.w3.org/2001/XMLSchema#date") none) else none],
    meterMaps := [], lax := false, laxUse := false, hook := false }

example : MapsWf exampleEnv := by
  intro f hf v t ht
  simp only [exampleEnv, List.append_nil, List.mem_singleton] at hf
  subst hf
  simp only at ht
  split at ht
  · cases ht
    exact ⟨by decide, rfl, by decide, by decide⟩
  · cases ht

/-- the empty IRI subject mentioned above (model side; replayed on the Go code by the harness family `wild`) -/
example : decode { exampleEnv with resolve := fun _ => none }
    (.mk 0 3 [] (asc "div") [] [⟨[], asc "itemscope", []⟩, ⟨[], asc "itemid", [32]⟩, ⟨[], asc "itemtype", asc "T"⟩] []) =
    .ok [⟨.iri [], rdfType, .iri (asc "T")⟩] [] := by
  decide

/-! ## C11: the model decoder against the fragment denotation `Spec.Microdata.denote` -/

section Refinement
open RdfModel.Spec.Html RdfModel.Spec.Microdata
variable {β : Type} [DecidableEq β]

/-- The full statement (NOT proved): on every tree of the fragment of Spec/MicrodataFragment.lean (embedded as a DOM
    by `ofSpecDoc`), itemref included, with the parameters instantiated as the fragment fixes them (`specEnv`), the
    model decoder yields the denotation up to order and a renaming of item positions that is injective on the items
    whose subject is a blank node (`Nested.bnItems`).  Proved for documents without itemref
    (`mdd_refines_denote_nested_partial`); see there for what is missing. -/
def mdd_refines_denote : Prop :=
  ∀ (base : Str) (tm mm : List (Bytes → Option (Term Nat))) (doc : Tree), Nested.Decline tm mm →
    Nested.tokOk doc = true → inFragment doc = true →
    ∃ (stmts : List Stmt) (σ : Path → Nat),
      decode (specEnv base tm mm) (ofSpecDoc doc) = .ok stmts [] ∧
      (∀ p ∈ Nested.bnItems [] doc, ∀ q ∈ Nested.bnItems [] doc, σ p = σ q → p = q) ∧
      stmts.Perm ((denote base doc).map (Triple.map σ))

/-- C11, *partial* — NESTED ITEMS, ALL VALUE RULES, MULTI-TOKEN NAMES, SURROUNDING MARKUP: for EVERY abstract tree
    of the fragment that has no `itemref` attribute (`Nested.NestedFrag`: additionally Go's Unicode-aware tokenisation
    of every itemprop / itemid agrees with HTML's ASCII one — `tokOk`, decidable — and meter@value / time@datetime
    are plain words — the fragment's own `inFragment`), and for mappers that leave plain words alone (`Decline`):
    * ORDER, EXACTLY: the model decoder's statement list IS the streaming semantics `Stream.swP` (at every element
      first the statements it gives the enclosing item — one per distinct itemprop token, names resolved against the
      enclosing item's first type, value by element: meta@content, audio/embed/iframe/img/source/track/video@src,
      a/area/link@href, object@data, data/meter@value, time@datetime else text, any other element its textContent, an
      element with itemscope the item itself —, then for an item its rdf:type statements, then its children, to any
      depth, through any non-item wrapper elements and text), with the blank node of the item at path `p` renamed to
      `Nested.rank doc p` = the decoder's blank-node counter on reaching it;
    * hence a PERMUTATION of `Spec.Microdata.denote base doc` under that renaming (`Stream.swP_perm_denote`: the
      denotation lists item by item, the decoder interleaves);
    * the renaming separates the blank-node items.
    MISSING for `mdd_refines_denote`: itemref — see `mdd_refines_denote_itemref_partial` for the part proved. -/
theorem mdd_refines_denote_nested_partial (base : Str) (tm mm : List (Bytes → Option (Term Nat)))
    (hdec : Nested.Decline tm mm) (doc : Tree) (hfrag : Nested.NestedFrag doc) :
    decode (specEnv base tm mm) (ofSpecDoc doc) =
      .ok ((Stream.swP base none [] doc).map (Triple.map (Nested.rank doc))) [] ∧
    ((Stream.swP base none [] doc).map (Triple.map (Nested.rank doc))).Perm
      ((denote base doc).map (Triple.map (Nested.rank doc))) ∧
    (∀ p ∈ Nested.bnItems [] doc, ∀ q ∈ Nested.bnItems [] doc, Nested.rank doc p = Nested.rank doc q → p = q) :=
  ⟨Nested.decode_nested base tm mm hdec doc hfrag, (Stream.swP_perm_denote base doc hfrag.1).map _,
    fun p hp q hq h => Nested.rank_inj doc p q hp hq h⟩

/-- C11, *partial* — ITEMREF TO PLAIN TARGETS, on top of everything in `mdd_refines_denote_nested_partial`: for every
    fragment tree in which each itemref token names no element or an element whose subtree contains neither an item
    nor an itemref (`Ref.RefFrag`; shared targets, repeated tokens, missing ids, targets before or after or inside
    other items, duplicate ids — the first element in tree order wins, as `Document.GetNodesByID(id)[0]` — all
    allowed), the model decoder's statement list IS the streaming semantics `Ref.swR`: at an item, after its link and
    rdf:type statements, for each itemref token IN ORDER (a repeated token repeats its statements) the properties
    found in the named subtree with the item as subject, then the item's children.  Hence a PERMUTATION of
    `Spec.Microdata.denote` (which lists an item's own descendants before the referenced ones) under the renaming
    `Nested.rank`, injective on blank-node items.
    MISSING for `mdd_refines_denote`: itemref targets that contain items or further itemrefs (item-valued
    properties reached through itemref, chains, cycles): there the ResolvedItemscopes memo decides at which visit a
    shared item's own statements are produced and the RecursedItemrefs guard drops back links — tied by T3 only
    (go/cmd/c11md against the model; `mdd_terminates_no_panic`, `mdd_step_bound`, `mdd_copy_cost_bound` and
    `mdd_emits_wf` do cover those documents). -/
theorem mdd_refines_denote_itemref_partial (base : Str) (tm mm : List (Bytes → Option (Term Nat)))
    (hdec : Nested.Decline tm mm) (doc : Tree) (hfrag : Ref.RefFrag doc) :
    decode (specEnv base tm mm) (ofSpecDoc doc) =
      .ok ((Ref.swR base doc none [] doc).map (Triple.map (Nested.rank doc))) [] ∧
    ((Ref.swR base doc none [] doc).map (Triple.map (Nested.rank doc))).Perm
      ((denote base doc).map (Triple.map (Nested.rank doc))) ∧
    (∀ p ∈ Nested.bnItems [] doc, ∀ q ∈ Nested.bnItems [] doc, Nested.rank doc p = Nested.rank doc q → p = q) :=
  ⟨Ref.decode_ref base tm mm hdec doc hfrag, (Ref.swR_perm_denote base doc hfrag.1).map _,
    fun p hp q hq h => Nested.rank_inj doc p q hp hq h⟩

/-- C11, *partial*: on ITEM-LIST documents — html > (head, body > items), every item a `div` with arbitrary item
    attributes (itemscope, any itemid / itemtype / itemprop / id …) except itemref, whose children are the property
    elements `<meta itemprop content>` / `<link itemprop href>`; this is the shape of the writer's canonical document,
    plus types — the model decoder yields EXACTLY the denotation, as a list in the same order (per item: one rdf:type
    statement per itemtype token, then the properties with their names resolved against the first type), with the
    blank node of the item at position `[1, j]` renamed to the value of the decoder's blank-node counter on entry to
    that item (`sigmaL`, injective on blank-node items: `mdd_refines_denote_renaming`).
    Hypotheses (`ItemTok`): Go's tokenisation of each property name (strings.Fields, Unicode spaces) gives the one
    token the HTML tokenisation (ASCII spaces) gives, and strings.TrimSpace of each itemid equals the ASCII trim
    (`mdd_goTok_of_plain`: true for printable ASCII without spaces).  `specEnv` takes itemtype tokens as they are
    (`normType = id`: Go's url.Parse(t).String() is assumed to return t; tied by T3 through the T table).
    MISSING for `mdd_refines_denote`: nested items (the link statement, interleaved emission order: a permutation
    instead of list equality), itemref (memo, RecursedItemrefs; the fragment's own validity conditions would be
    needed as hypotheses), the other element-specific value rules, multi-token itemprop, surrounding markup.  Those
    are tied by T3 only (go/cmd/c11md against the model, go/cmd/c11 against the denotation). -/
theorem mdd_refines_denote_partial (base : Str) (tm mm : List (Bytes → Option (Term Nat)))
    (L : List (Attrs × List (Triple β))) (hL : ∀ x ∈ L, Typed.itemOkT x ∧ ItemTok x) :
    decode (specEnv base tm mm) (ofSpecDoc (docOf (L.map mkItem))) =
      .ok ((denote base (docOf (L.map mkItem))).map (Triple.map (sigmaL base L))) [] :=
  Typed.decode_eq_denoteT base tm mm L hL

omit [DecidableEq β] in
/-- the renaming of `mdd_refines_denote_partial` separates the items whose subject is a blank node -/
theorem mdd_refines_denote_renaming (base : Str) (L : List (Attrs × List (Triple β))) (i j : Nat)
    (xi xj : Attrs × List (Triple β)) (hi : L[i]? = some xi) (hj : L[j]? = some xj)
    (bi : isBnItem xi.1 = true) (bj : isBnItem xj.1 = true) (h : sigmaL base L [1, i] = sigmaL base L [1, j]) : i = j :=
  sigmaL_inj base L i j xi xj hi hj bi bj h

/-- C11, composed with the existing writer round trip (Props/C11.microdata_roundtrip_partial's canonical fallback),
    *partial*: for every graph expressible without blank-node objects whose names and subject IRIs Go tokenises as
    HTML does, the MODEL OF THE GO DECODER reads the writer's canonical document back to the graph, up to order and
    a renaming that is injective on the graph's blank nodes.  (Partial for the same reason as
    `microdata_roundtrip_partial`: no canonical document for blank-node objects; and only the canonical document,
    not validated candidates, is covered at model level.) -/
theorem mdd_reads_canonical_partial (base : Str) (tm mm : List (Bytes → Option (Term Nat))) (g : List (Triple β))
    (hg : expressible base g = true) (ht : GoTok g) :
    ∃ (stmts : List Stmt) (τ : β → Nat),
      decode (specEnv base tm mm) (ofSpecDoc (canonDoc g)) = .ok stmts [] ∧
      (∀ a ∈ bnodesOf g, ∀ b ∈ bnodesOf g, τ a = τ b → a = b) ∧
      stmts.Perm (g.map (Triple.map τ)) :=
  canon_roundtrip base tm mm g hg ht

/-- C11, recomposed with the writer for the enlarged fragment, *partial*: whatever document the writer
    `Spec.Microdata.write` returns with its success flag set — a VALIDATED CANDIDATE (any markup choices: nesting,
    value elements, wrappers, type-relative names; `validDoc`) or the canonical fallback — if it has no itemref and is
    tokenised by Go as by HTML (`NestedFrag`; for the fallback `GoTok g`), the MODEL OF THE GO DECODER reads it back
    to the graph `g`, up to order and a renaming injective on the graph's blank nodes.  Partial: candidates that use
    itemref are not covered at model level (T3 only). -/
theorem mdd_reads_written_partial (lbl : β → Str) (hinj : Function.Injective lbl) (base : Str)
    (tm mm : List (Bytes → Option (Term Nat))) (hdec : Nested.Decline tm mm) (g : List (Triple β)) (cand : Tree)
    (pos : β → Path) (hok : (write base g cand pos).2 = true) (hfrag : Nested.NestedFrag (write base g cand pos).1)
    (ht : GoTok g) :
    ∃ (stmts : List Stmt) (τ : β → Nat),
      decode (specEnv base tm mm) (ofSpecDoc (write base g cand pos).1) = .ok stmts [] ∧
      (∀ a ∈ bnodesOf g, ∀ b ∈ bnodesOf g, τ a = τ b → a = b) ∧
      stmts.Perm (g.map (Triple.map τ)) := by
  unfold write at hok hfrag ⊢
  by_cases hv : validDoc base g cand pos = true
  · simp only [hv, ↓reduceIte] at hok hfrag ⊢
    exact Written.decode_validated lbl hinj base tm mm hdec g cand pos hv hfrag
  · simp only [hv, Bool.false_eq_true, ↓reduceIte] at hok hfrag ⊢
    exact canon_roundtrip base tm mm g hok ht

/-- the same for validated candidates that use itemref to plain targets (`Ref.RefFrag`) -/
theorem mdd_reads_written_itemref_partial (lbl : β → Str) (hinj : Function.Injective lbl) (base : Str)
    (tm mm : List (Bytes → Option (Term Nat))) (hdec : Nested.Decline tm mm) (g : List (Triple β)) (cand : Tree)
    (pos : β → Path) (hv : validDoc base g cand pos = true) (hfrag : Ref.RefFrag cand) :
    ∃ (stmts : List Stmt) (τ : β → Nat),
      decode (specEnv base tm mm) (ofSpecDoc cand) = .ok stmts [] ∧
      (∀ a ∈ bnodesOf g, ∀ b ∈ bnodesOf g, τ a = τ b → a = b) ∧
      stmts.Perm (g.map (Triple.map τ)) :=
  Written.decode_validatedR lbl hinj base tm mm hdec g cand pos hv hfrag

omit [DecidableEq β] in
/-- a checkable sufficient condition for `GoTok` -/
theorem mdd_goTok_of_plain (g : List (Triple β))
    (h : ∀ t ∈ g, plainAscii t.p = true ∧ t.p ≠ [] ∧ ∀ i, t.s = .iri i → plainAscii i = true) : GoTok g :=
  goTok_of_plain g h

end Refinement

/-- Non-vacuity: a graph with an IRI subject, two blank-node subjects, literal and IRI objects. -/
def exampleGraph : List (Triple Nat) :=
  [⟨.iri (asc "http://ex.org/s"), asc "http://schema.org/name", .lit (asc "Ann") xsdString none⟩,
   ⟨.bnode 7, asc "http://schema.org/url", .iri (asc "http://other.example/x")⟩,
   ⟨.bnode 7, asc "http://schema.org/name", .lit (asc "Bob") xsdString none⟩,
   ⟨.bnode 3, asc "urn:p:x", .lit [] xsdString none⟩]

example : Spec.Microdata.expressible (asc "http://ex.org/dir/page.html") exampleGraph = true := by decide

example : GoTok exampleGraph := by
  apply goTok_of_plain
  intro t ht
  simp only [exampleGraph, List.mem_cons, List.not_mem_nil, or_false] at ht
  rcases ht with rfl | rfl | rfl | rfl <;> refine ⟨by decide, by decide, ?_⟩ <;> intro i hi <;> cases hi <;> decide

/-- … and what the model decoder makes of its canonical document (4 statements, blank nodes 0 and 1). -/
example : decode (specEnv (asc "http://ex.org/dir/page.html") [] []) (ofSpecDoc (Spec.Microdata.canonDoc exampleGraph)) =
    .ok [⟨.iri (asc "http://ex.org/s"), asc "http://schema.org/name", .lit (asc "Ann") xsdString none⟩,
         ⟨.bnode 0, asc "http://schema.org/url", .iri (asc "http://other.example/x")⟩,
         ⟨.bnode 0, asc "http://schema.org/name", .lit (asc "Bob") xsdString none⟩,
         ⟨.bnode 1, asc "urn:p:x", .lit [] xsdString none⟩] [] := by
  decide

/-- Non-vacuity of `mdd_refines_denote_partial`: a typed IRI item and an untyped blank-node item. -/
def exampleItems : List (Spec.Html.Attrs × List (Triple Nat)) :=
  [({ itemscope := true, itemid := some (asc "#me"), itemtype := some (asc "http://schema.org/Person http://schema.org/Thing") },
    [⟨.bnode 0, asc "name", .lit (asc "Ann") xsdString none⟩, ⟨.bnode 0, asc "http://p.example/rel", .iri (asc "../up")⟩]),
   ({ itemscope := true, itemprop := some (asc "ignored-at-top-level") },
    [⟨.bnode 0, asc "name", .lit (asc "Bob") xsdString none⟩])]

example : ∀ x ∈ exampleItems, Typed.itemOkT x ∧ ItemTok x := by
  intro x hx
  simp only [exampleItems, List.mem_cons, List.not_mem_nil, or_false] at hx
  rcases hx with rfl | rfl
  · refine ⟨⟨rfl, rfl, ?_⟩, ⟨?_, ?_⟩⟩
    · intro t ht
      simp only [List.mem_cons, List.not_mem_nil, or_false] at ht
      rcases ht with rfl | rfl <;> exact ⟨by decide, by intro b h; cases h⟩
    · intro v hv; cases hv; decide
    · intro t ht
      simp only [List.mem_cons, List.not_mem_nil, or_false] at ht
      rcases ht with rfl | rfl <;> exact ⟨by decide, by decide, by intro b h; cases h⟩
  · refine ⟨⟨rfl, rfl, ?_⟩, ⟨?_, ?_⟩⟩
    · intro t ht
      simp only [List.mem_cons, List.not_mem_nil, or_false] at ht
      subst ht
      exact ⟨by decide, by intro b h; cases h⟩
    · intro v hv; cases hv
    · intro t ht
      simp only [List.mem_cons, List.not_mem_nil, or_false] at ht
      subst ht
      exact ⟨by decide, by decide, by intro b h; cases h⟩

/-- … and what the model decoder yields on it: 2 rdf:type statements, names resolved against the first type, the
    relative itemid and href resolved against the base, blank node 0 for the second item. -/
example : decode (specEnv (asc "http://ex.org/dir/page.html") [] [])
      (ofSpecDoc (Spec.Microdata.docOf (exampleItems.map Spec.Microdata.mkItem))) =
    .ok [⟨.iri (asc "http://ex.org/dir/page.html#me"), Mdd.rdfType, .iri (asc "http://schema.org/Person")⟩,
         ⟨.iri (asc "http://ex.org/dir/page.html#me"), Mdd.rdfType, .iri (asc "http://schema.org/Thing")⟩,
         ⟨.iri (asc "http://ex.org/dir/page.html#me"), asc "http://schema.org/name", .lit (asc "Ann") xsdString none⟩,
         ⟨.iri (asc "http://ex.org/dir/page.html#me"), asc "http://p.example/rel", .iri (asc "http://ex.org/up")⟩,
         ⟨.bnode 0, asc "name", .lit (asc "Bob") xsdString none⟩] [] := by
  decide

/-- Non-vacuity of `mdd_refines_denote_nested_partial`: a typed item with an IRI subject; text and a wrapper
    element between item and property; a three-token itemprop with a duplicate; a, img, time, meter, data value
    rules; two levels of nested blank-node items; a property element outside every item. -/
def exampleNested : Spec.Html.Tree :=
  .elem .html {} [.elem .head {} [], .elem .body {} [
    .elem .div { itemscope := true, itemtype := some (asc "http://schema.org/Person"), itemid := some (asc "#me") } [
      .text (asc "hello "),
      .elem .span {} [.elem .span { itemprop := some (asc "name nick name") } [.text (asc "An"), .elem .b {} [.text (asc "n")]]],
      .elem .a { itemprop := some (asc "url"), href := some (asc "../up") } [.text (asc "home")],
      .elem .img { itemprop := some (asc "image"), src := some (asc "pic.png") } [],
      .elem .time { itemprop := some (asc "born"), datetime := some (asc "soon") } [.text (asc "t")],
      .elem .div { itemprop := some (asc "knows"), itemscope := true } [
        .elem .meter { itemprop := some (asc "level"), value := some (asc "high") } [],
        .elem .div { itemprop := some (asc "knows"), itemscope := true } [
          .elem .data { itemprop := some (asc "urn:p:x"), value := some (asc "v") } [.text (asc "shown")]]]],
    .elem .span { itemprop := some (asc "orphan") } [.text (asc "outside")]]]

example : Nested.NestedFrag exampleNested := by
  refine ⟨by decide, by decide, by decide⟩

example : Nested.Decline [] [] := by intro f hf; simp at hf

/-- … and the statements in decoder order (blank nodes 0 and 1 in order of first reach). -/
example : decode (specEnv (asc "http://ex.org/d/p") [] []) (ofSpecDoc exampleNested) =
    .ok [⟨.iri (asc "http://ex.org/d/p#me"), Mdd.rdfType, .iri (asc "http://schema.org/Person")⟩,
         ⟨.iri (asc "http://ex.org/d/p#me"), asc "http://schema.org/name", .lit (asc "Ann") xsdString none⟩,
         ⟨.iri (asc "http://ex.org/d/p#me"), asc "http://schema.org/nick", .lit (asc "Ann") xsdString none⟩,
         ⟨.iri (asc "http://ex.org/d/p#me"), asc "http://schema.org/url", .iri (asc "http://ex.org/up")⟩,
         ⟨.iri (asc "http://ex.org/d/p#me"), asc "http://schema.org/image", .iri (asc "http://ex.org/d/pic.png")⟩,
         ⟨.iri (asc "http://ex.org/d/p#me"), asc "http://schema.org/born", .lit (asc "soon") xsdString none⟩,
         ⟨.iri (asc "http://ex.org/d/p#me"), asc "http://schema.org/knows", .bnode 0⟩,
         ⟨.bnode 0, asc "level", .lit (asc "high") xsdString none⟩,
         ⟨.bnode 0, asc "knows", .bnode 1⟩,
         ⟨.bnode 1, asc "urn:p:x", .lit (asc "v") xsdString none⟩] [] := by
  decide

/-- Non-vacuity of `mdd_reads_written_partial`: a graph with a blank-node OBJECT (no canonical document exists for
    it) and a candidate that nests the blank node's item inside its referrer; the writer's validation accepts it. -/
def exampleGraphNested : List (Triple Nat) :=
  [⟨.iri (asc "http://ex.org/s"), asc "http://schema.org/knows", .bnode 7⟩,
   ⟨.bnode 7, asc "http://schema.org/name", .lit (asc "Bob") xsdString none⟩]

def exampleCand : Spec.Html.Tree :=
  Spec.Microdata.docOf [.elem .div { itemscope := true, itemid := some (asc "http://ex.org/s") } [
    .elem .div { itemprop := some (asc "http://schema.org/knows"), itemscope := true } [
      .elem .span { itemprop := some (asc "http://schema.org/name") } [.text (asc "Bob")]]]]

example : Spec.Microdata.validDoc (asc "http://ex.org/dir/page.html") exampleGraphNested exampleCand (fun _ => [1, 0, 0]) = true := by
  decide

example : Nested.NestedFrag exampleCand := ⟨by decide, by decide, by decide⟩

/-- Non-vacuity of `mdd_refines_denote_itemref_partial`: two items share the detached block `t` (the first names it
    twice and also names a missing id); the block sits between them; the second item is nested in a third. -/
def exampleRef : Spec.Html.Tree :=
  .elem .body {} [
    .elem .div { itemscope := true, itemref := some (asc "t x t") } [.elem .span { itemprop := some (asc "n") } [.text (asc "A")]],
    .elem .div { id := some (asc "t") } [.elem .span { itemprop := some (asc "s") } [.text (asc "M")]],
    .elem .div { itemscope := true } [.elem .div { itemprop := some (asc "b"), itemscope := true, itemref := some (asc "t") } []]]

example : Ref.RefFrag exampleRef := ⟨by decide, by decide, by decide, by decide⟩

/-- … in decoder order: the referenced properties (twice) before the item's own child; blank nodes 0, 1, 2. -/
example : decode (specEnv [] [] []) (ofSpecDoc exampleRef) =
    .ok [⟨.bnode 0, asc "s", .lit (asc "M") xsdString none⟩,
         ⟨.bnode 0, asc "s", .lit (asc "M") xsdString none⟩,
         ⟨.bnode 0, asc "n", .lit (asc "A") xsdString none⟩,
         ⟨.bnode 1, asc "b", .bnode 2⟩,
         ⟨.bnode 2, asc "s", .lit (asc "M") xsdString none⟩] [] := by
  decide

end RdfModel.C11Md
