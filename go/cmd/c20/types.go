package main

import (
	"bytes"
	"math"
	"sort"

	"github.com/dpb587/rdfkit-go/ontology/xsd/xsdobject"
	"github.com/dpb587/rdfkit-go/ontology/xsd/xsdtype"
	"github.com/dpb587/rdfkit-go/ontology/xsd/xsdutil"
	"github.com/dpb587/rdfkit-go/rdf"
	"github.com/dpb587/rdfkit-go/rdf/objecttypes"
)

// xtype is one mapped datatype: the two entry points of the repository and the generator family.
type xtype struct {
	name   string // local name in the XSD namespace
	goName string
	family string // int | bool | float | str | time | duration
	mapVal func(string) (objecttypes.Value, error)
	mapObj func(string) (rdf.ObjectValue, error)
}

func wrap[T objecttypes.Value](f func(string) (T, error)) func(string) (objecttypes.Value, error) {
	return func(s string) (objecttypes.Value, error) {
		v, err := f(s)
		if err != nil {
			return nil, err
		}
		return v, nil
	}
}

var types = []*xtype{
	{"anyURI", "AnyURI", "str", wrap(xsdtype.MapAnyURI), xsdobject.MapAnyURI},
	{"base64Binary", "Base64Binary", "str", wrap(xsdtype.MapBase64Binary), xsdobject.MapBase64Binary},
	{"boolean", "Boolean", "bool", wrap(xsdtype.MapBoolean), xsdobject.MapBoolean},
	{"byte", "Byte", "int", wrap(xsdtype.MapByte), xsdobject.MapByte},
	{"date", "Date", "time", wrap(xsdtype.MapDate), xsdobject.MapDate},
	{"dateTime", "DateTime", "time", wrap(xsdtype.MapDateTime), xsdobject.MapDateTime},
	{"dateTimeStamp", "DateTimeStamp", "time", wrap(xsdtype.MapDateTimeStamp), xsdobject.MapDateTimeStamp},
	{"decimal", "Decimal", "float", wrap(xsdtype.MapDecimal), xsdobject.MapDecimal},
	{"double", "Double", "float", wrap(xsdtype.MapDouble), xsdobject.MapDouble},
	{"duration", "Duration", "duration", wrap(xsdtype.MapDuration), xsdobject.MapDuration},
	{"float", "Float", "float", wrap(xsdtype.MapFloat), xsdobject.MapFloat},
	{"gDay", "GDay", "time", wrap(xsdtype.MapGDay), xsdobject.MapGDay},
	{"gMonth", "GMonth", "time", wrap(xsdtype.MapGMonth), xsdobject.MapGMonth},
	{"gMonthDay", "GMonthDay", "time", wrap(xsdtype.MapGMonthDay), xsdobject.MapGMonthDay},
	{"gYear", "GYear", "time", wrap(xsdtype.MapGYear), xsdobject.MapGYear},
	{"gYearMonth", "GYearMonth", "time", wrap(xsdtype.MapGYearMonth), xsdobject.MapGYearMonth},
	{"hexBinary", "HexBinary", "str", wrap(xsdtype.MapHexBinary), xsdobject.MapHexBinary},
	{"int", "Int", "int", wrap(xsdtype.MapInt), xsdobject.MapInt},
	{"integer", "Integer", "int", wrap(xsdtype.MapInteger), xsdobject.MapInteger},
	{"long", "Long", "int", wrap(xsdtype.MapLong), xsdobject.MapLong},
	{"short", "Short", "int", wrap(xsdtype.MapShort), xsdobject.MapShort},
	{"string", "String", "str", wrap(xsdtype.MapString), xsdobject.MapString},
	{"time", "Time", "time", wrap(xsdtype.MapTime), xsdobject.MapTime},
	{"unsignedByte", "UnsignedByte", "int", wrap(xsdtype.MapUnsignedByte), xsdobject.MapUnsignedByte},
	{"unsignedInt", "UnsignedInt", "int", wrap(xsdtype.MapUnsignedInt), xsdobject.MapUnsignedInt},
	{"unsignedLong", "UnsignedLong", "int", wrap(xsdtype.MapUnsignedLong), xsdobject.MapUnsignedLong},
	{"unsignedShort", "UnsignedShort", "int", wrap(xsdtype.MapUnsignedShort), xsdobject.MapUnsignedShort},
}

func typeByName(n string) *xtype {
	i := sort.Search(len(types), func(i int) bool { return types[i].name >= n })
	if i < len(types) && types[i].name == n {
		return types[i]
	}
	for _, t := range types { // the table is sorted case-sensitively by hand; be safe
		if t.name == n {
			return t
		}
	}
	return nil
}

func otherName(n string) string {
	if n == "string" {
		return "token"
	}
	return "string"
}

func lit(dt, lex string) rdf.Term { return rdf.Literal{Datatype: rdf.IRI(dt), LexicalForm: lex} }
func iri(s string) rdf.Term       { return rdf.IRI(s) }

func litLex(o rdf.ObjectValue) string {
	if l, ok := o.(rdf.Literal); ok {
		return l.LexicalForm
	}
	return "\x00not-a-literal"
}
func litDt(o rdf.ObjectValue) string {
	if l, ok := o.(rdf.Literal); ok {
		return string(l.Datatype)
	}
	return ""
}
func lexOf(v objecttypes.Value) string { return litLex(v.AsObjectValue()) }
func dtOf(v objecttypes.Value) string  { return litDt(v.AsObjectValue()) }

func goCollapse(s string) string { return xsdutil.WhiteSpaceCollapse(s) }

func feq(a, b float64) bool {
	return math.Float64bits(a) == math.Float64bits(b) || (math.IsNaN(a) && math.IsNaN(b))
}

// valuesEqual: equality of two mapped values of the same Go type ("mapping that literal again
// gives an equal value"). Times: same instant and same zone offset; the Layout field is presentation
// ("08:00:00-00:00" is printed "08:00:00Z" and read back through the layout with a literal Z) and is
// covered by the separate check that the re-mapped value prints the same literal.
func valuesEqual(a, b objecttypes.Value) bool {
	switch x := a.(type) {
	case xsdtype.Decimal:
		y, ok := b.(xsdtype.Decimal)
		return ok && feq(float64(x), float64(y))
	case xsdtype.Double:
		y, ok := b.(xsdtype.Double)
		return ok && feq(float64(x), float64(y))
	case xsdtype.Float:
		y, ok := b.(xsdtype.Float)
		return ok && feq(float64(x), float64(y))
	case xsdtype.HexBinary:
		y, ok := b.(xsdtype.HexBinary)
		return ok && bytes.Equal(x, y)
	case xsdtype.Base64Binary:
		y, ok := b.(xsdtype.Base64Binary)
		return ok && bytes.Equal(x, y)
	case xsdtype.Date:
		y, ok := b.(xsdtype.Date)
		return ok && sameTime(x.Time, y.Time)
	case xsdtype.DateTime:
		y, ok := b.(xsdtype.DateTime)
		return ok && sameTime(x.Time, y.Time)
	case xsdtype.DateTimeStamp:
		y, ok := b.(xsdtype.DateTimeStamp)
		return ok && sameTime(x.Time, y.Time)
	case xsdtype.GDay:
		y, ok := b.(xsdtype.GDay)
		return ok && sameTime(x.Time, y.Time)
	case xsdtype.GMonth:
		y, ok := b.(xsdtype.GMonth)
		return ok && sameTime(x.Time, y.Time)
	case xsdtype.GMonthDay:
		y, ok := b.(xsdtype.GMonthDay)
		return ok && sameTime(x.Time, y.Time)
	case xsdtype.GYear:
		y, ok := b.(xsdtype.GYear)
		return ok && sameTime(x.Time, y.Time)
	case xsdtype.GYearMonth:
		y, ok := b.(xsdtype.GYearMonth)
		return ok && sameTime(x.Time, y.Time)
	case xsdtype.Time:
		y, ok := b.(xsdtype.Time)
		return ok && sameTime(x.Time, y.Time)
	default:
		return a == b // integers, boolean, strings, Duration: comparable
	}
}
