/-
  RdfModel.Model.Xsd — executable model of ontology/xsd/{xsdutil/white_space.go, xsdtype/*.go,
  xsdobject/map.go}. Core-only, total; strings are byte lists (Go strings are byte sequences).

  What is modelled function by function
  * `whiteSpaceCollapse`  = xsdutil.WhiteSpaceCollapse: byte replacer, then regexp ` +` → " ",
                            then TrimLeft(" "), TrimRight(" ")
  * `parseUint`/`parseInt` = strconv.ParseUint / ParseInt as called (base ≠ 0; the digit loop with its
                            cutoff/overflow tests, sign handling, bit-size range tests)
  * `fmtNat`/`fmtInt`      = strconv.FormatUint / FormatInt base 10
  * `parseFloat`           = strconv.ParseFloat: `special`, `readFloat`, `underscoreOK` as coded; the
                            *value* is kept exact (mantissa, base, exponent) instead of being rounded;
                            only the overflow test (range error) and "rounds to zero" are computed
  * the Map functions, AsObjectValue lexical forms and TermEquals of the 27 mapped datatypes;
    which parser / base / bit size / Go type / formatter / layouts / regular expression each one
    uses is NOT written here: it is a parameter `Facts`, regenerated from the Go source on every
    run (T2, `Gen/XsdFacts.lean`)
  * `timeParse`/`timeFormat` = time.Parse / Time.Format restricted to the layout elements that occur
                            (2006 01 02 15 04 05 .000… Z07:00 and literals), incl. the "fractional
                            second in the input but not in the layout" rule
  * `mapDuration`          = the regular expression of duration.go as a deterministic scanner + the
                            six ParseFloat calls + AsLexicalForm

  Float values are not computed. `fmtShort` gives the text of strconv.FormatFloat(v,'f',-1,bits) for
  the inputs where it is determined without rounding analysis (≤ 15 resp. 6 significant digits in
  the normal range); elsewhere the lexical form is reported as unknown (`none`).
-/
import RdfModel.Spec.XsdLexical
import RdfModel.Model.Term
namespace RdfModel.Xsd
open RdfModel
open RdfModel.Spec.Xsd (Dt IntTy)

abbrev Bytes := List Nat

deriving instance DecidableEq for Except

/-! ### xsdutil.WhiteSpaceCollapse -/

/-- `strings.NewReplacer("\t"," ","\n"," ","\r"," ").Replace` -/
def wsReplace (s : Bytes) : Bytes := s.map (fun b => if b = 0x9 ∨ b = 0xA ∨ b = 0xD then 0x20 else b)

/-- `regexp.MustCompile(" +").ReplaceAllString(·, " ")`; the flag says the previous byte was a space -/
def collapseSpaces : Bool → Bytes → Bytes
  | _, [] => []
  | prev, b :: r =>
    if b = 0x20 then (if prev then collapseSpaces true r else 0x20 :: collapseSpaces true r)
    else b :: collapseSpaces false r

/-- `strings.TrimLeft(·, " ")` -/
def trimLeft : Bytes → Bytes
  | [] => []
  | b :: r => if b = 0x20 then trimLeft r else b :: r

/-- `strings.TrimRight(·, " ")` -/
def trimRight (s : Bytes) : Bytes :=
  s.foldr (fun b acc => if b = 0x20 ∧ acc = [] then [] else b :: acc) []

def whiteSpaceCollapse (s : Bytes) : Bytes :=
  trimRight (trimLeft (collapseSpaces false (wsReplace s)))

/-! ### strconv integers -/

inductive NumErr | syntax | range | base | bitSize | unmodelled
  deriving DecidableEq, Repr

def maxUint64 : Nat := 18446744073709551615

/-- Go `lower(c) = c | ('x' - 'X')` -/
def lower (c : Nat) : Nat := c ||| 0x20

/-- digit value of one byte in ParseUint's loop (`none` = the `default:` branch) -/
def digitVal (c : Nat) : Option Nat :=
  if 0x30 ≤ c ∧ c ≤ 0x39 then some (c - 0x30)
  else if 0x61 ≤ lower c ∧ lower c ≤ 0x7A then some (lower c - 0x61 + 10)
  else none

/-- the `for _, c := range []byte(s)` loop of strconv.ParseUint (base ≠ 0: no underscores) -/
def parseUintLoop (base cutoff maxVal : Nat) : Nat → Bytes → Except NumErr Nat
  | n, [] => .ok n
  | n, c :: r =>
    match digitVal c with
    | none => .error .syntax
    | some d =>
      if d ≥ base then .error .syntax
      else if n ≥ cutoff then .error .range
      else
        let n10 := n * base
        let n1 := (n10 + d) % (maxUint64 + 1)
        if n1 < n10 ∨ n1 > maxVal then .error .range
        else parseUintLoop base cutoff maxVal n1 r

/-- strconv.ParseUint(s, base, bitSize); base 0 (prefix and underscore syntax) is not modelled -/
def parseUint (s : Bytes) (base bitSize : Nat) : Except NumErr Nat :=
  if s = [] then .error .syntax
  else if base = 0 then .error .unmodelled
  else if ¬(2 ≤ base ∧ base ≤ 36) then .error .base
  else
    let bits := if bitSize = 0 then 64 else bitSize
    if bits > 64 then .error .bitSize
    else parseUintLoop base (maxUint64 / base + 1) (2 ^ bits - 1) 0 s

/-- strconv.ParseInt(s, base, bitSize) -/
def parseInt (s : Bytes) (base bitSize : Nat) : Except NumErr Int :=
  match s with
  | [] => .error .syntax
  | b :: r =>
    let neg := b = 0x2D
    let s1 := if b = 0x2B ∨ b = 0x2D then r else b :: r
    let bits := if bitSize = 0 then 64 else bitSize
    -- un, err = ParseUint(...): a range error carries un = maxVal and falls through
    let un? : Except NumErr Nat :=
      match parseUint s1 base bitSize with
      | .ok un => .ok un
      | .error .range => .ok (2 ^ bits - 1)
      | .error e => .error e
    match un? with
    | .error e => .error e
    | .ok un =>
      let cutoff := 2 ^ (bits - 1)
      if ¬neg ∧ un ≥ cutoff then .error .range
      else if neg ∧ un > cutoff then .error .range
      else .ok (if neg then -(un : Int) else (un : Int))

/-- decimal digits, least significant first; fuel = n + 1 suffices -/
def lsdDigits : Nat → Nat → Bytes
  | 0, _ => []
  | fuel + 1, n => (0x30 + n % 10) :: (if n / 10 = 0 then [] else lsdDigits fuel (n / 10))

/-- strconv.FormatUint(n, 10) -/
def fmtNat (n : Nat) : Bytes := (lsdDigits (n + 1) n).reverse

/-- strconv.FormatInt(v, 10) -/
def fmtInt (v : Int) : Bytes := if v < 0 then 0x2D :: fmtNat v.natAbs else fmtNat v.toNat

/-- a Go fixed-width integer type -/
structure GoInt where
  signed : Bool
  bits : Nat
  deriving DecidableEq, Repr

/-- Go conversion `T(x)` between integer types: two's-complement truncation -/
def GoInt.wrap (g : GoInt) (v : Int) : Int :=
  let m := v % ((2 ^ g.bits : Nat) : Int)
  if g.signed ∧ m ≥ ((2 ^ (g.bits - 1) : Nat) : Int) then m - ((2 ^ g.bits : Nat) : Int) else m

def GoInt.lo (g : GoInt) : Int := if g.signed then -((2 ^ (g.bits - 1) : Nat) : Int) else 0
def GoInt.hi (g : GoInt) : Int :=
  if g.signed then ((2 ^ (g.bits - 1) : Nat) : Int) - 1 else ((2 ^ g.bits : Nat) : Int) - 1
def GoInt.inRange (g : GoInt) (v : Int) : Prop := g.lo ≤ v ∧ v ≤ g.hi
instance (g : GoInt) (v : Int) : Decidable (g.inRange v) := by unfold GoInt.inRange; exact inferInstance

/-! ### facts regenerated from the Go source (T2) -/

inductive Parser | parseInt | parseUint | parseFloat | unknown
  deriving DecidableEq, Repr
inductive Formatter | formatInt | formatUint | formatFloat | formatDouble | unknown
  deriving DecidableEq, Repr

/-- one integer-family Map function with its AsObjectValue / TermEquals -/
structure IntFact where
  parser : Parser          -- strconv function called in Map*
  collapse : Bool          -- its argument is xsdutil.WhiteSpaceCollapse(lexicalForm)
  base : Nat
  bitSize : Nat
  goType : GoInt           -- underlying type of the named type; Map* returns T(parsed)
  objFmt : Formatter       -- AsObjectValue: strconv.FormatInt(int64(v), 10) …
  objConv : GoInt
  objBase : Nat
  eqFmt : Formatter        -- TermEquals: same expression compared with the literal's lexical form
  eqConv : GoInt
  eqBase : Nat
  datatype : Bytes         -- Datatype of AsObjectValue() (evaluated)
  eqDatatypeSame : Bool    -- TermEquals compares with the same xsdiri constant
  deriving DecidableEq, Repr

/-- decimal / double / float -/
structure FloatFact where
  parser : Parser
  collapse : Bool
  bitSize : Nat
  /-- source of the regular expression matched before the strconv call (`none`: no check) -/
  lexRE : Option Bytes
  objFmt : Formatter       -- formatFloat = strconv.FormatFloat(float64(v),'f',-1,bits); formatDouble = the INF/-INF wrapper
  objBits : Nat
  eqFmt : Formatter
  eqBits : Nat
  datatype : Bytes
  eqDatatypeSame : Bool
  deriving DecidableEq, Repr

/-- anyURI / base64Binary / hexBinary / string: the value is the (collapsed) string -/
structure StrFact where
  collapse : Bool
  lexRE : Option Bytes
  datatype : Bytes
  eqDatatypeSame : Bool
  deriving DecidableEq, Repr

/-- date/time family: the layouts tried in order -/
structure TimeFact where
  collapse : Bool
  layouts : List Bytes
  datatype : Bytes
  eqDatatypeSame : Bool
  deriving DecidableEq, Repr

structure BoolFact where
  collapse : Bool
  trueCases : List Bytes    -- `case "true", "1":`
  falseCases : List Bytes
  lexTrue : Bytes           -- Boolean(true).AsObjectValue() lexical form (evaluated)
  lexFalse : Bytes
  eqTrue : Bytes            -- TermEquals: string compared when v is true
  eqFalse : Bytes
  datatype : Bytes
  eqDatatypeSame : Bool
  deriving DecidableEq, Repr

structure DurationFact where
  collapse : Bool
  regex : Bytes
  datatype : Bytes
  eqDatatypeSame : Bool
  deriving DecidableEq, Repr

inductive FloatTy | decimal | double | float
  deriving DecidableEq, Repr
inductive StrTy | anyURI | base64Binary | hexBinary | string
  deriving DecidableEq, Repr
inductive TimeTy | date | dateTime | dateTimeStamp | gDay | gMonth | gMonthDay | gYear | gYearMonth | time
  deriving DecidableEq, Repr

def FloatTy.dt : FloatTy → Dt | .decimal => .decimal | .double => .double | .float => .float
def StrTy.dt : StrTy → Dt
  | .anyURI => .anyURI | .base64Binary => .base64Binary | .hexBinary => .hexBinary | .string => .string
def TimeTy.dt : TimeTy → Dt
  | .date => .date | .dateTime => .dateTime | .dateTimeStamp => .dateTimeStamp | .gDay => .gDay
  | .gMonth => .gMonth | .gMonthDay => .gMonthDay | .gYear => .gYear | .gYearMonth => .gYearMonth
  | .time => .time

structure Facts where
  int : IntTy → IntFact
  float : FloatTy → FloatFact
  str : StrTy → StrFact
  time : TimeTy → TimeFact
  bool : BoolFact
  duration : DurationFact

/-! ### integer family -/

def argOf (collapse : Bool) (s : Bytes) : Bytes := if collapse then whiteSpaceCollapse s else s

/-- `xsdtype.MapByte` …: the value returned, as a mathematical integer -/
def mapInt (f : IntFact) (s : Bytes) : Except NumErr Int :=
  let a := argOf f.collapse s
  match f.parser with
  | .parseInt =>
    (match parseInt a f.base f.bitSize with
     | .ok w => .ok (f.goType.wrap w)
     | .error e => .error e)
  | .parseUint =>
    (match parseUint a f.base f.bitSize with
     | .ok n => .ok (f.goType.wrap (n : Int))
     | .error e => .error e)
  | _ => .error .unmodelled

/-- `strconv.FormatInt(int64(v), 10)` / `strconv.FormatUint(uint64(v), 10)`; `none` = shape not understood -/
def fmtWith (fm : Formatter) (conv : GoInt) (base : Nat) (v : Int) : Option Bytes :=
  if base ≠ 10 then none
  else
    match fm with
    | .formatInt => if conv = ⟨true, 64⟩ then some (fmtInt (conv.wrap v)) else none
    | .formatUint => if conv = ⟨false, 64⟩ then some (fmtNat (conv.wrap v).toNat) else none
    | _ => none

/-- lexical form of `v.AsObjectValue()` -/
def lexInt (f : IntFact) (v : Int) : Option Bytes := fmtWith f.objFmt f.objConv f.objBase v

/-- what TermEquals is applied to -/
inductive TermArg
  | literal (datatype lex : Bytes)
  | notLiteral
  deriving DecidableEq, Repr

/-- `v.TermEquals(t)` -/
def termEqualsInt (f : IntFact) (v : Int) (t : TermArg) : Option Bool :=
  match t with
  | .notLiteral => some false
  | .literal dt lex =>
    if ¬f.eqDatatypeSame then none
    else if dt ≠ f.datatype then some false
    else (fmtWith f.eqFmt f.eqConv f.eqBase v).map (fun c => decide (c = lex))

/-! ### boolean -/

def mapBool (f : BoolFact) (s : Bytes) : Except NumErr Bool :=
  let a := argOf f.collapse s
  if f.trueCases.contains a then .ok true
  else if f.falseCases.contains a then .ok false
  else .error .syntax

def lexBool (f : BoolFact) (v : Bool) : Bytes := if v then f.lexTrue else f.lexFalse

def termEqualsBool (f : BoolFact) (v : Bool) (t : TermArg) : Option Bool :=
  match t with
  | .notLiteral => some false
  | .literal dt lex =>
    if ¬f.eqDatatypeSame then none
    else if dt ≠ f.datatype then some false
    else some (decide (lex = (if v then f.eqTrue else f.eqFalse)))

/-! ### regular expressions used as lexical checks: recognised by source text, modelled by hand -/

def isDigit (b : Nat) : Bool := 0x30 ≤ b && b ≤ 0x39

def spanDigits : Bytes → Bytes × Bytes
  | [] => ([], [])
  | b :: r => if isDigit b then let (d, rest) := spanDigits r; (b :: d, rest) else ([], b :: r)

/-- `[+-]?` -/
def optSign : Bytes → Bytes
  | [] => []
  | b :: r => if b = 0x2B ∨ b = 0x2D then r else b :: r

/-- `([0-9]+(\.[0-9]*)?|\.[0-9]+)`: the rest after the longest match, or none -/
def reNumeral (s : Bytes) : Option Bytes :=
  match s with
  | 0x2E :: r =>
    let (f, rest) := spanDigits r
    if f.isEmpty then none else some rest
  | _ =>
    let (i, r) := spanDigits s
    if i.isEmpty then none
    else
      match r with
      | 0x2E :: r' => some (spanDigits r').2
      | _ => some r

def reDecimalSrc : Bytes := asc "^[+-]?([0-9]+(\\.[0-9]*)?|\\.[0-9]+)$"
/-- model of `reDecimalSrc` -/
def reDecimal (s : Bytes) : Bool := reNumeral (optSign s) == some []

def reDoubleSrc : Bytes := asc "^([+-]?([0-9]+(\\.[0-9]*)?|\\.[0-9]+)([eE][+-]?[0-9]+)?|[+-]?INF|NaN)$"
/-- model of `reDoubleSrc` -/
def reDouble (s : Bytes) : Bool :=
  (match reNumeral (optSign s) with
   | some [] => true
   | some (e :: r) => (e = 0x65 ∨ e = 0x45) && (let (d, rest) := spanDigits (optSign r); !d.isEmpty && rest.isEmpty)
   | none => false)
  || optSign s == [0x49, 0x4E, 0x46] || s == [0x4E, 0x61, 0x4E]

def isHex (b : Nat) : Bool := isDigit b || (0x41 ≤ b && b ≤ 0x46) || (0x61 ≤ b && b ≤ 0x66)

def reHexBinarySrc : Bytes := asc "^([0-9a-fA-F]{2})*$"
/-- model of `reHexBinarySrc` -/
def reHexBinary : Bytes → Bool
  | [] => true
  | [_] => false
  | a :: b :: r => isHex a && isHex b && reHexBinary r

def reBase64Src : Bytes :=
  asc "^((([A-Za-z0-9+/] ?){4})*(([A-Za-z0-9+/] ?){3}[A-Za-z0-9+/]|([A-Za-z0-9+/] ?){2}[AEIMQUYcgkosw048] ?=|[A-Za-z0-9+/] ?[AQgw] ?= ?=))?$"

def isB64 (b : Nat) : Bool :=
  (0x41 ≤ b && b ≤ 0x5A) || (0x61 ≤ b && b ≤ 0x7A) || isDigit b || b == 0x2B || b == 0x2F

/-- skip one optional space -/
def sp? : Bytes → Bytes
  | [] => []
  | b :: r => if b = 0x20 then r else b :: r

/-- model of `reBase64Src`: quanta of four `[A-Za-z0-9+/] ?` items, the last one possibly padded -/
def reBase64 : Nat → Bytes → Bool
  | 0, s => s.isEmpty
  | fuel + 1, s =>
    match s with
    | [] => true
    | c1 :: r1 =>
      if !isB64 c1 then false
      else
        match sp? r1 with
        | [] => false
        | c2 :: r2 =>
          if !isB64 c2 then false
          else
            let r2' := sp? r2
            if r2' = [0x3D, 0x3D] ∨ r2' = [0x3D, 0x20, 0x3D] then [0x41, 0x51, 0x67, 0x77].contains c2
            else
              match r2' with
              | [] => false
              | c3 :: r3 =>
                if !isB64 c3 then false
                else
                  let r3' := sp? r3
                  if r3' = [0x3D] then
                    [0x41, 0x45, 0x49, 0x4D, 0x51, 0x55, 0x59, 0x63, 0x67, 0x6B, 0x6F, 0x73, 0x77, 0x30, 0x34, 0x38].contains c3
                  else
                    match r3' with
                    | [] => false
                    | c4 :: r4 => isB64 c4 && reBase64 fuel (sp? r4)

/-- outcome of a lexical check named by its regular-expression source -/
inductive ReCheck | pass | fail | unknownRE
  deriving DecidableEq, Repr

def reCheck (src : Option Bytes) (s : Bytes) : ReCheck :=
  match src with
  | none => .pass
  | some r =>
    if r = reDecimalSrc then (if reDecimal s then .pass else .fail)
    else if r = reDoubleSrc then (if reDouble s then .pass else .fail)
    else if r = reHexBinarySrc then (if reHexBinary s then .pass else .fail)
    else if r = reBase64Src then (if reBase64 s.length s then .pass else .fail)
    else .unknownRE

/-! ### string-like types -/

def mapStr (f : StrFact) (s : Bytes) : Except NumErr Bytes :=
  let a := argOf f.collapse s
  match reCheck f.lexRE a with
  | .pass => .ok a
  | .fail => .error .syntax
  | .unknownRE => .error .unmodelled

def termEqualsStr (f : StrFact) (v : Bytes) (t : TermArg) : Option Bool :=
  match t with
  | .notLiteral => some false
  | .literal dt lex =>
    if ¬f.eqDatatypeSame then none
    else if dt ≠ f.datatype then some false
    else some (decide (lex = v))

/-! ### strconv.ParseFloat: accepted syntax, exact value -/

/-- a parsed number before rounding: `(-1)^neg · mant · base^exp`, `nd` significant digits read -/
inductive FVal
  | nan
  | inf (neg : Bool)
  | fin (neg : Bool) (mant : Nat) (base : Nat) (exp : Int) (nd : Nat)
  deriving DecidableEq, Repr

/-- `commonPrefixLenIgnoreCase(s, prefix)` for a lower-case `prefix` -/
def commonPrefixLenIC : Bytes → Bytes → Nat
  | c :: s, p :: ps =>
    let c' := if 0x41 ≤ c ∧ c ≤ 0x5A then c + 0x20 else c
    if c' = p then 1 + commonPrefixLenIC s ps else 0
  | _, _ => 0

/-- strconv `special`: (value, bytes consumed) -/
def special (s : Bytes) : Option (FVal × Nat) :=
  match s with
  | [] => none
  | c :: r =>
    let infCase (neg : Bool) (nsign : Nat) (t : Bytes) : Option (FVal × Nat) :=
      let n := commonPrefixLenIC t (asc "infinity")
      let n := if 3 < n ∧ n < 8 then 3 else n
      if n = 3 ∨ n = 8 then some (.inf neg, nsign + n) else none
    if c = 0x2B then infCase false 1 r
    else if c = 0x2D then infCase true 1 r
    else if c = 0x69 ∨ c = 0x49 then infCase false 0 s
    else if c = 0x6E ∨ c = 0x4E then
      (if commonPrefixLenIC s (asc "nan") = 3 then some (.nan, 3) else none)
    else none

/-- strconv `underscoreOK` -/
def underscoreOK (s0 : Bytes) : Bool :=
  let s := match s0 with
    | b :: r => if b = 0x2D ∨ b = 0x2B then r else s0
    | [] => []
  let (hex, saw0, body) : Bool × Nat × Bytes :=
    match s with
    | z :: p :: r =>
      if z = 0x30 ∧ (lower p = 0x62 ∨ lower p = 0x6F ∨ lower p = 0x78) then (lower p = 0x78, 0x30, r)
      else (false, 0x5E, s)
    | _ => (false, 0x5E, s)
  -- saw: '^' 0x5E, '0' 0x30, '_' 0x5F, '!' 0x21
  let rec go (hex : Bool) : Nat → Bytes → Bool
    | saw, [] => saw ≠ 0x5F
    | saw, c :: r =>
      if isDigit c || (hex && 0x61 ≤ lower c && lower c ≤ 0x66) then go hex 0x30 r
      else if c = 0x5F then (if saw ≠ 0x30 then false else go hex 0x5F r)
      else if saw = 0x5F then false
      else go hex 0x21 r
  go hex saw0 body

/-- state of `readFloat`'s mantissa loop -/
structure RF where
  mant : Nat := 0
  nd : Nat := 0
  dp : Int := 0
  sawdot : Bool := false
  sawdigits : Bool := false
  underscores : Bool := false

/-- the `loop:` of readFloat; returns the state and the unread rest -/
def rfLoop (base : Nat) : RF → Bytes → RF × Bytes
  | st, [] => (st, [])
  | st, c :: r =>
    if c = 0x5F then rfLoop base { st with underscores := true } r
    else if c = 0x2E then
      (if st.sawdot then (st, c :: r) else rfLoop base { st with sawdot := true, dp := st.nd } r)
    else if isDigit c then
      (if c = 0x30 ∧ st.nd = 0 then rfLoop base { st with sawdigits := true, dp := st.dp - 1 } r
       else rfLoop base { st with sawdigits := true, nd := st.nd + 1, mant := st.mant * base + (c - 0x30) } r)
    else if base = 16 ∧ 0x61 ≤ lower c ∧ lower c ≤ 0x66 then
      rfLoop base { st with sawdigits := true, nd := st.nd + 1, mant := st.mant * 16 + (lower c - 0x61 + 10) } r
    else (st, c :: r)

/-- exponent digits: value clamped as in Go (`if e < 10000`), underscores flagged -/
def rfExp : Nat → Bool → Bytes → Nat × Bool × Bytes
  | e, us, [] => (e, us, [])
  | e, us, c :: r =>
    if c = 0x5F then rfExp e true r
    else if isDigit c then rfExp (if e < 10000 then e * 10 + (c - 0x30) else e) us r
    else (e, us, c :: r)

/-- strconv `readFloat`: `some (value, consumed prefix length)` when ok -/
def readFloat (s : Bytes) : Option (FVal × Nat) :=
  let (neg, s1) : Bool × Bytes :=
    match s with
    | b :: r => if b = 0x2B then (false, r) else if b = 0x2D then (true, r) else (false, s)
    | [] => (false, [])
  if s = [] then none
  else
    -- `i+2 < len(s)`: prefix "0x" needs at least one more byte
    let (base, s2) : Nat × Bytes :=
      match s1 with
      | z :: x :: c :: r => if z = 0x30 ∧ lower x = 0x78 then (16, c :: r) else (10, s1)
      | _ => (10, s1)
    let (st, r1) := rfLoop base {} s2
    if !st.sawdigits then none
    else
      let dp : Int := if st.sawdot then st.dp else st.nd
      let dp := if base = 16 then dp * 4 else dp
      let ndBits : Int := if base = 16 then (st.nd : Int) * 4 else st.nd
      let expChar := if base = 16 then 0x70 else 0x65
      let fin? : Option (Int × Bool × Bytes) :=
        match r1 with
        | e :: r2 =>
          if lower e = expChar then
            (match r2 with
             | [] => none
             | sg :: r3 =>
               let (esign, r4) : Int × Bytes :=
                 if sg = 0x2B then (1, r3) else if sg = 0x2D then (-1, r3) else (1, r2)
               match r4 with
               | d :: _ =>
                 if isDigit d then
                   let (ev, us, r5) := rfExp 0 st.underscores r4
                   some (dp + (ev : Int) * esign, us, r5)
                 else none
               | [] => none)
          else if base = 16 then none else some (dp, st.underscores, r1)
        | [] => if base = 16 then none else some (dp, st.underscores, r1)
      match fin? with
      | none => none
      | some (dp', us, rest) =>
        let consumed := s.length - rest.length
        if us && !underscoreOK (s.take consumed) then none
        else
          let exp : Int := if st.mant ≠ 0 then dp' - ndBits else 0
          some (.fin neg st.mant (if base = 16 then 2 else 10) exp st.nd, consumed)

/-- |v| rounds (to nearest, ties to even) to something ≥ 2^(emax+1): strconv reports a range error.
    Threshold (2^(p+1) − 1)·2^(emax−p): p = 53, emax = 1023 for 64 bits; p = 24, emax = 127 for 32 bits. -/
def overflows (bits : Nat) (v : FVal) : Bool :=
  match v with
  | .fin _ mant base exp nd =>
    let thr : Nat := if bits = 32 then (2 ^ 25 - 1) * 2 ^ 103 else (2 ^ 54 - 1) * 2 ^ 970
    if mant = 0 then false
    else if exp ≥ 0 then
      (if exp > 5000 then true else decide (mant * base ^ exp.toNat ≥ thr))
    else
      let k := (-exp).toNat
      -- mant < B^nd where B = 10 or 16 ≥ base, so k ≥ 4·nd (hex) or nd (decimal) cannot overflow
      if k ≥ 4 * nd then false else decide (mant ≥ thr * base ^ k)
  | _ => false

/-- |v| rounds to zero (≤ half the smallest subnormal, ties to even) -/
def roundsToZero (bits : Nat) (v : FVal) : Bool :=
  match v with
  | .fin _ mant base exp nd =>
    let half : Nat := if bits = 32 then 150 else 1075   -- v ≤ 2^-half
    if mant = 0 then true
    else if exp ≥ 0 then false
    else
      let k := (-exp).toNat
      if k > 4 * nd + 2000 then true else decide (mant * 2 ^ half ≤ base ^ k)
  | _ => false

/-- strconv.ParseFloat(s, bits) -/
def parseFloat (s : Bytes) (bits : Nat) : Except NumErr FVal :=
  match special s with
  | some (v, n) => if n = s.length then .ok v else .error .syntax
  | none =>
    match readFloat s with
    | none => .error .syntax
    | some (v, n) =>
      if n ≠ s.length then .error .syntax
      else if overflows bits v then .error .range
      else .ok v

/-- strip trailing zeros of a natural number: (m', number of zeros removed); fuel-bounded -/
def stripZeros : Nat → Nat → Nat → Nat × Nat
  | 0, m, z => (m, z)
  | fuel + 1, m, z => if m ≠ 0 ∧ m % 10 = 0 then stripZeros fuel (m / 10) (z + 1) else (m, z)

/-- text of `strconv.FormatFloat(v, 'f', -1, bits)` where it is determined without rounding
    analysis: zero, and decimal values with at most 15 (6 for 32 bits) significant digits whose
    magnitude is well inside the normal range; `none` elsewhere (value not computed). -/
def fmtShort (bits : Nat) (v : FVal) : Option Bytes :=
  match v with
  | .nan => some (asc "NaN")
  | .inf neg => some (if neg then asc "-Inf" else asc "+Inf")
  | .fin neg mant base exp _ =>
    let sign : Bytes := if neg then [0x2D] else []
    if mant = 0 then some (sign ++ [0x30])
    else if base ≠ 10 then none
    else
      let (m, z) := stripZeros 400 mant 0
      let e : Int := exp + z
      let ds := Spec.Xsd.natDigits m
      let n := ds.length
      let maxDigits := if bits = 32 then 6 else 15
      let maxMag : Int := if bits = 32 then 30 else 300
      -- position of the leading digit: value in [10^(n+e-1), 10^(n+e))
      let mag : Int := (n : Int) + e
      if n > maxDigits ∨ mag > maxMag ∨ mag < -maxMag then none
      else if e ≥ 0 then some (sign ++ ds ++ List.replicate e.toNat 0x30)
      else
        let k := (-e).toNat
        if k < n then some (sign ++ ds.take (n - k) ++ [0x2E] ++ ds.drop (n - k))
        else some (sign ++ [0x30, 0x2E] ++ List.replicate (k - n) 0x30 ++ ds)

/-- xsdtype.MapDecimal / MapDouble / MapFloat: the exact value read (rounding is strconv's) -/
def mapFloat (f : FloatFact) (s : Bytes) : Except NumErr FVal :=
  let a := argOf f.collapse s
  match reCheck f.lexRE a with
  | .fail => .error .syntax
  | .unknownRE => .error .unmodelled
  | .pass =>
    match f.parser with
    | .parseFloat => parseFloat a f.bitSize
    | _ => .error .unmodelled

/-- the formatter of AsObjectValue / TermEquals; `none` = not determined by the model -/
def fmtFloatWith (fm : Formatter) (bits : Nat) (v : FVal) : Option Bytes :=
  match fm with
  | .formatFloat => fmtShort bits v
  | .formatDouble =>
    (match v with
     | .inf neg => some (if neg then asc "-INF" else asc "INF")
     | _ => fmtShort bits v)
  | _ => none

def lexFloat (f : FloatFact) (v : FVal) : Option Bytes := fmtFloatWith f.objFmt f.objBits v

/-! ### time.Parse / Time.Format for the layouts in use -/

inductive Tok
  | lit (b : Nat)
  | year | month | day | hour | minute | second
  | frac0 (n : Nat) (sep : Nat)
  | tz            -- Z07:00
  | unknown       -- a layout element this model does not cover
  deriving DecidableEq, Repr

def startsWith (p s : Bytes) : Bool := p.isPrefixOf s

/-- count leading bytes equal to `c` -/
def runLen (c : Nat) : Bytes → Nat
  | [] => 0
  | b :: r => if b = c then 1 + runLen c r else 0

/-- the layout split into elements, following time.nextStdChunk for the elements in use and
    answering `unknown` for every other reference-time element (fuel = length) -/
def tokenize : Nat → Bytes → List Tok
  | 0, _ => []
  | _, [] => []
  | fuel + 1, c :: r =>
    let s := c :: r
    let one (t : Tok) (n : Nat) : List Tok := t :: tokenize fuel (s.drop n)
    if c = 0x4A then (if startsWith (asc "Jan") s then [.unknown] else one (.lit c) 1)
    else if c = 0x4D then
      (if startsWith (asc "Mon") s ∨ startsWith (asc "MST") s then [.unknown] else one (.lit c) 1)
    else if c = 0x30 then
      (match r with
       | d :: _ =>
         if d = 0x31 then one .month 2
         else if d = 0x32 then one .day 2
         else if d = 0x34 then one .minute 2
         else if d = 0x35 then one .second 2
         else if d = 0x33 ∨ d = 0x36 then [.unknown]
         else if startsWith (asc "002") s then [.unknown]
         else one (.lit c) 1
       | [] => one (.lit c) 1)
    else if c = 0x31 then (if startsWith (asc "15") s then one .hour 2 else [.unknown])
    else if c = 0x32 then (if startsWith (asc "2006") s then one .year 4 else [.unknown])
    else if c = 0x33 ∨ c = 0x34 ∨ c = 0x35 then [.unknown]
    else if c = 0x5F then
      (if startsWith (asc "_2") s ∨ startsWith (asc "__2") s then [.unknown] else one (.lit c) 1)
    else if c = 0x50 then (if startsWith (asc "PM") s then [.unknown] else one (.lit c) 1)
    else if c = 0x70 then (if startsWith (asc "pm") s then [.unknown] else one (.lit c) 1)
    else if c = 0x2D then (if startsWith (asc "-07") s then [.unknown] else one (.lit c) 1)
    else if c = 0x5A then
      (if startsWith (asc "Z070000") s ∨ startsWith (asc "Z07:00:00") s ∨ startsWith (asc "Z0700") s then [.unknown]
       else if startsWith (asc "Z07:00") s then one .tz 6
       else if startsWith (asc "Z07") s then [.unknown]
       else one (.lit c) 1)
    else if c = 0x2E ∨ c = 0x2C then
      (match r with
       | d :: _ =>
         if d = 0x30 ∨ d = 0x39 then
           let n := runLen d r
           -- the digit string must end here
           (match r.drop n with
            | e :: _ => if isDigit e then one (.lit c) 1
                        else if d = 0x30 then one (.frac0 n c) (n + 1) else [.unknown]
            | [] => if d = 0x30 then one (.frac0 n c) (n + 1) else [.unknown])
         else one (.lit c) 1
       | [] => one (.lit c) 1)
    else if c = 0x20 then [.unknown]
    else one (.lit c) 1

def layoutToks (l : Bytes) : List Tok := tokenize l.length l

/-- a parsed time: calendar fields as read, zone offset in seconds east of UTC (0 when absent or Z) -/
structure TV where
  year : Nat := 0
  month : Option Nat := none
  day : Option Nat := none
  hour : Nat := 0
  min : Nat := 0
  sec : Nat := 0
  nsec : Nat := 0
  offset : Int := 0
  deriving DecidableEq, Repr

/-- time.getnum -/
def getnum (s : Bytes) (fixed : Bool) : Option (Nat × Bytes) :=
  match s with
  | a :: r =>
    if !isDigit a then none
    else
      (match r with
       | b :: r' =>
         if isDigit b then some ((a - 0x30) * 10 + (b - 0x30), r')
         else if fixed then none else some (a - 0x30, r)
       | [] => if fixed then none else some (a - 0x30, []))
  | [] => none

/-- time.atoi on a short string (optional sign, digits to the end; empty digit string gives 0) -/
def atoiT (s : Bytes) : Option Int :=
  let (neg, r) : Bool × Bytes :=
    match s with
    | b :: r => if b = 0x2D then (true, r) else if b = 0x2B then (false, r) else (false, s)
    | [] => (false, [])
  if r.all isDigit then
    let v : Int := Spec.Xsd.natValue r
    some (if neg then -v else v)
  else none

/-- time.parseNanoseconds(value, nbytes) (value has at least nbytes bytes): `none` = error or range -/
def parseNanos (value : Bytes) (nbytes : Nat) : Option Nat :=
  match value with
  | c :: _ =>
    if ¬(c = 0x2E ∨ c = 0x2C) then none
    else
      let nb := if nbytes > 10 then 10 else nbytes
      match atoiT ((value.take nb).drop 1) with
      | none => none
      | some ns => if ns < 0 then none else some (ns.toNat * 10 ^ (10 - nb))
  | [] => none

def goIsLeap (y : Nat) : Bool := y % 4 == 0 && (y % 100 != 0 || y % 400 == 0)

def goDaysIn (m y : Nat) : Nat :=
  if m = 2 then (if goIsLeap y then 29 else 28)
  else if m = 4 ∨ m = 6 ∨ m = 9 ∨ m = 11 then 30 else 31

/-- is the next reference element of the remaining layout a fractional-second element? -/
def nextIsFrac : List Tok → Bool
  | [] => false
  | .lit _ :: r => nextIsFrac r
  | .frac0 _ _ :: _ => true
  | _ => false

/-- the main loop of time.parse over the layout elements -/
def parseToks : List Tok → TV → Bytes → Option TV
  | [], tv, v => if v.isEmpty then some tv else none
  | t :: ts, tv, v =>
    match t with
    | .unknown => none
    | .lit b =>
      (match v with
       | c :: r => if c = b then parseToks ts tv r else none
       | [] => none)
    | .year =>
      (match v with
       | a :: b :: c :: d :: r =>
         if isDigit a && isDigit b && isDigit c && isDigit d then
           parseToks ts { tv with year := Spec.Xsd.natValue [a, b, c, d] } r
         else none
       | _ => none)
    | .month =>
      (match getnum v true with
       | some (m, r) => if m = 0 ∨ 12 < m then none else parseToks ts { tv with month := some m } r
       | none => none)
    | .day =>
      (match getnum v true with
       | some (d, r) => parseToks ts { tv with day := some d } r
       | none => none)
    | .hour =>
      (match getnum v false with
       | some (h, r) => if 24 ≤ h then none else parseToks ts { tv with hour := h } r
       | none => none)
    | .minute =>
      (match getnum v true with
       | some (m, r) => if 60 ≤ m then none else parseToks ts { tv with min := m } r
       | none => none)
    | .second =>
      (match getnum v true with
       | some (s, r) =>
         if 60 ≤ s then none
         else
           -- fractional second in the input but not in the layout
           (match r with
            | p :: d :: _ =>
              if (p = 0x2E ∨ p = 0x2C) ∧ isDigit d ∧ ¬ nextIsFrac ts then
                let n := 2 + ((r.drop 2).takeWhile isDigit).length
                (match parseNanos r n with
                 | some ns => parseToks ts { tv with sec := s, nsec := ns } (r.drop n)
                 | none => none)
              else parseToks ts { tv with sec := s } r
            | _ => parseToks ts { tv with sec := s } r)
       | none => none)
    | .frac0 n _ =>
      let nd := 1 + n
      if v.length < nd then none
      else
        (match parseNanos v nd with
         | some ns => parseToks ts { tv with nsec := ns } (v.drop nd)
         | none => none)
    | .tz =>
      (match v with
       | 0x5A :: r => parseToks ts { tv with offset := 0 } r
       | sg :: h1 :: h2 :: c :: m1 :: m2 :: r =>
         if c ≠ 0x3A then none
         else
           (match getnum [h1, h2] true, getnum [m1, m2] true with
            | some (hr, _), some (mm, _) =>
              if hr > 24 ∨ mm > 60 then none
              else
                let off : Int := ((hr * 60 + mm) * 60 : Nat)
                if sg = 0x2B then parseToks ts { tv with offset := off } r
                else if sg = 0x2D then parseToks ts { tv with offset := -off } r
                else none
            | _, _ => none)
       | _ => none)

/-- time.Parse(layout, value): element loop, then the day-of-month validation -/
def timeParse (layout value : Bytes) : Option TV :=
  match parseToks (layoutToks layout) {} value with
  | none => none
  | some tv =>
    let m := tv.month.getD 1
    let d := tv.day.getD 1
    if d < 1 ∨ d > goDaysIn m tv.year then none else some tv

/-- zero-padded decimal of width `w` (time.appendInt) -/
def pad (w n : Nat) : Bytes :=
  let ds := Spec.Xsd.natDigits n
  List.replicate (w - ds.length) 0x30 ++ ds

/-- Time.Format(layout) -/
def timeFormat (layout : Bytes) (tv : TV) : Bytes :=
  (layoutToks layout).flatMap fun t =>
    match t with
    | .lit b => [b]
    | .year => pad 4 tv.year
    | .month => pad 2 (tv.month.getD 1)
    | .day => pad 2 (tv.day.getD 1)
    | .hour => pad 2 tv.hour
    | .minute => pad 2 tv.min
    | .second => pad 2 tv.sec
    | .frac0 n sep => sep :: (pad 9 tv.nsec).take (if n < 9 then n else 9)
    | .tz =>
      let zone : Int := tv.offset / 60
      if zone = 0 then [0x5A]
      else
        let a := zone.natAbs
        (if zone < 0 then 0x2D else 0x2B) :: (pad 2 (a / 60) ++ [0x3A] ++ pad 2 (a % 60))
    | .unknown => []

/-- xsdtype.MapDate …: first layout that parses; the value keeps the layout -/
def mapTime (f : TimeFact) (s : Bytes) : Except NumErr (TV × Bytes) :=
  let a := argOf f.collapse s
  if f.layouts.any (fun l => (layoutToks l).contains .unknown) then .error .unmodelled
  else
    match f.layouts.findSome? (fun l => (timeParse l a).map (fun tv => (tv, l))) with
    | some r => .ok r
    | none => .error .syntax

def lexTime (v : TV × Bytes) : Bytes := timeFormat v.2 v.1

/-! ### duration -/

def durationRESrc : Bytes :=
  asc "^(-)?P(((\\d*(\\.\\d*)?)Y)?((\\d*(\\.\\d*)?)M)?((\\d*(\\.\\d*)?)D)?)?(T((\\d*(\\.\\d*)?)H)?((\\d*(\\.\\d*)?)M)?((\\d*(\\.\\d*)?)S)?)?$"

/-- `(\d*(\.\d*)?)<letter>` optional: (captured number, rest); absent = ("", unchanged) -/
def durGroup (letter : Nat) (s : Bytes) : Bytes × Bytes :=
  let (i, r) := spanDigits s
  let (num, r') : Bytes × Bytes :=
    match r with
    | 0x2E :: r1 => let (f, r2) := spanDigits r1; (i ++ [0x2E] ++ f, r2)
    | _ => (i, r)
  match r' with
  | c :: rest => if c = letter then (num, rest) else ([], s)
  | [] => ([], s)

structure Dur where
  neg : Bool
  parts : List FVal      -- years, months, days, hours, minutes, seconds (absent = zero)
  deriving DecidableEq, Repr

def fzero : FVal := .fin false 0 10 0 0

/-- xsdtype.MapDuration -/
def mapDuration (f : DurationFact) (s : Bytes) : Except NumErr Dur :=
  if f.regex ≠ durationRESrc then .error .unmodelled
  else
    let a := argOf f.collapse s
    let (neg, s1) : Bool × Bytes :=
      match a with
      | b :: r => if b = 0x2D then (true, r) else (false, a)
      | [] => (false, [])
    match s1 with
    | 0x50 :: r0 =>
      let (gy, r1) := durGroup 0x59 r0
      let (gm, r2) := durGroup 0x4D r1
      let (gd, r3) := durGroup 0x44 r2
      let (gh, gmin, gs, rest) : Bytes × Bytes × Bytes × Bytes :=
        match r3 with
        | 0x54 :: r4 =>
          let (gh, r5) := durGroup 0x48 r4
          let (gmin, r6) := durGroup 0x4D r5
          let (gs, r7) := durGroup 0x53 r6
          (gh, gmin, gs, r7)
        | _ => ([], [], [], r3)
      if !rest.isEmpty then .error .syntax
      else
        let conv (g : Bytes) : Except NumErr FVal := if g.isEmpty then .ok fzero else parseFloat g 64
        (do
          let y ← conv gy; let mo ← conv gm; let d ← conv gd
          let h ← conv gh; let mi ← conv gmin; let se ← conv gs
          pure { neg := neg, parts := [y, mo, d, h, mi, se] })
    | _ => .error .syntax

/-- Duration.AsLexicalForm; `none` when a printed component's text is not determined by the model -/
def lexDuration (v : Dur) : Option Bytes :=
  let pos (x : FVal) : Bool := !roundsToZero 64 x
  let comp (x : FVal) (letter : Nat) : Option Bytes :=
    if pos x then (fmtShort 64 x).map (· ++ [letter]) else some []
  match v.parts with
  | [y, mo, d, h, mi, se] => do
    let a ← comp y 0x59
    let b ← comp mo 0x4D
    let c ← comp d 0x44
    let t ← (if pos h || pos mi || pos se then do
        let e ← comp h 0x48
        let g ← comp mi 0x4D
        let i ← comp se 0x53
        pure (0x54 :: (e ++ g ++ i))
      else some [])
    pure ((if v.neg then [0x2D] else []) ++ [0x50] ++ a ++ b ++ c ++ t)
  | _ => none

/-! ### xsdobject.Map*: dispatch on the datatype -/

/-- result of `xsdobject.Map<T>(s)`: error, or the lexical form of the literal (`none` = accepted,
    text not determined by the model: a float was formatted) -/
inductive MapRes
  | ok (lex : Option Bytes)
  | err
  | unmodelled
  deriving DecidableEq, Repr

def ofExcept {α : Type} (r : Except NumErr α) (lex : α → Option Bytes) : MapRes :=
  match r with
  | .ok v => .ok (lex v)
  | .error .unmodelled => .unmodelled
  | .error _ => .err

/-- `some none`-style helper: a lexical form that must be determined -/
def need (o : Option Bytes) : MapRes := match o with | some b => .ok (some b) | none => .unmodelled

def mapObject (F : Facts) (T : Dt) (s : Bytes) : MapRes :=
  let int (t : IntTy) : MapRes :=
    match mapInt (F.int t) s with
    | .ok v => need (lexInt (F.int t) v)
    | .error .unmodelled => .unmodelled
    | .error _ => .err
  let flt (t : FloatTy) : MapRes := ofExcept (mapFloat (F.float t) s) (lexFloat (F.float t))
  let str (t : StrTy) : MapRes := ofExcept (mapStr (F.str t) s) some
  let tim (t : TimeTy) : MapRes := ofExcept (mapTime (F.time t) s) (fun v => some (lexTime v))
  match T with
  | .integer => int .integer | .long => int .long | .int => int .int | .short => int .short
  | .byte => int .byte | .unsignedLong => int .unsignedLong | .unsignedInt => int .unsignedInt
  | .unsignedShort => int .unsignedShort | .unsignedByte => int .unsignedByte
  | .boolean => ofExcept (mapBool F.bool s) (fun v => some (lexBool F.bool v))
  | .decimal => flt .decimal | .double => flt .double | .float => flt .float
  | .anyURI => str .anyURI | .base64Binary => str .base64Binary | .hexBinary => str .hexBinary
  | .string => str .string
  | .date => tim .date | .dateTime => tim .dateTime | .dateTimeStamp => tim .dateTimeStamp
  | .gDay => tim .gDay | .gMonth => tim .gMonth | .gMonthDay => tim .gMonthDay | .gYear => tim .gYear
  | .gYearMonth => tim .gYearMonth | .time => tim .time
  | .duration => ofExcept (mapDuration F.duration s) lexDuration

/-! ### TermEquals of a mapped value, by datatype -/

/-- TermEquals for the types whose method compares `tLiteral.LexicalForm` with a text computed
    from the value (`none` = that text is not determined by the model) -/
def termEqualsText (datatype : Bytes) (same : Bool) (text : Option Bytes) (t : TermArg) : Option Bool :=
  match t with
  | .notLiteral => some false
  | .literal dt lex =>
    if ¬same then none
    else if dt ≠ datatype then some false
    else text.map (fun c => decide (c = lex))

inductive TeqRes
  | val (b : Bool)
  | mapErr
  | unknown
  deriving DecidableEq, Repr

/-- `Map<T>(s)` then `.TermEquals(t)` -/
def termEqualsObject (F : Facts) (T : Dt) (s : Bytes) (t : TermArg) : TeqRes :=
  let fin {α : Type} (r : Except NumErr α) (k : α → Option Bool) : TeqRes :=
    match r with
    | .ok v => (match k v with | some b => .val b | none => .unknown)
    | .error .unmodelled => .unknown
    | .error _ => .mapErr
  let int (ty : IntTy) : TeqRes := fin (mapInt (F.int ty) s) (fun v => termEqualsInt (F.int ty) v t)
  let flt (ty : FloatTy) : TeqRes :=
    let f := F.float ty
    fin (mapFloat f s) (fun v => termEqualsText f.datatype f.eqDatatypeSame (fmtFloatWith f.eqFmt f.eqBits v) t)
  let str (ty : StrTy) : TeqRes := fin (mapStr (F.str ty) s) (fun v => termEqualsStr (F.str ty) v t)
  let tim (ty : TimeTy) : TeqRes :=
    let f := F.time ty
    fin (mapTime f s) (fun v => termEqualsText f.datatype f.eqDatatypeSame (some (lexTime v)) t)
  match T with
  | .integer => int .integer | .long => int .long | .int => int .int | .short => int .short
  | .byte => int .byte | .unsignedLong => int .unsignedLong | .unsignedInt => int .unsignedInt
  | .unsignedShort => int .unsignedShort | .unsignedByte => int .unsignedByte
  | .boolean => fin (mapBool F.bool s) (fun v => termEqualsBool F.bool v t)
  | .decimal => flt .decimal | .double => flt .double | .float => flt .float
  | .anyURI => str .anyURI | .base64Binary => str .base64Binary | .hexBinary => str .hexBinary
  | .string => str .string
  | .date => tim .date | .dateTime => tim .dateTime | .dateTimeStamp => tim .dateTimeStamp
  | .gDay => tim .gDay | .gMonth => tim .gMonth | .gMonthDay => tim .gMonthDay | .gYear => tim .gYear
  | .gYearMonth => tim .gYearMonth | .time => tim .time
  | .duration =>
    fin (mapDuration F.duration s)
      (fun v => termEqualsText F.duration.datatype F.duration.eqDatatypeSame (lexDuration v) t)

end RdfModel.Xsd
