/-
  RdfModel.Model.ParsedIRI — executable model of /repo/iri/parsed_iri.go on top of the net/url model
  (Model/GoUrlFull.lean), function by function:

    * `parseIRI`            `ParseIRI`: `url.Parse`, the opaque reclassification, `forceFragment`
    * `ParsedIRI.isAbs`, `dropFragment`
    * `ParsedIRI.resolveReference`   every branch of `ResolveReference` (the copy of the stdlib function with
                            raw-path preservation, the opaque-base block, the empty-base-path block); the
                            one slice expression that could go out of range (`resolved[1:]`) as `Res.panic`
    * `ParsedIRI.parseRef`  `(*ParsedIRI).Parse`
    * `ParsedIRI.str`       `String()` (raw path / raw fragment substitution, forced `#`)
    * `baseIndices`         the index bookkeeping of `NewBaseIRI` (base_iri.go), which calls
                            `String`, `IsAbs`, `Parse("/")`, `Parse("./")`

  `resolvePath`, `replaceFirst` come from Model/IRI.lean (already proved about: Props/C12.lean).
  Tied by T3 ops `piri.parse / piri.resolve / piri.chain / piri.base` (exact agreement required).
  Core-only.
-/
import RdfModel.Model.GoUrlFull
namespace RdfModel.PIRI
open RdfModel.GoUrlFull

structure ParsedIRI where
  u : URL
  forceFragment : Bool
  isOpaque : Bool
deriving DecidableEq, Repr

def sHttp : Str := [0x68, 0x74, 0x74, 0x70]
def sHttps : Str := [0x68, 0x74, 0x74, 0x70, 0x73]
def sFile : Str := [0x66, 0x69, 0x6c, 0x65]

/-- the guard of the reclassification block of `ParseIRI` -/
def reclassGuard (u : URL) : Bool :=
  !u.scheme.isEmpty && u.scheme != sHttp && u.scheme != sHttps && u.scheme != sFile && u.host.isEmpty && u.opaq.isEmpty

/-- `ParseIRI` after a successful `url.Parse` -/
def reclassify (u : URL) : URL × Bool :=
  if reclassGuard u then
    if !u.path.isEmpty then
      ({ u with opaq := (if u.path.head? == some 0x2f then u.path.drop 1 else u.path), path := [], rawPath := [] }, true)
    else ({ u with opaq := [] }, true)
  else (u, false)

/-- `ParseIRI` -/
def parseIRI (s : Str) : Except PErr ParsedIRI :=
  match parse s with
  | .error e => .error e
  | .ok u =>
    let r := reclassify u
    .ok { u := r.1, forceFragment := s.getLast? == some 0x23, isOpaque := r.2 }

/-- `(*ParsedIRI).IsAbs` -/
def ParsedIRI.isAbs (p : ParsedIRI) : Bool := p.u.isAbs

/-- `(*ParsedIRI).DropFragment` -/
def ParsedIRI.dropFragment (p : ParsedIRI) : ParsedIRI :=
  { p with forceFragment := false, u := { p.u with fragment := [], rawFragment := [] } }

/-- `badSetPath(&url, p)` with the error ignored: on error the URL is left as it was -/
def setPathIgnore (u : URL) (p : Str) : URL :=
  match setPath u p with
  | .ok u' => u'
  | .error _ => u

inductive Res where
  | ok (p : ParsedIRI)
  | panic
deriving DecidableEq, Repr

/-- the opaque-base block of `ResolveReference`: the string written to `url.Opaque` -/
def opaqueResolved (baseOpaq refuPath : Str) : Str :=
  if !refuPath.isEmpty then
    if refuPath.head? == some 0x2f then refuPath
    else
      let r := match RdfModel.IRI.lastIndexSlash baseOpaq with
        | some i => RdfModel.IRI.resolvePath (baseOpaq.take (i + 1) ++ refuPath) []
        | none => RdfModel.IRI.resolvePath refuPath []
      if r.head? == some 0x2f then r.drop 1 else r
  else baseOpaq

/-- the "abs_path" or "rel_path" cases at the end of `ResolveReference` (`url` already carries the base's
    host and user) -/
def resolveRel (url : URL) (uPath refuPath : Str) (forceFragment : Bool) : Res :=
  if uPath.isEmpty then
    if !refuPath.isEmpty then
      let resolved := RdfModel.IRI.resolvePath refuPath []
      if refuPath.head? != some 0x2f then
        match resolved with
        | [] => .panic                                               -- resolved[1:] on an empty string
        | _ :: tl => .ok { u := setPathIgnore url tl, forceFragment, isOpaque := false }
      else .ok { u := setPathIgnore url resolved, forceFragment, isOpaque := false }
    else .ok { u := url, forceFragment, isOpaque := false }
  else
    .ok { u := setPathIgnore url (RdfModel.IRI.resolvePath uPath refuPath), forceFragment, isOpaque := false }

/-- the inheritance of query and fragment from the base when the reference has an empty path and no query -/
def inheritQF (u url : URL) (ref : URL) : URL :=
  if ref.path.isEmpty && !ref.forceQuery && ref.rawQuery.isEmpty then
    let url := { url with rawQuery := u.rawQuery, forceQuery := u.forceQuery }
    if ref.fragment.isEmpty then { url with fragment := u.fragment, rawFragment := u.rawFragment } else url
  else url

/-- `uPath` / `refuPath` of `ResolveReference`: `EscapedPath()`, overridden by a non-empty `RawPath` -/
def pathOf (u : URL) : Str := if !u.rawPath.isEmpty then u.rawPath else u.escapedPath

/-- `(*ParsedIRI).ResolveReference` -/
def ParsedIRI.resolveReference (iri ref : ParsedIRI) : Res :=
  let u := iri.u
  let uPath := pathOf u
  let refuPath := pathOf ref.u
  let forceFragment := iri.forceFragment || ref.forceFragment
  let url := if ref.u.scheme.isEmpty then { ref.u with scheme := u.scheme } else ref.u
  if !ref.u.scheme.isEmpty || !ref.u.host.isEmpty || ref.u.user.isSome then
    -- the "absoluteURI" or "net_path" cases
    .ok { u := setPathIgnore url (RdfModel.IRI.resolvePath refuPath []), forceFragment, isOpaque := ref.isOpaque }
  else if !ref.u.opaq.isEmpty then
    .ok { u := { url with user := none, host := [], path := [] }, forceFragment, isOpaque := true }
  else
    let url := inheritQF u url ref.u
    if ref.u.path.isEmpty && !u.opaq.isEmpty then
      .ok { u := { url with opaq := u.opaq, user := none, host := [], path := [] }, forceFragment, isOpaque := true }
    else if !u.opaq.isEmpty || iri.isOpaque then
      -- relative reference against an opaque (non-hierarchical) base
      .ok { u := { url with opaq := opaqueResolved u.opaq refuPath, user := none, host := [], path := [], rawPath := [] },
            forceFragment, isOpaque := true }
    else
      resolveRel { url with host := u.host, user := u.user } uPath refuPath forceFragment

/-- outcome of `(*ParsedIRI).Parse(ref)` -/
inductive ParseRes where
  | ok (p : ParsedIRI)
  | err (e : PErr)
  | panic
deriving DecidableEq, Repr

/-- `(*ParsedIRI).Parse` -/
def ParsedIRI.parseRef (iri : ParsedIRI) (ref : Str) : ParseRes :=
  match parseIRI ref with
  | .error e => .err e
  | .ok r =>
    match iri.resolveReference r with
    | .ok p => .ok p
    | .panic => .panic

/-- `(*ParsedIRI).String` -/
def ParsedIRI.str (p : ParsedIRI) : Str :=
  let s := p.u.str
  let s := if !p.u.rawPath.isEmpty then RdfModel.IRI.replaceFirst s p.u.escapedPath p.u.rawPath else s
  if !p.u.rawFragment.isEmpty then
    RdfModel.IRI.replaceFirst s (0x23 :: p.u.escapedFragment) (0x23 :: p.u.rawFragment)
  else if p.forceFragment && !s.contains 0x23 then s ++ [0x23]
  else s

/-- `ParseIRI(base)` then `.Parse(ref)` then `.String()`: the end-to-end function the decoders use -/
def resolveStr (base ref : Str) : Except PErr (Option Str) :=
  match parseIRI base with
  | .error e => .error e
  | .ok b =>
    match b.parseRef ref with
    | .ok p => .ok (some p.str)
    | .err e => .error e
    | .panic => .ok none

/-! ### `NewBaseIRI` (base_iri.go): root, directory, resource, query, fragment index; `-1` as `none` -/

structure BaseIdx where
  root : Option Nat
  directory : Option Nat
  resource : Nat
  query : Option Nat
  fragment : Option Nat
deriving DecidableEq, Repr

/-- `len(x.String())` of `parsed.Parse(ref)`, error ignored as in Go (`baseRoot, _ :=`): a nil result would
    panic in `.String()`; `none` stands for that -/
def lenOfParse (p : ParsedIRI) (ref : Str) : Option Nat :=
  match p.parseRef ref with
  | .ok t => some t.str.length
  | _ => none

def baseIndices (p : ParsedIRI) : Option BaseIdx :=
  let v := p.str
  let baseFragment := (cut 0x23 v).1
  let baseQuery := (cut 0x3f baseFragment).1
  let fragmentIndex := if baseFragment != v then some baseFragment.length else none
  let queryIndex := if baseQuery != baseFragment then some baseQuery.length else none
  if p.isAbs then
    match lenOfParse p [0x2f], lenOfParse p [0x2e, 0x2f] with
    | some r, some d => some ⟨some r, some d, baseQuery.length, queryIndex, fragmentIndex⟩
    | _, _ => none
  else some ⟨none, none, baseQuery.length, queryIndex, fragmentIndex⟩

/-! ### histories over the whole exported API of `ParsedIRI` / `BaseIRI`

One `ParsedIRI` value (`cur`) is driven through a sequence of exported operations, the way the decoders
do (`Parse`, then `DropFragment`, then use as a base …). The Go methods that mutate in place
(`DropFragment`) are pure functions here; the aliasing probes (`childDrop`, `urlCopy`) state that the
mutation of a derived value / of the copy returned by `URL()` leaves `cur` untouched.
Tied by T3 op `piri.hist` (go/cmd/c12/hist.go), exact agreement on every step. -/

inductive HOp where
  | parse (r : Str)      -- cur = cur.Parse(r)
  | drop                 -- cur.DropFragment()
  | refDrop (r : Str)    -- x = ParseIRI(r); x.DropFragment(); cur = cur.ResolveReference(x)
  | under (b : Str)      -- x = ParseIRI(b); cur = x.ResolveReference(cur)
  | childDrop (r : Str)  -- c = cur.Parse(r); c.DropFragment(); cur stays
  | urlCopy              -- u = cur.URL(); the copy is overwritten; cur stays
  | viaBase (r : Str)    -- b = NewBaseIRI(cur) (indices reported); cur = b.Parse(r) / b.ResolveReference(ParseIRI(r))
deriving DecidableEq, Repr

inductive HStep where
  | ok (p : ParsedIRI) (idx : Option BaseIdx)
  | err (e : PErr)
  | panic
deriving DecidableEq, Repr

def HStep.ofParseRes (idx : Option BaseIdx) : ParseRes → HStep
  | .ok p => .ok p idx
  | .err e => .err e
  | .panic => .panic

def HStep.ofRes : Res → HStep
  | .ok p => .ok p none
  | .panic => .panic

def histStep (cur : ParsedIRI) : HOp → HStep
  | .parse r => HStep.ofParseRes none (cur.parseRef r)
  | .drop => .ok cur.dropFragment none
  | .refDrop r =>
    match parseIRI r with
    | .error e => .err e
    | .ok x => HStep.ofRes (cur.resolveReference x.dropFragment)
  | .under b =>
    match parseIRI b with
    | .error e => .err e
    | .ok x => HStep.ofRes (x.resolveReference cur)
  | .childDrop r =>
    match cur.parseRef r with
    | .ok _ => .ok cur none
    | .err e => .err e
    | .panic => .panic
  | .urlCopy => .ok cur none
  | .viaBase r =>
    match baseIndices cur with
    | none => .panic
    | some i => HStep.ofParseRes (some i) (cur.parseRef r)

/-- all steps of a history; stops after the first step that is not `ok` -/
def runHist : ParsedIRI → List HOp → List HStep
  | _, [] => []
  | cur, o :: os =>
    match histStep cur o with
    | .ok p i => .ok p i :: runHist p os
    | other => [other]

/-- the value a history ends in (`none` when a step failed) -/
def histEnd : ParsedIRI → List HOp → Option ParsedIRI
  | cur, [] => some cur
  | cur, o :: os =>
    match histStep cur o with
    | .ok p _ => histEnd p os
    | _ => none

end RdfModel.PIRI
