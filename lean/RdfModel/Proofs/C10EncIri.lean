/-
  C10 helper lemmas, part 5 (encoder direction): IRI expansion under the context the encoder declares
  inverts the encoder's three ways of writing an IRI (compact IRI through a declared prefix, reference
  relative to the base, the IRI itself).
-/
import RdfModel.Proofs.C10EncCtx
namespace RdfModel.Proofs.C10
open RdfModel RdfModel.Desc RdfModel.JL RdfModel.JLEnc RdfModel.C10

/-- The active context after the encoder's `@context`: no vocabulary, no default language, the configured
    base; its terms are declared prefixes (`sound`), every used prefix is declared (`complete`). -/
structure GoodCtx (E : Enc) (bs : Option Str) (used names : List Str) (c : Ctx) : Prop where
  vocab : c.vocab = none
  lang : c.lang = none
  base : ∀ b, bs = some b → c.base = some b
  sound : ∀ k td, c.term? k = some td → k ∈ names
  complete : ∀ p ∈ used, ∀ ns, ctxEntry E p = some ns → c.term? p = some (tdPfx ns)
  nocolon : ∀ k ∈ names, k.contains cColon = false

variable {E : Enc} {bs : Option Str} {used names : List Str} {c : Ctx}

theorem term?_none_of_colon (hc : GoodCtx E bs used names c) {k : Str} (hk : k.contains cColon = true) :
    c.term? k = none := by
  cases h : c.term? k with
  | none => rfl
  | some td =>
    have := hc.nocolon k (hc.sound k td h)
    rw [hk] at this; cases this

theorem term?_none_of_not_mem (hc : GoodCtx E bs used names c) {k : Str} (hk : k ∉ names) : c.term? k = none := by
  cases h : c.term? k with
  | none => rfl
  | some td => exact absurd (hc.sound k td h) hk

/-- an absolute IRI whose scheme is no declared prefix is read as itself -/
theorem expandIri_full (hc : GoodCtx E bs used names c) (vocab docRel : Bool) {v : Str} (h : absIri v = true)
    (hs : schemeFree names v = true) : expandIri c vocab docRel v = .iri v := by
  apply expandIri_abs_of c vocab docRel h (term?_none_of_colon hc (contains_colon_of_abs h))
  intro s rest hsp
  simp only [schemeFree, hsp, Bool.or_eq_true, beq_iff_eq, Bool.not_eq_true'] at hs
  rcases hs with h1 | h1
  · exact Or.inl h1
  · right
    apply term?_none_of_not_mem hc
    intro hm
    rw [Bool.eq_false_iff] at h1
    exact h1 (by simpa using hm)

theorem splitColon_append {p : Str} (hp : p.contains cColon = false) (r : Str) :
    splitColon (p ++ cColon :: r) = some (p, r) := by
  induction p with
  | nil => simp [splitColon]
  | cons a p ih =>
    have ha : a ≠ cColon := by
      intro e; subst e; simp at hp
    have hp' : p.contains cColon = false := by
      rw [Bool.eq_false_iff] at hp ⊢
      intro h; apply hp
      have : cColon ∈ p := by simpa using h
      simpa using List.mem_cons_of_mem a this
    simp only [List.cons_append, splitColon, if_neg ha, ih hp']

/-- a compact IRI through a declared prefix is read as namespace ++ reference -/
theorem expandIri_compact (hc : GoodCtx E bs used names c) (vocab docRel : Bool) {p r ns : Str}
    (hp : pfxNameOK p = true) (hr : r.take 2 ≠ [cSlash, cSlash]) (ht : c.term? p = some (tdPfx ns)) :
    expandIri c vocab docRel (p ++ [cColon] ++ r) = .iri (ns ++ r) := by
  obtain ⟨hp1, hp2, hp3, hp4, hp5, hp6⟩ := pfxNameOK_spec hp
  obtain ⟨a, p', rfl⟩ : ∃ a p', p = a :: p' := by
    cases p with
    | nil => exact absurd rfl hp1
    | cons a p' => exact ⟨a, p', rfl⟩
  have ha : a ≠ cAt := by simpa using hp6
  have hw : (a :: p') ++ [cColon] ++ r = a :: (p' ++ cColon :: r) := by simp
  have hkw : isKeyword (a :: (p' ++ cColon :: r)) = false := isKeyword_of_head (by simpa using ha)
  have hkf : isKeywordForm (a :: (p' ++ cColon :: r)) = false := by
    cases hh : p' ++ cColon :: r with
    | nil => rfl
    | cons d rest =>
      have : (a == cAt) = false := by simpa using ha
      simp [isKeywordForm, this]
  have hcol : colonAfterFirst (a :: (p' ++ cColon :: r)) = true := by simp [colonAfterFirst]
  have hsp : splitColon (a :: (p' ++ cColon :: r)) = some (a :: p', r) := by
    have := splitColon_append hp3 r
    simpa using this
  have hterm : c.term? (a :: (p' ++ cColon :: r)) = none := term?_none_of_colon hc (by simp)
  have hvt : (if vocab = true then c.term? (a :: (p' ++ cColon :: r)) else none) = none := by
    split
    · exact hterm
    · rfl
  rw [hw]
  unfold expandIri
  simp only [hkw, hkf, Bool.false_eq_true, if_false, hvt, hcol, if_true, hsp, hp2, hr, ht, tdPfx]

theorem keywords_form : ∀ k ∈ keywords, isKeywordForm k = true := by decide

/-- a reference relative to the base that passes `relOK`'s test is resolved against the base -/
theorem expandIri_rel (hc : GoodCtx E bs used names c) {b r v : Str} (hb : bs = some b)
    (hkf : isKeywordForm r = false)
    (hcol : (match (if colonAfterFirst r then splitColon r else none) with
        | some (p, s) => p != [cUnderscore] && s.take 2 != [cSlash, cSlash] && !names.contains p && !isScheme p
        | none => true) = true)
    (hres : Spec.RFC3986Lite.resolve b r = v) :
    expandIri c false true r = .iri v := by
  have hkw : isKeyword r = false := by
    cases h : isKeyword r with
    | false => rfl
    | true =>
      have := keywords_form r (List.contains_iff_mem.1 h)
      rw [hkf] at this; cases this
  have hrel : expandRel c false true r = .iri v := by
    simp [expandRel, hc.base b hb, hres]
  unfold expandIri
  simp only [hkw, hkf, Bool.false_eq_true, if_false]
  cases hm : (if colonAfterFirst r then splitColon r else none) with
  | none => simp only [hrel]
  | some ps =>
    obtain ⟨p, s⟩ := ps
    rw [hm] at hcol
    simp only [Bool.and_eq_true, bne_iff_ne, ne_eq, Bool.not_eq_true'] at hcol
    obtain ⟨⟨⟨h1, h2⟩, h3⟩, h4⟩ := hcol
    have hnot : p ∉ names := by
      intro hmem
      rw [Bool.eq_false_iff] at h3
      exact h3 (by simpa using hmem)
    simp only [h1, if_false, h2, term?_none_of_not_mem hc hnot, h4, Bool.false_eq_true, hrel]

/-! ### the encoder's two compaction functions -/

/-- what the theorems need to know about one IRI of the dataset -/
structure IriOK (E : Enc) (used names : List Str) (v : Str) : Prop where
  abs : absIri v = true
  free : schemeFree names v = true
  compact : compactOK E v = true
  usedIn : ∀ p r, compactPrefix E v = some (p, r) → p ∈ used
  name : ∀ p r, compactPrefix E v = some (p, r) → p ∈ used → pfxNameOK p = true

theorem compactOK_spec {v p r : Str} (h : compactOK E v = true) (hc : compactPrefix E v = some (p, r)) :
    ∃ ns, ctxEntry E p = some ns ∧ ns ++ r = v := by
  simp only [compactOK, hc] at h
  cases he : ctxEntry E p with
  | none => simp [he] at h
  | some ns =>
    simp only [he, Option.any_some, beq_iff_eq] at h
    exact ⟨ns, rfl, h⟩

/-- the form `compactVocabIRI` writes is not a keyword, has a colon, and expands back — for property
    names (`vocab`, not document-relative), `@type` values and datatypes (`vocab`, document-relative) -/
theorem vocabForm (hc : GoodCtx E bs used names c) {v : Str} (h : IriOK E used names v) :
    (compactVocabIRI E v).1.head? ≠ some cAt ∧ (compactVocabIRI E v).1.contains cColon = true ∧
      ∀ vocab docRel, expandIri c vocab docRel (compactVocabIRI E v).1 = .iri v := by
  unfold compactVocabIRI
  cases hcp : compactPrefix E v with
  | none => exact ⟨head_of_abs h.abs, contains_colon_of_abs h.abs, fun a b => expandIri_full hc a b h.abs h.free⟩
  | some pr =>
    obtain ⟨p, r⟩ := pr
    by_cases hr : r.take 2 = [cSlash, cSlash]
    · simp only [hr, if_true]
      exact ⟨head_of_abs h.abs, contains_colon_of_abs h.abs, fun a b => expandIri_full hc a b h.abs h.free⟩
    · simp only [hr, if_false]
      obtain ⟨ns, hns, hcat⟩ := compactOK_spec h.compact hcp
      have hpu := h.usedIn p r hcp
      have hpn := h.name p r hcp hpu
      obtain ⟨hp1, _, _, _, _, hp6⟩ := pfxNameOK_spec hpn
      refine ⟨?_, by simp, ?_⟩
      · cases p with
        | nil => exact absurd rfl hp1
        | cons a p' => simpa using hp6
      · intro a b
        rw [expandIri_compact hc a b hpn hr (hc.complete p hpu ns hns), hcat]

/-- what `relOK` gives for the reference the encoder writes -/
theorem relOK_spec (hc : GoodCtx E bs used names c) (hbase : bs.isSome = E.base.isSome) {v : Str}
    (hrel : ∀ b, bs = some b → relOK E names b v = true) (huc : usesCompact E v = false)
    {B : Prefix.BaseIRI} (hb : E.base = some B) {rel : List Nat}
    (hrz : Prefix.relativizeB B (utf8Encode v) = .some rel) (hk : isKeywordForm (utf8Decode rel) = false)
    (hk2 : colonAfterFirst (utf8Decode rel) = false) :
    expandIri c false true (utf8Decode rel) = .iri v := by
  cases hbs : bs with
  | none => rw [hbs, hb] at hbase; cases hbase
  | some b =>
    have hro := hrel b hbs
    simp only [relOK, huc, Bool.false_or, hb, hrz, hk, hk2, Bool.and_eq_true, beq_iff_eq] at hro
    exact expandIri_rel hc hbs hk (by rw [hk2]; exact hro.1) hro.2

/-- the form `compactDocumentIRI` writes for a value of `@id` expands back (document-relative) -/
theorem docForm (hc : GoodCtx E bs used names c) (hbase : bs.isSome = E.base.isSome) {v : Str}
    (h : IriOK E used names v) (hrel : ∀ b, bs = some b → relOK E names b v = true) :
    expandIri c false true (compactDocumentIRI E v).1 = .iri v := by
  have hfull := expandIri_full hc false true h.abs h.free
  unfold compactDocumentIRI
  cases hcp : compactPrefix E v with
  | some pr =>
    obtain ⟨p, r⟩ := pr
    by_cases hr : r.take 2 = [cSlash, cSlash]
    · have huc : usesCompact E v = false := by simp [usesCompact, hcp, hr]
      simp only [hr, ne_eq, not_true_eq_false, if_false]
      split
      · rename_i B hb
        split
        · rename_i rel hrz
          split
          · exact hfull
          · rename_i hk
            exact relOK_spec hc hbase hrel huc hb hrz (by simp [keywordForm] at hk; exact hk.1) (by simp [keywordForm] at hk; exact hk.2)
        · exact hfull
      · exact hfull
    · simp only [ne_eq, hr, not_false_eq_true, if_true]
      obtain ⟨ns, hns, hcat⟩ := compactOK_spec h.compact hcp
      have hpu := h.usedIn p r hcp
      have hpn := h.name p r hcp hpu
      rw [expandIri_compact hc false true hpn hr (hc.complete p hpu ns hns), hcat]
  | none =>
    have huc : usesCompact E v = false := by simp [usesCompact, hcp]
    simp only []
    split
    · rename_i B hb
      split
      · rename_i rel hrz
        split
        · exact hfull
        · rename_i hk
          exact relOK_spec hc hbase hrel huc hb hrz (by simp [keywordForm] at hk; exact hk.1) (by simp [keywordForm] at hk; exact hk.2)
      · exact hfull
    · exact hfull


/-! ### the context of the document the encoder writes -/

theorem dedupStr_mem {l : List Str} {a : Str} : a ∈ dedupStr l ↔ a ∈ l := by
  induction l with
  | nil => simp [dedupStr]
  | cons b l ih =>
    simp only [dedupStr, List.mem_cons, List.mem_filter, ih, ne_eq, decide_not, Bool.not_eq_true',
      decide_eq_false_iff_not]
    constructor
    · rintro (h | h)
      · exact Or.inl h
      · exact Or.inr h.1
    · rintro (h | h)
      · exact Or.inl h
      · by_cases hab : a = b
        · exact Or.inl hab
        · exact Or.inr ⟨h, hab⟩

theorem dedupStr_nodup (l : List Str) : (dedupStr l).Nodup := by
  induction l with
  | nil => simp [dedupStr]
  | cons b l ih =>
    simp only [dedupStr, List.nodup_cons, List.mem_filter, ne_eq, not_true_eq_false, decide_false,
      Bool.false_eq_true, and_false, not_false_eq_true, true_and]
    exact ih.filter _

theorem declOf_names_nodup (E : Enc) (l : List Str) (h : l.Nodup) :
    ((l.filterMap fun p => (ctxEntry E p).map fun ns => (p, ns)).map (·.1)).Nodup := by
  induction l with
  | nil => simp
  | cons p l ih =>
    simp only [List.nodup_cons] at h
    simp only [List.filterMap_cons]
    cases he : ctxEntry E p with
    | none => simpa [he] using ih h.2
    | some ns =>
      simp only [he, Option.map_some, List.map_cons, List.nodup_cons]
      refine ⟨?_, ih h.2⟩
      intro hm
      obtain ⟨e, he', hk⟩ := List.mem_map.1 hm
      obtain ⟨q, hq, hqe⟩ := List.mem_filterMap.1 he'
      cases hq' : ctxEntry E q with
      | none => simp [hq'] at hqe
      | some ns' =>
        simp only [hq', Option.map_some, Option.some.injEq] at hqe
        subst hqe
        simp only at hk
        subst hk
        exact h.1 hq

theorem mem_declOf {E : Enc} {l : List Str} {p ns : Str} :
    (p, ns) ∈ (l.filterMap fun p => (ctxEntry E p).map fun ns => (p, ns)) ↔ p ∈ l ∧ ctxEntry E p = some ns := by
  simp only [List.mem_filterMap]
  constructor
  · rintro ⟨q, hq, hqe⟩
    cases hq' : ctxEntry E q with
    | none => simp [hq'] at hqe
    | some ns' =>
      simp only [hq', Option.map_some, Option.some.injEq, Prod.mk.injEq] at hqe
      obtain ⟨rfl, rfl⟩ := hqe
      exact ⟨hq, hq'⟩
  · rintro ⟨h1, h2⟩
    exact ⟨p, h1, by simp [h2]⟩

/-- the active context produced from the declarations `decl` of the used prefixes is a `GoodCtx` -/
theorem goodCtx_of_decl (E : Enc) (bs : Option Str) (used : List Str) (hu : used.Nodup) (c0 : Ctx)
    (hc0 : c0.terms = []) (hv : c0.vocab = none) (hl : c0.lang = none)
    (h : DeclOK bs (used.filterMap fun p => (ctxEntry E p).map fun ns => (p, ns))) :
    ∃ c, processCtxObj c0 (ctxMs bs (used.filterMap fun p => (ctxEntry E p).map fun ns => (p, ns))) = some c ∧
      c.mode11 = c0.mode11 ∧
      GoodCtx E bs used ((used.filterMap fun p => (ctxEntry E p).map fun ns => (p, ns)).map (·.1)) c := by
  obtain ⟨c, hp, h1, h2, h3, h4, h5⟩ := processCtxObj_enc c0 hc0 hv hl bs _ h
  refine ⟨c, hp, h4, h1, h2, ?_, ?_, ?_, ?_⟩
  · intro b hb; rw [h3, hb]; rfl
  · intro k td hk
    have hk' : c.terms.lookup k = some td := hk
    rw [h5 k] at hk'
    cases hlk : List.lookup k (List.reverse (used.filterMap fun p => (ctxEntry E p).map fun ns => (p, ns))) with
    | none => rw [hlk] at hk'; cases hk'
    | some ns =>
      have := mem_of_lookup _ _ _ hlk
      exact List.mem_map.2 ⟨(k, ns), List.mem_reverse.1 this, rfl⟩
  · intro p hp' ns hns
    show c.terms.lookup p = some (tdPfx ns)
    rw [h5 p]
    have hm : (p, ns) ∈ (used.filterMap fun p => (ctxEntry E p).map fun ns => (p, ns)).reverse :=
      List.mem_reverse.2 (mem_declOf.2 ⟨hp', hns⟩)
    rw [lookup_of_mem_nodup _ p ns hm (by
      rw [List.map_reverse]; exact (List.reverse_perm _).nodup_iff.2 (declOf_names_nodup E used hu))]
    rfl
  · intro k hk
    obtain ⟨e, he, rfl⟩ := List.mem_map.1 hk
    exact (pfxNameOK_spec (h.name e he)).2.2.1

theorem ctxMembers_eq (E : Enc) (l : List Str) :
    (l.filterMap fun p => (Prefix.expand E.pm ⟨utf8Encode p, []⟩).map fun e => (p, Json.str (utf8Decode e))) =
      (l.filterMap fun p => (ctxEntry E p).map fun ns => (p, ns)).map (fun e => (e.1, Json.str e.2)) := by
  induction l with
  | nil => rfl
  | cons p l ih =>
    simp only [ctxEntry] at ih ⊢
    simp only [List.filterMap_cons]
    cases h : Prefix.expand E.pm ⟨utf8Encode p, []⟩ with
    | none => simpa [h] using ih
    | some e => simp only [h, Option.map_some, List.map_cons]; rw [← ih]


end RdfModel.Proofs.C10
