/-
  C11, Microdata: the writer's round trip. Helper lemmas for Props/C11.lean.
    * `write_validated`   a candidate document that passed `validDoc` denotes the graph (any builder)
    * `canonDoc_denote`   the canonical document of a graph without blank-node objects denotes it
-/
import RdfModel.Spec.MicrodataFragment
namespace RdfModel.Spec.Microdata
open RdfModel RdfModel.Spec.Html RdfModel.Desc

set_option linter.unusedSectionVars false

variable {β : Type} [DecidableEq β]

theorem mem_udedup {α : Type} [DecidableEq α] (x : α) (l : List α) : x ∈ udedup l ↔ x ∈ l := by
  induction l with
  | nil => simp [udedup]
  | cons y ys ih =>
    simp only [udedup]
    split
    · rename_i h
      rw [ih]; constructor
      · intro hx; exact List.mem_cons_of_mem _ hx
      · intro hx
        rcases List.mem_cons.mp hx with rfl | hx
        · exact ih.mp h
        · exact hx
    · simp [ih]

theorem nodup_udedup {α : Type} [DecidableEq α] (l : List α) : (udedup l).Nodup := by
  induction l with
  | nil => simp [udedup]
  | cons y ys ih =>
    simp only [udedup]
    split
    · exact ih
    · rename_i h; exact List.nodup_cons.mpr ⟨h, ih⟩

theorem nodup_map_inj {α γ : Type} (f : α → γ) (l : List α) (h : (l.map f).Nodup) {a b : α}
    (ha : a ∈ l) (hb : b ∈ l) (hab : f a = f b) : a = b := by
  induction l with
  | nil => cases ha
  | cons x xs ih =>
    simp only [List.map_cons, List.nodup_cons, List.mem_map, not_exists, not_and] at h
    rcases List.mem_cons.mp ha with hax | ha' <;> rcases List.mem_cons.mp hb with hbx | hb'
    · rw [hax, hbx]
    · subst hax; exact absurd hab.symm (h.1 b hb')
    · subst hbx; exact absurd hab (h.1 a ha')
    · exact ih h.2 ha' hb'

theorem mem_bnodesOf_s (g : List (Triple β)) (t : Triple β) (ht : t ∈ g) (b : β) (h : t.s = .bnode b) : b ∈ bnodesOf g := by
  simp only [bnodesOf, mem_udedup, List.mem_flatMap]
  exact ⟨t, ht, by simp [h, termBnodes]⟩

theorem mem_bnodesOf_o (g : List (Triple β)) (t : Triple β) (ht : t ∈ g) (b : β) (h : t.o = .bnode b) : b ∈ bnodesOf g := by
  simp only [bnodesOf, mem_udedup, List.mem_flatMap]
  exact ⟨t, ht, by simp [h, termBnodes]⟩

theorem map_congr_on (g : List (Triple β)) (f f' : β → Path) (h : ∀ b ∈ bnodesOf g, f b = f' b) :
    g.map (Triple.map f) = g.map (Triple.map f') := by
  apply List.map_congr_left
  intro t ht
  obtain ⟨s, p, o⟩ := t
  have hs : Term.map f s = Term.map f' s := by
    cases s with
    | bnode b => simp [Term.map, h b (mem_bnodesOf_s g _ ht b rfl)]
    | _ => rfl
  have ho : Term.map f o = Term.map f' o := by
    cases o with
    | bnode b => simp [Term.map, h b (mem_bnodesOf_o g _ ht b rfl)]
    | _ => rfl
  simp [Triple.map, hs, ho]

theorem candSigma_injective (lbl : β → Str) (hinj : Function.Injective lbl) (g : List (Triple β)) (pos : β → Path)
    (hnd : ((bnodesOf g).map pos).Nodup) (hhead : ∀ b ∈ bnodesOf g, (pos b).head? ≠ some 0) :
    Function.Injective (candSigma lbl g pos) := by
  intro a b hab
  simp only [candSigma] at hab
  by_cases ha : a ∈ bnodesOf g <;> by_cases hb : b ∈ bnodesOf g <;> simp only [ha, hb, if_true, if_false] at hab
  · exact nodup_map_inj pos _ hnd ha hb hab
  · exact absurd (by rw [hab]; rfl) (hhead a ha)
  · exact absurd (by rw [← hab]; rfl) (hhead b hb)
  · exact hinj (List.cons.inj hab).2

/-- a validated candidate denotes the graph, blank nodes renamed by `candSigma` -/
theorem validDoc_sound (lbl : β → Str) (hinj : Function.Injective lbl) (base : Str) (g : List (Triple β)) (doc : Tree)
    (pos : β → Path) (h : validDoc base g doc pos = true) :
    Function.Injective (candSigma lbl g pos) ∧ (denote base doc).Perm (g.map (Triple.map (candSigma lbl g pos))) := by
  simp only [validDoc, Bool.and_eq_true, List.isPerm_iff, decide_eq_true_eq, List.all_eq_true, bne_iff_ne, ne_eq] at h
  obtain ⟨⟨h1, h2⟩, h3⟩ := h
  refine ⟨candSigma_injective lbl hinj g pos h2 h3, ?_⟩
  rw [map_congr_on g (candSigma lbl g pos) pos (fun b hb => by simp [candSigma, hb])]
  exact h1

theorem kidAt_eq (ks : List Tree) (i : Nat) : kidAt ks i = ks[i]? := by
  induction ks generalizing i with
  | nil => cases i <;> rfl
  | cons k ks ih => cases i with
    | zero => rfl
    | succ i => simp [kidAt, ih]

theorem nodeAt_append (t : Tree) (p q : Path) : nodeAt t (p ++ q) = (nodeAt t p).bind (fun u => nodeAt u q) := by
  induction p generalizing t with
  | nil => cases t <;> cases q <;> simp [nodeAt]
  | cons i rest ih =>
    cases t with
    | text s => simp [nodeAt]
    | elem tag a ks =>
      simp only [List.cons_append, nodeAt]
      cases kidAt ks i with
      | none => simp
      | some k => simp [ih]

/-- the value of a canonical property element -/
def valueOf (base : Str) : Term β → T
  | .lit lex _ _ => strLit lex
  | .iri i => .iri (resolveUrl base i)
  | .bnode _ => strLit []

def leafOk (t : Triple β) : Prop := fields t.p = [t.p] ∧ ∀ b, t.o ≠ .bnode b

theorem canonLeaf_shape (t : Triple β) (h : leafOk t) :
    ∃ tag a, canonLeaf t = .elem tag a [] ∧ a.itemscope = false ∧ names a = [t.p] ∧
      ∀ base here, value base here (.elem tag a []) = valueOf base t.o := by
  obtain ⟨s, p, o⟩ := t
  obtain ⟨hp, hb⟩ := h
  cases o with
  | lit lex dt lang =>
    exact ⟨.metaEl, _, rfl, rfl, by simp [names, hp, uniq], by intro base here; simp [value, valueOf]⟩
  | iri i =>
    exact ⟨.link, _, rfl, rfl, by simp [names, hp, uniq], by intro base here; simp [value, valueOf]⟩
  | bnode b => exact absurd rfl (hb b)

theorem visitKids_leaves (here : Path) (k : Nat) (ts : List (Triple β)) (h : ∀ t ∈ ts, leafOk t) :
    visitKids here k (ts.map canonLeaf) = (List.range' k ts.length).map (fun j => here ++ [j]) := by
  induction ts generalizing k with
  | nil => simp [visitKids]
  | cons t ts ih =>
    obtain ⟨tag, a, h1, h2, h3, _⟩ := canonLeaf_shape t (h t (by simp))
    simp [visitKids, h1, visit, h2, h3, ih (k + 1) (fun x hx => h x (by simp [hx])), List.range'_succ]

theorem range_flatMap {α γ : Type} (l : List α) (k : Nat) (G : Nat → List γ) (F : α → List γ)
    (h : ∀ j x, l[j]? = some x → G (k + j) = F x) : (List.range' k l.length).flatMap G = l.flatMap F := by
  induction l generalizing k with
  | nil => simp
  | cons x xs ih =>
    have h0 : G k = F x := by simpa using h 0 x (by simp)
    have := ih (k + 1) (fun j y hy => by
      have := h (j + 1) y (by simpa using hy)
      rwa [show k + (j + 1) = k + 1 + j by omega] at this)
    simp [List.range'_succ, h0, this]

theorem flatMap_single {α γ : Type} (f : α → γ) (l : List α) : l.flatMap (fun x => [f x]) = l.map f := by
  induction l with
  | nil => rfl
  | cons x xs ih => simp [List.flatMap_cons, ih]

theorem itemTriples_simple (base : Str) (doc : Tree) (here : Path) (tag : Tag) (a : Attrs) (ts : List (Triple β))
    (hnode : nodeAt doc here = some (.elem tag a (ts.map canonLeaf)))
    (href : a.itemref = none) (htype : a.itemtype = none) (hts : ∀ t ∈ ts, leafOk t) :
    itemTriples base doc here = ts.map (fun t => (⟨subject base a here, t.p, valueOf base t.o⟩ : Tr)) := by
  have hfilter : (List.map (fun j => here ++ [j]) (List.range' 0 ts.length)).filter (fun q => q != here) =
      List.map (fun j => here ++ [j]) (List.range' 0 ts.length) := by
    apply List.filter_eq_self.mpr
    intro q hq
    obtain ⟨j, _, rfl⟩ := List.mem_map.mp hq
    simp
  simp only [itemTriples, hnode, htype, props, href, visitKids_leaves here 0 ts hts, List.flatMap_nil, List.append_nil,
    List.map_nil, List.nil_append, hfilter, List.flatMap_map]
  rw [range_flatMap ts 0 _ (fun t => [(⟨subject base a here, t.p, valueOf base t.o⟩ : Tr)])]
  · exact flatMap_single _ _
  · intro j t hj
    have hmem : t ∈ ts := List.mem_of_getElem? hj
    obtain ⟨tg, at', h1, h2, h3, h4⟩ := canonLeaf_shape t (hts t hmem)
    have hn : nodeAt doc (here ++ [0 + j]) = some (canonLeaf t) := by
      rw [nodeAt_append, hnode]
      simp [nodeAt, kidAt_eq, hj]
    simp only [hn, h1, h3, h4, predicate, List.map_cons, List.map_nil]

/-- an item element of the canonical document: attributes and the triples its children express -/
def mkItem (x : Attrs × List (Triple β)) : Tree := .elem .div x.1 (x.2.map canonLeaf)

def itemOk (x : Attrs × List (Triple β)) : Prop :=
  x.1.itemscope = true ∧ x.1.itemref = none ∧ x.1.itemtype = none ∧ ∀ t ∈ x.2, leafOk t

theorem itemsKids_leaves (here : Path) (k : Nat) (ts : List (Triple β)) (h : ∀ t ∈ ts, leafOk t) :
    itemsKids here k (ts.map canonLeaf) = [] := by
  induction ts generalizing k with
  | nil => simp [itemsKids]
  | cons t ts ih =>
    obtain ⟨tag, a, h1, h2, _, _⟩ := canonLeaf_shape t (h t (by simp))
    simp [itemsKids, h1, itemsNode, h2, ih (k + 1) (fun x hx => h x (by simp [hx]))]

theorem itemsKids_items (here : Path) (k : Nat) (L : List (Attrs × List (Triple β))) (h : ∀ x ∈ L, itemOk x) :
    itemsKids here k (L.map mkItem) = (List.range' k L.length).map (fun j => here ++ [j]) := by
  induction L generalizing k with
  | nil => simp [itemsKids]
  | cons x xs ih =>
    obtain ⟨h1, _, _, h4⟩ := h x (by simp)
    simp [itemsKids, mkItem, itemsNode, h1, itemsKids_leaves _ 0 x.2 h4, ih (k + 1) (fun y hy => h y (by simp [hy])),
      List.range'_succ]

theorem denote_items (base : Str) (L : List (Attrs × List (Triple β))) (h : ∀ x ∈ L, itemOk x) :
    denote base (docOf (L.map mkItem)) =
      L.zipIdx.flatMap (fun xj => xj.1.2.map (fun t => (⟨subject base xj.1.1 [1, xj.2], t.p, valueOf base t.o⟩ : Tr))) := by
  have hitems : itemsNode [] (docOf (L.map mkItem)) = (List.range' 0 L.length).map (fun j => [1, j]) := by
    simp [docOf, itemsNode, itemsKids, itemsKids_items [1] 0 L h]
  rw [denote, hitems, List.flatMap_map]
  have hlen : L.length = L.zipIdx.length := by simp
  rw [hlen]
  apply range_flatMap
  intro j xj hj
  obtain ⟨x, j'⟩ := xj
  have hx : L[j]? = some x ∧ j' = j := by
    simp [List.getElem?_zipIdx] at hj
    obtain ⟨a, b, hy, hxy, hjj⟩ := hj
    subst hxy; subst hjj
    exact ⟨hy, rfl⟩
  obtain ⟨hx, rfl⟩ := hx
  obtain ⟨_, h2, h3, h4⟩ := h x (List.mem_of_getElem? hx)
  have hn : nodeAt (docOf (L.map mkItem)) [1, 0 + j'] = some (mkItem x) := by
    simp [docOf, nodeAt, kidAt, kidAt_eq, hx]
  simpa using itemTriples_simple base _ [1, 0 + j'] .div x.1 x.2 hn h2 h3 h4

/-! ### grouping the triples by subject is a permutation -/

theorem flatMap_filter_nil {α : Type} (bs : List α) (p : α → Triple β → Bool) :
    bs.flatMap (fun b => ([] : List (Triple β)).filter (p b)) = [] := by
  induction bs with
  | nil => rfl
  | cons b bs ih => simp [List.flatMap_cons]

theorem flatMap_congr' {α γ : Type} (l : List α) (f f' : α → List γ) (h : ∀ x ∈ l, f x = f' x) :
    l.flatMap f = l.flatMap f' := by
  induction l with
  | nil => rfl
  | cons x xs ih =>
    simp only [List.flatMap_cons, h x (by simp), ih (fun y hy => h y (by simp [hy]))]

theorem filter_hasSubj_cons_ne (b b0 : β) (t : Triple β) (ht : t.s = .bnode b0) (hne : b0 ≠ b) (g : List (Triple β)) :
    (t :: g).filter (hasSubj b) = g.filter (hasSubj b) := by
  simp [hasSubj, ht, hne]

theorem filter_hasSubj_cons_eq (b0 : β) (t : Triple β) (ht : t.s = .bnode b0) (g : List (Triple β)) :
    (t :: g).filter (hasSubj b0) = t :: g.filter (hasSubj b0) := by
  simp [hasSubj, ht]

theorem group_insert (bs : List β) (hnd : bs.Nodup) (b0 : β) (hb : b0 ∈ bs) (t : Triple β) (ht : t.s = .bnode b0)
    (g : List (Triple β)) :
    (bs.flatMap (fun b => (t :: g).filter (hasSubj b))).Perm (t :: bs.flatMap (fun b => g.filter (hasSubj b))) := by
  induction bs with
  | nil => cases hb
  | cons b bs ih =>
    have hnd' := (List.nodup_cons.mp hnd)
    by_cases hbb : b0 = b
    · subst hbb
      have hrest : bs.flatMap (fun b' => (t :: g).filter (hasSubj b')) = bs.flatMap (fun b' => g.filter (hasSubj b')) := by
        apply flatMap_congr'
        intro b' hb'
        exact filter_hasSubj_cons_ne b' b0 t ht (fun h => hnd'.1 (h ▸ hb')) g
      rw [List.flatMap_cons, List.flatMap_cons, hrest, filter_hasSubj_cons_eq b0 t ht g]
      exact List.Perm.refl _
    · have hb' : b0 ∈ bs := by
        rcases List.mem_cons.mp hb with h | h
        · exact absurd h hbb
        · exact h
      rw [List.flatMap_cons, List.flatMap_cons, filter_hasSubj_cons_ne b b0 t ht hbb g]
      exact (List.Perm.append_left _ (ih hnd'.2 hb')).trans (List.perm_middle)

theorem group_perm (bs : List β) (hnd : bs.Nodup) (g : List (Triple β))
    (hs : ∀ t ∈ g, (∃ i, t.s = .iri i) ∨ (∃ b, t.s = .bnode b ∧ b ∈ bs)) :
    (g.filter isIriSubj ++ bs.flatMap (fun b => g.filter (hasSubj b))).Perm g := by
  induction g with
  | nil => simp
  | cons t g ih =>
    have ih' := ih (fun x hx => hs x (by simp [hx]))
    rcases hs t (by simp) with ⟨i, hi⟩ | ⟨b0, hb0, hmem⟩
    · have hrest : bs.flatMap (fun b => (t :: g).filter (hasSubj b)) = bs.flatMap (fun b => g.filter (hasSubj b)) := by
        apply flatMap_congr'
        intro b _
        simp [hasSubj, hi]
      have h1 : (t :: g).filter isIriSubj = t :: g.filter isIriSubj := by simp [isIriSubj, hi]
      rw [h1, hrest, List.cons_append]
      exact List.Perm.cons _ ih'
    · have h1 : (t :: g).filter isIriSubj = g.filter isIriSubj := by simp [isIriSubj, hb0]
      rw [h1]
      exact ((List.Perm.append_left _ (group_insert bs hnd b0 hmem t hb0 g)).trans List.perm_middle).trans (List.Perm.cons _ ih')

/-! ### the canonical document -/

theorem okTriple_leafOk (base : Str) (t : Triple β) (h : okTriple base t = true) : leafOk t := by
  obtain ⟨s, p, o⟩ := t
  simp only [okTriple, Bool.and_eq_true, beq_iff_eq] at h
  refine ⟨h.1.2, ?_⟩
  intro b hb
  simp only at hb
  subst hb
  simp at h

theorem okTriple_value (base : Str) (f : β → Path) (t : Triple β) (h : okTriple base t = true) :
    valueOf base t.o = Term.map f t.o := by
  obtain ⟨s, p, o⟩ := t
  simp only [okTriple, Bool.and_eq_true, beq_iff_eq] at h
  cases o with
  | lit lex dt lang =>
    have h2 := h.2
    simp only [Bool.and_eq_true, beq_iff_eq, Option.isNone_iff_eq_none] at h2
    simp [valueOf, Term.map, strLit, h2.1, h2.2]
  | iri i =>
    have h2 : resolveUrl base i = i := by simpa using h.2
    simp [valueOf, Term.map, h2]
  | bnode b => simp at h

theorem indexOf_zipIdx (bs : List β) (hnd : bs.Nodup) (k : Nat) (b : β) (j : Nat) (h : (b, j) ∈ bs.zipIdx k) :
    b ∈ bs ∧ j = k + indexOf b bs := by
  induction bs generalizing k with
  | nil => simp at h
  | cons x xs ih =>
    have hnd' := List.nodup_cons.mp hnd
    simp only [List.zipIdx_cons, List.mem_cons, Prod.mk.injEq] at h
    rcases h with ⟨rfl, rfl⟩ | h
    · simp [indexOf]
    · obtain ⟨hm, hj⟩ := ih hnd'.2 (k + 1) h
      have hne : x ≠ b := fun hx => hnd'.1 (hx ▸ hm)
      refine ⟨List.mem_cons_of_mem _ hm, ?_⟩
      simp [indexOf, hne, hj]; omega

theorem zipIdx_flatMap_fst {α γ : Type} (l : List α) (k : Nat) (H : α → List γ) :
    (l.zipIdx k).flatMap (fun p => H p.1) = l.flatMap H := by
  induction l generalizing k with
  | nil => rfl
  | cons x xs ih => simp [List.zipIdx_cons, List.flatMap_cons, ih]

theorem canonDoc_denote (lbl : β → Str) (base : Str) (g : List (Triple β)) (hg : expressible base g = true) :
    (denote base (canonDoc g)).Perm (g.map (Triple.map (canonPos lbl g))) := by
  have hok : ∀ t ∈ g, okTriple base t = true := by simpa [expressible] using hg
  let F := g.filter isIriSubj
  let bs := bsubjectsOf g
  let A : List (Attrs × List (Triple β)) := F.map (fun t => (({ itemscope := true, itemid := (match t.s with | .iri i => some i | _ => none) } : Attrs), [t]))
  let B : List (Attrs × List (Triple β)) := bs.map (fun b => (({ itemscope := true } : Attrs), g.filter (hasSubj b)))
  have hdoc : canonDoc g = docOf ((A ++ B).map mkItem) := by
    simp only [canonDoc, A, B, List.map_append, List.map_map]
    rfl
  have hFmem : ∀ t ∈ F, t ∈ g := fun t ht => (List.mem_filter.mp ht).1
  have hitem : ∀ x ∈ A ++ B, itemOk x := by
    intro x hx
    rcases List.mem_append.mp hx with hx | hx
    · obtain ⟨t, ht, rfl⟩ := List.mem_map.mp hx
      refine ⟨rfl, rfl, rfl, ?_⟩
      intro t' ht'
      simp only [List.mem_singleton] at ht'
      subst ht'
      exact okTriple_leafOk base _ (hok _ (hFmem _ ht))
    · obtain ⟨b, _, rfl⟩ := List.mem_map.mp hx
      refine ⟨rfl, rfl, rfl, ?_⟩
      intro t' ht'
      exact okTriple_leafOk base _ (hok _ (List.mem_filter.mp ht').1)
  rw [hdoc, denote_items base (A ++ B) hitem, List.zipIdx_append, List.flatMap_append]
  -- the items of IRI subjects
  have hA : (A.zipIdx).flatMap (fun xj => xj.1.2.map (fun t => (⟨subject base xj.1.1 [1, xj.2], t.p, valueOf base t.o⟩ : Tr))) =
      F.map (Triple.map (canonPos lbl g)) := by
    rw [← flatMap_single, ← zipIdx_flatMap_fst F 0]
    simp only [A, List.zipIdx_map, List.flatMap_map]
    apply flatMap_congr'
    intro tj htj
    have ht : tj.1 ∈ F := by
      obtain ⟨t, j⟩ := tj
      exact (List.mem_zipIdx htj).2.2 ▸ List.getElem_mem _
    have hiri := (List.mem_filter.mp ht).2
    have hok' := hok _ (hFmem _ ht)
    obtain ⟨t, j⟩ := tj
    obtain ⟨s, p, o⟩ := t
    cases s with
    | iri i =>
      have hv := okTriple_value base (canonPos lbl g) ⟨.iri i, p, o⟩ hok'
      simp only [okTriple, Bool.and_eq_true, beq_iff_eq, bne_iff_ne, ne_eq] at hok'
      simp [Prod.map, subject, hok'.1.1.1, hok'.1.1.2, Triple.map, Term.map, hv]
    | bnode b => simp [isIriSubj] at hiri
    | lit l d t => simp [isIriSubj] at hiri
  have hbsnd : bs.Nodup := nodup_udedup _
  have hB : (B.zipIdx (0 + A.length)).flatMap (fun xj => xj.1.2.map (fun t => (⟨subject base xj.1.1 [1, xj.2], t.p, valueOf base t.o⟩ : Tr))) =
      bs.flatMap (fun b => (g.filter (hasSubj b)).map (Triple.map (canonPos lbl g))) := by
    rw [← zipIdx_flatMap_fst bs (0 + A.length)]
    simp only [B, List.zipIdx_map, List.flatMap_map]
    apply flatMap_congr'
    intro bj hbj
    obtain ⟨b, j⟩ := bj
    obtain ⟨hmem, hj⟩ := indexOf_zipIdx bs hbsnd (0 + A.length) b j hbj
    apply List.map_congr_left
    intro t ht
    obtain ⟨htg, hts⟩ := List.mem_filter.mp ht
    have hv := okTriple_value base (canonPos lbl g) t (hok _ htg)
    obtain ⟨s, p, o⟩ := t
    have hs : s = .bnode b := by simpa [hasSubj] using hts
    subst hs
    have hlen : A.length = (List.filter isIriSubj g).length := by simp [A, F]
    simp [Prod.map, subject, Triple.map, Term.map, hv, canonPos, hmem, bs, hj, hlen] at hmem ⊢
  rw [hA, hB, ← List.map_flatMap, ← List.map_append]
  apply List.Perm.map
  apply group_perm bs hbsnd g
  intro t ht
  have hok' := hok t ht
  obtain ⟨s, p, o⟩ := t
  cases s with
  | iri i => exact Or.inl ⟨i, rfl⟩
  | bnode b =>
    refine Or.inr ⟨b, rfl, ?_⟩
    simp only [bs, bsubjectsOf, mem_udedup, List.mem_flatMap]
    exact ⟨_, ht, by simp [termBnodes]⟩
  | lit l d t => simp [okTriple] at hok'

theorem indexOf_inj (l : List β) (a b : β) (ha : a ∈ l) (hb : b ∈ l) (h : indexOf a l = indexOf b l) : a = b := by
  induction l with
  | nil => cases ha
  | cons x xs ih =>
    by_cases hxa : x = a <;> by_cases hxb : x = b
    · rw [← hxa, ← hxb]
    · simp [indexOf, hxa] at h
      exact h
    · simp [indexOf, hxb] at h
      exact h.symm
    · have ha' : a ∈ xs := by
        rcases List.mem_cons.mp ha with h' | h'
        · exact absurd h'.symm hxa
        · exact h'
      have hb' : b ∈ xs := by
        rcases List.mem_cons.mp hb with h' | h'
        · exact absurd h'.symm hxb
        · exact h'
      simp [indexOf, hxa, hxb] at h
      exact ih ha' hb' h

theorem canonPos_injective (lbl : β → Str) (hinj : Function.Injective lbl) (g : List (Triple β)) :
    Function.Injective (canonPos lbl g) := by
  intro a b hab
  simp only [canonPos] at hab
  by_cases ha : a ∈ bsubjectsOf g <;> by_cases hb : b ∈ bsubjectsOf g <;> simp only [ha, hb, if_true, if_false] at hab
  · have : indexOf a (bsubjectsOf g) = indexOf b (bsubjectsOf g) := by
      have h2 := (List.cons.inj (List.cons.inj hab).2).1
      omega
    exact indexOf_inj _ a b ha hb this
  · simp at hab
  · simp at hab
  · exact hinj (List.cons.inj hab).2

end RdfModel.Spec.Microdata
