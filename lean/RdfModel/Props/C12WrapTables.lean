/-
  Part C12W of property C12 — T1: the hand-written byte functions of Model/GoUrlFull.lean are exactly the
  tables probed from the real net/url (Gen/GoUrlTables.lean, regenerated on every run). Each statement is
  decided over all 256 byte values; a change of net/url's tables (another toolchain) breaks these proofs.
-/
import RdfModel.Model.GoUrlFull
import RdfModel.Gen.GoUrlTables
namespace RdfModel.C12W
open RdfModel.GoUrlFull RdfModel.Gen

set_option maxRecDepth 100000

def allBytes (f : Nat → Bool) : Bool := (List.range 256).all f

theorem allBytes_spec {f : Nat → Bool} (h : allBytes f = true) : ∀ c, c < 256 → f c = true := by
  intro c hc
  exact List.all_eq_true.mp h c (List.mem_range.mpr hc)

/-- `shouldEscape` in the six modes reachable through `escape`, `validEncoded` in its two modes -/
theorem gen_shouldEscape_tables :
    allBytes (fun c =>
      shouldEscape c .path == GoUrlTables.escPath.contains c &&
      shouldEscape c .pathSegment == GoUrlTables.escPathSegment.contains c &&
      shouldEscape c .queryComponent == GoUrlTables.escQueryComponent.contains c &&
      shouldEscape c .host == GoUrlTables.escHost.contains c &&
      shouldEscape c .userPassword == GoUrlTables.escUserPassword.contains c &&
      shouldEscape c .fragment == GoUrlTables.escFragment.contains c &&
      validEncodedByte .path c == GoUrlTables.validEncPath.contains c &&
      validEncodedByte .fragment c == GoUrlTables.validEncFragment.contains c) = true := by decide

/-- `ishex`, `unhex`, `validUserinfo`, the digit loop of `validOptionalPort`, `stringContainsCTLByte` -/
theorem gen_byte_classes :
    allBytes (fun c =>
      ishex c == (GoUrlTables.hexBytes.map (·.1)).contains c &&
      (!ishex c || GoUrlTables.hexBytes.contains (c, unhex c)) &&
      validUserinfo [c] == GoUrlTables.userinfoOk.contains c &&
      isDigitC c == GoUrlTables.portByte.contains c &&
      hasCTL [c] == GoUrlTables.ctlBytes.contains c) = true := by decide

/-- escapes are written as `%` + two upper-case hex digits, and both hex positions decode alike -/
theorem gen_escape_shape : GoUrlTables.escapeIsUpperHex = true ∧ GoUrlTables.hexConsistent = true := by decide

/-- `upperhex` is the inverse of `unhex` on nibbles (the escape of a byte decodes to the byte) -/
theorem upperhex_unhex : allBytes (fun c => ishex (upperhex (c / 16 % 16)) && ishex (upperhex (c % 16)) &&
    unhex (upperhex (c / 16 % 16)) * 16 + unhex (upperhex (c % 16)) == c) = true := by decide

end RdfModel.C12W
