/-
  Property C16 — captured text offsets, Turtle / TriG: the token-producer erasure theorems of
  `Props/C16Ttl.lean` lifted to the DOCUMENT level of the statement machine `Model.TurtleDoc`.

  What is proved (`doc_capture_irrelevant_producers_partial`).  Take the statement machine the driver
  runs (`TtlDoc.run C`, `C.P = Producers.real T`) and replace each of its seven token producers by the
  offset-instrumented producer of `Model.TurtleOffsets` (`TtlO.produceX`, the model tied to Go by the
  T3 op `offx.tok`) — run, at every single call, in an ARBITRARY bookkeeping state (capture on or off,
  any writer history, any rune-buffer offset: `st k e inp`), on the remaining runes decorated with
  ARBITRARY byte sizes (`lift k e inp`, only required to decorate: `runes (lift …) = inp`), before or
  after the repairs c16x-1 / c16x-2 (`legacy`, `labelOnly`), for either package (`trig`) — and forget
  the bookkeeping of each result (`RO.erase`).  The machine then decodes exactly the same statements,
  in the same order, with the same verdict, for every input, both stream endings, every configuration.
  In words: no bookkeeping a token producer does (commits, ranges, error offsets, capture on or off)
  can change what a Turtle / TriG DOCUMENT decodes to.

  Why `_partial`.  The statement layer's OWN bookkeeping is not modelled: `Model.TurtleDoc` has no
  writer, so the commits of white space, comments, `.`, `;`, `,`, `[`, `]`, `(`, `)`, `{`, `}`, `a`,
  `^^`, the directive keywords and `true`/`false`, the `…Location` fields of the evaluation context and
  the assembly of ranges per statement (`BuildTextOffsetsValue`) are outside this theorem.  That the
  statement layer never branches on the writer is an assumption of reading this theorem as "capture
  cannot change a document"; it is tied to the sources by the T2 facts `Gen.TtlWriterUses` (go/ast,
  regenerated on every run) and the theorem `writer_is_write_only_T2` below — the field `doc` is
  touched only in decoder_offsets_util.go (six helpers returning nothing, an error or an offset/range
  pointer) and decoder_config.go (construction); outside those files and the token producers (whose
  bookkeeping IS modelled, `TtlO`) a recorded offset/range/location is compared with nil only as the
  whole condition of an `if` whose branches do nothing but assign `…Location` fields — and checked
  dynamically by the capture on/off oracle of go/cmd/c16x.  The T2 facts are a syntactic
  approximation (names bound to helper results, see go/cmd/extract/gen_c16w.go).  The full document-level statement (`doc_offsets_do_not_change_statements`: an
  instrumented statement machine, with commits where Go has them, erases to `TtlDoc.run`) is NOT
  stated as a def because its left-hand side, the instrumented statement machine, does not exist yet.
-/
import RdfModel.Props.C16Ttl
import RdfModel.Model.TurtleDoc
import RdfModel.Gen.TtlWriterUses
namespace RdfModel.C16Ttl
open RdfModel RdfModel.TW RdfModel.NQO RdfModel.TtlO

/-- Which variant of the instrumented producers: package (`trig`), before/after patch c16x-1
    (`legacy`), before/after patch c16x-2 (`labelOnly`). -/
structure Flags where
  trig : Bool
  legacy : Bool
  labelOnly : Bool
  deriving Repr

/-- The producers of the statement machine, each call delegated to the offset-instrumented producer:
    `st k e inp` is the bookkeeping state of that call and `lift k e inp` the remaining runes with their
    byte sizes (`k` = which producer, 0 … 6).  `true`/`false` are read by the statement layer itself
    (reader_scan_Object), not by a producer: unchanged. -/
def instrProducers (T : Tables) (fl : Flags) (st : Nat → End → List Nat → S)
    (lift : Nat → End → List Nat → List RP) : TtlDoc.Producers where
  iriref e inp := (TtlO.produceIRIREF T e (st 0 e inp) (lift 0 e inp)).erase
  string e inp := (TtlO.produceString T e fl.legacy (st 1 e inp) (lift 1 e inp)).erase
  pnameNS e inp := (TtlO.producePNAME_NS T e fl.trig (st 2 e inp) (lift 2 e inp)).erase
  pname e inp := (TtlO.producePrefixedName T e fl.trig (st 3 e inp) (lift 3 e inp)).erase
  bnode e inp := (TtlO.produceBlankNode T e fl.labelOnly (st 4 e inp) (lift 4 e inp)).erase
  langtag e inp := (TtlO.produceLANGTAG e (st 5 e inp) (lift 5 e inp)).erase
  numeric e inp := (TtlO.produceNumericLiteral e (st 6 e inp) (lift 6 e inp)).erase
  boolean := Ttl.scanBoolean

/-- `lift` only decorates the runes with sizes. -/
def Decorates (lift : Nat → End → List Nat → List RP) : Prop :=
  ∀ k e inp, runes (lift k e inp) = inp

/-- UTF-8 sizes of well-formed runes (an example of a decoration; ill-formed bytes, `(0xFFFD, 1)`,
    need a position-dependent one, which `Decorates` allows as well). -/
def utf8Size (c : Nat) : Nat := if c < 0x80 then 1 else if c < 0x800 then 2 else if c < 0x10000 then 3 else 4

def liftUtf8 : Nat → End → List Nat → List RP := fun _ _ inp => inp.map (fun c => (c, utf8Size c))

theorem liftUtf8_decorates : Decorates liftUtf8 := by
  intro k e inp
  simp [liftUtf8, runes, List.map_map, Function.comp_def]

/-- The instrumented producers, bookkeeping forgotten, ARE the base producers. -/
theorem instrProducers_eq (T : Tables) (fl : Flags) (st : Nat → End → List Nat → S)
    (lift : Nat → End → List Nat → List RP) (h : Decorates lift) :
    instrProducers T fl st lift = TtlDoc.Producers.real T := by
  unfold instrProducers TtlDoc.Producers.real
  congr
  · funext e inp; rw [erase_IRIREF, h]
  · funext e inp; rw [erase_String, h]
  · funext e inp; rw [erase_PNAME_NS, h]
  · funext e inp; rw [erase_PrefixedName, h]
  · funext e inp; rw [erase_BlankNode, h]
  · funext e inp; rw [erase_LANGTAG, h]
  · funext e inp; rw [erase_NumericLiteral, h]

/-- Document level, partial (see the header): the statement machine over the offset-instrumented token
    producers — any bookkeeping state per call, capture on or off, any byte sizes, repaired or not —
    decodes exactly what the statement machine the driver runs decodes. -/
theorem doc_capture_irrelevant_producers_partial (C : TtlDoc.Cfg) (T : Tables)
    (hP : C.P = TtlDoc.Producers.real T) (fl : Flags) (st : Nat → End → List Nat → S)
    (lift : Nat → End → List Nat → List RP) (h : Decorates lift)
    (e : End) (base : Option (List Nat)) (prefixes : List (List Nat × List Nat)) (inp : List Nat) :
    TtlDoc.run { C with P := instrProducers T fl st lift } e base prefixes inp
      = TtlDoc.run C e base prefixes inp := by
  rw [instrProducers_eq T fl st lift h, ← hP]

/-- In particular: capture on (fresh writer) and capture off give the same document result. -/
theorem doc_capture_on_eq_off_producers_partial (C : TtlDoc.Cfg) (T : Tables)
    (hP : C.P = TtlDoc.Producers.real T) (fl : Flags) (lift : Nat → End → List Nat → List RP)
    (h : Decorates lift)
    (e : End) (base : Option (List Nat)) (prefixes : List (List Nat × List Nat)) (inp : List Nat) :
    TtlDoc.run { C with P := instrProducers T fl (fun _ _ _ => S.init true) lift } e base prefixes inp
      = TtlDoc.run { C with P := instrProducers T fl (fun _ _ _ => S.init false) lift } e base prefixes inp := by
  rw [doc_capture_irrelevant_producers_partial C T hP fl _ lift h,
      doc_capture_irrelevant_producers_partial C T hP fl _ lift h]

/-- The hypotheses are satisfiable by the objects the driver runs: the Turtle configuration over the
    regenerated tables with the real producers, UTF-8 sizes, capture on. -/
example (T : Tables) (resolve : Option (List Nat) → List Nat → Option (List Nat)) (isSpace pnBase : Nat → Bool)
    (e : End) (inp : List Nat) :
    let C : TtlDoc.Cfg := { trig := false, P := TtlDoc.Producers.real T, resolve := resolve, isSpace := isSpace, pnBase := pnBase }
    TtlDoc.run { C with P := instrProducers T ⟨false, false, false⟩ (fun _ _ _ => S.init true) liftUtf8 } e none [] inp
      = TtlDoc.run C e none [] inp := by
  intro C
  exact doc_capture_irrelevant_producers_partial C T rfl _ _ _ liftUtf8_decorates e none [] inp

/-! ## T2: the writer and the recorded locations are write-only in the statement layer -/

/-- files that may touch the writer: the helpers and the constructor -/
def writerFiles : List String := ["decoder_offsets_util.go", "decoder_config.go"]

/-- the token producers: their bookkeeping (including their nil tests on ranges) is modelled by
    `Model.TurtleOffsets` and erased by the `erase_*` theorems -/
def producerFiles : List String :=
  ["decoder_produce_iriref.go", "decoder_produce_string.go", "decoder_produce_PrefixedName.go",
   "decoder_produce_BlankNode.go", "decoder_produce_langtag.go", "decoder_produce_NumericLiteral.go"]

def helperResults : List String := ["", "error", "*cursorio.TextOffset", "*cursorio.TextOffsetRange"]

def docUseOK (u : String × String × String) : Bool := writerFiles.contains u.2.1

def nilTestOK (t : String × String × String × String × Bool) : Bool :=
  writerFiles.contains t.2.1 || producerFiles.contains t.2.1 || t.2.2.2.2

def utilFuncOK (f : String × String × String) : Bool := helperResults.contains f.2.2

/-- T2 (go/ast facts of encoding/turtle and encoding/trig, regenerated from the working tree on every
    run): (1) the text writer `doc` is referenced only by the helpers of decoder_offsets_util.go and the
    constructor; (2) the helpers return nothing, an error, or an offset / range pointer — no value the
    statement layer could branch on other than by a nil test; (3) every nil test on a writer, offset,
    range or location outside the helpers, the constructor and the (modelled) token producers is the whole
    condition of an `if` whose branches only assign `…Location` fields.  There is at least one such
    test (the facts are not vacuous). -/
theorem writer_is_write_only_T2 :
    Gen.TtlWriterUses.docUses.all docUseOK = true ∧
    Gen.TtlWriterUses.utilFuncs.all utilFuncOK = true ∧
    Gen.TtlWriterUses.nilTests.all nilTestOK = true ∧
    Gen.TtlWriterUses.docUses ≠ [] ∧ Gen.TtlWriterUses.utilFuncs.length = 12 ∧
    (Gen.TtlWriterUses.nilTests.filter (fun t => t.2.2.2.2)).length ≥ 1 := by decide

end RdfModel.C16Ttl
