/-
  C20, date/time family (xsd:date, dateTime, dateTimeStamp, time, gYear, gYearMonth, gMonth, gDay,
  gMonthDay): theorems about `Model.GoTime`, the executable model of time.Parse / Time.Format and of
  the nine Map functions that the driver runs (component `xsdt`) and that go/cmd/c20t ties to the Go
  code line by line.

  * `time_sound_partial`   Map<T> s succeeds and the parse went through none of the four branches
                           where time.Parse is laxer than XSD (`Notes.clean`)  ⟹  s is in the lexical
                           space of T after white-space collapse. All nine types, all layouts.
  * `dev_*`                each deviation branch is real: a `decide`d input the model (and Go: replayed by
                           the harness corpus) accepts through that branch and the Spec rejects, or
                           whose literal denotes another value.
  * `time_termEquals`      TermEquals ⟺ literal of the same datatype whose text is the lexical form written
                           by AsObjectValue.
  * `time_format_parse`    parse ∘ format: for every layout in use and every value with in-range fields, the text
                           Format writes is read back by the same layout as `norm layout v` (only the printed
                           fields survive; "no zone" under a zone element comes back as UTC), no lax branch used.
  * `time_canonical_partial` the literal written for a mapped value is in the lexical space of T, maps again,
                           and the value it gives writes the same literal; excluded exactly: `tzWide` and values
                           whose Layout has a ".000000000" element (class time-fraction-signed). Equality of
                           VALUES (fields) is not claimed — hence `_partial`.
  * `time_canonical`       the same with equality of FIELDS, under `n.clean` and `n.fracDropped = false` only
                           (`time_canonical_full_holds` proves the def `time_canonical_full`).
  * NOT proved (def below; oracle only): `time_complete_canonical` (completeness on canonical forms
    within the year range; `time_complete_partial` covers the image of Format).
-/
import RdfModel.Proofs.C20Time
import RdfModel.Proofs.C20TimeRT
import RdfModel.Proofs.C20TimeRT2
import RdfModel.Proofs.C20TimeRT3
import RdfModel.Proofs.C20Collapse
import RdfModel.Props.C20Defs
import RdfModel.Gen.XsdFacts
namespace RdfModel.C20Time
open RdfModel RdfModel.GoTime
open RdfModel.Xsd (Tok Bytes layoutToks TimeTy TimeFact TermArg NumErr)
open RdfModel.Spec.Xsd (accepts lexOK normalize)
open RdfModel.C20 (dtIRI)
open RdfModel.Proofs.C20Time (Fields ZoneOK Tail PreOK LitOK)

/-! ### facts (T2) -/

/-- hand-written expectation: the layouts each Map function tries, in order -/
def expLayouts : TimeTy → List Bytes
  | .date => [asc "2006-01-02", asc "2006-01-02Z07:00"]
  | .dateTime => [asc "2006-01-02T15:04:05", asc "2006-01-02T15:04:05Z07:00", asc "2006-01-02T15:04:05.000000000",
      asc "2006-01-02T15:04:05.000000000Z07:00"]
  | .dateTimeStamp => [asc "2006-01-02T15:04:05Z07:00", asc "2006-01-02T15:04:05.000000000Z07:00"]
  | .gDay => [asc "---02", asc "---02Z07:00"]
  | .gMonth => [asc "--01", asc "--01Z07:00"]
  | .gMonthDay => [asc "--01-02", asc "--01-02Z07:00"]
  | .gYear => [asc "2006", asc "2006Z07:00"]
  | .gYearMonth => [asc "2006-01", asc "2006-01Z07:00"]
  | .time => [asc "15:04:05", asc "15:04:05.000000000", asc "15:04:05Z", asc "15:04:05.000000000Z", asc "15:04:05Z07:00",
      asc "15:04:05.000000000Z07:00"]

/-- what the theorems require of the regenerated facts of one Map function -/
def timeFactOK (T : TimeTy) (f : TimeFact) : Bool :=
  f.collapse && f.layouts == expLayouts T && f.datatype == dtIRI T.dt && f.eqDatatypeSame

/-- the current Go source satisfies the expectation -/
theorem gen_time_facts (T : TimeTy) : timeFactOK T (Gen.xsdFacts.time T) = true := by cases T <;> decide

/-! ### the layouts, split into elements (model of time.nextStdChunk, evaluated) -/

theorem tk_d1 : layoutToks (asc "2006-01-02") = [.year, .lit 0x2D, .month, .lit 0x2D, .day] := by decide
theorem tk_d2 : layoutToks (asc "2006-01-02Z07:00") = [.year, .lit 0x2D, .month, .lit 0x2D, .day, .tz] := by decide
theorem tk_dt1 : layoutToks (asc "2006-01-02T15:04:05") =
    [.year, .lit 0x2D, .month, .lit 0x2D, .day, .lit 0x54, .hour, .lit 0x3A, .minute, .lit 0x3A, .second] := by decide
theorem tk_dt2 : layoutToks (asc "2006-01-02T15:04:05Z07:00") =
    [.year, .lit 0x2D, .month, .lit 0x2D, .day, .lit 0x54, .hour, .lit 0x3A, .minute, .lit 0x3A, .second, .tz] := by decide
theorem tk_dt3 : layoutToks (asc "2006-01-02T15:04:05.000000000") =
    [.year, .lit 0x2D, .month, .lit 0x2D, .day, .lit 0x54, .hour, .lit 0x3A, .minute, .lit 0x3A, .second, .frac0 9 0x2E] := by decide
theorem tk_dt4 : layoutToks (asc "2006-01-02T15:04:05.000000000Z07:00") =
    [.year, .lit 0x2D, .month, .lit 0x2D, .day, .lit 0x54, .hour, .lit 0x3A, .minute, .lit 0x3A, .second, .frac0 9 0x2E, .tz] := by decide
theorem tk_gd1 : layoutToks (asc "---02") = [.lit 0x2D, .lit 0x2D, .lit 0x2D, .day] := by decide
theorem tk_gd2 : layoutToks (asc "---02Z07:00") = [.lit 0x2D, .lit 0x2D, .lit 0x2D, .day, .tz] := by decide
theorem tk_gm1 : layoutToks (asc "--01") = [.lit 0x2D, .lit 0x2D, .month] := by decide
theorem tk_gm2 : layoutToks (asc "--01Z07:00") = [.lit 0x2D, .lit 0x2D, .month, .tz] := by decide
theorem tk_gmd1 : layoutToks (asc "--01-02") = [.lit 0x2D, .lit 0x2D, .month, .lit 0x2D, .day] := by decide
theorem tk_gmd2 : layoutToks (asc "--01-02Z07:00") = [.lit 0x2D, .lit 0x2D, .month, .lit 0x2D, .day, .tz] := by decide
theorem tk_gy1 : layoutToks (asc "2006") = [.year] := by decide
theorem tk_gy2 : layoutToks (asc "2006Z07:00") = [.year, .tz] := by decide
theorem tk_gym1 : layoutToks (asc "2006-01") = [.year, .lit 0x2D, .month] := by decide
theorem tk_gym2 : layoutToks (asc "2006-01Z07:00") = [.year, .lit 0x2D, .month, .tz] := by decide
theorem tk_t1 : layoutToks (asc "15:04:05") = [.hour, .lit 0x3A, .minute, .lit 0x3A, .second] := by decide
theorem tk_t2 : layoutToks (asc "15:04:05.000000000") = [.hour, .lit 0x3A, .minute, .lit 0x3A, .second, .frac0 9 0x2E] := by decide
theorem tk_t3 : layoutToks (asc "15:04:05Z") = [.hour, .lit 0x3A, .minute, .lit 0x3A, .second, .lit 0x5A] := by decide
theorem tk_t4 : layoutToks (asc "15:04:05.000000000Z") =
    [.hour, .lit 0x3A, .minute, .lit 0x3A, .second, .frac0 9 0x2E, .lit 0x5A] := by decide
theorem tk_t5 : layoutToks (asc "15:04:05Z07:00") = [.hour, .lit 0x3A, .minute, .lit 0x3A, .second, .tz] := by decide
theorem tk_t6 : layoutToks (asc "15:04:05.000000000Z07:00") =
    [.hour, .lit 0x3A, .minute, .lit 0x3A, .second, .frac0 9 0x2E, .tz] := by decide

/-! ### Map<T> = first layout that parses the collapsed string -/

theorem firstParse_mem {ls : List Bytes} {a : Bytes} {v : TVal} {n : Notes} (h : firstParse ls a = some (v, n)) :
    ∃ l ∈ ls, ∃ st, timeParse l a = some st ∧ st.n = n ∧ v = { t := st.t, layout := l } := by
  induction ls with
  | nil => simp [firstParse] at h
  | cons l ls ih =>
    simp only [firstParse] at h
    split at h
    · next st e =>
      simp only [Option.some.injEq, Prod.mk.injEq] at h
      exact ⟨l, List.mem_cons_self, st, e, h.2, h.1.symm⟩
    · obtain ⟨l', hl', r⟩ := ih h
      exact ⟨l', List.mem_cons_of_mem _ hl', r⟩

theorem mapTime_inv {T : TimeTy} {f : TimeFact} (hf : timeFactOK T f = true) {s : Bytes} {v : TVal} {n : Notes}
    (h : mapTime f s = .ok (v, n)) :
    ∃ l ∈ expLayouts T, ∃ st, timeParse l (Spec.Xsd.collapse s) = some st ∧ st.n = n ∧ v = { t := st.t, layout := l } := by
  simp only [timeFactOK, Bool.and_eq_true, beq_iff_eq] at hf
  obtain ⟨⟨⟨hcol, hlay⟩, _⟩, _⟩ := hf
  simp only [mapTime, hcol, Xsd.argOf, if_true, Proofs.C20.collapse_spec] at h
  split at h
  · simp at h
  · split at h
    · next r e =>
      simp only [Except.ok.injEq] at h
      subst h
      rw [hlay] at e
      exact firstParse_mem e
    · simp at h
/-! ### soundness outside the deviation classes -/

/-- the four branches of time.Parse that are laxer than the XSD lexical spaces, as decidable
    predicates on how the model read the text (`Notes`, filled in by `GoTime.step`):
    `hour1`  (class time-hour-one-digit)   layout element "15" read a one-digit hour
    `comma`  (class time-fraction-comma)   the fraction was introduced by ','
    `fsign`  (class time-fraction-signed)  a ".000000000" element read a sign and eight digits
    `tzWide` (class time-tz-out-of-range)  "Z07:00" read an offset beyond ±14:00 / minute 60
    `Notes.clean n` = none of them. (`fracDropped`, class time-fraction-dropped, concerns the value
    written back, not soundness.) -/
theorem time_sound_partial (T : TimeTy) (f : TimeFact) (hf : timeFactOK T f = true) (s : Bytes) (v : TVal) (n : Notes)
    (h : mapTime f s = .ok (v, n)) (hc : n.clean = true) : accepts T.dt s = true := by
  obtain ⟨l, hl, st, hst, rfl, _⟩ := mapTime_inv hf h
  have hacc : accepts T.dt s = lexOK T.dt (Spec.Xsd.collapse s) := by cases T <;> rfl
  rw [hacc]
  generalize Spec.Xsd.collapse s = a at hst
  simp only [timeParse] at hst
  cases T <;> simp only [expLayouts, List.mem_cons, List.not_mem_nil, or_false] at hl
  · -- date
    rcases hl with rfl | rfl
    · rw [tk_d1] at hst; exact Proofs.C20Time.sound_date1 hst
    · rw [tk_d2] at hst; exact Proofs.C20Time.sound_date2 hst hc
  · -- dateTime
    rcases hl with rfl | rfl | rfl | rfl
    · rw [tk_dt1] at hst; exact Proofs.C20Time.sound_dateTime_plain (tl := .none) hst hc
    · rw [tk_dt2] at hst; exact Proofs.C20Time.dateTime_stamp_weaken (Proofs.C20Time.sound_dateTime_plain (tl := .tz) hst hc)
    · rw [tk_dt3] at hst; exact Proofs.C20Time.sound_dateTime_frac (tl := .none) hst hc
    · rw [tk_dt4] at hst; exact Proofs.C20Time.dateTime_stamp_weaken (Proofs.C20Time.sound_dateTime_frac (tl := .tz) hst hc)
  · -- dateTimeStamp
    rcases hl with rfl | rfl
    · rw [tk_dt2] at hst; exact Proofs.C20Time.sound_dateTime_plain (tl := .tz) hst hc
    · rw [tk_dt4] at hst; exact Proofs.C20Time.sound_dateTime_frac (tl := .tz) hst hc
  · -- gDay
    rcases hl with rfl | rfl
    · rw [tk_gd1] at hst; exact Proofs.C20Time.sound_gDay1 hst
    · rw [tk_gd2] at hst; exact Proofs.C20Time.sound_gDay2 hst hc
  · -- gMonth
    rcases hl with rfl | rfl
    · rw [tk_gm1] at hst; exact Proofs.C20Time.sound_gMonth1 hst
    · rw [tk_gm2] at hst; exact Proofs.C20Time.sound_gMonth2 hst hc
  · -- gMonthDay
    rcases hl with rfl | rfl
    · rw [tk_gmd1] at hst; exact Proofs.C20Time.sound_gMonthDay1 hst
    · rw [tk_gmd2] at hst; exact Proofs.C20Time.sound_gMonthDay2 hst hc
  · -- gYear
    rcases hl with rfl | rfl
    · rw [tk_gy1] at hst; exact Proofs.C20Time.sound_gYear1 hst
    · rw [tk_gy2] at hst; exact Proofs.C20Time.sound_gYear2 hst hc
  · -- gYearMonth
    rcases hl with rfl | rfl
    · rw [tk_gym1] at hst; exact Proofs.C20Time.sound_gYearMonth1 hst
    · rw [tk_gym2] at hst; exact Proofs.C20Time.sound_gYearMonth2 hst hc
  · -- time
    rcases hl with rfl | rfl | rfl | rfl | rfl | rfl
    · rw [tk_t1] at hst; exact Proofs.C20Time.sound_time_plain (tl := .none) hst hc
    · rw [tk_t2] at hst; exact Proofs.C20Time.sound_time_frac (tl := .none) hst hc
    · rw [tk_t3] at hst; exact Proofs.C20Time.sound_time_plain (tl := .z) hst hc
    · rw [tk_t4] at hst; exact Proofs.C20Time.sound_time_frac (tl := .z) hst hc
    · rw [tk_t5] at hst; exact Proofs.C20Time.sound_time_plain (tl := .tz) hst hc
    · rw [tk_t6] at hst; exact Proofs.C20Time.sound_time_frac (tl := .tz) hst hc

/-- the same for the facts of the current Go source -/
theorem gen_time_sound (T : TimeTy) (s : Bytes) (v : TVal) (n : Notes)
    (h : mapTime (Gen.xsdFacts.time T) s = .ok (v, n)) (hc : n.clean = true) : accepts T.dt s = true :=
  time_sound_partial T _ (gen_time_facts T) s v n h hc

/-- the full statement (no side condition) is false of the model, and of the Go code: see `dev_*` -/
def time_sound_full : Prop :=
  ∀ (T : TimeTy) (s : Bytes) (v : TVal) (n : Notes), mapTime (Gen.xsdFacts.time T) s = .ok (v, n) → accepts T.dt s = true

/-- what Map<T> does with `s` under the current facts: lexical form written back and reading notes -/
def run (T : TimeTy) (s : Bytes) : Option (Bytes × Notes) :=
  match mapTime (Gen.xsdFacts.time T) s with
  | .ok (v, n) => some (lexTime v, n)
  | .error _ => none

-- the hypotheses of `time_sound_partial` are satisfiable by non-trivial inputs of every shape
example : run .dateTime (asc " 2000-02-29T23:59:59.123456789012-05:00\n") = some (asc "2000-02-29T23:59:59-05:00", { fracDropped := true })
    ∧ ({ fracDropped := true } : Notes).clean = true := by decide
example : run .gMonthDay (asc "--02-29Z") = some (asc "--02-29Z", {}) ∧ run .gMonthDay (asc "--02-30") = none := by decide
example : run .date (asc "1900-02-29") = none ∧ run .date (asc "2000-02-29+14:00") = some (asc "2000-02-29+14:00", {}) := by decide

/-- class time-hour-one-digit is inhabited: accepted through `hour1`, not a lexical form -/
theorem dev_hour_one_digit :
    run .time (asc "1:00:00") = some (asc "01:00:00", { hour1 := true }) ∧ accepts .time (asc "1:00:00") = false ∧
    run .dateTime (asc "2000-01-01T7:00:00Z") = some (asc "2000-01-01T07:00:00Z", { hour1 := true }) ∧
    accepts .dateTime (asc "2000-01-01T7:00:00Z") = false := by decide

/-- class time-fraction-comma -/
theorem dev_fraction_comma :
    run .time (asc "12:00:00,5") = some (asc "12:00:00", { comma := true, fracDropped := true }) ∧
    accepts .time (asc "12:00:00,5") = false := by decide

/-- class time-fraction-signed: the only inputs that reach a ".000000000" layout -/
theorem dev_fraction_signed :
    run .time (asc "12:00:00.+12345678") = some (asc "12:00:00.012345678", { fsign := true }) ∧
    accepts .time (asc "12:00:00.+12345678") = false ∧
    run .dateTimeStamp (asc "1999-03-03T20:05:39,-00000000Z") = some (asc "1999-03-03T20:05:39.000000000Z", { comma := true, fsign := true }) ∧
    run .time (asc "12:00:00.-00000001") = none := by decide

/-- class time-tz-out-of-range: offsets up to ±24:60 are read; +24:60 is written +25:00, which is not read back -/
theorem dev_tz_out_of_range :
    run .gYear (asc "2000+14:01") = some (asc "2000+14:01", { tzWide := true }) ∧ accepts .gYear (asc "2000+14:01") = false ∧
    run .time (asc "12:00:00+24:60") = some (asc "12:00:00+25:00", { tzWide := true }) ∧ run .time (asc "12:00:00+25:00") = none ∧
    run .date (asc "2000-01-01-14:00") = some (asc "2000-01-01-14:00", {}) := by decide

/-- class time-fraction-dropped: a lexical form is accepted (soundly) but the literal written back
    denotes another value — the fraction is in the value and not in the stored layout; the
    ".000000000" layouts are never reached by a digit fraction -/
theorem dev_fraction_dropped :
    run .time (asc "12:00:00.5") = some (asc "12:00:00", { fracDropped := true }) ∧ accepts .time (asc "12:00:00.5") = true ∧
    run .time (asc "12:00:00.123456789") = some (asc "12:00:00", { fracDropped := true }) ∧
    run .time (asc "12:00:00.000") = some (asc "12:00:00", {}) := by decide

/-- class time-year-outside-0000-9999 (completeness): canonical forms the Go type could represent are rejected -/
theorem dev_year_range :
    run .gYear (asc "-0001") = none ∧ accepts .gYear (asc "-0001") = true ∧
    run .dateTime (asc "10000-01-01T00:00:00") = none ∧ accepts .dateTime (asc "10000-01-01T00:00:00") = true ∧
    run .gYear (asc "0000") = some (asc "0000", {}) := by decide

/-- `24:00:00` is a lexical form (not a canonical one) that time.Parse refuses -/
theorem dev_end_of_day :
    run .time (asc "24:00:00") = none ∧ accepts .time (asc "24:00:00") = true := by decide

theorem time_sound_full_fails : ¬ time_sound_full := by
  intro h
  have e : mapTime (Gen.xsdFacts.time .time) (asc "1:00:00")
      = .ok ({ t := { hour := 1 }, layout := asc "15:04:05" }, { hour1 := true }) := by decide
  have := h .time _ _ _ e
  revert this
  decide

/-! ### TermEquals -/

/-- `v.TermEquals(t)` ⟺ `t` is a literal of the same datatype whose lexical form is exactly the text
    AsObjectValue writes (`v.Time.Format(v.Layout)`) -/
theorem time_termEquals (T : TimeTy) (f : TimeFact) (hf : timeFactOK T f = true) (v : TVal) (t : TermArg) :
    termEquals f v t = some (decide (t = .literal (dtIRI T.dt) (lexTime v))) := by
  simp only [timeFactOK, Bool.and_eq_true, beq_iff_eq] at hf
  obtain ⟨⟨⟨_, _⟩, hdt⟩, hsame⟩ := hf
  cases t with
  | notLiteral => simp [termEquals]
  | literal dt lex =>
    simp only [termEquals, hsame, hdt]
    by_cases h1 : dt = dtIRI T.dt
    · subst h1
      by_cases h2 : lexTime v = lex
      · subst h2; simp
      · simp [h2]; intro e; exact h2 e.symm
    · simp [h1]

example : termEquals (Gen.xsdFacts.time .gYear) { t := { year := 2000 }, layout := asc "2006" }
    (.literal (dtIRI .gYear) (asc "2000")) = some true := by decide

section
open RdfModel.Proofs.C20Time

/-! ### canonicalisation: the written text is a lexical form and is stable -/

/-- the layout has no ".000000000" element (all values except those read through class
    time-fraction-signed; see `dev_fraction_signed`) -/
def noFrac (l : Bytes) : Bool := !(layoutToks l).any (fun t => match t with | .frac0 _ _ => true | _ => false)

def litOKb : Tok → Bool
  | .lit b => decide (33 ≤ b)
  | .frac0 _ sep => decide (33 ≤ sep)
  | _ => true

theorem litOK_of_b {tok : Tok} (h : litOKb tok = true) : LitOK tok := by
  cases tok <;> simp_all [litOKb, LitOK]

theorem lits_ok (T : TimeTy) : (expLayouts T).all (fun l => (layoutToks l).all litOKb) = true := by
  cases T <;> decide

theorem no_unknown (T : TimeTy) : (expLayouts T).any (fun l => (layoutToks l).contains .unknown) = false := by
  cases T <;> decide

theorem lexTime_noWs (T : TimeTy) {l : Bytes} (hl : l ∈ expLayouts T) (t : PT) : C20.NoWs (timeFormat l t) := by
  have := lits_ok T
  rw [List.all_eq_true] at this
  have h2 := this l hl
  rw [List.all_eq_true] at h2
  exact formatWith_noWs _ _ (fun tok ht => litOK_of_b (h2 tok ht))

/-- Map<T> on a string without white space is the first layout that parses it -/
theorem mapTime_of_first {T : TimeTy} {f : TimeFact} (hf : timeFactOK T f = true) {w : Bytes} (hw : C20.NoWs w)
    {r : TVal × Notes} (h : firstParse (expLayouts T) w = some r) : mapTime f w = .ok r := by
  simp only [timeFactOK, Bool.and_eq_true, beq_iff_eq] at hf
  obtain ⟨⟨⟨hcol, hlay⟩, _⟩, _⟩ := hf
  simp only [mapTime, hcol, Xsd.argOf, if_true, Proofs.C20.collapse_spec, Proofs.C20.collapse_noWs w hw, hlay, no_unknown,
    Bool.false_eq_true, if_false, h]

/-- per type: every layout is the type's prefix followed by a tail, possibly with a fraction element -/
theorem canon_core (T : TimeTy) {l : Bytes} (hl : l ∈ expLayouts T) (hnf : noFrac l = true) {st : PS}
    (hF : Fields st.t) (hz : ZoneOK true st.t.zone) :
    ∃ v' n', firstParse (expLayouts T) (timeFormat l st.t) = some (v', n') ∧ lexTime v' = timeFormat l st.t ∧ n'.clean = true := by
  cases T <;> simp only [expLayouts, List.mem_cons, List.not_mem_nil, or_false] at hl
  · -- date
    have hls : ∀ l' ∈ expLayouts .date, ∃ tl' : Tail, layoutToks l' = preD ++ tl'.toks ∨ layoutToks l' = preD ++ (.frac0 9 0x2E :: tl'.toks) := by
      intro l' hl'; simp only [expLayouts, List.mem_cons, List.not_mem_nil, or_false] at hl'
      rcases hl' with rfl | rfl
      · exact ⟨.none, Or.inl tk_d1⟩
      · exact ⟨.tz, Or.inl tk_d2⟩
    rcases hl with rfl | rfl
    · exact canon_of hls (preOK_D hF) hz (tl := .none) (by simp [expLayouts]) tk_d1
    · exact canon_of hls (preOK_D hF) hz (tl := .tz) (by simp [expLayouts]) tk_d2
  · -- dateTime
    have hls : ∀ l' ∈ expLayouts .dateTime, ∃ tl' : Tail, layoutToks l' = preDT ++ tl'.toks ∨ layoutToks l' = preDT ++ (.frac0 9 0x2E :: tl'.toks) := by
      intro l' hl'; simp only [expLayouts, List.mem_cons, List.not_mem_nil, or_false] at hl'
      rcases hl' with rfl | rfl | rfl | rfl
      · exact ⟨.none, Or.inl tk_dt1⟩
      · exact ⟨.tz, Or.inl tk_dt2⟩
      · exact ⟨.none, Or.inr tk_dt3⟩
      · exact ⟨.tz, Or.inr tk_dt4⟩
    rcases hl with rfl | rfl | rfl | rfl
    · exact canon_of hls (preOK_DT hF) hz (tl := .none) (by simp [expLayouts]) tk_dt1
    · exact canon_of hls (preOK_DT hF) hz (tl := .tz) (by simp [expLayouts]) tk_dt2
    · exact absurd hnf (by decide)
    · exact absurd hnf (by decide)
  · -- dateTimeStamp
    have hls : ∀ l' ∈ expLayouts .dateTimeStamp, ∃ tl' : Tail, layoutToks l' = preDT ++ tl'.toks ∨ layoutToks l' = preDT ++ (.frac0 9 0x2E :: tl'.toks) := by
      intro l' hl'; simp only [expLayouts, List.mem_cons, List.not_mem_nil, or_false] at hl'
      rcases hl' with rfl | rfl
      · exact ⟨.tz, Or.inl tk_dt2⟩
      · exact ⟨.tz, Or.inr tk_dt4⟩
    rcases hl with rfl | rfl
    · exact canon_of hls (preOK_DT hF) hz (tl := .tz) (by simp [expLayouts]) tk_dt2
    · exact absurd hnf (by decide)
  · -- gDay
    have hls : ∀ l' ∈ expLayouts .gDay, ∃ tl' : Tail, layoutToks l' = preGD ++ tl'.toks ∨ layoutToks l' = preGD ++ (.frac0 9 0x2E :: tl'.toks) := by
      intro l' hl'; simp only [expLayouts, List.mem_cons, List.not_mem_nil, or_false] at hl'
      rcases hl' with rfl | rfl
      · exact ⟨.none, Or.inl tk_gd1⟩
      · exact ⟨.tz, Or.inl tk_gd2⟩
    rcases hl with rfl | rfl
    · exact canon_of hls (preOK_GD hF) hz (tl := .none) (by simp [expLayouts]) tk_gd1
    · exact canon_of hls (preOK_GD hF) hz (tl := .tz) (by simp [expLayouts]) tk_gd2
  · -- gMonth
    have hls : ∀ l' ∈ expLayouts .gMonth, ∃ tl' : Tail, layoutToks l' = preGM ++ tl'.toks ∨ layoutToks l' = preGM ++ (.frac0 9 0x2E :: tl'.toks) := by
      intro l' hl'; simp only [expLayouts, List.mem_cons, List.not_mem_nil, or_false] at hl'
      rcases hl' with rfl | rfl
      · exact ⟨.none, Or.inl tk_gm1⟩
      · exact ⟨.tz, Or.inl tk_gm2⟩
    rcases hl with rfl | rfl
    · exact canon_of hls (preOK_GM hF) hz (tl := .none) (by simp [expLayouts]) tk_gm1
    · exact canon_of hls (preOK_GM hF) hz (tl := .tz) (by simp [expLayouts]) tk_gm2
  · -- gMonthDay
    have hls : ∀ l' ∈ expLayouts .gMonthDay, ∃ tl' : Tail, layoutToks l' = preGMD ++ tl'.toks ∨ layoutToks l' = preGMD ++ (.frac0 9 0x2E :: tl'.toks) := by
      intro l' hl'; simp only [expLayouts, List.mem_cons, List.not_mem_nil, or_false] at hl'
      rcases hl' with rfl | rfl
      · exact ⟨.none, Or.inl tk_gmd1⟩
      · exact ⟨.tz, Or.inl tk_gmd2⟩
    rcases hl with rfl | rfl
    · exact canon_of hls (preOK_GMD hF) hz (tl := .none) (by simp [expLayouts]) tk_gmd1
    · exact canon_of hls (preOK_GMD hF) hz (tl := .tz) (by simp [expLayouts]) tk_gmd2
  · -- gYear
    have hls : ∀ l' ∈ expLayouts .gYear, ∃ tl' : Tail, layoutToks l' = preGY ++ tl'.toks ∨ layoutToks l' = preGY ++ (.frac0 9 0x2E :: tl'.toks) := by
      intro l' hl'; simp only [expLayouts, List.mem_cons, List.not_mem_nil, or_false] at hl'
      rcases hl' with rfl | rfl
      · exact ⟨.none, Or.inl tk_gy1⟩
      · exact ⟨.tz, Or.inl tk_gy2⟩
    rcases hl with rfl | rfl
    · exact canon_of hls (preOK_GY hF) hz (tl := .none) (by simp [expLayouts]) tk_gy1
    · exact canon_of hls (preOK_GY hF) hz (tl := .tz) (by simp [expLayouts]) tk_gy2
  · -- gYearMonth
    have hls : ∀ l' ∈ expLayouts .gYearMonth, ∃ tl' : Tail, layoutToks l' = preGYM ++ tl'.toks ∨ layoutToks l' = preGYM ++ (.frac0 9 0x2E :: tl'.toks) := by
      intro l' hl'; simp only [expLayouts, List.mem_cons, List.not_mem_nil, or_false] at hl'
      rcases hl' with rfl | rfl
      · exact ⟨.none, Or.inl tk_gym1⟩
      · exact ⟨.tz, Or.inl tk_gym2⟩
    rcases hl with rfl | rfl
    · exact canon_of hls (preOK_GYM hF) hz (tl := .none) (by simp [expLayouts]) tk_gym1
    · exact canon_of hls (preOK_GYM hF) hz (tl := .tz) (by simp [expLayouts]) tk_gym2
  · -- time
    have hls : ∀ l' ∈ expLayouts .time, ∃ tl' : Tail, layoutToks l' = preC ++ tl'.toks ∨ layoutToks l' = preC ++ (.frac0 9 0x2E :: tl'.toks) := by
      intro l' hl'; simp only [expLayouts, List.mem_cons, List.not_mem_nil, or_false] at hl'
      rcases hl' with rfl | rfl | rfl | rfl | rfl | rfl
      · exact ⟨.none, Or.inl tk_t1⟩
      · exact ⟨.none, Or.inr tk_t2⟩
      · exact ⟨.z, Or.inl tk_t3⟩
      · exact ⟨.z, Or.inr tk_t4⟩
      · exact ⟨.tz, Or.inl tk_t5⟩
      · exact ⟨.tz, Or.inr tk_t6⟩
    rcases hl with rfl | rfl | rfl | rfl | rfl | rfl
    · exact canon_of hls (preOK_C hF) hz (tl := .none) (by simp [expLayouts]) tk_t1
    · exact absurd hnf (by decide)
    · exact canon_of hls (preOK_C hF) hz (tl := .z) (by simp [expLayouts]) tk_t3
    · exact absurd hnf (by decide)
    · exact canon_of hls (preOK_C hF) hz (tl := .tz) (by simp [expLayouts]) tk_t5
    · exact absurd hnf (by decide)

/-- Canonicalisation clause for the family. For every T, every s that Map<T> accepts with value v:
    the literal AsObjectValue writes (`lexTime v`) is in the lexical space of T, Map<T> accepts it, and
    the value it gives writes the same literal again (canonicalisation is stable).
    EXCLUDED, and only these: (a) `n.tzWide` — class time-tz-out-of-range, where the written offset is
    outside XSD's and, for +24:60 ↦ +25:00, is not read back (`dev_tz_out_of_range`); (b) values whose
    stored Layout has a ".000000000" element — reached only through class time-fraction-signed
    (`dev_fraction_signed`; their literal "…ss.ddddddddd" is re-read by the plain layout and written
    without the fraction).
    NOT excluded: one-digit hours, comma fractions and dropped fractions (class time-fraction-dropped):
    there the literal is still a stable lexical form, but it denotes a different VALUE than the
    input — which is why this theorem is `_partial` with respect to the property text ("denoting the
    same value", "gives an equal value"): equality of values is not claimed, only of lexical forms. -/
theorem time_canonical_partial (T : TimeTy) (f : TimeFact) (hf : timeFactOK T f = true) (s : Bytes) (v : TVal) (n : Notes)
    (h : mapTime f s = .ok (v, n)) (hw : n.tzWide = false) (hnf : noFrac v.layout = true) :
    accepts T.dt (lexTime v) = true ∧
    ∃ v' n', mapTime f (lexTime v) = .ok (v', n') ∧ lexTime v' = lexTime v := by
  obtain ⟨l, hl, st, hst, rfl, rfl⟩ := mapTime_inv hf h
  obtain ⟨hp, hd⟩ := parseWith_inv (by simpa [timeParse] using hst)
  have hinv := parseToks_inv _ _ _ _ hp inv_init
  have hF := fields_of_inv hinv hd
  have hz := zoneOK_of_inv hinv hw
  obtain ⟨v', n', hfp, hlex, hclean⟩ := canon_core T hl hnf hF hz
  have hmap : mapTime f (timeFormat l st.t) = .ok (v', n') := mapTime_of_first hf (lexTime_noWs T hl st.t) hfp
  exact ⟨time_sound_partial T f hf _ v' n' hmap hclean, v', n', hmap, hlex⟩

end

section
open RdfModel.Proofs.C20Time

/-! ### parse ∘ format -/

/-- the normalisation time.Parse ∘ Format performs on a value: only the fields the layout prints
    survive (the others return to their defaults: year 0, month/day unset = 1, clock 0, nsec 0, no
    zone); month and day come back as set; a zone element gives `some offset` (`Z` for offset 0, so "no
    zone" comes back as UTC); a literal `Z` gives no zone -/
def setTz (v : PT) : Tok → PT → PT
  | .tz, s => { s with zone := some (v.zone.getD 0) }
  | tok, s => setT v tok s

def norm (toks : List Tok) (v : PT) : PT := toks.foldl (fun s tok => setTz v tok s) {}

theorem fp_of {l : Bytes} {pre : List Tok} {tl : Tail} {v : PT} (hlt : layoutToks l = pre ++ tl.toks)
    (hwf : ∀ rest, TailHead rest → WF v tl.toks rest pre) (hz : ZoneOK false v.zone)
    (hd : dayOK (foldSt v pre {}).t = true)
    (hnorm : ∀ w, (tailSt v tl w (foldSt v pre {})).t = norm (pre ++ tl.toks) v) (hn : (foldSt v pre {}).n = {}) :
    ∃ n', timeParse l (timeFormat l v) = some { t := norm (layoutToks l) v, n := n' } ∧
      n'.hour1 = false ∧ n'.comma = false ∧ n'.fsign = false ∧ n'.fracDropped = false := by
  obtain ⟨w, hw, _⟩ := rt_layout v pre tl (hwf _ (tailHead_tail hz tl)) hz hd
  refine ⟨(tailSt v tl w (foldSt v pre {})).n, ?_, ?_⟩
  · rw [timeParse, timeFormat, hlt, hw, ← hnorm w]
  · cases tl <;> simp [tailSt, hn]

/-- parse ∘ format = normalisation, for every layout in use and every value whose fields are in the
    range time.Parse produces: year ≤ 9999, month 1..12, day valid for month and year (leap rule), hh < 24,
    mm, ss < 60, nanoseconds < 10⁹, zone none or ±hh:mm with hh ≤ 24, mm ≤ 59 (what Format prints
    faithfully). The text Format writes is read back by the same layout, the value read is `norm`
    of the original (see `norm`), and no lax branch is used except possibly a wide zone offset. -/
theorem time_format_parse (T : TimeTy) (l : Bytes) (hl : l ∈ expLayouts T) (v : PT) (hF : Fields v)
    (hns : v.nsec < 1000000000) (hz : ZoneOK false v.zone) :
    ∃ n', timeParse l (timeFormat l v) = some { t := norm (layoutToks l) v, n := n' } ∧
      n'.hour1 = false ∧ n'.comma = false ∧ n'.fsign = false ∧ n'.fracDropped = false := by
  cases T <;> simp only [expLayouts, List.mem_cons, List.not_mem_nil, or_false] at hl
  · rcases hl with rfl | rfl
    · exact fp_of (tl := .none) tk_d1 (fun r hr => (preOK_D hF).wf _ r hr) hz (preOK_D hF).day (fun _ => rfl) (preOK_D hF).notes
    · exact fp_of (tl := .tz) tk_d2 (fun r hr => (preOK_D hF).wf _ r hr) hz (preOK_D hF).day (fun _ => rfl) (preOK_D hF).notes
  · rcases hl with rfl | rfl | rfl | rfl
    · exact fp_of (tl := .none) tk_dt1 (fun r hr => (preOK_DT hF).wf _ r hr) hz (preOK_DT hF).day (fun _ => rfl) (preOK_DT hF).notes
    · exact fp_of (tl := .tz) tk_dt2 (fun r hr => (preOK_DT hF).wf _ r hr) hz (preOK_DT hF).day (fun _ => rfl) (preOK_DT hF).notes
    · exact fp_of (tl := .none) (pre := preDTF) tk_dt3 (fun r _ => wf_DTF hF hns _ r) hz (day_DTF hF) (fun _ => rfl) rfl
    · exact fp_of (tl := .tz) (pre := preDTF) tk_dt4 (fun r _ => wf_DTF hF hns _ r) hz (day_DTF hF) (fun _ => rfl) rfl
  · rcases hl with rfl | rfl
    · exact fp_of (tl := .tz) tk_dt2 (fun r hr => (preOK_DT hF).wf _ r hr) hz (preOK_DT hF).day (fun _ => rfl) (preOK_DT hF).notes
    · exact fp_of (tl := .tz) (pre := preDTF) tk_dt4 (fun r _ => wf_DTF hF hns _ r) hz (day_DTF hF) (fun _ => rfl) rfl
  · rcases hl with rfl | rfl
    · exact fp_of (tl := .none) tk_gd1 (fun r hr => (preOK_GD hF).wf _ r hr) hz (preOK_GD hF).day (fun _ => rfl) (preOK_GD hF).notes
    · exact fp_of (tl := .tz) tk_gd2 (fun r hr => (preOK_GD hF).wf _ r hr) hz (preOK_GD hF).day (fun _ => rfl) (preOK_GD hF).notes
  · rcases hl with rfl | rfl
    · exact fp_of (tl := .none) tk_gm1 (fun r hr => (preOK_GM hF).wf _ r hr) hz (preOK_GM hF).day (fun _ => rfl) (preOK_GM hF).notes
    · exact fp_of (tl := .tz) tk_gm2 (fun r hr => (preOK_GM hF).wf _ r hr) hz (preOK_GM hF).day (fun _ => rfl) (preOK_GM hF).notes
  · rcases hl with rfl | rfl
    · exact fp_of (tl := .none) tk_gmd1 (fun r hr => (preOK_GMD hF).wf _ r hr) hz (preOK_GMD hF).day (fun _ => rfl) (preOK_GMD hF).notes
    · exact fp_of (tl := .tz) tk_gmd2 (fun r hr => (preOK_GMD hF).wf _ r hr) hz (preOK_GMD hF).day (fun _ => rfl) (preOK_GMD hF).notes
  · rcases hl with rfl | rfl
    · exact fp_of (tl := .none) tk_gy1 (fun r hr => (preOK_GY hF).wf _ r hr) hz (preOK_GY hF).day (fun _ => rfl) (preOK_GY hF).notes
    · exact fp_of (tl := .tz) tk_gy2 (fun r hr => (preOK_GY hF).wf _ r hr) hz (preOK_GY hF).day (fun _ => rfl) (preOK_GY hF).notes
  · rcases hl with rfl | rfl
    · exact fp_of (tl := .none) tk_gym1 (fun r hr => (preOK_GYM hF).wf _ r hr) hz (preOK_GYM hF).day (fun _ => rfl) (preOK_GYM hF).notes
    · exact fp_of (tl := .tz) tk_gym2 (fun r hr => (preOK_GYM hF).wf _ r hr) hz (preOK_GYM hF).day (fun _ => rfl) (preOK_GYM hF).notes
  · rcases hl with rfl | rfl | rfl | rfl | rfl | rfl
    · exact fp_of (tl := .none) tk_t1 (fun r hr => (preOK_C hF).wf _ r hr) hz (preOK_C hF).day (fun _ => rfl) (preOK_C hF).notes
    · exact fp_of (tl := .none) (pre := preCF) tk_t2 (fun r _ => wf_CF hF hns _ r) hz (day_CF v) (fun _ => rfl) rfl
    · exact fp_of (tl := .z) tk_t3 (fun r hr => (preOK_C hF).wf _ r hr) hz (preOK_C hF).day (fun _ => rfl) (preOK_C hF).notes
    · exact fp_of (tl := .z) (pre := preCF) tk_t4 (fun r _ => wf_CF hF hns _ r) hz (day_CF v) (fun _ => rfl) rfl
    · exact fp_of (tl := .tz) tk_t5 (fun r hr => (preOK_C hF).wf _ r hr) hz (preOK_C hF).day (fun _ => rfl) (preOK_C hF).notes
    · exact fp_of (tl := .tz) (pre := preCF) tk_t6 (fun r _ => wf_CF hF hns _ r) hz (day_CF v) (fun _ => rfl) rfl

-- the hypotheses are satisfiable: a leap day with nanoseconds and a negative half-hour zone
example : timeParse (asc "2006-01-02T15:04:05.000000000Z07:00")
    (timeFormat (asc "2006-01-02T15:04:05.000000000Z07:00")
      { year := 2000, month := some 2, day := some 29, hour := 23, min := 59, sec := 59, nsec := 5, zone := some (-16200) })
    = some { t := { year := 2000, month := some 2, day := some 29, hour := 23, min := 59, sec := 59, nsec := 5, zone := some (-16200) },
             n := { tzWide := false } } := by decide
end

section
open RdfModel.Proofs.C20Time

/-- Completeness, on the image of Format: for every layout of T without fraction element and every
    value with in-range fields and a zone within XSD's ±14:00, the text Format writes (the canonical
    spelling of that value under that layout: four-digit year, two-digit fields, `Z` for offset 0) is
    mapped by Map<T>, is in the lexical space of T, and the value obtained writes it back unchanged.
    `_partial` with respect to `time_complete_canonical`: it is NOT shown that every canonical lexical
    form of the Spec is such a text (surjectivity of Format onto the canonical forms with year
    0000..9999, no fraction, hour ≠ 24); canonical forms WITH a fraction are mapped but not stably
    (class time-fraction-dropped) and are outside this theorem. -/
theorem time_complete_partial (T : TimeTy) (f : TimeFact) (hf : timeFactOK T f = true) (l : Bytes) (hl : l ∈ expLayouts T)
    (hnf : noFrac l = true) (v : PT) (hF : Fields v) (hz : ZoneOK true v.zone) :
    ∃ v' n', mapTime f (timeFormat l v) = .ok (v', n') ∧ lexTime v' = timeFormat l v ∧
      accepts T.dt (timeFormat l v) = true := by
  obtain ⟨v', n', hfp, hlex, hclean⟩ := canon_core T hl hnf (st := { t := v }) hF hz
  have hmap : mapTime f (timeFormat l v) = .ok (v', n') := mapTime_of_first hf (lexTime_noWs T hl v) hfp
  exact ⟨v', n', hmap, hlex, time_sound_partial T f hf _ v' n' hmap hclean⟩

-- non-trivial instance: a leap day in UTC-03:30
example : Fields { year := 2024, month := some 2, day := some 29 } ∧ ZoneOK true (some (-12600)) := by
  refine ⟨⟨by decide, by decide, by decide, by decide, by decide, by decide, by decide, by decide⟩, ?_⟩
  exact Or.inr ⟨3, 30, by decide, by decide, fun _ => by decide, Or.inr (by decide)⟩

end

section
open RdfModel.Proofs.C20Time

theorem canon_core2 (T : TimeTy) {l : Bytes} (hl : l ∈ expLayouts T) (hnf : noFrac l = true) {st : PS}
    (hF : Fields st.t) (hz : ZoneOK true st.t.zone) (hfr : Frame (layoutToks l) {} st) (hfd : st.n.fracDropped = false) :
    ∃ v' n', firstParse (expLayouts T) (timeFormat l st.t) = some (v', n') ∧ lexTime v' = timeFormat l st.t ∧ n'.clean = true ∧
      v'.t.same st.t = true := by
  cases T <;> simp only [expLayouts, List.mem_cons, List.not_mem_nil, or_false] at hl
  · -- date
    have hls : ∀ l' ∈ expLayouts .date, ∃ tl' : Tail, layoutToks l' = preD ++ tl'.toks ∨ layoutToks l' = preD ++ (.frac0 9 0x2E :: tl'.toks) := by
      intro l' hl'; simp only [expLayouts, List.mem_cons, List.not_mem_nil, or_false] at hl'
      rcases hl' with rfl | rfl
      · exact ⟨.none, Or.inl tk_d1⟩
      · exact ⟨.tz, Or.inl tk_d2⟩
    rcases hl with rfl | rfl
    · exact canon_of2 hls (preOK_D hF) hz (tl := .none) (by simp [expLayouts]) tk_d1 rfl (same_D (tl := .none) (by rw [tk_d1] at hfr; exact hfr) hfd)
    · exact canon_of2 hls (preOK_D hF) hz (tl := .tz) (by simp [expLayouts]) tk_d2 rfl (same_D (tl := .tz) (by rw [tk_d2] at hfr; exact hfr) hfd)
  · -- dateTime
    have hls : ∀ l' ∈ expLayouts .dateTime, ∃ tl' : Tail, layoutToks l' = preDT ++ tl'.toks ∨ layoutToks l' = preDT ++ (.frac0 9 0x2E :: tl'.toks) := by
      intro l' hl'; simp only [expLayouts, List.mem_cons, List.not_mem_nil, or_false] at hl'
      rcases hl' with rfl | rfl | rfl | rfl
      · exact ⟨.none, Or.inl tk_dt1⟩
      · exact ⟨.tz, Or.inl tk_dt2⟩
      · exact ⟨.none, Or.inr tk_dt3⟩
      · exact ⟨.tz, Or.inr tk_dt4⟩
    rcases hl with rfl | rfl | rfl | rfl
    · exact canon_of2 hls (preOK_DT hF) hz (tl := .none) (by simp [expLayouts]) tk_dt1 rfl (same_DT (tl := .none) (by rw [tk_dt1] at hfr; exact hfr) hfd)
    · exact canon_of2 hls (preOK_DT hF) hz (tl := .tz) (by simp [expLayouts]) tk_dt2 rfl (same_DT (tl := .tz) (by rw [tk_dt2] at hfr; exact hfr) hfd)
    · exact absurd hnf (by decide)
    · exact absurd hnf (by decide)
  · -- dateTimeStamp
    have hls : ∀ l' ∈ expLayouts .dateTimeStamp, ∃ tl' : Tail, layoutToks l' = preDT ++ tl'.toks ∨ layoutToks l' = preDT ++ (.frac0 9 0x2E :: tl'.toks) := by
      intro l' hl'; simp only [expLayouts, List.mem_cons, List.not_mem_nil, or_false] at hl'
      rcases hl' with rfl | rfl
      · exact ⟨.tz, Or.inl tk_dt2⟩
      · exact ⟨.tz, Or.inr tk_dt4⟩
    rcases hl with rfl | rfl
    · exact canon_of2 hls (preOK_DT hF) hz (tl := .tz) (by simp [expLayouts]) tk_dt2 rfl (same_DT (tl := .tz) (by rw [tk_dt2] at hfr; exact hfr) hfd)
    · exact absurd hnf (by decide)
  · -- gDay
    have hls : ∀ l' ∈ expLayouts .gDay, ∃ tl' : Tail, layoutToks l' = preGD ++ tl'.toks ∨ layoutToks l' = preGD ++ (.frac0 9 0x2E :: tl'.toks) := by
      intro l' hl'; simp only [expLayouts, List.mem_cons, List.not_mem_nil, or_false] at hl'
      rcases hl' with rfl | rfl
      · exact ⟨.none, Or.inl tk_gd1⟩
      · exact ⟨.tz, Or.inl tk_gd2⟩
    rcases hl with rfl | rfl
    · exact canon_of2 hls (preOK_GD hF) hz (tl := .none) (by simp [expLayouts]) tk_gd1 rfl (same_GD (tl := .none) (by rw [tk_gd1] at hfr; exact hfr) hfd)
    · exact canon_of2 hls (preOK_GD hF) hz (tl := .tz) (by simp [expLayouts]) tk_gd2 rfl (same_GD (tl := .tz) (by rw [tk_gd2] at hfr; exact hfr) hfd)
  · -- gMonth
    have hls : ∀ l' ∈ expLayouts .gMonth, ∃ tl' : Tail, layoutToks l' = preGM ++ tl'.toks ∨ layoutToks l' = preGM ++ (.frac0 9 0x2E :: tl'.toks) := by
      intro l' hl'; simp only [expLayouts, List.mem_cons, List.not_mem_nil, or_false] at hl'
      rcases hl' with rfl | rfl
      · exact ⟨.none, Or.inl tk_gm1⟩
      · exact ⟨.tz, Or.inl tk_gm2⟩
    rcases hl with rfl | rfl
    · exact canon_of2 hls (preOK_GM hF) hz (tl := .none) (by simp [expLayouts]) tk_gm1 rfl (same_GM (tl := .none) (by rw [tk_gm1] at hfr; exact hfr) hfd)
    · exact canon_of2 hls (preOK_GM hF) hz (tl := .tz) (by simp [expLayouts]) tk_gm2 rfl (same_GM (tl := .tz) (by rw [tk_gm2] at hfr; exact hfr) hfd)
  · -- gMonthDay
    have hls : ∀ l' ∈ expLayouts .gMonthDay, ∃ tl' : Tail, layoutToks l' = preGMD ++ tl'.toks ∨ layoutToks l' = preGMD ++ (.frac0 9 0x2E :: tl'.toks) := by
      intro l' hl'; simp only [expLayouts, List.mem_cons, List.not_mem_nil, or_false] at hl'
      rcases hl' with rfl | rfl
      · exact ⟨.none, Or.inl tk_gmd1⟩
      · exact ⟨.tz, Or.inl tk_gmd2⟩
    rcases hl with rfl | rfl
    · exact canon_of2 hls (preOK_GMD hF) hz (tl := .none) (by simp [expLayouts]) tk_gmd1 rfl (same_GMD (tl := .none) (by rw [tk_gmd1] at hfr; exact hfr) hfd)
    · exact canon_of2 hls (preOK_GMD hF) hz (tl := .tz) (by simp [expLayouts]) tk_gmd2 rfl (same_GMD (tl := .tz) (by rw [tk_gmd2] at hfr; exact hfr) hfd)
  · -- gYear
    have hls : ∀ l' ∈ expLayouts .gYear, ∃ tl' : Tail, layoutToks l' = preGY ++ tl'.toks ∨ layoutToks l' = preGY ++ (.frac0 9 0x2E :: tl'.toks) := by
      intro l' hl'; simp only [expLayouts, List.mem_cons, List.not_mem_nil, or_false] at hl'
      rcases hl' with rfl | rfl
      · exact ⟨.none, Or.inl tk_gy1⟩
      · exact ⟨.tz, Or.inl tk_gy2⟩
    rcases hl with rfl | rfl
    · exact canon_of2 hls (preOK_GY hF) hz (tl := .none) (by simp [expLayouts]) tk_gy1 rfl (same_GY (tl := .none) (by rw [tk_gy1] at hfr; exact hfr) hfd)
    · exact canon_of2 hls (preOK_GY hF) hz (tl := .tz) (by simp [expLayouts]) tk_gy2 rfl (same_GY (tl := .tz) (by rw [tk_gy2] at hfr; exact hfr) hfd)
  · -- gYearMonth
    have hls : ∀ l' ∈ expLayouts .gYearMonth, ∃ tl' : Tail, layoutToks l' = preGYM ++ tl'.toks ∨ layoutToks l' = preGYM ++ (.frac0 9 0x2E :: tl'.toks) := by
      intro l' hl'; simp only [expLayouts, List.mem_cons, List.not_mem_nil, or_false] at hl'
      rcases hl' with rfl | rfl
      · exact ⟨.none, Or.inl tk_gym1⟩
      · exact ⟨.tz, Or.inl tk_gym2⟩
    rcases hl with rfl | rfl
    · exact canon_of2 hls (preOK_GYM hF) hz (tl := .none) (by simp [expLayouts]) tk_gym1 rfl (same_GYM (tl := .none) (by rw [tk_gym1] at hfr; exact hfr) hfd)
    · exact canon_of2 hls (preOK_GYM hF) hz (tl := .tz) (by simp [expLayouts]) tk_gym2 rfl (same_GYM (tl := .tz) (by rw [tk_gym2] at hfr; exact hfr) hfd)
  · -- time
    have hls : ∀ l' ∈ expLayouts .time, ∃ tl' : Tail, layoutToks l' = preC ++ tl'.toks ∨ layoutToks l' = preC ++ (.frac0 9 0x2E :: tl'.toks) := by
      intro l' hl'; simp only [expLayouts, List.mem_cons, List.not_mem_nil, or_false] at hl'
      rcases hl' with rfl | rfl | rfl | rfl | rfl | rfl
      · exact ⟨.none, Or.inl tk_t1⟩
      · exact ⟨.none, Or.inr tk_t2⟩
      · exact ⟨.z, Or.inl tk_t3⟩
      · exact ⟨.z, Or.inr tk_t4⟩
      · exact ⟨.tz, Or.inl tk_t5⟩
      · exact ⟨.tz, Or.inr tk_t6⟩
    rcases hl with rfl | rfl | rfl | rfl | rfl | rfl
    · exact canon_of2 hls (preOK_C hF) hz (tl := .none) (by simp [expLayouts]) tk_t1 rfl (same_C (tl := .none) (by rw [tk_t1] at hfr; exact hfr) hfd)
    · exact absurd hnf (by decide)
    · exact canon_of2 hls (preOK_C hF) hz (tl := .z) (by simp [expLayouts]) tk_t3 rfl (same_C (tl := .z) (by rw [tk_t3] at hfr; exact hfr) hfd)
    · exact absurd hnf (by decide)
    · exact canon_of2 hls (preOK_C hF) hz (tl := .tz) (by simp [expLayouts]) tk_t5 rfl (same_C (tl := .tz) (by rw [tk_t5] at hfr; exact hfr) hfd)
    · exact absurd hnf (by decide)


/-- Same-value part of the canonicalisation clause. For every T and every s that Map<T> accepts with
    value v: the literal written (`lexTime v`) is a lexical form of T, Map<T> accepts it, and the value
    obtained has the SAME FIELDS (year, month, day, hour, minute, second, nanoseconds, zone offset:
    `PT.same`, what the harness compares on `time.Time`) and writes the same literal.
    Excluded, and only these: `n.tzWide` (class time-tz-out-of-range), `n.fracDropped` (class
    time-fraction-dropped: the fraction is in the value and not in the literal), and values whose stored
    Layout has a ".000000000" element (reached only through class time-fraction-signed).
    `_partial` w.r.t. `time_canonical_full` only in that the last exclusion is stated on the layout
    (`noFrac v.layout`) instead of being derived from `n.clean` (that a clean parse never ends in a
    ".000000000" layout is not proved). One-digit hours and comma fractions of value zero are covered. -/
theorem time_canonical_fields_partial (T : TimeTy) (f : TimeFact) (hf : timeFactOK T f = true) (s : Bytes) (v : TVal)
    (n : Notes) (h : mapTime f s = .ok (v, n)) (hw : n.tzWide = false) (hfd : n.fracDropped = false)
    (hnf : noFrac v.layout = true) :
    accepts T.dt (lexTime v) = true ∧
    ∃ v' n', mapTime f (lexTime v) = .ok (v', n') ∧ v'.t.same v.t = true ∧ lexTime v' = lexTime v := by
  obtain ⟨l, hl, st, hst, rfl, rfl⟩ := mapTime_inv hf h
  obtain ⟨hp, hd⟩ := parseWith_inv (by simpa [timeParse] using hst)
  have hinv := parseToks_inv _ _ _ _ hp inv_init
  have hfr := parseToks_frame _ _ _ _ hp
  have hF := fields_of_inv hinv hd
  have hz := zoneOK_of_inv hinv hw
  obtain ⟨v', n', hfp, hlex, hclean, hsame⟩ := canon_core2 T hl hnf hF hz hfr hfd
  have hmap : mapTime f (timeFormat l st.t) = .ok (v', n') := mapTime_of_first hf (lexTime_noWs T hl st.t) hfp
  exact ⟨time_sound_partial T f hf _ v' n' hmap hclean, v', n', hmap, hsame, hlex⟩

example : run .dateTime (asc " 2000-02-29T7:05:09,000-05:00") = some (asc "2000-02-29T07:05:09-05:00", { hour1 := true, comma := true }) := by
  decide

end

section
open RdfModel.Proofs.C20Time

theorem fp_cons {l : Bytes} {ls : List Bytes} {a : Bytes} {r : TVal × Notes} (h : firstParse (l :: ls) a = some r) :
    (∃ st, timeParse l a = some st ∧ r = ({ t := st.t, layout := l }, st.n)) ∨
    (timeParse l a = none ∧ firstParse ls a = some r) := by
  simp only [firstParse] at h
  split at h
  · next st e => left; exact ⟨st, e, by simpa using h.symm⟩
  · next e => right; exact ⟨e, h⟩

/-- a parse that used neither the comma nor the signed-fraction branch never ends in a layout with a
    ".000000000" element: the plain layout tried earlier accepts the same text (fraction rule) -/
theorem clean_noFrac (T : TimeTy) (f : TimeFact) (hf : timeFactOK T f = true) (s : Bytes) (v : TVal) (n : Notes)
    (h : mapTime f s = .ok (v, n)) (hc : n.comma = false) (hs : n.fsign = false) : noFrac v.layout = true := by
  simp only [timeFactOK, Bool.and_eq_true, beq_iff_eq] at hf
  obtain ⟨⟨⟨hcol, hlay⟩, _⟩, _⟩ := hf
  simp only [mapTime, hcol, Xsd.argOf, if_true] at h
  split at h
  · simp at h
  · split at h
    · next r e =>
      simp only [Except.ok.injEq] at h
      subst h
      rw [hlay] at e
      generalize Xsd.whiteSpaceCollapse s = a at e
      cases T <;> simp only [expLayouts] at e
      · -- date
        rcases fp_cons e with ⟨st, _, h⟩ | ⟨_, e⟩
        · cases h; dsimp only; decide
        rcases fp_cons e with ⟨st, _, h⟩ | ⟨_, e⟩
        · cases h; dsimp only; decide
        simp [firstParse] at e
      · -- dateTime
        rcases fp_cons e with ⟨st, _, h⟩ | ⟨n1, e⟩
        · cases h; dsimp only; decide
        rcases fp_cons e with ⟨st, _, h⟩ | ⟨n2, e⟩
        · cases h; dsimp only; decide
        rcases fp_cons e with ⟨st, h3, h⟩ | ⟨_, e⟩
        · cases h
          rw [timeParse, tk_dt3] at h3
          obtain ⟨y, hy⟩ := gap_dateTime (tl := .none) h3 hc hs
          rw [timeParse, tk_dt1] at n1
          rw [toks_none] at hy; rw [hy] at n1; cases n1
        rcases fp_cons e with ⟨st, h4, h⟩ | ⟨_, e⟩
        · cases h
          rw [timeParse, tk_dt4] at h4
          obtain ⟨y, hy⟩ := gap_dateTime (tl := .tz) h4 hc hs
          rw [timeParse, tk_dt2] at n2
          rw [toks_tz] at hy; rw [hy] at n2; cases n2
        simp [firstParse] at e
      · -- dateTimeStamp
        rcases fp_cons e with ⟨st, _, h⟩ | ⟨n1, e⟩
        · cases h; dsimp only; decide
        rcases fp_cons e with ⟨st, h4, h⟩ | ⟨_, e⟩
        · cases h
          rw [timeParse, tk_dt4] at h4
          obtain ⟨y, hy⟩ := gap_dateTime (tl := .tz) h4 hc hs
          rw [timeParse, tk_dt2] at n1
          rw [toks_tz] at hy; rw [hy] at n1; cases n1
        simp [firstParse] at e
      · rcases fp_cons e with ⟨st, _, h⟩ | ⟨_, e⟩
        · cases h; dsimp only; decide
        rcases fp_cons e with ⟨st, _, h⟩ | ⟨_, e⟩
        · cases h; dsimp only; decide
        simp [firstParse] at e
      · rcases fp_cons e with ⟨st, _, h⟩ | ⟨_, e⟩
        · cases h; dsimp only; decide
        rcases fp_cons e with ⟨st, _, h⟩ | ⟨_, e⟩
        · cases h; dsimp only; decide
        simp [firstParse] at e
      · rcases fp_cons e with ⟨st, _, h⟩ | ⟨_, e⟩
        · cases h; dsimp only; decide
        rcases fp_cons e with ⟨st, _, h⟩ | ⟨_, e⟩
        · cases h; dsimp only; decide
        simp [firstParse] at e
      · rcases fp_cons e with ⟨st, _, h⟩ | ⟨_, e⟩
        · cases h; dsimp only; decide
        rcases fp_cons e with ⟨st, _, h⟩ | ⟨_, e⟩
        · cases h; dsimp only; decide
        simp [firstParse] at e
      · rcases fp_cons e with ⟨st, _, h⟩ | ⟨_, e⟩
        · cases h; dsimp only; decide
        rcases fp_cons e with ⟨st, _, h⟩ | ⟨_, e⟩
        · cases h; dsimp only; decide
        simp [firstParse] at e
      · -- time
        rcases fp_cons e with ⟨st, _, h⟩ | ⟨n1, e⟩
        · cases h; dsimp only; decide
        rcases fp_cons e with ⟨st, h2, h⟩ | ⟨_, e⟩
        · cases h
          rw [timeParse, tk_t2] at h2
          obtain ⟨y, hy⟩ := gap_time (tl := .none) h2 hc hs
          rw [timeParse, tk_t1] at n1
          rw [toks_none] at hy; rw [hy] at n1; cases n1
        rcases fp_cons e with ⟨st, _, h⟩ | ⟨n3, e⟩
        · cases h; dsimp only; decide
        rcases fp_cons e with ⟨st, h4, h⟩ | ⟨_, e⟩
        · cases h
          rw [timeParse, tk_t4] at h4
          obtain ⟨y, hy⟩ := gap_time (tl := .z) h4 hc hs
          rw [timeParse, tk_t3] at n3
          rw [toks_z] at hy; rw [hy] at n3; cases n3
        rcases fp_cons e with ⟨st, _, h⟩ | ⟨n5, e⟩
        · cases h; dsimp only; decide
        rcases fp_cons e with ⟨st, h6, h⟩ | ⟨_, e⟩
        · cases h
          rw [timeParse, tk_t6] at h6
          obtain ⟨y, hy⟩ := gap_time (tl := .tz) h6 hc hs
          rw [timeParse, tk_t5] at n5
          rw [toks_tz] at hy; rw [hy] at n5; cases n5
        simp [firstParse] at e
    · simp at h

/-- Canonicalisation clause of the property for the family, with the exclusions stated on the reading
    notes only. For every T and every s that Map<T> accepts with value v, if the parse used none of
    the four lax branches (`n.clean`: no one-digit hour, comma, signed fraction, wide zone) and no
    non-zero fraction was dropped (`n.fracDropped = false`): the literal written is in the lexical space
    of T, Map<T> accepts it, and the value obtained has the same fields (year … nanoseconds, zone offset)
    and writes the same literal. -/
theorem time_canonical (T : TimeTy) (f : TimeFact) (hf : timeFactOK T f = true) (s : Bytes) (v : TVal) (n : Notes)
    (h : mapTime f s = .ok (v, n)) (hc : n.clean = true) (hfd : n.fracDropped = false) :
    accepts T.dt (lexTime v) = true ∧
    ∃ v' n', mapTime f (lexTime v) = .ok (v', n') ∧ v'.t.same v.t = true ∧ lexTime v' = lexTime v := by
  have hc' : n.hour1 = false ∧ n.comma = false ∧ n.fsign = false ∧ n.tzWide = false := by
    simpa [Notes.clean, and_assoc] using hc
  exact time_canonical_fields_partial T f hf s v n h hc'.2.2.2 hfd (clean_noFrac T f hf s v n h hc'.2.1 hc'.2.2.1)

end

/-- the exclusion (b) of `time_canonical_partial` is needed: a value with a ".000000000" layout writes a
    literal that maps to a value writing a different literal -/
theorem dev_signed_unstable :
    run .time (asc "12:00:00.+12345678") = some (asc "12:00:00.012345678", { fsign := true }) ∧
    run .time (asc "12:00:00.012345678") = some (asc "12:00:00", { fracDropped := true }) := by decide

/-! ### not proved -/

/-- The canonicalisation clause for the current facts, as first stated in round 3. PROVED:
    `time_canonical_full_holds` (from `time_canonical`). -/
def time_canonical_full : Prop :=
  ∀ (T : TimeTy) (s : Bytes) (v : TVal) (n : Notes), mapTime (Gen.xsdFacts.time T) s = .ok (v, n) →
    n.clean = true → n.fracDropped = false →
    accepts T.dt (lexTime v) = true ∧
    ∃ v' n', mapTime (Gen.xsdFacts.time T) (lexTime v) = .ok (v', n') ∧ v'.t.same v.t = true ∧ lexTime v' = lexTime v

/-- the statement kept as `def time_canonical_full` holds -/
theorem time_canonical_full_holds : time_canonical_full :=
  fun T s v n h hc hfd => time_canonical T _ (gen_time_facts T) s v n h hc hfd

/-- Completeness on canonical forms within the code's year range: every string of the lexical space
    of T whose year (if any) is written with exactly four digits and no sign, and which is not the
    end-of-day form 24:00:00, is mapped. NOT PROVED (the converse direction of `time_sound_partial`,
    per layout); `dev_year_range` and `dev_end_of_day` show the two side conditions are needed. Checked
    by the oracle of go/cmd/c20 (aspect complete) on the Go code. -/
def time_complete_canonical : Prop :=
  ∀ (T : TimeTy) (a : Bytes), lexOK T.dt a = true →
    (∀ c r, a = c :: r → c ≠ 0x2D ∨ T = .gDay ∨ T = .gMonth ∨ T = .gMonthDay) →
    (∀ y r, Spec.Xsd.yearFrag a = some (y, r) → y < 10000 ∨ T = .time ∨ T = .gDay ∨ T = .gMonth ∨ T = .gMonthDay) →
    (∀ p q, a = p ++ asc "24:00:00" ++ q → False) →
    ∃ v n, mapTime (Gen.xsdFacts.time T) a = .ok (v, n)

end RdfModel.C20Time
