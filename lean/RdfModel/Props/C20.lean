/-
  Property C20 — XSD literal mapping accepts only valid lexical forms, canonicalises stably
  (theorems only; helper lemmas live in RdfModel/Proofs/C20*.lean).

  The theorems are about `Model.Xsd` — the functions the driver executes — for an arbitrary fact
  record satisfying the decidable conditions of `C20Defs` (`intFactOK` …); `Props/C20Facts.lean`
  proves those conditions for the facts regenerated from /repo on this run (T2).

  Proved at full strength: whiteSpace collapse; the nine integer types; boolean; hexBinary,
  base64Binary; soundness of decimal, double, float. Proved in part (`_partial`, full statement kept
  as a `def`): string/anyURI (XML `Char` restriction), the value-level clauses of decimal/double/float
  (strconv's rounding and shortest formatting are not modelled). The date/time family and duration are
  tied by correspondence (T3) and the oracle only; `C20Facts.lean` records the known findings as facts
  about the model.
-/
import RdfModel.Props.C20Defs
import RdfModel.Proofs.C20Str
namespace RdfModel.C20
open RdfModel RdfModel.Xsd
open RdfModel.Spec.Xsd (Dt IntTy accepts lexOK normalize intLex canonInt boolLex canonBool collapse)

/-! ### white space -/

/-- `xsdutil.WhiteSpaceCollapse` (replacer, regexp ` +`, TrimLeft, TrimRight) is the whiteSpace=collapse
    normalisation of XSD, on every byte string. -/
theorem collapse_spec (s : Bytes) : whiteSpaceCollapse s = collapse s :=
  Proofs.C20.collapse_spec s

/-- … and normalising twice changes nothing (used by idempotence below). -/
theorem collapse_idempotent (s : Bytes) : collapse (collapse s) = collapse s :=
  Proofs.C20.collapse_idem s

/-! ### integer family: integer long int short byte unsignedLong unsignedInt unsignedShort unsignedByte -/

/-- Soundness: a Map function succeeds only on a string that, after whiteSpace collapse, is in the
    lexical space of its datatype (syntax `[+-]?[0-9]+` and value within the type's bounds), and the
    value returned is the value that lexical form denotes. -/
theorem int_sound (T : IntTy) (f : IntFact) (hf : intFactOK T f = true) (s : Bytes) (v : Int)
    (h : mapInt f s = .ok v) :
    accepts T.dt s = true ∧ intLex (normalize T.dt s) = some v := by
  obtain ⟨h1, h2, h3⟩ := Proofs.C20.mapInt_sound (Proofs.C20.intFactOK_elim hf) h
  refine ⟨?_, by rw [Proofs.C20.normalize_int]; exact h1⟩
  unfold accepts
  rw [Proofs.C20.lexOK_int, Proofs.C20.normalize_int]
  simp [Spec.Xsd.intLexOK, h1, Proofs.C20.inValueSpace_iff T v h2 h3]

/-- Completeness on canonical forms: every canonical representation whose value the Go type can
    represent (`goLo T ≤ v ≤ goHi T`: the whole value space, or int64 for xsd:integer) maps to `v`. -/
theorem int_canonical (T : IntTy) (f : IntFact) (hf : intFactOK T f = true) (v : Int)
    (hv : goLo T ≤ v ∧ v ≤ goHi T) : mapInt f (canonInt v) = .ok v :=
  Proofs.C20.mapInt_canon (Proofs.C20.intFactOK_elim hf) hv.1 hv.2

/-- The signed types accept every lexical form of a representable value (leading `+`, zeros, white
    space), not only the canonical one. (The unsigned types refuse `+5` and `-0`: strconv.ParseUint
    takes no sign; those forms are valid XSD but not canonical, so the property allows it.) -/
theorem int_complete_signed (T : IntTy) (f : IntFact) (hf : intFactOK T f = true)
    (hT : expParser T = .parseInt) (s : Bytes) (v : Int)
    (hl : intLex (collapse s) = some v) (hv : goLo T ≤ v ∧ v ≤ goHi T) : mapInt f s = .ok v :=
  Proofs.C20.mapInt_complete_signed (Proofs.C20.intFactOK_elim hf) hT hl hv.1 hv.2

/-- Canonicalisation: the literal of a mapped value carries the canonical representation, which is
    a valid lexical form of the same datatype denoting the same value, and mapping it again gives the
    same value. -/
theorem int_idempotent (T : IntTy) (f : IntFact) (hf : intFactOK T f = true) (s : Bytes) (v : Int)
    (h : mapInt f s = .ok v) :
    lexInt f v = some (canonInt v) ∧ accepts T.dt (canonInt v) = true ∧
    intLex (canonInt v) = some v ∧ mapInt f (canonInt v) = .ok v := by
  have hp := Proofs.C20.intFactOK_elim hf
  obtain ⟨_, h2, h3⟩ := Proofs.C20.mapInt_sound hp h
  have hm := Proofs.C20.mapInt_canon hp h2 h3
  exact ⟨Proofs.C20.lexInt_canon hp h2 h3, (int_sound T f hf _ v hm).1, Proofs.C20.intLex_canon v, hm⟩

/-- TermEquals of a value of the type with any term: true exactly for the literal of that datatype
    whose lexical form is the canonical representation. -/
theorem int_termEquals (T : IntTy) (f : IntFact) (hf : intFactOK T f = true) (v : Int)
    (hv : goLo T ≤ v ∧ v ≤ goHi T) (t : TermArg) :
    termEqualsInt f v t = some (decide (t = .literal (dtIRI T.dt) (canonInt v))) :=
  Proofs.C20.termEqualsInt_spec (Proofs.C20.intFactOK_elim hf) hv.1 hv.2 t

/-- every mapped value is in the representable range, so `int_termEquals` applies to it -/
theorem int_mapped_in_range (T : IntTy) (f : IntFact) (hf : intFactOK T f = true) (s : Bytes) (v : Int)
    (h : mapInt f s = .ok v) : goLo T ≤ v ∧ v ≤ goHi T :=
  (Proofs.C20.mapInt_sound (Proofs.C20.intFactOK_elim hf) h).2

-- the hypotheses are satisfiable: a fact record for xsd:byte, a mapped string, a canonical form
example : intFactOK .byte
    { parser := .parseInt, collapse := true, base := 10, bitSize := 8, goType := ⟨true, 8⟩,
      objFmt := .formatInt, objConv := ⟨true, 64⟩, objBase := 10, eqFmt := .formatInt,
      eqConv := ⟨true, 64⟩, eqBase := 10, datatype := dtIRI .byte, eqDatatypeSame := true } = true := by decide
example : goLo .byte ≤ -128 ∧ (-128 : Int) ≤ goHi .byte := by decide
example : canonInt (-128) = asc "-128" := by decide
example : intLex (asc "+007") = some 7 := by decide

/-! ### boolean -/

/-- MapBoolean succeeds exactly on the strings whose collapse is `true`, `false`, `1` or `0`, with the
    value XSD assigns (soundness and completeness, for every lexical form). -/
theorem boolean_map (f : BoolFact) (hf : boolFactOK f = true) (s : Bytes) (v : Bool) :
    mapBool f s = .ok v ↔ boolLex (collapse s) = some v := by
  rw [Proofs.C20.mapBool_spec (Proofs.C20.boolFactOK_elim hf)]
  cases boolLex (collapse s) <;> simp

theorem boolean_sound (f : BoolFact) (hf : boolFactOK f = true) (s : Bytes) (v : Bool)
    (h : mapBool f s = .ok v) : accepts .boolean s = true := by
  have := (boolean_map f hf s v).1 h
  simp [accepts, lexOK, normalize, this]

/-- the literal of a mapped boolean is `true`/`false` (canonical), valid, denotes the same value and
    maps back to it -/
theorem boolean_idempotent (f : BoolFact) (hf : boolFactOK f = true) (v : Bool) :
    lexBool f v = canonBool v ∧ boolLex (canonBool v) = some v ∧ mapBool f (canonBool v) = .ok v := by
  have hp := Proofs.C20.boolFactOK_elim hf
  refine ⟨by cases v <;> simp [lexBool, canonBool, hp.lt, hp.lf], Proofs.C20.boolLex_canon v, ?_⟩
  rw [boolean_map f hf, Proofs.C20.collapse_noWs _ (Proofs.C20.canonBool_noWs v)]
  exact Proofs.C20.boolLex_canon v

theorem boolean_termEquals (f : BoolFact) (hf : boolFactOK f = true) (v : Bool) (t : TermArg) :
    termEqualsBool f v t = some (decide (t = .literal (dtIRI .boolean) (canonBool v))) :=
  Proofs.C20.termEqualsBool_spec (Proofs.C20.boolFactOK_elim hf) v t

example : boolLex (collapse (asc " 1\n")) = some true := by decide

/-! ### string-like types: string, anyURI, hexBinary, base64Binary -/

/-- what each string-like Map function does: normalise (collapse, except xsd:string) and, for the
    two binary types, refuse what is outside the lexical space -/
theorem strlike_map (T : StrTy) (f : StrFact) (hf : strFactOK T f = true) (s : Bytes) :
    mapStr f s = if Proofs.C20.strCheck T (normalize T.dt s) then .ok (normalize T.dt s) else .error .syntax :=
  Proofs.C20.mapStr_spec (Proofs.C20.strFactOK_elim hf) s

/-- hexBinary and base64Binary: success ⇔ the string is in the lexical space -/
theorem binary_sound_complete (T : StrTy) (hT : T = .hexBinary ∨ T = .base64Binary) (f : StrFact)
    (hf : strFactOK T f = true) (s : Bytes) :
    (∃ v, mapStr f s = .ok v) ↔ accepts T.dt s = true := by
  have hck : ∀ a, Proofs.C20.strCheck T a = lexOK T.dt a := by
    rcases hT with rfl | rfl <;> intro a <;> rfl
  rw [strlike_map T f hf, hck]
  unfold accepts
  by_cases hc : lexOK T.dt (normalize T.dt s) = true <;> simp [hc]

/-- the full soundness statement for the string-like types -/
def strlike_sound_full : Prop :=
  ∀ (T : StrTy) (f : StrFact), strFactOK T f = true → ∀ s v, mapStr f s = .ok v → accepts T.dt s = true

/-- string and anyURI: the Map functions accept every byte string; the lexical space is the
    sequences of XML `Char` in well-formed UTF-8. What is missing from `strlike_sound_full` is exactly
    that restriction (known finding `string-non-xml-char`). -/
theorem strlike_sound_partial (T : StrTy) (f : StrFact) (hf : strFactOK T f = true) (s v : Bytes)
    (h : mapStr f s = .ok v) (hx : T = .string ∨ T = .anyURI → Spec.Xsd.xmlCharsOK (normalize T.dt s) = true) :
    accepts T.dt s = true := by
  cases T with
  | string => simpa [accepts, lexOK, StrTy.dt] using hx (Or.inl rfl)
  | anyURI => simpa [accepts, lexOK, StrTy.dt] using hx (Or.inr rfl)
  | hexBinary => exact (binary_sound_complete .hexBinary (Or.inl rfl) f hf s).1 ⟨v, h⟩
  | base64Binary => exact (binary_sound_complete .base64Binary (Or.inr rfl) f hf s).1 ⟨v, h⟩

/-- the model really fails the full statement: U+0001 is mapped by MapString -/
theorem strlike_sound_full_fails : ¬ strlike_sound_full := by
  intro h
  have := h .string { collapse := false, lexRE := none, datatype := dtIRI .string, eqDatatypeSame := true }
    (by decide) [0x01] [0x01] (by decide)
  revert this; decide

/-- the mapped value is the normalised string; its literal carries it unchanged, and mapping that
    literal again gives the same value -/
theorem strlike_idempotent (T : StrTy) (f : StrFact) (hf : strFactOK T f = true) (s v : Bytes)
    (h : mapStr f s = .ok v) : v = normalize T.dt s ∧ mapStr f v = .ok v := by
  rw [strlike_map T f hf] at h
  split at h
  · next hc =>
    simp only [Except.ok.injEq] at h
    subst h
    refine ⟨rfl, ?_⟩
    rw [strlike_map T f hf]
    have hn : normalize T.dt (normalize T.dt s) = normalize T.dt s := by
      cases T <;> simp [normalize, StrTy.dt, Proofs.C20.collapse_idem]
    rw [hn, hc]; rfl
  · simp at h

theorem strlike_termEquals (T : StrTy) (f : StrFact) (hf : strFactOK T f = true) (v : Bytes) (t : TermArg) :
    termEqualsStr f v t = some (decide (t = .literal (dtIRI T.dt) v)) :=
  Proofs.C20.termEqualsStr_spec (Proofs.C20.strFactOK_elim hf) v t

example : accepts .base64Binary (asc " AAAA AA== ") = true := by decide
example : accepts .hexBinary (asc "0aF") = false := by decide

/-! ### decimal, double, float -/

/-- Soundness: MapDecimal / MapDouble / MapFloat succeed only on strings of the lexical space of
    their datatype (no exponent, INF, NaN, hexadecimal or underscores for decimal; XSD spellings only
    for double and float). -/
theorem floatfamily_sound (T : FloatTy) (f : FloatFact) (hf : floatFactOK T f = true) (s : Bytes) (v : FVal)
    (h : mapFloat f s = .ok v) : accepts T.dt s = true :=
  Proofs.C20.mapFloat_sound (Proofs.C20.floatFactOK_elim hf) h

theorem decimal_sound (f : FloatFact) (hf : floatFactOK .decimal f = true) (s : Bytes) (v : FVal)
    (h : mapFloat f s = .ok v) : accepts .decimal s = true := floatfamily_sound .decimal f hf s v h
theorem double_sound (f : FloatFact) (hf : floatFactOK .double f = true) (s : Bytes) (v : FVal)
    (h : mapFloat f s = .ok v) : accepts .double s = true := floatfamily_sound .double f hf s v h
theorem float_sound (f : FloatFact) (hf : floatFactOK .float f = true) (s : Bytes) (v : FVal)
    (h : mapFloat f s = .ok v) : accepts .float s = true := floatfamily_sound .float f hf s v h

/-- the completeness / idempotence clauses for the float-valued types, as the property states them:
    every canonical form of a representable value maps; the literal of a mapped value is a valid
    lexical form that maps back to the same value. `round`/`format` stand for strconv's correctly
    rounded parsing and shortest formatting, which the model does not compute. -/
def floatfamily_idempotent_full : Prop :=
  ∀ (T : FloatTy) (f : FloatFact), floatFactOK T f = true → ∀ s v, mapFloat f s = .ok v →
    ∃ l, lexFloat f v = some l ∧ accepts T.dt l = true ∧ mapFloat f l = .ok v

/-- What is proved of it: (a) on a string of the lexical space the Map function is exactly
    strconv.ParseFloat on the collapsed string, so it fails only by a range error; -/
theorem floatfamily_map_partial (T : FloatTy) (f : FloatFact) (hf : floatFactOK T f = true) (s : Bytes)
    (h : accepts T.dt s = true) :
    mapFloat f s = parseFloat (collapse s) (if T = .float then 32 else 64) :=
  Proofs.C20.mapFloat_complete (Proofs.C20.floatFactOK_elim hf) h

/-- (b) the special values of double and float are written `INF`, `-INF`, `NaN` (not strconv's `+Inf`),
    which are valid lexical forms that map back to the same value. Missing: the same for finite
    values (needs strconv's rounding; checked by the oracle and by T3 where `fmtShort` is defined). -/
theorem floatfamily_special_partial (T : FloatTy) (hT : T = .double ∨ T = .float) (f : FloatFact)
    (hf : floatFactOK T f = true) (v : FVal) (hv : v = .nan ∨ v = .inf false ∨ v = .inf true) :
    ∃ l, lexFloat f v = some l ∧ accepts T.dt l = true ∧ mapFloat f l = .ok v := by
  have hp := Proofs.C20.floatFactOK_elim hf
  have hfm : f.objFmt = .formatDouble := by rw [hp.objFmt]; rcases hT with rfl | rfl <;> rfl
  have hacc : ∀ l, Spec.Xsd.doubleLexOK l = true → accepts T.dt l = true → accepts T.dt l = true := fun _ _ h => h
  rcases hv with rfl | rfl | rfl
  · refine ⟨asc "NaN", by simp [lexFloat, fmtFloatWith, hfm, fmtShort], ?_, ?_⟩
    · rcases hT with rfl | rfl <;> decide
    · rw [floatfamily_map_partial T f hf _ (by rcases hT with rfl | rfl <;> decide)]
      rcases hT with rfl | rfl <;> decide
  · refine ⟨asc "INF", by simp [lexFloat, fmtFloatWith, hfm], ?_, ?_⟩
    · rcases hT with rfl | rfl <;> decide
    · rw [floatfamily_map_partial T f hf _ (by rcases hT with rfl | rfl <;> decide)]
      rcases hT with rfl | rfl <;> decide
  · refine ⟨asc "-INF", by simp [lexFloat, fmtFloatWith, hfm], ?_, ?_⟩
    · rcases hT with rfl | rfl <;> decide
    · rw [floatfamily_map_partial T f hf _ (by rcases hT with rfl | rfl <;> decide)]
      rcases hT with rfl | rfl <;> decide

example : accepts .decimal (asc "1e5") = false ∧ accepts .decimal (asc " +1.50 ") = true := by decide
example : accepts .double (asc "+INF") = true ∧ accepts .double (asc "+Inf") = false := by decide

/-! ### date/time family -/

/-- every layout in the facts consists of reference-time elements the model interprets: the model
    never answers "unmodelled" for a date/time Map function (the rest is T3). -/
theorem time_layouts_modelled (T : TimeTy) (f : TimeFact) (hf : timeFactOK T f = true) (s : Bytes) :
    mapTime f s ≠ .error .unmodelled := by
  simp only [timeFactOK, Bool.and_eq_true, List.all_eq_true, Bool.not_eq_true'] at hf
  obtain ⟨⟨⟨⟨⟨_, _⟩, hl⟩, _⟩, _⟩, _⟩ := hf
  unfold mapTime
  have : (f.layouts.any fun l => (layoutToks l).contains .unknown) = false := by
    rw [List.any_eq_false]
    intro l hl'
    rw [hl l hl']
    simp
  simp only [this, Bool.false_eq_true, if_false]
  split <;> simp

end RdfModel.C20
