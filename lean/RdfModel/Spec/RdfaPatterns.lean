/-
  RdfModel.Spec.RdfaPatterns — the candidate builder the harness uses with `Rdfa.write`: a library of RDFa
  markup patterns selected by numeric knobs (`Pat`). Nothing here is trusted by the round-trip theorem:
  `Rdfa.write` keeps a candidate only after validating it against `Rdfa.procNode` (a wrong or inapplicable
  pattern simply falls back to the canonical block), and the theorem holds for every builder.

  Patterns (one block covers `take+1` consecutive triples):
    subject      @about | inherited from a parent @about / @resource / @href / @src
    literal      @content | text content (whole, or split over nested inline elements) | both (content wins);
                 @datatype (also `datatype=""` for a plain literal); @lang on the element or inherited from a wrapper
    resource     @rel|@property with @resource|@href|@src; @rev with the roles swapped; @typeof for rdf:type
    chaining     hanging @rel/@rev completed by a child's @about|@resource|@href|@src (incomplete triples),
                 the child carrying further triples about the object; same-subject runs; `property="p q"`;
                 @typeof together with @property/@rel; @rel and @rev on one element
    scoping      neutral wrapper elements; @prefix, @vocab, @lang on wrappers; noise text/elements between blocks
  Alternative spellings (CURIEs, safe CURIEs, terms, relative references) arrive as strings in `Alt`.
  Core-only.
-/
import RdfModel.Spec.RdfaFragment
namespace RdfModel.Spec.Rdfa
open RdfModel RdfModel.Spec.Html RdfModel.Desc

/-- alternative spellings of the terms of one triple -/
structure Alt where
  s : Option Str := none
  p : Option Str := none
  o : Option Str := none
  dt : Option Str := none
  deriving Repr, DecidableEq, Inhabited

structure Pat where
  take : Nat := 0
  shape : Nat := 0
  /-- per triple: object form -/
  form : List Nat := []
  /-- tag selectors: outer first -/
  tags : List Nat := []
  alts : List Alt := []
  /-- neutral wrapper levels around the block -/
  wrap : Nat := 0
  /-- @prefix on a wrapper -/
  pfx : Option Str := none
  /-- @lang on a wrapper -/
  wlang : Option Str := none
  /-- noise between the children of containers -/
  junk : Nat := 0
  /-- the first triple of the chunk is `<base> rdfa:usesVocabulary <v>`: put `vocab="v"` on a wrapper around the rest -/
  vocab : Bool := false
  /-- `id` attributes (irrelevant to RDFa) on the wrappers: bit 0 the neutral wrappers, bit 1 the @prefix / @lang /
      @vocab wrappers -/
  ids : Nat := 0
  deriving Repr, DecidableEq, Inhabited

def Pat.takeOf (p : Pat) : Nat := p.take

section
variable {β : Type} [DecidableEq β]

/-- container tags (may have element children; the HTML5 parser keeps them nested as written) -/
def ctag (n : Nat) : Tag :=
  match n % 6 with
  | 0 => .div | 1 => .span | 2 => .sect | 3 => .b | 4 => .i | _ => .em

/-- tags for elements with text content only -/
def ttag (n : Nat) : Tag :=
  match n % 7 with
  | 0 => .span | 1 => .div | 2 => .a | 3 => .b | 4 => .em | 5 => .sect | _ => .i

/-- tags for empty elements -/
def etag (n : Nat) : Tag :=
  match n % 9 with
  | 0 => .span | 1 => .link | 2 => .metaEl | 3 => .a | 4 => .img | 5 => .div | 6 => .area | 7 => .embed | _ => .other

def nth (l : List Nat) (i : Nat) : Nat := l.getD i 0
def altAt (l : List Alt) (i : Nat) : Alt := l.getD i {}

def noise (junk k : Nat) : List Tree :=
  match (junk + k) % 4 with
  | 0 => []
  | 1 => [.text (asc " \n ")]
  | 2 => [.elem .span {} [.text (asc "noise")]]
  | _ => [.text (asc "\n"), .elem .i {} []]

/-- children of a container, with noise in between -/
def withNoise (junk : Nat) : Nat → List Tree → List Tree
  | k, [] => noise junk k
  | k, x :: xs => noise junk k ++ x :: withNoise junk (k + 1) xs

/-- separators of space-separated attribute values (also used as leading/trailing padding: 0 = none there) -/
def listSep (k : Nat) : Str :=
  match k % 5 with
  | 0 => [32]
  | 1 => [32, 32]
  | 2 => [10]
  | 3 => [9]
  | _ => [13, 10, 32]

def splitText (how : Nat) (s : Str) : List Tree :=
  match how % 3 with
  | 0 => [.text s]
  | 1 => [.text (s.take (s.length / 2)), .elem .b {} [.text (s.drop (s.length / 2))]]
  | _ => [.elem .i {} [.elem .em {} [.text (s.take 1)]], .text (s.drop 1)]

/-- attributes and children expressing "… p o" on an element (subject supplied by the caller).
    `inh`: the language the element inherits. -/
def objMarkup (lbl : β → Str) (inh : Option Str) (form tsel : Nat) (al : Alt) (t : Triple β) (a : Attrs) : Tag × Attrs × List Tree :=
  let p := al.p.getD t.p
  match t.o with
  | .lit lex dt lang =>
    let langAttr : Option Str :=
      match lang with
      | some l => if inh = some l then none else some l
      | none => if inh.isSome && (dt == xsdString) then some [] else none
    let dtAttr : Option Str :=
      if lang.isSome then none
      else if dt == xsdString then (if form / 4 % 2 = 1 then some [] else none)
      else some (al.dt.getD dt)
    let a' := { a with property := some p, datatype := dtAttr, lang := langAttr }
    match form % 4 with
    | 0 => (etag tsel, { a' with content := some lex }, [])
    | 1 => (ttag tsel, a', [.text lex])
    | 2 => (ttag tsel, a', splitText (form / 8) lex)
    | _ => (ttag tsel, { a' with content := some lex }, [.text (asc "ignored")])
  | o =>
    let r := al.o.orElse (fun _ => refOf lbl o)
    if form % 8 = 7 && t.p == rdfType then
      (etag tsel, { a with typeof := some (al.o.getD (match o with | .iri i => i | _ => [])) }, [])
    else
    match form % 8 with
    | 0 | 7 => (etag tsel, { a with rel := some p, resource := r }, [])
    | 1 => (etag tsel, { a with rel := some p, href := r }, [])
    | 2 => (etag tsel, { a with rel := some p, src := r }, [])
    | 3 => (etag tsel, { a with property := some p, resource := r }, [])
    | 4 => (etag tsel, { a with property := some p, href := r }, [])
    | 5 => (etag tsel, { a with property := some p, src := r }, [])
    | _ => (ttag tsel, { a with rel := some p, resource := r }, [.text (asc "label")])

def subjRef (lbl : β → Str) (al : Alt) (s : Term β) : Option Str := al.s.orElse (fun _ => refOf lbl s)

def leaf (lbl : β → Str) (inh : Option Str) (form tsel : Nat) (al : Alt) (t : Triple β) (withAbout : Bool) : Tree :=
  let a : Attrs := if withAbout then { about := subjRef lbl al t.s } else {}
  let m := objMarkup lbl inh form tsel al t a
  .elem m.1 m.2.1 m.2.2

/-- the element that only sets the subject for its children -/
def subjHolder (lbl : β → Str) (how tsel : Nat) (al : Alt) (s : Term β) (kids : List Tree) : Tree :=
  let r := subjRef lbl al s
  match how % 4 with
  | 0 => .elem (ctag tsel) { about := r } kids
  | 1 => .elem (ctag tsel) { resource := r } kids
  | 2 => .elem (ctag tsel) { href := r } kids
  | _ => .elem (ctag tsel) { src := r } kids

/-- the child that completes a hanging @rel/@rev by naming a resource -/
def completer (how tsel : Nat) (r : Option Str) (extra : Attrs → Attrs) (kids : List Tree) : Tree :=
  match how % 4 with
  | 0 => .elem (if kids.isEmpty then etag tsel else ctag tsel) (extra { about := r }) kids
  | 1 => .elem (if kids.isEmpty then etag tsel else ctag tsel) (extra { resource := r }) kids
  | 2 => .elem (if kids.isEmpty then etag tsel else ctag tsel) (extra { href := r }) kids
  | _ => .elem (if kids.isEmpty then etag tsel else ctag tsel) (extra { src := r }) kids

def core (lbl : β → Str) (inh : Option Str) (P : Pat) : List (Triple β) → Tree
  | [t] =>
    let al := altAt P.alts 0
    let f := nth P.form 0
    match P.shape % 6 with
    | 0 => leaf lbl inh f (nth P.tags 1) al t true
    | 1 | 2 => subjHolder lbl (P.shape + nth P.form 1) (nth P.tags 0) al t.s (withNoise P.junk 0 [leaf lbl inh f (nth P.tags 1) al t false])
    | 3 =>
      -- hanging rel, completed by a child
      .elem (ctag (nth P.tags 0)) { about := subjRef lbl al t.s, rel := some (al.p.getD t.p) }
        (withNoise P.junk 0 [completer f (nth P.tags 1) (al.o.orElse (fun _ => refOf lbl t.o)) id []])
    | 4 =>
      -- hanging rev
      .elem (ctag (nth P.tags 0)) { about := al.o.orElse (fun _ => refOf lbl t.o), rev := some (al.p.getD t.p) }
        (withNoise P.junk 0 [completer f (nth P.tags 1) (subjRef lbl al t.s) id []])
    | _ =>
      -- rev on one element
      .elem (etag (nth P.tags 1)) { about := al.o.orElse (fun _ => refOf lbl t.o), rev := some (al.p.getD t.p), resource := subjRef lbl al t.s } []
  | [t1, t2] =>
    let a1 := altAt P.alts 0
    let a2 := altAt P.alts 1
    match P.shape % 7 with
    | 0 =>
      subjHolder lbl (nth P.form 2) (nth P.tags 0) a1 t1.s
        (withNoise P.junk 0 [leaf lbl inh (nth P.form 0) (nth P.tags 1) a1 t1 false, leaf lbl inh (nth P.form 1) (nth P.tags 2) a2 t2 false])
    | 1 =>
      -- chaining: s p o . o q x   (the completer carries the second triple)
      let m := objMarkup lbl inh (nth P.form 1) (nth P.tags 2) a2 t2 {}
      .elem (ctag (nth P.tags 0)) { about := subjRef lbl a1 t1.s, rel := some (a1.p.getD t1.p) }
        (withNoise P.junk 0 [completer (nth P.form 0) (nth P.tags 1) (a1.o.orElse (fun _ => refOf lbl t1.o))
          (fun a => { m.2.1 with about := a.about, resource := (if a.resource.isSome then a.resource else m.2.1.resource),
                                 href := (if a.href.isSome then a.href else m.2.1.href), src := (if a.src.isSome then a.src else m.2.1.src) }) m.2.2])
    | 2 =>
      -- two predicates, one object
      let m := objMarkup lbl inh (nth P.form 0) (nth P.tags 1) { a1 with p := some (listSep (P.junk + 1) ++ (a1.p.getD t1.p) ++ listSep P.junk ++ (a2.p.getD t2.p) ++ listSep (P.junk + 2)) } t1 { about := subjRef lbl a1 t1.s }
      .elem m.1 m.2.1 m.2.2
    | 3 =>
      -- s a C . s q x  on one element
      let m := objMarkup lbl inh (nth P.form 1) (nth P.tags 1) a2 t2 { about := subjRef lbl a1 t1.s, typeof := some (a1.o.getD (match t1.o with | .iri i => i | _ => [])) }
      .elem m.1 m.2.1 m.2.2
    | 4 =>
      -- s p o . o q s  as rel + rev
      .elem (etag (nth P.tags 1)) { about := subjRef lbl a1 t1.s, rel := some (a1.p.getD t1.p), rev := some (a2.p.getD t2.p),
                                    resource := a1.o.orElse (fun _ => refOf lbl t1.o) } []
    | 5 =>
      -- one hanging rel, two completers
      .elem (ctag (nth P.tags 0)) { about := subjRef lbl a1 t1.s, rel := some (a1.p.getD t1.p) }
        (withNoise P.junk 0 [completer (nth P.form 0) (nth P.tags 1) (a1.o.orElse (fun _ => refOf lbl t1.o)) id [],
                             completer (nth P.form 1) (nth P.tags 2) (a2.o.orElse (fun _ => refOf lbl t2.o)) id []])
    | _ =>
      -- two siblings with their own @about inside a neutral container
      .elem (ctag (nth P.tags 0)) {}
        (withNoise P.junk 0 [leaf lbl inh (nth P.form 0) (nth P.tags 1) a1 t1 true, leaf lbl inh (nth P.form 1) (nth P.tags 2) a2 t2 true])
  | [t1, t2, t3] =>
    let a1 := altAt P.alts 0
    let a2 := altAt P.alts 1
    let a3 := altAt P.alts 2
    match P.shape % 3 with
    | 0 =>
      subjHolder lbl (nth P.form 3) (nth P.tags 0) a1 t1.s
        (withNoise P.junk 0 [leaf lbl inh (nth P.form 0) (nth P.tags 1) a1 t1 false, leaf lbl inh (nth P.form 1) (nth P.tags 2) a2 t2 false,
                             leaf lbl inh (nth P.form 2) (nth P.tags 3) a3 t3 false])
    | 1 =>
      -- s p o . o q x . o r y : the completer is a container for two leaves about o
      .elem (ctag (nth P.tags 0)) { about := subjRef lbl a1 t1.s, rel := some (a1.p.getD t1.p) }
        (withNoise P.junk 0 [completer (nth P.form 0) (nth P.tags 1) (a1.o.orElse (fun _ => refOf lbl t1.o)) id
          (withNoise P.junk 1 [leaf lbl inh (nth P.form 1) (nth P.tags 2) a2 t2 false, leaf lbl inh (nth P.form 2) (nth P.tags 3) a3 t3 false])])
    | _ =>
      -- s p x (leaf) then a nested chain s q o . o r y
      let m := objMarkup lbl inh (nth P.form 2) (nth P.tags 3) a3 t3 {}
      subjHolder lbl (nth P.form 3) (nth P.tags 0) a1 t1.s
        (withNoise P.junk 0 [leaf lbl inh (nth P.form 0) (nth P.tags 1) a1 t1 false,
          .elem (ctag (nth P.tags 2)) { rel := some (a2.p.getD t2.p) }
            [completer (nth P.form 1) (nth P.tags 2) (a2.o.orElse (fun _ => refOf lbl t2.o))
              (fun a => { m.2.1 with about := a.about, resource := (if a.resource.isSome then a.resource else m.2.1.resource),
                                     href := (if a.href.isSome then a.href else m.2.1.href), src := (if a.src.isSome then a.src else m.2.1.src) }) m.2.2]])
  | _ => .text []

def wrapN : Nat → Nat → Tree → Tree
  | 0, _, t => t
  | k + 1, sel, t => .elem (ctag (sel + k)) {} [wrapN k sel t]

/-- as `wrapN`, each wrapper with an `id` -/
def wrapNId : Nat → Nat → Tree → Tree
  | 0, _, t => t
  | k + 1, sel, t => .elem (ctag (sel + k)) { id := some (asc "rw" ++ (Nat.toDigits 10 k).map Char.toNat) } [wrapNId k sel t]

/-- the candidate block for a chunk of triples, to stand in context `C` -/
def Pat.build (lbl : β → Str) (C : Ctx) (P : Pat) (chunk : List (Triple β)) : Tree :=
  let inh := match P.wlang with | some l => (if l = [] then none else some l) | none => C.lang
  let voc : Option Str := match P.vocab, chunk with
    | true, t0 :: _ => (match t0.o with | .iri v => (if t0.p == usesVocabulary then some v else none) | _ => none)
    | _, _ => none
  let wid (name : String) : Option Str := if P.ids / 2 % 2 == 1 then some (asc name) else none
  let blk := match voc with
    | some v => .elem (ctag (nth P.tags 7)) { vocab := some v, id := wid "vw" } (withNoise P.junk 1 [core lbl inh P (chunk.drop 1)])
    | none => core lbl inh P chunk
  let blk := match P.wlang with | some l => .elem (ctag (nth P.tags 4)) { lang := some l, id := wid "lw" } (withNoise P.junk 2 [blk]) | none => blk
  let blk := match P.pfx with | some p => .elem (ctag (nth P.tags 5)) { pfx := some p, id := wid "pw" } (withNoise P.junk 3 [blk]) | none => blk
  if P.ids % 2 == 1 then wrapNId (P.wrap % 4) (nth P.tags 6) blk else wrapN (P.wrap % 4) (nth P.tags 6) blk

end
end RdfModel.Spec.Rdfa
