/-
  Audit for C01: axioms used by every theorem of Props/C01.lean and Props/C01Tables.lean
  (expected: a subset of {propext, Classical.choice, Quot.sound}), and the round-trip theorems
  instantiated at the regenerated tables on the non-vacuity witness.
-/
import RdfModel.Props.C01
import RdfModel.Props.C01Tables
open RdfModel RdfModel.NQ RdfModel.C01

#print axioms RdfModel.C01.nquads_roundtrip
#print axioms RdfModel.C01.ntriples_roundtrip
#print axioms RdfModel.C01.relabel_injective
#print axioms RdfModel.C01.ascii_output
#print axioms RdfModel.C01.langOK_ascii
#print axioms RdfModel.C01.output_grammatical
#print axioms RdfModel.C01.gen_nquads_ok
#print axioms RdfModel.C01.gen_ntriples_ok
#print axioms RdfModel.C01.gen_nquads_ascii
#print axioms RdfModel.C01.gen_ntriples_ascii
#print axioms RdfModel.C01.gen_nquads_grammar
#print axioms RdfModel.C01.gen_ntriples_grammar
#print axioms RdfModel.C01.Witness.labelsOK
#print axioms RdfModel.C01.Witness.wf
#print axioms RdfModel.C01.Witness.range

/-- The round trip on the witness dataset, for the regenerated N-Quads tables, both option values. -/
theorem RdfModel.C01.Witness.roundtrip (ascii : Bool) :
    run Gen.nquads (fun _ => true) .eof true
        (encodeDoc Gen.nquads ascii Witness.label true Witness.quads)
      = (Witness.quads.map (Quad.map Witness.label), .clean) :=
  nquads_roundtrip Gen.nquads gen_nquads_ok _ ascii _ Witness.labelsOK _ Witness.wf

#print axioms RdfModel.C01.Witness.roundtrip

#print axioms RdfModel.C01.opts_ascii_last_set_wins
#print axioms RdfModel.C01.opts_ascii_unset_keeps
#print axioms RdfModel.C01.opts_ascii_default
