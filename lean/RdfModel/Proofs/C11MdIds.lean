/-
  C11, Microdata: `id` attributes that no `itemref` token names are irrelevant markup.

    denote_reId   rewriting the ids of a document (adding, changing, removing: `reId f`) without making or unmaking
                  an id that some `itemref` token of the document names leaves `Spec.Microdata.denote` unchanged.

  This is the statement behind the harness's "ids on ancestors" decoration (go/cmd/c11/families.go: decorateIDs).
-/
import RdfModel.Proofs.C11Scope
namespace RdfModel.Spec.Microdata
open RdfModel RdfModel.Spec.Html RdfModel.Desc

abbrev IdMap := Path → Option Str → Option Str

theorem flatMap_congr' {α γ : Type} (l : List α) (g h : α → List γ) (e : ∀ x ∈ l, g x = h x) :
    l.flatMap g = l.flatMap h := by
  rw [List.flatMap_def, List.flatMap_def, List.map_congr_left e]

mutual
theorem textOf_reId (f : IdMap) (here : Path) : ∀ t : Tree, textOf (reId f here t) = textOf t
  | .text _ => by simp [reId]
  | .elem tag a ks => by
    simp only [reId, textOf]
    exact textOfList_reIdKids f here 0 ks
theorem textOfList_reIdKids (f : IdMap) (here : Path) (i : Nat) :
    ∀ ks : List Tree, textOfList (reIdKids f here i ks) = textOfList ks
  | [] => by simp [reIdKids]
  | k :: ks => by
    simp only [reIdKids, textOfList]
    rw [textOf_reId f (here ++ [i]) k, textOfList_reIdKids f here (i + 1) ks]
end

mutual
theorem itemsNode_reId (f : IdMap) (here : Path) : ∀ t : Tree, itemsNode here (reId f here t) = itemsNode here t
  | .text _ => by simp [reId, itemsNode]
  | .elem tag a ks => by
    simp only [reId, itemsNode]
    rw [itemsKids_reId f here 0 ks]
theorem itemsKids_reId (f : IdMap) (here : Path) (i : Nat) :
    ∀ ks : List Tree, itemsKids here i (reIdKids f here i ks) = itemsKids here i ks
  | [] => by simp [reIdKids, itemsKids]
  | k :: ks => by
    simp only [reIdKids, itemsKids]
    rw [itemsNode_reId f (here ++ [i]) k, itemsKids_reId f here (i + 1) ks]
end

theorem names_reId (a : Attrs) (x : Option Str) : names { a with id := x } = names a := rfl

mutual
theorem visit_reId (f : IdMap) (here : Path) : ∀ t : Tree, visit here (reId f here t) = visit here t
  | .text _ => by simp [reId, visit]
  | .elem tag a ks => by
    simp only [reId, visit]
    rw [visitKids_reId f here 0 ks]
    rfl
theorem visitKids_reId (f : IdMap) (here : Path) (i : Nat) :
    ∀ ks : List Tree, visitKids here i (reIdKids f here i ks) = visitKids here i ks
  | [] => by simp [reIdKids, visitKids]
  | k :: ks => by
    simp only [reIdKids, visitKids]
    rw [visit_reId f (here ++ [i]) k, visitKids_reId f here (i + 1) ks]
end

theorem kidAt_reIdKids (f : IdMap) (here : Path) :
    ∀ (ks : List Tree) (i j : Nat), kidAt (reIdKids f here i ks) j = (kidAt ks j).map (reId f (here ++ [i + j]))
  | [], i, j => by simp [reIdKids, kidAt]
  | k :: ks, i, 0 => by simp [reIdKids, kidAt]
  | k :: ks, i, j + 1 => by
    simp only [reIdKids, kidAt]
    rw [kidAt_reIdKids f here ks (i + 1) j]
    have : i + 1 + j = i + (j + 1) := by omega
    rw [this]

theorem nodeAt_nil (t : Tree) : nodeAt t [] = some t := by cases t <;> simp [nodeAt]

theorem nodeAt_reId (f : IdMap) :
    ∀ (p here : Path) (t : Tree), nodeAt (reId f here t) p = (nodeAt t p).map (reId f (here ++ p))
  | [], here, t => by simp [nodeAt_nil]
  | i :: rest, here, .text _ => by simp [reId, nodeAt]
  | i :: rest, here, .elem tag a ks => by
    simp only [reId, nodeAt]
    rw [kidAt_reIdKids f here ks 0 i]
    cases h : kidAt ks i with
    | none => simp
    | some k =>
      simp only [Option.map, Nat.zero_add]
      rw [nodeAt_reId f rest (here ++ [i]) k]
      simp only [List.append_assoc, List.singleton_append]
      cases nodeAt k rest <;> rfl

theorem value_reId (f : IdMap) (base : Str) (here : Path) (t : Tree) :
    value base here (reId f here t) = value base here t := by
  cases t with
  | text s => simp [reId]
  | elem tag a ks =>
    simp only [reId, value, subject, textOfList_reIdKids]

/-! membership of `itemref` tokens -/

theorem mem_refTokensKids_of_kidAt (r : Str) :
    ∀ (ks : List Tree) (i : Nat) (k : Tree), kidAt ks i = some k → r ∈ refTokens k → r ∈ refTokensKids ks
  | [], i, k, h, _ => by simp [kidAt] at h
  | k0 :: ks, 0, k, h, hr => by
    simp only [kidAt, Option.some.injEq] at h
    subst h
    simp only [refTokensKids, List.mem_append]
    exact Or.inl hr
  | k0 :: ks, i + 1, k, h, hr => by
    simp only [kidAt] at h
    simp only [refTokensKids, List.mem_append]
    exact Or.inr (mem_refTokensKids_of_kidAt r ks i k h hr)

theorem mem_refTokens_of_nodeAt (r v : Str) (tag : Tag) (a : Attrs) (ks : List Tree)
    (ha : a.itemref = some v) (hr : r ∈ fields v) :
    ∀ (p : Path) (t : Tree), nodeAt t p = some (.elem tag a ks) → r ∈ refTokens t
  | [], t, h => by
    rw [nodeAt_nil] at h
    simp only [Option.some.injEq] at h
    subst h
    simp only [refTokens, ha, List.mem_append]
    exact Or.inl hr
  | i :: rest, .text _, h => by simp [nodeAt] at h
  | i :: rest, .elem tag0 a0 ks0, h => by
    simp only [nodeAt] at h
    cases hk : kidAt ks0 i with
    | none => simp [hk] at h
    | some k =>
      simp only [hk] at h
      have := mem_refTokens_of_nodeAt r v tag a ks ha hr rest k h
      simp only [refTokens, List.mem_append]
      exact Or.inr (mem_refTokensKids_of_kidAt r ks0 i k hk this)

/-! the crawl and the item's triples -/

theorem props_reId (f : IdMap) (doc : Tree)
    (hf : ∀ r ∈ refTokens doc, ∀ p o, (f p o = some r ↔ o = some r)) (root : Path) :
    props (reId f [] doc) root = props doc root := by
  unfold props
  rw [nodeAt_reId f root [] doc]
  cases h : nodeAt doc root with
  | none => simp
  | some t =>
    cases t with
    | text s => simp [reId]
    | elem tag a ks =>
      simp only [Option.map, reId, List.nil_append]
      rw [visitKids_reId f root 0 ks]
      congr 2
      apply flatMap_congr'
      intro id hid
      have hmem : id ∈ refTokens doc := by
        cases hv : a.itemref with
        | none => simp [hv] at hid
        | some v =>
          simp only [hv] at hid
          exact mem_refTokens_of_nodeAt id v tag a ks hv hid root doc h
      rw [findIdNode_reId f id (hf id hmem) [] doc]
      cases hq : findIdNode id [] doc with
      | none => rfl
      | some q =>
        simp only
        rw [nodeAt_reId f q [] doc]
        cases hn : nodeAt doc q with
        | none => rfl
        | some t2 =>
          simp only [Option.map, List.nil_append]
          exact visit_reId f q t2

theorem itemTriples_reId (f : IdMap) (base : Str) (doc : Tree)
    (hf : ∀ r ∈ refTokens doc, ∀ p o, (f p o = some r ↔ o = some r)) (here : Path) :
    itemTriples base (reId f [] doc) here = itemTriples base doc here := by
  unfold itemTriples
  rw [nodeAt_reId f here [] doc]
  cases h : nodeAt doc here with
  | none => simp
  | some t =>
    cases t with
    | text s => simp [reId]
    | elem tag a ks =>
      simp only [Option.map, reId, List.nil_append, subject]
      rw [props_reId f doc hf here]
      congr 1
      apply flatMap_congr'
      intro q _
      rw [nodeAt_reId f q [] doc]
      cases hn : nodeAt doc q with
      | none => rfl
      | some t2 =>
        cases t2 with
        | text s => simp [reId]
        | elem tag2 a2 ks2 =>
          simp only [Option.map, List.nil_append, reId, names_reId]
          apply List.map_congr_left
          intro nm _
          have := value_reId f base q (.elem tag2 a2 ks2)
          simp only [reId] at this
          rw [this]

/-- ids that no `itemref` token names are irrelevant markup -/
theorem denote_reId (f : IdMap) (base : Str) (doc : Tree)
    (hf : ∀ r ∈ refTokens doc, ∀ p o, (f p o = some r ↔ o = some r)) :
    denote base (reId f [] doc) = denote base doc := by
  unfold denote
  rw [itemsNode_reId f [] doc]
  apply flatMap_congr'
  intro here _
  exact itemTriples_reId f base doc hf here

end RdfModel.Spec.Microdata
