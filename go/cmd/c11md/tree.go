package main

// Abstract HTML trees (the Go twin of lean/RdfModel/Spec/HtmlTree.lean): wire format of the line protocol,
// serialisation to HTML text with layout choices that must not matter (attribute order, quoting, case of tag
// and attribute names, whitespace inside tags, character references, comments, doctype/head furniture), and
// the way back from the x/net/html DOM, used to check that the HTML5 parser reproduces the tree verbatim.

import (
	"encoding/hex"
	"fmt"
	"sort"
	"strings"

	"verifharness/vh"

	xhtml "golang.org/x/net/html"
)

type Attr struct{ Name, Val string }

type Node struct {
	Text  *string // non-nil: text node
	Tag   string
	Attrs []Attr // itemscope is the attribute {"itemscope", ""}
	Kids  []*Node
}

func T(s string) *Node { return &Node{Text: &s} }
func E(tag string, attrs []Attr, kids ...*Node) *Node {
	return &Node{Tag: tag, Attrs: attrs, Kids: kids}
}

func (n *Node) Attr(name string) (string, bool) {
	for _, a := range n.Attrs {
		if a.Name == name {
			return a.Val, true
		}
	}
	return "", false
}

// ---------------------------------------------------------------- wire

func (n *Node) tokens(out *[]string) {
	if n.Text != nil {
		*out = append(*out, "\""+hex.EncodeToString([]byte(*n.Text)))
		return
	}
	*out = append(*out, "<"+n.Tag)
	for _, a := range n.Attrs {
		if a.Name == "itemscope" {
			*out = append(*out, "+itemscope")
		} else {
			*out = append(*out, "@"+a.Name+"="+hex.EncodeToString([]byte(a.Val)))
		}
	}
	*out = append(*out, ">")
	for _, k := range n.Kids {
		k.tokens(out)
	}
	*out = append(*out, "/")
}

func (n *Node) Wire() string {
	var toks []string
	n.tokens(&toks)
	return strings.Join(toks, " ")
}

func parseWire(toks []string) (*Node, error) {
	pos := 0
	var forest func() ([]*Node, error)
	forest = func() ([]*Node, error) {
		var out []*Node
		for pos < len(toks) {
			tok := toks[pos]
			switch {
			case tok == "/":
				pos++
				return out, nil
			case strings.HasPrefix(tok, "\""):
				b, err := hex.DecodeString(tok[1:])
				if err != nil {
					return nil, err
				}
				pos++
				out = append(out, T(string(b)))
			case strings.HasPrefix(tok, "<"):
				n := &Node{Tag: tok[1:]}
				pos++
				for pos < len(toks) && toks[pos] != ">" {
					a := toks[pos]
					if a == "+itemscope" {
						n.Attrs = append(n.Attrs, Attr{"itemscope", ""})
					} else if strings.HasPrefix(a, "@") {
						eq := strings.IndexByte(a, '=')
						if eq < 0 {
							return nil, fmt.Errorf("bad attr token %q", a)
						}
						b, err := hex.DecodeString(a[eq+1:])
						if err != nil {
							return nil, err
						}
						n.Attrs = append(n.Attrs, Attr{a[1:eq], string(b)})
					} else {
						return nil, fmt.Errorf("bad token %q", a)
					}
					pos++
				}
				pos++ // ">"
				kids, err := forest()
				if err != nil {
					return nil, err
				}
				n.Kids = kids
				out = append(out, n)
			default:
				return nil, fmt.Errorf("bad token %q", tok)
			}
		}
		return out, nil
	}
	f, err := forest()
	if err != nil {
		return nil, err
	}
	if len(f) != 1 {
		return nil, fmt.Errorf("expected one tree, got %d", len(f))
	}
	return f[0], nil
}

// ---------------------------------------------------------------- normal form for comparison

// norm merges adjacent text nodes, drops empty ones, sorts attributes.
func norm(n *Node) *Node {
	if n.Text != nil {
		return n
	}
	m := &Node{Tag: n.Tag, Attrs: append([]Attr(nil), n.Attrs...)}
	for i := range m.Attrs {
		if m.Attrs[i].Name == "itemscope" { // boolean attribute: its value is layout
			m.Attrs[i].Val = ""
		}
	}
	sort.Slice(m.Attrs, func(i, j int) bool { return m.Attrs[i].Name < m.Attrs[j].Name })
	for _, k := range n.Kids {
		if k.Text != nil {
			if *k.Text == "" {
				continue
			}
			if l := len(m.Kids); l > 0 && m.Kids[l-1].Text != nil {
				s := *m.Kids[l-1].Text + *k.Text
				m.Kids[l-1] = T(s)
				continue
			}
			m.Kids = append(m.Kids, k)
		} else {
			m.Kids = append(m.Kids, norm(k))
		}
	}
	return m
}

func dump(n *Node) string {
	var sb strings.Builder
	var rec func(n *Node)
	rec = func(n *Node) {
		if n.Text != nil {
			fmt.Fprintf(&sb, "%q", *n.Text)
			return
		}
		sb.WriteString("<" + n.Tag)
		for _, a := range n.Attrs {
			fmt.Fprintf(&sb, " %s=%q", a.Name, a.Val)
		}
		sb.WriteString(">")
		for _, k := range n.Kids {
			rec(k)
		}
		sb.WriteString("</>")
	}
	rec(n)
	return sb.String()
}

// ---------------------------------------------------------------- HTML text

var voidTags = map[string]bool{"area": true, "base": true, "br": true, "col": true, "embed": true, "hr": true, "img": true,
	"input": true, "link": true, "meta": true, "source": true, "track": true, "wbr": true}

func htmlTagName(tag string) string {
	if tag == "other" {
		return "aside"
	}
	return tag
}

type layout struct {
	r *vh.Rng
	// plain: no layout games at all
	plain bool
}

func (l *layout) escText(s string, attr bool, quote byte) string {
	var sb strings.Builder
	for _, c := range s {
		switch {
		case c == '&':
			sb.WriteString(vh.Pick(l.r, []string{"&amp;", "&#38;", "&#x26;"}))
		case c == '<':
			sb.WriteString(vh.Pick(l.r, []string{"&lt;", "&#60;", "&#x3C;"}))
		case c == '>':
			if l.plain || l.r.Bool() {
				sb.WriteString("&gt;")
			} else {
				sb.WriteRune(c)
			}
		case c == '\r':
			sb.WriteString("&#13;")
		case c == '"' && (!attr || quote == '"'):
			sb.WriteString(vh.Pick(l.r, []string{"&quot;", "&#34;"}))
		case c == '\'' && attr && quote == '\'':
			sb.WriteString("&#39;")
		case c > 0x7f && !l.plain && l.r.Chance(20):
			fmt.Fprintf(&sb, "&#x%X;", c)
		case c >= 'a' && c <= 'z' && !l.plain && l.r.Chance(3):
			fmt.Fprintf(&sb, "&#%d;", c)
		default:
			sb.WriteRune(c)
		}
	}
	return sb.String()
}

func (l *layout) ws(must bool) string {
	if l.plain {
		if must {
			return " "
		}
		return ""
	}
	opts := []string{" ", "  ", "\n", "\t", " \n  "}
	if !must {
		opts = append(opts, "", "", "")
	}
	return vh.Pick(l.r, opts)
}

func (l *layout) caseOf(s string) string {
	if l.plain || !l.r.Chance(15) {
		return s
	}
	if l.r.Bool() {
		return strings.ToUpper(s)
	}
	b := []byte(s)
	for i := range b {
		if l.r.Bool() && b[i] >= 'a' && b[i] <= 'z' {
			b[i] -= 32
		}
	}
	return string(b)
}

func unquotedOK(v string) bool {
	if v == "" {
		return false
	}
	for _, c := range v {
		if c <= ' ' || c == '"' || c == '\'' || c == '=' || c == '<' || c == '>' || c == '`' || c == '&' || c == '/' || c > 0x7e {
			return false
		}
	}
	return true
}

func (l *layout) comment() string {
	if l.plain || !l.r.Chance(12) {
		return ""
	}
	return vh.Pick(l.r, []string{"<!-- c -->", "<!---->", "<!-- about=\"x\" property=\"y\" -->", "<!-- <div itemscope> -->"})
}

func (l *layout) render(sb *strings.Builder, n *Node, inRaw bool) {
	if n.Text != nil {
		if inRaw {
			sb.WriteString(*n.Text)
		} else {
			sb.WriteString(l.escText(*n.Text, false, 0))
		}
		return
	}
	tag := htmlTagName(n.Tag)
	sb.WriteString("<" + l.caseOf(tag))
	attrs := append([]Attr(nil), n.Attrs...)
	if !l.plain {
		for i := len(attrs) - 1; i > 0; i-- {
			j := l.r.Intn(i + 1)
			attrs[i], attrs[j] = attrs[j], attrs[i]
		}
	}
	for _, a := range attrs {
		sb.WriteString(l.ws(true))
		sb.WriteString(l.caseOf(a.Name))
		if a.Name == "itemscope" && a.Val == "" {
			switch {
			case l.plain || l.r.Chance(50):
			case l.r.Bool():
				sb.WriteString("=\"\"")
			default:
				sb.WriteString("=itemscope")
			}
			continue
		}
		sb.WriteString(l.ws(false) + "=" + l.ws(false))
		switch {
		case !l.plain && unquotedOK(a.Val) && l.r.Chance(25):
			sb.WriteString(a.Val)
		case !l.plain && l.r.Chance(30):
			sb.WriteString("'" + l.escText(a.Val, true, '\'') + "'")
		default:
			sb.WriteString("\"" + l.escText(a.Val, true, '"') + "\"")
		}
	}
	sb.WriteString(l.ws(false))
	if voidTags[tag] {
		if !l.plain && l.r.Chance(30) {
			sb.WriteString(" /") // the space keeps an unquoted attribute value from swallowing the slash
		}
		sb.WriteString(">")
		return
	}
	sb.WriteString(">")
	raw := tag == "script" || tag == "iframe"
	for _, k := range n.Kids {
		if !raw && k.Text == nil {
			sb.WriteString(l.comment())
		}
		l.render(sb, k, raw)
	}
	if !raw {
		sb.WriteString(l.comment())
	}
	sb.WriteString("</" + l.caseOf(tag) + l.ws(false) + ">")
}

// renderDoc serialises html > (head, body). The head gets furniture that must not matter.
func (l *layout) renderDoc(doc *Node) string {
	var sb strings.Builder
	if l.plain || l.r.Chance(70) {
		sb.WriteString(vh.Pick(l.r, []string{"<!DOCTYPE html>", "<!doctype html>\n", "<!DOCTYPE html>\n"}))
	}
	l.render(&sb, doc, false)
	return sb.String()
}

// ---------------------------------------------------------------- DOM -> abstract tree

var knownTags = map[string]bool{"html": true, "head": true, "body": true, "base": true, "title": true, "script": true, "div": true,
	"span": true, "section": true, "b": true, "i": true, "em": true, "a": true, "area": true, "link": true, "img": true, "meta": true,
	"time": true, "data": true, "meter": true, "object": true, "audio": true, "video": true, "embed": true, "iframe": true,
	"source": true, "track": true}

func fromDOM(n *xhtml.Node) *Node {
	switch n.Type {
	case xhtml.TextNode:
		return T(n.Data)
	case xhtml.ElementNode:
		tag := n.Data
		if !knownTags[tag] {
			tag = "other"
		}
		m := &Node{Tag: tag}
		for _, a := range n.Attr {
			m.Attrs = append(m.Attrs, Attr{a.Key, a.Val})
		}
		for c := n.FirstChild; c != nil; c = c.NextSibling {
			if k := fromDOM(c); k != nil {
				m.Kids = append(m.Kids, k)
			}
		}
		return m
	}
	return nil
}

func findElem(n *xhtml.Node, tag string) *xhtml.Node {
	if n.Type == xhtml.ElementNode && n.Data == tag {
		return n
	}
	for c := n.FirstChild; c != nil; c = c.NextSibling {
		if r := findElem(c, tag); r != nil {
			return r
		}
	}
	return nil
}

// verbatim reports whether the HTML5 parser turned `text` back into `doc` (html/head/body skeleton with attributes,
// and the body subtree; the head's own children are compared too).
func verbatim(doc *Node, text string) (bool, string) {
	root, err := xhtml.Parse(strings.NewReader(text))
	if err != nil {
		return false, "parse: " + err.Error()
	}
	h := findElem(root, "html")
	if h == nil {
		return false, "no html element"
	}
	got := norm(fromDOM(h))
	want := norm(doc)
	// whitespace-only text directly under html (between head and body, after body) is layout
	strip := func(n *Node) {
		var ks []*Node
		for _, k := range n.Kids {
			if k.Text != nil && strings.TrimSpace(*k.Text) == "" {
				continue
			}
			ks = append(ks, k)
		}
		n.Kids = ks
	}
	strip(got)
	strip(want)
	a, b := dump(got), dump(want)
	if a != b {
		i := 0
		for i < len(a) && i < len(b) && a[i] == b[i] {
			i++
		}
		lo := max(i-60, 0)
		return false, "at " + fmt.Sprint(i) + ": parsed …" + a[lo:min(i+80, len(a))] + " wanted …" + b[lo:min(i+80, len(b))]
	}
	return true, ""
}
