/-
  Audit for C09: axioms used by every theorem of Props/C09.lean (expected: a subset of
  {propext, Classical.choice, Quot.sound}), and the main theorem instantiated at RFC 3986 resolution
  on the non-vacuity witness.
-/
import RdfModel.Props.C09
import RdfModel.Props.C09Facts
import RdfModel.Props.C09Findings
import RdfModel.Props.C09Rfc
open RdfModel RdfModel.RX RdfModel.C09

#print axioms RdfModel.C09.denote_render
#print axioms RdfModel.C09.denote_render_node
#print axioms RdfModel.C09.flatPlan_ok
#print axioms RdfModel.C09.write_denote
#print axioms RdfModel.C09.write_uses_choice
#print axioms RdfModel.C09.writeAuto_denote
#print axioms RdfModel.C09.Witness.auto_used
#print axioms RdfModel.C09.iriOK_rfc3986
#print axioms RdfModel.C09.writeAuto_denote_rfc3986
#print axioms RdfModel.C09.attr_order
#print axioms RdfModel.C09.ws_propList
#print axioms RdfModel.C09.ws_nodeList
#print axioms RdfModel.C09.ws_resKids
#print axioms RdfModel.C09.ws_collKids
#print axioms RdfModel.C09.gen_space
#print axioms RdfModel.C09.gen_locals
#print axioms RdfModel.C09.gen_forbidden_elements
#print axioms RdfModel.C09.gen_forbidden_attributes
#print axioms RdfModel.C09.gen_id_start
#print axioms RdfModel.C09.gen_id_char
#print axioms RdfModel.C09.gen_validateID
#print axioms RdfModel.C09.gen_tokenizer
#print axioms RdfModel.C09.badNodeName_iff
#print axioms RdfModel.C09.badPropName_iff
#print axioms RdfModel.C09.Findings.xml_lang_empty
#print axioms RdfModel.C09.Findings.empty_literal_language
#print axioms RdfModel.C09.Findings.property_element_scope_lang
#print axioms RdfModel.C09.Findings.property_element_scope_base
#print axioms RdfModel.C09.Findings.rdf_ns_property_attr_type
#print axioms RdfModel.C09.Findings.rdf_ns_property_attr_value
#print axioms RdfModel.C09.Findings.property_attr_predicate
#print axioms RdfModel.C09.Witness.labelsOK
#print axioms RdfModel.C09.Witness.g_ok
#print axioms RdfModel.C09.Witness.plan2_wf
#print axioms RdfModel.C09.Witness.plan2_writes_g

/-- The writer on the witness graph with the striped plan: it renders that plan, and the result
    denotes the graph up to blank-node renaming. -/
theorem RdfModel.C09.Witness.roundtrip :
    write Spec.RFC3986.resolve Witness.base Witness.label Witness.g ⟨Witness.plan2, Witness.rename⟩
        = renderDoc Witness.plan2 ∧
    ∃ out, denoteDoc Spec.RFC3986.resolve ⟨Witness.base, none⟩
        (write Spec.RFC3986.resolve Witness.base Witness.label Witness.g ⟨Witness.plan2, Witness.rename⟩) = .ok out ∧
      Spec.Iso out Witness.g :=
  ⟨write_uses_choice _ _ _ _ ⟨Witness.plan2, Witness.rename⟩ Witness.plan2_wf Witness.plan2_writes_g,
   write_denote _ _ _ Witness.labelsOK _ Witness.g_ok ⟨Witness.plan2, Witness.rename⟩ Witness.rename_inj⟩

#print axioms RdfModel.C09.Witness.roundtrip
