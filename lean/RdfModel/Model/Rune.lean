/-
  RdfModel.Model.Rune — code points as `Nat`, range tables, Go string conversions.
  Core-only. Everything here is executable and total.
-/
namespace RdfModel

/-- A code point. Go `rune` values that can occur are `0 … 0x10FFFF` (and 0xFFFD for invalid input). -/
abbrev Rune := Nat

/-- Unicode scalar value: what `[]rune(s)` yields for a valid UTF-8 string. -/
def IsScalar (c : Nat) : Prop := c < 0xD800 ∨ (0xE000 ≤ c ∧ c ≤ 0x10FFFF)

instance (c : Nat) : Decidable (IsScalar c) := by unfold IsScalar; exact inferInstance

def isScalarB (c : Nat) : Bool := c < 0xD800 || (0xE000 ≤ c && c ≤ 0x10FFFF)

theorem isScalarB_iff (c : Nat) : isScalarB c = true ↔ IsScalar c := by
  unfold isScalarB IsScalar; simp [Bool.or_eq_true, Bool.and_eq_true, decide_eq_true_eq]

/-! ### Range tables (T1: regenerated from the Go functions over their whole domain) -/

/-- One entry `(lo, hi, v)`: every code point in `[lo, hi]` maps to `v`. -/
abbrev RangeTable := List (Nat × Nat × Nat)

/-- First matching entry, else `d`. -/
def lookup (tbl : RangeTable) (d : Nat) (c : Nat) : Nat :=
  match tbl with
  | [] => d
  | (lo, hi, v) :: rest => if lo ≤ c ∧ c ≤ hi then v else lookup rest d c

/-- Generic table lemma: a property of every entry (and of the default) lifts to every code point. -/
theorem lookup_forall (tbl : RangeTable) (d : Nat) (P : Nat → Nat → Prop)
    (hent : ∀ e ∈ tbl, ∀ c, e.1 ≤ c → c ≤ e.2.1 → P c e.2.2)
    (hd : ∀ c, P c d) : ∀ c, P c (lookup tbl d c) := by
  induction tbl with
  | nil => intro c; simpa [lookup] using hd c
  | cons e rest ih =>
    intro c
    obtain ⟨lo, hi, v⟩ := e
    unfold lookup
    split
    · next h => exact hent (lo, hi, v) (List.mem_cons_self) c h.1 h.2
    · exact ih (fun e he => hent e (List.mem_cons_of_mem _ he)) c

/-- Set of code points given as inclusive ranges. -/
abbrev RangeSet := List (Nat × Nat)

def inRanges (rs : RangeSet) (c : Nat) : Bool :=
  match rs with
  | [] => false
  | (lo, hi) :: rest => (lo ≤ c && c ≤ hi) || inRanges rest c

theorem inRanges_iff (rs : RangeSet) (c : Nat) :
    inRanges rs c = true ↔ ∃ e ∈ rs, e.1 ≤ c ∧ c ≤ e.2 := by
  induction rs with
  | nil => simp [inRanges]
  | cons e rest ih =>
    obtain ⟨lo, hi⟩ := e
    simp [inRanges, ih, Bool.or_eq_true, Bool.and_eq_true, decide_eq_true_eq]

/-- Decidable check that a closed interval avoids every range of a set. -/
def rangeAvoids (rs : RangeSet) (lo hi : Nat) : Bool :=
  rs.all (fun e => hi < e.1 || e.2 < lo)

theorem rangeAvoids_sound {rs : RangeSet} {lo hi : Nat} (h : rangeAvoids rs lo hi = true)
    {c : Nat} (h1 : lo ≤ c) (h2 : c ≤ hi) : inRanges rs c = false := by
  induction rs with
  | nil => simp [inRanges]
  | cons e rest ih =>
    obtain ⟨a, b⟩ := e
    simp only [rangeAvoids, List.all_cons, Bool.and_eq_true, Bool.or_eq_true, decide_eq_true_eq] at h
    simp only [inRanges, Bool.or_eq_false_iff, Bool.and_eq_false_iff, decide_eq_false_iff_not]
    refine ⟨?_, ih (by simpa [rangeAvoids] using h.2)⟩
    rcases h.1 with h | h
    · left; omega
    · right; omega

/-- Decidable check that a closed interval lies inside one range of a set. -/
def rangeWithin (rs : RangeSet) (lo hi : Nat) : Bool :=
  rs.any (fun e => e.1 ≤ lo && hi ≤ e.2)

theorem rangeWithin_sound {rs : RangeSet} {lo hi : Nat} (h : rangeWithin rs lo hi = true)
    {c : Nat} (h1 : lo ≤ c) (h2 : c ≤ hi) : inRanges rs c = true := by
  rw [inRanges_iff]
  simp only [rangeWithin, List.any_eq_true, Bool.and_eq_true, decide_eq_true_eq] at h
  obtain ⟨e, he, h3, h4⟩ := h
  exact ⟨e, he, by omega, by omega⟩

/-! ### Hex digits -/

def hexUpper (n : Nat) : Nat := if n < 10 then 0x30 + n else 0x41 + (n - 10)
def hexLower (n : Nat) : Nat := if n < 10 then 0x30 + n else 0x61 + (n - 10)

/-- `\uXXXX` payload as Go computes it: `HexUpper[rr&0xf000>>12]` … -/
def hex4 (r : Nat) : List Nat :=
  [hexUpper (r / 0x1000 % 16), hexUpper (r / 0x100 % 16), hexUpper (r / 0x10 % 16), hexUpper (r % 16)]

/-- `\UXXXXXXXX` payload; the top nibble is masked with `0x7` in Go (`rr&0x70000000>>28`). -/
def hex8 (r : Nat) : List Nat :=
  [hexUpper (r / 0x10000000 % 8), hexUpper (r / 0x1000000 % 16), hexUpper (r / 0x100000 % 16),
   hexUpper (r / 0x10000 % 16), hexUpper (r / 0x1000 % 16), hexUpper (r / 0x100 % 16),
   hexUpper (r / 0x10 % 16), hexUpper (r % 16)]

/-! ### Go string conversions -/

/-- `string([]rune{r})`: surrogates and out-of-range values become U+FFFD. -/
def runeToStringRune (r : Nat) : Nat := if isScalarB r then r else 0xFFFD

/-- `[]rune(string(rs))`. -/
def goString (rs : List Nat) : List Nat := rs.map runeToStringRune

theorem goString_id_of_scalar {rs : List Nat} (h : ∀ r ∈ rs, IsScalar r) : goString rs = rs := by
  induction rs with
  | nil => rfl
  | cons r rs ih =>
    have hr : isScalarB r = true := (isScalarB_iff r).2 (h r List.mem_cons_self)
    simp [goString, runeToStringRune, hr] at ih ⊢
    exact ih (fun x hx => h x (List.mem_cons_of_mem _ hx))

/-- UTF-8 encoding of one scalar value (bytes as `Nat`). Non-scalars encode U+FFFD as Go does. -/
def utf8EncodeRune (r0 : Nat) : List Nat :=
  let r := runeToStringRune r0
  if r < 0x80 then [r]
  else if r < 0x800 then [0xC0 + r / 0x40, 0x80 + r % 0x40]
  else if r < 0x10000 then [0xE0 + r / 0x1000, 0x80 + r / 0x40 % 0x40, 0x80 + r % 0x40]
  else [0xF0 + r / 0x40000, 0x80 + r / 0x1000 % 0x40, 0x80 + r / 0x40 % 0x40, 0x80 + r % 0x40]

def utf8Encode (rs : List Nat) : List Nat := rs.flatMap utf8EncodeRune

def isCont (b : Nat) : Bool := 0x80 ≤ b && b ≤ 0xBF

/-- Go's `utf8.DecodeRune` applied repeatedly (`[]rune(string(bytes))`, also what `bufio.ReadRune`
    yields): ill-formed sequences give one U+FFFD per offending byte. Fuelled by the input length. -/
def utf8DecodeAux : Nat → List Nat → List Nat
  | 0, _ => []
  | _, [] => []
  | fuel + 1, b0 :: rest =>
    if b0 < 0x80 then b0 :: utf8DecodeAux fuel rest
    else if b0 < 0xC2 then 0xFFFD :: utf8DecodeAux fuel rest
    else if b0 < 0xE0 then
      match rest with
      | b1 :: r1 => if isCont b1 then ((b0 - 0xC0) * 0x40 + (b1 - 0x80)) :: utf8DecodeAux fuel r1
                    else 0xFFFD :: utf8DecodeAux fuel rest
      | _ => 0xFFFD :: utf8DecodeAux fuel rest
    else if b0 < 0xF0 then
      let lo := if b0 = 0xE0 then 0xA0 else 0x80
      let hi := if b0 = 0xED then 0x9F else 0xBF
      match rest with
      | b1 :: b2 :: r2 =>
        if lo ≤ b1 && b1 ≤ hi && isCont b2 then
          ((b0 - 0xE0) * 0x1000 + (b1 - 0x80) * 0x40 + (b2 - 0x80)) :: utf8DecodeAux fuel r2
        else 0xFFFD :: utf8DecodeAux fuel rest
      | _ => 0xFFFD :: utf8DecodeAux fuel rest
    else if b0 < 0xF5 then
      let lo := if b0 = 0xF0 then 0x90 else 0x80
      let hi := if b0 = 0xF4 then 0x8F else 0xBF
      match rest with
      | b1 :: b2 :: b3 :: r3 =>
        if lo ≤ b1 && b1 ≤ hi && isCont b2 && isCont b3 then
          ((b0 - 0xF0) * 0x40000 + (b1 - 0x80) * 0x1000 + (b2 - 0x80) * 0x40 + (b3 - 0x80))
            :: utf8DecodeAux fuel r3
        else 0xFFFD :: utf8DecodeAux fuel rest
      | _ => 0xFFFD :: utf8DecodeAux fuel rest
    else 0xFFFD :: utf8DecodeAux fuel rest

def utf8Decode (bs : List Nat) : List Nat := utf8DecodeAux bs.length bs

end RdfModel
