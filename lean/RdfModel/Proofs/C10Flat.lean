/-
  C10 helper lemmas, part 2: the fallback writer `writeFlat` (expanded form, no context, one node object
  per quad) denotes the dataset itself, blank nodes relabelled by `name`.
-/
import RdfModel.Spec.JsonLdWriter
import RdfModel.Props.C10Defs
namespace RdfModel.Proofs.C10
open RdfModel RdfModel.Desc RdfModel.JL RdfModel.C10

/-! ### strings -/

theorem splitColon_eq {v p s : Str} (h : splitColon v = some (p, s)) : v = p ++ cColon :: s := by
  induction v generalizing p with
  | nil => simp [splitColon] at h
  | cons c cs ih =>
    unfold splitColon at h
    split at h
    · next hc => simp only [Option.some.injEq, Prod.mk.injEq] at h; obtain ⟨rfl, rfl⟩ := h; simp [hc]
    · cases hs : splitColon cs with
      | none => simp [hs] at h
      | some r =>
        obtain ⟨p', s'⟩ := r
        simp only [hs, Option.some.injEq, Prod.mk.injEq] at h
        obtain ⟨rfl, rfl⟩ := h
        simp [ih hs]

theorem isScheme_head {p : Str} (h : isScheme p = true) : ∃ a rest, p = a :: rest ∧ isAlpha a = true := by
  cases p with
  | nil => simp [isScheme] at h
  | cons a rest => simp only [isScheme, Bool.and_eq_true] at h; exact ⟨a, rest, rfl, h.1⟩

/-- what `absIri` gives: the IRI starts with a letter and has a colon after it -/
theorem absIri_shape {v : Str} (h : absIri v = true) :
    ∃ a rest s, v = a :: (rest ++ cColon :: s) ∧ isAlpha a = true ∧ splitColon v = some (a :: rest, s) ∧
      isScheme (a :: rest) = true := by
  unfold absIri at h
  cases hs : splitColon v with
  | none => simp [hs] at h
  | some r =>
    obtain ⟨p, s⟩ := r
    simp only [hs, Bool.and_eq_true] at h
    obtain ⟨a, rest, rfl, ha⟩ := isScheme_head h.1.1
    exact ⟨a, rest, s, by simpa using splitColon_eq hs, ha, rfl, h.1.1⟩

theorem alpha_ne_at {a : Nat} (h : isAlpha a = true) : a ≠ cAt := by
  intro e; subst e; simp [isAlpha, cAt] at h

theorem alpha_ne_underscore {a : Nat} (h : isAlpha a = true) : a ≠ cUnderscore := by
  intro e; subst e; simp [isAlpha, cUnderscore] at h

theorem keywords_head : ∀ k ∈ keywords, k.head? = some cAt := by decide

theorem isKeyword_alpha {a : Nat} {r : Str} (h : isAlpha a = true) : isKeyword (a :: r) = false := by
  unfold isKeyword
  rw [Bool.eq_false_iff]
  intro hc
  have := keywords_head _ (List.contains_iff_mem.1 hc)
  simp only [List.head?_cons, Option.some.injEq] at this
  exact alpha_ne_at h this

theorem isKeywordForm_alpha {a : Nat} {r : Str} (h : isAlpha a = true) : isKeywordForm (a :: r) = false := by
  cases r with
  | nil => rfl
  | cons d rest =>
    simp only [isKeywordForm, Bool.and_eq_false_imp, Bool.and_eq_true, beq_iff_eq]
    intro e; exact absurd e.1 (alpha_ne_at h)

/-! ### IRI expansion under a context without term definitions -/

theorem expandIri_abs (c : Ctx) (hc : c.terms = []) (vocab docRel : Bool) {v : Str} (h : absIri v = true) :
    expandIri c vocab docRel v = .iri v := by
  obtain ⟨a, rest, s, rfl, ha, hsp, hsch⟩ := absIri_shape h
  have hterm : ∀ k, c.term? k = none := by intro k; simp [Ctx.term?, hc]
  have hcol : colonAfterFirst (a :: (rest ++ cColon :: s)) = true := by
    simp [colonAfterFirst]
  unfold expandIri
  rw [isKeyword_alpha ha, isKeywordForm_alpha ha]
  simp only [Bool.false_eq_true, if_false, hterm, hcol, if_true, hsp]
  have : (a :: rest) ≠ [cUnderscore] := by
    intro e; simp only [List.cons.injEq] at e; exact alpha_ne_underscore ha e.1
  simp only [this, if_false, hsch, if_true]
  have hv : (if vocab = true then (none : Option TermDef) else none) = none := by split <;> rfl
  rw [hv]
  simp

theorem expandIri_bnode (c : Ctx) (hc : c.terms = []) (vocab docRel : Bool) (l : Str) :
    expandIri c vocab docRel ([cUnderscore, cColon] ++ l) = .bnode l := by
  have hterm : ∀ k, c.term? k = none := by intro k; simp [Ctx.term?, hc]
  have hk : isKeyword (cUnderscore :: cColon :: l) = false := by
    unfold isKeyword
    rw [Bool.eq_false_iff]
    intro h
    have := keywords_head _ (List.contains_iff_mem.1 h)
    simp [cUnderscore, cAt] at this
  have hf : isKeywordForm (cUnderscore :: cColon :: l) = false := by
    simp [isKeywordForm, cUnderscore, cAt]
  have hcol : colonAfterFirst (cUnderscore :: cColon :: l) = true := by simp [colonAfterFirst]
  have hsp : splitColon (cUnderscore :: cColon :: l) = some ([cUnderscore], l) := by
    simp [splitColon, cUnderscore, cColon]
  show expandIri c vocab docRel (cUnderscore :: cColon :: l) = .bnode l
  unfold expandIri
  simp [hk, hf, hterm, hcol, hsp]

/-! ### evaluation of the expanded forms -/

variable {β : Type}

theorem term?_none (c : Ctx) (hc : c.terms = []) (k : Str) : c.term? k = none := by simp [Ctx.term?, hc]

theorem expandIri_bnode' (c : Ctx) (hc : c.terms = []) (vocab docRel : Bool) (l : Str) :
    expandIri c vocab docRel (cUnderscore :: cColon :: l) = .bnode l := expandIri_bnode c hc vocab docRel l

/-- the `@id` of a well-formed subject / graph name / object node -/
theorem evalId_flat (name : β → Str) (hne : ∀ b, name b ≠ []) (c : Ctx) (hc : c.terms = []) {t : Term β}
    (h : wfNode t = true) (n : Nat) :
    evalId c (some (.str (flatId name t))) n = some (outTerm name t, n) := by
  cases t with
  | iri v =>
    simp only [wfNode] at h
    simp [evalId, flatId, expandIri_abs c hc false true h, nodeRef, h, outTerm, Term.map]
  | bnode b =>
    simp [evalId, flatId, bnodeId, expandIri_bnode' c hc false true (name b), nodeRef, outTerm, Term.map, hne b]
  | lit l d g => simp [wfNode] at h

theorem abs_ne_keyword {p k : Str} (h : absIri p = true) (hk : k.head? = some cAt) : p ≠ k := by
  obtain ⟨a, rest, s, rfl, ha, _, _⟩ := absIri_shape h
  intro e; subst e; simp only [List.head?_cons, Option.some.injEq] at hk; exact alpha_ne_at ha hk

theorem classifyKey_abs (c : Ctx) (hc : c.terms = []) {p : Str} (h : absIri p = true) :
    classifyKey c p = .prop p TermDef.plain := by
  have hcolon : p.contains cColon = true := by
    obtain ⟨a, rest, s, rfl, _, _, _⟩ := absIri_shape h
    simp
  obtain ⟨a, rest, s, hp, ha, _, _⟩ := absIri_shape h
  have hkw : isKeyword p = false := by rw [hp]; exact isKeyword_alpha ha
  have hkf : isKeywordForm p = false := by rw [hp]; exact isKeywordForm_alpha ha
  unfold classifyKey
  rw [if_neg (abs_ne_keyword h (by decide)), if_neg (abs_ne_keyword h (by decide)),
    if_neg (abs_ne_keyword h (by decide)), if_neg (abs_ne_keyword h (by decide)), hkw, hkf]
  have hmem : cColon ∈ p := by simpa using hcolon
  simp [expandIri_abs c hc true false h, h, term?_none c hc, hmem]

theorem classifyKey_id (c : Ctx) : classifyKey c kId = .id := by
  unfold classifyKey; rw [if_neg (by decide), if_pos rfl]

theorem classifyKey_graph (c : Ctx) : classifyKey c kGraph = .graph := by
  unfold classifyKey
  rw [if_neg (by decide), if_neg (by decide), if_neg (by decide), if_pos rfl]

theorem nodeHead_flat (name : β → Str) (hne : ∀ b, name b ≠ []) (c : Ctx) (hc : c.terms = []) {t : Term β} (h : wfNode t = true)
    (k : Str) (hk : k ≠ kContext) (v : Json) (n : Nat) :
    nodeHead c false [(kId, .str (flatId name t)), (k, v)] n = some (c, outTerm name t, n, false) := by
  have h1 : getKey kContext [(kId, Json.str (flatId name t)), (k, v)] = none := by
    simp +decide [getKey, hk]
  have h2 : getKey kId [(kId, Json.str (flatId name t)), (k, v)] = some (.str (flatId name t)) := by
    simp [getKey]
  simp [nodeHead, h1, h2, evalId_flat name hne c hc h n]

theorem nodeHead_flat1 (name : β → Str) (hne : ∀ b, name b ≠ []) (c : Ctx) (hc : c.terms = []) {t : Term β} (h : wfNode t = true) (n : Nat) :
    nodeHead c false [(kId, .str (flatId name t))] n = some (c, outTerm name t, n, false) := by
  have h1 : getKey kContext [(kId, Json.str (flatId name t))] = none := by simp +decide [getKey]
  have h2 : getKey kId [(kId, Json.str (flatId name t))] = some (.str (flatId name t)) := by simp [getKey]
  simp [nodeHead, h1, h2, evalId_flat name hne c hc h n]

theorem evalItem_flatObj (name : β → Str) (hne : ∀ b, name b ≠ []) (c : Ctx) (hc : c.terms = []) (g : Option T) (s : T) (p : Str)
    {o : Term β} (h : wfObj o = true) (n : Nat) :
    evalItem c TermDef.plain g s p (flatObj name o) n = some ([quad s p (outTerm name o) g], n) := by
  cases o with
  | iri v =>
    simp only [wfObj] at h
    have hh := nodeHead_flat1 name hne c hc (t := Term.iri v) (by simpa [wfNode] using h) n
    simp only [flatId] at hh
    rw [flatObj, evalItem.eq_4 _ _ _ _ _ _ _ _ (by intro xs e; cases e)]
    rw [if_neg (by decide), if_neg (by decide), if_neg (by decide), hh]
    simp [evalMembers, classifyKey_id, andThen]
  | bnode b =>
    have hh := nodeHead_flat1 name hne c hc (t := Term.bnode b) (by simp [wfNode]) n
    simp only [flatId] at hh
    rw [flatObj, evalItem.eq_4 _ _ _ _ _ _ _ _ (by intro xs e; cases e)]
    rw [if_neg (by decide), if_neg (by decide), if_neg (by decide), hh]
    simp [evalMembers, classifyKey_id, andThen]
  | lit lex dt lang =>
    cases lang with
    | none =>
      simp only [wfObj] at h
      rw [flatObj, evalItem.eq_5 _ _ _ _ _ _ _ (by intro k xs e; cases e) (by intro k x e; cases e)]
      simp +decide [hasKey, valueObjQuads, evalValueObj, getKey, expandIri_abs c hc true true h, h, outTerm, Term.map]
    | some l =>
      simp only [wfObj, Bool.and_eq_true, beq_iff_eq] at h
      obtain ⟨rfl, hl⟩ := h
      rw [flatObj, evalItem.eq_5 _ _ _ _ _ _ _ (by intro k xs e; cases e) (by intro k x e; cases e)]
      simp +decide [hasKey, valueObjQuads, evalValueObj, getKey, hl, outTerm, Term.map]

theorem evalMembers_flatNode (name : β → Str) (hne : ∀ b, name b ≠ []) (c : Ctx) (hc : c.terms = []) (g : Option T) {t : Triple β}
    (hp : absIri t.p = true) (ho : wfObj t.o = true) (n : Nat) :
    evalMembers c g (outTerm name t.s) false [(kId, .str (flatId name t.s)), (t.p, .arr [flatObj name t.o])] n =
      some ([quad (outTerm name t.s) t.p (outTerm name t.o) g], n) := by
  have hplain : (TermDef.plain.cont = Container.list) = False := by simp [TermDef.plain]
  simp [evalMembers, classifyKey_id, classifyKey_abs c hc hp, andThen, evalItems, hplain,
    evalItem_flatObj name hne c hc g (outTerm name t.s) t.p ho n]

theorem evalNodes_flatNode (name : β → Str) (hne : ∀ b, name b ≠ []) (c : Ctx) (hc : c.terms = []) (g : Option T) {t : Triple β}
    (hs : wfNode t.s = true) (hp : absIri t.p = true) (ho : wfObj t.o = true) (rest : List Json) (n : Nat) :
    evalNodes c g (flatNode name t :: rest) n =
      andThen (some ([quad (outTerm name t.s) t.p (outTerm name t.o) g], n)) (fun n1 => evalNodes c g rest n1) := by
  rw [flatNode, evalNodes,
    nodeHead_flat name hne c hc hs t.p (abs_ne_keyword hp (by decide)) _ n]
  simp only [evalMembers_flatNode name hne c hc g hp ho n]

/-- the quad of the result for a quad of the dataset -/
def outQuad (name : β → Str) (q : DQuad β) : Q := DQuad.map (fun b => BN.orig (name b)) q

theorem evalNodes_flatEntry (name : β → Str) (hne : ∀ b, name b ≠ []) (c : Ctx) (hc : c.terms = []) {q : DQuad β} (h : wfQuad q = true)
    (rest : List Json) (n : Nat) :
    evalNodes c none (flatEntry name q :: rest) n =
      andThen (some ([outQuad name q], n)) (fun n1 => evalNodes c none rest n1) := by
  obtain ⟨t, g⟩ := q
  simp only [wfQuad, Bool.and_eq_true] at h
  obtain ⟨⟨⟨hs, hp⟩, ho⟩, hg⟩ := h
  cases g with
  | none =>
    simp only [flatEntry]
    rw [evalNodes_flatNode name hne c hc none hs hp ho rest n]
    rfl
  | some gt =>
    simp only [flatEntry]
    rw [evalNodes, nodeHead_flat name hne c hc hg kGraph (by decide) _ n]
    have h1 := evalNodes_flatNode name hne c hc (some (outTerm name gt)) hs hp ho [] n
    simp only [evalNodes, andThen, List.append_nil] at h1
    have h1' : evalNodes c (some (Term.map (fun b => BN.orig (name b)) gt)) [flatNode name t] n =
        some ([quad (outTerm name t.s) t.p (outTerm name t.o) (some (outTerm name gt))], n) := h1
    simp [evalMembers, classifyKey_id, classifyKey_graph, andThen, h1', outQuad, DQuad.map, Triple.map, quad, outTerm]

theorem evalNodes_flat (name : β → Str) (hne : ∀ b, name b ≠ []) (c : Ctx) (hc : c.terms = []) :
    ∀ (d : List (DQuad β)) (n : Nat), WFDataset d →
      evalNodes c none (d.map (flatEntry name)) n = some (d.map (outQuad name), n) := by
  intro d
  induction d with
  | nil => intro n _; simp [evalNodes]
  | cons q d ih =>
    intro n h
    have hq : wfQuad q = true := h q (by simp)
    have hd : WFDataset d := fun q' hq' => h q' (by simp [hq'])
    simp only [List.map_cons]
    rw [evalNodes_flatEntry name hne c hc hq, andThen, ih n hd]
    simp

/-! ### member names of the expanded forms are pairwise distinct -/

theorem flatObj_wf (name : β → Str) (o : Term β) : (flatObj name o).wf = true := by
  cases o with
  | iri v => simp +decide [flatObj, Json.wf, wfMembers]
  | bnode b => simp +decide [flatObj, Json.wf, wfMembers]
  | lit lex dt lang => cases lang <;> simp +decide [flatObj, Json.wf, wfMembers]

theorem flatNode_wf (name : β → Str) {t : Triple β} (hp : absIri t.p = true) : (flatNode name t).wf = true := by
  have : kId ≠ t.p := fun e => abs_ne_keyword hp (by decide) e.symm
  simp [flatNode, Json.wf, wfMembers, wfList, flatObj_wf, this]

theorem flatEntry_wf (name : β → Str) {q : DQuad β} (h : wfQuad q = true) : (flatEntry name q).wf = true := by
  obtain ⟨t, g⟩ := q
  simp only [wfQuad, Bool.and_eq_true] at h
  cases g with
  | none => simpa [flatEntry] using flatNode_wf name h.1.1.2
  | some gt =>
    have := flatNode_wf name (t := t) h.1.1.2
    simp +decide [flatEntry, Json.wf, wfMembers, wfList, this]

theorem writeFlat_wf (name : β → Str) : ∀ (d : List (DQuad β)), WFDataset d → wfList (d.map (flatEntry name)) = true := by
  intro d
  induction d with
  | nil => intro _; rfl
  | cons q d ih =>
    intro h
    simp only [List.map_cons, wfList, Bool.and_eq_true]
    exact ⟨flatEntry_wf name (h q (by simp)), ih (fun q' hq' => h q' (by simp [hq']))⟩

/-- The fallback document denotes the dataset itself, blank nodes relabelled by `name`. -/
theorem writeFlat_denotes (name : β → Str) (hne : ∀ b, name b ≠ []) (mode11 : Bool) (base : Option Str) (d : List (DQuad β)) (h : WFDataset d) :
    toRdf mode11 base (writeFlat name d) = some (d.map (outQuad name)) := by
  have hwf : (writeFlat name d).wf = true := by simpa [writeFlat, Json.wf] using writeFlat_wf name d h
  unfold toRdf
  rw [hwf]
  simp only [Bool.not_true, Bool.false_eq_true, if_false, writeFlat]
  rw [evalNodes_flat name hne (Ctx.initial mode11 base) rfl d 0 h]
  rfl

end RdfModel.Proofs.C10
