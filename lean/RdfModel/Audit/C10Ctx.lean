import RdfModel.Props.C10Ctx
#print axioms RdfModel.C10Ctx.piriOps_total
#print axioms RdfModel.C10Ctx.ctx_no_panic
#print axioms RdfModel.C10Ctx.ctx_no_panic_piri
#print axioms RdfModel.C10Ctx.iri_expand_no_panic
#print axioms RdfModel.C10Ctx.ctd_no_panic
#print axioms RdfModel.C10Ctx.ctd_cyclic
#print axioms RdfModel.C10Ctx.ctd_defined
#print axioms RdfModel.C10Ctx.iri_expand_no_fuel
#print axioms RdfModel.C10Ctx.ctx_fuel_sufficient
#print axioms RdfModel.C10Ctx.ctx_total
#print axioms RdfModel.C10Ctx.prefix_flag_spec
#print axioms RdfModel.C10Ctx.prefix_entry_spec
#print axioms RdfModel.C10Ctx.iri_expand_refines_fragment
#print axioms RdfModel.C10Ctx.ctx_refines_fragment_partial
#print axioms RdfModel.C10Ctx.clone_fields
#print axioms RdfModel.C10Ctx.clone_independent
#print axioms RdfModel.C10Ctx.shallow_clone_not_independent
