package main

// Stage "encode": /repo's JSON-LD encoder against Model.JsonLdEncoder (T3), and the round-trip oracle
// (encoder output decoded by /repo's decoder is isomorphic to the input; natively written literals are
// compared by value).

import (
	"encoding/hex"
	"fmt"
	"math"
	"math/big"
	"sort"
	"strconv"
	"strings"

	"verifharness/vh"

	"github.com/dpb587/rdfkit-go/iri"
	"github.com/dpb587/rdfkit-go/rdf"
)

func (h *harness) genEncCfg(qs []vh.GQuad) encCfg {
	r := h.r
	var c encCfg
	c.buffered = r.Chance(40)
	preds, others, dts := datasetIRIs(qs)
	all := append(append(append([]string{}, preds...), others...), dts...)
	if r.Chance(45) && len(all) > 0 {
		b := nsOf(vh.Pick(r, all))
		switch r.Intn(5) {
		case 0:
			b += "doc"
		case 1:
			b += "sub/doc.jsonld"
		case 2:
			b = vh.Pick(r, all)
		case 3:
			b += "doc?q=1"
		}
		if pb, err := iri.ParseBaseIRI(b); goodIRI(b) && err == nil && pb != nil {
			c.base = b
		}
	}
	if r.Chance(65) && len(all) > 0 {
		for i, n := 0, 1+r.Intn(4); i < n; i++ {
			ns := nsOf(vh.Pick(r, all))
			if r.Chance(12) && len(ns) > 3 {
				ns = ns[:len(ns)-1]
			}
			name := vh.Pick(r, prefixNames)
			if r.Chance(12) {
				name = vh.Pick(r, []string{"", "_", "a:b", "a/b", "@type", "@foo", "x"})
			}
			c.prefixes = append(c.prefixes, [2]string{name, ns})
		}
	}
	return c
}

// canonValue renders a JSON tree insensitive to member order, numbers by value. Array elements are
// compared in order unless sortArrays is set (buffered mode sorts them by their serialisation); the
// items of the top-level @graph array are always compared as a set (their order is Go's map order).
func canonValue(v *JV, sortArrays bool) string { return canonValueAt(v, sortArrays, true) }

func canonValueAt(v *JV, sortArrays, top bool) string {
	switch v.kind {
	case jInt:
		return "#" + strconv.FormatFloat(float64(v.i), 'g', -1, 64)
	case jDbl:
		f, err := strconv.ParseFloat(v.s, 64)
		if err != nil {
			return "#?" + v.s
		}
		return "#" + strconv.FormatFloat(f+0, 'g', -1, 64) // -0 and 0 are one value
	case jArr:
		parts := make([]string, len(v.xs))
		for i, x := range v.xs {
			parts[i] = canonValueAt(x, sortArrays, false)
		}
		if sortArrays {
			sort.Strings(parts)
		}
		return "[" + strings.Join(parts, ",") + "]"
	case jObj:
		parts := make([]string, len(v.ms))
		for i, m := range v.ms {
			if top && m.k == "@graph" && m.v.kind == jArr {
				items := make([]string, len(m.v.xs))
				for j, x := range m.v.xs {
					items[j] = canonValueAt(x, sortArrays, false)
				}
				sort.Strings(items)
				parts[i] = strconv.Quote(m.k) + ":[" + strings.Join(items, ",") + "]"
				continue
			}
			parts[i] = strconv.Quote(m.k) + ":" + canonValueAt(m.v, sortArrays, false)
		}
		sort.Strings(parts)
		return "{" + strings.Join(parts, ",") + "}"
	default:
		return v.wire()
	}
}

// normNative maps literals of the natively written datatypes to a canonical rendering of their value.
func normNative(t rdf.Term) rdf.Term {
	l, ok := t.(rdf.Literal)
	if !ok {
		return t
	}
	switch string(l.Datatype) {
	case xsdNS + "integer":
		s := strings.TrimPrefix(l.LexicalForm, "+")
		if i, ok := new(big.Int).SetString(s, 10); ok && !strings.ContainsAny(s, "_ ") {
			l.LexicalForm = i.String()
		}
	case xsdNS + "double":
		s := l.LexicalForm
		switch s {
		case "INF", "+INF", "-INF", "NaN":
		default:
			if f, err := strconv.ParseFloat(s, 64); err == nil && !math.IsInf(f, 0) && !strings.ContainsAny(s, "xXpP_iInN") {
				if f == math.Trunc(f) && math.Abs(f) < 1e21 {
					// an integral double is read back as xsd:integer by every JSON-LD processor
					// (JSON has one number type): value preserved, datatype not
					l.Datatype = rdf.IRI(xsdNS + "integer")
					l.LexicalForm = strconv.FormatFloat(f, 'f', -1, 64)
					if f == 0 {
						l.LexicalForm = "0"
					}
				} else {
					l.LexicalForm = canonicalDouble(f)
				}
			}
		}
	case xsdNS + "boolean":
		switch l.LexicalForm {
		case "1":
			l.LexicalForm = "true"
		case "0":
			l.LexicalForm = "false"
		}
	}
	return l
}

func normQuads(qs []rdf.Quad) []rdf.Quad {
	out := make([]rdf.Quad, len(qs))
	for i, q := range qs {
		q.Triple.Object = normNative(q.Triple.Object).(rdf.ObjectValue)
		out[i] = q
	}
	return out
}

func hasNativeTyped(qs []vh.GQuad) bool {
	for _, q := range qs {
		if q.O.Kind == vh.KLit && (q.O.DT == xsdNS+"integer" || q.O.DT == xsdNS+"double" || q.O.DT == xsdNS+"boolean") {
			return true
		}
	}
	return false
}

func hasNamedGraph(qs []vh.GQuad) bool {
	for _, q := range qs {
		if q.G != nil {
			return true
		}
	}
	return false
}

// relativeRefs collects the "@id" strings of a document that are relative references, and "@base".
func docBaseOf(doc *JV) string {
	if c := doc.get("@context"); c != nil {
		if b := c.get("@base"); b != nil && b.kind == jStr {
			return b.s
		}
	}
	return ""
}

func (h *harness) encodeCases(n int) {
	for i := 0; i < n; i++ {
		r := h.r
		o := dsOpts{graphs: r.Chance(10), lists: r.Chance(50), nested: r.Chance(70), cycles: r.Chance(12), natives: r.Chance(35), exoticIR: r.Chance(15)}
		ds := h.genDataset(o)
		cfg := h.genEncCfg(ds.quads)
		h.encodeOne(ds, cfg, r.Chance(75), vh.Pick(r, []string{"", "", "http://e.com/other/doc"}))
	}
}

func (h *harness) encodeOne(ds dataset, cfg encCfg, mode11 bool, docBase string) {
	quads, tbl := gquadsRDF(ds.quads)
	res := goEncode(cfg, quads, tbl)
	desc := fmt.Sprintf("encode cfg={base=%q prefixes=%v buffered=%v} dataset=%s", cfg.base, cfg.prefixes, cfg.buffered, showQuads(quads))
	h.rep.Count("op:encode")
	nontrivial := len(ds.feat) > 0
	if res.panicked != "" {
		h.rep.Eval(desc, nontrivial)
		h.rep.Add(vh.Case{Kind: "violation", Op: "encode", Go: "panic " + res.panicked, Detail: "encoder panic — " + desc})
		return
	}
	if res.err != nil {
		h.rep.Eval(desc, nontrivial)
		h.rep.Add(vh.Case{Kind: "violation", Op: "encode", Go: res.err.Error(), Detail: "encoder error on a well-formed dataset — " + desc})
		return
	}
	desc += " doc=" + strings.TrimSpace(string(res.doc))
	h.rep.Eval(desc, nontrivial)
	gdoc, err := parseJSONText(res.doc)
	if err != nil {
		h.rep.Add(vh.Case{Kind: "violation", Op: "encode", Go: err.Error(), Detail: "encoder output is not JSON — " + desc})
		return
	}
	for k := range ds.feat {
		h.rep.Count("enc-ds:" + k)
	}
	if cfg.base != "" {
		h.rep.Count("enc-cfg:base")
	}
	if len(cfg.prefixes) > 0 {
		h.rep.Count("enc-cfg:prefixes")
	}
	if gdoc.get("@context") != nil {
		h.rep.Count("enc-doc:@context")
	}

	// ---- T3: the model's document. Which once-referenced blank nodes become resources in the second
	// pass of ExportResources depends on Go's map iteration order (a parameter of the model): the order
	// is reconstructed from the implementation's document (rootOrder), and if that order does not
	// reproduce the document every other order of those roots is tried (bounded) before a disagreement
	// is reported. Datasets without such roots have exactly one admissible order.
	roots := rootOrder(gdoc, ds.quads)
	hint := hintTok(roots)
	line := "jl.encode " + cfg.wire() + " " + hint + " " + gquadsWire(ds.quads)
	h.stable("jl.encode " + cfg.wire() + " " + gquadsWire(ds.quads))
	same := func(model string) (bool, *JV, string) {
		if !strings.HasPrefix(model, "ok:") {
			return false, nil, "driver: " + model
		}
		mdoc, err := parseWire(model[3:])
		if err != nil {
			return false, nil, "model document unreadable: " + err.Error()
		}
		return canonValue(mdoc, cfg.buffered) == canonValue(gdoc, cfg.buffered), mdoc, ""
	}
	report := func(mdoc *JV, why string) {
		mtext := why
		if mdoc != nil {
			mtext = string(mdoc.text())
		}
		if cfg.base != "" && baseOutsideDomain(cfg.base) && h.knownCase("jsonld-resolver-deviates-from-rfc3986", desc+" model="+mtext) {
			return
		}
		h.rep.Add(vh.Case{Kind: "disagreement", Op: line, Go: string(gdoc.text()), Model: mtext, Detail: "encoder model differs from the implementation (for every admissible iteration order) — " + desc})
	}
	h.add(line, func(model string) {
		ok, mdoc, why := same(model)
		if ok {
			if len(roots) > 1 {
				h.rep.Count("encode:second-pass-order:reconstructed")
			}
			return
		}
		perms := permutations(roots, 120)
		if len(perms) <= 1 {
			report(mdoc, why)
			return
		}
		// further rounds: all other orders of the second-pass roots
		left, found := len(perms), false
		for _, p := range perms {
			pl := "jl.encode " + cfg.wire() + " " + hintTok(p) + " " + gquadsWire(ds.quads)
			h.add(pl, func(m2 string) {
				if ok2, _, _ := same(m2); ok2 {
					found = true
				}
				left--
				if left == 0 {
					if found {
						h.rep.Count("encode:second-pass-order:found-by-enumeration")
					} else {
						report(mdoc, why)
					}
				}
			})
		}
	})

	// ---- oracle: decode what the encoder wrote
	dres := goDecode(res.doc, mode11, docBase)
	var oracleOK bool
	var oracleDetail string
	switch {
	case dres.panicked != "":
		h.decoderPanic(dres.panicked, desc)
		oracleDetail = "decoder panic " + dres.panicked
	case dres.err != nil:
		oracleDetail = "decoder error: " + dres.err.Error()
	default:
		if hasNativeTyped(ds.quads) {
			h.rep.Count("encode:oracle-by-value")
			oracleOK = vh.IsomorphicMulti(normQuads(dres.quads), normQuads(quads))
		} else {
			h.rep.Count("encode:oracle-exact")
			oracleOK = vh.IsomorphicMulti(dres.quads, quads)
		}
		if !oracleOK {
			oracleDetail = "decoded: " + showQuads(dres.quads)
		}
	}

	if *nomodel {
		// search mode: the oracle alone, classes approximated on the implementation side
		if !oracleOK {
			key := ""
			switch {
			case hasNamedGraph(ds.quads):
				key = "encoder-drops-named-graphs"
			case dres.err != nil && strings.Contains(dres.err.Error(), "parse:") && hasC1(ds.quads):
				key = "literal-with-c1-control"
			case schemeClashGo(cfg, ds.quads):
				key = "iri-scheme-equals-declared-prefix"
			case resolverDeviates(gdoc, docBase) || (cfg.base != "" && (baseOutsideDomain(cfg.base) || resolverDeviates(gdoc, cfg.base))):
				key = "jsonld-resolver-deviates-from-rfc3986"
			}
			if key == "" || !h.knownCase(key, desc+" "+oracleDetail) {
				h.rep.Add(vh.Case{Kind: "violation", Op: line, Go: oracleDetail, Detail: "encoder output does not decode back to the dataset — " + desc})
			}
		}
		return
	}

	// ---- the certificate of theorem encoder_roundtrip_partial, and the unproved implication
	cline := fmt.Sprintf("jl.cert %s %s %s %s %s", modeTok(mode11), baseTok(docBase), cfg.wire(), hint, gquadsWire(ds.quads))
	h.add(cline, func(model string) {
		flags := map[string]bool{}
		for _, f := range strings.Fields(model) {
			if kv := strings.SplitN(f, "=", 2); len(kv) == 2 {
				flags[kv[0]] = kv[1] == "1"
			}
		}
		if _, ok := flags["cert"]; !ok {
			h.rep.Add(vh.Case{Kind: "disagreement", Op: cline, Model: model, Detail: "driver: " + desc})
			return
		}
		// (cycles of once-referenced blank nodes are no obstacle since fix-c17-export-cycles; the flag
		// `acyclic` is still reported by the driver and only counted)
		natural := flags["dg"] && flags["nonative"] && flags["wf"] && !flags["clash"]
		if !flags["acyclic"] {
			h.rep.Count("encode:once-referenced-cycle")
		}
		h.rep.Count(fmt.Sprintf("encode:cert=%v,natural=%v", flags["cert"], natural))
		classify := func() string {
			switch {
			case dres.err != nil && strings.Contains(dres.err.Error(), "parse:") && hasC1(ds.quads):
				return "literal-with-c1-control"
			case !flags["dg"]:
				return "encoder-drops-named-graphs"
			case flags["clash"]:
				return "iri-scheme-equals-declared-prefix"
			case resolverDeviates(gdoc, docBase) || (cfg.base != "" && resolverDeviates(gdoc, cfg.base)):
				return "jsonld-resolver-deviates-from-rfc3986"
			}
			return ""
		}
		if flags["cert"] && !oracleOK {
			// the theorem says the model's reading is isomorphic; the implementation disagrees
			if key := classify(); key != "" && h.knownCase(key, desc+" "+oracleDetail) {
				return
			}
			h.rep.Add(vh.Case{Kind: "violation", Op: cline, Go: oracleDetail, Detail: "encoder output does not decode back to the dataset although the certificate of encoder_roundtrip_partial holds — " + desc})
			return
		}
		if natural && !flags["cert"] {
			if key := classify(); key != "" && h.knownCase(key, desc+" (certificate does not hold)") {
				return
			}
			h.rep.Add(vh.Case{Kind: "disagreement", Op: cline, Model: model, Go: oracleDetail, Detail: "natural hypotheses hold but the certificate does not (statement encoder_roundtrip_natural fails on the model) — " + desc})
			return
		}
		if !oracleOK {
			if key := classify(); key != "" && h.knownCase(key, desc+" "+oracleDetail) {
				return
			}
			h.rep.Add(vh.Case{Kind: "violation", Op: cline, Go: oracleDetail, Detail: "encoder output does not decode back to the dataset — " + desc})
		}
	})
}

// hasC1: some lexical form, IRI or language tag of the dataset contains a code point U+007F..U+009F,
// which encoding/json writes raw and /repo's JSON tokenizer (inspectjson, strict mode) refuses.
func hasC1(qs []vh.GQuad) bool {
	bad := func(s string) bool {
		for _, r := range s {
			if r >= 0x7f && r <= 0x9f {
				return true
			}
		}
		return false
	}
	for _, q := range qs {
		ts := []vh.GTerm{q.S, q.P, q.O}
		if q.G != nil {
			ts = append(ts, *q.G)
		}
		for _, t := range ts {
			if bad(t.IRI) || bad(t.Lex) || bad(t.DT) || bad(t.Lang) {
				return true
			}
		}
	}
	return false
}

// baseOutsideDomain: the base IRI is outside the domain on which the models of properties C12/C13
// describe /repo's net/url wrapper (it carries a fragment, has dot segments, or is not printed back
// unchanged).
func baseOutsideDomain(b string) bool {
	if strings.Contains(b, "#") || strings.Contains(b, "/./") || strings.Contains(b, "/../") || strings.HasSuffix(b, "/.") || strings.HasSuffix(b, "/..") {
		return true
	}
	pb, err := iri.ParseIRI(b)
	return err != nil || pb.String() != b
}

func usablePrefix(name, ns string) bool {
	if name == "" || name == "_" || strings.ContainsAny(name, ":/") {
		return false
	}
	if len(name) > 1 && name[0] == '@' {
		alpha := true
		for _, c := range name[1:] {
			if !(c >= 'a' && c <= 'z' || c >= 'A' && c <= 'Z') {
				alpha = false
			}
		}
		if alpha {
			return false
		}
	}
	return ns != "" && strings.ContainsRune(":/?#[]@", rune(ns[len(ns)-1]))
}

func schemeClashGo(cfg encCfg, qs []vh.GQuad) bool {
	names := map[string]bool{}
	for _, p := range cfg.prefixes {
		if usablePrefix(p[0], p[1]) {
			names[p[0]] = true
		}
	}
	clash := func(v string) bool {
		i := strings.IndexByte(v, ':')
		return i >= 0 && names[v[:i]] && !strings.HasPrefix(v[i+1:], "//")
	}
	for _, q := range qs {
		for _, t := range []vh.GTerm{q.S, q.P, q.O} {
			if (t.Kind == vh.KIRI && clash(t.IRI)) || (t.Kind == vh.KLit && clash(t.DT)) {
				return true
			}
		}
	}
	return false
}

// rootOrder reconstructs the order in which the second pass of ExportResources visited the
// once-referenced blank nodes that became resources. Such a node r that is referenced (by a plain
// {"@id": "_:r"}) inside the resource of another such node r' was visited before r' - otherwise it
// would have been inlined there. Nodes unrelated by this rule lie in different components and their
// relative order does not matter; ties are broken by label so that the result does not depend on the
// order of the document's items (buffered mode sorts them, map order otherwise).
func rootOrder(doc *JV, qs []vh.GQuad) []string {
	refs := map[int]int{}
	for _, q := range qs {
		if q.G == nil && q.O.Kind == vh.KBNode {
			refs[q.O.BNode]++
		}
	}
	once := map[string]bool{}
	for b, n := range refs {
		if n == 1 {
			once[labelOf(b)] = true
		}
	}
	var items []*JV
	if g := doc.get("@graph"); g != nil && g.kind == jArr && doc.get("@id") == nil {
		items = g.xs
	} else {
		items = []*JV{doc}
	}
	isRoot := map[string]bool{}
	var roots []string
	for _, it := range items {
		if id := it.get("@id"); id != nil && id.kind == jStr && strings.HasPrefix(id.s, "_:") && once[id.s[2:]] {
			isRoot[id.s[2:]] = true
			roots = append(roots, id.s[2:])
		}
	}
	sort.Strings(roots)
	// before[r'] = roots referenced inside the resource of r'
	before := map[string]map[string]bool{}
	var walk func(v *JV, owner string, topLevel bool)
	walk = func(v *JV, owner string, topLevel bool) {
		switch v.kind {
		case jArr:
			for _, x := range v.xs {
				walk(x, owner, false)
			}
		case jObj:
			for _, m := range v.ms {
				if m.k == "@id" && !topLevel && m.v.kind == jStr && strings.HasPrefix(m.v.s, "_:") {
					if r := m.v.s[2:]; isRoot[r] && r != owner {
						if before[owner] == nil {
							before[owner] = map[string]bool{}
						}
						before[owner][r] = true
					}
				}
				walk(m.v, owner, false)
			}
		}
	}
	for _, it := range items {
		if id := it.get("@id"); id != nil && id.kind == jStr && strings.HasPrefix(id.s, "_:") && isRoot[id.s[2:]] {
			walk(it, id.s[2:], true)
		}
	}
	// Kahn's algorithm, smallest label first
	var out []string
	done := map[string]bool{}
	for len(out) < len(roots) {
		progressed := false
		for _, r := range roots {
			if done[r] {
				continue
			}
			ready := true
			for p := range before[r] {
				if !done[p] {
					ready = false
				}
			}
			if ready {
				out = append(out, r)
				done[r] = true
				progressed = true
				break
			}
		}
		if !progressed { // cannot happen for a document of ExportResources; keep the rest in label order
			for _, r := range roots {
				if !done[r] {
					out = append(out, r)
					done[r] = true
				}
			}
		}
	}
	return out
}

func hintTok(roots []string) string {
	if len(roots) == 0 {
		return "-"
	}
	hs := make([]string, len(roots))
	for i, r := range roots {
		hs[i] = hex.EncodeToString([]byte(r))
	}
	return strings.Join(hs, ";")
}

// permutations lists the orders of xs in lexicographic order of positions, at most max of them.
func permutations(xs []string, max int) [][]string {
	var out [][]string
	var rec func(cur []string, rest []string)
	rec = func(cur []string, rest []string) {
		if len(out) >= max {
			return
		}
		if len(rest) == 0 {
			out = append(out, append([]string(nil), cur...))
			return
		}
		for i := range rest {
			next := append(append([]string(nil), rest[:i]...), rest[i+1:]...)
			rec(append(cur, rest[i]), next)
		}
	}
	rec(nil, xs)
	return out
}
