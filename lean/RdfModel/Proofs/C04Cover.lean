/-
  Proofs.C04Cover — specification side: issuers only grow, and after steps 4 and 5 every blank node
  of the dataset has a canonical identifier.
-/
import RdfModel.Spec.RDFC10
import RdfModel.Proofs.StrOrdLemmas
namespace RdfModel.Proofs.C04
open RdfModel RdfModel.Proofs.StrOrd RdfModel.Spec.RDFC10

set_option linter.unusedSectionVars false

variable {β : Type} [DecidableEq β]

/-- `j` knows every node `i` knows. -/
def Sub (i j : Issuer β) : Prop := ∀ b, (i.get? b).isSome → (j.get? b).isSome

theorem Sub.refl (i : Issuer β) : Sub i i := fun _ h => h
theorem Sub.trans {i j k : Issuer β} (h1 : Sub i j) (h2 : Sub j k) : Sub i k := fun b h => h2 b (h1 b h)

theorem issue_sub (i : Issuer β) (b : β) : Sub i (i.issue b).2 := by
  intro b' h
  unfold Issuer.issue
  cases hg : i.get? b with
  | some id => simpa [hg] using h
  | none =>
    simp only
    unfold Issuer.get? at hg h ⊢
    simp only
    rw [assoc_append_of_none _ _ _ _ hg]
    split
    · simp
    · exact h

theorem issue_knows (i : Issuer β) (b : β) : ((i.issue b).2.get? b).isSome := by
  unfold Issuer.issue
  cases hg : i.get? b with
  | some id => simp [hg]
  | none =>
    simp only
    unfold Issuer.get? at hg ⊢
    simp only
    rw [assoc_append_of_none _ _ _ _ hg]
    simp

theorem issueAll_sub (c : Issuer β) (l : List β) : Sub c (issueAll c l) := by
  induction l generalizing c with
  | nil => exact Sub.refl c
  | cons a rest ih =>
    simp only [issueAll, List.foldl_cons]
    exact (issue_sub c a).trans (ih _)

theorem issueAll_knows (c : Issuer β) (l : List β) : ∀ b ∈ l, ((issueAll c l).get? b).isSome := by
  induction l generalizing c with
  | nil => intro b hb; simp at hb
  | cons a rest ih =>
    intro b hb
    simp only [issueAll, List.foldl_cons]
    simp only [List.mem_cons] at hb
    rcases hb with hb | hb
    · subst hb
      exact issueAll_sub _ rest b (issue_knows c b)
    · exact ih _ b hb

/-- Keys of the issued map are exactly the known nodes. -/
theorem knows_iff_mem_keys (i : Issuer β) (b : β) : (i.get? b).isSome ↔ b ∈ i.issued.map (·.1) := by
  unfold Issuer.get?
  induction i.issued with
  | nil => simp [assoc]
  | cons e rest ih =>
    obtain ⟨k, v⟩ := e
    by_cases hk : k = b
    · simp [assoc, hk]
    · simp only [assoc, hk, if_false, List.map_cons, List.mem_cons, ih]
      constructor
      · intro h; exact Or.inr h
      · intro h; rcases h with h | h
        · exact absurd h.symm hk
        · exact h

/-! ### Hash N-Degree Quads only extends the issuer -/

theorem pathLoop_sub (canon : Issuer β) (chosen : Str) :
    ∀ (l : List β) (path : Str) (ic : Issuer β) (recl : List β) p ic' r,
    pathLoop canon chosen l (path, ic, recl) = some (p, ic', r) → Sub ic ic'
  | [], path, ic, recl, p, ic', r, h => by
    simp only [pathLoop, Option.some.injEq, Prod.mk.injEq] at h
    rw [← h.2.1]; exact Sub.refl ic
  | related :: rest, path, ic, recl, p, ic', r, h => by
    unfold pathLoop at h
    cases hc : canon.get? related with
    | some id =>
      simp only [hc] at h
      split at h
      · simp at h
      · exact pathLoop_sub canon chosen rest _ ic _ p ic' r h
    | none =>
      simp only [hc] at h
      split at h
      · simp at h
      · exact (issue_sub ic related).trans (pathLoop_sub canon chosen rest _ _ _ p ic' r h)

/-- The recursive call only extends its issuer. -/
def RecSub (rec : β → Issuer β → Option (NDResult β)) : Prop :=
  ∀ b i r, rec b i = some r → Sub i r.issuer

theorem recLoop_sub {rec : β → Issuer β → Option (NDResult β)} (hrec : RecSub rec) (chosen : Str) :
    ∀ (l : List β) (path : Str) (ic : Issuer β) p ic',
    recLoop rec chosen l path ic = .ok (p, ic') → Sub ic ic'
  | [], path, ic, p, ic', h => by
    simp only [recLoop, Try.ok.injEq, Prod.mk.injEq] at h
    rw [← h.2]; exact Sub.refl ic
  | related :: rest, path, ic, p, ic', h => by
    unfold recLoop at h
    cases hr : rec related ic with
    | none => simp [hr] at h
    | some res =>
      simp only [hr] at h
      split at h
      · cases h
      · exact (hrec related ic res hr).trans (recLoop_sub hrec chosen rest _ _ p ic' h)

theorem permLoop_sub {rec : β → Issuer β → Option (NDResult β)} (hrec : RecSub rec) (canon issuer : Issuer β) :
    ∀ (ps : List (List β)) (cp : Str) (ci : Issuer β), Sub issuer ci →
    ∀ rp ri, permLoop rec canon issuer ps cp ci = some (rp, ri) → Sub issuer ri
  | [], cp, ci, hci, rp, ri, h => by
    simp only [permLoop, Option.some.injEq, Prod.mk.injEq] at h
    rw [← h.2]; exact hci
  | p :: ps, cp, ci, hci, rp, ri, h => by
    unfold permLoop at h
    cases hp : pathLoop canon cp p ([], issuer, []) with
    | none =>
      simp only [hp] at h
      exact permLoop_sub hrec canon issuer ps cp ci hci rp ri h
    | some st =>
      obtain ⟨path, ic, recl⟩ := st
      simp only [hp] at h
      have h1 := pathLoop_sub canon cp p [] issuer [] path ic recl hp
      cases hr : recLoop rec cp recl path ic with
      | out => simp [hr] at h
      | skip =>
        simp only [hr] at h
        exact permLoop_sub hrec canon issuer ps cp ci hci rp ri h
      | ok x =>
        obtain ⟨path', ic'⟩ := x
        simp only [hr] at h
        have h2 := recLoop_sub hrec cp recl path ic path' ic' hr
        split at h
        · exact permLoop_sub hrec canon issuer ps path' ic' (h1.trans h2) rp ri h
        · exact permLoop_sub hrec canon issuer ps cp ci hci rp ri h

theorem groupLoop_sub {rec : β → Issuer β → Option (NDResult β)} (hrec : RecSub rec) (canon : Issuer β)
    (perms : List β → List (List β)) :
    ∀ (gs : List (Str × List β)) (data : Str) (issuer : Issuer β) d ri,
    groupLoop rec canon perms gs data issuer = some (d, ri) → Sub issuer ri
  | [], data, issuer, d, ri, h => by
    simp only [groupLoop, Option.some.injEq, Prod.mk.injEq] at h
    rw [← h.2]; exact Sub.refl issuer
  | (rh, bl) :: rest, data, issuer, d, ri, h => by
    unfold groupLoop at h
    cases hp : permLoop rec canon issuer (perms bl) [] issuer with
    | none => simp [hp] at h
    | some x =>
      obtain ⟨cp, ci⟩ := x
      simp only [hp] at h
      exact (permLoop_sub hrec canon issuer (perms bl) [] issuer (Sub.refl issuer) cp ci hp).trans
        (groupLoop_sub hrec canon perms rest _ ci d ri h)

theorem hashNDegree_sub (H : Str → Str) (perms : List β → List (List β)) (b2q : B2Q β) (canon : Issuer β) :
    ∀ fuel, RecSub (hashNDegree H perms b2q canon fuel)
  | 0 => by intro b i r h; simp [hashNDegree] at h
  | fuel + 1 => by
    intro b i r h
    unfold hashNDegree at h
    simp only at h
    cases hg : groupLoop (hashNDegree H perms b2q canon fuel) canon perms
        (sortByKey (hashToRelated H b2q canon i b)) [] i with
    | none => simp [hg] at h
    | some x =>
      obtain ⟨d, ri⟩ := x
      simp only [hg, Option.some.injEq] at h
      rw [← h]
      exact groupLoop_sub (hashNDegree_sub H perms b2q canon fuel) canon perms _ [] i d ri hg

/-! ### step 5 covers its identifier lists -/

theorem hashPathList_covers (H : Str → Str) (perms : List β → List (List β)) (b2q : B2Q β)
    (canon : Issuer β) (fuel : Nat) :
    ∀ (l : List β) hpl, hashPathList H perms b2q canon fuel l = some hpl →
    ∀ n ∈ l, (canon.get? n).isSome ∨ ∃ r ∈ hpl, (r.issuer.get? n).isSome
  | [], hpl, _, n, hn => by simp at hn
  | a :: rest, hpl, h, n, hn => by
    unfold hashPathList at h
    by_cases hk : (canon.get? a).isSome = true
    · simp only [hk, if_true] at h
      simp only [List.mem_cons] at hn
      rcases hn with hn | hn
      · subst hn; exact Or.inl hk
      · exact hashPathList_covers H perms b2q canon fuel rest hpl h n hn
    · simp only [hk, Bool.false_eq_true, if_false] at h
      cases hnd : hashNDegree H perms b2q canon fuel a ((Issuer.new [0x62]).issue a).2 with
      | none => simp [hnd] at h
      | some r =>
        simp only [hnd] at h
        cases hrest : hashPathList H perms b2q canon fuel rest with
        | none => simp [hrest] at h
        | some rs =>
          simp only [hrest, Option.map_some, Option.some.injEq] at h
          subst h
          simp only [List.mem_cons] at hn
          rcases hn with hn | hn
          · subst hn
            refine Or.inr ⟨r, by simp, ?_⟩
            exact hashNDegree_sub H perms b2q canon fuel n _ r hnd n (issue_knows _ n)
          · rcases hashPathList_covers H perms b2q canon fuel rest rs hrest n hn with h1 | ⟨r', hr', h2⟩
            · exact Or.inl h1
            · exact Or.inr ⟨r', by simp [hr'], h2⟩

theorem foldl_issueAll_sub (rs : List (NDResult β)) (c : Issuer β) :
    Sub c (rs.foldl (fun c r => issueAll c (r.issuer.issued.map (·.1))) c) := by
  induction rs generalizing c with
  | nil => exact Sub.refl c
  | cons r rest ih =>
    simp only [List.foldl_cons]
    exact (issueAll_sub c _).trans (ih _)

theorem foldl_issueAll_knows (rs : List (NDResult β)) (c : Issuer β) :
    ∀ r ∈ rs, ∀ n, (r.issuer.get? n).isSome →
      ((rs.foldl (fun c r => issueAll c (r.issuer.issued.map (·.1))) c).get? n).isSome := by
  induction rs generalizing c with
  | nil => intro r hr; simp at hr
  | cons r0 rest ih =>
    intro r hr n hn
    simp only [List.foldl_cons]
    simp only [List.mem_cons] at hr
    rcases hr with hr | hr
    · subst hr
      apply foldl_issueAll_sub rest _ n
      exact issueAll_knows c _ n ((knows_iff_mem_keys r.issuer n).mp hn)
    · exact ih _ r hr n hn

theorem step5_covers (H : Str → Str) (perms : List β → List (List β)) (b2q : B2Q β) (fuel : Nat) :
    ∀ (gs : List (Str × List β)) (canon canon' : Issuer β), step5 H perms b2q fuel gs canon = some canon' →
    Sub canon canon' ∧ ∀ g ∈ gs, ∀ n ∈ g.2, (canon'.get? n).isSome
  | [], canon, canon', h => by
    simp only [step5, Option.some.injEq] at h
    subst h
    exact ⟨Sub.refl _, by simp⟩
  | (hsh, ids) :: rest, canon, canon', h => by
    unfold step5 at h
    cases hh : hashPathList H perms b2q canon fuel ids with
    | none => simp [hh] at h
    | some hpl =>
      simp only [hh] at h
      obtain ⟨h1, h2⟩ := step5_covers H perms b2q fuel rest _ canon' h
      have hs1 := foldl_issueAll_sub (hpl.mergeSort (fun a b => strLe a.hash b.hash)) canon
      refine ⟨hs1.trans h1, ?_⟩
      intro g hg n hn
      simp only [List.mem_cons] at hg
      rcases hg with hg | hg
      · subst hg
        apply h1 n
        rcases hashPathList_covers H perms b2q canon fuel ids hpl hh n hn with hk | ⟨r, hr, hk⟩
        · exact hs1 n hk
        · exact foldl_issueAll_knows _ canon r (List.mem_mergeSort.mpr hr) n hk
      · exact h2 g hg n hn

end RdfModel.Proofs.C04
