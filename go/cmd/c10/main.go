// Command c10: property C10 (JSON-LD). Correspondence (T3) between the fragment semantics
// RdfModel.JL.toRdf and /repo's JSON-LD decoder on documents written by the Lean fragment writer, on
// mutations of those, and on the W3C toRdf tests inside the fragment; correspondence between
// Model.JsonLdEncoder and /repo's encoder; and the property oracles on the implementation
// (decoder output isomorphic to the dataset the document was written from; encoder output decodes
// back to an isomorphic dataset).
package main

import (
	"flag"
	"fmt"
	"os"
	"strings"

	"verifharness/vh"
)

var (
	tier     = flag.String("tier", "quick", "quick|thorough")
	driver   = flag.String("driver", "/verif/lean/.lake/build/bin/driver", "lean driver binary")
	out      = flag.String("out", "/verif/evidence/.c10.report.json", "report path")
	findings = flag.String("findings", "/verif/known-findings.json", "known findings")
	replay   = flag.String("replay", "", "replay file (one protocol line per line)")
	scale    = flag.Int("scale", 1, "multiply generated case counts (search mode uses 10)")
	nomodel  = flag.Bool("nomodel", false, "property oracle on the implementation only (search mode / driver unavailable)")
	hints    = flag.String("hints", "", "file of protocol lines that disagreed; their inputs are pushed through the oracle first")
	only     = flag.String("only", "", "development: run only the named stages (comma separated: corpus,write,mutate,encode)")
	verbose  = flag.Bool("v", false, "development: print every case")
)

// item is one line for the model together with what to do with its answer.
type item struct {
	line  string
	check func(model string)
}

type harness struct {
	r     *vh.Rng
	rep   *vh.Report
	known map[string]vh.Finding
	items []item
	hash  uint64 // FNV-1a over the generated cases: equal for equal VERIF_SEED (reported as case-stream-hash)
}

// stable feeds the part of a case that must be a function of the seed alone into the case-stream hash.
func (h *harness) stable(s string) {
	if h.hash == 0 {
		h.hash = 14695981039346656037
	}
	for i := 0; i < len(s); i++ {
		h.hash ^= uint64(s[i])
		h.hash *= 1099511628211
	}
	h.hash ^= 0xff
	h.hash *= 1099511628211
}

func (h *harness) add(line string, check func(model string)) {
	h.items = append(h.items, item{line, check})
}

// knownCase records a violation that belongs to a listed class; returns false if the class is not listed.
func (h *harness) knownCase(pred, detail string) bool {
	f, ok := h.known[pred]
	if !ok {
		return false
	}
	h.rep.Add(vh.Case{Kind: "known", Key: f.Key, Detail: f.What + " — " + detail})
	h.rep.Count("known:" + f.Key)
	return true
}

func repoDir() string {
	if d := os.Getenv("VERIF_REPO"); d != "" {
		return d
	}
	return "/repo"
}

func stage(name string) bool {
	if *only == "" {
		return true
	}
	for _, s := range strings.Split(*only, ",") {
		if s == name {
			return true
		}
	}
	return false
}

func main() {
	flag.Parse()
	seed := vh.SeedFromEnv()
	rep := vh.NewReport("C10", *tier, seed, "datasets with named graphs, RDF lists, shared/nested/cyclic blank nodes, literals of every kind (plain, language-tagged, typed, native-eligible numbers and booleans) written by the Lean fragment writer under random choices (expanded/flattened/nested, inline context with prefixes, terms with @type/@container/@language, @vocab, @base, native values, @list) and both processing modes; structural mutations of those documents; the W3C toRdf tests inside the fragment; encoder configurations (base, prefix tables incl. unusable ones, buffered); non-trivial = the dataset has a blank node, a literal or a named graph (write/encode), the document is inside the fragment (mutate/corpus)")
	h := &harness{r: vh.NewRng(seed), rep: rep}
	fs, err := vh.LoadFindings(*findings)
	if err != nil {
		fmt.Fprintln(os.Stderr, "findings:", err)
		os.Exit(2)
	}
	h.known = vh.KnownKeys(fs, "C10")

	n := 3300 * *scale // ≈ 10^4 evaluations over the three generated stages
	if *tier == "thorough" {
		n = 165000 * *scale // ≈ 5·10^5
	}
	if *replay != "" {
		h.replayFile(*replay)
	} else {
		if *hints != "" {
			h.replayFile(*hints)
		}
		if stage("corpus") {
			h.corpus()
		}
		if stage("write") {
			h.writeCases(n)
		}
		if stage("mutate") {
			h.mutateCases(n)
		}
		if stage("encode") {
			h.encodeCases(n)
		}
	}

	if !*nomodel {
		// checks may queue further lines (documents returned by the model are mutated and sent back)
		for round := 0; len(h.items) > 0 && round < 4; round++ {
			items := h.items
			h.items = nil
			lines := make([]string, len(items))
			for i, it := range items {
				lines[i] = it.line
			}
			res, err := vh.Driver{Path: *driver}.RunParallel(lines)
			if err != nil {
				fmt.Fprintln(os.Stderr, err)
				os.Exit(2)
			}
			for i, it := range items {
				rep.Compared++
				it.check(res[i])
			}
		}
	}
	rep.Hist["case-stream-hash"] = int(h.hash % 1000000007)
	if c := loaderCalls.Load(); c > 0 {
		rep.Hist["document-loader-calls"] = int(c)
	}
	if err := rep.Write(*out); err != nil {
		fmt.Fprintln(os.Stderr, err)
		os.Exit(2)
	}
	fmt.Printf("c10: %d evaluations, %d compared with the model, %d failures, %d known\n", rep.Evaluations, rep.Compared, rep.Failures(), len(rep.Cases)-rep.Failures())
	if rep.Failures() > 0 {
		os.Exit(1)
	}
}
