/-
  Proofs.C01Scan — scanner-level round-trip lemmas for C01 (IRI / literal bodies, language tags,
  blank-node labels).
-/
import RdfModel.Props.C01Defs
namespace RdfModel.Proofs.C01
open RdfModel RdfModel.NQ RdfModel.C01

/-! ### hex digit steps -/

theorem scanIRI_body_bs (T : Tables) (e : End) (r acc : List Nat) :
    scanIRI T e .body (0x5c :: r) acc = scanIRI T e .esc r acc := by
  simp [scanIRI]

theorem scanIRI_esc_u (T : Tables) (e : End) (r acc : List Nat) :
    scanIRI T e .esc (0x75 :: r) acc = scanIRI T e (.hex uchar4Maxs 0) r acc := by
  simp [scanIRI]

theorem scanIRI_esc_U (T : Tables) (e : End) (r acc : List Nat) :
    scanIRI T e .esc (0x55 :: r) acc = scanIRI T e (.hex uchar8Maxs 0) r acc := by
  simp [scanIRI]

theorem scanIRI_hex_more (T : Tables) (hT : TablesOK T) (e : End) (m m' : Nat) (ms : List Nat)
    (v d : Nat) (hd : d < 16) (hm : d ≤ m) (r acc : List Nat) :
    scanIRI T e (.hex (m :: m' :: ms) v) (hexUpper d :: r) acc
      = scanIRI T e (.hex (m' :: ms) (v * 16 + d)) r acc := by
  rw [scanIRI]
  rw [hT.hex d hd]
  simp only
  rw [if_neg (by omega)]

theorem scanIRI_hex_last (T : Tables) (hT : TablesOK T) (e : End) (m : Nat)
    (v d : Nat) (hd : d < 16) (hm : d ≤ m) (r acc : List Nat) :
    scanIRI T e (.hex [m] v) (hexUpper d :: r) acc
      = scanIRI T e .body r ((v * 16 + d) :: acc) := by
  rw [scanIRI]
  rw [hT.hex d hd]
  simp only
  rw [if_neg (by omega)]

theorem scanIRI_u4 (T : Tables) (hT : TablesOK T) (e : End) (c : Nat) (hc : c ≤ 0xFFFF)
    (r acc : List Nat) :
    scanIRI T e .body (0x5c :: 0x75 :: (hex4 c ++ r)) acc = scanIRI T e .body r (c :: acc) := by
  rw [scanIRI_body_bs, scanIRI_esc_u]
  simp only [hex4, uchar4Maxs, List.cons_append, List.nil_append]
  rw [scanIRI_hex_more T hT e _ _ _ _ _ (by omega) (by omega),
      scanIRI_hex_more T hT e _ _ _ _ _ (by omega) (by omega),
      scanIRI_hex_more T hT e _ _ _ _ _ (by omega) (by omega),
      scanIRI_hex_last T hT e _ _ _ (by omega) (by omega)]
  congr 2
  omega

theorem scanIRI_u8 (T : Tables) (hT : TablesOK T) (e : End) (c : Nat) (hc : c ≤ 0x10FFFF)
    (r acc : List Nat) :
    scanIRI T e .body (0x5c :: 0x55 :: (hex8 c ++ r)) acc = scanIRI T e .body r (c :: acc) := by
  rw [scanIRI_body_bs, scanIRI_esc_U]
  simp only [hex8, uchar8Maxs, List.cons_append, List.nil_append]
  rw [scanIRI_hex_more T hT e _ _ _ _ _ (by omega) (by omega),
      scanIRI_hex_more T hT e _ _ _ _ _ (by omega) (by omega),
      scanIRI_hex_more T hT e _ _ _ _ _ (by omega) (by omega),
      scanIRI_hex_more T hT e _ _ _ _ _ (by omega) (by omega),
      scanIRI_hex_more T hT e _ _ _ _ _ (by omega) (by omega),
      scanIRI_hex_more T hT e _ _ _ _ _ (by omega) (by omega),
      scanIRI_hex_more T hT e _ _ _ _ _ (by omega) (by omega),
      scanIRI_hex_last T hT e _ _ _ (by omega) (by omega)]
  congr 2
  omega


theorem isScalar_le {c : Nat} (h : IsScalar c) : c ≤ 0x10FFFF := by
  unfold IsScalar at h; omega

theorem escIRIRune_0 {T : Tables} {a : Bool} {c : Nat} (h : lookup (T.iriEsc a) 0 c = 0) :
    escIRIRune T a c = [c] := by simp [escIRIRune, h]
theorem escIRIRune_1 {T : Tables} {a : Bool} {c : Nat} (h : lookup (T.iriEsc a) 0 c = 1) :
    escIRIRune T a c = 0x5c :: 0x75 :: hex4 c := by simp [escIRIRune, h]
theorem escIRIRune_2 {T : Tables} {a : Bool} {c : Nat} (h : lookup (T.iriEsc a) 0 c = 2) :
    escIRIRune T a c = 0x5c :: 0x55 :: hex8 c := by simp [escIRIRune, h]

theorem escLitRune_0 {T : Tables} {a : Bool} {c : Nat} (h : lookup (T.litEsc a) 0 c = 0) :
    escLitRune T a c = [c] := by simp [escLitRune, h]
theorem escLitRune_1 {T : Tables} {a : Bool} {c : Nat} (h : lookup (T.litEsc a) 0 c = 1) :
    escLitRune T a c = [0x5c, lookup T.echar 0 c] := by simp [escLitRune, h]
theorem escLitRune_2 {T : Tables} {a : Bool} {c : Nat} (h : lookup (T.litEsc a) 0 c = 2) :
    escLitRune T a c = 0x5c :: 0x75 :: hex4 c := by simp [escLitRune, h]
theorem escLitRune_3 {T : Tables} {a : Bool} {c : Nat} (h : lookup (T.litEsc a) 0 c = 3) :
    escLitRune T a c = 0x5c :: 0x55 :: hex8 c := by simp [escLitRune, h]

/-- The IRI scanner inverts `iriBody` on scalar strings. -/
theorem scanIRI_body (T : Tables) (hT : TablesOK T) (e : End) (ascii : Bool) (s : List Nat)
    (hs : Scalars s) (rest acc : List Nat) :
    scanIRI T e .body (iriBody T ascii s ++ 0x3e :: rest) acc = .ok (acc.reverse ++ s) rest := by
  induction s generalizing acc with
  | nil => simp [iriBody, scanIRI]
  | cons c s ih =>
    have hc : IsScalar c := hs c List.mem_cons_self
    have hs' : Scalars s := fun x hx => hs x (List.mem_cons_of_mem _ hx)
    have hmode := hT.iri_mode ascii c
    have ih' := fun acc => ih hs' acc
    simp only [iriBody, List.flatMap_cons, List.append_assoc] at ih' ⊢
    obtain h0 | h1 | h2 : lookup (T.iriEsc ascii) 0 c = 0 ∨ lookup (T.iriEsc ascii) 0 c = 1 ∨
        lookup (T.iriEsc ascii) 0 c = 2 := by omega
    · have hr := hT.iri_raw ascii c h0
      unfold iriRawOK at hr
      rw [escIRIRune_0 h0]
      simp only [List.cons_append, List.nil_append]
      rw [scanIRI]
      rw [if_neg (by omega), if_neg (by omega), if_neg (by omega), ih']
      simp
    · have := hT.iri_u4 ascii c h1
      rw [escIRIRune_1 h1]
      simp only [List.cons_append]
      rw [scanIRI_u4 T hT e c this, ih']
      simp
    · rw [escIRIRune_2 h2]
      simp only [List.cons_append]
      rw [scanIRI_u8 T hT e c (isScalar_le hc), ih']
      simp

theorem captureIRI_write (T : Tables) (hT : TablesOK T) (urlOk : List Nat → Bool) (e : End)
    (ascii : Bool) (v : List Nat) (hv : WFIri urlOk v) (rest : List Nat) :
    captureIRI T urlOk e (iriBody T ascii v ++ 0x3e :: rest) = .ok v rest := by
  unfold captureIRI
  rw [scanIRI_body T hT e ascii v hv.1]
  simp [goString_id_of_scalar hv.1, hv.2]

/-! ### literal scanner -/

theorem scanLit_body_bs (T : Tables) (e : End) (r acc : List Nat) :
    scanLit T e .body (0x5c :: r) acc = scanLit T e .esc r acc := by
  simp [scanLit]

theorem scanLit_esc_u (T : Tables) (e : End) (r acc : List Nat) :
    scanLit T e .esc (0x75 :: r) acc = scanLit T e (.hex uchar4Maxs 0) r acc := by
  simp [scanLit]

theorem scanLit_esc_U (T : Tables) (e : End) (r acc : List Nat) :
    scanLit T e .esc (0x55 :: r) acc = scanLit T e (.hex uchar8Maxs 0) r acc := by
  simp [scanLit]

theorem scanLit_hex_more (T : Tables) (hT : TablesOK T) (e : End) (m m' : Nat) (ms : List Nat)
    (v d : Nat) (hd : d < 16) (hm : d ≤ m) (r acc : List Nat) :
    scanLit T e (.hex (m :: m' :: ms) v) (hexUpper d :: r) acc
      = scanLit T e (.hex (m' :: ms) (v * 16 + d)) r acc := by
  rw [scanLit]
  rw [hT.hex d hd]
  simp only
  rw [if_neg (by omega)]

theorem scanLit_hex_last (T : Tables) (hT : TablesOK T) (e : End) (m : Nat)
    (v d : Nat) (hd : d < 16) (hm : d ≤ m) (r acc : List Nat) :
    scanLit T e (.hex [m] v) (hexUpper d :: r) acc
      = scanLit T e .body r ((v * 16 + d) :: acc) := by
  rw [scanLit]
  rw [hT.hex d hd]
  simp only
  rw [if_neg (by omega)]

theorem scanLit_u4 (T : Tables) (hT : TablesOK T) (e : End) (c : Nat) (hc : c ≤ 0xFFFF)
    (r acc : List Nat) :
    scanLit T e .body (0x5c :: 0x75 :: (hex4 c ++ r)) acc = scanLit T e .body r (c :: acc) := by
  rw [scanLit_body_bs, scanLit_esc_u]
  simp only [hex4, uchar4Maxs, List.cons_append, List.nil_append]
  rw [scanLit_hex_more T hT e _ _ _ _ _ (by omega) (by omega),
      scanLit_hex_more T hT e _ _ _ _ _ (by omega) (by omega),
      scanLit_hex_more T hT e _ _ _ _ _ (by omega) (by omega),
      scanLit_hex_last T hT e _ _ _ (by omega) (by omega)]
  congr 2
  omega

theorem scanLit_u8 (T : Tables) (hT : TablesOK T) (e : End) (c : Nat) (hc : c ≤ 0x10FFFF)
    (r acc : List Nat) :
    scanLit T e .body (0x5c :: 0x55 :: (hex8 c ++ r)) acc = scanLit T e .body r (c :: acc) := by
  rw [scanLit_body_bs, scanLit_esc_U]
  simp only [hex8, uchar8Maxs, List.cons_append, List.nil_append]
  rw [scanLit_hex_more T hT e _ _ _ _ _ (by omega) (by omega),
      scanLit_hex_more T hT e _ _ _ _ _ (by omega) (by omega),
      scanLit_hex_more T hT e _ _ _ _ _ (by omega) (by omega),
      scanLit_hex_more T hT e _ _ _ _ _ (by omega) (by omega),
      scanLit_hex_more T hT e _ _ _ _ _ (by omega) (by omega),
      scanLit_hex_more T hT e _ _ _ _ _ (by omega) (by omega),
      scanLit_hex_more T hT e _ _ _ _ _ (by omega) (by omega),
      scanLit_hex_last T hT e _ _ _ (by omega) (by omega)]
  congr 2
  omega

/-- The letters `echarDecode` accepts. -/
theorem echarDecode_some {x c : Nat} (h : echarDecode x = some c) :
    (x = 0x74 ∨ x = 0x62 ∨ x = 0x6e ∨ x = 0x72 ∨ x = 0x66 ∨ x = 0x22 ∨ x = 0x27 ∨ x = 0x5c) := by
  unfold echarDecode at h
  repeat' split at h
  all_goals first | omega | (simp at h)

theorem scanLit_echar (T : Tables) (e : End) (x c : Nat) (h : echarDecode x = some c)
    (r acc : List Nat) :
    scanLit T e .body (0x5c :: x :: r) acc = scanLit T e .body r (c :: acc) := by
  have hx := echarDecode_some h
  rw [scanLit_body_bs, scanLit]
  rw [if_neg (by omega), if_neg (by omega), h]

/-- The literal scanner inverts `litBody` on scalar strings. -/
theorem scanLit_body (T : Tables) (hT : TablesOK T) (e : End) (ascii : Bool) (s : List Nat)
    (hs : Scalars s) (rest acc : List Nat) :
    scanLit T e .body (litBody T ascii s ++ 0x22 :: rest) acc = .ok (acc.reverse ++ s) rest := by
  induction s generalizing acc with
  | nil => simp [litBody, scanLit]
  | cons c s ih =>
    have hc : IsScalar c := hs c List.mem_cons_self
    have hs' : Scalars s := fun x hx => hs x (List.mem_cons_of_mem _ hx)
    have hmode := hT.lit_mode ascii c
    have ih' := fun acc => ih hs' acc
    simp only [litBody, List.flatMap_cons, List.append_assoc] at ih' ⊢
    obtain h0 | h1 | h2 | h3 : lookup (T.litEsc ascii) 0 c = 0 ∨ lookup (T.litEsc ascii) 0 c = 1 ∨
        lookup (T.litEsc ascii) 0 c = 2 ∨ lookup (T.litEsc ascii) 0 c = 3 := by omega
    · have hr := hT.lit_raw ascii c h0
      rw [escLitRune_0 h0]
      simp only [List.cons_append, List.nil_append]
      rw [scanLit]
      rw [if_neg (by omega), if_neg (by omega), ih']
      simp
    · have := hT.lit_echar ascii c h1
      rw [escLitRune_1 h1]
      simp only [List.cons_append, List.nil_append]
      rw [scanLit_echar T e _ c this, ih']
      simp
    · have := hT.lit_u4 ascii c h2
      rw [escLitRune_2 h2]
      simp only [List.cons_append]
      rw [scanLit_u4 T hT e c this, ih']
      simp
    · rw [escLitRune_3 h3]
      simp only [List.cons_append]
      rw [scanLit_u8 T hT e c (isScalar_le hc), ih']
      simp


/-! ### language tags -/

theorem langSecondary_ok (e : End) (rest : List Nat) (t : List Nat) :
    ∀ (acc : List Nat) (need : Bool), langRest t need = true →
      (need = true → acc.head? = some 0x2d) → (need = false → acc.head? ≠ some 0x2d) →
      langSecondary e (t ++ 0x20 :: rest) acc = .ok (acc.reverse ++ t) (0x20 :: rest) := by
  induction t with
  | nil =>
    intro acc need h h1 h2
    have hn : need = false := by simpa [langRest] using h
    have := h2 hn
    simp [langSecondary, isAlpha, isDigit, this]
  | cons x t ih =>
    intro acc need h h1 h2
    unfold langRest at h
    simp only [List.cons_append]
    unfold langSecondary
    split at h
    · next hx =>
      rw [if_pos hx]
      have hx' : x ≠ 0x2d := by
        intro hh; subst hh; simp [isAlpha, isDigit] at hx
      rw [ih (x :: acc) false h (by simp) (by simp [hx'])]
      simp
    · next hx =>
      rw [if_neg hx]
      split at h
      · next hd =>
        subst hd
        simp only [Bool.and_eq_true, Bool.not_eq_true'] at h
        have := h2 h.1
        simp only [if_true, if_neg this]
        rw [ih (0x2d :: acc) true h.2 (by simp) (by simp)]
        simp
      · simp at h

theorem langPrimary_ok (e : End) (rest : List Nat) (t : List Nat) :
    ∀ (acc : List Nat) (seen : Bool), langPrim t seen = true →
      (seen = !acc.isEmpty) →
      langPrimary e (t ++ 0x20 :: rest) acc = .ok (acc.reverse ++ t) (0x20 :: rest) := by
  induction t with
  | nil =>
    intro acc seen h h1
    have hs : seen = true := by simpa [langPrim] using h
    have : acc.isEmpty = false := by simpa [hs] using h1
    simp [langPrimary, isAlpha, this]
  | cons x t ih =>
    intro acc seen h h1
    unfold langPrim at h
    simp only [List.cons_append]
    unfold langPrimary
    split at h
    · next hx =>
      rw [if_pos hx]
      rw [ih (x :: acc) true h (by simp)]
      simp
    · next hx =>
      rw [if_neg hx]
      split at h
      · next hd =>
        subst hd
        simp only [Bool.and_eq_true] at h
        have : acc.isEmpty = false := by simpa [h.1] using h1
        simp only [if_true, this, Bool.false_eq_true, if_false]
        rw [langSecondary_ok e rest t (0x2d :: acc) true h.2 (by simp) (by simp)]
        simp
      · simp at h

theorem langPrimary_write (e : End) (t rest : List Nat) (h : langOK t = true) :
    langPrimary e (t ++ 0x20 :: rest) [] = .ok t (0x20 :: rest) := by
  have := langPrimary_ok e rest t [] false h (by simp)
  simpa using this

/-! ### blank-node labels -/

theorem bnLoop_ok (T : Tables) (hT : TablesOK T) (e : End) (rest : List Nat) (xs : List Nat) :
    ∀ acc, (∀ x ∈ xs, (inRanges T.pnChars x || x = 0x2e) = true) →
      bnLoop T e (xs ++ 0x20 :: rest) acc = bnFinish T (xs.reverse ++ acc) (0x20 :: rest) := by
  induction xs with
  | nil =>
    intro acc _
    simp [bnLoop, hT.pn_sp]
  | cons x xs ih =>
    intro acc h
    have hx := h x List.mem_cons_self
    simp only [List.cons_append]
    unfold bnLoop
    rw [if_pos hx, ih _ (fun y hy => h y (List.mem_cons_of_mem _ hy))]
    simp

theorem captureBNode_write (T : Tables) (hT : TablesOK T) (e : End) (l rest : List Nat)
    (hl : labelOK T l = true) :
    captureBNode T e (l ++ 0x20 :: rest) = .ok l (0x20 :: rest) := by
  cases l with
  | nil => simp [labelOK] at hl
  | cons c xs =>
    simp only [labelOK, Bool.and_eq_true, List.all_eq_true] at hl
    obtain ⟨⟨h1, h2⟩, h3⟩ := hl
    simp only [List.cons_append]
    simp only [captureBNode]
    rw [if_pos h1, bnLoop_ok T hT e rest xs [c] h2]
    rcases List.eq_nil_or_concat xs with rfl | ⟨init, z, rfl⟩
    · simp [bnFinish]
    · have hz : inRanges T.pnChars z = true := by simpa using h3
      have hz' : z ≠ 0x2e := by
        intro hh; subst hh; rw [hT.pn_dot] at hz; exact Bool.noConfusion hz
      simp [bnFinish, hz, hz']

end RdfModel.Proofs.C01
