/-
  C20 helper lemmas: integer family and boolean — Map, AsObjectValue and TermEquals of the model
  against Spec.XsdLexical, under the fact conditions of Props/C20Defs.lean.
-/
import RdfModel.Proofs.C20Strconv
import RdfModel.Proofs.C20Collapse
import RdfModel.Props.C20Defs
namespace RdfModel.Proofs.C20
open RdfModel RdfModel.Xsd RdfModel.C20
open RdfModel.Spec.Xsd (natValue natDigits canonInt intLex signSplit digits1 IntTy Dt collapse collapseGo isWs)

/-! ### Go integer conversions -/

theorem wrap_id (g : GoInt) (v : Int) (hb : 1 ≤ g.bits) (hlo : g.lo ≤ v) (hhi : v ≤ g.hi) :
    g.wrap v = v := by
  obtain ⟨sg, b⟩ := g
  simp only [GoInt.lo, GoInt.hi, GoInt.wrap] at *
  have hpow := pow_pred_double b hb
  have hQ : ((2 ^ b : Nat) : Int) = 2 * ((2 ^ (b - 1) : Nat) : Int) := by
    rw [hpow]; simp
  cases sg with
  | false =>
    simp only [Bool.false_eq_true, if_false, false_and] at hlo hhi ⊢
    exact Int.emod_eq_of_lt hlo (by omega)
  | true =>
    simp only [if_true, true_and] at hlo hhi ⊢
    by_cases hv : 0 ≤ v
    · have h1 : v % ((2 ^ b : Nat) : Int) = v := Int.emod_eq_of_lt hv (by omega)
      rw [h1]
      have : ¬ (v ≥ ((2 ^ (b - 1) : Nat) : Int)) := by omega
      rw [if_neg this]
    · have h1 : v % ((2 ^ b : Nat) : Int) = v + ((2 ^ b : Nat) : Int) := by
        rw [← Int.add_emod_right]
        exact Int.emod_eq_of_lt (by omega) (by omega)
      rw [h1]
      have : v + ((2 ^ b : Nat) : Int) ≥ ((2 ^ (b - 1) : Nat) : Int) := by omega
      rw [if_pos this]; omega

theorem int64_lo : (⟨true, 64⟩ : GoInt).lo = -9223372036854775808 := by decide
theorem int64_hi : (⟨true, 64⟩ : GoInt).hi = 9223372036854775807 := by decide
theorem uint64_lo : (⟨false, 64⟩ : GoInt).lo = 0 := by decide
theorem uint64_hi : (⟨false, 64⟩ : GoInt).hi = 18446744073709551615 := by decide

/-- a formatter satisfying `fmtOK` prints the canonical representation of every value of the type -/
theorem fmtWith_ok {fm : Formatter} {conv g : GoInt} {base : Nat} (h : fmtOK fm conv g base = true)
    {v : Int} (hlo : g.lo ≤ v) (hhi : v ≤ g.hi) : fmtWith fm conv base v = some (canonInt v) := by
  simp only [fmtOK, Bool.and_eq_true, Bool.or_eq_true, beq_iff_eq, decide_eq_true_eq] at h
  obtain ⟨hb, h⟩ := h
  unfold fmtWith
  simp only [hb, ne_eq, not_true_eq_false, if_false]
  rcases h with ⟨⟨hf, hc⟩, h1, h2⟩ | ⟨⟨hf, hc⟩, h1, h2⟩
  · subst hf hc
    simp only [if_true]
    rw [wrap_id _ v (by decide) (by rw [int64_lo]; omega) (by rw [int64_hi]; omega), fmtInt_eq]
  · subst hf hc
    simp only [if_true]
    rw [wrap_id _ v (by decide) (by rw [uint64_lo]; omega) (by rw [uint64_hi]; omega), fmtNat_eq]
    have : ¬ (v < 0) := by omega
    simp [canonInt, this]

/-! ### canonical representation -/

theorem intLex_canon (v : Int) : intLex (canonInt v) = some v := by
  unfold canonInt
  by_cases hv : v < 0
  · simp only [hv, if_true]
    unfold intLex
    rw [signSplit_cons]
    simp only [if_true, natDigits_digits1, natDigits_val]
    congr 1
    omega
  · simp only [hv, if_false]
    obtain ⟨d, r, hdr, h1, h2⟩ := natDigits_head v.toNat
    have hd1 := natDigits_digits1 v.toNat
    have hval := natDigits_val v.toNat
    rw [hdr] at hd1 hval ⊢
    unfold intLex
    rw [signSplit_cons]
    have e1 : ¬ (d = 0x2D) := by omega
    have e2 : ¬ (d = 0x2B) := by omega
    simp only [e1, e2, if_false, hd1, if_true, hval, Bool.false_eq_true]
    congr 1
    omega

theorem isWs_digit {b : Nat} (h : 0x30 ≤ b ∧ b ≤ 0x39) : isWs b = false := by
  simp only [isWs, Bool.or_eq_false_iff, beq_eq_false_iff_ne]
  omega

theorem collapseGo_noWs (s : Bytes) (h : NoWs s) : collapseGo .inWord s = s := by
  induction s with
  | nil => rfl
  | cons b r ih =>
    have hb : isWs b = false := h b (List.mem_cons_self)
    simp only [collapseGo, hb]
    simp [ih (fun x hx => h x (List.mem_cons_of_mem _ hx))]

theorem collapse_noWs (s : Bytes) (h : NoWs s) : collapse s = s := by
  cases s with
  | nil => rfl
  | cons b r =>
    have hb : isWs b = false := h b (List.mem_cons_self)
    simp only [collapse, collapseGo, hb]
    simp [collapseGo_noWs r (fun x hx => h x (List.mem_cons_of_mem _ hx))]

theorem noWs_of_digits {s : Bytes} (h : s.all Spec.Xsd.isDigit = true) : NoWs s := by
  intro b hb
  have := List.all_eq_true.1 h b hb
  exact isWs_digit ((isDigit_iff b).1 this)

theorem canonInt_noWs (v : Int) : NoWs (canonInt v) := by
  unfold canonInt
  split
  · intro b hb
    rcases List.mem_cons.1 hb with rfl | hb
    · decide
    · exact noWs_of_digits (natDigits_all _) b hb
  · exact noWs_of_digits (natDigits_all _)

/-! ### the facts, unpacked -/

theorem bits_ok (T : IntTy) : 2 ≤ expBits T ∧ expBits T ≤ 64 := by cases T <;> decide

theorem range_signed (T : IntTy) (h : expParser T = .parseInt) :
    goLo T = -((2 ^ (expBits T - 1) : Nat) : Int) ∧ goHi T = ((2 ^ (expBits T - 1) : Nat) : Int) - 1 := by
  cases T <;> first | decide | (simp [expParser] at h)

theorem range_unsigned (T : IntTy) (h : expParser T = .parseUint) :
    goLo T = 0 ∧ goHi T = ((2 ^ (expBits T) : Nat) : Int) - 1 := by
  cases T <;> first | decide | (simp [expParser] at h)

theorem expParser_cases (T : IntTy) : expParser T = .parseInt ∨ expParser T = .parseUint := by
  cases T <;> simp [expParser]

theorem inValueSpace_iff (T : IntTy) (v : Int) (h1 : goLo T ≤ v) (h2 : v ≤ goHi T) :
    T.inValueSpace v = true := by
  cases T <;> simp [IntTy.inValueSpace, IntTy.lo, IntTy.hi, goLo, goHi] at h1 h2 ⊢ <;> omega

theorem lexOK_int (T : IntTy) (s : Bytes) : Spec.Xsd.lexOK T.dt s = Spec.Xsd.intLexOK T s := by
  cases T <;> rfl

theorem normalize_int (T : IntTy) (s : Bytes) : Spec.Xsd.normalize T.dt s = collapse s := by
  cases T <;> rfl

structure IntFactP (T : IntTy) (f : IntFact) : Prop where
  collapse : f.collapse = true
  base : f.base = 10
  parser : f.parser = expParser T
  bits : f.bitSize = expBits T
  glo : f.goType.lo ≤ goLo T
  ghi : goHi T ≤ f.goType.hi
  gbits : 1 ≤ f.goType.bits
  obj : fmtOK f.objFmt f.objConv f.goType f.objBase = true
  eq : fmtOK f.eqFmt f.eqConv f.goType f.eqBase = true
  dt : f.datatype = dtIRI T.dt
  same : f.eqDatatypeSame = true

theorem intFactOK_elim {T : IntTy} {f : IntFact} (h : intFactOK T f = true) : IntFactP T f := by
  simp only [intFactOK, Bool.and_eq_true, beq_iff_eq, decide_eq_true_eq] at h
  obtain ⟨⟨⟨⟨⟨⟨⟨⟨⟨⟨h1, h2⟩, h3⟩, h4⟩, h5⟩, h6⟩, h7⟩, h8⟩, h9⟩, h10⟩, h11⟩ := h
  exact ⟨h1, h2, h3, h4, h5, h6, h7, h8, h9, h10, h11⟩

theorem intLex_of_digits1 {s : Bytes} (h : digits1 s = true) : intLex s = some (natValue s : Int) := by
  obtain ⟨hne, hall⟩ := (digits1_iff s).1 h
  cases s with
  | nil => exact absurd rfl hne
  | cons c r =>
    simp only [List.all_cons, Bool.and_eq_true] at hall
    have hc := (isDigit_iff c).1 hall.1
    unfold intLex
    rw [signSplit_cons]
    have e1 : ¬ (c = 0x2D) := by omega
    have e2 : ¬ (c = 0x2B) := by omega
    simp [e1, e2, h]

/-! ### Map -/

theorem mapInt_sound {T : IntTy} {f : IntFact} (hf : IntFactP T f) {s : Bytes} {v : Int}
    (h : mapInt f s = .ok v) : intLex (collapse s) = some v ∧ goLo T ≤ v ∧ v ≤ goHi T := by
  unfold mapInt argOf at h
  simp only [hf.collapse, if_true, hf.base, hf.bits, hf.parser, collapse_spec] at h
  obtain ⟨hb2, hb64⟩ := bits_ok T
  rcases expParser_cases T with hp | hp
  · simp only [hp] at h
    cases hpi : parseInt (collapse s) 10 (expBits T) with
    | error e => simp [hpi] at h
    | ok w =>
      simp only [hpi, Except.ok.injEq] at h
      obtain ⟨h1, h2, h3⟩ := parseInt_sound hb2 hb64 hpi
      obtain ⟨r1, r2⟩ := range_signed T hp
      have hw : f.goType.wrap w = w :=
        wrap_id _ w hf.gbits (by have := hf.glo; omega) (by have := hf.ghi; omega)
      rw [hw] at h
      subst h
      exact ⟨h1, by omega, by omega⟩
  · simp only [hp] at h
    cases hpu : parseUint (collapse s) 10 (expBits T) with
    | error e => simp [hpu] at h
    | ok n =>
      simp only [hpu, Except.ok.injEq] at h
      obtain ⟨h1, h2, h3⟩ := parseUint_sound (by omega) hb64 hpu
      obtain ⟨r1, r2⟩ := range_unsigned T hp
      have hpos : 1 ≤ 2 ^ expBits T := Nat.pow_pos (by omega)
      have hw : f.goType.wrap (n : Int) = n :=
        wrap_id _ n hf.gbits (by have := hf.glo; omega) (by have := hf.ghi; omega)
      rw [hw] at h
      subst h
      refine ⟨?_, by omega, by omega⟩
      rw [intLex_of_digits1 h1, h2]

/-- every canonical representation of a representable value maps to that value -/
theorem mapInt_canon {T : IntTy} {f : IntFact} (hf : IntFactP T f) {v : Int}
    (hlo : goLo T ≤ v) (hhi : v ≤ goHi T) : mapInt f (canonInt v) = .ok v := by
  unfold mapInt argOf
  simp only [hf.collapse, if_true, hf.base, hf.bits, hf.parser, collapse_spec,
    collapse_noWs _ (canonInt_noWs v)]
  obtain ⟨hb2, hb64⟩ := bits_ok T
  have hw : f.goType.wrap v = v :=
    wrap_id _ v hf.gbits (by have := hf.glo; omega) (by have := hf.ghi; omega)
  rcases expParser_cases T with hp | hp
  · obtain ⟨r1, r2⟩ := range_signed T hp
    have := parseInt_complete hb2 hb64 (intLex_canon v) (by omega) (by omega)
    simp [hp, this, hw]
  · obtain ⟨r1, r2⟩ := range_unsigned T hp
    have hv : ¬ (v < 0) := by omega
    have hc : canonInt v = natDigits v.toNat := by simp [canonInt, hv]
    have hpos : 1 ≤ 2 ^ expBits T := Nat.pow_pos (by omega)
    have := parseUint_complete (b := expBits T) (by omega) hb64 (natDigits_digits1 v.toNat)
      (by rw [natDigits_val]; omega)
    rw [natDigits_val] at this
    have hcast : ((v.toNat : Nat) : Int) = v := by omega
    simp [hp, hc, this, hcast, hw]

/-- a signed type accepts every lexical form of a representable value, not only the canonical one -/
theorem mapInt_complete_signed {T : IntTy} {f : IntFact} (hf : IntFactP T f) (hp : expParser T = .parseInt)
    {s : Bytes} {v : Int} (hl : intLex (collapse s) = some v) (hlo : goLo T ≤ v) (hhi : v ≤ goHi T) :
    mapInt f s = .ok v := by
  unfold mapInt argOf
  simp only [hf.collapse, if_true, hf.base, hf.bits, hf.parser, collapse_spec]
  obtain ⟨hb2, hb64⟩ := bits_ok T
  obtain ⟨r1, r2⟩ := range_signed T hp
  have hw : f.goType.wrap v = v :=
    wrap_id _ v hf.gbits (by have := hf.glo; omega) (by have := hf.ghi; omega)
  have := parseInt_complete hb2 hb64 hl (by omega) (by omega)
  simp [hp, this, hw]

/-! ### AsObjectValue, TermEquals -/

theorem lexInt_canon {T : IntTy} {f : IntFact} (hf : IntFactP T f) {v : Int}
    (hlo : goLo T ≤ v) (hhi : v ≤ goHi T) : lexInt f v = some (canonInt v) :=
  fmtWith_ok hf.obj (by have := hf.glo; omega) (by have := hf.ghi; omega)

theorem termEqualsInt_spec {T : IntTy} {f : IntFact} (hf : IntFactP T f) {v : Int}
    (hlo : goLo T ≤ v) (hhi : v ≤ goHi T) (t : TermArg) :
    termEqualsInt f v t = some (decide (t = .literal (dtIRI T.dt) (canonInt v))) := by
  have hfmt : fmtWith f.eqFmt f.eqConv f.eqBase v = some (canonInt v) :=
    fmtWith_ok hf.eq (by have := hf.glo; omega) (by have := hf.ghi; omega)
  cases t with
  | notLiteral => simp [termEqualsInt]
  | literal dt lex =>
    simp only [termEqualsInt, hf.same, hf.dt, hfmt]
    by_cases hd : dt = dtIRI T.dt
    · subst hd
      by_cases hl : canonInt v = lex
      · subst hl; simp
      · have : ¬ (lex = canonInt v) := fun e => hl e.symm
        simp [hl, this]
    · simp [hd]

end RdfModel.Proofs.C20
