package main

// Keyword-colliding prefix labels in SUBJECT position of encoder output (builder-ttlmiss, round 3e).
//
// Round-3 seed C02r3-2 (Turtle reader_scanStatement pushes back three of the four runes it consumed when a
// statement starts with p-r-e followed by anything but 'f') slipped through this harness because the prefix-table
// generator drew its labels from a hand-picked list (plainLabels: "prefix", "Prefix", "P", "base", "b", "graph" …)
// that had a label for the first rung of each keyword ladder and for the whole keyword, but none that leaves the
// PREFIX ladder at its 2nd, 3rd, 4th or 5th rung ("pr", "pre", "pred", "prefi" …).  The family is now derived from
// the keyword list (vh.KeywordLabels: every rung of every ladder x every kind of rune that can follow) and used in
// two ways:
//
//   - kwSweep: a deterministic sweep, every label of the family x {label alone, all one-edit siblings bound to other
//     namespaces} x {unbuffered, buffered} x {AddTriple, AddResource, BufferedTriplesEncoder} x the four prefix
//     directive modes (rotating), on a fixed 4-5 triple graph whose subjects lie in the label's namespace (first
//     statement of the document, after a '.', after a sibling's statement);
//   - config(): the random configurations draw a quarter of their labels from the family (and bind a sibling), so
//     the labels also meet bases, nested resources, lists and exotic IRIs.
//
// The oracle is the ordinary one of this harness (document accepted by turtle.NewDecoder and isomorphic to the
// input); the known classes stay exact: `prefix-label-boolean-keyword` applies to OBJECT position only, the sweep
// uses the family labels for subjects and `o:` for everything else.

import (
	"fmt"

	"verifharness/vh"

	"github.com/dpb587/rdfkit-go/iri"
)

var kwFam = vh.KeywordLabels()

func (g *gen) kwSweep() {
	locals := []string{"knows", "", "fix", "e", "x1", "ase", "raph"}
	oNS := vh.KwNamespace("o")
	lit := vh.GTerm{Kind: vh.KLit, Lex: "x", DT: vh.XSDString}
	n := 0
	for li, l := range kwFam {
		ns := vh.KwNamespace(l.Label)
		sibs := vh.KwSiblings(l.Label)
		for si, withSib := range []bool{false, true} {
			table := iri.PrefixMappingList{{Prefix: "o", Expanded: oNS}, {Prefix: l.Label, Expanded: ns}}
			if withSib {
				for _, s := range sibs {
					if s != "o" {
						table = append(table, iri.PrefixMapping{Prefix: s, Expanded: vh.KwNamespace(s)})
					}
				}
			}
			ts := []vh.GQuad{
				{S: iriT(ns + locals[li%len(locals)]), P: iriT(oNS + "p"), O: iriT(oNS + "o")},
				{S: iriT(oNS + "s"), P: iriT(oNS + "p"), O: lit},
				{S: iriT(ns + locals[(li+1)%len(locals)]), P: iriT(rdfType), O: iriT(oNS + "C")},
				{S: iriT(ns + locals[(li+1)%len(locals)]), P: iriT(oNS + "q"), O: bnT(0)},
			}
			if withSib && len(sibs) > 0 {
				s := sibs[li%len(sibs)]
				if s != "o" {
					ts = append(ts, vh.GQuad{S: iriT(vh.KwNamespace(s) + locals[li%len(locals)]), P: iriT(oNS + "p"), O: iriT(oNS + "o")})
				}
			}
			for buffered := 0; buffered <= 1; buffered++ {
				for ki, kind := range []byte{'t', 'r', 'b'} {
					c := &caseT{kind: kind, labels: map[int]string{0: "b0"}, tag: "kwfam"}
					pm := (li+si+buffered+ki)%4 - 1
					c.cfg = cfgT{buffered: buffered, sort: -1, bm: -1, pm: pm, prefixes: table}
					if kind == 'r' {
						// one resource per subject, statements in input order
						var order []string
						by := map[string]*resT{}
						for _, q := range ts {
							r, ok := by[q.S.IRI]
							if !ok {
								r = &resT{root: 's', subj: q.S}
								by[q.S.IRI] = r
								order = append(order, q.S.IRI)
							}
							r.stmts = append(r.stmts, stmtT{pred: q.P.IRI, obj: q.O})
						}
						for _, s := range order {
							c.rs = append(c.rs, *by[s])
						}
					} else {
						c.ts = ts
					}
					g.run(c)
					n++
				}
			}
		}
		g.rep.Count(fmt.Sprintf("kwfam:%s:rung%d:next-%s", l.Keyword, l.StemLen, l.Next))
	}
	g.rep.Hist["kwfam:sweep-cases"] += n
	g.rep.Exhaustive = append(g.rep.Exhaustive, fmt.Sprintf("keyword-colliding prefix labels in subject position: all %d labels derived from the keywords the Turtle/TriG scanners look ahead for (prefix, base, graph in lower/UPPER/Title/alternating case; a, true, false: every proper prefix, the keyword, keyword+1 rune) x next rune {':', continuing letter, other letter, digit, '-', '.'} x {label alone, one-edit sibling labels bound to other namespaces} x {unbuffered, buffered} x {AddTriple, AddResource, BufferedTriplesEncoder}, prefix directive mode rotating over unset/@/SPARQL/disabled: %d documents", len(kwFam), n))
	g.flushIfLarge()
}

// kwLabelFor: a family label (random configurations), and the siblings to bind beside it.
func (g *gen) kwLabelFor() (string, []string) {
	l := vh.Pick(g.r, kwFam)
	g.rep.Count("cfg:kw-family-label")
	return l.Label, vh.KwSiblings(l.Label)
}
